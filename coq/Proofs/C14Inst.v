(** C14: the section hypotheses of [Proofs/C14.v] and [Proofs/C14Fail.v] hold for the executable
    instance ([Model/SphinxInst.v]: ChaCha20 stream, HMAC-SHA256, BigSize-framed payloads), so the
    theorems apply to exactly the functions that the correspondence check compares byte for byte
    with rust-lightning. *)
From Coq Require Import ZArith List Bool Lia.
Require Import LdkV.Crypto.Bytes LdkV.Crypto.Sha256 LdkV.Crypto.Hmac LdkV.Crypto.ChaCha20.
Require Import LdkV.Model.Sphinx LdkV.Model.OnionFail LdkV.Model.SphinxInst.
Require Import LdkV.Proofs.C14 LdkV.Proofs.C14Fail LdkV.Proofs.C14Hold.
Import ListNotations.
Open Scope nat_scope.

Lemma ks_chacha_length k n : length (ks_chacha k n) = n.
Proof. apply length_chacha20_stream. Qed.

Lemma ks_chacha_prefix k m n : m <= n -> firstn m (ks_chacha k n) = ks_chacha k m.
Proof. apply chacha20_stream_prefix. Qed.

Lemma hmac_sha256_length k m : length (hmac_sha256 k m) = 32.
Proof. apply length_hmac_sha256. Qed.

(** payloads whose TLV stream is shorter than 2^16 bytes (every payload that fits an onion) *)
Definition frame_ok (content : bytes) : Prop := (Z.of_nat (length content) < 65536)%Z.

Lemma frame_parse_enc content r : frame_ok content -> frame_parse (frame_enc content ++ r) = Some (content, r).
Proof.
  unfold frame_ok, frame_parse, frame_enc, bigsize_enc. intros H.
  set (n := Z.of_nat (length content)) in *.
  assert (Hn : (0 <= n)%Z) by (unfold n; lia).
  destruct (n <? 253)%Z eqn:E1.
  - cbn [app bigsize_dec]. rewrite E1. rewrite app_length.
    destruct (Z.of_nat (length content + length r) <? n)%Z eqn:E2; [apply Z.ltb_lt in E2; unfold n in E2; lia|].
    unfold n. rewrite Nat2Z.id. now rewrite firstn_app_exact, skipn_app_exact.
  - apply Z.ltb_ge in E1. destruct (n <? 65536)%Z eqn:E3; [|apply Z.ltb_ge in E3; lia].
    cbn [app bigsize_dec]. change (253 <? 253)%Z with false. change (253 =? 253)%Z with true. cbv iota.
    rewrite <- app_assoc, !app_length, length_be16.
    destruct (2 + (length content + length r) <? 2) eqn:E4; [apply Nat.ltb_lt in E4; lia|].
    rewrite of_be16_be16_app by lia.
    destruct (n <? 253)%Z eqn:E5; [apply Z.ltb_lt in E5; lia|].
    change (skipn 2 (be16 n ++ ?t)) with t. rewrite app_length.
    destruct (Z.of_nat (length content + length r) <? n)%Z eqn:E2; [apply Z.ltb_lt in E2; unfold n in E2; lia|].
    unfold n. rewrite Nat2Z.id. now rewrite firstn_app_exact, skipn_app_exact.
Qed.

(** * The theorems for the instance *)

Definition i_delivers := delivers bytes frame_parse ks_chacha hmac_sha256.
Definition i_layers_nonzero := layers_nonzero bytes frame_enc ks_chacha hmac_sha256.
Definition i_total_len := total_len bytes frame_enc.

Theorem ldk_peel_build noise (hs : list (hopkeys * bytes)) ad :
  hs <> [] -> Forall frame_ok (map snd hs) -> i_total_len hs <= length noise ->
  exists P0, i_build noise hs ad = Some P0 /\ length (p_data P0) = length noise /\ length (p_hmac P0) = 32 /\
    (i_layers_nonzero noise hs ad ->
       i_delivers (length noise) (map fst hs) ad P0 (map snd hs) /\
       i_peel_route (map fst hs) ad P0 = (map snd hs, None, true)).
Proof.
  apply (peel_build bytes frame_enc frame_parse ks_chacha hmac_sha256 frame_ok
           ks_chacha_length ks_chacha_prefix hmac_sha256_length frame_parse_enc).
Qed.

Theorem ldk_build_none_iff noise (hs : list (hopkeys * bytes)) ad :
  i_build noise hs ad = None <-> hs = [] \/ length noise < i_total_len hs.
Proof.
  apply (build_none_iff bytes frame_enc ks_chacha hmac_sha256 ks_chacha_length hmac_sha256_length).
Qed.

Theorem ldk_failure_attributed before ki after code d hold_i :
  (0 <= code < 65536)%Z -> (2 + Z.of_nat (length d) < 65535)%Z ->
  no_spurious_match ks_chacha hmac_sha256 (map fst before)
    (crypt_data ks_chacha ki (failure_plain hmac_sha256 ki code d DEFAULT_MIN_FAILURE_PACKET_LEN)) ->
  fst (i_process_onion_failure (map fst before ++ ki :: after)
         (failure_at_sender ks_chacha hmac_sha256 before ki code d hold_i))
  = Attributed (length before) code d.
Proof.
  apply (failure_attributed ks_chacha hmac_sha256 ks_chacha_length hmac_sha256_length).
Qed.

Theorem ldk_hold_times_fulfill (hops : list (fkeys * Z)) :
  hops <> [] ->
  Forall (fun kh => (0 <= snd kh < 2 ^ 32)%Z) hops ->
  exists E : attribution,
    fulfill_at_sender ks_chacha hmac_sha256 hops = Some E /\
    i_decode_fulfill (map fst hops) E = firstn MAX_HOPS (map snd hops).
Proof. apply (hold_times_fulfill ks_chacha hmac_sha256 ks_chacha_length hmac_sha256_length). Qed.
