(** C10 proofs: the reload decision ([Model/Restart.v]) and its composition with the monitor-update
    pipeline model of C09 ([Model/MonUpd.v]). *)
Require Import LdkV.Prim.U64 LdkV.Model.Restart LdkV.Model.MonUpd LdkV.Proofs.C09a LdkV.Proofs.C09b LdkV.Proofs.C09.
Open Scope Z_scope.

(** ---------- 1. a channel behind its monitor on any of the four counters is closed, never resumed *)
Lemma stale_is_closed c m :
  (stale c m = true -> reload c m = Closed (ms_id m + 1)) /\
  (stale c m = false ->
     cs_holder c <= ms_holder m /\ cs_revoked c <= ms_secret m /\ cs_cparty c <= ms_cparty m /\ ms_id m <= cs_latest c /\
     forall i, reload c m <> Closed i).
Proof.
  unfold reload. split; intros Hs; rewrite Hs; [reflexivity|].
  unfold stale in Hs. rewrite !orb_false_iff in Hs. destruct Hs as [[[H1 H2] H3] H4].
  repeat split; try lia.
  intros i. destruct (cs_unblocked c >? _); discriminate.
Qed.

Lemma closed_iff_stale c m i : reload c m = Closed i <-> stale c m = true /\ i = ms_id m + 1.
Proof.
  destruct (stale c m) eqn:Hs.
  - destruct (stale_is_closed c m) as [A _]. rewrite (A Hs). split; [intros E; injection E as <-; auto|intros [_ ->]; reflexivity].
  - destruct (stale_is_closed c m) as [_ B]. destruct (B Hs) as (_ & _ & _ & _ & N). split; [intros E; destruct (N _ E)|intros [E _]; discriminate].
Qed.

(** ---------- 2. replay: exactly the in-flight updates the monitor does not contain, in order; idempotent *)
Lemma filter_length_le {A} (f : A -> bool) l : (List.length (filter f l) <= List.length l)%nat.
Proof. induction l as [|x t IH]; cbn; [lia|]. destruct (f x); cbn; lia. Qed.

Lemma filter_length_all {A} (f : A -> bool) l :
  (List.length (filter f l) =? List.length l)%nat = true -> filter f l = l.
Proof.
  intros E. apply Nat.eqb_eq in E. induction l as [|x t IH]; [reflexivity|].
  cbn in *. destruct (f x); cbn in *.
  - f_equal. apply IH. lia.
  - pose proof (filter_length_le f t). lia.
Qed.

Lemma filter_all_mono a b l :
  a <= b -> filter (fun i => i <=? a) l = l -> filter (fun i => i <=? b) l = l.
Proof.
  intros Hab. induction l as [|x t IH]; [reflexivity|]. cbn. destruct (x <=? a) eqn:Hx.
  - intros F. injection F as F. destruct (x <=? b) eqn:Hy; [|lia]. f_equal. apply IH, F.
  - intros F. exfalso. pose proof (filter_length_le (fun i => i <=? a) t). rewrite F in H. cbn in H. lia.
Qed.

Lemma replay_spec c m r e b :
  reload c m = Resumed r e b ->
  (forall i, In i r -> In i (cs_inflight c) /\ ms_id m < i) /\
  (r <> [] -> forall i, In i (cs_inflight c) -> ms_id m < i -> In i r) /\
  (r = [] \/ r = filter (fun i => ms_id m <? i) (cs_inflight c)) /\
  b = filter (fun i => ms_id m <? i) (cs_blocked c) /\
  (e <> None -> r = [] /\ forall i, In i (cs_inflight c) -> i <= ms_id m).
Proof.
  unfold reload. destruct (stale c m); [discriminate|].
  destruct (cs_unblocked c >? _); [discriminate|]. intros E. injection E as <- <- <-.
  match goal with |- context [Nat.eqb ?a ?b] => destruct (Nat.eqb a b) eqn:Ha end.
  - split; [intros i []|]. split; [intros Hn; congruence|]. split; [left; reflexivity|]. split; [reflexivity|].
    intros _. split; [reflexivity|]. intros i Hi.
    rewrite <- (filter_length_all _ _ Ha) in Hi. apply filter_In in Hi. destruct Hi as [_ Hi]. lia.
  - split; [intros i Hi; apply filter_In in Hi; destruct Hi as [Hi Hlt]; split; [exact Hi|lia]|].
    split; [intros _ i Hi Hlt; apply filter_In; split; [exact Hi|lia]|].
    split; [right; reflexivity|]. split; [reflexivity|].
    intros Hne. destruct (cs_inflight c); congruence.
Qed.

Lemma maxl_ge l : forall a, a <= fold_left Z.max l a /\ forall i, In i l -> i <= fold_left Z.max l a.
Proof.
  induction l as [|x t IH]; intros a; cbn; [split; [lia|intros i []]|].
  destruct (IH (Z.max a x)) as [A B]. split; [lia|]. intros i [<-|Hi]; [lia|apply B, Hi].
Qed.
Lemma maxl_In l i : In i l -> i <= maxl l.
Proof. intros Hi. unfold maxl. apply (proj2 (maxl_ge l 0)), Hi. Qed.

(** a second crash during recovery, after some replayed updates landed (the monitor moved to [id'] and
    the re-serialized manager still lists the same in-flight updates): nothing new is replayed, nothing
    that already landed is replayed again, and the reload still succeeds. *)
Lemma replay_idempotent c m r e b id' :
  reload c m = Resumed r e b -> ms_id m <= id' -> id' <= cs_latest c ->
  exists r' e' b', reload c (advance m id') = Resumed r' e' b' /\
    (forall i, In i r' -> In i r /\ id' < i) /\ (forall i, In i b' -> In i b /\ id' < i).
Proof.
  intros E Hle Hlat. pose proof E as E0. unfold reload in E.
  destruct (stale c m) eqn:Hs; [discriminate|].
  destruct (cs_unblocked c >? _) eqn:Hd; [discriminate|].
  unfold reload.
  assert (Hs' : stale c (advance m id') = false).
  { unfold stale in *. cbn. rewrite !orb_false_iff in *. destruct Hs as [[[H1 H2] H3] H4]. repeat split; auto. lia. }
  rewrite Hs'. cbn [ms_id advance].
  assert (Hd' : (cs_unblocked c >? match cs_inflight c with [] => id' | _ :: _ => Z.max id' (maxl (cs_inflight c)) end) = false).
  { destruct (cs_inflight c); lia. }
  rewrite Hd'. eexists _, _, _. split; [reflexivity|].
  injection E as <- <- <-.
  split.
  - intros i Hi.
    destruct (Nat.eqb (List.length (filter (fun i0 => i0 <=? id') (cs_inflight c))) (List.length (cs_inflight c))) eqn:Ha'; [destruct Hi|].
    apply filter_In in Hi. destruct Hi as [Hi Hlt]. split; [|lia].
    destruct (Nat.eqb (List.length (filter (fun i0 => i0 <=? ms_id m) (cs_inflight c))) (List.length (cs_inflight c))) eqn:Ha.
    + (* everything was already complete for the older monitor: then also for the newer one *)
      exfalso. pose proof (filter_length_all _ _ Ha) as F.
      rewrite (filter_all_mono _ _ _ Hle F), Nat.eqb_refl in Ha'. discriminate.
    + apply filter_In. split; [exact Hi|lia].
  - intros i Hi. apply filter_In in Hi. destruct Hi as [Hi Hlt]. split; [apply filter_In; split; [exact Hi|lia]|lia].
Qed.

(** ---------- 3. composition with the pipeline: the reload never reports a stale monitor *)
(** The ChannelManager snapshot taken in pipeline state [s] (the three commitment-number counters are
    whatever they are; they do not enter the DangerousValue test). *)
Definition snapshot_of (s : st) (holder revoked cparty : Z) : csnap :=
  mkCsnap (latest (ch s)) (latest (ch s) - zlen (blocked (ch s))) holder revoked cparty
          (inflight (mg s)) (ids (blocked (ch s))).

Lemma consec_last a l : l <> [] -> consec a l -> In (a + zlen l - 1) l.
Proof.
  revert a. induction l as [|x t IH]; intros a Hne Hc; [congruence|].
  cbn in Hc. destruct Hc as [-> Hc]. rewrite zlen_cons. destruct t as [|y t'].
  - left. change (zlen (@nil Z)) with 0. lia.
  - right. replace (a + (zlen (y :: t') + 1) - 1) with (a + 1 + zlen (y :: t') - 1) by lia.
    apply IH; [discriminate|exact Hc].
Qed.

Theorem reload_total c ls holder revoked cparty (m : msnap) :
  let s := reach c ls in
  (* the monitor read from disk contains at least every update that had been reported complete when the
     snapshot was taken (it may contain more: later completions, landed in-flight writes) *)
  (forall i, In i (done (gh s)) -> i <= ms_id m) -> base_of c <= ms_id m ->
  reload (snapshot_of s holder revoked cparty) m <> Dangerous.
Proof.
  cbn zeta. intros Hdone Hbase. destruct (reach_inv c ls) as (I & _ & Eb).
  set (s := reach c ls) in *.
  unfold reload. destruct (stale _ m); [discriminate|].
  match goal with |- (if ?x then _ else _) <> _ => destruct x eqn:Hd end; [|discriminate].
  exfalso. cbn [cs_unblocked cs_inflight snapshot_of] in Hd.
  assert (Hu : latest (ch s) - zlen (blocked (ch s)) = lasth s).
  { rewrite (ia_latest _ _ I). change (zlen (@nil Z)) with 0. lia. }
  rewrite Hu in Hd.
  assert (Hin : In (lasth s) (H s)).
  { destruct (ia_first _ _ I) as [t Ht]. pose proof (ia_consec _ _ I) as Hc. apply consec_app in Hc. destruct Hc as [Hc _].
    unfold lasth. apply consec_last; [rewrite Ht; discriminate|exact Hc]. }
  destruct (in_dec Z.eq_dec (lasth s) (done (gh s))) as [Hx|Hx].
  - specialize (Hdone _ Hx). destruct (inflight (mg s)); lia.
  - destruct (ia_infl _ _ I _ Hin Hx) as [Hy|Hy].
    + pose proof (maxl_In _ _ Hy). destruct (inflight (mg s)); [destruct Hy|]. lia.
    + rewrite Hy, Eb in Hd. destruct (inflight (mg s)); lia.
Qed.

(** non-vacuity *)
Definition demo_c : csnap := mkCsnap 7 6 100 101 100 [5; 6] [7].
Definition demo_m5 : msnap := mkMsnap 5 100 101 100.
Lemma demo_reload :
  reload demo_c (mkMsnap 4 100 101 100) = Resumed [5; 6] None [7] /\
  reload demo_c demo_m5 = Resumed [6] None [7] /\
  reload demo_c (mkMsnap 6 100 101 100) = Resumed [] (Some 6) [7] /\
  reload demo_c (mkMsnap 8 100 101 100) = Closed 9 /\
  reload demo_c (mkMsnap 5 99 101 100) = Closed 6 /\
  reload (mkCsnap 7 7 100 101 100 [5] []) demo_m5 = Dangerous.
Proof. vm_compute. repeat split. Qed.
