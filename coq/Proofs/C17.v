(** C17 — the statements of [Props/C17.v], assembled from the lemma files. *)
From stdpp Require Import gmap.
From Coq Require Import ZArith String Lia ZifyBool.
Require Import LdkV.Gen.GossipConsts LdkV.Model.Gossip LdkV.Model.GossipSpec.
Require Import LdkV.Proofs.C17Base LdkV.Proofs.C17Step LdkV.Proofs.C17Removal.
Require Import LdkV.Proofs.C17Auth LdkV.Proofs.C17Order.
Open Scope Z_scope.

Lemma wf_all cf ops : wf (run cf g_init ops).
Proof. apply run_wf, init_wf. Qed.

Lemma wf_step cf g o : wf g → wf (step cf g o).2.
Proof. apply step_wf. Qed.

Lemma monotone cf g o :
  (∀ scid d u u', g_dir g scid d = Some u → g_dir (step cf g o).2 scid d = Some u' →
                  u' = u ∨ ui_ts u < ui_ts u') ∧
  (∀ nid a a', g_nann g nid = Some a → g_nann (step cf g o).2 nid = Some a' →
               a' = a ∨ na_ts a < na_ts a').
Proof.
  destruct (step_monotone cf g o) as [Hc Hn]. split.
  - intros scid d u u'. apply (Hc scid d u u').
  - intros nid a a'. apply (Hn nid a a').
Qed.

(** an update that is not strictly newer than the stored one is rejected and changes nothing *)
Lemma stale_update_ignored cf g via sg m now ov old :
  g_dir g (cu_scid m) (dir_is_two_to_one m) = Some old → cu_ts m ≤ ui_ts old →
  ∃ r, step cf g (OChanUpd via sg m now ov) = (r, g) ∧ ∀ v, r = GOk v → ov = true.
Proof.
  intros Hold Hts. destruct ov.
  - exists (step cf g (OChanUpd via sg m now true)).1. split; [|done].
    rewrite <-(verify_only_unchanged cf g via sg m now) at 3. simpl. by destruct (chan_upd_step _ _ _ _ _ _ _).
  - destruct (step cf g (OChanUpd via sg m now false)) as [[v|e] g'] eqn:Hstep.
    + exfalso. simpl in Hstep. apply chan_upd_accept in Hstep as (c & (Hc & _ & _ & _ & _ & _ & Hnew & _) & _).
      unfold g_dir in Hold. rewrite Hc in Hold. simpl in Hold. specialize (Hnew _ Hold). lia.
    + exists (GErr e). rewrite (step_err_unchanged _ _ _ _ _ Hstep). split; [done|]. by intros v.
Qed.

Lemma stale_node_ann_ignored cf g via sg m old :
  g_nann g (nm_nid m) = Some old → nm_ts m ≤ na_ts old →
  ∃ e, step cf g (ONodeAnn via sg m) = (GErr e, g).
Proof.
  intros Hold Hts. destruct (step cf g (ONodeAnn via sg m)) as [[v|e] g'] eqn:Hstep.
  - exfalso. simpl in Hstep. apply node_ann_accept in Hstep as (_ & v' & Hint).
    apply node_intern_ok in Hint as (n & Hn & Hnew & _).
    unfold g_nann in Hold. rewrite Hn in Hold. simpl in Hold. specialize (Hnew _ Hold). lia.
  - exists e. by rewrite (step_err_unchanged _ _ _ _ _ Hstep).
Qed.

Lemma update_guards cf g via sg m now v g' :
  step cf g (OChanUpd via sg m now false) = (GOk v, g') →
  ∃ c, upd_guards cf g via sg m now c ∧ g' = upd_result g sg m c.
Proof. apply chan_upd_accept. Qed.

Lemma update_accepted cf g via sg m now c :
  upd_guards cf g via sg m now c →
  ∃ v, step cf g (OChanUpd via sg m now false) = (GOk v, upd_result g sg m c).
Proof. apply chan_upd_accepts. Qed.

(** what pruning does to one channel *)
Lemma drop_stale_dir mt c d u :
  chan_dir (drop_stale mt c) d = Some u ↔ chan_dir c d = Some u ∧ mt ≤ ui_ts u.
Proof.
  unfold drop_stale, chan_dir. destruct d; simpl.
  - destruct (c_21 c) as [x|]; [|naive_solver]. case_match eqn:Hlt.
    + split; [done|]. intros [[= ->] ?]. lia.
    + split; [intros [= ->]; split; [done|lia]|by intros [? _]].
  - destruct (c_12 c) as [x|]; [|naive_solver]. case_match eqn:Hlt.
    + split; [done|]. intros [[= ->] ?]. lia.
    + split; [intros [= ->]; split; [done|lia]|by intros [? _]].
Qed.

Lemma prune_chan_spec mt c :
  match prune_chan mt c with
  | Some c' =>
      chan_content c' = chan_content (drop_stale mt c) ∧ c_recv c' = c_recv c ∧
      (∀ d u, chan_dir c' d = Some u ↔ chan_dir c d = Some u ∧ mt ≤ ui_ts u) ∧
      ((is_Some (c_12 c') ∧ is_Some (c_21 c')) ∨ mt ≤ c_recv c)
  | None =>
      c_recv c < mt ∧ ∃ d, ∀ u, chan_dir c d = Some u → ui_ts u < mt
  end.
Proof.
  unfold prune_chan. destruct (removable mt (drop_stale mt c)) eqn:Hr.
  - unfold removable in Hr. apply andb_true_iff in Hr as [Hdirs Hrecv]. split; [simpl in Hrecv; lia|].
    apply orb_true_iff in Hdirs as [Hd|Hd].
    + exists false. intros u Hu. destruct (decide (mt ≤ ui_ts u)) as [Hle|]; [|lia]. exfalso.
      assert (chan_dir (drop_stale mt c) false = Some u) as H by (apply drop_stale_dir; done).
      unfold chan_dir in H. by rewrite H in Hd.
    + exists true. intros u Hu. destruct (decide (mt ≤ ui_ts u)) as [Hle|]; [|lia]. exfalso.
      assert (chan_dir (drop_stale mt c) true = Some u) as H by (apply drop_stale_dir; done).
      unfold chan_dir in H. by rewrite H in Hd.
  - split_and!; [done|done|intros d u; apply drop_stale_dir|].
    unfold removable in Hr. apply andb_false_iff in Hr as [Hdirs|Hrecv].
    + left. apply orb_false_iff in Hdirs as [H1 H2].
      destruct (c_12 (drop_stale mt c)), (c_21 (drop_stale mt c)); try done.
    + right. simpl in Hrecv. lia.
Qed.

Lemma prune_effect g now :
  wf g → prune_active now →
  let g' := prune g now in
  let mt := now - STALE_CHANNEL_UPDATE_AGE_LIMIT_SECS in
  (∀ scid, g_chans g' !! scid = g_chans g !! scid ≫= prune_chan mt) ∧
  wf g' ∧
  (∀ nid, is_Some (g_nodes g' !! nid) ↔ ∃ scid, ends (g_chans g') scid nid) ∧
  (∀ nid n', g_nodes g' !! nid = Some n' →
     ∃ n, g_nodes g !! nid = Some n ∧ n_ann n' = n_ann n) ∧
  (∀ scid t, g_rmc g' !! scid = Some t ↔
     Z.max 0 (now - t) < REMOVED_ENTRIES_TRACKING_AGE_LIMIT_SECS ∧
     ((∃ c, g_chans g !! scid = Some c ∧ prune_chan mt c = None ∧ t = now) ∨
      (¬ (∃ c, g_chans g !! scid = Some c ∧ prune_chan mt c = None) ∧ g_rmc g !! scid = Some t))) ∧
  (∀ nid t, g_rmn g' !! nid = Some t ↔
     g_rmn g !! nid = Some t ∧ Z.max 0 (now - t) < REMOVED_ENTRIES_TRACKING_AGE_LIMIT_SECS).
Proof.
  intros Hwf Hact. simpl. pose proof (prune_wf g now Hwf) as Hwf'. split_and!.
  - intros scid. by apply prune_chans.
  - done.
  - intros nid. by apply wf_node_alive.
  - apply prune_keep.
  - intros scid t. by apply prune_rmc.
  - intros nid t. rewrite prune_rmn by done. rewrite map_filter_lookup_Some. simpl.
    split; intros [? Hk]; (split; [done|]).
    + apply Is_true_true in Hk. lia.
    + apply Is_true_true. lia.
Qed.
