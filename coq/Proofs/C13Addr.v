(** CollectionLength canonicity / form, and the SocketAddress descriptor codec with its generated
    length arithmetic. *)
Require Import LdkV.Prim.U64 LdkV.Codec.Combinators LdkV.Codec.Addr LdkV.Gen.WireLens LdkV.Proofs.C13Base.
Open Scope Z_scope.

(** ------------------------------------------------------------------ CollectionLength *)
Lemma cl_canon b n r : bytes_ok b = true -> cl_dec b = ROk (n, r) ->
  b = cl_enc n ++ r /\ 0 <= n < 2 ^ 64.
Proof.
  intros Hb. unfold cl_dec.
  destruct (read_u 2 b) as [[v r1]|e] eqn:E1; cbn [rbind]; [|discriminate].
  destruct (read_u_canon _ _ _ _ Hb E1) as [Eb Hv]. change (256 ^ Z.of_nat 2) with 65536 in Hv.
  assert (Hr1 : bytes_ok r1 = true).
  { rewrite Eb, bytes_ok_app in Hb. apply andb_true_iff in Hb. tauto. }
  unfold cl_enc. destruct (Z.eqb_spec v 0xFFFF) as [->|N].
  - destruct (read_u 8 r1) as [[x r']|e] eqn:E2; cbn [rbind]; [|discriminate].
    destruct (Z.ltb_spec (x + 0xFFFF) (2 ^ 64)) as [L|L]; [|discriminate]. intros Hd; inversion Hd; subst n r'.
    destruct (read_u_canon _ _ _ _ Hr1 E2) as [Er Hx]. change (256 ^ Z.of_nat 8) with (2 ^ 64) in Hx.
    destruct (Z.ltb_spec (x + 0xFFFF) 0xFFFF); [lia|].
    replace (x + 0xFFFF - 0xFFFF) with x by lia. rewrite Eb, Er, <- app_assoc. split; [reflexivity|lia].
  - intros Hd; inversion Hd; subst v r1. destruct (Z.ltb_spec n 0xFFFF); [|lia]. split; [exact Eb|lia].
Qed.

(** the 2-byte form is used exactly below 0xffff; from 0xffff on the 10-byte escape form *)
Lemma cl_enc_form n : 0 <= n ->
  (n < 0xFFFF -> cl_enc n = be_enc 2 n) /\
  (0xFFFF <= n -> cl_enc n = [0xFF; 0xFF] ++ be_enc 8 (n - 0xFFFF)).
Proof.
  intros H. unfold cl_enc. split; intros L.
  - destruct (Z.ltb_spec n 0xFFFF); [reflexivity|lia].
  - destruct (Z.ltb_spec n 0xFFFF); [lia|]. reflexivity.
Qed.
Lemma cl_enc_len n : 0 <= n -> len (cl_enc n) = if n <? 0xFFFF then 2 else 10.
Proof.
  intros H. unfold cl_enc. destruct (n <? 0xFFFF); rewrite ?len_app, !be_enc_len; reflexivity.
Qed.

(** the model's branch conditions are the ones in the source (anchored expressions, regenerated) *)
Lemma cl_matches_source n r :
  cl_enc n = (if cl_write_short_form n then be_enc 2 n else be_enc 2 0xFFFF ++ be_enc 8 (n - 0xFFFF)) /\
  (forall v, cl_read_escape v = (v =? 0xFFFF)) /\
  (cl_write_short_form n = false -> 0 <= n < 2 ^ 64 -> cl_dec (cl_enc n ++ r) = ROk (n, r)).
Proof.
  split; [reflexivity|]. split; [reflexivity|]. intros _ H. apply cl_rt, H.
Qed.

(** ------------------------------------------------------------------ SocketAddress *)
Lemma be_enc1 v : 0 <= v < 256 -> be_enc 1 v = [v].
Proof. intros H. cbn [be_enc app]. rewrite Z.mod_small by lia. reflexivity. Qed.

Lemma u16_ok_iff z : u16_ok z = true <-> 0 <= z < 65536.
Proof. unfold u16_ok. rewrite andb_true_iff, Z.leb_le, Z.ltb_lt. tauto. Qed.

Lemma sa_roundtrip a r : sa_dom a = true -> sa_dec (sa_enc a ++ r) = ROk (inl a, r).
Proof.
  destruct a; cbn [sa_dom]; intros D; unfold sa_dec; cbn [sa_enc app]; rewrite read_u1_cons; cbn [rbind].
  - apply andb_true_iff in D. destruct D as [L P]. apply Z.eqb_eq in L. apply u16_ok_iff in P.
    change (1 =? 1) with true. cbv iota. rewrite <- app_assoc, read_n_app by exact L. cbn [rbind].
    rewrite read_u_enc by (change (256 ^ Z.of_nat 2) with 65536; lia). reflexivity.
  - apply andb_true_iff in D. destruct D as [L P]. apply Z.eqb_eq in L. apply u16_ok_iff in P.
    change (2 =? 1) with false. change (2 =? 2) with true. cbv iota.
    rewrite <- app_assoc, read_n_app by exact L. cbn [rbind].
    rewrite read_u_enc by (change (256 ^ Z.of_nat 2) with 65536; lia). reflexivity.
  - apply Z.eqb_eq in D. change (3 =? 1) with false. change (3 =? 2) with false. change (3 =? 3) with true. cbv iota.
    rewrite read_n_app by exact D. reflexivity.
  - repeat (apply andb_true_iff in D; destruct D as [D ?]). apply Z.eqb_eq in D.
    match goal with H : u16_ok checksum = true |- _ => apply u16_ok_iff in H end.
    match goal with H : u16_ok port = true |- _ => apply u16_ok_iff in H end.
    change (4 =? 1) with false. change (4 =? 2) with false. change (4 =? 3) with false. change (4 =? 4) with true. cbv iota.
    rewrite <- !app_assoc, read_n_app by exact D. cbn [rbind].
    rewrite read_u_enc by (change (256 ^ Z.of_nat 2) with 65536; lia). cbn [rbind].
    rewrite read_u_enc by (change (256 ^ Z.of_nat 1) with 256; lia). cbn [rbind].
    rewrite read_u_enc by (change (256 ^ Z.of_nat 2) with 65536; lia). reflexivity.
  - apply andb_true_iff in D. destruct D as [D P]. apply andb_true_iff in D. destruct D as [L C].
    apply Z.leb_le in L. apply u16_ok_iff in P. pose proof (len_nonneg name).
    change (5 =? 1) with false. change (5 =? 2) with false. change (5 =? 3) with false. change (5 =? 4) with false.
    change (5 =? 5) with true. cbv iota.
    rewrite <- !app_assoc. rewrite read_u_enc by (change (256 ^ Z.of_nat 1) with 256; lia). cbn [rbind].
    rewrite read_n_app by reflexivity. cbn [rbind]. rewrite C.
    rewrite read_u_enc by (change (256 ^ Z.of_nat 2) with 65536; lia). reflexivity.
Qed.

(** [SocketAddress::len] (generated) is the length of the descriptor without its type byte, never
    overflows its type, and stays below [MAX_LEN] = 258 *)
Lemma sa_len_correct a : sa_dom a = true ->
  len (sa_enc a) = 1 + socket_address_len (sa_abs a) /\
  socket_address_len_safe (sa_abs a) = true /\
  socket_address_len (sa_abs a) <= 258.
Proof.
  destruct a; cbn [sa_dom sa_enc sa_abs socket_address_len socket_address_len_safe]; intros D;
    rewrite ?len_cons, ?len_app, ?be_enc_len.
  - apply andb_true_iff in D. destruct D as [L _]. apply Z.eqb_eq in L. repeat split; lia.
  - apply andb_true_iff in D. destruct D as [L _]. apply Z.eqb_eq in L. repeat split; lia.
  - apply Z.eqb_eq in D. repeat split; lia.
  - repeat (apply andb_true_iff in D; destruct D as [D ?]). apply Z.eqb_eq in D. repeat split; lia.
  - apply andb_true_iff in D. destruct D as [D _]. apply andb_true_iff in D. destruct D as [L _]. apply Z.leb_le in L.
    pose proof (len_nonneg name). repeat split; lia. (* includes: the addition does not overflow its Rust width *)
Qed.
