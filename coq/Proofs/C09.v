(** C09 proofs, part c: the property theorems over arbitrary label lists. *)
Require Import LdkV.Prim.U64 LdkV.Model.MonUpd LdkV.Proofs.C09a LdkV.Proofs.C09b.
Open Scope Z_scope.

Definition reach (c : cfg) (ls : list label) : st := run (init_of c) ls.

Lemma reach_inv c ls : IA (reach c ls) /\ IC (reach c ls) /\ base (gh (reach c ls)) = base_of c.
Proof.
  unfold reach. destruct (run_inv ls (init_of c) (init_IA c) (init_IC c)) as (A & B & E).
  rewrite E, init_base. auto.
Qed.

(** ---------- 1. ids handed to the watch are gap-free and increasing *)
Fixpoint all_watched (s : st) (ls : list label) : list upd :=
  match ls with
  | [] => []
  | l :: t => let '(s', o) := step s l in watched o ++ all_watched s' t
  end.

Lemma handed_log ls : forall s, IA s -> IC s ->
  handed (gh (run s ls)) = handed (gh s) ++ all_watched s ls.
Proof.
  induction ls as [|l t IH]; intros s I C; cbn [run all_watched]; [rewrite app_nil_r; reflexivity|].
  pose proof (step_PostL l s I C) as P. destruct (step s l) as [s' o]. cbn [fst].
  destruct P as (P1 & P2 & _ & _ & P5 & _). rewrite (IH s' P1 P5), P2, app_assoc. reflexivity.
Qed.

Lemma ids_gap_free c ls :
  consec (base_of c + 1) (map uid (all_watched (init_of c) ls)).
Proof.
  destruct (reach_inv c ls) as (I & _ & Eb).
  pose proof (ia_consec _ _ I) as Hc. apply consec_app in Hc. destruct Hc as [Hc _].
  unfold H, reach in Hc. rewrite (handed_log ls _ (init_IA c) (init_IC c)), ids_app in Hc.
  apply consec_app in Hc. destruct Hc as [_ Hc]. fold (reach c ls) in Hc. rewrite Eb in Hc.
  replace (zlen (ids (handed (gh (init_of c))))) with 1 in Hc by (destruct c; reflexivity).
  exact Hc.
Qed.

(** ---------- 2. nothing that depends on an update leaves before it and all earlier ones are durable *)
Definition released_ok (k : rkind) (s' : st) : Prop :=
  forall u, In u (handed (gh s')) -> (k = RAction -> uid u <> base (gh s')) -> In (uid u) (done (gh s')).

Lemma no_early_release c ls l :
  let s := reach c ls in
  let '(s', o) := step s l in
  forall k d, In (ORel k d) o -> ~ excl s l k -> released_ok k s'.
Proof.
  cbn zeta. destruct (reach_inv c ls) as (I & C & _).
  pose proof (step_PostL l _ I C) as P. destruct (step (reach c ls) l) as [s' o].
  destruct P as (_ & _ & P3 & _). intros k d Hin Hex u Hu Hb.
  destruct (P3 k d Hin Hex) as [A B].
  assert (Hi : In (uid u) (H s')) by (unfold H, ids; apply in_map; exact Hu).
  destruct k; try (apply B; [discriminate|exact Hi]).
  apply A; [reflexivity|exact Hi|apply Hb; reflexivity].
Qed.

(** ---------- 5. the ChainMonitor reports Completed last, and flushes in order *)
Lemma chainmonitor_completed_last c ls l :
  let s := reach c ls in
  let '(s', o) := step s l in
  (forall h, In (OCmEvent h) o -> cmp (cm s') = [] /\ h = applied (cm s')) /\
  consec (applied (cm s') + 1) (map uid (cmq (cm s'))) /\
  applied (cm s') + zlen (cmq (cm s')) = base_of c + zlen (handed (gh s')) - 1.
Proof.
  cbn zeta. destruct (reach_inv c ls) as (I & C & Eb).
  pose proof (step_PostL l _ I C) as P. destruct (step (reach c ls) l) as [s' o].
  destruct P as (P1 & _ & _ & P4 & _ & P6). split; [exact P4|]. split; [exact (ia_cmq _ _ P1)|].
  rewrite (ia_applied _ _ P1). unfold lasth, H, ids. rewrite zlen_map, P6, Eb. reflexivity.
Qed.

(** ---------- 3. frozen while an update is outstanding *)
Definition outstanding (s : st) : Prop :=
  exists u, In u (handed (gh s)) /\ ~ In (uid u) (done (gh s)).
Definition local (l : label) : Prop :=
  match l with LSend _ | LQueue _ | LFreeHold _ _ | LClaim _ | LShutdown true _ _ => True | _ => False end.

Lemma outstanding_mip s : IA s -> IC s -> outstanding s -> mip (ch s) = true.
Proof.
  intros I C (u & Hu & Hd). destruct (mip (ch s)) eqn:Hm; [reflexivity|]. exfalso. apply Hd.
  apply (IC_alldone _ C Hm). unfold H, ids. apply in_map. exact Hu.
Qed.

Lemma outstanding_eff s v : IA s -> outstanding s -> eff v s = VInProgress.
Proof.
  intros I (u & Hu & Hd). unfold eff. destruct v; [|reflexivity].
  assert (Hi : In (uid u) (H s)) by (unfold H, ids; apply in_map; exact Hu).
  destruct (ia_pend _ _ I _ Hi Hd) as [Hx|Hx].
  - destruct (cmp (cm s)); [destruct Hx|]. destruct (inflight (mg s)); reflexivity.
  - destruct (cmq (cm s)); [destruct Hx|]. destruct (inflight (mg s)), (cmp (cm s)); reflexivity.
Qed.

Lemma frozen_local s l :
  IA s -> IC s -> outstanding s ->
  mip (ch s) = true /\
  (local l ->
   let '(s', o) := step s l in
   (forall k d, ~ In (ORel k d) o) /\
   (forall u, In (OWatch u) o -> usteps u = [KPreimage]) /\
   arr (ch s') = arr (ch s) /\ mip (ch s') = true).
Proof.
  intros I C Ho.
  pose proof (outstanding_mip _ I C Ho) as Hm. split; [exact Hm|].
  assert (Hcc : can_commit (ch s) = false) by (unfold can_commit; rewrite Hm; cbn; rewrite andb_false_r; reflexivity).
  assert (Fin0 : forall t : st, arr (ch t) = arr (ch s) -> mip (ch t) = true ->
            (forall k d, ~ In (ORel k d) (@nil out)) /\ (forall u, In (OWatch u) (@nil out) -> usteps u = [KPreimage]) /\
            arr (ch t) = arr (ch s) /\ mip (ch t) = true).
  { intros t E1 E2. split; [intros k d []|split; [intros u []|split; assumption]]. }
  assert (FinE : (forall k d, ~ In (ORel k d) [OErr]) /\ (forall u, In (OWatch u) [OErr] -> usteps u = [KPreimage]) /\
            arr (ch s) = arr (ch s) /\ mip (ch s) = true).
  { split; [intros k d [Hx|[]]; discriminate|split; [intros u [Hx|[]]; discriminate|split; [reflexivity|exact Hm]]]. }
  intros Hl. destruct l as [v|it|d v|v| |need_commit v|held drop_all req_commit n v|v|v|id| | |a b c0|oc| |lo sc v|nh]; try destruct Hl; unfold step.
  - (* LSend *)
    destruct (negb (is_ready (ch s)) || pd (ch s)); [exact FinE|].
    rewrite Hcc. apply Fin0; [reflexivity|exact Hm].
  - (* LQueue *)
    destruct (negb (is_ready (ch s))); [exact FinE|]. apply Fin0; [reflexivity|exact Hm].
  - (* LFreeHold *)
    rewrite Hcc. apply Fin0; [reflexivity|exact Hm].
  - (* LClaim *)
    destruct (negb (is_ready (ch s))); [exact FinE|].
    rewrite Hcc. cbn [negb andb]. rewrite andb_false_r.
    match goal with |- let '(_, _) := handle_new_update ?u ?v ?t in _ =>
      assert (He : eff v t = VInProgress) end.
    { unfold eff. destruct v; [|reflexivity]. destruct Ho as (u & Hu & Hd).
      assert (Hi : In (uid u) (H s)) by (unfold H, ids; apply in_map; exact Hu).
      cbn [inflight mg cm cmp cmq on_mg on_ch on_gh paused m_acts].
      destruct (ia_pend _ _ I _ Hi Hd) as [Hx|Hx].
      - destruct (cmp (cm s)); [destruct Hx|]. cbn [nilb]. rewrite andb_false_r. reflexivity.
      - destruct (cmq (cm s)); [destruct Hx|]. cbn [nilb]. rewrite andb_false_r. reflexivity. }
    unfold handle_new_update. rewrite He. cbn [deferred cm on_gh on_mg on_ch paused].
    destruct (deferred (cm s)); cbn;
      (split; [intros k d [Hx|[]]; discriminate|split; [intros u [Hx|[]]; injection Hx as <-; reflexivity|split; reflexivity]]).
  - (* LShutdown, local: refused while a monitor update is in progress *)
    destruct lo; [|destruct Hl]. rewrite Hm, orb_true_r. exact FinE.
Qed.

Lemma frozen_while_pending c ls l :
  let s := reach c ls in
  outstanding s ->
  mip (ch s) = true /\
  (local l ->
   let '(s', o) := step s l in
   (forall k d, ~ In (ORel k d) o) /\
   (forall u, In (OWatch u) o -> usteps u = [KPreimage]) /\
   arr (ch s') = arr (ch s) /\ mip (ch s') = true).
Proof.
  cbn zeta. intros Ho. destruct (reach_inv c ls) as (I & C & _).
  generalize dependent (reach c ls). intros s Ho I C. apply frozen_local; assumption.
Qed.

(** ---------- 4. exactly the held messages are released, once, in resend order *)
Definition ID (s : st) : Prop :=
  owed_raa (gh s) = p_raa (ch s) /\ owed_cs (gh s) = p_cs (ch s) /\ pd (ch s) = false.

Ltac idt := unfold ID in *; cbn in *; rewrite ?orb_true_r, ?orb_false_r, ?andb_true_r, ?andb_false_r in *; intuition (try congruence).

Lemma restored_ID s : ID s -> ID (fst (restored s)).
Proof.
  intros (A & B & P). unfold restored, ID. cbn. rewrite P. cbn. rewrite A, B.
  destruct (p_raa (ch s)), (p_cs (ch s)); auto.
Qed.

Lemma try_resume_ID s : ID s -> ID (fst (try_resume s)).
Proof.
  intros D. unfold try_resume. destruct (nilb (blocked (ch (on_mg (m_acts []) s)))).
  - pose proof (restored_ID (on_mg (m_acts []) s) D) as R. destruct (restored (on_mg (m_acts []) s)). exact R.
  - exact D.
Qed.

Lemma handle_ID u v s : ID s -> ID (fst (handle_new_update u v s)).
Proof.
  intros D. unfold handle_new_update.
  match goal with |- context [deferred (cm ?x)] => destruct (deferred (cm x)) end; [exact D|].
  destruct (eff v s); [|exact D].
  match goal with |- context [nilb (inflight (mg ?x))] => destruct (nilb (inflight (mg x))); [|exact D];
    pose proof (try_resume_ID x D) as R; destruct (try_resume x); exact R end.
Qed.

Lemma push_ID u v s : ID s -> ID (fst (push_or_handle u v s)).
Proof.
  intros D. unfold push_or_handle. destruct (nilb (blocked (ch s))); [apply handle_ID; exact D|exact D].
Qed.

Lemma process_event_ID h s : ID s -> ID (fst (process_event h s)).
Proof.
  intros D. unfold process_event.
  match goal with |- context [nilb (inflight (mg ?x))] => destruct (nilb (inflight (mg x))); [|exact D];
    destruct (mip (ch x)); [|exact D]; pose proof (try_resume_ID x D) as R; destruct (try_resume x); exact R end.
Qed.

Lemma process_events_ID hs : forall s, ID s -> ID (fst (process_events hs s)).
Proof.
  induction hs as [|h t IH]; intros s D; cbn; [exact D|].
  pose proof (process_event_ID h s D) as R. destruct (process_event h s) as [s1 o1]. cbn in R.
  pose proof (IH s1 R) as R2. destruct (process_events t s1). exact R2.
Qed.

Lemma cm_completed_ID id s : ID s -> ID (fst (cm_completed id s)).
Proof.
  intros D. unfold cm_completed. destruct (memz id (cmp (cm s)));
  match goal with |- context [nilb (cmp (cm ?x))] => destruct (nilb (cmp (cm x))) end; exact D.
Qed.

Lemma step_ID s l : ID s -> l <> LDisconnect -> ID (fst (step s l)).
Proof.
  intros D Hl. pose proof D as (A & B & P).
  destruct l as [v|it|d v|v| |need_commit v|held drop_all req_commit n v|v|v|id| | |a b c0|oc| |lo sc v|nh]; try congruence; unfold step.
  - (* LSend *)
    destruct (negb (is_ready (ch s)) || pd (ch s)); [exact D|].
    destruct (can_commit (ch s)); [|exact D]. cbn [build_commitment]. apply push_ID. idt.
  - destruct (negb (is_ready (ch s))); exact D.
  - (* LFreeHold *)
    destruct (can_commit (ch s)); [|exact D]. unfold free_holding.
    destruct (nilb (hold (ch s))); [exact D|].
    destruct (d && (nclaims (hold (ch s)) =? 0)%nat); [exact D|]. cbn [build_commitment]. apply push_ID. idt.
  - (* LClaim *)
    destruct (negb (is_ready (ch s))); [exact D|].
    destruct (nilb (blocked (ch s)) && negb (negb (can_commit (ch s)))).
    + cbn [build_commitment]. apply handle_ID.
      destruct (negb (can_commit (ch s))); idt.
    + apply handle_ID. destruct (negb (can_commit (ch s))); cbn [build_commitment]; idt.
  - (* LDupClaim *)
    destruct (negb (is_ready (ch s))); [exact D|]. destruct (rev (inflight (mg s))); exact D.
  - (* LRecvCS *)
    destruct (negb (is_ready (ch s)) || pd (ch s)); [exact D|].
    destruct (need_commit && negb (arr (ch s))); cbn [build_commitment]; destruct (mip (ch s)); apply push_ID; idt.
  - (* LRecvRAA *)
    destruct (negb (is_ready (ch s)) || pd (ch s) || negb (arr (ch s))); [exact D|].
    cbn [ch on_ch]. unfold free_holding. cbn [ch on_ch hold c_arr c_latest].
    destruct (can_commit (c_arr false (c_latest (latest (ch s) + 1) (ch s))));
    destruct (nilb (hold (ch s))); destruct req_commit; destruct drop_all; destruct (nclaims (hold (ch s)) =? 0)%nat;
    cbn [andb build_commitment fst snd];
    destruct (nilb (blocked (ch s))); destruct held; cbn [andb negb];
    first [apply handle_ID; idt | idt].
  - (* LUnblock *)
    destruct (blocked (ch s)); [exact D|]. apply handle_ID. exact D.
  - (* LFlush *)
    destruct (cmq (cm s)); [exact D|]. destruct v; [|exact D].
    match goal with |- context [nilb (cmp (cm ?x))] => destruct (nilb (cmp (cm x))) end; exact D.
  - apply cm_completed_ID. exact D.
  - apply process_events_ID. exact D.
  - (* LReestablish: a connected run never gets here with PEER_DISCONNECTED set *)
    rewrite P. exact D.
  - (* LFundingLocked *)
    destruct (our_cr (ch s)); [idt|]. destruct (mip (ch s)); [idt|]. destruct (pd (ch s)); idt.
  - idt.
  - (* LShutdown *)
    destruct (if lo then pd (ch s) || mip (ch s) else pd (ch s)); [exact D|].
    destruct sc; [apply push_ID; idt|idt].
  - (* LClosing *)
    destruct (sh_local (sd s) && sh_remote (sd s) && negb (mip (ch s)) && negb (pd (ch s)) && nh); exact D.
Qed.

Definition connected (ls : list label) : Prop := ~ In LDisconnect ls.

Lemma run_ID ls : forall s, ID s -> connected ls -> ID (run s ls).
Proof.
  induction ls as [|l t IH]; intros s D Hc; cbn [run]; [exact D|].
  apply IH; [apply step_ID; [exact D|intros ->; apply Hc; left; reflexivity]|intros Hin; apply Hc; right; exact Hin].
Qed.

Lemma init_ID c : ID (init_of c).
Proof. destruct c; repeat split. Qed.

Definition wire (o : list out) : list rkind :=
  flat_map (fun x => match x with ORel RRaa _ => [RRaa] | ORel RCs _ => [RCs] | _ => [] end) o.

Lemma wire_app o1 o2 : wire (o1 ++ o2) = wire o1 ++ wire o2.
Proof. unfold wire. apply flat_map_app. Qed.
Lemma wire_map_fwd k l : k <> RRaa -> k <> RCs -> wire (map (ORel k) l) = [].
Proof. intros H1 H2. induction l as [|x t IH]; [reflexivity|]. cbn. destruct k; try congruence; exact IH. Qed.

Lemma restored_wire s :
  pd (ch s) = false ->
  wire (snd (restored s)) =
    (if raa_first (ch s)
     then (if p_raa (ch s) then [RRaa] else []) ++ (if p_cs (ch s) then [RCs] else [])
     else (if p_cs (ch s) then [RCs] else []) ++ (if p_raa (ch s) then [RRaa] else [])).
Proof.
  intros P. unfold restored. cbn [snd]. rewrite P. rewrite !wire_app, (wire_map_fwd RForward) by discriminate.
  destruct (raa_first (ch s)), (p_raa (ch s)), (p_cs (ch s)), (p_cr (ch s) && negb false),
    (funder (gh s) && negb (confirmed (gh s))); reflexivity.
Qed.

Lemma quiet_event h s : mip (ch s) = false -> inflight (mg s) = [] ->
  exists s', process_event h s = (s', []) /\ mip (ch s') = false /\ inflight (mg s') = [].
Proof.
  intros Hm Hi. unfold process_event.
  set (s1 := on_mg (fun m => m_inflight (filter (fun i => h <? i) (inflight m)) m) s).
  assert (E1 : inflight (mg s1) = []) by (subst s1; cbn; rewrite Hi; reflexivity).
  assert (E2 : mip (ch s1) = false) by exact Hm.
  rewrite E1. cbn [nilb]. rewrite E2. exists s1. auto.
Qed.

Lemma quiet_events hs : forall s, mip (ch s) = false -> inflight (mg s) = [] ->
  snd (process_events hs s) = [].
Proof.
  induction hs as [|h t IH]; intros s Hm Hi; cbn [process_events]; [reflexivity|].
  destruct (quiet_event h s Hm Hi) as (s1 & E & Hm1 & Hi1). rewrite E.
  specialize (IH s1 Hm1 Hi1). destruct (process_events t s1). cbn in *. exact IH.
Qed.

Theorem release_exact c ls :
  connected ls ->
  let s := reach c ls in
  (* what the channel owes its peer is exactly what it recorded as pending *)
  owed_raa (gh s) = p_raa (ch s) /\ owed_cs (gh s) = p_cs (ch s) /\
  (* an unfrozen channel holds nothing back and owes nothing *)
  (mip (ch s) = false ->
     p_raa (ch s) = false /\ p_cs (ch s) = false /\ p_cr (ch s) = false /\ p_fwd (ch s) = [] /\ acts (mg s) = [] /\
     owed_raa (gh s) = false /\ owed_cs (gh s) = false) /\
  (* resuming releases exactly the recorded messages, in resend order, and clears the record *)
  (wire (snd (restored s)) =
     (if raa_first (ch s)
      then (if p_raa (ch s) then [RRaa] else []) ++ (if p_cs (ch s) then [RCs] else [])
      else (if p_cs (ch s) then [RCs] else []) ++ (if p_raa (ch s) then [RRaa] else [])) /\
   owed_raa (gh (fst (restored s))) = false /\ owed_cs (gh (fst (restored s))) = false /\
   p_raa (ch (fst (restored s))) = false /\ p_cs (ch (fst (restored s))) = false) /\
  (* a completion reported while nothing is outstanding releases nothing *)
  (mip (ch s) = false -> forall id,
     (forall k d, ~ In (ORel k d) (snd (step s (LComplete id)))) /\
     (forall k d, ~ In (ORel k d) (snd (step s LEvents)))).
Proof.
  intros Hc. cbn zeta. destruct (reach_inv c ls) as (I & C & _).
  pose proof (run_ID ls _ (init_ID c) Hc) as D. fold (reach c ls) in D.
  set (s := reach c ls) in *. destruct D as (A & B & P).
  split; [exact A|split; [exact B|split; [|split; [split; [apply restored_wire; exact P|]|]]]].
  - intros Hm. destruct (C Hm) as (_ & _ & _ & C1 & C2 & C3 & C4 & C5). rewrite A, B. repeat split; assumption.
  - pose proof (restored_ID s (conj A (conj B P))) as (R1 & R2 & _).
    pose proof (restored_spec s) as R. destruct (restored s) as [s' o]. cbn [fst] in *.
    destruct R as (_ & _ & _ & _ & R5 & R6 & _). rewrite R1, R2. repeat split; assumption.
  - intros Hm id. split.
    + intros k d. unfold step, cm_completed.
      destruct (memz id (cmp (cm s)));
      match goal with |- context [nilb (cmp (cm ?x))] => destruct (nilb (cmp (cm x))) end; cbn;
      intros Hx; repeat (destruct Hx as [Hx|Hx]; [discriminate|]); exact Hx.
    + intros k d. unfold step. destruct (C Hm) as (Hi & _).
      rewrite (quiet_events (evq (cm s)) (on_cm (k_evq []) s) Hm Hi). intros [].
Qed.

(** ---------- finding F1: the excluded output really violates the statement *)
Lemma F1_refuted :
  exists ls l k d,
    let s := reach (CNew 0 true false) ls in
    In (ORel k d) (snd (step s l)) /\ excl s l k /\ ~ released_ok k (fst (step s l)).
Proof.
  exists [LFundingLocked true; LRecvChannelReady; LDisconnect], (LReestablish false false true), RChannelReady, 0.
  cbn. split; [left; reflexivity|split; [split; reflexivity|]].
  intros Hr. specialize (Hr (mkUpd 0 []) (or_introl eq_refl) ltac:(discriminate)). cbn in Hr. exact Hr.
Qed.

(** ---------- non-vacuity: a concrete run with asynchronous persistence, out-of-order completion and a release *)
Definition demo : list label :=
  [LRecvCS true VInProgress;   (* update 1 [holder; counterparty], in progress: RAA and CS held *)
   LClaim VCompleted;          (* update 2 [preimage] handed although frozen (forced in progress) *)
   LComplete 2;                (* out of order: nothing happens *)
   LEvents;
   LComplete 1;                (* now the ChainMonitor reports Completed *)
   LEvents].                   (* the manager resumes: RAA then CS, and the claim's action *)

Lemma demo_outs :
  run_outs (init_open 0 false) demo =
  [[OWatch (mkUpd 1 [KHolder; KCparty])]; [OWatch (mkUpd 2 [KPreimage])]; []; []; [OCmEvent 2];
   [ORel RRaa 1; ORel RCs 1; ORel RAction 2]].
Proof. vm_compute. reflexivity. Qed.

Lemma demo_outstanding : outstanding (reach (COpen 0 false) [LRecvCS true VInProgress]).
Proof. exists (mkUpd 1 [KHolder; KCparty]). split; [right; left; reflexivity|cbn; intros [Hx|[]]; discriminate]. Qed.
