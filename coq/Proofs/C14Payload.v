(** C14: the TLV stream rust-lightning assembles for an onion payload is strictly ascending in its
    types, for every admissible set of custom TLVs (what [RecipientCustomTlvs::new] admits: pairwise
    distinct types, all at least 2^16, none equal to the keysend or invoice-request type), with or
    without keysend preimage, invoice request, payment metadata, payment secret, blinding point. *)
From Coq Require Import ZArith List Bool Lia Sorting.Permutation Sorting.Sorted.
Require Import LdkV.Crypto.Bytes LdkV.Model.OnionPayload.
Import ListNotations.
Open Scope Z_scope.

Definition key_le (a b : tlv) : Prop := fst a <= fst b.

Lemma insert_perm x l : Permutation (x :: l) (insert_tlv x l).
Proof.
  induction l as [|y r IH]; cbn [insert_tlv]; [reflexivity|].
  destruct (fst x <=? fst y); [reflexivity|].
  rewrite perm_swap. now constructor.
Qed.

Lemma sort_perm l : Permutation l (sort_tlvs l).
Proof.
  induction l as [|x r IH]; cbn [sort_tlvs]; [reflexivity|].
  rewrite <- insert_perm. now constructor.
Qed.

Lemma insert_sorted x l : StronglySorted key_le l -> StronglySorted key_le (insert_tlv x l).
Proof.
  induction l as [|y r IH]; intros H; cbn [insert_tlv].
  - repeat constructor.
  - apply StronglySorted_inv in H as [Hr Hy].
    destruct (fst x <=? fst y) eqn:E.
    + apply Z.leb_le in E. constructor; [now constructor|].
      constructor; [exact E|]. eapply Forall_impl; [|exact Hy]. unfold key_le. intros a Ha. lia.
    + apply Z.leb_gt in E. constructor; [now apply IH|].
      eapply Permutation_Forall; [apply insert_perm|].
      constructor; [unfold key_le; lia|exact Hy].
Qed.

Lemma sort_sorted l : StronglySorted key_le (sort_tlvs l).
Proof. induction l as [|x r IH]; cbn [sort_tlvs]; [constructor|now apply insert_sorted]. Qed.

Lemma strictly_ascending_cons2 a b r :
  strictly_ascending (a :: b :: r) = (a <? b) && strictly_ascending (b :: r).
Proof. reflexivity. Qed.

Lemma sorted_nodup_ascending l :
  StronglySorted key_le l -> NoDup (map fst l) -> strictly_ascending (map fst l) = true.
Proof.
  induction l as [|a r IH]; intros Hs Hn; [reflexivity|].
  apply StronglySorted_inv in Hs as [Hr Ha]. cbn [map] in Hn. apply NoDup_cons_iff in Hn as [Hnin Hn].
  destruct r as [|b r']; [reflexivity|].
  cbn [map]. rewrite strictly_ascending_cons2. change (fst b :: map fst r') with (map fst (b :: r')).
  rewrite (IH Hr Hn). rewrite andb_true_r. apply Z.ltb_lt.
  apply Forall_inv in Ha. unfold key_le in Ha.
  assert (fst a <> fst b) by (intros E; apply Hnin; left; now symmetry). lia.
Qed.

Lemma ascending_app_bound l1 l2 m :
  strictly_ascending l1 = true -> strictly_ascending l2 = true ->
  Forall (fun a => a < m) l1 -> Forall (fun b => m <= b) l2 ->
  strictly_ascending (l1 ++ l2) = true.
Proof.
  induction l1 as [|a r IH]; intros H1 H2 F1 F2; [exact H2|].
  apply Forall_cons_iff in F1 as [Fa Fr].
  destruct r as [|b r'].
  - cbn [app]. destruct l2 as [|c l2']; [reflexivity|].
    rewrite strictly_ascending_cons2, H2, andb_true_r. apply Z.ltb_lt.
    apply Forall_inv in F2. lia.
  - rewrite strictly_ascending_cons2 in H1. apply andb_true_iff in H1 as [Hab Hr].
    cbn [app]. rewrite strictly_ascending_cons2, Hab. cbn [andb]. now apply (IH Hr H2 Fr F2).
Qed.

(** what [RecipientCustomTlvs::new] guarantees *)
Definition custom_ok (custom : list tlv) : Prop :=
  NoDup (map fst custom) /\
  Forall (fun t => 65536 <= fst t /\ fst t <> KEYSEND_TLV /\ fst t <> INVOICE_REQUEST_TLV) custom.

Definition customs_of (p : onion_payload) : list tlv :=
  match p with
  | PReceive _ _ _ c _ _ => c
  | PBlindedReceive _ _ _ _ _ _ c _ => c
  | _ => []
  end.

Lemma extras_nodup custom invreq ks :
  custom_ok custom ->
  NoDup (map fst (custom ++ opt_tlv INVOICE_REQUEST_TLV invreq ++ opt_tlv KEYSEND_TLV ks)) /\
  Forall (fun t => 65536 <= fst t) (custom ++ opt_tlv INVOICE_REQUEST_TLV invreq ++ opt_tlv KEYSEND_TLV ks).
Proof.
  intros [Hn Hf].
  set (tail := opt_tlv INVOICE_REQUEST_TLV invreq ++ opt_tlv KEYSEND_TLV ks).
  assert (Ht : NoDup (map fst tail) /\ Forall (fun t => 65536 <= fst t) tail /\
               forall t, In t tail -> fst t = INVOICE_REQUEST_TLV \/ fst t = KEYSEND_TLV).
  { unfold tail, opt_tlv, KEYSEND_TLV, INVOICE_REQUEST_TLV. destruct invreq, ks; cbn [app map fst].
    - split; [|split].
      + constructor; [intros [H|[]]; discriminate H|]. constructor; [intros []|constructor].
      + repeat constructor; cbn; lia.
      + intros t [<-|[<-|[]]]; cbn; auto.
    - split; [|split].
      + constructor; [intros []|constructor].
      + repeat constructor; cbn; lia.
      + intros t [<-|[]]; cbn; auto.
    - split; [|split].
      + constructor; [intros []|constructor].
      + repeat constructor; cbn; lia.
      + intros t [<-|[]]; cbn; auto.
    - split; [constructor|split; [constructor|intros t []]]. }
  destruct Ht as (Ht1 & Ht2 & Ht3).
  split.
  - induction custom as [|a r IH]; [exact Ht1|].
    cbn [app map]. cbn [map] in Hn. apply NoDup_cons_iff in Hn as [Hnin Hn].
    apply Forall_cons_iff in Hf as [Ha Hf].
    constructor; [|now apply IH].
    rewrite map_app, in_app_iff. intros [Hin|Hin]; [contradiction|].
    apply in_map_iff in Hin as (t & Et & Hin). destruct (Ht3 t Hin) as [E|E]; rewrite Et in E; tauto.
  - apply Forall_app. split; [|exact Ht2]. eapply Forall_impl; [|exact Hf]. cbn. tauto.
Qed.

Lemma extras_ascending custom invreq ks :
  custom_ok custom ->
  let ex := sort_tlvs (custom ++ opt_tlv INVOICE_REQUEST_TLV invreq ++ opt_tlv KEYSEND_TLV ks) in
  strictly_ascending (map fst ex) = true /\ Forall (fun b => 65536 <= b) (map fst ex).
Proof.
  intros Hok ex. destruct (extras_nodup custom invreq ks Hok) as [Hn Hf].
  pose proof (sort_perm (custom ++ opt_tlv INVOICE_REQUEST_TLV invreq ++ opt_tlv KEYSEND_TLV ks)) as Hp.
  split.
  - apply sorted_nodup_ascending; [apply sort_sorted|].
    eapply Permutation_NoDup; [apply Permutation_map; exact Hp|exact Hn].
  - apply Forall_map. eapply Permutation_Forall; [exact Hp|exact Hf].
Qed.

(** C14, payload TLV order.  Whatever the recipient fields: the TLV stream of every onion payload is
    strictly ascending in its types (so the reader's order check accepts it, and - in a debug build -
    the writer's order assertion does not fire). *)
Theorem payload_ascending p :
  custom_ok (customs_of p) -> strictly_ascending (map fst (payload_tlvs p)) = true.
Proof.
  intros Hok. unfold payload_tlvs. rewrite map_app.
  destruct p as [scid amt cltv|pd meta ks custom amt cltv|enc bp|amt total cltv enc bp ks custom invreq];
    cbn [customs_of] in Hok.
  - reflexivity.
  - cbn [extra_tlvs].
    destruct (extras_ascending custom None ks Hok) as [Ha Hb]. cbn [opt_tlv app] in Ha, Hb.
    apply (ascending_app_bound _ _ 65536); try assumption.
    + destruct pd, meta; reflexivity.
    + destruct pd, meta; cbn; repeat constructor; lia.
  - destruct bp; reflexivity.
  - cbn [extra_tlvs].
    destruct (extras_ascending custom invreq ks Hok) as [Ha Hb].
    apply (ascending_app_bound _ _ 65536); try assumption.
    + destruct bp; reflexivity.
    + destruct bp; cbn; repeat constructor; lia.
Qed.

(** * From the route to the payloads: every hop is told exactly what the route says *)

Definition sum_fees (l : list route_hop) : Z := fold_right (fun h a => rh_fee_msat h + a) 0 l.
Definition sum_deltas (l : list route_hop) : Z := fold_right (fun h a => rh_cltv_delta h + a) 0 l.

Definition hop_ok (h : route_hop) : Prop := 0 <= rh_fee_msat h /\ 0 <= rh_cltv_delta h.

Lemma last_fee_le_sum l d : l <> [] -> Forall hop_ok l -> rh_fee_msat (last l d) <= sum_fees l.
Proof.
  induction l as [|a r IH]; intros Hne Hok; [congruence|].
  apply Forall_cons_iff in Hok as [[Ha _] Hok].
  destruct r as [|b t].
  - cbn. lia.
  - change (last (a :: b :: t) d) with (last (b :: t) d).
    specialize (IH ltac:(discriminate) Hok). cbn [sum_fees fold_right] in *. fold (sum_fees t) in *. lia.
Qed.

(** equal loop states up to arithmetic in the amount / expiry components *)
Ltac finish_state :=
  match goal with
  | |- Some (?n, ?l, ?v, ?c, ?s) = Some (?n', ?l', ?v', ?c', ?s') =>
      replace v with v' by lia; replace c with c' by lia; reflexivity
  end.

Section RouteSpec.
  Variable tail : option blinded_tail.
  Variable rf : recipient_fields.
  Variable height : Z.
  Variable keysend invreq : option bytes.

  (** what the payloads of the hops AFTER the last plain route hop carry: the recipient's, or the
      blinded tail's (whose last one tells the recipient [height + excess]) *)
  Definition final_payloads (last_hop : route_hop) : list onion_payload :=
    match tail with
    | Some bt =>
        blinded_payloads (bt_hops bt) (Some (bt_blinding_point bt))
          (fun e bp => PBlindedReceive (bt_final_value_msat bt) (rf_total_mpp_amount_msat rf)
                                       (height + bt_excess_final_cltv_expiry_delta bt) e bp keysend
                                       (rf_custom_tlvs rf) invreq)
    | None =>
        [PReceive (option_map (fun s => (s, rf_total_mpp_amount_msat rf)) (rf_payment_secret rf))
                  (rf_payment_metadata rf) keysend (rf_custom_tlvs rf) (rh_fee_msat last_hop)
                  (height + rh_cltv_delta last_hop)]
    end.

  (** value carried beyond the plain hops: the blinded tail's final value *)
  Definition tail_value : Z :=
    match tail with Some bt => match bt_hops bt with [] => 0 | _ :: _ => bt_final_value_msat bt end | None => 0 end.

  (** the amount / expiry of the HTLC that enters the first hop of [l] *)
  Definition V (l : list route_hop) : Z := sum_fees l + tail_value.
  Definition C (l : list route_hop) : Z := height + sum_deltas l.

  (** the specification: hop [a] followed by [b :: t] is told to forward over [b]'s channel the amount
      and with the expiry of the HTLC that enters [b] *)
  Fixpoint spec (l : list route_hop) : list onion_payload :=
    match l with
    | [] => []
    | [last] => final_payloads last
    | a :: ((b :: _) as r) => PForward (rh_scid b) (V r) (C r) :: spec r
    end.

  Lemma sums_nonneg l : Forall hop_ok l -> 0 <= sum_fees l /\ 0 <= sum_deltas l.
  Proof.
    induction 1 as [|h l [Hf Hd] _ [IH1 IH2]]; cbn [sum_fees sum_deltas fold_right]; [lia|].
    fold (sum_fees l) (sum_deltas l). lia.
  Qed.

  Lemma fold_spec : forall l,
    l <> [] -> Forall hop_ok l -> 0 <= height -> 0 <= tail_value ->
    0 < rh_fee_msat (last l (mk_route_hop 0 0 0)) + tail_value ->
    V l < MAX_VALUE_MSAT_LIMIT -> C l < CLTV_LIMIT ->
    fold_left (payload_step tail rf height keysend invreq) (rev l) (Some (O, [], 0, height, None)) =
    Some (length l, spec l, V l, C l, Some (rh_scid (hd (mk_route_hop 0 0 0) l))).
  Proof.
    induction l as [|a r IH]; intros Hne Hok Hh Htv Hpos HV HC; [congruence|].
    apply Forall_cons_iff in Hok as [[Hfa Hda] Hokr].
    destruct (sums_nonneg r Hokr) as [Hsf Hsd].
    cbn [rev]. rewrite fold_left_app. cbn [fold_left].
    unfold V, C in HV, HC. cbn [sum_fees sum_deltas fold_right] in HV, HC. fold (sum_fees r) (sum_deltas r) in HV, HC.
    unfold CLTV_LIMIT, MAX_VALUE_MSAT_LIMIT in *.
    destruct r as [|b t].
    - (* the last plain hop *)
      cbn [rev app fold_left length spec hd]. unfold payload_step. cbn [Z.eqb].
      unfold MAX_VALUE_MSAT_LIMIT, CLTV_LIMIT.
      unfold V, C, tail_value, final_payloads, sum_fees, sum_deltas. cbn [fold_right app].
      unfold sat_add_u32, tail_value in *. cbn [last] in Hpos. cbn [fold_right] in HV, HC.
      destruct tail as [bt|].
      + destruct (bt_hops bt) eqn:Eh.
        * rewrite !Z.min_l by lia.
          repeat match goal with |- context [?x <=? ?y] => rewrite (proj2 (Z.leb_gt x y)) by lia end.
          finish_state.
        * rewrite !Z.min_l by lia.
          repeat match goal with |- context [?x <=? ?y] => rewrite (proj2 (Z.leb_gt x y)) by lia end.
          finish_state.
      + rewrite !Z.min_l by lia.
        repeat match goal with |- context [?x <=? ?y] => rewrite (proj2 (Z.leb_gt x y)) by lia end.
        rewrite ?Z.add_0_r, ?Z.add_0_l, (Z.add_comm (rh_cltv_delta a) height). reflexivity.
    - (* a forwarding hop *)
      set (r := b :: t) in *.
      assert (Hlast : last (a :: r) (mk_route_hop 0 0 0) = last r (mk_route_hop 0 0 0)) by reflexivity.
      rewrite Hlast in Hpos.
      assert (HVr : V r < 21000000 * 100000000 * 1000) by (unfold V; lia).
      assert (HCr : C r < 500000000) by (unfold C; lia).
      rewrite (IH ltac:(discriminate) Hokr Hh Htv Hpos HVr HCr).
      assert (HVpos : 0 < V r).
      { unfold V. pose proof (last_fee_le_sum r (mk_route_hop 0 0 0) ltac:(discriminate) Hokr). lia. }
      unfold payload_step. subst r. cbn [length hd spec].
      destruct (V (b :: t) =? 0) eqn:E0; [apply Z.eqb_eq in E0; lia|].
      unfold MAX_VALUE_MSAT_LIMIT, CLTV_LIMIT, sat_add_u32.
      assert (HV2 : V (b :: t) + rh_fee_msat a < 21000000 * 100000000 * 1000) by (unfold V in *; lia).
      assert (HC2 : C (b :: t) + rh_cltv_delta a < 500000000) by (unfold C in *; lia).
      rewrite Z.min_l by lia.
      repeat match goal with |- context [?x <=? ?y] => rewrite (proj2 (Z.leb_gt x y)) by lia end.
      unfold V, C. cbn [sum_fees sum_deltas fold_right]. fold (sum_fees (b :: t)) (sum_deltas (b :: t)).
      finish_state.
  Qed.
End RouteSpec.

(** C14, instructions.  For every route of plain hops (fees and deltas non-negative, totals below
    rust-lightning's limits, a positive amount arriving at the recipient) with or without a blinded
    tail: [build_onion_payloads] succeeds; hop [i] is told to forward over hop [i+1]'s channel exactly
    the amount and expiry of the HTLC entering hop [i+1]; the recipient is told the final value and
    [height + final delta], or - behind a blinded tail - the tail's final value and
    [height + excess_final_cltv_expiry_delta]; the HTLC handed to the first hop carries the total. *)
Theorem build_payloads_spec hops tail rf height keysend invreq :
  hops <> [] -> Forall hop_ok hops -> 0 <= height -> 0 <= tail_value tail ->
  0 < rh_fee_msat (last hops (mk_route_hop 0 0 0)) + tail_value tail ->
  V tail hops < MAX_VALUE_MSAT_LIMIT -> C height hops < CLTV_LIMIT ->
  build_payloads hops tail rf height keysend invreq =
  Some (spec tail rf height keysend invreq hops, V tail hops, C height hops).
Proof.
  intros. unfold build_payloads. now rewrite fold_spec.
Qed.

(** in particular, what the recipient behind a blinded tail is told *)
Corollary blinded_recipient_cltv bt e rf height keysend invreq :
  blinded_payloads [e] (Some (bt_blinding_point bt))
    (fun e bp => PBlindedReceive (bt_final_value_msat bt) (rf_total_mpp_amount_msat rf)
                                 (height + bt_excess_final_cltv_expiry_delta bt) e bp keysend
                                 (rf_custom_tlvs rf) invreq) =
  [PBlindedReceive (bt_final_value_msat bt) (rf_total_mpp_amount_msat rf)
                   (height + bt_excess_final_cltv_expiry_delta bt) e (Some (bt_blinding_point bt)) keysend
                   (rf_custom_tlvs rf) invreq].
Proof. reflexivity. Qed.
