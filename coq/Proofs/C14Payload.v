(** C14: the TLV stream rust-lightning assembles for an onion payload is strictly ascending in its
    types, for every admissible set of custom TLVs (what [RecipientCustomTlvs::new] admits: pairwise
    distinct types, all at least 2^16, none equal to the keysend or invoice-request type), with or
    without keysend preimage, invoice request, payment metadata, payment secret, blinding point. *)
From Coq Require Import ZArith List Bool Lia Sorting.Permutation Sorting.Sorted.
Require Import LdkV.Crypto.Bytes LdkV.Model.OnionPayload.
Import ListNotations.
Open Scope Z_scope.

Definition key_le (a b : tlv) : Prop := fst a <= fst b.

Lemma insert_perm x l : Permutation (x :: l) (insert_tlv x l).
Proof.
  induction l as [|y r IH]; cbn [insert_tlv]; [reflexivity|].
  destruct (fst x <=? fst y); [reflexivity|].
  rewrite perm_swap. now constructor.
Qed.

Lemma sort_perm l : Permutation l (sort_tlvs l).
Proof.
  induction l as [|x r IH]; cbn [sort_tlvs]; [reflexivity|].
  rewrite <- insert_perm. now constructor.
Qed.

Lemma insert_sorted x l : StronglySorted key_le l -> StronglySorted key_le (insert_tlv x l).
Proof.
  induction l as [|y r IH]; intros H; cbn [insert_tlv].
  - repeat constructor.
  - apply StronglySorted_inv in H as [Hr Hy].
    destruct (fst x <=? fst y) eqn:E.
    + apply Z.leb_le in E. constructor; [now constructor|].
      constructor; [exact E|]. eapply Forall_impl; [|exact Hy]. unfold key_le. intros a Ha. lia.
    + apply Z.leb_gt in E. constructor; [now apply IH|].
      eapply Permutation_Forall; [apply insert_perm|].
      constructor; [unfold key_le; lia|exact Hy].
Qed.

Lemma sort_sorted l : StronglySorted key_le (sort_tlvs l).
Proof. induction l as [|x r IH]; cbn [sort_tlvs]; [constructor|now apply insert_sorted]. Qed.

Lemma strictly_ascending_cons2 a b r :
  strictly_ascending (a :: b :: r) = (a <? b) && strictly_ascending (b :: r).
Proof. reflexivity. Qed.

Lemma sorted_nodup_ascending l :
  StronglySorted key_le l -> NoDup (map fst l) -> strictly_ascending (map fst l) = true.
Proof.
  induction l as [|a r IH]; intros Hs Hn; [reflexivity|].
  apply StronglySorted_inv in Hs as [Hr Ha]. cbn [map] in Hn. apply NoDup_cons_iff in Hn as [Hnin Hn].
  destruct r as [|b r']; [reflexivity|].
  cbn [map]. rewrite strictly_ascending_cons2. change (fst b :: map fst r') with (map fst (b :: r')).
  rewrite (IH Hr Hn). rewrite andb_true_r. apply Z.ltb_lt.
  apply Forall_inv in Ha. unfold key_le in Ha.
  assert (fst a <> fst b) by (intros E; apply Hnin; left; now symmetry). lia.
Qed.

Lemma ascending_app_bound l1 l2 m :
  strictly_ascending l1 = true -> strictly_ascending l2 = true ->
  Forall (fun a => a < m) l1 -> Forall (fun b => m <= b) l2 ->
  strictly_ascending (l1 ++ l2) = true.
Proof.
  induction l1 as [|a r IH]; intros H1 H2 F1 F2; [exact H2|].
  apply Forall_cons_iff in F1 as [Fa Fr].
  destruct r as [|b r'].
  - cbn [app]. destruct l2 as [|c l2']; [reflexivity|].
    rewrite strictly_ascending_cons2, H2, andb_true_r. apply Z.ltb_lt.
    apply Forall_inv in F2. lia.
  - rewrite strictly_ascending_cons2 in H1. apply andb_true_iff in H1 as [Hab Hr].
    cbn [app]. rewrite strictly_ascending_cons2, Hab. cbn [andb]. now apply (IH Hr H2 Fr F2).
Qed.

(** what [RecipientCustomTlvs::new] guarantees *)
Definition custom_ok (custom : list tlv) : Prop :=
  NoDup (map fst custom) /\
  Forall (fun t => 65536 <= fst t /\ fst t <> KEYSEND_TLV /\ fst t <> INVOICE_REQUEST_TLV) custom.

Definition customs_of (p : onion_payload) : list tlv :=
  match p with
  | PReceive _ _ _ c _ _ => c
  | PBlindedReceive _ _ _ _ _ _ c _ => c
  | _ => []
  end.

Lemma extras_nodup custom invreq ks :
  custom_ok custom ->
  NoDup (map fst (custom ++ opt_tlv INVOICE_REQUEST_TLV invreq ++ opt_tlv KEYSEND_TLV ks)) /\
  Forall (fun t => 65536 <= fst t) (custom ++ opt_tlv INVOICE_REQUEST_TLV invreq ++ opt_tlv KEYSEND_TLV ks).
Proof.
  intros [Hn Hf].
  set (tail := opt_tlv INVOICE_REQUEST_TLV invreq ++ opt_tlv KEYSEND_TLV ks).
  assert (Ht : NoDup (map fst tail) /\ Forall (fun t => 65536 <= fst t) tail /\
               forall t, In t tail -> fst t = INVOICE_REQUEST_TLV \/ fst t = KEYSEND_TLV).
  { unfold tail, opt_tlv, KEYSEND_TLV, INVOICE_REQUEST_TLV. destruct invreq, ks; cbn [app map fst].
    - split; [|split].
      + constructor; [intros [H|[]]; discriminate H|]. constructor; [intros []|constructor].
      + repeat constructor; cbn; lia.
      + intros t [<-|[<-|[]]]; cbn; auto.
    - split; [|split].
      + constructor; [intros []|constructor].
      + repeat constructor; cbn; lia.
      + intros t [<-|[]]; cbn; auto.
    - split; [|split].
      + constructor; [intros []|constructor].
      + repeat constructor; cbn; lia.
      + intros t [<-|[]]; cbn; auto.
    - split; [constructor|split; [constructor|intros t []]]. }
  destruct Ht as (Ht1 & Ht2 & Ht3).
  split.
  - induction custom as [|a r IH]; [exact Ht1|].
    cbn [app map]. cbn [map] in Hn. apply NoDup_cons_iff in Hn as [Hnin Hn].
    apply Forall_cons_iff in Hf as [Ha Hf].
    constructor; [|now apply IH].
    rewrite map_app, in_app_iff. intros [Hin|Hin]; [contradiction|].
    apply in_map_iff in Hin as (t & Et & Hin). destruct (Ht3 t Hin) as [E|E]; rewrite Et in E; tauto.
  - apply Forall_app. split; [|exact Ht2]. eapply Forall_impl; [|exact Hf]. cbn. tauto.
Qed.

Lemma extras_ascending custom invreq ks :
  custom_ok custom ->
  let ex := sort_tlvs (custom ++ opt_tlv INVOICE_REQUEST_TLV invreq ++ opt_tlv KEYSEND_TLV ks) in
  strictly_ascending (map fst ex) = true /\ Forall (fun b => 65536 <= b) (map fst ex).
Proof.
  intros Hok ex. destruct (extras_nodup custom invreq ks Hok) as [Hn Hf].
  pose proof (sort_perm (custom ++ opt_tlv INVOICE_REQUEST_TLV invreq ++ opt_tlv KEYSEND_TLV ks)) as Hp.
  split.
  - apply sorted_nodup_ascending; [apply sort_sorted|].
    eapply Permutation_NoDup; [apply Permutation_map; exact Hp|exact Hn].
  - apply Forall_map. eapply Permutation_Forall; [exact Hp|exact Hf].
Qed.

(** C14, payload TLV order.  Whatever the recipient fields: the TLV stream of every onion payload is
    strictly ascending in its types (so the reader's order check accepts it, and - in a debug build -
    the writer's order assertion does not fire). *)
Theorem payload_ascending p :
  custom_ok (customs_of p) -> strictly_ascending (map fst (payload_tlvs p)) = true.
Proof.
  intros Hok. unfold payload_tlvs. rewrite map_app.
  destruct p as [scid amt cltv|pd meta ks custom amt cltv|enc bp|amt total cltv enc bp ks custom invreq];
    cbn [customs_of] in Hok.
  - reflexivity.
  - cbn [extra_tlvs].
    destruct (extras_ascending custom None ks Hok) as [Ha Hb]. cbn [opt_tlv app] in Ha, Hb.
    apply (ascending_app_bound _ _ 65536); try assumption.
    + destruct pd, meta; reflexivity.
    + destruct pd, meta; cbn; repeat constructor; lia.
  - destruct bp; reflexivity.
  - cbn [extra_tlvs].
    destruct (extras_ascending custom invreq ks Hok) as [Ha Hb].
    apply (ascending_app_bound _ _ 65536); try assumption.
    + destruct bp; reflexivity.
    + destruct bp; cbn; repeat constructor; lia.
Qed.
