(** TLV stream theorems (shared by C13 and C12): round trip for every well-formed schema, unknown
    odd records are skipped, unknown even / out-of-order / truncated records are rejected, the
    recursion bound of the loop is never reached. *)
Require Import LdkV.Prim.U64 LdkV.Codec.Combinators LdkV.Codec.Tlv LdkV.Proofs.C13Base.
Open Scope Z_scope.

Section WithOracle.
Variable pk_valid : bytes -> bool.
Notation fdec := (fdec pk_valid).
Notation tlv_loop := (tlv_loop pk_valid).
Notation tlv_dec := (tlv_dec pk_valid).
Notation tlv_dom := (tlv_dom pk_valid).
Notation entry_dom := (entry_dom pk_valid).
Notation val_ok := (val_ok pk_valid).

(** one iteration of the loop on a non-empty input *)
Definition tlv_body (es : list entry) (f : nat) (last : option Z) (acc : list (Z * fv)) (b : bytes) :=
  dop (typ, r1) <- bigsize_dec b;
  if negb (lt_opt last typ) then RErr "InvalidValue" else
  if negb (order_check es last typ) then RErr "InvalidValue" else
  dop (length, r2) <- bigsize_dec r1;
  let window := ztake length r2 in
  let rest := zdrop length r2 in
  match find_entry es typ with
  | Some e =>
    dop (v, lft) <- fdec (e_fc e) window;
    if len window - len lft =? length then tlv_loop es f (Some typ) (acc ++ [(typ, v)]) rest
    else if len r2 <? length then RErr "ShortRead"
    else RErr "InvalidValue"
  | None =>
    if typ mod 2 =? 0 then RErr "UnknownRequiredFeature"
    else if len r2 <? length then RErr "ShortRead"
    else tlv_loop es f (Some typ) acc rest
  end.

Lemma tlv_loop_S es f last acc b : b <> [] -> tlv_loop es (S f) last acc b = tlv_body es f last acc b.
Proof. destruct b; [congruence|reflexivity]. Qed.
Lemma tlv_loop_nil es f last acc : tlv_loop es f last acc [] = ROk (acc, last).
Proof. destruct f; reflexivity. Qed.

Lemma zdrop_length l : forall n, (List.length (zdrop n l) <= List.length l)%nat.
Proof.
  induction l as [|x l IH]; intros n; cbn [zdrop]; [lia|]. destruct (n <=? 0); [lia|].
  cbn [List.length]. specialize (IH (n - 1)). lia.
Qed.

(** The recursion bound is irrelevant once it is at least the input length. *)
Lemma tlv_loop_fuel es : forall f1 f2 last acc b,
  (List.length b <= f1)%nat -> (List.length b <= f2)%nat ->
  tlv_loop es f1 last acc b = tlv_loop es f2 last acc b.
Proof.
  induction f1 as [|f1 IH]; intros f2 last acc b L1 L2.
  - destruct b; [|cbn [List.length] in L1; lia]. rewrite !tlv_loop_nil. reflexivity.
  - destruct b as [|x t]; [rewrite !tlv_loop_nil; reflexivity|].
    destruct f2 as [|f2]; [cbn [List.length] in L2; lia|].
    rewrite !tlv_loop_S by discriminate. unfold tlv_body.
    destruct (bigsize_dec (x :: t)) as [[typ r1]|e] eqn:E1; cbn [rbind]; [|reflexivity].
    destruct (negb (lt_opt last typ)); [reflexivity|]. destruct (negb (order_check es last typ)); [reflexivity|].
    destruct (bigsize_dec r1) as [[lenv r2]|e] eqn:E2; cbn [rbind]; [|reflexivity].
    assert (Lr : (List.length (zdrop lenv r2) < List.length (x :: t))%nat).
    { apply bigsize_consumed in E1. destruct E1 as [p1 [Eb Lp1]]. apply bigsize_consumed in E2. destruct E2 as [p2 [Er _]].
      pose proof (zdrop_length r2 lenv). rewrite Eb, Er, !app_length. unfold len in Lp1. lia. }
    destruct (find_entry es typ).
    + destruct (fdec (e_fc e) (ztake lenv r2)) as [[v lft]|e0]; cbn [rbind]; [|reflexivity].
      destruct (len (ztake lenv r2) - len lft =? lenv); [|reflexivity]. apply IH; lia.
    + destruct (typ mod 2 =? 0); [reflexivity|]. destruct (len r2 <? lenv); [reflexivity|]. apply IH; lia.
Qed.

Lemma bigsize_enc_nonempty v : bigsize_enc v <> [].
Proof. unfold bigsize_enc. destruct (v <=? 252); [discriminate|]. destruct (v <=? 65535); [discriminate|]. destruct (v <=? 4294967295); discriminate. Qed.
Lemma rec_enc_nonempty t w rest : rec_enc t w ++ rest <> [].
Proof.
  unfold rec_enc. pose proof (bigsize_enc_nonempty t). destruct (bigsize_enc t); [congruence|]. discriminate.
Qed.

Lemma nonempty_length (b : bytes) : b <> [] -> (1 <= List.length b)%nat.
Proof. destruct b; [congruence|cbn [List.length]; lia]. Qed.

(** --------------------------------------------------------------- single-record behaviour *)

(** a well-formed record of a KNOWN type is decoded and appended *)
Lemma step_known es e v rest fuel last acc :
  find_entry es (e_ty e) = Some e -> val_ok e v = true -> 0 <= e_ty e < 2 ^ 64 -> fc_wf (e_fc e) = true ->
  lt_opt last (e_ty e) = true -> order_check es last (e_ty e) = true ->
  (List.length (rec_enc (e_ty e) (fenc (e_fc e) v) ++ rest) <= fuel)%nat ->
  tlv_loop es fuel last acc (rec_enc (e_ty e) (fenc (e_fc e) v) ++ rest)
  = tlv_loop es (List.length rest) (Some (e_ty e)) (acc ++ [(e_ty e, v)]) rest.
Proof.
  intros F V T W LT OC L. unfold Tlv.val_ok in V. apply andb_true_iff in V. destruct V as [D PL]. apply Z.ltb_lt in PL.
  destruct fuel as [|fuel].
  { pose proof (nonempty_length _ (rec_enc_nonempty (e_ty e) (fenc (e_fc e) v) rest)). lia. }
  rewrite tlv_loop_S by apply rec_enc_nonempty. unfold tlv_body, rec_enc. rewrite <- !app_assoc.
  rewrite bigsize_rt by exact T. cbn [rbind]. rewrite LT, OC. cbn [negb].
  rewrite bigsize_rt by (pose proof (len_nonneg (fenc (e_fc e) v)); lia). cbn [rbind]. rewrite F.
  rewrite ztake_app_exact, zdrop_app_exact by reflexivity.
  rewrite (fdec_rt_end pk_valid) by assumption. cbn [rbind]. rewrite len_nil, Z.sub_0_r, Z.eqb_refl.
  apply tlv_loop_fuel; [|lia]. unfold rec_enc in L. rewrite !app_length in L.
  pose proof (nonempty_length _ (bigsize_enc_nonempty (e_ty e))). lia.
Qed.

(** a record of an UNKNOWN ODD type is skipped: nothing but [last_seen_type] changes *)
Lemma step_unknown_odd es t w rest fuel last acc :
  find_entry es t = None -> t mod 2 = 1 -> 0 <= t < 2 ^ 64 -> len w < 2 ^ 64 ->
  lt_opt last t = true -> order_check es last t = true ->
  (List.length (rec_enc t w ++ rest) <= fuel)%nat ->
  tlv_loop es fuel last acc (rec_enc t w ++ rest) = tlv_loop es (List.length rest) (Some t) acc rest.
Proof.
  intros F O T PL LT OC L.
  destruct fuel as [|fuel].
  { pose proof (nonempty_length _ (rec_enc_nonempty t w rest)). lia. }
  rewrite tlv_loop_S by apply rec_enc_nonempty. unfold tlv_body, rec_enc. rewrite <- !app_assoc.
  rewrite bigsize_rt by exact T. cbn [rbind]. rewrite LT, OC. cbn [negb].
  rewrite bigsize_rt by (pose proof (len_nonneg w); lia). cbn [rbind]. rewrite F.
  rewrite O. change (1 =? 0) with false. cbv iota.
  rewrite len_app. pose proof (len_nonneg rest). destruct (Z.ltb_spec (len w + len rest) (len w)); [lia|].
  rewrite zdrop_app_exact by reflexivity.
  apply tlv_loop_fuel; [|lia]. unfold rec_enc in L. rewrite !app_length in L.
  pose proof (nonempty_length _ (bigsize_enc_nonempty t)). lia.
Qed.

(** a record of an UNKNOWN EVEN type is rejected (whatever follows) *)
Lemma step_unknown_even es t r fuel last acc :
  find_entry es t = None -> t mod 2 = 0 -> 0 <= t < 2 ^ 64 ->
  lt_opt last t = true -> order_check es last t = true ->
  forall n r2, bigsize_dec r = ROk (n, r2) ->
  tlv_loop es (S fuel) last acc (bigsize_enc t ++ r) = RErr "UnknownRequiredFeature".
Proof.
  intros F E T LT OC n r2 B.
  rewrite tlv_loop_S.
  2:{ pose proof (bigsize_enc_nonempty t). destruct (bigsize_enc t); [congruence|discriminate]. }
  unfold tlv_body. rewrite bigsize_rt by exact T. cbn [rbind]. rewrite LT, OC. cbn [negb].
  rewrite B. cbn [rbind]. rewrite F, E. reflexivity.
Qed.

(** a type that does not exceed the last seen type (out of order or duplicate) is rejected *)
Lemma step_out_of_order es t l r fuel acc :
  0 <= t < 2 ^ 64 -> t <= l ->
  tlv_loop es (S fuel) (Some l) acc (bigsize_enc t ++ r) = RErr "InvalidValue".
Proof.
  intros T LE. rewrite tlv_loop_S.
  2:{ pose proof (bigsize_enc_nonempty t). destruct (bigsize_enc t); [congruence|discriminate]. }
  unfold tlv_body. rewrite bigsize_rt by exact T. cbn [rbind lt_opt].
  destruct (Z.ltb_spec l t); [lia|]. reflexivity.
Qed.

(** a record whose declared length exceeds what is left is a short read (unknown odd type: the
    value is not even looked at) *)
Lemma step_truncated es t n w fuel last acc :
  find_entry es t = None -> t mod 2 = 1 -> 0 <= t < 2 ^ 64 -> 0 <= n < 2 ^ 64 -> len w < n ->
  lt_opt last t = true -> order_check es last t = true ->
  tlv_loop es (S fuel) last acc (bigsize_enc t ++ bigsize_enc n ++ w) = RErr "ShortRead".
Proof.
  intros F O T N SH LT OC. rewrite tlv_loop_S.
  2:{ pose proof (bigsize_enc_nonempty t). destruct (bigsize_enc t); [congruence|discriminate]. }
  unfold tlv_body. rewrite bigsize_rt by exact T. cbn [rbind]. rewrite LT, OC. cbn [negb].
  rewrite bigsize_rt by exact N. cbn [rbind]. rewrite F, O. change (1 =? 0) with false. cbv iota.
  destruct (Z.ltb_spec (len w) n); [reflexivity|lia].
Qed.

(** a stream that ends inside a type or length field is a short read *)
Lemma step_partial_type es x fuel last acc :
  (x = 0xFD \/ x = 0xFE \/ x = 0xFF) ->
  tlv_loop es (S fuel) last acc [x] = RErr "ShortRead".
Proof.
  intros H. rewrite tlv_loop_S by discriminate. unfold tlv_body, bigsize_dec. rewrite read_u1_cons. cbn [rbind].
  destruct H as [-> | [-> | ->]]; reflexivity.
Qed.

(** --------------------------------------------------------------- the whole stream *)

Definition is_absent (e : entry) (ov : option fv) : bool :=
  match e_kind e, ov with KOptVec, Some [] => true | _, None => true | _, _ => false end.
Definition present (e : entry) (ov : option fv) : list (Z * fv) :=
  match e_kind e, ov with KOptVec, Some [] => [] | _, Some v => [(e_ty e, v)] | _, None => [] end.
Fixpoint acc_of (es : list entry) (vals : list (option fv)) : list (Z * fv) :=
  match es, vals with
  | e :: es', v :: vals' => present e v ++ acc_of es' vals'
  | _, _ => []
  end.

Lemma absent_spec e ov : is_absent e ov = true -> entry_dom e ov = true ->
  entry_enc e ov = [] /\ present e ov = [] /\ is_req (e_kind e) = false.
Proof.
  unfold is_absent, Tlv.entry_dom, entry_enc, present.
  destruct (e_kind e), ov as [[|x v]|]; try discriminate; intros _ D; try discriminate; repeat split; reflexivity.
Qed.
Lemma present_spec e ov : is_absent e ov = false -> entry_dom e ov = true ->
  exists v, ov = Some v /\ entry_enc e ov = rec_enc (e_ty e) (fenc (e_fc e) v) /\ present e ov = [(e_ty e, v)] /\ val_ok e v = true.
Proof.
  unfold is_absent, Tlv.entry_dom, entry_enc, present.
  destruct (e_kind e), ov as [[|x v]|]; try discriminate; intros _ D; eexists; repeat split; try reflexivity; exact D.
Qed.

Definition last_le (last : option Z) (lo : Z) : Prop := match last with None => True | Some l => l <= lo end.
(** every required entry of [l] has already been seen *)
Definition reqs_seen (l : list entry) (last : option Z) : Prop :=
  forall e, In e l -> is_req (e_kind e) = true -> lt_opt last (e_ty e) = false.
Fixpoint hi (lo : Z) (l : list entry) : Z := match l with [] => lo | e :: l' => hi (e_ty e) l' end.

Lemma asc_head lo e l : tys_ascending lo (e :: l) = true ->
  lo < e_ty e < 2 ^ 64 /\ fc_wf (e_fc e) = true /\ tys_ascending (e_ty e) l = true.
Proof.
  cbn [tys_ascending]. intros H. apply andb_true_iff in H; destruct H as [H A3]. apply andb_true_iff in H; destruct H as [H A2].
  apply andb_true_iff in H; destruct H as [A0 A1]. apply Z.ltb_lt in A0, A1. repeat split; try assumption.
Qed.
Lemma asc_all_gt l : forall lo e, tys_ascending lo l = true -> In e l -> lo < e_ty e.
Proof.
  induction l as [|x l IH]; intros lo e A I; [destruct I|].
  apply asc_head in A. destruct A as [A1 [_ A2]]. destruct I as [->|I]; [lia|]. specialize (IH _ _ A2 I). lia.
Qed.
Lemma asc_weaken l : forall lo lo', lo' <= lo -> tys_ascending lo l = true -> tys_ascending lo' l = true.
Proof.
  destruct l as [|x l]; intros lo lo' L A; [reflexivity|]. pose proof (asc_head _ _ _ A) as [A1 [A2 A3]].
  cbn [tys_ascending]. rewrite A2, A3. destruct (Z.ltb_spec lo' (e_ty x)); [|lia]. destruct (Z.ltb_spec (e_ty x) (2 ^ 64)); [|lia]. reflexivity.
Qed.
Lemma hi_ge l : forall lo, tys_ascending lo l = true -> lo <= hi lo l.
Proof.
  induction l as [|x l IH]; intros lo A; cbn [hi]; [lia|]. apply asc_head in A. destruct A as [A1 [_ A2]].
  specialize (IH _ A2). lia.
Qed.
Lemma hi_all_le l : forall lo e, tys_ascending lo l = true -> In e l -> e_ty e <= hi lo l.
Proof.
  induction l as [|x l IH]; intros lo e A I; [destruct I|]. cbn [hi].
  apply asc_head in A. destruct A as [A1 [_ A2]]. destruct I as [->|I]; [apply hi_ge; exact A2|]. apply (IH _ _ A2 I).
Qed.

(** in a list [done ++ e :: todo] with all of [done] below [e], [e] is what [find_entry] finds *)
Lemma find_entry_mid done : forall e todo, (forall d, In d done -> e_ty d < e_ty e) ->
  find_entry (done ++ e :: todo) (e_ty e) = Some e.
Proof.
  induction done as [|d done IH]; intros e todo H; cbn [app find_entry].
  - rewrite Z.eqb_refl. reflexivity.
  - destruct (Z.eqb_spec (e_ty d) (e_ty e)) as [E|E]; [specialize (H d (or_introl eq_refl)); lia|].
    apply IH. intros d' I. apply H. right. exact I.
Qed.
Lemma find_entry_none es t : (forall e, In e es -> e_ty e <> t) -> find_entry es t = None.
Proof.
  induction es as [|e es IH]; intros H; cbn [find_entry]; [reflexivity|].
  destruct (Z.eqb_spec (e_ty e) t) as [E|E]; [exfalso; apply (H e); [left; reflexivity|exact E]|].
  apply IH. intros e' I. apply H. right. exact I.
Qed.

Lemma order_check_true es last typ :
  (forall e, In e es -> is_req (e_kind e) = true -> lt_opt last (e_ty e) = true -> e_ty e < typ -> False) ->
  order_check es last typ = true.
Proof.
  induction es as [|e es IH]; intros H; cbn [order_check]; [reflexivity|].
  destruct (is_req (e_kind e)) eqn:R; cbn [andb].
  - destruct (lt_opt last (e_ty e)) eqn:L; cbn [andb].
    + destruct (Z.ltb_spec (e_ty e) typ) as [Q|Q]; [exfalso; apply (H e); auto; left; reflexivity|].
      apply IH. intros e' I. apply H. right. exact I.
    + apply IH. intros e' I. apply H. right. exact I.
  - apply IH. intros e' I. apply H. right. exact I.
Qed.
Lemma missing_check_true es last : reqs_seen es last -> missing_check es last = true.
Proof.
  induction es as [|e es IH]; intros H; cbn [missing_check]; [reflexivity|].
  destruct (is_req (e_kind e)) eqn:R; cbn [andb].
  - rewrite (H e (or_introl eq_refl) R). apply IH. intros e' I. apply H. right. exact I.
  - apply IH. intros e' I. apply H. right. exact I.
Qed.

(** Main loop lemma: running the loop over the encoding of [todo] (followed by anything) reads
    exactly the present records of [todo] and continues on what follows.  The schema is
    [done ++ todo ++ later]. *)
Lemma loop_enc es : forall todo later vals done lo last acc fuel rest,
  es = done ++ todo ++ later -> -1 <= lo -> tys_ascending lo (todo ++ later) = true -> tlv_dom todo vals = true ->
  last_le last lo -> (forall d, In d done -> e_ty d <= lo) -> reqs_seen done last ->
  (List.length (tlv_enc todo vals ++ rest) <= fuel)%nat ->
  exists last',
    tlv_loop es fuel last acc (tlv_enc todo vals ++ rest)
    = tlv_loop es (List.length rest) last' (acc ++ acc_of todo vals) rest
    /\ last_le last' (hi lo todo) /\ reqs_seen (done ++ todo) last'.
Proof.
  induction todo as [|e todo IH]; intros later vals done lo last acc fuel rest E LO A D LL DL RS F.
  - exists last. cbn [tlv_enc acc_of hi app] in *. rewrite !app_nil_r. split; [apply tlv_loop_fuel; lia|]. split; assumption.
  - destruct vals as [|ov vals]; [discriminate|]. cbn [Tlv.tlv_dom] in D. apply andb_true_iff in D. destruct D as [De Dt].
    cbn [app] in A. pose proof (asc_head _ _ _ A) as [A1 [A2 A3]].
    assert (E' : es = (done ++ [e]) ++ todo ++ later) by (rewrite <- app_assoc; exact E).
    assert (LO' : -1 <= e_ty e) by lia.
    assert (DL' : forall d, In d (done ++ [e]) -> e_ty d <= e_ty e).
    { intros d I. apply in_app_or in I. destruct I as [I|[<-|[]]]; [specialize (DL d I)|]; lia. }
    cbn [tlv_enc acc_of hi]. destruct (is_absent e ov) eqn:AB.
    + destruct (absent_spec _ _ AB De) as [S1 [S2 S3]]. rewrite S1, S2. cbn [app].
      destruct (IH later vals (done ++ [e]) (e_ty e) last acc fuel rest E' LO' A3 Dt) as [last' [Q1 [Q2 Q3]]].
      * destruct last; cbn [last_le] in *; [lia|exact I].
      * exact DL'.
      * intros d I R. apply in_app_or in I. destruct I as [I|[<-|[]]]; [apply RS; assumption|congruence].
      * cbn [tlv_enc] in F. rewrite S1 in F. exact F.
      * exists last'. rewrite <- app_assoc in Q3. cbn [app] in Q3. split; [exact Q1|]. split; assumption.
    + destruct (present_spec _ _ AB De) as [v [-> [S1 [S2 S3]]]]. rewrite S1, S2. rewrite <- app_assoc.
      cbn [tlv_enc] in F. rewrite S1, <- app_assoc in F.
      rewrite step_known; try assumption.
      * destruct (IH later vals (done ++ [e]) (e_ty e) (Some (e_ty e)) (acc ++ [(e_ty e, v)]) (List.length (tlv_enc todo vals ++ rest)) rest E' LO' A3 Dt)
          as [last' [Q1 [Q2 Q3]]].
        -- cbn [last_le]. lia.
        -- exact DL'.
        -- intros d I R. specialize (DL' d I). cbn [lt_opt]. destruct (Z.ltb_spec (e_ty e) (e_ty d)); [lia|reflexivity].
        -- lia.
        -- exists last'. rewrite <- app_assoc in Q3. cbn [app] in Q3. rewrite <- app_assoc in Q1. cbn [app] in Q1.
           split; [exact Q1|]. split; assumption.
      * rewrite E. cbn [app]. apply find_entry_mid. intros d I. specialize (DL d I). lia.
      * lia.
      * destruct last; cbn [last_le lt_opt] in *; [|reflexivity]. destruct (Z.ltb_spec z (e_ty e)); [reflexivity|lia].
      * apply order_check_true. intros e' I R L Q. rewrite E in I. cbn [app] in I. apply in_app_or in I. destruct I as [I|[<-|I]].
        -- rewrite (RS e' I R) in L. discriminate.
        -- lia.
        -- pose proof (asc_all_gt _ _ _ A3 I). lia.
Qed.

Lemma lookup_app_notin pre : forall acc t, (forall p, In p pre -> fst p <> t) -> lookup (pre ++ acc) t = lookup acc t.
Proof.
  induction pre as [|[t' v] pre IH]; intros acc t H; cbn [app lookup]; [reflexivity|].
  destruct (Z.eqb_spec t' t) as [E|E]; [exfalso; apply (H (t', v)); [left; reflexivity|exact E]|].
  apply IH. intros p I. apply H. right. exact I.
Qed.
Lemma acc_of_types es : forall vals lo p, tys_ascending lo es = true -> In p (acc_of es vals) -> lo < fst p.
Proof.
  induction es as [|e es IH]; intros vals lo p A I; destruct vals as [|ov vals]; cbn [acc_of] in I; try destruct I.
  pose proof (asc_head _ _ _ A) as [A1 [A2 A3]]. apply in_app_or in I. destruct I as [I|I].
  - unfold present in I. destruct (e_kind e), ov as [[|x v]|]; cbn [In] in I; try destruct I as [<-|[]]; try destruct I; cbn [fst]; lia.
  - specialize (IH _ _ _ A3 I). lia.
Qed.

(** what the reader finally builds from the records it collected is the value that was written *)
Lemma fields_of_acc es : forall vals lo pre, tys_ascending lo es = true -> tlv_dom es vals = true ->
  (forall p, In p pre -> fst p <= lo) ->
  map (field_of (pre ++ acc_of es vals)) es = vals.
Proof.
  induction es as [|e es IH]; intros vals lo pre A D P; destruct vals as [|ov vals]; cbn [Tlv.tlv_dom] in D; try discriminate; [reflexivity|].
  apply andb_true_iff in D. destruct D as [De Dt]. pose proof (asc_head _ _ _ A) as [A1 [A2 A3]].
  cbn [map acc_of]. f_equal.
  - unfold field_of. rewrite lookup_app_notin by (intros p I; specialize (P p I); lia).
    assert (N : lookup (acc_of es vals) (e_ty e) = None).
    { destruct (lookup (acc_of es vals) (e_ty e)) eqn:LK; [|reflexivity]. exfalso.
      assert (forall acc t v, lookup acc t = Some v -> In (t, v) acc) as LI.
      { induction acc as [|[t' v'] acc IHa]; intros t v0; cbn [lookup]; [discriminate|].
        destruct (Z.eqb_spec t' t); [intros Q; inversion Q; subst; left; reflexivity|intros Q; right; apply IHa, Q]. }
      apply LI in LK. apply (acc_of_types _ _ _ _ A3) in LK. cbn [fst] in LK. lia. }
    unfold present, Tlv.entry_dom in *. destruct (e_kind e), ov as [[|x v]|]; try discriminate; cbn [app lookup]; rewrite ?Z.eqb_refl, ?N; reflexivity.
  - rewrite app_assoc. apply (IH vals (e_ty e)); try assumption.
    intros p I. apply in_app_or in I. destruct I as [I|I]; [specialize (P p I); lia|].
    unfold present in I. destruct (e_kind e), ov as [[|x v]|]; cbn [In] in I; try destruct I as [<-|[]]; try destruct I; cbn [fst]; lia.
Qed.

(** ROUND TRIP of a whole TLV stream, for every schema with strictly ascending types. *)
Theorem tlv_roundtrip es vals : tlvs_wf es = true -> tlv_dom es vals = true ->
  tlv_dec es (tlv_enc es vals) = ROk vals.
Proof.
  intros W D. unfold Tlv.tlv_dec.
  destruct (loop_enc es es [] vals [] (-1) None [] (List.length (tlv_enc es vals)) []) as [last' [Q1 [Q2 Q3]]].
  - rewrite app_nil_r. reflexivity.
  - lia.
  - rewrite app_nil_r. exact W.
  - exact D.
  - exact I.
  - intros d [].
  - intros d [].
  - rewrite app_nil_r. lia.
  - rewrite app_nil_r in Q1. rewrite Q1. rewrite tlv_loop_nil. cbn [rbind app].
    cbn [app] in Q3. rewrite (missing_check_true _ _ Q3).
    rewrite <- (app_nil_l (acc_of es vals)). rewrite (fields_of_acc es vals (-1) []); [reflexivity|exact W|exact D|intros p []].
Qed.

(** UNKNOWN ODD records are ignored wherever the ordering allows them: between the fields [es1]
    and [es2] of the schema the reader returns exactly what it returns without the record. *)
Lemma acc_of_app es1 : forall v1 es2 v2, List.length es1 = List.length v1 ->
  acc_of (es1 ++ es2) (v1 ++ v2) = acc_of es1 v1 ++ acc_of es2 v2.
Proof.
  induction es1 as [|e es1 IH]; intros v1 es2 v2 L; destruct v1 as [|x v1]; cbn [List.length] in L; try discriminate; [reflexivity|].
  cbn [app acc_of]. rewrite IH by lia. rewrite app_assoc. reflexivity.
Qed.
Lemma tlv_dom_length es : forall vals, tlv_dom es vals = true -> List.length es = List.length vals.
Proof.
  induction es as [|e es IH]; intros [|v vals] D; cbn [Tlv.tlv_dom] in D; try discriminate; [reflexivity|].
  apply andb_true_iff in D. destruct D as [_ D]. cbn [List.length]. f_equal. apply IH, D.
Qed.
Lemma tlv_dom_app es1 : forall v1 es2 v2, tlv_dom es1 v1 = true -> tlv_dom es2 v2 = true -> tlv_dom (es1 ++ es2) (v1 ++ v2) = true.
Proof.
  induction es1 as [|e es1 IH]; intros [|x v1] es2 v2 D1 D2; cbn [Tlv.tlv_dom] in D1; try discriminate; [exact D2|].
  apply andb_true_iff in D1. destruct D1 as [Da Db]. cbn [app Tlv.tlv_dom]. rewrite Da. cbn [andb]. apply IH; assumption.
Qed.
Lemma asc_app es1 : forall lo es2, tys_ascending lo (es1 ++ es2) = true ->
  tys_ascending lo es1 = true /\ tys_ascending (hi lo es1) es2 = true.
Proof.
  induction es1 as [|e es1 IH]; intros lo es2 A; cbn [app hi] in *; [split; [reflexivity|exact A]|].
  pose proof (asc_head _ _ _ A) as [A1 [A2 A3]]. destruct (IH _ _ A3) as [B1 B2]. split; [|exact B2].
  cbn [tys_ascending]. rewrite A2, B1. destruct (Z.ltb_spec lo (e_ty e)); [|lia]. destruct (Z.ltb_spec (e_ty e) (2 ^ 64)); [|lia]. reflexivity.
Qed.

Theorem tlv_unknown_odd_ignored es1 es2 v1 v2 t w :
  tlvs_wf (es1 ++ es2) = true -> tlv_dom es1 v1 = true -> tlv_dom es2 v2 = true ->
  t mod 2 = 1 -> hi (-1) es1 < t < 2 ^ 64 -> tys_ascending t es2 = true -> len w < 2 ^ 64 ->
  tlv_dec (es1 ++ es2) (tlv_enc es1 v1 ++ rec_enc t w ++ tlv_enc es2 v2) = ROk (v1 ++ v2).
Proof.
  intros W D1 D2 O T A2 PL. unfold Tlv.tlv_dec. set (es := es1 ++ es2).
  destruct (asc_app _ _ _ W) as [W1 W2].
  pose proof (hi_ge _ _ W1) as HG.
  (* phase 1: the fields before the record *)
  destruct (loop_enc es es1 es2 v1 [] (-1) None []
              (List.length (tlv_enc es1 v1 ++ rec_enc t w ++ tlv_enc es2 v2)) (rec_enc t w ++ tlv_enc es2 v2))
    as [last1 [Q1 [Q2 Q3]]].
  { reflexivity. } { lia. } { exact W. } { exact D1. } { exact I. } { intros d []. } { intros d []. } { lia. }
  rewrite Q1. clear Q1. cbn [app] in Q3 |- *.
  (* phase 2: the unknown odd record *)
  rewrite step_unknown_odd; try assumption; try lia.
  2:{ apply find_entry_none. intros e I0. unfold es in I0. apply in_app_or in I0. destruct I0 as [I0|I0].
      - pose proof (hi_all_le _ _ _ W1 I0). lia.
      - pose proof (asc_all_gt _ _ _ A2 I0). lia. }
  2:{ destruct last1; cbn [last_le lt_opt] in *; [|reflexivity]. destruct (Z.ltb_spec z t); [reflexivity|lia]. }
  2:{ apply order_check_true. intros e' I0 R L Q. unfold es in I0. apply in_app_or in I0. destruct I0 as [I0|I0].
      - rewrite (Q3 e' I0 R) in L. discriminate.
      - pose proof (asc_all_gt _ _ _ A2 I0). lia. }
  (* phase 3: the fields after the record *)
  destruct (loop_enc es es2 [] v2 es1 t (Some t) (acc_of es1 v1) (List.length (tlv_enc es2 v2)) [])
    as [last3 [R1 [R2 R3]]].
  { rewrite app_nil_r. reflexivity. } { lia. } { rewrite app_nil_r. exact A2. } { exact D2. } { cbn [last_le]. lia. }
  { intros d I0. pose proof (hi_all_le _ _ _ W1 I0). lia. }
  { intros d I0 R. pose proof (hi_all_le _ _ _ W1 I0). cbn [lt_opt]. destruct (Z.ltb_spec t (e_ty d)); [lia|reflexivity]. }
  { rewrite app_nil_r. lia. }
  rewrite app_nil_r in R1. rewrite R1. rewrite tlv_loop_nil. cbn [rbind].
  fold es in R3. rewrite (missing_check_true _ _ R3).
  rewrite <- acc_of_app by (apply tlv_dom_length; exact D1).
  rewrite <- (app_nil_l (acc_of (es1 ++ es2) (v1 ++ v2))). fold es.
  rewrite (fields_of_acc es (v1 ++ v2) (-1) []); [reflexivity|exact W| |intros p []].
  apply tlv_dom_app; assumption.
Qed.

End WithOracle.
