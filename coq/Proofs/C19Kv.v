(** C19: lemmas about the KV specification and about sorting update ids. *)
Require Import LdkV.Prim.U64 LdkV.Model.KV LdkV.Model.MUP.
Require Import Coq.Sorting.Permutation Coq.Sorting.Sorted.
Open Scope Z_scope.
Local Open Scope list_scope.

Lemma mkey_eqb_spec a b : mkey_eqb a b = true <-> a = b.
Proof.
  destruct a, b; cbn; split; intros H; try discriminate; try (inversion H; subst);
    try rewrite ?andb_true_iff, ?Z.eqb_eq in *; try (f_equal; lia); try tauto; auto using Z.eqb_refl.
  all: try (rewrite !Z.eqb_refl; reflexivity).
Qed.

Lemma mkey_eqb_refl a : mkey_eqb a a = true.
Proof. apply mkey_eqb_spec. reflexivity. Qed.

Lemma mkey_eqb_neq a b : a <> b -> mkey_eqb a b = false.
Proof. intros H. destruct (mkey_eqb a b) eqn:E; auto. apply mkey_eqb_spec in E. contradiction. Qed.

Section KVLemmas.
Context {V : Type}.
Notation st := (store mkey V).
Notation get := (kv_get mkey_eqb).
Notation set := (kv_set mkey_eqb).
Notation del := (kv_del mkey_eqb).

Lemma get_filter (p : mkey -> bool) (s : st) k :
  get (filter (fun kv => p (fst kv)) s) k = if p k then get s k else None.
Proof.
  unfold kv_get. induction s as [|[k0 v0] s IH]; cbn [filter find fst].
  - destruct (p k); reflexivity.
  - destruct (p k0) eqn:P0; cbn [find fst snd].
    + destruct (mkey_eqb k0 k) eqn:E.
      * apply mkey_eqb_spec in E. subst. rewrite P0. reflexivity.
      * exact IH.
    + destruct (mkey_eqb k0 k) eqn:E.
      * apply mkey_eqb_spec in E. subst. rewrite P0 in *. exact IH.
      * exact IH.
Qed.

Lemma get_del_same (s : st) k : get (del s k) k = None.
Proof.
  unfold kv_del. rewrite (get_filter (fun x => negb (mkey_eqb x k))). rewrite mkey_eqb_refl. reflexivity.
Qed.

Lemma get_del_other (s : st) k k' : k' <> k -> get (del s k) k' = get s k'.
Proof.
  intros H. unfold kv_del. rewrite (get_filter (fun x => negb (mkey_eqb x k))).
  rewrite (mkey_eqb_neq _ _ H). reflexivity.
Qed.

Lemma get_set_same (s : st) k v : get (set s k v) k = Some v.
Proof. unfold kv_set, kv_get. cbn. rewrite mkey_eqb_refl. reflexivity. Qed.

Lemma get_set_other (s : st) k v k' : k' <> k -> get (set s k v) k' = get s k'.
Proof.
  intros H. unfold kv_set. unfold kv_get at 1. cbn [find fst].
  rewrite (mkey_eqb_neq k k') by congruence. apply get_del_other. exact H.
Qed.

Lemma get_in (s : st) k v : get s k = Some v -> In (k, v) s.
Proof.
  unfold kv_get. destruct (find _ s) as [[k0 v0]|] eqn:F; [|discriminate].
  intros H. inversion H; subst. apply find_some in F. destruct F as (I & E). cbn in E.
  apply mkey_eqb_spec in E. subst. exact I.
Qed.

Lemma in_get (s : st) k v : NoDup (map fst s) -> In (k, v) s -> get s k = Some v.
Proof.
  unfold kv_get. induction s as [|[k0 v0] s IH]; intros ND I; [contradiction|].
  cbn [map fst] in ND. inversion ND as [|? ? Hn ND']; subst. cbn [find fst].
  destruct I as [E|I].
  - inversion E; subst. rewrite mkey_eqb_refl. reflexivity.
  - destruct (mkey_eqb k0 k) eqn:E.
    + apply mkey_eqb_spec in E. subst. exfalso. apply Hn. apply in_map_iff. exists (k, v). auto.
    + apply IH; auto.
Qed.

Lemma nodup_filter (s : st) p : NoDup (map fst s) -> NoDup (map fst (filter p s)).
Proof.
  induction s as [|kv s IH]; cbn; auto. intros ND. inversion ND as [|? ? Hn ND']; subst.
  destruct (p kv); cbn; auto. constructor; auto.
  intros I. apply Hn. apply in_map_iff in I. destruct I as (x & E & I). apply filter_In in I.
  apply in_map_iff. exists x. tauto.
Qed.

Lemma nodup_set (s : st) k v : NoDup (map fst s) -> NoDup (map fst (set s k v)).
Proof.
  intros ND. unfold kv_set. cbn. constructor; [|apply nodup_filter; auto].
  intros I. apply in_map_iff in I. destruct I as ([k0 v0] & E & I). cbn in E. subst k0.
  unfold kv_del in I. apply filter_In in I. destruct I as (_ & I). cbn in I. rewrite mkey_eqb_refl in I. discriminate.
Qed.

Lemma nodup_del (s : st) k : NoDup (map fst s) -> NoDup (map fst (del s k)).
Proof. apply nodup_filter. Qed.

End KVLemmas.

(** * Sorting ids *)
Lemma zinsert_perm x l : Permutation (x :: l) (zinsert x l).
Proof.
  induction l as [|y r IH]; cbn; auto. destruct (x <=? y); auto.
  eapply perm_trans; [apply perm_swap|]. constructor. exact IH.
Qed.

Lemma zsort_perm l : Permutation l (zsort l).
Proof.
  induction l as [|x l IH]; cbn; auto. eapply perm_trans; [|apply zinsert_perm]. constructor. exact IH.
Qed.

Lemma zinsert_sorted x l : StronglySorted Z.le l -> StronglySorted Z.le (zinsert x l).
Proof.
  induction l as [|y r IH]; intros H; cbn.
  - constructor; constructor.
  - inversion H as [|? ? Hr Hy]; subst. destruct (Z.leb_spec x y).
    + constructor; auto. constructor; [lia|]. rewrite Forall_forall in *. intros z Hz. specialize (Hy z Hz). lia.
    + constructor; auto. rewrite Forall_forall in *. intros z Hz.
      apply (Permutation_in _ (Permutation_sym (zinsert_perm x r))) in Hz. destruct Hz as [<-|Hz]; [lia|auto].
Qed.

Lemma zsort_sorted l : StronglySorted Z.le (zsort l).
Proof. induction l; cbn; [constructor|apply zinsert_sorted; auto]. Qed.

(** A duplicate-free list with the same elements as the consecutive run [b+1 .. b+n] sorts to it. *)
Lemma strict_sorted_unique : forall l1 l2,
  StronglySorted Z.lt l1 -> StronglySorted Z.lt l2 -> (forall x, In x l1 <-> In x l2) -> l1 = l2.
Proof.
  induction l1 as [|a l1 IH]; intros l2 S1 S2 E.
  - destruct l2 as [|b l2]; auto. exfalso. apply (E b). left. reflexivity.
  - destruct l2 as [|b l2]; [exfalso; apply (E a); left; reflexivity|].
    inversion S1 as [|? ? S1' F1]; subst. inversion S2 as [|? ? S2' F2]; subst.
    rewrite Forall_forall in F1, F2.
    assert (a = b).
    { destruct (proj1 (E a) (or_introl eq_refl)) as [->|I]; auto.
      destruct (proj2 (E b) (or_introl eq_refl)) as [->|I']; auto.
      specialize (F1 _ I'). specialize (F2 _ I). lia. }
    subst b. f_equal. apply IH; auto.
    intros x. split; intros I.
    + destruct (proj1 (E x) (or_intror I)) as [<-|]; auto. specialize (F1 _ I). lia.
    + destruct (proj2 (E x) (or_intror I)) as [<-|]; auto. specialize (F2 _ I). lia.
Qed.

Lemma sorted_le_nodup_lt l : StronglySorted Z.le l -> NoDup l -> StronglySorted Z.lt l.
Proof.
  induction 1 as [|a l S IH F]; intros ND; constructor; inversion ND; subst; auto.
  rewrite Forall_forall in *. intros x I. specialize (F x I).
  assert (x <> a) by (intros ->; contradiction). lia.
Qed.

Lemma zsort_unique l t : NoDup l -> StronglySorted Z.lt t -> (forall x, In x l <-> In x t) -> zsort l = t.
Proof.
  intros ND St E. apply strict_sorted_unique; auto.
  - apply sorted_le_nodup_lt; [apply zsort_sorted|]. eapply Permutation_NoDup; [apply zsort_perm|auto].
  - intros x. rewrite <- E. split; intros I.
    + eapply Permutation_in; [apply Permutation_sym, zsort_perm|auto].
    + eapply Permutation_in; [apply zsort_perm|auto].
Qed.
