(** C20: [init::synchronize_listeners], for metadata-honest sources and truthful locators. *)
Require Import LdkV.Prim.U64 LdkV.Gen.BlockSyncConsts LdkV.Model.BlockSync LdkV.Model.BlockSyncSpec.
Require Import LdkV.Proofs.C20Tree LdkV.Proofs.C20 LdkV.Proofs.C20Poll.
Open Scope Z_scope.
Local Open Scope list_scope.

Lemma Forall2_len {A B} (R : A -> B -> Prop) l1 l2 : Forall2 R l1 l2 -> List.length l1 = List.length l2.
Proof. induction 1; cbn; auto. Qed.

Lemma one_disc_nil : one_disc_then_conns [].
Proof. exists [], []. cbn. auto. Qed.

Lemma one_disc_single x h : one_disc_then_conns [EDisc x h].
Proof. exists [EDisc x h], []. cbn. auto. Qed.

Lemma one_disc_app_conns log cs :
  one_disc_then_conns log -> forallb (fun e => negb (is_disc e)) cs = true -> one_disc_then_conns (log ++ cs).
Proof.
  intros (d & c0 & -> & Hd & Hd' & Hc) Hcs. exists d, (c0 ++ cs). rewrite app_assoc. repeat split; auto.
  rewrite forallb_app, Hc, Hcs. reflexivity.
Qed.

Section Init.
Variable T : tree.
Hypothesis WF : wf_tree T.
Variable src : oracle.
Hypothesis Hon : honest_meta T src.

Lemma poller_get_header_honest q hint n v n' :
  poller_get_header T src q hint n = (Ok v, n') -> truthful T v /\ v_hash v = q.
Proof.
  unfold poller_get_header. destruct (o_header src n q hint) as [e|y h w] eqn:O; [discriminate|].
  intros H. inversion H as [[H1 H2]]. apply validate_header_spec in H1.
  destruct H1 as (G & Hh & Hhe & Hw & Ey). split; auto.
  destruct G as (nd & G1 & G2 & G3 & G4).
  assert (Hy : T y = Some nd) by congruence.
  destruct (Hon _ _ _ _ _ _ _ O Hy G2 Ey) as (A & B).
  eapply mk_truthful; eauto; congruence.
Qed.

Lemma validate_best_block_header_spec n best n' :
  validate_best_block_header T src n = (Ok best, n') -> truthful T best.
Proof.
  unfold validate_best_block_header. destruct (o_best src n) as [e|x hint]; [discriminate|].
  intros H. apply poller_get_header_honest in H. tauto.
Qed.

Lemma resolve_locator_spec : forall cands c lh n r c' n',
  Forall (truthful T) c ->
  resolve_locator T src c lh cands n = (r, c', n') ->
  Forall (truthful T) c' /\
  match r with
  | Ok (Some found) => truthful T found /\ exists d, In (d, v_hash found) cands
  | _ => True
  end.
Proof.
  induction cands as [|[d x] rest IH]; intros c lh n r c' n' Hc H; cbn [resolve_locator] in H.
  - inversion H; subst. auto.
  - destruct (c_lookup c x) as [v|] eqn:L.
    + inversion H; subst. apply c_lookup_spec in L. destruct L as (Hin & Hh).
      rewrite Forall_forall in Hc. split; [rewrite Forall_forall; auto|]. split; auto.
      exists d. left. congruence.
    + destruct (lh <? d); [inversion H; subst; auto|].
      destruct (poller_get_header T src x (Some (lh - d)) n) as [[v|e] n1] eqn:G.
      * inversion H; subst. apply poller_get_header_honest in G. destruct G as (Tv & Hh).
        split; [apply c_insert_during_diff_truthful; auto|]. split; auto. exists d. left. congruence.
      * destruct (IH _ _ _ _ _ _ Hc H) as (A & B). split; auto.
        destruct r as [[found|]|]; auto. destruct B as (B1 & d' & B2). split; auto. exists d'. right. auto.
Qed.

Lemma locator_prev_tips_in : forall ps i d x,
  In (d, x) (locator_prev_tips i ps) -> exists j, nth_error ps j = Some (Some x).
Proof.
  induction ps as [|[y|] ps IH]; intros i d x H; cbn [locator_prev_tips] in H; [contradiction| |].
  - destruct H as [H|H].
    + inversion H; subst. exists 0%nat. reflexivity.
    + destruct (IH _ _ _ H) as (j & Hj). exists (S j). exact Hj.
  - destruct (IH _ _ _ H) as (j & Hj). exists (S j). exact Hj.
Qed.

Lemma locator_cand_anc loc d x : locator_ok T loc ->
  In (d, x) ((0, l_hash loc) :: locator_prev_tips 0 (l_prev loc)) -> anc T x (l_hash loc).
Proof.
  intros ((nd & Hl & _) & Hp) [H|H].
  - inversion H; subst. eapply anc_refl; eauto.
  - destruct (locator_prev_tips_in _ _ _ _ H) as (j & Hj). destruct (Hp _ _ Hj) as (l & Hl' & _). exists l. auto.
Qed.

(** [best] and what a listener's difference looks like *)
Variable best : vh.
Hypothesis Tbest : truthful T best.

Definition on_best (y : vh) (asc : list vh) : Prop :=
  truthful T y /\ Forall (truthful T) asc /\ path T (v_hash y) (v_hash best) (map v_hash asc).

Lemma on_best_height y asc : on_best y asc -> v_height best = v_height y + Z.of_nat (List.length asc).
Proof.
  intros (Ty & _ & P).
  destruct (truthful_node T _ Ty) as (ny & Y1 & _ & _ & Y4 & _).
  destruct (truthful_node T _ Tbest) as (nb & B1 & _ & _ & B4 & _).
  rewrite (path_height T WF _ _ _ P _ _ Y1 B1) in B4. rewrite map_length in B4. lia.
Qed.

Lemma find_diff_from_best_block_spec c loc n d c' n' :
  Forall (truthful T) c -> locator_ok T loc ->
  find_diff_from_best_block T src c best loc n = (d, c', n') ->
  Forall (truthful T) c' /\
  match d with
  | DOk ca asc => on_best ca asc /\ anc T (v_hash ca) (l_hash loc)
  | DErr _ => True
  | DOutOfFuel => False
  end.
Proof.
  intros Hc Lok. unfold find_diff_from_best_block.
  destruct (resolve_locator T src c (l_height loc) ((0, l_hash loc) :: locator_prev_tips 0 (l_prev loc)) n)
    as [[r c1] n1] eqn:R.
  destruct (resolve_locator_spec _ _ _ _ _ _ _ Hc R) as (Hc1 & Hr).
  destruct r as [[found|]|e]; try (intros H; inversion H; subst; auto; fail).
  destruct Hr as (Tf & dd & Hin).
  pose proof (locator_cand_anc _ _ _ Lok Hin) as Af.
  pose proof (find_diff_fuel T WF src c1 Hc1 (fuel_for T best found) best found [] n1
                (truthful_genuine T _ Tbest) (truthful_genuine T _ Tf)) as Hfuel.
  destruct (find_diff (fuel_for T best found) T src c1 best found [] n1) as [[ca asc|e|] n2] eqn:D;
    intros H; injection H as <- <- <-; split; auto.
  - destruct (find_diff_spec T WF src c1 Hc1 _ _ _ _ _ _ _ _ (truthful_genuine T _ Tbest) Tf D)
      as (Tca & _ & l & El & Fl & Pl & Al & _).
    rewrite app_nil_r in El. subst l. split; [repeat split; auto|]. eapply anc_trans; eauto.
  - apply Hfuel; [unfold fuel_for; lia | reflexivity].
Qed.

(** What phase 1 establishes for one listener. *)
Definition lis1 (bound : nat) (loc : locator) (hl : Z * list event) : Prop :=
  exists ca, truthful T ca /\ fst hl = v_height ca /\ anc T (v_hash ca) (v_hash best) /\
             lrun T (l_hash loc, l_height loc) (snd hl) (pos_of ca) /\
             one_disc_then_conns (snd hl) /\
             v_height best - v_height ca <= Z.of_nat bound.

Lemma lis1_mono b1 b2 loc hl : (b1 <= b2)%nat -> lis1 b1 loc hl -> lis1 b2 loc hl.
Proof. intros Hb (ca & A & B & C & D & E & F). exists ca. repeat split; auto. lia. Qed.

Lemma init_phase1_spec : forall ls c most n r outs most' c' n',
  Forall (truthful T) c -> Forall (locator_ok T) ls ->
  (exists cm, on_best cm most) ->
  init_phase1 T src best c ls most n = (r, outs, most', c', n') ->
  Forall (truthful T) c' /\ (exists cm', on_best cm' most') /\
  (List.length most <= List.length most')%nat /\
  exists ls1 ls2, ls = ls1 ++ ls2 /\ Forall2 (lis1 (List.length most')) ls1 outs /\ (r = None -> ls2 = []).
Proof.
  induction ls as [|loc rest IH]; intros c most n r outs most' c' n' Hc Hl Hm H; cbn [init_phase1] in H.
  - inversion H; subst. repeat split; auto. exists [], []. repeat split; auto.
  - inversion Hl as [|? ? Lok Hl']; subst.
    destruct (find_diff_from_best_block T src c best loc n) as [[d c1] n1] eqn:D.
    destruct (find_diff_from_best_block_spec _ _ _ _ _ _ Hc Lok D) as (Hc1 & Hd).
    destruct d as [ca asc|e|]; [| |contradiction].
    + destruct Hd as (Ob & Aca).
      set (c2log := if negb (v_hash ca =? l_hash loc) then disconnect_blocks true c1 ca else (c1, [])) in H.
      assert (Hc2 : Forall (truthful T) (fst c2log)).
      { unfold c2log. destruct (negb (v_hash ca =? l_hash loc)); cbn; auto. }
      destruct c2log as [c2 log] eqn:Ec2. cbn [fst] in Hc2.
      set (most1 := if (List.length most <? List.length asc)%nat then asc else most) in H.
      assert (Hm1 : exists cm1, on_best cm1 most1).
      { unfold most1. destruct (List.length most <? List.length asc)%nat; eauto. }
      assert (Hlen1 : (List.length most <= List.length most1)%nat /\ (List.length asc <= List.length most1)%nat).
      { unfold most1. destruct (Nat.ltb_spec (List.length most) (List.length asc)); lia. }
      destruct (init_phase1 T src best c2 rest most1 n1) as [[[[r0 outs0] most0] c3] n2] eqn:R.
      inversion H; subst r0 outs most0 c3 n2. clear H.
      destruct (IH _ _ _ _ _ _ _ _ Hc2 Hl' Hm1 R) as (Hc' & Hm' & Hlen & ls1 & ls2 & -> & F2 & Hr).
      repeat split; auto; [lia|].
      exists (loc :: ls1), ls2. repeat split; auto.
      constructor; auto.
      (* this listener *)
      destruct Ob as (Tca & Fa & Pa).
      exists ca. cbn [fst snd]. repeat split; auto.
      * eexists; eauto.
      * destruct Lok as ((nd & Hlh & Hlhe) & _).
        unfold disconnect_blocks in Ec2.
        destruct (v_hash ca =? l_hash loc) eqn:E; cbn [negb] in Ec2; inversion Ec2; subst c2 log.
        -- apply Z.eqb_eq in E. destruct (truthful_node T _ Tca) as (nca & C1 & _ & _ & C4 & _).
           unfold pos_of. rewrite E, C4. rewrite E, Hlh in C1. inversion C1; subst nca. rewrite <- Hlhe. constructor.
        -- apply Z.eqb_neq in E. destruct Aca as (lo & Plo).
           destruct (truthful_node T _ Tca) as (nca & C1 & _ & _ & C4 & _).
           econstructor; [|constructor]. unfold pos_of. rewrite C4. eapply ls_disc; eauto.
           eapply path_neq_nonnil; eauto.
      * unfold disconnect_blocks in Ec2.
        destruct (negb (v_hash ca =? l_hash loc)); inversion Ec2; subst; [apply one_disc_single | apply one_disc_nil].
      * pose proof (on_best_height ca asc (conj Tca (conj Fa Pa))). lia.
    + inversion H; subst. repeat split; auto. exists [], (loc :: rest). repeat split; auto. discriminate.
Qed.

(** * Phase 2 *)
Lemma fetch_all_fst : forall hs n rs n', fetch_all T src hs n = (rs, n') -> map fst rs = hs.
Proof.
  induction hs as [|h r IH]; intros n rs n' H; cbn [fetch_all] in H.
  - inversion H; reflexivity.
  - destruct (fetch_block T src h n) as [b n1]. destruct (fetch_all T src r n1) as [bs n2] eqn:F.
    inversion H; subst. cbn. f_equal. eapply IH; eauto.
Qed.

Lemma collect_batch_spec : forall rs c r c',
  Forall (truthful T) c -> Forall (truthful T) (map fst rs) ->
  collect_batch c rs = (r, c') ->
  Forall (truthful T) c' /\ match r with Ok l => map fst l = map fst rs | Err _ => True end.
Proof.
  induction rs as [|[h [full|e]] rs IH]; intros c r c' Hc Hr H; cbn [collect_batch] in H.
  - inversion H; subst. auto.
  - cbn [map fst] in Hr. inversion Hr as [|? ? Th Hr']; subst.
    destruct (collect_batch (c_block_connected c h) rs) as [[l|e] c1] eqn:C;
      destruct (IH _ _ _ (c_block_connected_truthful T _ _ Hc Th) Hr' C) as (A & B);
      inversion H; subst; split; auto. cbn. f_equal. exact B.
  - inversion H; subst. auto.
Qed.

(** Two ancestors of [best] at the same height coincide. *)
Lemma anc_best_same_height a b : truthful T a -> truthful T b ->
  anc T (v_hash a) (v_hash best) -> anc T (v_hash b) (v_hash best) -> v_height a = v_height b -> a = b.
Proof.
  intros Ta Tb (la & Pa) (lb & Pb) Hh.
  destruct (truthful_node T _ Ta) as (na & A1 & _ & _ & A4 & _).
  destruct (truthful_node T _ Tb) as (nb & B1 & _ & _ & B4 & _).
  destruct (truthful_node T _ Tbest) as (nbe & E1 & _).
  pose proof (path_height T WF _ _ _ Pa _ _ A1 E1). pose proof (path_height T WF _ _ _ Pb _ _ B1 E1).
  destruct (path_det T _ _ _ Pa _ _ Pb) as (E & _); [lia|].
  apply truthful_eq with T; auto.
Qed.

(** Where a listener whose common ancestor is [ca] stands once everything up to [y] was delivered. *)
Definition lpos_at (ca y : vh) : lpos := pos_of (if v_height ca <? v_height y then y else ca).

Lemma deliver_lrun ca : truthful T ca -> anc T (v_hash ca) (v_hash best) ->
  forall blocks y y',
  truthful T y -> Forall (truthful T) (map fst blocks) ->
  path T (v_hash y) y' (map v_hash (map fst blocks)) -> anc T y' (v_hash best) ->
  lrun T (lpos_at ca y) (deliver (v_height ca) blocks) (lpos_at ca (last (map fst blocks) y)).
Proof.
  intros Tca Aca. induction blocks as [|[b full] blocks IH]; intros y y' Ty Fb P Ay'.
  - cbn. constructor.
  - cbn [map fst] in *. inversion Fb as [|? ? Tb Fb']; subst.
    inversion P as [|? ? ? ? nda ndb Ha Hb Hprev Hrest]; subst.
    destruct (truthful_node T _ Tb) as (nb & B1 & B2 & B3 & B4 & _).
    destruct (truthful_node T _ Ty) as (ny & Y1 & _ & _ & Y4 & _).
    rewrite Hb in B1. inversion B1; subst nb.
    destruct (WF _ _ Hb) as (_ & Hpar). rewrite Hprev in Hpar. destruct (Hpar _ Y1) as (Hh & _).
    assert (Ab : anc T (v_hash b) (v_hash best)).
    { destruct Ay' as (l2 & P2). exists (map v_hash (map fst blocks) ++ l2). eapply path_app; eauto. }
    rewrite last_cons_default. specialize (IH b y' Tb Fb' Hrest Ay').
    unfold deliver. cbn [filter fst snd]. fold (deliver (v_height ca) blocks).
    destruct (v_height ca <? v_height b) eqn:Lb; cbn [map fst snd].
    + (* delivered: the listener stands on b's parent *)
      assert (Hpos : lpos_at ca y = pos_of y).
      { unfold lpos_at. destruct (v_height ca <? v_height y) eqn:Ly; auto.
        f_equal. apply anc_best_same_height; auto; [|lia].
        destruct Ab as (l2 & P2). exists (v_hash b :: l2). eapply path_cons; eauto. }
      rewrite Hpos.
      assert (Hposb : lpos_at ca b = pos_of b) by (unfold lpos_at; rewrite Lb; reflexivity).
      rewrite Hposb in IH.
      econstructor; [|exact IH].
      unfold pos_of. replace (v_height b) with (v_height y + 1) by lia.
      eapply ls_conn; eauto. lia.
    + (* filtered out: the listener's ancestor is at or above b *)
      assert (Hpos : lpos_at ca y = lpos_at ca b).
      { unfold lpos_at. rewrite Lb. destruct (v_height ca <? v_height y) eqn:Ly; auto. lia. }
      rewrite Hpos. exact IH.
Qed.

Definition lis2 (y : vh) (loc : locator) (hl : Z * list event) : Prop :=
  exists ca, truthful T ca /\ fst hl = v_height ca /\ anc T (v_hash ca) (v_hash best) /\
             lrun T (l_hash loc, l_height loc) (snd hl) (lpos_at ca y) /\
             one_disc_then_conns (snd hl).

Lemma deliver_no_disc h blocks : forallb (fun e => negb (is_disc e)) (deliver h blocks) = true.
Proof. unfold deliver. induction (filter _ blocks); cbn; auto. Qed.

Lemma init_phase2_cons fuel c outs b rem0 n :
  init_phase2 (S fuel) T src c outs (b :: rem0) n =
  let rem := b :: rem0 in
  let k := Z.to_nat MAX_BLOCKS_AT_ONCE in
  let '(rs, n1) := fetch_all T src (firstn k rem) n in
  match collect_batch c rs with
  | (Err e, c1) => (Some e, outs, c1, n1)
  | (Ok blocks, c1) =>
    let outs' := map (fun hl => (fst hl, snd hl ++ deliver (fst hl) blocks)) outs in
    init_phase2 fuel T src c1 outs' (skipn k rem) n1
  end.
Proof. reflexivity. Qed.

Lemma init_phase2_spec : forall fuel rem y c ls outs n r outs' c' n',
  on_best y rem -> Forall (truthful T) c -> Forall2 (lis2 y) ls outs ->
  (List.length rem <= fuel)%nat ->
  init_phase2 fuel T src c outs rem n = (r, outs', c', n') ->
  Forall (truthful T) c' /\
  exists y', truthful T y' /\ Forall2 (lis2 y') ls outs' /\ (r = None -> y' = best).
Proof.
  induction fuel as [|fuel IH]; intros rem y c ls outs n r outs' c' n' Ob Hc F2 Hf H.
  - destruct rem; [|cbn in Hf; lia]. cbn in H. inversion H; subst. split; auto.
    exists y. destruct Ob as (Ty & _ & P). repeat split; auto.
    intros _. cbn in P. apply path_nil_inv in P. apply truthful_eq with T; auto.
  - destruct rem as [|b0 rem0] eqn:Erem.
    { cbn in H. inversion H; subst. split; auto.
      exists y. destruct Ob as (Ty & _ & P). repeat split; auto.
      intros _. cbn in P. apply path_nil_inv in P. apply truthful_eq with T; auto. }
    rewrite init_phase2_cons in H. rewrite <- Erem in *. cbv zeta in H.
    set (k := Z.to_nat MAX_BLOCKS_AT_ONCE) in *.
    assert (Hk : (1 <= k)%nat) by (unfold k, MAX_BLOCKS_AT_ONCE; lia).
    destruct (fetch_all T src (firstn k rem) n) as [rs n1] eqn:FA.
    pose proof (fetch_all_fst _ _ _ _ FA) as Hrs.
    destruct Ob as (Ty & Frem & Prem).
    assert (Ffirst : Forall (truthful T) (firstn k rem)) by (apply Forall_firstn'; auto).
    destruct (collect_batch c rs) as [[blocks|e] c1] eqn:CB.
    + destruct (collect_batch_spec _ _ _ _ Hc ltac:(rewrite Hrs; exact Ffirst) CB) as (Hc1 & Hb).
      rewrite Hrs in Hb.
      set (y1 := last (firstn k rem) y).
      assert (Ty1 : truthful T y1).
      { unfold y1. destruct (last_in_or (firstn k rem) y) as [->|I]; auto. rewrite Forall_forall in Ffirst. auto. }
      pose proof (path_firstn T _ _ _ Prem k) as P1. pose proof (path_skipn T _ _ _ Prem k) as P2.
      rewrite firstn_map, (last_map v_hash) in P1. rewrite firstn_map, (last_map v_hash), skipn_map in P2.
      fold y1 in P1, P2.
      assert (Ob1 : on_best y1 (skipn k rem)).
      { repeat split; auto. rewrite <- (firstn_skipn k rem) in Frem. apply Forall_app in Frem. tauto. }
      eapply IH in H; eauto.
      * (* listeners after this batch *)
        clear H IH. induction F2 as [|loc [h log] ls outs Hl F2 IHF]; cbn [map]; constructor; auto.
        destruct Hl as (ca & Tca & Hh & Aca & Run & Shape). cbn [fst snd] in *.
        exists ca. cbn [fst snd]. repeat split; auto.
        -- eapply lrun_app; [exact Run|]. rewrite Hh.
           replace y1 with (last (map fst blocks) y) by (rewrite Hb; reflexivity).
           apply (deliver_lrun ca Tca Aca blocks y (v_hash y1) Ty).
           ++ rewrite Hb. exact Ffirst.
           ++ rewrite Hb. exact P1.
           ++ eexists; eauto.
        -- apply one_disc_app_conns; auto. apply deliver_no_disc.
      * rewrite skipn_length. rewrite Erem in *. cbn [List.length] in *. lia.
    + inversion H; subst.
      destruct (collect_batch_spec _ _ _ _ Hc ltac:(rewrite Hrs; exact Ffirst) CB) as (Hc1 & _).
      split; auto. exists y. repeat split; auto. discriminate.
Qed.

End Init.

(** * [synchronize_listeners] *)
Lemma Forall2_nil_logs {A} (P : A -> list event -> Prop) (ls : list A) :
  (forall a, P a []) -> Forall2 P ls (map (fun _ => []) ls).
Proof. intros H. induction ls; cbn; constructor; auto. Qed.

Lemma init_common_tip : forall T src ls n r logs n',
  wf_tree T -> honest_meta T src -> Forall (locator_ok T) ls ->
  synchronize_listeners T src ls n = (r, logs, n') ->
  Forall2 (fun loc log =>
             exists p, lrun T (l_hash loc, l_height loc) log p /\ one_disc_then_conns log /\
                       match r with Ok (_, tip) => p = pos_of tip | Err _ => True end) ls logs /\
  match r with
  | Ok (c, tip) => good_client T {| cl_tip := tip; cl_cache := c |}
  | Err _ => True
  end.
Proof.
  intros T src ls n r logs n' WF Hon Hl. unfold synchronize_listeners.
  destruct (validate_best_block_header T src n) as [[best|e] n0] eqn:V.
  2:{ intros H. inversion H; subst. split; auto.
      apply Forall2_nil_logs. intros loc. exists (l_hash loc, l_height loc). repeat split; [constructor|apply one_disc_nil]. }
  pose proof (validate_best_block_header_spec T src Hon _ _ _ V) as Tbest.
  assert (Hm0 : exists cm, on_best T best cm []).
  { exists best. repeat split; auto. cbn. destruct (truthful_node T _ Tbest) as (nb & B1 & _). econstructor; eauto. }
  destruct (init_phase1 T src best [] ls [] n0) as [[[[r1 outs] most] c1] n1] eqn:P1.
  destruct (init_phase1_spec T WF src Hon best Tbest _ _ _ _ _ _ _ _ _ (Forall_nil _) Hl Hm0 P1)
    as (Hc1 & (cm & Obm) & _ & ls1 & ls2 & -> & F1 & Hr1).
  destruct r1 as [e|].
  - (* phase 1 failed *)
    intros H. inversion H; subst. split; auto.
    pose proof (Forall2_len _ _ _ F1) as HL.
    rewrite app_length. replace (List.length ls1 + List.length ls2 - List.length outs)%nat with (List.length ls2) by lia.
    apply Forall2_app.
    + clear - F1. induction F1 as [|loc [h log] l1 l2 Hx F IH]; cbn; constructor; auto.
      destruct Hx as (ca & _ & _ & _ & Run & Shape & _). cbn in *. eauto.
    + clear. induction ls2; cbn; constructor; auto.
      exists (l_hash a, l_height a). repeat split; [constructor|apply one_disc_nil].
  - rewrite (Hr1 eq_refl), app_nil_r in *.
    assert (F2 : Forall2 (lis2 T best cm) ls1 outs).
    { pose proof (on_best_height T WF best Tbest _ _ Obm) as Hh.
      clear - F1 Hh. induction F1 as [|loc [h log] l1 l2 Hx F IH]; constructor; auto.
      destruct Hx as (ca & Tca & Eh & Aca & Run & Shape & Hb). cbn [fst snd] in *.
      exists ca. cbn [fst snd]. repeat split; auto.
      unfold lpos_at. destruct (v_height ca <? v_height cm) eqn:E; auto. lia. }
    destruct (init_phase2 (List.length most) T src c1 outs most n1) as [[[r2 outs'] c2] n2] eqn:P2.
    destruct (init_phase2_spec T WF src best Tbest _ _ _ _ _ _ _ _ _ _ _ Obm Hc1 F2 (le_n _) P2)
      as (Hc2 & y' & Ty' & F3 & Hy').
    destruct r2 as [e|]; intros H; inversion H; subst.
    + split; auto. clear - F3. induction F3 as [|loc [h log] l1 l2 Hx F IH]; cbn; constructor; auto.
      destruct Hx as (ca & _ & _ & _ & Run & Shape). cbn in *. eauto.
    + rewrite (Hy' eq_refl) in F3. split; [|split; auto].
      clear - F3 Tbest WF. induction F3 as [|loc [h log] l1 l2 Hx F IH]; cbn; constructor; auto.
      destruct Hx as (ca & Tca & _ & Aca & Run & Shape). cbn [fst snd] in *.
      exists (pos_of best). repeat split; auto.
      replace (pos_of best) with (lpos_at ca best); auto.
      unfold lpos_at. destruct (v_height ca <? v_height best) eqn:E; auto.
      f_equal. destruct (truthful_node T _ Tbest) as (nb & B1 & _).
      apply (anc_best_same_height T WF best Tbest); auto; [eapply anc_refl; eauto|].
      destruct (truthful_node T _ Tca) as (nca & C1 & _ & _ & C4 & _).
      destruct (truthful_node T _ Tbest) as (nb' & B1' & _ & _ & B4 & _).
      pose proof (anc_height T WF _ _ _ _ Aca C1 B1'). lia.
Qed.
