(** C20: the pure chain-difference walk (Model/ChainWalk.v) computes the lowest common ancestor and the
    two chain segments, for ALL pairs of blocks of ANY well-formed header DAG; refinement of a
    listener's view; refinement of the source-driven [find_diff] to the pure walk. *)
Require Import LdkV.Prim.U64 LdkV.Model.BlockSync LdkV.Model.BlockSyncSpec LdkV.Model.ChainWalk.
Require Import LdkV.Proofs.C20Tree LdkV.Proofs.C20 LdkV.Proofs.C20Poll.
Open Scope Z_scope.
Local Open Scope list_scope.

Section W.
Variable T : tree.
Hypothesis WF : wf_tree T.

Lemma low_prev cur prev nc np d : T cur = Some nc -> T prev = Some np -> cur <> prev ->
  n_height nc <= n_height np -> anc T d cur -> anc T d prev -> anc T d (n_prev np).
Proof.
  intros Hc Hp Hne Hle Dc Dp. apply (anc_down T d prev np Dp Hp).
  intros ->. apply Hne. symmetry.
  apply (anc_same_height T WF prev cur np nc); auto.
  pose proof (anc_height T WF prev cur np nc Dc Hp Hc). lia.
Qed.

Lemma low_cur cur prev nc np d : T cur = Some nc -> T prev = Some np -> cur <> prev ->
  n_height np <= n_height nc -> anc T d cur -> anc T d prev -> anc T d (n_prev nc).
Proof.
  intros Hc Hp Hne Hle Dc Dp. apply (anc_down T d cur nc Dc Hc).
  intros ->. apply Hne.
  apply (anc_same_height T WF cur prev nc np); auto.
  pose proof (anc_height T WF cur prev nc np Dp Hc Hp). lia.
Qed.

Lemma walk_acc : forall fuel cur prev disc conn ca D C,
  walk fuel T cur prev disc conn = Some (ca, D, C) ->
  exists dn cn, D = rev (dn ++ disc) /\ C = cn ++ conn /\ path T ca prev dn /\ path T ca cur cn /\
                forall d, anc T d cur -> anc T d prev -> anc T d ca.
Proof.
  induction fuel as [|f IH]; intros cur prev disc conn ca D C H; [discriminate|].
  cbn [walk] in H.
  destruct (T cur) as [nc|] eqn:Hc; [|discriminate].
  destruct (T prev) as [np|] eqn:Hp; [|discriminate].
  destruct (Z.eqb_spec cur prev) as [E|Hne].
  - inversion H; subst ca D C prev. exists [], []. cbn [app].
    repeat split; auto; try (econstructor; eauto).
  - destruct (Z.leb_spec (n_height nc) (n_height np)) as [L1|L1];
      destruct (Z.leb_spec (n_height np) (n_height nc)) as [L2|L2]; try lia;
      apply IH in H; destruct H as (dn & cn & ED & EC & Pd & Pc & Low).
    + exists (dn ++ [prev]), (cn ++ [cur]). rewrite <- !app_assoc. cbn [app].
      split; [exact ED|]. split; [exact EC|].
      split; [eapply path_snoc; eauto|]. split; [eapply path_snoc; eauto|].
      intros d Dc Dp. apply Low; [apply (low_cur cur prev nc np d Hc Hp Hne); auto; lia | apply (low_prev cur prev nc np d Hc Hp Hne); auto; lia].
    + exists (dn ++ [prev]), cn. rewrite <- !app_assoc. cbn [app].
      split; [exact ED|]. split; [exact EC|].
      split; [eapply path_snoc; eauto|]. split; [exact Pc|].
      intros d Dc Dp. apply Low; [exact Dc | apply (low_prev cur prev nc np d Hc Hp Hne); auto; lia].
    + exists dn, (cn ++ [cur]). rewrite <- !app_assoc. cbn [app].
      split; [exact ED|]. split; [exact EC|].
      split; [exact Pd|]. split; [eapply path_snoc; eauto|].
      intros d Dc Dp. apply Low; [apply (low_cur cur prev nc np d Hc Hp Hne); auto; lia | exact Dp].
Qed.

Lemma anc_in d x : anc T d x -> exists nd, T x = Some nd.
Proof. intros (l & H). eapply path_end_in; eauto. Qed.

Lemma walk_complete : forall fuel cur prev disc conn nc np d,
  T cur = Some nc -> T prev = Some np -> anc T d cur -> anc T d prev ->
  (Z.to_nat (n_height nc + n_height np) < fuel)%nat ->
  walk fuel T cur prev disc conn <> None.
Proof.
  induction fuel as [|f IH]; intros cur prev disc conn nc np d Hc Hp Dc Dp Hf; [lia|].
  cbn [walk]. rewrite Hc, Hp.
  destruct (Z.eqb_spec cur prev) as [E|Hne]; [discriminate|].
  destruct (WF _ _ Hc) as (Hc0 & Hcpar). destruct (WF _ _ Hp) as (Hp0 & Hppar).
  destruct (Z.leb_spec (n_height nc) (n_height np)) as [L1|L1];
    destruct (Z.leb_spec (n_height np) (n_height nc)) as [L2|L2]; try lia.
  - assert (A1 : anc T d (n_prev nc)) by (apply (low_cur cur prev nc np d Hc Hp Hne); auto; lia).
    assert (A2 : anc T d (n_prev np)) by (apply (low_prev cur prev nc np d Hc Hp Hne); auto; lia).
    destruct (anc_in _ _ A1) as (pc & Hpc). destruct (anc_in _ _ A2) as (pp & Hpp).
    destruct (Hcpar _ Hpc) as (Hh1 & _). destruct (Hppar _ Hpp) as (Hh2 & _).
    destruct (WF _ _ Hpc) as (Hq1 & _). destruct (WF _ _ Hpp) as (Hq2 & _).
    eapply IH; eauto. lia.
  - assert (A2 : anc T d (n_prev np)) by (apply (low_prev cur prev nc np d Hc Hp Hne); auto; lia).
    destruct (anc_in _ _ A2) as (pp & Hpp).
    destruct (Hppar _ Hpp) as (Hh2 & _). destruct (WF _ _ Hpp) as (Hq2 & _).
    eapply IH; eauto. lia.
  - assert (A1 : anc T d (n_prev nc)) by (apply (low_cur cur prev nc np d Hc Hp Hne); auto; lia).
    destruct (anc_in _ _ A1) as (pc & Hpc).
    destruct (Hcpar _ Hpc) as (Hh1 & _). destruct (WF _ _ Hpc) as (Hq1 & _).
    eapply IH; eauto. lia.
Qed.

(** heights along a path are strictly consecutive *)
Lemma path_nth_height : forall a x l, path T a x l ->
  forall i b nda, nth_error l i = Some b -> T a = Some nda ->
  exists ndb, T b = Some ndb /\ n_height ndb = n_height nda + Z.of_nat i + 1.
Proof.
  induction 1 as [a nd Ha | a b y l nda ndb Ha Hb Hp Hpath IH]; intros i c nda' Hn Ha'.
  - destruct i; discriminate.
  - rewrite Ha in Ha'. inversion Ha'; subst nda'.
    destruct (WF _ _ Hb) as (_ & Hpar). rewrite Hp in Hpar. destruct (Hpar _ Ha) as (Hh & _).
    destruct i as [|i]; cbn [nth_error] in Hn.
    + inversion Hn; subst c. exists ndb. split; auto. lia.
    + destruct (IH i c ndb Hn Hb) as (ndc & Hc & Hhc). exists ndc. split; auto. lia.
Qed.

Lemma anc_antisym a b : anc T a b -> anc T b a -> a = b.
Proof.
  intros Hab Hba. destruct (anc_in _ _ Hab) as (nb & Hb). destruct (anc_in _ _ Hba) as (na & Ha).
  apply (anc_same_height T WF a b na nb); auto.
  pose proof (anc_height T WF a b na nb Hab Ha Hb). pose proof (anc_height T WF b a nb na Hba Hb Ha). lia.
Qed.

Lemma path_len_det a x l l' : path T a x l -> path T a x l' -> l = l'.
Proof.
  intros H H'. destruct (path_start_in _ _ _ _ H) as (na & Ha). destruct (path_end_in _ _ _ _ H) as (nx & Hx).
  pose proof (path_height T WF _ _ _ H _ _ Ha Hx). pose proof (path_height T WF _ _ _ H' _ _ Ha Hx).
  eapply path_det; eauto. lia.
Qed.

Theorem chain_diff_sound : forall new old ca D C,
  chain_diff T new old = Some (ca, D, C) ->
  path T ca new C /\ path T ca old (rev D) /\
  (forall d, anc T d new -> anc T d old -> anc T d ca).
Proof.
  unfold chain_diff. intros new old ca D C H.
  destruct (T new) as [nn|]; [|discriminate]. destruct (T old) as [no|]; [|discriminate].
  apply walk_acc in H. destruct H as (dn & cn & ED & EC & Pd & Pc & Low).
  rewrite app_nil_r in ED, EC. subst D C. rewrite rev_involutive. auto.
Qed.

Theorem chain_diff_total : forall new old d,
  anc T d new -> anc T d old -> chain_diff T new old <> None.
Proof.
  intros new old d Dn Do. unfold chain_diff.
  destruct (anc_in _ _ Dn) as (nn & Hn). destruct (anc_in _ _ Do) as (no & Ho). rewrite Hn, Ho.
  eapply walk_complete; eauto.
Qed.

(** the disconnected list is tip-first: it starts with the old tip *)
Lemma disc_tip_first ca old D : path T ca old (rev D) -> D <> [] -> exists D', D = old :: D'.
Proof.
  intros P Hne. destruct (path_top T _ _ _ P) as (l0 & nd & El & _ & _).
  - intros E. apply Hne. rewrite <- (rev_involutive D), E. reflexivity.
  - exists (rev l0). rewrite <- (rev_involutive D), El, rev_app_distr. reflexivity.
Qed.

(** refinement: a listener whose view is the old chain (above any root at or below the fork point)
    has, after dropping [|D|] blocks and appending [C], exactly the new chain as its view *)
Theorem apply_diff_view : forall root old new ca view D C,
  path T root old view -> anc T root ca -> path T ca old (rev D) -> path T ca new C ->
  path T root new (apply_diff view D C).
Proof.
  intros root old new ca view D C Pv (l0 & P0) Pd Pc.
  assert (P1 : path T root old (l0 ++ rev D)) by (eapply path_app; eauto).
  assert (E : view = l0 ++ rev D) by (eapply path_len_det; eauto).
  unfold apply_diff. subst view.
  rewrite app_length, rev_length, Nat.add_sub, firstn_app, Nat.sub_diag, firstn_all, firstn_O, app_nil_r.
  eapply path_app; eauto.
Qed.

(** [find_diff] (any source, cache, errors) refines the pure walk: whenever it succeeds, its common
    ancestor and ascending list are exactly those of [chain_diff]. *)
Theorem find_diff_refines_walk : forall src c fuel cur prev n ca asc,
  Forall (truthful T) c -> genuine T cur -> truthful T prev ->
  (Z.to_nat (th T cur + th T prev) < fuel)%nat ->
  fst (find_diff fuel T src c cur prev [] n) = DOk ca asc ->
  exists D, chain_diff T (v_hash cur) (v_hash prev) = Some (v_hash ca, D, map v_hash asc).
Proof.
  intros src c fuel cur prev n ca asc Hc Hcur Hprev Hf E.
  pose proof (difference_correct T src c fuel cur prev n WF Hc Hcur Hprev Hf) as H.
  rewrite E in H. destruct H as (_ & _ & _ & Pasc & Aprev & Low).
  assert (Acur : anc T (v_hash ca) (v_hash cur)) by (eexists; eauto).
  destruct (chain_diff T (v_hash cur) (v_hash prev)) as [[[ca' D] C]|] eqn:W;
    [|exfalso; exact (chain_diff_total _ _ _ Acur Aprev W)].
  destruct (chain_diff_sound _ _ _ _ _ W) as (Pc & Pd & Low').
  assert (ca' = v_hash ca).
  { apply anc_antisym; [apply Low; eexists; eauto | apply Low'; auto]. }
  subst ca'. exists D. assert (EC : C = map v_hash asc) by (apply (path_len_det _ _ _ _ Pc Pasc)).
  rewrite EC. reflexivity.
Qed.

Lemma truthful_linked v : truthful T v -> linked T v.
Proof.
  intros Hv p Hp. destruct (truthful_node T _ Hv) as (nd & V1 & _ & V3 & V4 & V5 & V6).
  destruct (WF _ _ V1) as (_ & Hpar). rewrite <- V3 in Hpar. destruct (Hpar _ Hp). lia.
Qed.

End W.

Lemma walk_heights : forall T, wf_tree T -> forall new old ca D C nda,
  chain_diff T new old = Some (ca, D, C) -> T ca = Some nda ->
  (forall i b, nth_error C i = Some b ->
     exists ndb, T b = Some ndb /\ n_height ndb = n_height nda + Z.of_nat i + 1) /\
  (forall i b, nth_error (rev D) i = Some b ->
     exists ndb, T b = Some ndb /\ n_height ndb = n_height nda + Z.of_nat i + 1) /\
  (D <> [] -> exists D', D = old :: D').
Proof.
  intros T WF new old ca D C nda H Ha.
  destruct (chain_diff_sound T WF _ _ _ _ _ H) as (Pc & Pd & _).
  split; [|split].
  - intros i b Hn. apply (path_nth_height T WF _ _ _ Pc i b nda Hn Ha).
  - intros i b Hn. apply (path_nth_height T WF _ _ _ Pd i b nda Hn Ha).
  - intros Hne. apply (disc_tip_first T ca old D Pd Hne).
Qed.

Lemma walk_view : forall T, wf_tree T -> forall new old ca D C root view,
  chain_diff T new old = Some (ca, D, C) ->
  path T root old view -> anc T root ca -> path T root new (apply_diff view D C).
Proof.
  intros T WF new old ca D C root view H Pv Ar.
  destruct (chain_diff_sound T WF _ _ _ _ _ H) as (Pc & Pd & _).
  apply (apply_diff_view T WF root old new ca view D C Pv Ar Pd Pc).
Qed.
