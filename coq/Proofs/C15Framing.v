(** C15 — proofs about the generic stream reader and the socket writer of [Model/Framing.v]:
    the copy-min loop equals the byte-at-a-time reference machine, hence any fragmentation of a
    stream produces the same events as feeding it whole; the loop never runs out of fuel; it never
    panics when the chunk handler keeps [want > 0]; the writer hands the socket exactly a prefix of
    the enqueued bytes whatever the socket's answers. *)
Require Import LdkV.Prim.U64.
From Coq Require Import List.
Import ListNotations.
Require Import LdkV.Model.Noise LdkV.Model.Framing.
Open Scope Z_scope.

Section ReaderProofs.
  Variables (S E : Type).
  Variable handle : S -> bytes -> chunk_res S E.

  Notation rstate := (rstate S).
  Notation fres := (fres S E).
  Notation andthen := (andthen S E).
  Notation complete := (complete S E handle).
  Notation feed_loop := (feed_loop S E handle).
  Notation feed1 := (feed1 S E handle).
  Notation feed := (feed S E handle).
  Notation feed_all := (feed_all S E handle).
  Notation feed_each := (feed_each S E handle).
  Notation push_byte := (push_byte S E handle).
  Notation feed_bytes := (feed_bytes S E handle).

  Lemma fres_eta (r : fres) : mk_f (f_st r) (f_evs r) (f_status r) = r.
  Proof. destruct r; reflexivity. Qed.

  Lemma rstate_eta (st : rstate) : mk_r (r_s st) (r_want st) (r_buf st) = st.
  Proof. destruct st; reflexivity. Qed.

  Lemma andthen_alive st k : andthen (mk_f st [] Alive) k = k st.
  Proof. unfold Framing.andthen; cbn. apply fres_eta. Qed.

  Lemma andthen_ext r k1 k2 : (forall st, k1 st = k2 st) -> andthen r k1 = andthen r k2.
  Proof. intros Hk. unfold Framing.andthen. destruct (f_status r); try reflexivity. rewrite Hk. reflexivity. Qed.

  Lemma andthen_assoc r k1 k2 :
    andthen (andthen r k1) k2 = andthen r (fun st => andthen (k1 st) k2).
  Proof.
    unfold Framing.andthen. destruct r as [st evs s]; cbn.
    destruct s; cbn; try reflexivity.
    destruct (k1 st) as [st1 e1 s1]; cbn.
    destruct s1; cbn; try reflexivity.
    rewrite app_assoc. reflexivity.
  Qed.

  Lemma andthen_ret r : andthen r (fun st => mk_f st [] Alive) = r.
  Proof.
    unfold Framing.andthen. destruct r as [st evs s]; cbn. destruct s; cbn; try reflexivity.
    rewrite app_nil_r. reflexivity.
  Qed.

  (** ** fragmentation independence on the reference machine *)
  Lemma feed_bytes_app st a b :
    feed_bytes st (a ++ b) = andthen (feed_bytes st a) (fun st' => feed_bytes st' b).
  Proof.
    revert st. induction a as [|x a IH]; intros st.
    - cbn [app Framing.feed_bytes]. rewrite andthen_alive. reflexivity.
    - cbn [app Framing.feed_bytes]. rewrite andthen_assoc. apply andthen_ext. intros st'. apply IH.
  Qed.

  (** bytes that do not complete the chunk only extend the buffer *)
  Lemma feed_bytes_fill c : forall st rest,
    (length (r_buf st) + length c < r_want st)%nat ->
    feed_bytes st (c ++ rest) = feed_bytes (mk_r (r_s st) (r_want st) (r_buf st ++ c)) rest.
  Proof.
    induction c as [|x c IH]; intros st rest Hlen.
    - cbn [app]. rewrite app_nil_r, rstate_eta. reflexivity.
    - cbn [app Framing.feed_bytes]. unfold Framing.push_byte.
      cbn [length] in Hlen.
      destruct (Nat.leb_spec (r_want st) (length (r_buf st))) as [Hle|Hgt]; [lia|].
      rewrite app_length; cbn [length].
      destruct (Nat.eqb_spec (length (r_buf st) + 1) (r_want st)) as [Heq|Hne]; [lia|].
      rewrite andthen_alive.
      rewrite IH; cbn [r_s r_want r_buf].
      + rewrite <- app_assoc. reflexivity.
      + rewrite app_length; cbn [length]. lia.
  Qed.

  (** the bytes that complete the chunk trigger [handle] on exactly the chunk *)
  Lemma feed_bytes_chunk c st rest :
    c <> [] ->
    (length (r_buf st) + length c = r_want st)%nat ->
    feed_bytes st (c ++ rest) =
    andthen (complete st (r_buf st ++ c)) (fun st' => feed_bytes st' rest).
  Proof.
    intros Hne Hlen.
    destruct (exists_last Hne) as [c0 [x Hc]]. subst c.
    rewrite app_length in Hlen; cbn [length] in Hlen.
    rewrite <- app_assoc. cbn [app].
    rewrite feed_bytes_fill by lia.
    cbn [Framing.feed_bytes]. unfold Framing.push_byte. cbn [r_s r_want r_buf].
    rewrite !app_length; cbn [length].
    destruct (Nat.leb_spec (r_want st) (length (r_buf st) + length c0)) as [Hle|Hgt]; [lia|].
    destruct (Nat.eqb_spec (length (r_buf st) + length c0 + 1) (r_want st)) as [Heq|Hneq]; [|lia].
    rewrite <- app_assoc. reflexivity.
  Qed.

  (** ** the copy-min loop is the reference machine *)
  Lemma feed_loop_bytes : forall fuel st data,
    (length data <= fuel)%nat -> feed_loop fuel st data = feed_bytes st data.
  Proof.
    induction fuel as [|fuel IH]; intros st data Hfuel.
    - destruct data; [reflexivity | cbn in Hfuel; lia].
    - destruct data as [|x d]; [reflexivity|].
      cbn [Framing.feed_loop].
      set (data := x :: d) in *.
      assert (Hpos : (1 <= length data)%nat) by (subst data; cbn; lia).
      destruct (Nat.leb_spec (r_want st) (length (r_buf st))) as [Hle|Hgt].
      + (* assertion failure on both sides *)
        subst data. cbn [Framing.feed_bytes]. unfold Framing.push_byte.
        destruct (Nat.leb_spec (r_want st) (length (r_buf st))); [|lia].
        reflexivity.
      + set (n := Nat.min (r_want st - length (r_buf st)) (length data)).
        assert (Hn1 : (1 <= n)%nat) by (unfold n; lia).
        assert (Hsplit : data = firstn n data ++ skipn n data) by (symmetry; apply firstn_skipn).
        assert (Hfn : length (firstn n data) = n) by (rewrite firstn_length; unfold n; lia).
        assert (Hsk : (length (skipn n data) <= fuel)%nat) by (rewrite skipn_length; lia).
        rewrite app_length, Hfn.
        destruct (Nat.eqb_spec (length (r_buf st) + n) (r_want st)) as [Heq|Hneq].
        * replace (feed_bytes st data) with (feed_bytes st (firstn n data ++ skipn n data))
            by (rewrite <- Hsplit; reflexivity).
          rewrite feed_bytes_chunk.
          -- apply andthen_ext. intros st'. apply IH. exact Hsk.
          -- intros Hnil. rewrite Hnil in Hfn. cbn in Hfn. lia.
          -- lia.
        * (* all of [data] fits without completing the chunk *)
          assert (Hall : n = length data) by (unfold n in *; lia).
          assert (Hrest : skipn n data = []) by (rewrite Hall; apply skipn_all).
          assert (Hfirst : firstn n data = data) by (rewrite Hall; apply firstn_all).
          rewrite Hrest, Hfirst.
          rewrite IH by (cbn; lia).
          replace (feed_bytes st data) with (feed_bytes st (data ++ []))
            by (rewrite app_nil_r; reflexivity).
          rewrite feed_bytes_fill by lia.
          reflexivity.
  Qed.

  Lemma feed1_bytes st data : feed1 st data = feed_bytes st data.
  Proof. unfold Framing.feed1. apply feed_loop_bytes. lia. Qed.

  Lemma feed1_app st a b :
    feed1 st (a ++ b) = andthen (feed1 st a) (fun st' => feed1 st' b).
  Proof.
    rewrite !feed1_bytes, feed_bytes_app. apply andthen_ext. intros. symmetry. apply feed1_bytes.
  Qed.

  (** two [read_event] calls are one call on the concatenation *)
  Lemma feed_app c a b :
    feed c (a ++ b) =
    let '(c1, e1) := feed c a in let '(c2, e2) := feed c1 b in (c2, e1 ++ e2).
  Proof.
    destruct c as [st s]. unfold Framing.feed at 1 2. cbn [c_status c_st].
    destruct s; cbn [app]; try reflexivity.
    rewrite feed1_app. unfold Framing.andthen.
    destruct (feed1 st a) as [st1 e1 s1]; cbn [f_status f_st f_evs].
    unfold Framing.feed. cbn [c_status c_st].
    destruct s1; cbn [c_status c_st]; try (rewrite app_nil_r; reflexivity).
    reflexivity.
  Qed.

  Lemma feed_nil c : feed c [] = (c, []).
  Proof. destruct c as [st s]. unfold Framing.feed. cbn. destruct s; reflexivity. Qed.

  (** FRAGMENTATION INDEPENDENCE: any way of cutting the stream into [read_event] calls yields the
      events (and final state) of a single call on the whole stream *)
  Theorem feed_all_concat fs : forall c, feed_all c fs = feed c (concat fs).
  Proof.
    induction fs as [|f fs IH]; intros c.
    - cbn. rewrite feed_nil. reflexivity.
    - cbn [Framing.feed_all concat]. rewrite feed_app.
      destruct (feed c f) as [c1 e1]. rewrite IH. reflexivity.
  Qed.

  Corollary feed_all_same_stream fs fs' c :
    concat fs = concat fs' -> feed_all c fs = feed_all c fs'.
  Proof. intros H. rewrite !feed_all_concat, H. reflexivity. Qed.

  (** the per-call view agrees with the accumulated one *)
  Lemma feed_each_all fs : forall c,
    concat (map fst (feed_each c fs)) = snd (feed_all c fs).
  Proof.
    induction fs as [|f fs IH]; intros c; [reflexivity|].
    cbn [Framing.feed_each Framing.feed_all].
    destruct (feed c f) as [c1 e1]. cbn [map fst concat].
    rewrite IH. destruct (feed_all c1 fs). reflexivity.
  Qed.

  (** ** no panic, no fuel exhaustion *)
  Section NoPanic.
    Variable I : S -> Prop.
    Hypothesis handle_ok : forall s c, I s ->
      match handle s c with
      | CNext s' w _ => I s' /\ (0 < w)%nat
      | CErr _ => True
      | CPanic => False
      end.

    Definition rinv (st : rstate) : Prop := I (r_s st) /\ (length (r_buf st) < r_want st)%nat.

    Lemma push_byte_safe st x : rinv st ->
      let r := push_byte st x in
      (f_status r = Alive /\ rinv (f_st r)) \/ f_status r = Disconnected.
    Proof.
      intros [HI Hlen]. unfold Framing.push_byte.
      destruct (Nat.leb_spec (r_want st) (length (r_buf st))); [lia|].
      destruct (Nat.eqb_spec (length (r_buf st ++ [x])) (r_want st)) as [Heq|Hne].
      - unfold Framing.complete. specialize (handle_ok (r_s st) (r_buf st ++ [x]) HI).
        destruct (handle (r_s st) (r_buf st ++ [x])) as [s' w evs|evs|]; cbn.
        + left. split; [reflexivity|]. destruct handle_ok. split; cbn; assumption.
        + right. reflexivity.
        + contradiction.
      - cbn. left. split; [reflexivity|]. split; cbn; [assumption|].
        rewrite app_length in *; cbn [length] in *. lia.
    Qed.

    Lemma feed_bytes_safe data : forall st, rinv st ->
      let r := feed_bytes st data in
      (f_status r = Alive /\ rinv (f_st r)) \/ f_status r = Disconnected.
    Proof.
      induction data as [|x d IH]; intros st Hinv.
      - cbn. left. split; [reflexivity | assumption].
      - cbn [Framing.feed_bytes]. unfold Framing.andthen.
        destruct (push_byte_safe st x Hinv) as [[Ha Hi]|Hd].
        + rewrite Ha. cbn [f_status f_st]. apply IH. exact Hi.
        + rewrite Hd. right. exact Hd.
    Qed.

    Theorem feed_safe c data : c_status c = Alive -> rinv (c_st c) ->
      let c' := fst (feed c data) in
      (c_status c' = Alive /\ rinv (c_st c')) \/ c_status c' = Disconnected.
    Proof.
      intros Ha Hinv. unfold Framing.feed. rewrite Ha. cbn [fst c_status c_st].
      rewrite feed1_bytes. apply feed_bytes_safe. exact Hinv.
    Qed.

    Theorem feed_all_safe fs : forall c,
      (c_status c = Alive /\ rinv (c_st c)) \/ c_status c = Disconnected ->
      let c' := fst (feed_all c fs) in
      (c_status c' = Alive /\ rinv (c_st c')) \/ c_status c' = Disconnected.
    Proof.
      induction fs as [|f fs IH]; intros c Hc; [exact Hc|].
      cbn [Framing.feed_all].
      destruct (feed c f) as [c1 e1] eqn:Hf.
      assert (H1 : (c_status c1 = Alive /\ rinv (c_st c1)) \/ c_status c1 = Disconnected).
      { destruct Hc as [[Ha Hi]|Hd].
        - pose proof (feed_safe c f Ha Hi) as Hs. rewrite Hf in Hs. exact Hs.
        - unfold Framing.feed in Hf. rewrite Hd in Hf. inversion Hf; subst. right. exact Hd. }
      specialize (IH c1 H1). destruct (feed_all c1 fs) as [c2 e2]. exact IH.
    Qed.
  End NoPanic.

  (** ** event-order automata carried through the reader *)
  Section Simulation.
    Variable A : Type.
    Variable auto : A -> list E -> option A.
    Variable abs : S -> A.
    Hypothesis auto_nil : forall a, auto a [] = Some a.
    Hypothesis auto_app : forall a e1 e2,
      auto a (e1 ++ e2) = match auto a e1 with Some a' => auto a' e2 | None => None end.
    Hypothesis handle_sim : forall s c,
      match handle s c with
      | CNext s' _ evs => auto (abs s) evs = Some (abs s')
      | CErr evs => auto (abs s) evs <> None
      | CPanic => True
      end.

    Lemma feed_bytes_sim data : forall st,
      let r := feed_bytes st data in
      exists a', auto (abs (r_s st)) (f_evs r) = Some a' /\
                 (f_status r = Alive -> a' = abs (r_s (f_st r))).
    Proof.
      induction data as [|x d IH]; intros st.
      - cbn. exists (abs (r_s st)). split; [apply auto_nil | reflexivity].
      - cbn [Framing.feed_bytes]. unfold Framing.andthen.
        assert (Hp : exists a1, auto (abs (r_s st)) (f_evs (push_byte st x)) = Some a1 /\
                       (f_status (push_byte st x) = Alive -> a1 = abs (r_s (f_st (push_byte st x))))).
        { unfold Framing.push_byte.
          destruct (r_want st <=? length (r_buf st))%nat.
          - cbn. exists (abs (r_s st)). split; [apply auto_nil | discriminate].
          - destruct (length (r_buf st ++ [x]) =? r_want st)%nat.
            + unfold Framing.complete. pose proof (handle_sim (r_s st) (r_buf st ++ [x])) as Hs.
              destruct (handle (r_s st) (r_buf st ++ [x])) as [s' w evs|evs|]; cbn.
              * exists (abs s'). split; [exact Hs | reflexivity].
              * destruct (auto (abs (r_s st)) evs) as [a1|] eqn:Ha; [|contradiction].
                exists a1. split; [reflexivity | discriminate].
              * exists (abs (r_s st)). split; [apply auto_nil | discriminate].
            + cbn. exists (abs (r_s st)). split; [apply auto_nil | reflexivity]. }
        destruct Hp as [a1 [Ha1 Hal]].
        destruct (f_status (push_byte st x)) eqn:Hst.
        + cbn [f_evs f_status f_st].
          destruct (IH (f_st (push_byte st x))) as [a2 [Ha2 Hal2]].
          exists a2. rewrite auto_app, Ha1, (Hal eq_refl). split; assumption.
        + exists a1. split; [exact Ha1 | rewrite Hst; discriminate].
        + exists a1. split; [exact Ha1 | rewrite Hst; discriminate].
        + exists a1. split; [exact Ha1 | rewrite Hst; discriminate].
    Qed.
  End Simulation.
End ReaderProofs.

(** ** Writer *)

Definition w_wf (st : wstate) : Prop :=
  match w_queue st with
  | [] => w_off st = O
  | b :: _ => (w_off st <= length b)%nat
  end.

Lemma skipn_add {A} n : forall m (l : list A), skipn (n + m) l = skipn m (skipn n l).
Proof.
  induction n as [|n IH]; intros m l; [reflexivity|].
  destruct l; cbn [Nat.add skipn]; [destruct m; reflexivity | apply IH].
Qed.

Lemma w_pending_cons (b : bytes) (q : list bytes) off : (off <= length b)%nat ->
  skipn off (concat (b :: q)) = skipn off b ++ concat q.
Proof.
  intros H. cbn [concat]. rewrite skipn_app.
  replace (off - length b)%nat with O by lia. reflexivity.
Qed.

Lemma sock_take_le oracle offered r o : sock_take oracle offered = (r, o) -> (r <= offered)%nat.
Proof. unfold sock_take. destruct oracle; intros H; inversion H; lia. Qed.

Lemma write_loop_spec queue : forall off awaiting pause force blocked oracle st sent o calls,
  (match queue with [] => off = O | b :: _ => (off <= length b)%nat end) ->
  write_loop queue off awaiting pause force blocked oracle = (st, sent, o, calls) ->
  sent ++ w_pending st = skipn off (concat queue) /\ w_wf st.
Proof.
  induction queue as [|b q IH]; intros off awaiting pause force blocked oracle st sent o calls Hoff Hrun.
  - cbn in Hrun. destruct (force || negb awaiting); [destruct force|]; inversion Hrun; subst; cbn;
      unfold w_pending, w_wf; cbn; (split; [reflexivity | auto]).
  - cbn [write_loop] in Hrun.
    destruct (force || negb awaiting).
    + destruct (sock_take oracle (length (skipn off b))) as [r o'] eqn:Htake.
      pose proof (sock_take_le _ _ _ _ Htake) as Hr. rewrite skipn_length in Hr.
      destruct (Nat.eqb_spec (off + r) (length b)) as [Heq|Hne].
      * destruct (write_loop q 0 awaiting (negb (should_read (b :: q) blocked)) false blocked o') as [[[st1 sent1] o1] c1] eqn:Hrec.
        inversion Hrun; subst st sent o calls.
        assert (H0 : match q with [] => O = O | b0 :: _ => (0 <= length b0)%nat end)
          by (destruct q; [reflexivity | lia]).
        destruct (IH O awaiting _ false blocked o' st1 sent1 o1 c1 H0 Hrec) as [Hs Hw].
        split; [|exact Hw].
        rewrite <- app_assoc, Hs. cbn [skipn].
        rewrite w_pending_cons by exact Hoff.
        rewrite firstn_all2 by (rewrite skipn_length; lia). reflexivity.
      * inversion Hrun; subst st sent o calls.
        split.
        -- unfold w_pending. cbn [w_off w_queue].
           rewrite !w_pending_cons by lia.
           rewrite app_assoc. f_equal.
           rewrite skipn_add. apply firstn_skipn.
        -- unfold w_wf; cbn. lia.
    + inversion Hrun; subst. split; [reflexivity | exact Hoff].
Qed.

Lemma wstep_spec st op st' sent : w_wf st -> wstep st op = (st', sent) ->
  sent ++ w_pending st' =
  w_pending st ++ (match op with WEnqueue b => b | _ => [] end) /\ w_wf st'.
Proof.
  intros Hwf Hstep. unfold wstep in Hstep.
  destruct op as [b|force blocked oracle|blocked oracle]; cbn [wstep_full] in Hstep.
  - inversion Hstep; subst. cbn [app]. unfold w_pending, w_wf in *. cbn [w_queue w_off].
    rewrite concat_app. cbn [concat]. rewrite app_nil_r.
    destruct (w_queue st) as [|b0 q] eqn:Hq.
    + rewrite Hwf. cbn. split; [reflexivity | lia].
    + split; [|cbn; exact Hwf].
      rewrite skipn_app.
      replace (w_off st - length (concat (b0 :: q)))%nat with O; [reflexivity|].
      cbn [concat]. rewrite app_length. lia.
  - destruct (write_loop (w_queue st) (w_off st) (w_awaiting st) (w_pause st) _ blocked oracle) as [[[st1 s1] o1] c1] eqn:Hl.
    inversion Hstep; subst. rewrite app_nil_r.
    apply (write_loop_spec _ _ _ _ _ _ _ _ _ _ _ Hwf Hl).
  - destruct (write_loop (w_queue st) (w_off st) false (w_pause st) true blocked oracle) as [[[st1 s1] o1] c1] eqn:Hl.
    inversion Hstep; subst. rewrite app_nil_r.
    apply (write_loop_spec _ _ _ _ _ _ _ _ _ _ _ Hwf Hl).
Qed.

Lemma wrun_spec ops : forall st st' sent, w_wf st -> wrun st ops = (st', sent) ->
  sent ++ w_pending st' = w_pending st ++ concat (enqueued ops) /\ w_wf st'.
Proof.
  induction ops as [|op ops IH]; intros st st' sent Hwf Hrun.
  - cbn in Hrun. inversion Hrun; subst. cbn. rewrite app_nil_r. split; [reflexivity | exact Hwf].
  - cbn [wrun] in Hrun.
    destruct (wstep st op) as [st1 s1] eqn:Hstep.
    destruct (wrun st1 ops) as [st2 s2] eqn:Hrest.
    inversion Hrun; subst st' sent.
    destruct (wstep_spec _ _ _ _ Hwf Hstep) as [H1 Hwf1].
    destruct (IH _ _ _ Hwf1 Hrest) as [H2 Hwf2].
    split; [|exact Hwf2].
    rewrite <- app_assoc, H2, app_assoc, H1, <- app_assoc. f_equal.
    destruct op; reflexivity.
Qed.

(** BACK-PRESSURE FIFO: whatever the socket answers (short writes, zero-byte writes, pauses), the
    bytes handed to the socket followed by the bytes still queued are exactly the enqueued buffers
    in order; in particular the bytes sent are a prefix of their concatenation *)
Theorem writer_fifo ops st sent :
  wrun w_init ops = (st, sent) ->
  sent ++ w_pending st = concat (enqueued ops).
Proof.
  intros Hrun.
  assert (Hwf : w_wf w_init) by reflexivity.
  destruct (wrun_spec ops _ _ _ Hwf Hrun) as [H _]. exact H.
Qed.

(** progress: a [write_buffer_space_avail] with a socket that takes everything offered empties the
    queue *)
Lemma write_loop_drains_gen queue : forall off pause force blocked oracle st sent o calls,
  Forall2 (fun b x => (length b <= x)%nat) queue (firstn (length queue) oracle) ->
  (match queue with [] => off = O | b :: _ => (off <= length b)%nat end) ->
  write_loop queue off false pause force blocked oracle = (st, sent, o, calls) ->
  w_queue st = [] /\ w_off st = O.
Proof.
  induction queue as [|b q IH]; intros off pause force blocked oracle st sent o calls Hbig Hoff Hrun.
  - cbn [write_loop] in Hrun. destruct (force || negb false); [destruct force|]; inversion Hrun; subst; cbn; auto.
  - cbn [write_loop] in Hrun.
    replace (force || negb false) with true in Hrun by (destruct force; reflexivity).
    destruct oracle as [|x oracle]; [cbn in Hbig; inversion Hbig|].
    cbn [length firstn] in Hbig. inversion Hbig as [|? ? ? ? Hbx Hrest]; subst.
    cbn [sock_take] in Hrun. rewrite skipn_length in Hrun.
    replace (Nat.min x (length b - off)) with (length b - off)%nat in Hrun by lia.
    replace (off + (length b - off))%nat with (length b) in Hrun by lia.
    rewrite Nat.eqb_refl in Hrun.
    destruct (write_loop q 0 false (negb (should_read (b :: q) blocked)) false blocked oracle) as [[[st1 s1] o1] c1] eqn:Hrec.
    inversion Hrun; subst.
    eapply (IH O _ false blocked oracle); [exact Hrest | destruct q; [reflexivity | lia] | exact Hrec].
Qed.

(** progress: [write_buffer_space_avail] with a socket that takes everything offered empties the
    queue *)
Lemma write_loop_drains queue off pause blocked oracle st sent o calls :
  Forall2 (fun b x => (length b <= x)%nat) queue (firstn (length queue) oracle) ->
  (match queue with [] => off = O | b :: _ => (off <= length b)%nat end) ->
  write_loop queue off false pause true blocked oracle = (st, sent, o, calls) ->
  w_queue st = [] /\ w_off st = O.
Proof. apply write_loop_drains_gen. Qed.

(** ** read pause / resume *)

Lemma should_read_tail b q blocked : should_read (b :: q) blocked = true -> should_read q blocked = true.
Proof.
  unfold should_read. rewrite !andb_true_iff, !Z.ltb_lt. cbn [length]. intros [H1 H2]. split; [lia | exact H2].
Qed.

(** while [should_read] holds (it keeps holding as the queue shrinks) every [send_data] call of
    the loop carries [continue_read = true]; a forced entry makes at least one call; the state
    ends with [sent_pause_read = false] as soon as a call was made *)
Local Ltac fin := repeat split; intros; try reflexivity; try discriminate; try congruence; try (constructor; auto); auto.

Lemma write_loop_resume queue : forall off awaiting pause force blocked oracle st sent o calls,
  should_read queue blocked = true ->
  write_loop queue off awaiting pause force blocked oracle = (st, sent, o, calls) ->
  Forall (fun c => c = true) calls /\
  (force = true -> calls <> []) /\
  (calls <> [] -> w_pause st = false) /\ (calls = [] -> w_pause st = pause).
Proof.
  induction queue as [|b q IH]; intros off awaiting pause force blocked oracle st sent o calls Hsr Hrun.
  - cbn [write_loop] in Hrun. rewrite Hsr in Hrun.
    destruct (force || negb awaiting) eqn:Hf.
    + destruct force; inversion Hrun; subst; cbn; fin.
    + destruct force; [discriminate|]. inversion Hrun; subst; cbn; fin.
  - cbn [write_loop] in Hrun. rewrite Hsr in Hrun. cbn [negb] in Hrun.
    destruct (force || negb awaiting) eqn:Hf.
    + destruct (sock_take oracle (length (skipn off b))) as [r o'].
      destruct ((off + r =? length b)%nat).
      * destruct (write_loop q 0 awaiting false false blocked o') as [[[st1 s1] o1] c1] eqn:Hrec.
        inversion Hrun; subst.
        destruct (IH _ _ _ _ _ _ _ _ _ _ (should_read_tail _ _ _ Hsr) Hrec) as [Hall [_ [Hne Hnil]]].
        split; [constructor; [reflexivity | exact Hall]|].
        split; [intros _; discriminate|].
        split; [|intros H; discriminate].
        intros _. destruct c1 as [|c c1]; [apply Hnil; reflexivity | apply Hne; discriminate].
      * inversion Hrun; subst; cbn; fin.
    + destruct force; [discriminate|]. inversion Hrun; subst; cbn; fin.
Qed.

(** the driver's contract: whatever the data (also none), [continue_read = true] unpauses reads,
    and wakes the reader if it was paused *)
Lemma drv_resume d data : d_read_paused (drv_send_data d data true) = false /\
  (d_read_paused d = true -> d_wakeups (drv_send_data d data true) = Datatypes.S (d_wakeups d)).
Proof. unfold drv_send_data; cbn. split; [reflexivity|]. intros ->. reflexivity. Qed.

Lemma drv_calls_all_true calls : forall d, calls <> [] -> Forall (fun c => c = true) calls ->
  d_read_paused (drv_calls d calls) = false /\
  (d_read_paused d = true -> (d_wakeups d < d_wakeups (drv_calls d calls))%nat).
Proof.
  induction calls as [|c calls IH]; intros d Hne Hall; [contradiction|].
  inversion Hall as [|? ? Hc Hrest]; subst. unfold drv_calls. cbn [fold_left].
  fold (drv_calls (drv_send_data d [] true) calls).
  destruct calls as [|c2 calls2].
  - destruct d as [p w]. cbn. split; [reflexivity|]. intros Hp. subst p. cbn. apply Nat.lt_succ_diag_r.
  - destruct (IH (drv_send_data d [] true)) as [Hp Hw]; [discriminate | exact Hrest |].
    split; [exact Hp|]. intros Hd.
    assert (Hmono : forall cs d0, (d_wakeups d0 <= d_wakeups (drv_calls d0 cs))%nat).
    { induction cs as [|x cs IHcs]; intros d0; [cbn; lia|].
      unfold drv_calls. cbn [fold_left]. fold (drv_calls (drv_send_data d0 [] x) cs).
      specialize (IHcs (drv_send_data d0 [] x)). unfold drv_send_data in *. cbn in *.
      destruct (x && d_read_paused d0); lia. }
    specialize (Hmono (c2 :: calls2) (drv_send_data d [] true)).
    assert (Hs : d_wakeups (drv_send_data d [] true) = Datatypes.S (d_wakeups d))
      by (unfold drv_send_data; cbn; rewrite Hd; reflexivity).
    rewrite Hs in Hmono. apply Nat.lt_le_trans with (Datatypes.S (d_wakeups d)); [apply Nat.lt_succ_diag_r | exact Hmono].
Qed.

(** READ RESUME: reads were paused ([sent_pause_read]), the condition that paused them is gone
    (fewer than the limit queued, not blocked). Then the next [process_events] (forced or not,
    whatever the socket answers, even with NOTHING queued) or [write_buffer_space_avail] issues at
    least one [send_data] call, all with [continue_read = true]; the writer ends with
    [sent_pause_read = false]; and a driver that honours the contract ends unpaused and woken *)
Theorem read_resume st op d st' sent calls :
  w_pause st = true -> d_read_paused d = true ->
  (exists force oracle, op = WProcess force false oracle) \/ (exists oracle, op = WSpaceAvail false oracle) ->
  should_read (w_queue st) false = true ->
  wstep_full st op = (st', sent, calls) ->
  calls <> [] /\ Forall (fun c => c = true) calls /\ w_pause st' = false /\
  d_read_paused (drv_calls d calls) = false /\ (d_wakeups d < d_wakeups (drv_calls d calls))%nat.
Proof.
  intros Hp Hd Hop Hsr Hstep.
  assert (Hloop : exists awaiting force, force = true /\ exists o,
    write_loop (w_queue st) (w_off st) awaiting (w_pause st) force false
      (match op with WProcess _ _ oracle => oracle | WSpaceAvail _ oracle => oracle | _ => [] end) = (st', sent, o, calls)).
  { destruct Hop as [[force [oracle ->]]|[oracle ->]]; cbn [wstep_full] in Hstep.
    - rewrite Hsr, Hp in Hstep. cbn [Bool.eqb] in Hstep. rewrite orb_true_r in Hstep.
      destruct (write_loop (w_queue st) (w_off st) (w_awaiting st) true true false oracle) as [[[s1 x1] o1] c1] eqn:Hl.
      inversion Hstep; subst. exists (w_awaiting st), true. split; [reflexivity|]. exists o1. rewrite Hp. exact Hl.
    - destruct (write_loop (w_queue st) (w_off st) false (w_pause st) true false oracle) as [[[s1 x1] o1] c1] eqn:Hl.
      inversion Hstep; subst. exists false, true. split; [reflexivity|]. exists o1. exact Hl. }
  destruct Hloop as [awaiting [force [Hf [o Hl]]]].
  destruct (write_loop_resume _ _ _ _ _ _ _ _ _ _ _ Hsr Hl) as [Hall [Hne [Hpause _]]].
  specialize (Hne Hf).
  destruct (drv_calls_all_true calls d Hne Hall) as [Hdp Hdw].
  repeat split; auto.
Qed.

