(** C03 — proofs, part 2: which operation can emit what (output kinds), truth of PaymentSent,
    refusal of duplicates, and the exact conditions of the two silent removals. *)
Require Import LdkV.Prim.U64 LdkV.Gen.ConstsC03 LdkV.Model.Outbound LdkV.Proofs.C03.
Open Scope Z_scope.

Inductive kind : Type :=
| KSent | KFailed | KPathOk | KPathFailed | KProbe | KCreated | KHit | KNew | KRes | KGone | KPanic.

Definition kind_of (o : out) : kind :=
  match o with
  | OEv (EvSent _ _ _ _) => KSent
  | OEv (EvFailed _ _ _) => KFailed
  | OEv (EvPathOk _ _) => KPathOk
  | OEv (EvPathFailed _ _ _ _) => KPathFailed
  | OEv (EvProbeOk _ _) | OEv (EvProbeFailed _ _) => KProbe
  | OCreated _ => KCreated
  | OClaimHit _ => KHit
  | ONew _ _ _ _ _ _ => KNew
  | ORes _ => KRes
  | OGone _ _ => KGone
  | OPanic => KPanic
  end.

Definition kind_eqb (a b : kind) : bool :=
  match a, b with
  | KSent, KSent | KFailed, KFailed | KPathOk, KPathOk | KPathFailed, KPathFailed | KProbe, KProbe
  | KCreated, KCreated | KHit, KHit | KNew, KNew | KRes, KRes | KGone, KGone | KPanic, KPanic => true
  | _, _ => false
  end.

Definition kinds_in (allowed : list kind) (outs : list out) : bool :=
  forallb (fun o => existsb (kind_eqb (kind_of o)) allowed) outs.

Lemma kinds_in_app al a b : kinds_in al (a ++ b) = kinds_in al a && kinds_in al b.
Proof. unfold kinds_in. apply forallb_app. Qed.

Lemma kinds_in_weaken al al' outs :
  (forall k, existsb (kind_eqb k) al = true -> existsb (kind_eqb k) al' = true) ->
  kinds_in al outs = true -> kinds_in al' outs = true.
Proof.
  intros Hw. unfold kinds_in. rewrite !forallb_forall. intros H o Ho. apply Hw. apply H. exact Ho.
Qed.

Ltac kw := let k := fresh "k" in intros k; destruct k; cbn; intros; try discriminate; reflexivity.

Lemma kinds_in_In al outs o : kinds_in al outs = true -> In o outs -> existsb (kind_eqb (kind_of o)) al = true.
Proof. unfold kinds_in. rewrite forallb_forall. intros H Ho. apply H. exact Ho. Qed.

(** ** per transition *)
Ltac kcrush := repeat (cbn -[Z.add Z.sub Z.mul Z.div Z.ltb Z.leb Z.eqb sat_add sat_sub]; split_ifs); reflexivity.

Lemma kinds_abandon id reason c e : kinds_in [KFailed] (snd (abandon_t id reason c e)) = true.
Proof. unfold abandon_t. destruct e as [[]|]; kcrush. Qed.

Lemma kinds_claim id pre sp amt fee oc c e :
  kinds_in [KSent; KPathOk; KHit; KPanic] (snd (claim_t id pre sp amt fee oc c e)) = true.
Proof. unfold claim_t. destruct e as [[]|]; kcrush. Qed.

Lemma kinds_finalize id sp c e : kinds_in [KPathOk; KPanic] (snd (finalize_t id sp c e)) = true.
Proof. unfold finalize_t. destruct e as [[]|]; kcrush. Qed.

Lemma kinds_fail id sp amt fee perm probe c e :
  kinds_in [KPathFailed; KProbe; KFailed; KGone; KPanic] (snd (fail_t id sp amt fee perm probe c e)) = true.
Proof. unfold fail_t. destruct e as [[]|]; destruct probe, perm; kcrush. Qed.

Lemma kinds_tick q id c e : kinds_in [KFailed; KGone] (snd (tick_t q id c e)) = true.
Proof. unfold tick_t. destruct e as [[]|]; kcrush. Qed.

Lemma kinds_startup id hash sp amt fee c e : kinds_in [KCreated] (snd (startup_t id hash sp amt fee c e)) = true.
Proof. unfold startup_t. destruct e as [[]|]; kcrush. Qed.

Lemma kinds_retain id c e : kinds_in [KFailed] (snd (retain_t id c e)) = true.
Proof. unfold retain_t. destruct e as [[]|]; kcrush. Qed.

Lemma kinds_retain_frs id c e : kinds_in [KNew; KPathFailed; KFailed] (snd (retain_t id c e)) = true.
Proof. eapply kinds_in_weaken; [|apply kinds_retain]. kw. Qed.

Lemma kinds_await id ticks retry c e : kinds_in [KCreated; KRes] (snd (await_t id ticks retry c e)) = true.
Proof. unfold await_t. destruct e as [[]|]; kcrush. Qed.

Lemma kinds_insert_all id h p sp paths : kinds_in [KNew] (snd (insert_all id h p sp paths)) = true.
Proof.
  revert p sp. induction paths as [|x t IH]; intros p sp; cbn [insert_all]; [reflexivity|].
  specialize (IH (fst (pm_insert p sp (pr_amt x) (pr_fee x))) (sp + 1)).
  destruct (insert_all id h _ (sp + 1) t) as [p2 outs]. cbn [fst snd] in *. cbn. exact IH.
Qed.

Lemma kinds_drop_unsent id p sp paths : kinds_in [KPathFailed] (snd (drop_unsent id p sp paths)) = true.
Proof.
  revert p sp. induction paths as [|x t IH]; intros p sp; cbn [drop_unsent]; [reflexivity|].
  destruct (unsent (pr_res x)); [|apply IH].
  specialize (IH (fst (pm_remove p sp (pr_amt x) (pr_fee x))) (sp + 1)).
  destruct (drop_unsent id _ (sp + 1) t) as [p2 outs]. cbn [fst snd] in *. cbn. exact IH.
Qed.

Definition K_frs : list kind := [KNew; KPathFailed; KFailed].

Lemma kinds_after_pay id (p : payment) sp0 paths fv mf
      (cont : option payment -> Z -> option Z -> option payment * list out * list ans) rest :
  (forall e1 fv1 mf1, kinds_in K_frs (snd (fst (cont e1 fv1 mf1))) = true) ->
  let r := after_pay cont (fun e1 => (e1, [], rest)) id p sp0 paths fv mf in
  kinds_in K_frs (fst r ++ snd (fst (snd r))) = true.
Proof.
  intros Hc. unfold after_pay.
  pose proof (kinds_drop_unsent id p sp0 paths) as Hd.
  destruct (drop_unsent id p sp0 paths) as [p1 evs]. cbn [fst snd] in Hd.
  assert (Hd' : kinds_in K_frs evs = true) by (eapply kinds_in_weaken; [|exact Hd]; kw).
  destruct (existsb (fun x => negb (is_sok (pr_res x))) paths && existsb (fun x => negb (unsent (pr_res x))) paths).
  - destruct (existsb (fun x => unsent (pr_res x)) paths); cbn [fst snd]; [|reflexivity].
    rewrite kinds_in_app, Hd', Hc. reflexivity.
  - destruct (existsb (fun x => negb (is_sok (pr_res x))) paths); cbn [fst snd]; [|reflexivity].
    rewrite kinds_in_app, Hd', Hc. reflexivity.
Qed.

Lemma kinds_abandon_frs id reason c e : kinds_in K_frs (snd (abandon_t id reason c e)) = true.
Proof. eapply kinds_in_weaken; [|apply kinds_abandon]. kw. Qed.

Lemma kinds_frs id : forall answers e c fv mf, kinds_in K_frs (snd (fst (frs answers id e c fv mf))) = true.
Proof.
  induction answers as [|a rest IH]; intros e c fv mf.
  - cbn [frs fst snd]. apply kinds_abandon_frs.
  - destruct a as [|k fees over res]; [cbn [frs fst snd]; apply kinds_abandon_frs|].
    cbn [frs]. destruct e as [p|]; [|reflexivity].
    destruct p as [r a hp parts h pa pf tot rf|parts h t tot f|parts h r tot f|n r]; try reflexivity.
    destruct (tot * 110 / 100 <? sum (map pr_amt (paths_of fv k fees over res)) + pa);
      [cbn [fst snd]; apply kinds_abandon_frs|].
    destruct (negb (is_retryable_now (Retryable r a hp parts h pa pf tot rf)));
      [cbn [fst snd]; apply kinds_abandon_frs|].
    pose proof (kinds_insert_all id h (Retryable r a hp parts h pa pf tot rf) c (paths_of fv k fees over res)) as Hn.
    destruct (insert_all id h (Retryable r a hp parts h pa pf tot rf) c (paths_of fv k fees over res)) as [p1 news].
    cbn [fst snd] in Hn.
    pose proof (kinds_after_pay id (inc_attempts p1) c (paths_of fv k fees over res) fv mf
                  (fun e1 fv1 mf1 => frs rest id e1 (c + Z.of_nat (List.length (paths_of fv k fees over res))) fv1 mf1)
                  rest (fun e1 fv1 mf1 => IH e1 _ fv1 mf1)) as Hap.
    cbv zeta in Hap.
    destruct (after_pay _ _ id (inc_attempts p1) c (paths_of fv k fees over res) fv mf) as [evs [[e' outs] rest']].
    cbn [fst snd] in *. rewrite kinds_in_app, Hap, andb_true_r.
    eapply kinds_in_weaken; [|exact Hn]. kw.
Qed.

Lemma kinds_retry_loop id : forall fuel answers e c, kinds_in K_frs (snd (retry_loop fuel answers id e c)) = true.
Proof.
  induction fuel as [|f IH]; intros answers e c; cbn [retry_loop]; [reflexivity|].
  destruct e as [p|]; [|reflexivity].
  destruct p as [r a hp parts h pa pf tot rf|parts h t tot f0|parts h r tot f0|n r]; try reflexivity.
  destruct (is_auto_retryable_now (Retryable r a hp parts h pa pf tot rf) && (pa <? tot)); [|reflexivity].
  pose proof (kinds_frs id answers (Some (Retryable r a hp parts h pa pf tot rf)) c (tot - pa) rf) as H1.
  destruct (frs answers id (Some (Retryable r a hp parts h pa pf tot rf)) c (tot - pa) rf) as [[e1 outs1] rest].
  cbn [fst snd] in H1. specialize (IH rest e1 (c + count_new outs1)).
  destruct (retry_loop f rest id e1 (c + count_new outs1)) as [e2 outs2]. cbn [fst snd] in *.
  rewrite kinds_in_app, H1, IH. reflexivity.
Qed.

Lemma kinds_retry answers id c e : kinds_in K_frs (snd (retry_t answers id c e)) = true.
Proof. unfold retry_t. apply kinds_retry_loop. Qed.

Lemma kinds_add id hash retry paths mf c e : kinds_in [KCreated; KRes; KNew] (snd (add_t id hash retry paths mf c e)) = true.
Proof.
  unfold add_t. destruct e as [p|]; [reflexivity|].
  match goal with |- context [insert_all ?a ?b ?p ?c ?ps] =>
    pose proof (kinds_insert_all a b p c ps) as Hn; destruct (insert_all a b p c ps) as [p1 news] end.
  cbn [fst snd] in *.
  change (kinds_in [KCreated; KRes; KNew] (OCreated id :: ORes 0 :: news))
    with (kinds_in [KCreated; KRes; KNew] news).
  eapply kinds_in_weaken; [|exact Hn]. kw.
Qed.

Definition K_send : list kind := [KCreated; KRes; KNew; KPathFailed; KFailed].

Lemma kinds_send id hash retry amt mf answers c e : kinds_in K_send (snd (send_t id hash retry amt mf answers c e)) = true.
Proof.
  unfold send_t. destruct answers as [|a rest]; [reflexivity|].
  destruct a as [|k fees over res]; [reflexivity|]. destruct e as [p|]; [reflexivity|].
  match goal with |- context [insert_all ?a ?b ?p ?c ?ps] =>
    pose proof (kinds_insert_all a b p c ps) as Hn; destruct (insert_all a b p c ps) as [p1 news] end.
  cbn [fst snd] in Hn.
  pose proof (kinds_after_pay id p1 c (paths_of amt k fees over res) amt mf
                (fun e1 fv1 mf1 => frs rest id e1 (c + Z.of_nat (List.length (paths_of amt k fees over res))) fv1 mf1)
                rest (fun e1 fv1 mf1 => kinds_frs id rest e1 _ fv1 mf1)) as Hap.
  cbv zeta in Hap.
  destruct (after_pay _ _ id p1 c (paths_of amt k fees over res) amt mf) as [evs [[e' outs] rest']].
  cbn [fst snd] in *.
  change (kinds_in K_send (OCreated id :: ORes 0 :: news ++ evs ++ outs))
    with (kinds_in K_send (news ++ evs ++ outs)).
  rewrite kinds_in_app. apply andb_true_iff. split.
  - eapply kinds_in_weaken; [|exact Hn]. kw.
  - eapply kinds_in_weaken; [|exact Hap]. kw.
Qed.

(** ** per operation *)
Definition op_kinds (o : op) : list kind :=
  match o with
  | OpAdd _ _ _ _ _ => [KCreated; KRes; KNew]
  | OpAwait _ _ _ => [KCreated; KRes]
  | OpSend _ _ _ _ _ _ => K_send
  | OpCheckRetry _ => K_frs
  | OpClaim _ _ _ => [KSent; KPathOk; KHit; KPanic]
  | OpFinalize _ => [KPathOk; KPanic]
  | OpFail _ _ _ => [KPathFailed; KProbe; KFailed; KGone; KPanic]
  | OpAbandon _ _ => [KFailed]
  | OpTick => [KFailed; KGone]
  | OpHandle _ => []
  | OpStartup _ => [KCreated]
  end.

Lemma kinds_apply_e al id t st :
  (forall c e, kinds_in al (snd (t c e)) = true) -> kinds_in al (snd (apply_e id t st)) = true.
Proof.
  intros H. unfold apply_e. specialize (H (ctr st) (get id (pm st))).
  destruct (t (ctr st) (get id (pm st))) as [o outs]. exact H.
Qed.

Lemma kinds_apply_each al ids (t : state -> Z -> etrans) :
  (forall st0 i c e, kinds_in al (snd (t st0 i c e)) = true) ->
  forall st, kinds_in al (snd (apply_each ids t st)) = true.
Proof.
  intros H. induction ids as [|i rest IH]; intros st; cbn [apply_each]; [reflexivity|].
  pose proof (kinds_apply_e al i (t st i) st (H st i)) as H1.
  destruct (apply_e i (t st i) st) as [st1 o1]. specialize (IH st1).
  destruct (apply_each rest t st1) as [st2 o2]. cbn [fst snd] in *.
  rewrite kinds_in_app, H1, IH. reflexivity.
Qed.

Lemma kinds_with_htlc al st sp f :
  (forall h, kinds_in al (snd (f h)) = true) -> kinds_in al (snd (with_htlc st sp f)) = true.
Proof. intros H. unfold with_htlc. destruct (get sp (htl st)); [apply H|reflexivity]. Qed.

Theorem step_kinds st o : kinds_in (op_kinds o) (snd (step st o)) = true.
Proof.
  destruct o; cbn [step op_kinds].
  - apply kinds_apply_e. intros. apply kinds_add.
  - apply kinds_apply_e. intros. apply kinds_await.
  - apply kinds_apply_e. intros. apply kinds_send.
  - pose proof (kinds_apply_each K_frs (keys (pm st)) (fun _ i => retry_t (answers_for i answers) i)
                  (fun _ i c e => kinds_retry _ i c e) st) as H1.
    destruct (apply_each (keys (pm st)) _ st) as [st1 o1].
    pose proof (kinds_apply_each K_frs (keys (pm st1)) (fun _ i => retain_t i)
                  (fun _ i c e => kinds_retain_frs i c e) st1) as H2.
    destruct (apply_each (keys (pm st1)) _ st1) as [st2 o2]. cbn [fst snd] in *.
    rewrite kinds_in_app, H1, H2. reflexivity.
  - apply kinds_with_htlc. intros h. apply kinds_apply_e. intros. apply kinds_claim.
  - assert (Hgen : forall acc0 : state * list out, kinds_in [KPathOk; KPanic] (snd acc0) = true ->
               kinds_in [KPathOk; KPanic]
                 (snd (fold_left (fun acc sp => let '(s0, o0) := acc in
                        let '(s1, o1) := with_htlc s0 sp (fun h => apply_e (h_id h) (finalize_t (h_id h) sp) s0) in
                        (s1, o0 ++ o1)) sps acc0)) = true).
    { induction sps as [|sp rest IH]; intros [st0 o0] H0; cbn [fold_left]; [exact H0|].
      pose proof (kinds_with_htlc [KPathOk; KPanic] st0 sp (fun h => apply_e (h_id h) (finalize_t (h_id h) sp) st0)
                    (fun h => kinds_apply_e _ _ _ _ (fun c e => kinds_finalize _ sp c e))) as H1.
      destruct (with_htlc st0 sp _) as [st1 o1]. cbn [fst snd] in *.
      apply IH. cbn [snd]. rewrite kinds_in_app, H0, H1. reflexivity. }
    apply Hgen. reflexivity.
  - apply kinds_with_htlc. intros h. apply kinds_apply_e. intros. apply kinds_fail.
  - apply kinds_apply_e. intros. apply kinds_abandon.
  - apply kinds_apply_each. intros. apply kinds_tick.
  - reflexivity.
  - apply kinds_with_htlc. intros h. apply kinds_apply_e. intros. apply kinds_startup.
Qed.

(** * PaymentSent is truthful at this layer: it is emitted only by [claim_htlc], for the payment id
    the claimed HTLC belongs to, carries the preimage handed to [claim_htlc], the pending payment was
    not Fulfilled before, and the reported amount / fee are the entry's [total_msat] / pending fee *)
Theorem sent_truth st o id pre amt fee :
  In (OEv (EvSent id pre amt fee)) (snd (step st o)) ->
  exists sp oc h p,
    o = OpClaim sp pre oc /\ get sp (htl st) = Some h /\ h_id h = id /\
    get id (pm st) = Some p /\ is_fulfilled p = false /\
    amt = total_msat p /\ fee = get_pending_fee p /\
    exists p', get id (pm (fst (step st o))) = Some p' /\ is_fulfilled p' = true.
Proof.
  intros Hin. pose proof (kinds_in_In _ _ _ (step_kinds st o) Hin) as Hk. cbn [kind_of] in Hk.
  destruct o; cbn in Hk; try discriminate.
  cbn [step] in *. unfold with_htlc in *. destruct (get sp (htl st)) as [h|] eqn:Eh; [|destruct Hin].
  unfold apply_e in *. cbn [fst snd] in *.
  destruct (get (h_id h) (pm st)) as [p|] eqn:Ep; [|destruct Hin].
  exists sp, from_onchain, h, p.
  unfold claim_t in *.
  destruct p as [r a hp parts hh pa pf tot rf|parts hh t tot f|parts hh r tot f|n r].
  - cbn [is_fulfilled mark_fulfilled parts_of payment_hash total_msat get_pending_fee] in *.
    destruct from_onchain.
    + cbn [pm_remove] in *. destruct (mem sp parts); cbn [fst snd app pm] in *;
        (destruct Hin as [Hin|Hin]; [injection Hin as <- <- <- <-|
           repeat (destruct Hin as [Hin|Hin]; try discriminate); destruct Hin]);
        rewrite get_set_eq; repeat split; auto; eexists; split; reflexivity.
    + cbn [fst snd app pm] in *.
      (destruct Hin as [Hin|Hin]; [injection Hin as <- <- <- <-|
           repeat (destruct Hin as [Hin|Hin]; try discriminate); destruct Hin]).
      rewrite get_set_eq; repeat split; auto; eexists; split; reflexivity.
  - exfalso. cbn [is_fulfilled] in Hin. destruct from_onchain.
    + cbn [pm_remove] in Hin. destruct (mem sp parts); cbn [fst snd app] in Hin;
        repeat (destruct Hin as [Hin|Hin]; try discriminate); destruct Hin.
    + cbn [fst snd app] in Hin. repeat (destruct Hin as [Hin|Hin]; try discriminate); destruct Hin.
  - cbn [is_fulfilled mark_fulfilled parts_of payment_hash total_msat get_pending_fee] in *.
    destruct from_onchain.
    + cbn [pm_remove] in *. destruct (mem sp parts); cbn [fst snd app pm] in *;
        (destruct Hin as [Hin|Hin]; [injection Hin as <- <- <- <-|
           repeat (destruct Hin as [Hin|Hin]; try discriminate); destruct Hin]);
        rewrite get_set_eq; repeat split; auto; eexists; split; reflexivity.
    + cbn [fst snd app pm] in *.
      (destruct Hin as [Hin|Hin]; [injection Hin as <- <- <- <-|
           repeat (destruct Hin as [Hin|Hin]; try discriminate); destruct Hin]).
      rewrite get_set_eq; repeat split; auto; eexists; split; reflexivity.
  - exfalso. cbn [fst snd] in Hin. repeat (destruct Hin as [Hin|Hin]; try discriminate); destruct Hin.
Qed.

(** * a second send with a pending payment id is refused and changes nothing *)
Definition same_state (a b : state) : Prop :=
  (forall k, get k (pm a) = get k (pm b)) /\ evq a = evq b /\ ctr a = ctr b /\ htl a = htl b.

Lemma apply_e_noop id (t : etrans) st p r :
  get id (pm st) = Some p -> t (ctr st) (Some p) = (Some p, [ORes r]) ->
  same_state (fst (apply_e id t st)) st /\ snd (apply_e id t st) = [ORes r].
Proof.
  intros Hg Ht. unfold apply_e. rewrite Hg, Ht. cbn [fst snd]. split; [|reflexivity].
  unfold same_state. cbn [pm evq ctr htl events_of news_of count_new flat_map filter List.length app].
  repeat split.
  - intros k. destruct (Z.eq_dec k id) as [->|Hne]; [rewrite get_set_eq; symmetry; exact Hg|apply get_set_neq; exact Hne].
  - apply app_nil_r.
  - cbn. lia.
  - apply app_nil_r.
Qed.

Theorem duplicate_refused st id p :
  get id (pm st) = Some p ->
  (forall hash retry paths mf,
      same_state (fst (step st (OpAdd id hash retry paths mf))) st /\
      snd (step st (OpAdd id hash retry paths mf)) = [ORes 1]) /\
  (forall ticks retry,
      same_state (fst (step st (OpAwait id ticks retry))) st /\
      snd (step st (OpAwait id ticks retry)) = [ORes 1]) /\
  (forall hash retry amt mf k fees over res rest,
      same_state (fst (step st (OpSend id hash retry amt mf (ARoute k fees over res :: rest)))) st /\
      snd (step st (OpSend id hash retry amt mf (ARoute k fees over res :: rest))) = [ORes 1]).
Proof.
  intros Hg. repeat split; intros; cbn [step]; apply (apply_e_noop id _ st p 1 Hg); reflexivity.
Qed.

(** * the two silent removals *)
Lemma tick_t_gone q id c e i w :
  In (OGone i w) (snd (tick_t q id c e)) ->
  i = id /\ w = 0 /\
  exists h t tot f, e = Some (Fulfilled [] h t tot f) /\ IDEMPOTENCY_TIMEOUT_TICKS <= t /\
                    existsb (ev_related id) q = false.
Proof.
  unfold tick_t. destruct e as [p|]; [|intros []].
  destruct p as [r a hp parts h pa pf tot rf|parts h t tot f|parts h r tot f|n r]; try (intros []).
  - destruct (is_nil parts && negb (existsb (ev_related id) q)) eqn:E; [|intros []].
    destruct (Z.leb_spec (t + 1) IDEMPOTENCY_TIMEOUT_TICKS); [intros []|].
    intros [Hin|[]]. injection Hin as <- <-. split; [reflexivity|]. split; [reflexivity|].
    apply andb_true_iff in E as [E1 E2]. apply is_nil_true in E1. apply negb_true_iff in E2. subst parts.
    exists h, t, tot, f. split; [reflexivity|]. split; [lia|exact E2].
  - destruct (0 <? n); [intros []|]. intros [Hin|[]]. discriminate.
Qed.

(** the events a tick pushes are PaymentFailed only, which [remove_stale_payments] does not count
    as related to any payment *)
Lemma tick_t_events q id c e ev : In ev (events_of (snd (tick_t q id c e))) -> forall j, ev_related j ev = false.
Proof.
  unfold tick_t. destruct e as [p|]; [|intros []].
  destruct p as [r a hp parts h pa pf tot rf|parts h t tot f|parts h r tot f|n r]; try (intros []).
  - destruct (is_nil parts && negb (existsb (ev_related id) q)); [|intros []].
    destruct (t + 1 <=? IDEMPOTENCY_TIMEOUT_TICKS); intros [].
  - destruct (0 <? n); [intros []|]. intros [<-|[]] j. reflexivity.
Qed.

Lemma existsb_app_unrelated j (q extra : list event) :
  (forall ev, In ev extra -> ev_related j ev = false) ->
  existsb (ev_related j) (q ++ extra) = existsb (ev_related j) q.
Proof.
  intros H. rewrite existsb_app. destruct (existsb (ev_related j) extra) eqn:E; [|apply orb_false_r].
  apply existsb_exists in E as [ev [Hin Hr]]. rewrite (H ev Hin) in Hr. discriminate.
Qed.

Lemma tick_each_gone_in id w : forall ids st,
  In (OGone id w) (snd (apply_each ids (fun s0 i => tick_t (evq s0) i) st)) -> In id ids.
Proof.
  induction ids as [|i rest IH]; intros st Hin; cbn [apply_each] in Hin; [destruct Hin|].
  destruct (apply_e i (tick_t (evq st) i) st) as [st1 outs1] eqn:Ea.
  destruct (apply_each rest (fun s0 i0 => tick_t (evq s0) i0) st1) as [st2 outs2] eqn:Er.
  cbn [fst snd] in Hin. apply in_app_or in Hin as [Hin|Hin].
  - left. unfold apply_e in Ea.
    destruct (tick_t (evq st) i (ctr st) (get i (pm st))) as [o outs] eqn:Et. injection Ea as _ <-.
    assert (Hin' : In (OGone id w) (snd (tick_t (evq st) i (ctr st) (get i (pm st))))) by (rewrite Et; exact Hin).
    destruct (tick_t_gone _ _ _ _ _ _ Hin') as (E & _). symmetry. exact E.
  - right. apply (IH st1). rewrite Er. exact Hin.
Qed.

Lemma tick_each_gone id w : forall ids st,
  NoDup ids ->
  In (OGone id w) (snd (apply_each ids (fun s0 i => tick_t (evq s0) i) st)) ->
  w = 0 /\ exists h t tot f, get id (pm st) = Some (Fulfilled [] h t tot f) /\ IDEMPOTENCY_TIMEOUT_TICKS <= t /\
                             existsb (ev_related id) (evq st) = false.
Proof.
  induction ids as [|i rest IH]; intros st Hnd Hin; cbn [apply_each] in Hin; [destruct Hin|].
  inversion Hnd as [|? ? Hni Hnd']; subst.
  destruct (apply_e i (tick_t (evq st) i) st) as [st1 outs1] eqn:Ea.
  destruct (apply_each rest (fun s0 i0 => tick_t (evq s0) i0) st1) as [st2 outs2] eqn:Er.
  cbn [fst snd] in Hin. unfold apply_e in Ea.
  destruct (tick_t (evq st) i (ctr st) (get i (pm st))) as [o outs] eqn:Et. injection Ea as <- <-.
  apply in_app_or in Hin as [Hin|Hin].
  - assert (Hin' : In (OGone id w) (snd (tick_t (evq st) i (ctr st) (get i (pm st))))) by (rewrite Et; exact Hin).
    destruct (tick_t_gone _ _ _ _ _ _ Hin') as (-> & -> & h & t & tot & f & He & Ht & Hq).
    split; [reflexivity|]. exists h, t, tot, f. auto.
  - match type of Er with apply_each rest _ ?s1 = _ => set (st1 := s1) in * end.
    assert (Hin' : In (OGone id w) (snd (apply_each rest (fun s0 i0 => tick_t (evq s0) i0) st1))) by (rewrite Er; exact Hin).
    assert (Hne : id <> i).
    { intros ->. apply Hni. apply (tick_each_gone_in i w rest st1 Hin'). }
    destruct (IH st1 Hnd' Hin') as (-> & h & t & tot & f & He & Ht & Hq).
    split; [reflexivity|]. exists h, t, tot, f. subst st1. cbn [pm evq] in *.
    rewrite get_set_neq in He by exact Hne. split; [exact He|]. split; [exact Ht|].
    rewrite existsb_app_unrelated in Hq; [exact Hq|].
    intros ev Hev. apply (tick_t_events (evq st) i (ctr st) (get i (pm st))). rewrite Et. exact Hev.
Qed.

Lemma keys_nodup {A} (m : list (Z * A)) : NoDup (keys m).
Proof. unfold keys. apply NoDup_nodup. Qed.

(** An entry leaves the map silently (without PaymentFailed) only
    - by [remove_stale_payments], when it is Fulfilled, has no HTLC left, no related event is
      pending and it has already counted IDEMPOTENCY_TIMEOUT_TICKS idle ticks, or
    - by [fail_htlc] resolving the last HTLC of a probe. *)
Theorem gone_semantics st o id w :
  In (OGone id w) (snd (step st o)) ->
  (w = 0 /\ o = OpTick /\
   exists h t tot f, get id (pm st) = Some (Fulfilled [] h t tot f) /\ IDEMPOTENCY_TIMEOUT_TICKS <= t /\
                     existsb (ev_related id) (evq st) = false) \/
  (w = 1 /\ exists sp perm, o = OpFail sp perm true).
Proof.
  intros Hin. pose proof (kinds_in_In _ _ _ (step_kinds st o) Hin) as Hk. cbn [kind_of] in Hk.
  destruct o; cbn in Hk; try discriminate.
  - (* fail *) right. cbn [step] in Hin. unfold with_htlc in Hin.
    destruct (get sp (htl st)) as [h|]; [|destruct Hin].
    unfold apply_e in Hin. cbn [fst snd] in Hin.
    destruct (get (h_id h) (pm st)) as [p|]; [|destruct Hin].
    unfold fail_t in Hin. destruct probe.
    + assert (w = 1).
      { destruct p as [r a hp parts hh pa pf tot rf|parts hh t tot f|parts hh r tot f|n r];
          cbn [pm_remove] in Hin; try destruct (mem sp parts); cbn [negb is_fulfilled fst snd orb mark_abandoned parts_of] in Hin;
          try destruct (is_nil (rm sp parts)); destruct perm; cbn [fst snd] in Hin;
          repeat (destruct Hin as [Hin|Hin]; try discriminate; try (injection Hin as <- <-; reflexivity)); destruct Hin. }
      split; [assumption|]. exists sp, perm. reflexivity.
    + exfalso.
      destruct p as [r a hp parts hh pa pf tot rf|parts hh t tot f|parts hh r tot f|n r];
        cbn [pm_remove] in Hin; try destruct (mem sp parts); cbn [negb is_fulfilled fst snd orb] in Hin;
        try (destruct (negb (is_auto_retryable_now _) || perm)); cbn [mark_abandoned parts_of is_auto_retryable_now negb orb] in Hin;
        try destruct (is_nil (rm sp parts)); destruct perm; cbn [fst snd mark_abandoned parts_of] in Hin;
        try destruct (is_nil (rm sp parts));
        repeat (destruct Hin as [Hin|Hin]; try discriminate); try destruct Hin.
  - (* tick *) left. cbn [step] in Hin.
    destruct (tick_each_gone id w (keys (pm st)) st (keys_nodup _) Hin) as (-> & H).
    split; [reflexivity|]. split; [reflexivity|exact H].
Qed.

(** * drained payments terminate *)
Lemma in_keys_get {A} id (m : list (Z * A)) : In id (keys m) <-> get id m <> None.
Proof.
  unfold keys. rewrite nodup_In. induction m as [|[k v] t IH]; cbn [map fst In get].
  - split; [intros []|intros H; apply H; reflexivity].
  - destruct (Z.eqb_spec id k).
    + subst. split; [discriminate|]. intros _. left. reflexivity.
    + rewrite <- IH. split; [intros [H|H]; [congruence|exact H]|intros H; right; exact H].
Qed.

(** [apply_each] with a state- and counter-independent transition, on distinct ids *)
Lemma apply_each_indep (f : Z -> option payment -> option payment * list out) id :
  forall ids st, NoDup ids ->
  let r := apply_each ids (fun _ i _ e => f i e) st in
  (In id ids ->
     get id (pm (fst r)) = fst (f id (get id (pm st))) /\
     (forall o, In o (snd (f id (get id (pm st)))) -> In o (snd r))) /\
  (~ In id ids -> get id (pm (fst r)) = get id (pm st)).
Proof.
  induction ids as [|i rest IH]; intros st Hnd; cbn zeta.
  - cbn [apply_each fst snd]. split; [intros []|reflexivity].
  - inversion Hnd as [|? ? Hni Hnd']; subst. cbn [apply_each]. unfold apply_e.
    destruct (f i (get i (pm st))) as [o outs1] eqn:Ef.
    match goal with |- context [apply_each rest ?t ?s] => set (st1 := s); specialize (IH st1 Hnd');
      destruct (apply_each rest t st1) as [st2 outs2] eqn:Er end.
    cbn zeta in IH. cbn [fst snd] in *. destruct IH as [IH1 IH2].
    assert (Hst1 : forall k, k <> i -> get k (pm st1) = get k (pm st)).
    { intros k Hk. subst st1. cbn [pm]. apply get_set_neq. exact Hk. }
    split.
    + intros [->|Hin].
      * rewrite (IH2 Hni). subst st1. cbn [pm]. rewrite get_set_eq, Ef. cbn [fst snd]. split; [reflexivity|].
        intros o0 Ho. apply in_or_app. left. exact Ho.
      * assert (Hne : id <> i) by (intros ->; contradiction).
        destruct (IH1 Hin) as [Ha Hb]. rewrite (Hst1 id Hne) in Ha, Hb. split; [exact Ha|].
        intros o0 Ho. apply in_or_app. right. apply Hb. exact Ho.
    + intros Hn. assert (Hne : id <> i) by (intros ->; apply Hn; left; reflexivity).
      rewrite IH2 by (intros Hc; apply Hn; right; exact Hc). apply Hst1. exact Hne.
Qed.

Definition retry0 (id : Z) (e : option payment) : option payment * list out := retry_loop 1 [] id e 0.

Lemma retry_t_nil_indep id c e : retry_t [] id c e = retry0 id e.
Proof.
  unfold retry_t, retry0. cbn [List.length retry_loop].
  destruct e as [p|]; [|reflexivity]. destruct p; reflexivity.
Qed.

Lemma retry_nil_each : forall l st,
  apply_each l (fun _ i => retry_t (answers_for i []) i) st = apply_each l (fun _ i _ e => retry0 i e) st.
Proof.
  induction l as [|i rest IH]; intros st; [reflexivity|].
  cbn [apply_each]. unfold apply_e. cbn [answers_for get]. rewrite retry_t_nil_indep.
  destruct (retry0 i (get i (pm st))) as [o outs]. rewrite IH. reflexivity.
Qed.

(** Any state: an entry without HTLCs is Fulfilled (its PaymentSent was emitted), or a pre-HTLC
    entry, or claims by its own accounting that the whole amount is still in flight, or the next
    [check_retry_payments] for which the router finds no route fails it with PaymentFailed and
    removes it. *)
Theorem drained_terminates_any_state st id p :
  get id (pm st) = Some p -> parts_of p = [] ->
  is_fulfilled p = true \/ is_awaiting p = true \/
  (exists r a hp h pa pf tot rf, p = Retryable r a hp [] h pa pf tot rf /\
      is_auto_retryable_now p = true /\ tot <= pa) \/
  (get id (pm (fst (step st (OpCheckRetry [])))) = None /\
   exists h r, In (OEv (EvFailed id h r)) (snd (step st (OpCheckRetry [])))).
Proof.
  intros Hg Hparts.
  destruct p as [r a hp parts h pa pf tot rf|parts h t tot f|parts h r tot f|n r];
    [|left; reflexivity| |right; left; reflexivity].
  - (* Retryable *)
    cbn [parts_of] in Hparts. subst parts.
    destruct (is_auto_retryable_now (Retryable r a hp [] h pa pf tot rf)) eqn:Eauto.
    + destruct (Z.ltb_spec pa tot) as [Hlt|Hge].
      * right. right. right. cbn [step].
        assert (Hin : In id (keys (pm st))) by (apply in_keys_get; rewrite Hg; discriminate).
        pose proof (apply_each_indep retry0 id (keys (pm st)) st (keys_nodup _)) as H1. cbn zeta in H1.
        rewrite retry_nil_each. destruct (apply_each (keys (pm st)) (fun _ i _ e => retry0 i e) st) as [st1 o1].
        cbn [fst snd] in H1. destruct H1 as [H1 _]. destruct (H1 Hin) as [Ha Hb]. rewrite Hg in Ha, Hb.
        unfold retry0 in Ha, Hb. cbn [retry_loop] in Ha, Hb. rewrite Eauto in Ha, Hb.
        destruct (Z.ltb_spec pa tot); [|lia]. cbn [andb frs abandon_t mark_abandoned is_nil fst snd app] in Ha, Hb.
        pose proof (apply_each_indep (fun i e => retain_t i 0 e) id (keys (pm st1)) st1 (keys_nodup _)) as H2.
        cbn zeta in H2.
        assert (Heq2 : apply_each (keys (pm st1)) (fun _ i => retain_t i) st1 =
                       apply_each (keys (pm st1)) (fun _ i _ e => retain_t i 0 e) st1) by reflexivity.
        rewrite Heq2. destruct (apply_each (keys (pm st1)) (fun _ i _ e => retain_t i 0 e) st1) as [st2 o2].
        cbn [fst snd] in *. destruct H2 as [_ H2].
        assert (Hnin : ~ In id (keys (pm st1))) by (rewrite in_keys_get, Ha; intros Hc; apply Hc; reflexivity).
        split; [rewrite (H2 Hnin); exact Ha|].
        exists (Some h), (Some R_RouteNotFound). apply in_or_app. left. apply Hb. left. reflexivity.
      * right. right. left. exists r, a, hp, h, pa, pf, tot, rf. auto.
    + right. right. right. cbn [step].
      assert (Hin : In id (keys (pm st))) by (apply in_keys_get; rewrite Hg; discriminate).
      pose proof (apply_each_indep retry0 id (keys (pm st)) st (keys_nodup _)) as H1. cbn zeta in H1.
      rewrite retry_nil_each. destruct (apply_each (keys (pm st)) (fun _ i _ e => retry0 i e) st) as [st1 o1].
      cbn [fst snd] in H1. destruct H1 as [H1 _]. destruct (H1 Hin) as [Ha Hb]. rewrite Hg in Ha, Hb.
      unfold retry0 in Ha, Hb. cbn [retry_loop] in Ha, Hb. rewrite Eauto in Ha, Hb.
      cbn [andb fst snd] in Ha, Hb.
      pose proof (apply_each_indep (fun i e => retain_t i 0 e) id (keys (pm st1)) st1 (keys_nodup _)) as H2.
      cbn zeta in H2.
      assert (Heq2 : apply_each (keys (pm st1)) (fun _ i => retain_t i) st1 =
                     apply_each (keys (pm st1)) (fun _ i _ e => retain_t i 0 e) st1) by reflexivity.
      rewrite Heq2. destruct (apply_each (keys (pm st1)) (fun _ i _ e => retain_t i 0 e) st1) as [st2 o2].
      cbn [fst snd] in *. destruct H2 as [H2 _].
      assert (Hin1 : In id (keys (pm st1))) by (apply in_keys_get; rewrite Ha; discriminate).
      destruct (H2 Hin1) as [Hc Hd]. rewrite Ha in Hc, Hd.
      unfold retain_t in Hc, Hd. rewrite Eauto in Hc, Hd.
      cbn [negb parts_of is_nil is_awaiting andb mark_abandoned fst snd] in Hc, Hd.
      split; [exact Hc|]. exists (Some h), (Some R_RetriesExhausted). apply in_or_app. right. apply Hd. left. reflexivity.
  - (* Abandoned with no parts: the retain pass reports and removes it *)
    cbn [parts_of] in Hparts. subst parts. right. right. right. cbn [step].
    assert (Hin : In id (keys (pm st))) by (apply in_keys_get; rewrite Hg; discriminate).
    pose proof (apply_each_indep retry0 id (keys (pm st)) st (keys_nodup _)) as H1. cbn zeta in H1.
    rewrite retry_nil_each. destruct (apply_each (keys (pm st)) (fun _ i _ e => retry0 i e) st) as [st1 o1].
    cbn [fst snd] in H1. destruct H1 as [H1 _]. destruct (H1 Hin) as [Ha Hb]. rewrite Hg in Ha, Hb.
    unfold retry0 in Ha, Hb. cbn [retry_loop fst snd] in Ha, Hb.
    pose proof (apply_each_indep (fun i e => retain_t i 0 e) id (keys (pm st1)) st1 (keys_nodup _)) as H2.
    cbn zeta in H2.
    assert (Heq2 : apply_each (keys (pm st1)) (fun _ i => retain_t i) st1 =
                   apply_each (keys (pm st1)) (fun _ i _ e => retain_t i 0 e) st1) by reflexivity.
    rewrite Heq2. destruct (apply_each (keys (pm st1)) (fun _ i _ e => retain_t i 0 e) st1) as [st2 o2].
    cbn [fst snd] in *. destruct H2 as [H2 _].
    assert (Hin1 : In id (keys (pm st1))) by (apply in_keys_get; rewrite Ha; discriminate).
    destruct (H2 Hin1) as [Hc Hd]. rewrite Ha in Hc, Hd.
    unfold retain_t in Hc, Hd.
    cbn [is_auto_retryable_now negb parts_of is_nil is_awaiting andb mark_abandoned fst snd] in Hc, Hd.
    split; [exact Hc|]. exists (Some h), r. apply in_or_app. right. apply Hd. left. reflexivity.
Qed.
