(** C06, fee adequacy of re-issued justice claims: statements about the rs2v-generated
    [feerate_bump] / [compute_fee_from_spent_amounts] of [Gen/Package.v] (regenerated from
    lightning/src/chain/package.rs on every run), and a small timeline model of one claim. *)
Require Import LdkV.Prim.U64 LdkV.Prim.Rs2vLib LdkV.Gen.Consts LdkV.Gen.Package.
Open Scope Z_scope.

(** what the estimator asks for the claim's confirmation target, capped by what half of the
    claimed value pays for: the feerate [compute_fee_from_spent_amounts] settles on *)
Definition capped_estimate (amt w sweep : Z) : Z :=
  Z.min sweep (compute_feerate_sat_per_1000_weight (amt / 2) w).

Lemma div_mono a b c : 0 < c -> a <= b -> a / c <= b / c.
Proof. intros. apply Z.div_le_mono; lia. Qed.

(** When the (capped) fresh estimate exceeds the previous feerate, a bump -- [ForceBump] on a timer
    tick, [HighestOfPreviousOrNew] on a new block -- pays AT LEAST the fee that estimate asks for
    this weight: it follows the fee market however far it moved, not merely previous + 25 %. *)
Lemma bump_follows_estimate w amt dust p strat sweep fee' rate' :
  0 < w -> 0 <= p ->
  strat <> FeerateStrategy_RetryPrevious ->
  feerate_bump w amt dust p strat sweep = Some (fee', rate') ->
  p < capped_estimate amt w sweep ->
  capped_estimate amt w sweep * w / 1000 <= fee'.
Proof.
  intros Hw Hp Hst Hb Hlt. unfold feerate_bump, compute_fee_from_spent_amounts in Hb.
  fold (capped_estimate amt w sweep) in Hb. set (e := capped_estimate amt w sweep) in *.
  cbv zeta in Hb. destruct (e <? FEERATE_FLOOR_SATS_PER_KW); [discriminate|].
  destruct strat; [contradiction| |];
    (destruct (Z.ltb_spec p e) as [_|Hge]; [|lia]);
    (destruct (Z.eqb_spec e p) as [E|_]; [lia|]);
    cbv zeta in Hb;
    match type of Hb with (if ?c then _ else _) = _ => destruct c; [discriminate|] end;
    injection Hb as <- _; lia.
Qed.

(** and it never pays less than the previous broadcast did *)
Lemma bump_never_lowers_fee w amt dust p strat sweep fee' rate' :
  0 < w -> 0 <= p ->
  feerate_bump w amt dust p strat sweep = Some (fee', rate') ->
  p * w / 1000 <= fee'.
Proof.
  intros Hw Hp Hb. unfold feerate_bump, compute_fee_from_spent_amounts in Hb.
  fold (capped_estimate amt w sweep) in Hb. set (e := capped_estimate amt w sweep) in *.
  cbv zeta in Hb. destruct (e <? FEERATE_FLOOR_SATS_PER_KW); [discriminate|].
  assert (Hq : 0 <= p / 4) by (apply Z.div_pos; lia).
  assert (Hm : p * w / 1000 <= (p + p / 4) * w / 1000).
  { apply div_mono; [lia|]. apply Z.mul_le_mono_nonneg_r; lia. }
  assert (Hrel : 0 <= INCREMENTAL_RELAY_FEE_SAT_PER_1000_WEIGHT * w / 1000)
    by (apply Z.div_pos; [unfold INCREMENTAL_RELAY_FEE_SAT_PER_1000_WEIGHT; lia|lia]).
  set (A := p * w / 1000) in *. set (B := (p + p / 4) * w / 1000) in *.
  set (R := INCREMENTAL_RELAY_FEE_SAT_PER_1000_WEIGHT * w / 1000) in *. set (E := e * w / 1000) in *.
  destruct strat.
  - rewrite Z.eqb_refl in Hb. injection Hb as <- _. lia.
  - destruct (Z.ltb_spec p e).
    + destruct (Z.eqb_spec e p); [lia|]. cbv zeta in Hb.
      match type of Hb with (if ?c then _ else _) = _ => destruct c; [discriminate|] end.
      injection Hb as <- _. apply Z.le_trans with (A + R); [lia|apply Z.le_max_r].
    + rewrite Z.eqb_refl in Hb. injection Hb as <- _. lia.
  - destruct (Z.ltb_spec p e).
    + destruct (Z.eqb_spec e p); [lia|]. cbv zeta in Hb.
      match type of Hb with (if ?c then _ else _) = _ => destruct c; [discriminate|] end.
      injection Hb as <- _. apply Z.le_trans with (A + R); [lia|apply Z.le_max_r].
    + cbv zeta in Hb. destruct (Z.eqb_spec (p + p / 4) p).
      * injection Hb as <- _. exact Hm.
      * cbv zeta in Hb.
        match type of Hb with (if ?c then _ else _) = _ => destruct c; [discriminate|] end.
        injection Hb as <- _. apply Z.le_trans with (A + R); [lia|apply Z.le_max_r].
Qed.

(* ------------------------------------------------------------------------------------------ *)
(** * One claim over time ([OnchainTxHandler]: a pending claim is re-generated with [ForceBump]
      whenever the chain reaches its height timer; the timer is then set anew)

    [est h]: the (floored) estimate at height [h]; [timer h]: the next timer chosen at height [h]
    ([get_height_timer]); premise: it lies within [LOW_FREQUENCY_BUMP_INTERVAL] blocks (C07 proves
    this of the generated [get_height_timer]: Proofs/C07Fee.v [height_timer_spec]). *)
Section Timeline.
  Variables (w amt dust : Z) (est timer : Z -> Z).
  Hypothesis Hw : 0 < w.
  Hypothesis timer_soon : forall h, h < timer h <= h + LOW_FREQUENCY_BUMP_INTERVAL.

  Record claim : Type := mkClaim { c_rate : Z; c_fee : Z; c_timer : Z; c_last : Z (* height of the last broadcast *) }.

  (** a block at height [h] is connected while the claim is unconfirmed *)
  Definition on_block (c : claim) (h : Z) : claim * option (Z * Z) :=
    if c_timer c <=? h then
      match feerate_bump w amt dust (c_rate c) FeerateStrategy_ForceBump (est h) with
      | Some (f, r) => (mkClaim r f (timer h) h, Some (f, r))
      | None => (mkClaim (c_rate c) (c_fee c) (timer h) (c_last c), None)   (* cannot afford a bump *)
      end
    else (c, None).

  (** heights [h0+1 .. h0+n] in order; the log holds (height, fee, rate) of every re-broadcast *)
  Fixpoint run_blocks (c : claim) (h0 : Z) (n : nat) : claim * list (Z * Z * Z) :=
    match n with
    | O => (c, [])
    | S k =>
        let '(c1, log) := run_blocks c h0 k in
        let h := h0 + Z.of_nat (S k) in
        match on_block c1 h with
        | (c2, Some (f, r)) => (c2, log ++ [(h, f, r)])
        | (c2, None) => (c2, log)
        end
    end.

  Definition affordable (c : claim) (h : Z) : Prop :=
    feerate_bump w amt dust (c_rate c) FeerateStrategy_ForceBump (est h) <> None.

  (** While bumps stay affordable: after every block the timer is in the future and at most
      [LOW_FREQUENCY_BUMP_INTERVAL] blocks after the last broadcast -- the claim is re-issued at least
      that often until it is buried --; every re-issue pays at least the previous fee, and at least
      what the capped estimate of that height asks whenever that exceeds the previous feerate. *)
  Lemma bumped_until_buried c0 h0 : 0 <= c_rate c0 ->
    h0 < c_timer c0 <= c_last c0 + LOW_FREQUENCY_BUMP_INTERVAL -> c_last c0 <= h0 ->
    forall n : nat,
    (forall k : nat, (k < n)%nat -> forall c, affordable c (h0 + Z.of_nat (S k))) ->
    let '(c, log) := run_blocks c0 h0 n in
    0 <= c_rate c /\
    h0 + Z.of_nat n < c_timer c <= c_last c + LOW_FREQUENCY_BUMP_INTERVAL /\ c_last c <= h0 + Z.of_nat n /\
    forall pre h f r post, log = pre ++ (h, f, r) :: post ->
      let prev := match rev pre with [] => (c_rate c0, c_fee c0) | (_, f', r') :: _ => (r', f') end in
      fst prev * w / 1000 <= f /\
      (fst prev < capped_estimate amt w (est h) -> capped_estimate amt w (est h) * w / 1000 <= f).
  Proof.
    intros Hr0 Ht0 Hl0. induction n as [|k IH]; intros Haff.
    - cbn [run_blocks]. rewrite Z.add_0_r. split; [lia|]. split; [lia|]. split; [lia|].
      intros pre h f r post E. destruct pre; discriminate.
    - cbn [run_blocks]. specialize (IH ltac:(intros j Hj; apply Haff; lia)).
      destruct (run_blocks c0 h0 k) as [c1 log] eqn:Erun.
      destruct IH as (Hr1 & Ht1 & Hl1 & Hlog).
      set (h := h0 + Z.of_nat (S k)). unfold on_block.
      assert (Hh : h = h0 + Z.of_nat k + 1) by (unfold h; lia).
      destruct (Z.leb_spec (c_timer c1) h) as [Hdue|Hnot].
      + pose proof (Haff k ltac:(lia) c1) as Ha. unfold affordable in Ha. fold h in Ha.
        destruct (feerate_bump w amt dust (c_rate c1) FeerateStrategy_ForceBump (est h)) as [[f r]|] eqn:Eb;
          [|contradiction].
        pose proof (timer_soon h) as Hts. cbn [c_rate c_timer c_last].
        assert (Hrate : log = [] -> (c_rate c1, c_fee c1) = (c_rate c0, c_fee c0)).
        { clear - Erun. revert c1 log Erun. induction k as [|j IHj]; intros c1 log Erun Hnil.
          - cbn in Erun. injection Erun as <- _. reflexivity.
          - cbn [run_blocks] in Erun. destruct (run_blocks c0 h0 j) as [cj lj] eqn:Ej.
            unfold on_block in Erun. destruct (c_timer cj <=? h0 + Z.of_nat (S j)).
            + destruct (feerate_bump w amt dust (c_rate cj) FeerateStrategy_ForceBump (est (h0 + Z.of_nat (S j)))) as [[f r]|].
              * injection Erun as <- <-. destruct lj; discriminate.
              * injection Erun as <- <-. cbn. apply (IHj cj lj eq_refl Hnil).
            + injection Erun as <- <-. apply (IHj cj lj eq_refl Hnil). }
        assert (Hlast : forall pre' h' f' r', log = pre' ++ [(h', f', r')] -> (c_rate c1, c_fee c1) = (r', f')).
        { clear - Erun. revert c1 log Erun. induction k as [|j IHj]; intros c1 log Erun pre' h' f' r' E.
          - cbn in Erun. injection Erun as _ <-. destruct pre'; discriminate.
          - cbn [run_blocks] in Erun. destruct (run_blocks c0 h0 j) as [cj lj] eqn:Ej.
            unfold on_block in Erun. destruct (c_timer cj <=? h0 + Z.of_nat (S j)).
            + destruct (feerate_bump w amt dust (c_rate cj) FeerateStrategy_ForceBump (est (h0 + Z.of_nat (S j)))) as [[f r]|].
              * injection Erun as <- <-. apply app_inj_tail in E. destruct E as [_ E]. injection E as _ <- <-. reflexivity.
              * injection Erun as <- <-. cbn. apply (IHj cj lj eq_refl pre' h' f' r' E).
            + injection Erun as <- <-. apply (IHj cj lj eq_refl pre' h' f' r' E). }
        pose proof (bump_never_lowers_fee _ _ _ _ _ _ _ _ Hw Hr1 Eb) as Hnl.
        assert (Hr2 : 0 <= r).
        { unfold feerate_bump in Eb. destruct (compute_fee_from_spent_amounts amt w (est h)) as [[nf nr]|] eqn:Ec; [|discriminate].
          unfold compute_fee_from_spent_amounts in Ec. cbv zeta in Ec.
          destruct (Z.ltb_spec (Z.min (est h) (compute_feerate_sat_per_1000_weight (amt / 2) w)) FEERATE_FLOOR_SATS_PER_KW); [discriminate|].
          injection Ec as <- <-. unfold FEERATE_FLOOR_SATS_PER_KW in *.
          cbv zeta in Eb. destruct (Z.ltb_spec (c_rate c1) (Z.min (est h) (compute_feerate_sat_per_1000_weight (amt / 2) w))).
          - destruct (Z.eqb_spec (Z.min (est h) (compute_feerate_sat_per_1000_weight (amt / 2) w)) (c_rate c1)); [lia|].
            cbv zeta in Eb. match type of Eb with (if ?c then _ else _) = _ => destruct c; [discriminate|] end.
            injection Eb as _ <-. apply Z.div_pos; [|lia]. apply Z.mul_nonneg_nonneg; lia.
          - cbv zeta in Eb. assert (0 <= c_rate c1 / 4) by (apply Z.div_pos; lia).
            destruct (Z.eqb_spec (c_rate c1 + c_rate c1 / 4) (c_rate c1)).
            + injection Eb as _ <-. lia.
            + cbv zeta in Eb. match type of Eb with (if ?c then _ else _) = _ => destruct c; [discriminate|] end.
              injection Eb as _ <-. apply Z.div_pos; [|lia]. apply Z.mul_nonneg_nonneg; [|lia].
              assert (0 <= (c_rate c1 + c_rate c1 / 4) * w / 1000) by (apply Z.div_pos; nia).
              assert (0 <= c_rate c1 * w / 1000) by (apply Z.div_pos; nia).
              assert (0 <= INCREMENTAL_RELAY_FEE_SAT_PER_1000_WEIGHT * w / 1000) by (apply Z.div_pos; unfold INCREMENTAL_RELAY_FEE_SAT_PER_1000_WEIGHT; nia).
              lia. }
        split; [exact Hr2|]. split; [unfold h in *; lia|]. split; [unfold h; lia|].
        intros pre h' f' r' post E.
        destruct post as [|x post] using rev_ind.
        * apply app_inj_tail in E. destruct E as [<- E]. injection E as <- <- <-.
          assert (Eprev : match rev log with [] => (c_rate c0, c_fee c0) | (_, f'0, r'0) :: _ => (r'0, f'0) end = (c_rate c1, c_fee c1)).
          { destruct log as [|y log'] using rev_ind.
            - cbn. symmetry. apply Hrate. reflexivity.
            - rewrite rev_app_distr. cbn. destruct y as [[hy fy] ry].
              symmetry. apply (Hlast log' hy fy ry eq_refl). }
          cbv zeta. rewrite Eprev. cbn [fst]. split; [exact Hnl|].
          intros Hlt. apply (bump_follows_estimate w amt dust (c_rate c1) FeerateStrategy_ForceBump (est h) f r); try assumption.
          discriminate.
        * clear IHpost. rewrite app_comm_cons, app_assoc in E. apply app_inj_tail in E. destruct E as [E _].
          apply (Hlog pre h' f' r' post E).
      + split; [exact Hr1|]. split; [unfold h in *; lia|]. split; [unfold h; lia|]. exact Hlog.
  Qed.
End Timeline.
