(** C17 — basic lemmas about the gossip model: node bookkeeping, the node/channel
    cross-reference invariant [wf] and its preservation by every operation. *)
From stdpp Require Import gmap.
From Coq Require Import ZArith String.
Require Import LdkV.Gen.GossipConsts LdkV.Model.Gossip LdkV.Model.GossipSpec.
Open Scope Z_scope.

(** ** [rm_one] *)
Lemma rm_one_lookup nodes nid scid nid' :
  rm_one nodes nid scid !! nid' =
  if decide (nid' = nid) then node_without (nodes !! nid) scid else nodes !! nid'.
Proof.
  unfold rm_one, node_without. destruct (nodes !! nid) as [n|] eqn:Hn.
  - destruct (filter _ (n_chans n)) as [|x l] eqn:Hf.
    + destruct (decide (nid' = nid)) as [->|Hne].
      * by rewrite lookup_delete.
      * by rewrite lookup_delete_ne.
    + destruct (decide (nid' = nid)) as [->|Hne].
      * by rewrite lookup_insert.
      * by rewrite lookup_insert_ne.
  - destruct (decide (nid' = nid)) as [->|Hne]; done.
Qed.

Lemma node_without_Some o scid n' :
  node_without o scid = Some n' ↔
  ∃ n, o = Some n ∧ n' = Node (filter (λ s, s ≠ scid) (n_chans n)) (n_ann n)
       ∧ filter (λ s, s ≠ scid) (n_chans n) ≠ [].
Proof.
  unfold node_without. destruct o as [n|].
  - destruct (filter _ (n_chans n)) as [|x l] eqn:Hf.
    + split; [done|]. intros (n0 & [= <-] & _ & Hne). by rewrite Hf in Hne.
    + split.
      * intros [= <-]. exists n. rewrite Hf. done.
      * intros (n0 & [= <-] & -> & _). by rewrite Hf.
  - split; [done|]. by intros (n0 & ? & _).
Qed.

Lemma rm_one_lists nodes nid scid nid' scid' :
  lists (rm_one nodes nid scid) nid' scid' ↔
  lists nodes nid' scid' ∧ ¬ (nid' = nid ∧ scid' = scid).
Proof.
  unfold lists. rewrite rm_one_lookup. destruct (decide (nid' = nid)) as [->|Hne].
  - split.
    + intros (n' & Hn' & Hin). apply node_without_Some in Hn' as (n & Hn & -> & Hnn).
      simpl in Hin. apply elem_of_list_filter in Hin as [Hs Hin].
      split; [by exists n|]. intros [_ ?]. done.
    + intros [(n & Hn & Hin) Hnot].
      assert (scid' ≠ scid) as Hs by (intros ->; by apply Hnot).
      assert (scid' ∈ filter (λ s, s ≠ scid) (n_chans n)) as Hf
        by (apply elem_of_list_filter; done).
      exists (Node (filter (λ s, s ≠ scid) (n_chans n)) (n_ann n)). split; [|done].
      apply node_without_Some. exists n. split_and!; [done..|].
      intros Hnil. rewrite Hnil in Hf. by apply elem_of_nil in Hf.
  - split.
    + intros (n & ? & ?). split; [by exists n|]. by intros [? _].
    + intros [(n & ? & ?) _]. by exists n.
Qed.

Lemma rm_one_nodes_ok nodes nid scid : nodes_ok nodes → nodes_ok (rm_one nodes nid scid).
Proof.
  intros Hok nid' n'. rewrite rm_one_lookup. destruct (decide (nid' = nid)) as [->|Hne].
  - intros (n & Hn & -> & Hnn)%node_without_Some. simpl. split; [done|].
    apply NoDup_filter. by apply (Hok _ _ Hn).
  - apply Hok.
Qed.

Lemma rm_one_ann nodes nid scid nid' n' :
  rm_one nodes nid scid !! nid' = Some n' →
  ∃ n, nodes !! nid' = Some n ∧ n_ann n' = n_ann n.
Proof.
  rewrite rm_one_lookup. destruct (decide (nid' = nid)) as [->|Hne].
  - intros (n & Hn & -> & _)%node_without_Some. by exists n.
  - intros ?. by exists n'.
Qed.

(** ** [push_node] *)
Definition push_res (o : option node) (scid : Z) : node :=
  match o with
  | Some n => Node (n_chans n ++ [scid]) (n_ann n)
  | None => Node [scid] None
  end.

Lemma push_node_lookup nodes nid scid nid' :
  push_node nodes nid scid !! nid' =
  if decide (nid' = nid) then Some (push_res (nodes !! nid) scid) else nodes !! nid'.
Proof.
  unfold push_node, push_res. destruct (nodes !! nid) as [n|] eqn:Hn;
    (destruct (decide (nid' = nid)) as [->|Hne];
     [by rewrite lookup_insert | by rewrite lookup_insert_ne]).
Qed.

Lemma push_node_lists nodes nid scid nid' scid' :
  lists (push_node nodes nid scid) nid' scid' ↔
  lists nodes nid' scid' ∨ (nid' = nid ∧ scid' = scid).
Proof.
  unfold lists. rewrite push_node_lookup. destruct (decide (nid' = nid)) as [->|Hne].
  - unfold push_res. destruct (nodes !! nid) as [n|] eqn:Hn.
    + split.
      * intros (n' & [= <-] & Hin). simpl in Hin. apply elem_of_app in Hin as [Hin|Hin].
        -- left. by exists n.
        -- apply elem_of_list_singleton in Hin. by right.
      * intros [(n0 & [= <-] & Hin)|[_ ->]]; eexists; (split; [done|]); simpl;
          apply elem_of_app; [by left|right; by apply elem_of_list_singleton].
    + split.
      * intros (n' & [= <-] & Hin). simpl in Hin. apply elem_of_list_singleton in Hin. by right.
      * intros [(n0 & ? & _)|[_ ->]]; [done|]. eexists. split; [done|]. simpl.
        by apply elem_of_list_singleton.
  - split.
    + intros (n & ? & ?). left. by exists n.
    + intros [(n & ? & ?)|[? _]]; [by exists n|done].
Qed.

Lemma push_node_nodes_ok nodes nid scid :
  nodes_ok nodes → ¬ lists nodes nid scid → nodes_ok (push_node nodes nid scid).
Proof.
  intros Hok Hnl nid' n'. rewrite push_node_lookup. destruct (decide (nid' = nid)) as [->|Hne].
  - intros [= <-]. unfold push_res. destruct (nodes !! nid) as [n|] eqn:Hn; simpl.
    + split; [by destruct (n_chans n)|]. apply NoDup_app. split_and!.
      * by apply (Hok _ _ Hn).
      * intros x Hx Hx'. apply elem_of_list_singleton in Hx' as ->. apply Hnl. by exists n.
      * apply NoDup_singleton.
    + split; [done|apply NoDup_singleton].
  - apply Hok.
Qed.

Lemma push_node_ann nodes nid scid nid' n' :
  push_node nodes nid scid !! nid' = Some n' →
  n_ann n' = match nodes !! nid' with Some n => n_ann n | None => None end.
Proof.
  rewrite push_node_lookup. destruct (decide (nid' = nid)) as [->|Hne].
  - intros [= <-]. unfold push_res. by destruct (nodes !! nid).
  - by intros ->.
Qed.

(** ** [ends] under map operations *)
Lemma ends_insert chans scid c scid' nid :
  ends (<[scid := c]> chans) scid' nid ↔
  (scid' = scid ∧ (c_one c = nid ∨ c_two c = nid)) ∨ (scid' ≠ scid ∧ ends chans scid' nid).
Proof.
  unfold ends. destruct (decide (scid' = scid)) as [->|Hne].
  - rewrite lookup_insert. split.
    + intros (c' & [= <-] & H). by left.
    + intros [[_ H]|[? _]]; [|done]. by exists c.
  - rewrite lookup_insert_ne by done. split.
    + intros H. by right.
    + intros [[? _]|[_ H]]; done.
Qed.

Lemma ends_delete chans scid scid' nid :
  ends (delete scid chans) scid' nid ↔ scid' ≠ scid ∧ ends chans scid' nid.
Proof.
  unfold ends. split.
  - intros (c & [Hne Hc]%lookup_delete_Some & H). split; [done|]. by exists c.
  - intros [Hne (c & Hc & H)]. exists c. split; [|done]. apply lookup_delete_Some. done.
Qed.

(** ** Preservation of [wf'] by the building blocks *)
Lemma wf_remove chans nodes scid c :
  wf' chans nodes → chans !! scid = Some c →
  wf' (delete scid chans) (remove_in_nodes nodes c scid).
Proof.
  intros [Hs Hn Hx] Hc. split.
  - intros scid' c' [_ ?]%lookup_delete_Some. by eapply Hs.
  - unfold remove_in_nodes. by do 2 apply rm_one_nodes_ok.
  - intros nid' scid'. unfold remove_in_nodes. rewrite !rm_one_lists, ends_delete, Hx.
    split.
    + intros [[He H1] H2]. split; [|done]. intros ->.
      destruct He as (c' & Hc' & Hor). rewrite Hc in Hc'. injection Hc' as <-.
      destruct Hor as [<- | <-]; [apply H1|apply H2]; done.
    + intros [Hne He]. split_and!; [done|..]; intros [_ ?]; done.
Qed.

Lemma wf_add chans nodes scid ci :
  wf' chans nodes → chans !! scid = None → c_one ci < c_two ci →
  wf' (<[scid := ci]> chans) (push_node (push_node nodes (c_one ci) scid) (c_two ci) scid).
Proof.
  intros [Hs Hn Hx] Hc Hlt.
  assert (∀ nid, ¬ lists nodes nid scid) as Hnl.
  { intros nid (c & Hc' & _)%Hx. by rewrite Hc in Hc'. }
  split.
  - intros scid' c' [[<- <-]|[_ ?]]%lookup_insert_Some; [done|by eapply Hs].
  - apply push_node_nodes_ok; [apply push_node_nodes_ok; [done|apply Hnl]|].
    rewrite push_node_lists. intros [H|[H _]]; [by eapply Hnl|lia].
  - intros nid' scid'. rewrite !push_node_lists, ends_insert, Hx. split.
    + intros [[He|[-> ->]]|[-> ->]].
      * right. split; [|done]. intros ->. destruct He as (c & Hc' & _). by rewrite Hc in Hc'.
      * left. split; [done|by left].
      * left. split; [done|by right].
    + intros [[-> [<- | <-]]|[_ He]]; [left; by right|by right|left; by left].
Qed.

Lemma wf_chan_update chans nodes scid c c' :
  wf' chans nodes → chans !! scid = Some c → c_one c' = c_one c → c_two c' = c_two c →
  wf' (<[scid := c']> chans) nodes.
Proof.
  intros [Hs Hn Hx] Hc H1 H2. split.
  - intros scid' c'' [[<- <-]|[_ ?]]%lookup_insert_Some; [rewrite H1, H2; by eapply Hs|by eapply Hs].
  - done.
  - intros nid' scid'. rewrite Hx, ends_insert. split.
    + intros He. destruct (decide (scid' = scid)) as [->|Hne]; [left|by right].
      split; [done|]. destruct He as (c0 & Hc0 & Hor). rewrite Hc in Hc0. injection Hc0 as <-.
      by rewrite H1, H2.
    + intros [[-> Hor]|[_ He]]; [|done]. exists c. split; [done|]. by rewrite <-H1, <-H2.
Qed.

Lemma wf_node_update chans nodes nid n a :
  wf' chans nodes → nodes !! nid = Some n →
  wf' chans (<[nid := Node (n_chans n) a]> nodes).
Proof.
  intros [Hs Hn Hx] Hnid. split; [done|..].
  - intros nid' n' [[<- <-]|[_ ?]]%lookup_insert_Some; [by apply (Hn _ _ Hnid)|by eapply Hn].
  - intros nid' scid'. rewrite <-Hx. unfold lists. destruct (decide (nid' = nid)) as [->|Hne].
    + rewrite lookup_insert, Hnid. split; intros (n0 & [= <-] & ?); eexists; done.
    + by rewrite lookup_insert_ne.
Qed.

Lemma wf_fmap chans nodes (f : chan → chan) :
  (∀ c, c_one (f c) = c_one c ∧ c_two (f c) = c_two c) →
  wf' chans nodes → wf' (f <$> chans) nodes.
Proof.
  intros Hf [Hs Hn Hx]. split; [|done|].
  - intros scid c'. rewrite lookup_fmap. destruct (chans !! scid) as [c|] eqn:Hc; [|done].
    intros [= <-]. destruct (Hf c) as [-> ->]. by eapply Hs.
  - intros nid scid. rewrite Hx. unfold ends. rewrite lookup_fmap. split.
    + intros (c & -> & Hor). exists (f c). split; [done|]. by destruct (Hf c) as [-> ->].
    + intros (c' & Hc' & Hor). destruct (chans !! scid) as [c|]; [|done]. injection Hc' as <-.
      exists c. split; [done|]. by destruct (Hf c) as [<- <-].
Qed.

(** ** [remove_channel], [add_chan] *)
Lemma remove_channel_wf g scid now : wf g → wf (remove_channel g scid now).
Proof.
  unfold wf, remove_channel. intros Hwf. destruct (g_chans g !! scid) as [c|] eqn:Hc; [|done].
  simpl. by apply wf_remove.
Qed.

Lemma foldl_remove_channel_wf g l now :
  wf g → wf (foldl (λ g scid, remove_channel g scid now) g l).
Proof. revert g. induction l as [|x l IH]; intros g Hwf; [done|]. simpl. apply IH. by apply remove_channel_wf. Qed.

Lemma add_chan_wf g scid ci us r g' :
  wf g → c_one ci < c_two ci → add_chan g scid ci us = (r, g') → wf g'.
Proof.
  unfold wf, add_chan. intros Hwf Hlt. destruct (g_chans g !! scid) as [old|] eqn:Hc.
  - destruct us; intros [= <- <-]; [|done]. simpl.
    rewrite <-insert_delete_insert. apply wf_add; [by apply wf_remove|apply lookup_delete|done].
  - intros [= <- <-]. simpl. by apply wf_add.
Qed.

(** ** [fail_node] *)
Lemma fail_node_wf g nid now : wf g → wf (fail_node g nid now).
Proof.
  unfold wf, fail_node. intros Hwf. destruct (g_nodes g !! nid) as [n|] eqn:Hn; [|done]. simpl.
  (* loop invariant *)
  set (I := λ (rest : list Z) (g' : graph),
    g_nodes g' !! nid = None ∧
    (∀ scid c, g_chans g' !! scid = Some c → c_one c < c_two c) ∧
    nodes_ok (g_nodes g') ∧ NoDup rest ∧
    (∀ nid' scid, lists (g_nodes g') nid' scid ∨ (nid' = nid ∧ scid ∈ rest)
                  ↔ ends (g_chans g') scid nid')).
  assert (∀ rest g', I rest g' → I [] (foldl (fail_node_chan nid now) g' rest)) as Hloop.
  { induction rest as [|scid rest IH]; intros g' HI; [done|]. simpl. apply IH.
    destruct HI as (Hnone & Hs & Hok & Hnd & Hx). apply NoDup_cons in Hnd as [Hnotin Hnd].
    assert (ends (g_chans g') scid nid) as (c & Hc & Hor).
    { apply Hx. right. split; [done|]. by left. }
    unfold fail_node_chan. rewrite Hc. simpl.
    set (other := if bool_decide (nid = c_one c) then c_two c else c_one c).
    assert (other ≠ nid ∧ (c_one c = other ∨ c_two c = other)
            ∧ ∀ x, (c_one c = x ∨ c_two c = x) → x = nid ∨ x = other) as (Hon & Hoe & Hall).
    { pose proof (Hs _ _ Hc). unfold other. case_bool_decide; destruct Hor; subst; split_and!;
        try lia; try (by left); try (by right); intros x [<- | <-]; auto. }
    unfold I. simpl. split_and!.
    - rewrite rm_one_lookup. by destruct (decide (nid = other)).
    - intros scid' c' [_ ?]%lookup_delete_Some. by eapply Hs.
    - by apply rm_one_nodes_ok.
    - done.
    - intros nid' scid'. rewrite rm_one_lists, ends_delete. split.
      + intros [[Hl Hnot]|[-> Hin]].
        * assert (ends (g_chans g') scid' nid') as He by (apply Hx; by left).
          split; [|done]. intros ->. destruct He as (c' & Hc' & Hor').
          rewrite Hc in Hc'. injection Hc' as <-. destruct (Hall _ Hor') as [-> | ->].
          -- destruct Hl as (? & Hl & _). by rewrite Hnone in Hl.
          -- by apply Hnot.
        * split; [intros ->; done|]. apply Hx. right. split; [done|]. by right.
      + intros [Hne He]. apply Hx in He as [Hl|[-> Hin]].
        * left. split; [done|]. intros [_ ?]. done.
        * right. split; [done|]. apply elem_of_cons in Hin as [?|?]; done. }
  destruct Hwf as [Hs Hok Hx].
  specialize (Hloop (n_chans n) (Graph (g_chans g) (delete nid (g_nodes g)) (g_rmc g) (g_rmn g))).
  destruct Hloop as (_ & Hs' & Hok' & _ & Hx').
  { split_and!; simpl.
    - apply lookup_delete.
    - done.
    - intros nid' n' [_ ?]%lookup_delete_Some. by eapply Hok.
    - by apply (Hok _ _ Hn).
    - intros nid' scid. rewrite <-Hx. unfold lists. split.
      + intros [(n' & [Hne Hn']%lookup_delete_Some & Hin)|[-> Hin]]; [by exists n'|by exists n].
      + intros (n' & Hn' & Hin). destruct (decide (nid' = nid)) as [->|Hne].
        * right. rewrite Hn in Hn'. injection Hn' as <-. done.
        * left. exists n'. split; [|done]. apply lookup_delete_Some. done. }
  split; [done..|]. intros nid' scid. rewrite <-Hx'. split; [by left|].
  intros [?|[_ Hin]]; [done|]. by apply elem_of_nil in Hin.
Qed.

(** ** [prune] *)
Lemma prune_wf g now : wf g → wf (prune g now).
Proof.
  intros Hwf. unfold prune. repeat case_match; try done.
  unfold wf. simpl.
  apply (foldl_remove_channel_wf (Graph _ _ _ _)). unfold wf. simpl.
  apply wf_fmap; [|done]. by intros [].
Qed.

(** ** Every step preserves [wf] *)
Lemma step_wf cf g o : wf g → wf (step cf g o).2.
Proof.
  intros Hwf. destruct o as [via sg a u now|scid cap ts f n1 n2|via sg m now ov|via sg m|scid perm now|nid perm now|now|]; simpl.
  - (* channel_announcement *)
    unfold chan_ann_step. destruct (pre_check cf g a u) as [e|] eqn:Hpre; [done|].
    destruct (match sg with Some s => verify_ann cf a s | None => None end); [done|].
    destruct (ann_intern g a (is_some_b sg) u now) as [r g'] eqn:Hint.
    assert (wf g') as Hwf'.
    { assert (ca_n1 a < ca_n2 a) as Hlt.
      { unfold pre_check in Hpre. repeat case_match; try done; lia. }
      unfold ann_intern in Hint.
      repeat case_match; simplify_eq; try done; (eapply add_chan_wf; [done| |done]); simpl; done. }
    by destruct r.
  - (* partial announcement *)
    unfold partial_ann_step. case_match eqn:Hlt; [done|].
    destruct (add_chan _ _ _ _) as [r g'] eqn:Hadd. simpl.
    eapply add_chan_wf; [done| |done]. simpl. lia.
  - (* channel_update *)
    unfold chan_upd_step. repeat case_match; try done.
    all: unfold wf; simpl; eapply wf_chan_update; [done..| |]; unfold set_dir; by case_match.
  - (* node_announcement *)
    assert (∀ s, wf (node_intern g m s).2) as Hint.
    { intros s. unfold node_intern. repeat case_match; try done.
      all: simpl; unfold wf; simpl; by apply wf_node_update. }
    unfold node_ann_step. repeat case_match; try done; simplify_eq; simpl.
    all: try match goal with H : node_intern _ _ ?s = (_, ?g') |- wf ?g' =>
           specialize (Hint s); by rewrite H in Hint end.
  - destruct perm; [by apply remove_channel_wf|done].
  - destruct perm; [by apply fail_node_wf|done].
  - by apply prune_wf.
  - done.
Qed.

Lemma init_wf : wf g_init.
Proof.
  split; simpl.
  - intros ? ?. by rewrite lookup_empty.
  - intros ? ?. by rewrite lookup_empty.
  - intros nid scid. split.
    + intros (n & Hn & _). by rewrite lookup_empty in Hn.
    + intros (c & Hc & _). by rewrite lookup_empty in Hc.
Qed.

Lemma run_wf cf g ops : wf g → wf (run cf g ops).
Proof.
  revert g. induction ops as [|o ops IH]; intros g Hwf; [done|].
  simpl. apply IH. by apply step_wf.
Qed.
