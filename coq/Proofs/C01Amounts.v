(** C01, amount layer: proofs about [Model/CommitAmounts.v] and the generated fee functions. *)
Require Import LdkV.Prim.U64 LdkV.Prim.Rs2vLib LdkV.Gen.Consts LdkV.Gen.ChanUtilsFees LdkV.Gen.TxBuilder
  LdkV.Model.CommitAmounts.
From Coq Require Import Permutation.
Open Scope Z_scope.

(** ** Sums *)
Lemma sum_z_nil : sum_z [] = 0.
Proof. reflexivity. Qed.

Lemma sum_z_cons x l : sum_z (x :: l) = x + sum_z l.
Proof. unfold sum_z. cbn [fold_left]. rewrite fold_left_add_acc. lia. Qed.

Lemma sum_z_app l1 l2 : sum_z (l1 ++ l2) = sum_z l1 + sum_z l2.
Proof.
  induction l1 as [|x t IH]; [rewrite sum_z_nil; reflexivity|].
  cbn [app]. rewrite !sum_z_cons, IH. lia.
Qed.

Lemma sum_z_nonneg l : Forall (fun x => 0 <= x) l -> 0 <= sum_z l.
Proof. apply fold_left_add_nonneg. Qed.

Lemma sum_map_filter_split {A} (f : A -> Z) (p : A -> bool) (l : list A) :
  sum_z (map f l) = sum_z (map f (filter p l)) + sum_z (map f (filter (fun x => negb (p x)) l)).
Proof.
  induction l as [|x t IH]; [reflexivity|].
  cbn [map filter]. rewrite sum_z_cons, IH.
  destruct (p x); cbn [negb map]; rewrite sum_z_cons; lia.
Qed.

Lemma sum_map_nonneg {A} (f : A -> Z) (l : list A) :
  Forall (fun x => 0 <= f x) l -> 0 <= sum_z (map f l).
Proof.
  intros H. apply sum_z_nonneg. rewrite Forall_map. exact H.
Qed.

Lemma Forall_filter {A} (P : A -> Prop) (p : A -> bool) (l : list A) :
  Forall P l -> Forall P (filter p l).
Proof.
  intros H. rewrite Forall_forall in *. intros x Hx. apply filter_In in Hx. apply H, Hx.
Qed.

Lemma filter_perm {A} (p : A -> bool) (l : list A) :
  Permutation (filter (fun x => negb (p x)) l ++ filter p l) l.
Proof.
  induction l as [|x t IH]; [constructor|].
  cbn [filter]. destruct (p x); cbn [negb].
  - apply Permutation_sym. apply Permutation_cons_app. apply Permutation_sym. exact IH.
  - cbn [app]. constructor. exact IH.
Qed.

(** msat = 1000 * sat + remainder, summed. *)
Lemma htlcs_msat_sat_rem l : htlcs_msat l = 1000 * htlcs_sat l + htlcs_rem l.
Proof.
  unfold htlcs_msat, htlcs_sat, htlcs_rem.
  induction l as [|h t IH]; [reflexivity|].
  cbn [map]. rewrite !sum_z_cons, IH. unfold htlc_sat.
  pose proof (Z.div_mod (ho_amount_msat h) 1000 ltac:(lia)). lia.
Qed.

Lemma htlcs_rem_nonneg l : 0 <= htlcs_rem l.
Proof.
  unfold htlcs_rem. apply sum_map_nonneg. rewrite Forall_forall. intros h _.
  apply Z.mod_pos_bound. lia.
Qed.

Definition amounts_nonneg (l : list htlc_out) : Prop := Forall (fun h => 0 <= ho_amount_msat h) l.

Lemma htlcs_msat_nonneg l : amounts_nonneg l -> 0 <= htlcs_msat l.
Proof. intros H. apply sum_map_nonneg. exact H. Qed.

Lemma htlcs_sat_nonneg l : amounts_nonneg l -> 0 <= htlcs_sat l.
Proof.
  intros H. apply sum_map_nonneg. unfold amounts_nonneg in H. rewrite Forall_forall in *.
  intros h Hh. unfold htlc_sat. apply Z.div_pos; [apply H, Hh | lia].
Qed.

Lemma htlcs_msat_split (p : htlc_out -> bool) l :
  htlcs_msat l = htlcs_msat (filter p l) + htlcs_msat (filter (fun x => negb (p x)) l).
Proof. apply sum_map_filter_split. Qed.

(** ** Fee functions: ranges and monotonicity *)
Lemma weights_pos ct :
  0 < htlc_success_tx_weight ct <= 706 /\ 0 < htlc_timeout_tx_weight ct <= 706 /\
  0 < commitment_tx_base_weight ct <= 1124 /\ htlc_timeout_tx_weight ct <= htlc_success_tx_weight ct.
Proof.
  unfold htlc_success_tx_weight, htlc_timeout_tx_weight, commitment_tx_base_weight.
  destruct (ctf_supports_anchors_zero_fee_htlc_tx ct); lia.
Qed.

Lemma commit_tx_fee_nonneg fr n ct : 0 <= fr -> 0 <= n -> 0 <= commit_tx_fee_sat fr n ct.
Proof.
  intros Hf Hn. unfold commit_tx_fee_sat, COMMITMENT_TX_WEIGHT_PER_HTLC.
  pose proof (weights_pos ct). apply Z.div_pos; [|lia]. apply Z.mul_nonneg_nonneg; lia.
Qed.

Lemma commit_tx_fee_safe fr n ct :
  0 <= fr < 2 ^ 32 -> 0 <= n <= 2 ^ 24 -> commit_tx_fee_sat_safe fr n ct = true.
Proof.
  intros Hf Hn. unfold commit_tx_fee_sat_safe, commitment_tx_base_weight_safe, COMMITMENT_TX_WEIGHT_PER_HTLC.
  pose proof (weights_pos ct) as (_ & _ & Hb & _).
  assert (fr * (commitment_tx_base_weight ct + n * 172) < 2 ^ 64) by nia.
  cbn [andb]. rewrite !andb_true_iff, !Z.ltb_lt. lia.
Qed.

Lemma total_anchors_vals ct :
  total_anchors_sat ct = if ctf_supports_anchors_zero_fee_htlc_tx ct then 660 else 0.
Proof. unfold total_anchors_sat, ANCHOR_OUTPUT_VALUE_SATOSHI. destruct (ctf_supports_anchors_zero_fee_htlc_tx ct); reflexivity. Qed.

Lemma anchors_in_tx_bounds ct tb tc nd :
  0 <= sum_z (anchors_in_tx ct tb tc nd) <= total_anchors_sat ct.
Proof.
  rewrite total_anchors_vals. unfold anchors_in_tx, ANCHOR_OUTPUT_VALUE_SATOSHI.
  destruct (ctf_supports_anchors_zero_fee_htlc_tx ct); [|rewrite sum_z_nil; lia].
  destruct ((0 <? tb) || negb (htlcs_sat nd =? 0)), ((0 <? tc) || negb (htlcs_sat nd =? 0));
    cbn [app]; rewrite ?sum_z_cons, ?sum_z_nil; lia.
Qed.

(** ** [build_commitment] *)

(** Preconditions: exactly the type ranges plus the conditions under which the Rust does not hit
    one of its [checked_sub().unwrap()]s. *)
Record commit_pre (ct : ChannelTypeFeatures) (local funder : bool) (v s : Z) (htlcs : list htlc_out) (fr dust : Z) : Prop := {
  cp_ct : ct_ok ct = true;
  cp_v : 0 <= v /\ v * 1000 < 2 ^ 64;
  cp_s : 0 <= s <= v * 1000;
  cp_amts : amounts_nonneg htlcs;
  cp_local : htlcs_msat (filter (fun h => Bool.eqb (ho_offered h) local) htlcs) <= s;
  cp_remote : htlcs_msat (filter (fun h => negb (Bool.eqb (ho_offered h) local)) htlcs) <= v * 1000 - s;
  cp_fr : 0 <= fr < 2 ^ 32;
  cp_dust : 0 <= dust < 2 ^ 63;
  cp_len : Z.of_nat (List.length htlcs) <= 2 ^ 24
}.

Lemma sat_sub_funder_cases funder a b x :
  0 <= a -> 0 <= b -> 0 <= x ->
  exists a' b', saturating_sub_from_funder funder a b x = (a', b') /\
    (if funder then b' = b /\ a' = Z.max 0 (a - x) else a' = a /\ b' = Z.max 0 (b - x)).
Proof.
  intros Ha Hb Hx. unfold saturating_sub_from_funder, sat_sub. destruct funder; eexists _, _; split; try reflexivity; lia.
Qed.

Lemma filter_length_le {A} (p : A -> bool) l : (List.length (filter p l) <= List.length l)%nat.
Proof. induction l as [|x t IH]; cbn [filter List.length]; [lia|]. destruct (p x); cbn [List.length]; lia. Qed.

Lemma sat_mul_anchors ct : sat_mul 64 (total_anchors_sat ct) 1000 = total_anchors_sat ct * 1000.
Proof. rewrite total_anchors_vals. unfold sat_mul. destruct (ctf_supports_anchors_zero_fee_htlc_tx ct); lia. Qed.

(** The computation succeeds, is overflow-free, and partitions the HTLCs. *)
Lemma build_commitment_some ct local funder v s htlcs fr dust :
  commit_pre ct local funder v s htlcs fr dust ->
  exists ca, build_commitment ct local funder v s htlcs fr dust = Some ca /\
    build_commitment_safe ct local v htlcs fr dust = true /\
    ca_nondust ca = filter (fun h => negb (h_is_dust ct fr dust h)) htlcs /\
    ca_dust ca = filter (h_is_dust ct fr dust) htlcs /\
    ca_commit_tx_fee_sat ca = commit_tx_fee_sat fr (Z.of_nat (List.length (ca_nondust ca))) ct.
Proof.
  intros [Hct Hv Hs Ham Hl Hr Hfr Hd Hlen].
  unfold build_commitment.
  unfold chk_sub.
  destruct (Z.leb_spec (htlcs_msat (filter (fun h => Bool.eqb (ho_offered h) local) htlcs)) s) as [_|]; [|lia].
  destruct (Z.leb_spec s (v * 1000)) as [_|]; [|lia].
  destruct (Z.leb_spec (htlcs_msat (filter (fun h => negb (Bool.eqb (ho_offered h) local)) htlcs)) (v * 1000 - s)) as [_|]; [|lia].
  destruct (saturating_sub_from_funder funder _ _ (sat_mul 64 (total_anchors_sat ct) 1000)) as [lb rb] eqn:E1.
  destruct (saturating_sub_from_funder funder (lb / 1000) (rb / 1000) _) as [vs vr] eqn:E2.
  eexists. split; [reflexivity|]. cbn [ca_nondust ca_dust ca_commit_tx_fee_sat].
  split; [|auto].
  unfold build_commitment_safe.
  pose proof (htlcs_msat_nonneg _ (Forall_filter _ (fun h => Bool.eqb (ho_offered h) local) _ Ham)) as Hl0.
  pose proof (htlcs_msat_nonneg _ (Forall_filter _ (fun h => negb (Bool.eqb (ho_offered h) local)) _ Ham)) as Hr0.
  rewrite !andb_true_iff. repeat split.
  - apply Z.ltb_lt. lia.
  - apply sum_safe_total.
    + rewrite Forall_map. apply Forall_filter. exact Ham.
    + right. fold (htlcs_msat (filter (fun h => Bool.eqb (ho_offered h) local) htlcs)). lia.
  - apply sum_safe_total.
    + rewrite Forall_map. apply Forall_filter. exact Ham.
    + right. fold (htlcs_msat (filter (fun h => negb (Bool.eqb (ho_offered h) local)) htlcs)). lia.
  - apply Z.ltb_lt. pose proof (weights_pos ct) as (Hw & _).
    assert (fr * htlc_success_tx_weight ct / 1000 <= fr * 706 / 1000).
    { apply Z.div_le_mono; [lia|]. apply Z.mul_le_mono_nonneg_l; lia. }
    assert (fr * 706 / 1000 < 2 ^ 42).
    { apply Z.div_lt_upper_bound; lia. }
    lia.
  - apply commit_tx_fee_safe; [lia|].
    pose proof (filter_length_le (fun h => negb (h_is_dust ct fr dust h)) htlcs). lia.
Qed.

(** Sum of the two sides' HTLC totals = trimmed + kept, in msat. *)
Lemma htlc_totals_split ct local fr dust htlcs :
  htlcs_msat (filter (fun h => Bool.eqb (ho_offered h) local) htlcs)
  + htlcs_msat (filter (fun h => negb (Bool.eqb (ho_offered h) local)) htlcs)
  = htlcs_msat (filter (fun h => negb (h_is_dust ct fr dust h)) htlcs)
    + htlcs_msat (filter (h_is_dust ct fr dust) htlcs).
Proof.
  rewrite <- (htlcs_msat_split (fun h => Bool.eqb (ho_offered h) local) htlcs).
  rewrite (htlcs_msat_split (h_is_dust ct fr dust) htlcs). lia.
Qed.

Definition anchors_affordable (ct : ChannelTypeFeatures) (local funder : bool) (v s : Z) (htlcs : list htlc_out) : Prop :=
  total_anchors_sat ct * 1000 <= funder_after_htlcs_msat local funder v s htlcs.

(** Unfolded view of a successful [build_commitment]. *)
Lemma build_commitment_inv ct local funder v s htlcs fr dust ca :
  commit_pre ct local funder v s htlcs fr dust ->
  build_commitment ct local funder v s htlcs fr dust = Some ca ->
  let L := htlcs_msat (filter (fun h => Bool.eqb (ho_offered h) local) htlcs) in
  let R := htlcs_msat (filter (fun h => negb (Bool.eqb (ho_offered h) local)) htlcs) in
  let A := total_anchors_sat ct * 1000 in
  let lb := ca_local_balance_before_fee_msat ca in
  let rb := ca_remote_balance_before_fee_msat ca in
  let fee := ca_commit_tx_fee_sat ca in
  (if funder then lb = Z.max 0 (s - L - A) /\ rb = v * 1000 - s - R
   else lb = s - L /\ rb = Z.max 0 (v * 1000 - s - R - A)) /\
  0 <= fee /\
  exists vs vr,
    pre_dust_values funder ca = (vs, vr) /\
    (if funder then vs = Z.max 0 (lb / 1000 - fee) /\ vr = rb / 1000
     else vs = lb / 1000 /\ vr = Z.max 0 (rb / 1000 - fee)) /\
    ca_to_broadcaster_sat ca = (let x := if local then vs else vr in if dust <=? x then x else 0) /\
    ca_to_countersignatory_sat ca = (let x := if local then vr else vs in if dust <=? x then x else 0).
Proof.
  intros Hpre Hb.
  destruct (build_commitment_some _ _ _ _ _ _ _ _ Hpre) as (ca' & Hb' & _ & Hnd & _ & Hfee).
  rewrite Hb in Hb'. injection Hb' as <-.
  destruct Hpre as [Hct Hv Hs Ham Hl Hr Hfr Hd Hlen].
  pose proof (htlcs_msat_nonneg _ (Forall_filter _ (fun h => Bool.eqb (ho_offered h) local) _ Ham)) as Hl0.
  pose proof (htlcs_msat_nonneg _ (Forall_filter _ (fun h => negb (Bool.eqb (ho_offered h) local)) _ Ham)) as Hr0.
  cbv zeta.
  assert (0 <= ca_commit_tx_fee_sat ca) as Hfee0.
  { rewrite Hfee. apply commit_tx_fee_nonneg; lia. }
  revert Hb. unfold build_commitment, chk_sub.
  destruct (Z.leb_spec (htlcs_msat (filter (fun h => Bool.eqb (ho_offered h) local) htlcs)) s) as [_|]; [|lia].
  destruct (Z.leb_spec s (v * 1000)) as [_|]; [|lia].
  destruct (Z.leb_spec (htlcs_msat (filter (fun h => negb (Bool.eqb (ho_offered h) local)) htlcs)) (v * 1000 - s)) as [_|]; [|lia].
  rewrite sat_mul_anchors.
  pose proof (total_anchors_vals ct) as HA.
  assert (0 <= total_anchors_sat ct * 1000) as HA0 by (rewrite HA; destruct (ctf_supports_anchors_zero_fee_htlc_tx ct); lia).
  destruct (sat_sub_funder_cases funder
    (s - htlcs_msat (filter (fun h => Bool.eqb (ho_offered h) local) htlcs))
    (v * 1000 - s - htlcs_msat (filter (fun h => negb (Bool.eqb (ho_offered h) local)) htlcs))
    (total_anchors_sat ct * 1000) ltac:(lia) ltac:(lia) HA0) as (lb & rb & E1 & H1).
  rewrite E1.
  assert (0 <= lb /\ 0 <= rb) as [Hlb Hrb] by (destruct funder; lia).
  set (fee := commit_tx_fee_sat fr _ ct).
  assert (0 <= fee) as Hf0 by (apply commit_tx_fee_nonneg; lia).
  destruct (sat_sub_funder_cases funder (lb / 1000) (rb / 1000) fee
    ltac:(apply Z.div_pos; lia) ltac:(apply Z.div_pos; lia) Hf0) as (vs & vr & E2 & H2).
  rewrite E2. intros [= <-].
  cbn [ca_local_balance_before_fee_msat ca_remote_balance_before_fee_msat ca_commit_tx_fee_sat
       ca_to_broadcaster_sat ca_to_countersignatory_sat].
  split; [destruct funder; lia|]. split; [exact Hf0|].
  exists vs, vr. unfold pre_dust_values.
  cbn [ca_local_balance_before_fee_msat ca_remote_balance_before_fee_msat ca_commit_tx_fee_sat].
  split; [exact E2|]. split; [destruct funder; lia|]. split; reflexivity.
Qed.

(** Conservation in msat, itemised. Holds whenever the funder can pay for the anchors. *)
Lemma commit_conservation ct local funder v s htlcs fr dust ca :
  commit_pre ct local funder v s htlcs fr dust ->
  build_commitment ct local funder v s htlcs fr dust = Some ca ->
  anchors_affordable ct local funder v s htlcs ->
  1000 * v =
    1000 * (ca_to_broadcaster_sat ca + ca_to_countersignatory_sat ca + htlcs_sat (ca_nondust ca)
            + sum_z (anchors_in_tx ct (ca_to_broadcaster_sat ca) (ca_to_countersignatory_sat ca) (ca_nondust ca)))
    + fee_breakdown_msat ct funder ca.
Proof.
  intros Hpre Hb Haff.
  destruct (build_commitment_some _ _ _ _ _ _ _ _ Hpre) as (ca' & Hb' & _ & Hnd & Hdu & _).
  rewrite Hb in Hb'. injection Hb' as <-.
  pose proof (build_commitment_inv _ _ _ _ _ _ _ _ _ Hpre Hb) as Hinv. cbv zeta in Hinv.
  destruct Hinv as (Hbal & Hfee0 & vs & vr & Epre & Hvs & Htb & Htc).
  pose proof (htlc_totals_split ct local fr dust htlcs) as Hsplit.
  rewrite <- Hnd, <- Hdu in Hsplit.
  pose proof (htlcs_msat_sat_rem (ca_nondust ca)) as Hnd_sr.
  unfold fee_breakdown_msat. rewrite Epre.
  unfold funder_before_fee_sat.
  unfold anchors_affordable, funder_after_htlcs_msat in Haff.
  set (L := htlcs_msat (filter (fun h => Bool.eqb (ho_offered h) local) htlcs)) in *.
  set (R := htlcs_msat (filter (fun h => negb (Bool.eqb (ho_offered h) local)) htlcs)) in *.
  set (lb := ca_local_balance_before_fee_msat ca) in *.
  set (rb := ca_remote_balance_before_fee_msat ca) in *.
  set (fee := ca_commit_tx_fee_sat ca) in *.
  set (anch := sum_z (anchors_in_tx ct (ca_to_broadcaster_sat ca) (ca_to_countersignatory_sat ca) (ca_nondust ca))).
  set (A := total_anchors_sat ct) in *.
  pose proof (Z.div_mod lb 1000 ltac:(lia)) as Dl.
  pose proof (Z.div_mod rb 1000 ltac:(lia)) as Dr.
  destruct funder.
  - destruct Hbal as [El Er]. destruct Hvs as [Evs Evr].
    assert (lb = s - L - A * 1000) as El' by lia.
    clear Htb Htc. nia.
  - destruct Hbal as [El Er]. destruct Hvs as [Evs Evr].
    assert (rb = v * 1000 - s - R - A * 1000) as Er' by lia.
    clear Htb Htc. nia.
Qed.

(** Every item of the fee breakdown is non-negative. *)
Lemma fee_breakdown_items_nonneg ct local funder v s htlcs fr dust ca :
  commit_pre ct local funder v s htlcs fr dust ->
  build_commitment ct local funder v s htlcs fr dust = Some ca ->
  let '(vs, vr) := pre_dust_values funder ca in
  0 <= Z.min (ca_commit_tx_fee_sat ca) (funder_before_fee_sat funder ca) /\
  0 <= total_anchors_sat ct - sum_z (anchors_in_tx ct (ca_to_broadcaster_sat ca) (ca_to_countersignatory_sat ca) (ca_nondust ca)) /\
  0 <= vs + vr - ca_to_broadcaster_sat ca - ca_to_countersignatory_sat ca /\
  0 <= htlcs_msat (ca_dust ca) /\ 0 <= htlcs_rem (ca_nondust ca) /\
  0 <= ca_local_balance_before_fee_msat ca mod 1000 < 1000 /\
  0 <= ca_remote_balance_before_fee_msat ca mod 1000 < 1000 /\
  (* the saturating branch, explicitly: the funder's value before dust-zeroing is its balance minus
     what could be taken of the fee *)
  (if funder then vs else vr) =
    funder_before_fee_sat funder ca - Z.min (ca_commit_tx_fee_sat ca) (funder_before_fee_sat funder ca).
Proof.
  intros Hpre Hb.
  destruct (build_commitment_some _ _ _ _ _ _ _ _ Hpre) as (ca' & Hb' & _ & Hnd & Hdu & _).
  rewrite Hb in Hb'. injection Hb' as <-.
  pose proof (build_commitment_inv _ _ _ _ _ _ _ _ _ Hpre Hb) as Hinv. cbv zeta in Hinv.
  destruct Hinv as (Hbal & Hfee0 & vs & vr & Epre & Hvs & Htb & Htc).
  rewrite Epre.
  destruct Hpre as [Hct Hv Hs Ham Hl Hr Hfr Hd Hlen].
  pose proof (htlcs_msat_nonneg _ (Forall_filter _ (fun h => Bool.eqb (ho_offered h) local) _ Ham)) as Hl0.
  pose proof (htlcs_msat_nonneg _ (Forall_filter _ (fun h => negb (Bool.eqb (ho_offered h) local)) _ Ham)) as Hr0.
  pose proof (anchors_in_tx_bounds ct (ca_to_broadcaster_sat ca) (ca_to_countersignatory_sat ca) (ca_nondust ca)) as Han.
  pose proof (htlcs_rem_nonneg (ca_nondust ca)) as Hrem.
  assert (0 <= htlcs_msat (ca_dust ca)) as Hdust0.
  { rewrite Hdu. apply htlcs_msat_nonneg. apply Forall_filter. exact Ham. }
  pose proof (Z.mod_pos_bound (ca_local_balance_before_fee_msat ca) 1000 ltac:(lia)) as Hm1.
  pose proof (Z.mod_pos_bound (ca_remote_balance_before_fee_msat ca) 1000 ltac:(lia)) as Hm2.
  unfold funder_before_fee_sat.
  assert (0 <= ca_local_balance_before_fee_msat ca /\ 0 <= ca_remote_balance_before_fee_msat ca) as [Hlb Hrb]
    by (destruct funder; lia).
  pose proof (Z.div_pos (ca_local_balance_before_fee_msat ca) 1000 Hlb ltac:(lia)) as Hq1.
  pose proof (Z.div_pos (ca_remote_balance_before_fee_msat ca) 1000 Hrb ltac:(lia)) as Hq2.
  assert (0 <= vs /\ 0 <= vr) as [Hvs0 Hvr0] by (destruct funder; lia).
  assert (0 <= vs + vr - ca_to_broadcaster_sat ca - ca_to_countersignatory_sat ca) as Hz.
  { rewrite Htb, Htc. cbv zeta. destruct local.
    - destruct (dust <=? vs), (dust <=? vr); lia.
    - destruct (dust <=? vs), (dust <=? vr); lia. }
  repeat split; try lia; destruct funder; lia.
Qed.

(** Each party's output is at most the whole-satoshi part of its own balance (nobody gains), and the
    party that does not pay the fee gets exactly that, unless it is below the broadcaster's dust limit. *)
Lemma commit_outputs_vs_balances ct local funder v s htlcs fr dust ca :
  commit_pre ct local funder v s htlcs fr dust ->
  build_commitment ct local funder v s htlcs fr dust = Some ca ->
  let L := htlcs_msat (filter (fun h => Bool.eqb (ho_offered h) local) htlcs) in
  let R := htlcs_msat (filter (fun h => negb (Bool.eqb (ho_offered h) local)) htlcs) in
  let to_holder := if local then ca_to_broadcaster_sat ca else ca_to_countersignatory_sat ca in
  let to_cp := if local then ca_to_countersignatory_sat ca else ca_to_broadcaster_sat ca in
  0 <= to_holder <= (s - L) / 1000 /\ 0 <= to_cp <= (v * 1000 - s - R) / 1000 /\
  (to_holder = 0 \/ dust <= to_holder) /\ (to_cp = 0 \/ dust <= to_cp) /\
  (funder = false -> to_holder = if dust <=? (s - L) / 1000 then (s - L) / 1000 else 0) /\
  (funder = true -> to_cp = if dust <=? (v * 1000 - s - R) / 1000 then (v * 1000 - s - R) / 1000 else 0).
Proof.
  intros Hpre Hb.
  pose proof (build_commitment_inv _ _ _ _ _ _ _ _ _ Hpre Hb) as Hinv. cbv zeta in Hinv.
  destruct Hinv as (Hbal & Hfee0 & vs & vr & Epre & Hvs & Htb & Htc).
  destruct Hpre as [Hct Hv Hs Ham Hl Hr Hfr Hd Hlen].
  pose proof (htlcs_msat_nonneg _ (Forall_filter _ (fun h => Bool.eqb (ho_offered h) local) _ Ham)) as Hl0.
  pose proof (htlcs_msat_nonneg _ (Forall_filter _ (fun h => negb (Bool.eqb (ho_offered h) local)) _ Ham)) as Hr0.
  cbv zeta. cbv zeta in Htb, Htc.
  set (L := htlcs_msat (filter (fun h => Bool.eqb (ho_offered h) local) htlcs)) in *.
  set (R := htlcs_msat (filter (fun h => negb (Bool.eqb (ho_offered h) local)) htlcs)) in *.
  pose proof (total_anchors_vals ct) as HA.
  assert (0 <= total_anchors_sat ct * 1000) as HA0 by (rewrite HA; destruct (ctf_supports_anchors_zero_fee_htlc_tx ct); lia).
  assert (ca_local_balance_before_fee_msat ca <= s - L /\ 0 <= ca_local_balance_before_fee_msat ca) as [Hlb1 Hlb0]
    by (destruct funder; lia).
  assert (ca_remote_balance_before_fee_msat ca <= v * 1000 - s - R /\ 0 <= ca_remote_balance_before_fee_msat ca) as [Hrb1 Hrb0]
    by (destruct funder; lia).
  pose proof (Z.div_le_mono _ _ 1000 ltac:(lia) Hlb1) as Hq1.
  pose proof (Z.div_le_mono _ _ 1000 ltac:(lia) Hrb1) as Hq2.
  pose proof (Z.div_pos _ 1000 Hlb0 ltac:(lia)) as Hp1.
  pose proof (Z.div_pos _ 1000 Hrb0 ltac:(lia)) as Hp2.
  assert (0 <= vs <= (s - L) / 1000) as Hvsb by (destruct funder; lia).
  assert (0 <= vr <= (v * 1000 - s - R) / 1000) as Hvrb by (destruct funder; lia).
  assert ((if local then ca_to_broadcaster_sat ca else ca_to_countersignatory_sat ca) = if dust <=? vs then vs else 0) as Eh
    by (destruct local; assumption).
  assert ((if local then ca_to_countersignatory_sat ca else ca_to_broadcaster_sat ca) = if dust <=? vr then vr else 0) as Ec
    by (destruct local; assumption).
  rewrite Eh, Ec.
  repeat split; try (destruct (Z.leb_spec dust vs); lia); try (destruct (Z.leb_spec dust vr); lia).
  - intros ->. destruct Hbal as [E1 _]. destruct Hvs as [E2 _]. rewrite E2, E1. reflexivity.
  - intros ->. destruct Hbal as [_ E1]. destruct Hvs as [_ E2]. rewrite E2, E1. reflexivity.
Qed.

(** Transaction outputs: they exist (no [Amount] underflow), they are exactly the balance outputs, the
    kept HTLCs and the anchors, and together with an explicitly itemised non-negative fee they make up
    the channel value. *)
Lemma commit_tx_outputs_conserve ct local funder v s htlcs fr dust ca :
  commit_pre ct local funder v s htlcs fr dust ->
  build_commitment ct local funder v s htlcs fr dust = Some ca ->
  anchors_affordable ct local funder v s htlcs ->
  exists outs fee_paid,
    commit_tx_outputs ct v (ca_to_broadcaster_sat ca) (ca_to_countersignatory_sat ca) (ca_nondust ca) = Some outs /\
    sum_z outs + fee_paid = v /\ 0 <= fee_paid /\
    fee_breakdown_msat ct funder ca mod 1000 = 0 /\
    (if ctf_supports_anchor_zero_fee_commitments ct
     then (* everything trimmed goes to the shared P2A anchor up to P2A_MAX_VALUE, the rest is fee *)
       let t := fee_breakdown_msat ct funder ca / 1000 in
       fee_paid = t - Z.min P2A_MAX_VALUE t /\
       sum_z outs = ca_to_broadcaster_sat ca + ca_to_countersignatory_sat ca + htlcs_sat (ca_nondust ca)
                    + Z.min P2A_MAX_VALUE t
     else
       1000 * fee_paid = fee_breakdown_msat ct funder ca /\
       sum_z outs = ca_to_broadcaster_sat ca + ca_to_countersignatory_sat ca + htlcs_sat (ca_nondust ca)
                    + sum_z (anchors_in_tx ct (ca_to_broadcaster_sat ca) (ca_to_countersignatory_sat ca) (ca_nondust ca))).
Proof.
  intros Hpre Hb Haff.
  pose proof (commit_conservation _ _ _ _ _ _ _ _ _ Hpre Hb Haff) as Hcons.
  pose proof (fee_breakdown_items_nonneg _ _ _ _ _ _ _ _ _ Hpre Hb) as Hitems.
  assert (0 <= fee_breakdown_msat ct funder ca) as Hfb0.
  { unfold fee_breakdown_msat. destruct (pre_dust_values funder ca) as [vs vr]. lia. }
  set (tb := ca_to_broadcaster_sat ca) in *. set (tc := ca_to_countersignatory_sat ca) in *.
  set (nd := ca_nondust ca) in *.
  assert (0 <= tb /\ 0 <= tc) as [Htb0 Htc0].
  { pose proof (commit_outputs_vs_balances _ _ _ _ _ _ _ _ _ Hpre Hb) as Hob. cbv zeta in Hob.
    fold tb tc in Hob. destruct local; lia. }
  assert (sum_z (map htlc_sat nd ++ (if 0 <? tc then [tc] else []) ++ (if 0 <? tb then [tb] else []) ++ anchors_in_tx ct tb tc nd)
          = tb + tc + htlcs_sat nd + sum_z (anchors_in_tx ct tb tc nd)) as Hbase.
  { rewrite !sum_z_app. fold (htlcs_sat nd).
    destruct (Z.ltb_spec 0 tc), (Z.ltb_spec 0 tb); rewrite ?sum_z_cons, ?sum_z_nil; lia. }
  assert (fee_breakdown_msat ct funder ca mod 1000 = 0) as Hmod.
  { replace (fee_breakdown_msat ct funder ca)
      with ((v - (tb + tc + htlcs_sat nd + sum_z (anchors_in_tx ct tb tc nd))) * 1000) by lia.
    apply Z.mod_mul. lia. }
  unfold commit_tx_outputs.
  destruct (ctf_supports_anchor_zero_fee_commitments ct) eqn:Ez.
  - (* zero-fee commitments: no keyed anchors *)
    assert (ctf_supports_anchors_zero_fee_htlc_tx ct = false) as Ea.
    { destruct Hpre as [Hct _ _ _ _ _ _ _ _]. unfold ct_ok in Hct. rewrite Ez in Hct.
      destruct (ctf_supports_anchors_zero_fee_htlc_tx ct); [discriminate|reflexivity]. }
    assert (anchors_in_tx ct tb tc nd = []) as Ean by (unfold anchors_in_tx; rewrite Ea; reflexivity).
    rewrite Ean in *. rewrite sum_z_nil in *.
    assert (fee_breakdown_msat ct funder ca / 1000 = v - htlcs_sat nd - tb - tc) as Et.
    { symmetry. apply Z.div_unique_exact; lia. }
    destruct (Z.ltb_spec (v - htlcs_sat nd - tb - tc) 0) as [Hneg|Hnn]; [lia|].
    eexists _, (fee_breakdown_msat ct funder ca / 1000 - Z.min P2A_MAX_VALUE (fee_breakdown_msat ct funder ca / 1000)).
    split; [reflexivity|].
    rewrite sum_z_app, Hbase, sum_z_cons, sum_z_nil, Et. unfold P2A_MAX_VALUE.
    repeat split; lia.
  - eexists _, (fee_breakdown_msat ct funder ca / 1000).
    split; [reflexivity|].
    assert (fee_breakdown_msat ct funder ca = 1000 * (fee_breakdown_msat ct funder ca / 1000)) as Ed.
    { pose proof (Z.div_mod (fee_breakdown_msat ct funder ca) 1000 ltac:(lia)). lia. }
    rewrite Hbase.
    assert (0 <= fee_breakdown_msat ct funder ca / 1000) by (apply Z.div_pos; lia).
    repeat split; lia.
Qed.

(** The precondition [anchors_affordable] is necessary: the saturating subtraction lets
    [build_commitment_transaction] produce a transaction that spends more than the funding output when
    the funder cannot pay for the anchors (the protocol layer must never sign such a commitment: this is
    what the [checked_sub]s of [get_next_commitment_stats] are for). *)
Lemma anchors_unaffordable_overspends :
  exists v s ca outs,
    commit_pre CT_Anchors true true v s [] 2500 354 /\
    build_commitment CT_Anchors true true v s [] 2500 354 = Some ca /\
    commit_tx_outputs CT_Anchors v (ca_to_broadcaster_sat ca) (ca_to_countersignatory_sat ca) (ca_nondust ca) = Some outs /\
    sum_z outs > v.
Proof.
  exists 1000000, 100000. eexists. eexists.
  split; [|split; [vm_compute; reflexivity|split; [vm_compute; reflexivity|vm_compute; reflexivity]]].
  constructor; try (vm_compute; intuition congruence); try constructor.
Qed.

(** The dust test of the builder and the dust test the statistics / send limits use ([is_dust] of
    [HTLCAmountDirection], generated) are the same predicate (zero-fee-commitment channels run at
    feerate 0). *)
Lemma is_dust_agree ct local fr dust outbound amt :
  (ctf_supports_anchor_zero_fee_commitments ct = true -> fr = 0) ->
  bc_is_dust ct fr dust (Bool.eqb outbound local) amt
  = is_dust (mkHTLCAmountDirection outbound amt) local fr dust ct.
Proof.
  intros Hz. unfold bc_is_dust, is_dust, second_stage_tx_fees_sat. cbn [htlc_outbound htlc_amount_msat].
  destruct (ctf_supports_anchors_zero_fee_htlc_tx ct) eqn:Ea; cbn [orb].
  - destruct (Bool.eqb outbound local); reflexivity.
  - destruct (ctf_supports_anchor_zero_fee_commitments ct) eqn:Ez.
    + rewrite (Hz eq_refl). destruct (Bool.eqb outbound local); reflexivity.
    + destruct (Bool.eqb outbound local); reflexivity.
Qed.

(** The trim is exactly the dust predicate. *)
Lemma trim_exact ct local funder v s htlcs fr dust ca :
  commit_pre ct local funder v s htlcs fr dust ->
  build_commitment ct local funder v s htlcs fr dust = Some ca ->
  Permutation (ca_nondust ca ++ ca_dust ca) htlcs /\
  Forall (fun h => h_is_dust ct fr dust h = true) (ca_dust ca) /\
  Forall (fun h => h_is_dust ct fr dust h = false) (ca_nondust ca) /\
  (forall h, In h htlcs -> h_is_dust ct fr dust h = true -> In h (ca_dust ca)) /\
  (forall h, In h htlcs -> h_is_dust ct fr dust h = false -> In h (ca_nondust ca)).
Proof.
  intros Hpre Hb.
  destruct (build_commitment_some _ _ _ _ _ _ _ _ Hpre) as (ca' & Hb' & _ & Hnd & Hdu & _).
  rewrite Hb in Hb'. injection Hb' as <-. rewrite Hnd, Hdu.
  split; [apply filter_perm|].
  split; [rewrite Forall_forall; intros h Hh; apply filter_In in Hh; apply Hh|].
  split; [rewrite Forall_forall; intros h Hh; apply filter_In in Hh; destruct Hh as [_ Hh];
          destruct (h_is_dust ct fr dust h); [discriminate|reflexivity]|].
  split; intros h Hin Hdst; apply filter_In; (split; [exact Hin|]).
  - exact Hdst.
  - rewrite Hdst. reflexivity.
Qed.

(** ** Cooperative close *)
Lemma closing_spec (funder skip : bool) (v s fee hd : Z) :
  0 <= v -> 0 <= s <= v * 1000 -> 0 <= fee -> 0 <= hd ->
  let bal_h := s / 1000 in
  let bal_c := (v * 1000 - s) / 1000 in
  let fh := if funder then fee else 0 in
  let fc := if funder then 0 else fee in
  (fh <= bal_h -> fc <= bal_c ->
     exists h c, build_closing funder skip v s fee hd = ROk (h, c, fee) /\
       h = (if bal_h - fh <=? hd then 0 else bal_h - fh) /\
       c = (if skip || (bal_c - fc <=? hd) then 0 else bal_c - fc) /\
       0 <= h <= bal_h - fh /\ 0 <= c <= bal_c - fc /\
       1000 * v = 1000 * (h + c + fee) + 1000 * ((bal_h - fh - h) + (bal_c - fc - c))
                  + s mod 1000 + (v * 1000 - s) mod 1000) /\
  (fh > bal_h \/ fc > bal_c -> is_ok (build_closing funder skip v s fee hd) = false).
Proof.
  intros Hv Hs Hfee Hhd. cbv zeta.
  pose proof (Z.div_mod s 1000 ltac:(lia)) as D1.
  pose proof (Z.div_mod (v * 1000 - s) 1000 ltac:(lia)) as D2.
  pose proof (Z.mod_pos_bound s 1000 ltac:(lia)) as M1.
  pose proof (Z.mod_pos_bound (v * 1000 - s) 1000 ltac:(lia)) as M2.
  pose proof (Z.div_pos s 1000 ltac:(lia) ltac:(lia)) as P1.
  pose proof (Z.div_pos (v * 1000 - s) 1000 ltac:(lia) ltac:(lia)) as P2.
  unfold build_closing.
  set (bh := s / 1000) in *. set (bc := (v * 1000 - s) / 1000) in *.
  split.
  - intros Hfh Hfc.
    destruct (Z.ltb_spec (bh - (if funder then fee else 0)) 0) as [|_]; [lia|].
    destruct (Z.ltb_spec (bc - (if funder then 0 else fee)) 0) as [|_]; [lia|].
    eexists _, _. split; [reflexivity|]. split; [reflexivity|]. split; [reflexivity|].
    destruct (Z.leb_spec (bh - (if funder then fee else 0)) hd);
    destruct (skip || (bc - (if funder then 0 else fee) <=? hd)) eqn:E; destruct funder; lia.
  - intros Hbad.
    destruct (Z.ltb_spec (bc - (if funder then 0 else fee)) 0) as [|Hc]; [reflexivity|].
    destruct (Z.ltb_spec (bh - (if funder then fee else 0)) 0) as [|Hh]; [reflexivity|].
    destruct funder; lia.
Qed.

(** ** Packaged statement *)
Definition commit_conserves_stmt : Prop :=
  forall ct local funder v s htlcs fr dust,
  commit_pre ct local funder v s htlcs fr dust ->
  exists ca,
    build_commitment ct local funder v s htlcs fr dust = Some ca /\
    build_commitment_safe ct local v htlcs fr dust = true /\
    (* the trim: a partition of the input by the dust predicate *)
    Permutation (ca_nondust ca ++ ca_dust ca) htlcs /\
    Forall (fun h => h_is_dust ct fr dust h = true) (ca_dust ca) /\
    Forall (fun h => h_is_dust ct fr dust h = false) (ca_nondust ca) /\
    ca_commit_tx_fee_sat ca = commit_tx_fee_sat fr (Z.of_nat (List.length (ca_nondust ca))) ct /\
    (* the itemised fee: every item is non-negative; the funder pays [min fee balance] (saturating branch) *)
    (let '(vs, vr) := pre_dust_values funder ca in
     0 <= Z.min (ca_commit_tx_fee_sat ca) (funder_before_fee_sat funder ca) /\
     0 <= total_anchors_sat ct - sum_z (anchors_in_tx ct (ca_to_broadcaster_sat ca) (ca_to_countersignatory_sat ca) (ca_nondust ca)) /\
     0 <= vs + vr - ca_to_broadcaster_sat ca - ca_to_countersignatory_sat ca /\
     0 <= htlcs_msat (ca_dust ca) /\ 0 <= htlcs_rem (ca_nondust ca) /\
     0 <= ca_local_balance_before_fee_msat ca mod 1000 < 1000 /\
     0 <= ca_remote_balance_before_fee_msat ca mod 1000 < 1000 /\
     (if funder then vs else vr) =
       funder_before_fee_sat funder ca - Z.min (ca_commit_tx_fee_sat ca) (funder_before_fee_sat funder ca)) /\
    (* conservation, whenever the funder can pay for the anchors *)
    (anchors_affordable ct local funder v s htlcs ->
     exists outs fee_paid,
       commit_tx_outputs ct v (ca_to_broadcaster_sat ca) (ca_to_countersignatory_sat ca) (ca_nondust ca) = Some outs /\
       sum_z outs + fee_paid = v /\ 0 <= fee_paid /\
       fee_breakdown_msat ct funder ca mod 1000 = 0 /\
       (if ctf_supports_anchor_zero_fee_commitments ct
        then
          let t := fee_breakdown_msat ct funder ca / 1000 in
          fee_paid = t - Z.min P2A_MAX_VALUE t /\
          sum_z outs = ca_to_broadcaster_sat ca + ca_to_countersignatory_sat ca + htlcs_sat (ca_nondust ca)
                       + Z.min P2A_MAX_VALUE t
        else
          1000 * fee_paid = fee_breakdown_msat ct funder ca /\
          sum_z outs = ca_to_broadcaster_sat ca + ca_to_countersignatory_sat ca + htlcs_sat (ca_nondust ca)
                       + sum_z (anchors_in_tx ct (ca_to_broadcaster_sat ca) (ca_to_countersignatory_sat ca) (ca_nondust ca)))).

Lemma commit_conserves : commit_conserves_stmt.
Proof.
  intros ct local funder v s htlcs fr dust Hpre.
  destruct (build_commitment_some _ _ _ _ _ _ _ _ Hpre) as (ca & Hb & Hsafe & Hnd & Hdu & Hfee).
  exists ca. split; [exact Hb|]. split; [exact Hsafe|].
  destruct (trim_exact _ _ _ _ _ _ _ _ _ Hpre Hb) as (Hperm & Hfd & Hfn & _).
  split; [exact Hperm|]. split; [exact Hfd|]. split; [exact Hfn|]. split; [exact Hfee|].
  split; [exact (fee_breakdown_items_nonneg _ _ _ _ _ _ _ _ _ Hpre Hb)|].
  intros Haff. exact (commit_tx_outputs_conserve _ _ _ _ _ _ _ _ _ Hpre Hb Haff).
Qed.

(** Non-vacuity: a concrete instance (anchors channel, counterparty's commitment, four HTLCs two of
    which are dust at one party's threshold) satisfies the preconditions and [anchors_affordable]. *)
Definition ex_htlcs : list htlc_out :=
  [mkHtlcOut true 5000000 1; mkHtlcOut false 353999 2; mkHtlcOut false 354000 3; mkHtlcOut true 100 4].

Lemma ex_commit_pre : commit_pre CT_Anchors false true 1000000 600000000 ex_htlcs 2500 354
  /\ anchors_affordable CT_Anchors false true 1000000 600000000 ex_htlcs.
Proof.
  split.
  - constructor; try (vm_compute; intuition congruence).
    unfold amounts_nonneg, ex_htlcs. repeat constructor; cbn; lia.
  - vm_compute. intuition congruence.
Qed.

Lemma ex_commit_value :
  option_map (fun ca => (ca_to_broadcaster_sat ca, ca_to_countersignatory_sat ca,
                         map ho_tag (ca_nondust ca), map ho_tag (ca_dust ca), ca_commit_tx_fee_sat ca))
    (build_commitment CT_Anchors false true 1000000 600000000 ex_htlcs 2500 354)
  = Some (394999, 594962, [1; 3], [2; 4], 3670).
Proof. vm_compute. reflexivity. Qed.

(** The partition holds for every successful run of the builder, whatever the inputs. *)
Lemma build_commitment_partition ct local funder v s htlcs fr dust ca :
  build_commitment ct local funder v s htlcs fr dust = Some ca ->
  ca_nondust ca = filter (fun h => negb (h_is_dust ct fr dust h)) htlcs /\
  ca_dust ca = filter (h_is_dust ct fr dust) htlcs /\
  Permutation (ca_nondust ca ++ ca_dust ca) htlcs.
Proof.
  unfold build_commitment.
  destruct (chk_sub s _); [|discriminate]. destruct (chk_sub (v * 1000) s); [|discriminate].
  destruct (chk_sub _ _); [|discriminate].
  destruct (saturating_sub_from_funder funder _ _ (sat_mul 64 (total_anchors_sat ct) 1000)) as [lb rb].
  destruct (saturating_sub_from_funder funder (lb / 1000) (rb / 1000) _) as [vs vr].
  intros [= <-]. cbn [ca_nondust ca_dust]. split; [reflexivity|]. split; [reflexivity|]. apply filter_perm.
Qed.
