(** C02 — forward admission arithmetic: proofs about the GENERATED definitions of Gen/CfgChecks.v,
    Gen/CltvChecks.v, Gen/FwdChecks.v and the glue of [Model/FwdAdmission.v]. stdlib + lia. *)
Require Import LdkV.Prim.U64 LdkV.Prim.Rs2vLib LdkV.Gen.Consts LdkV.Gen.CltvChecks LdkV.Gen.CfgChecks
  LdkV.Gen.FwdChecks LdkV.Model.FwdAdmission.
Open Scope Z_scope.

Local Ltac consts := repeat (autounfold with ldk_consts in *; autounfold with ldk_consts_c02 in * ).

Notation fc_prop := cc_forwarding_fee_proportional_millionths.
Notation fc_base := cc_forwarding_fee_base_msat.
Notation fc_delta := cc_cltv_expiry_delta.

(** [check_incoming_htlc_cltv] (generated): exact characterisation of acceptance. *)
Lemma cltv_ok_iff h out inn d :
  check_incoming_htlc_cltv h out inn d = ROk tt <->
  (inn >= out + d /\ inn > h + HTLC_FAIL_BACK_BUFFER /\ inn <= h + CLTV_FAR_FAR_AWAY /\
   out > h + LATENCY_GRACE_PERIOD_BLOCKS).
Proof.
  unfold check_incoming_htlc_cltv.
  destruct (Z.ltb_spec inn (out + d)); [split; [discriminate | lia]|].
  destruct (Z.leb_spec inn (h + HTLC_FAIL_BACK_BUFFER)); [split; [discriminate | lia]|].
  destruct (Z.ltb_spec (h + CLTV_FAR_FAR_AWAY) inn); [split; [discriminate | lia]|].
  destruct (Z.leb_spec out (h + LATENCY_GRACE_PERIOD_BLOCKS)); [split; [discriminate | lia]|].
  split; [lia | reflexivity].
Qed.

(** The advertised fee for forwarding [amt] under config [c] (BOLT 7), as an exact integer. *)
Definition adv_fee (c : ChannelConfig) (amt : Z) : Z := amt * fc_prop c / 1000000 + fc_base c.

Definition cfg_fee (amt_to_forward : Z) (c : ChannelConfig) : option Z :=
  opt_bind (chk_mul 64 amt_to_forward (fc_prop c))
           (fun prop_fee => chk_add 64 (prop_fee / 1000000) (fc_base c)).

Lemma cfg_fee_some amt c fee :
  cfg_fee amt c = Some fee ->
  amt * fc_prop c < 2 ^ 64 /\ fee = adv_fee c amt /\ fee < 2 ^ 64.
Proof.
  unfold cfg_fee, chk_mul, chk_add, opt_bind, adv_fee.
  destruct (Z.ltb_spec (amt * fc_prop c) (2 ^ 64)) as [Hm|Hm]; [|discriminate].
  destruct (Z.ltb_spec (amt * fc_prop c / 1000000 + fc_base c) (2 ^ 64)) as [Ha|Ha]; [|discriminate].
  intros [= <-]. auto.
Qed.

Lemma cfg_fee_none amt c :
  cfg_fee amt c = None ->
  2 ^ 64 <= amt * fc_prop c \/ 2 ^ 64 <= adv_fee c amt.
Proof.
  unfold cfg_fee, chk_mul, chk_add, opt_bind, adv_fee.
  destruct (Z.ltb_spec (amt * fc_prop c) (2 ^ 64)) as [Hm|Hm]; [|auto].
  destruct (Z.ltb_spec (amt * fc_prop c / 1000000 + fc_base c) (2 ^ 64)) as [Ha|Ha]; [discriminate|auto].
Qed.

(** The generated function, with its [let fee] / [is_none] / [unwrap] plumbing resolved. *)
Lemma internal_unfold in_amt in_cltv out_amt out_cltv c :
  internal_htlc_satisfies_config in_amt in_cltv out_amt out_cltv c =
  match cfg_fee out_amt c with
  | None => RErr "FeeInsufficient"
  | Some fee =>
    if (in_amt <? fee) || (in_amt - fee <? out_amt) then RErr "FeeInsufficient"
    else if in_cltv <? out_cltv + fc_delta c then RErr "IncorrectCLTVExpiry"
    else ROk tt
  end.
Proof.
  unfold internal_htlc_satisfies_config. cbv zeta. fold (cfg_fee out_amt c).
  destruct (cfg_fee out_amt c) as [fee|]; reflexivity.
Qed.

(** Exact characterisation of the per-config check. *)
Lemma internal_ok_sound in_amt in_cltv out_amt out_cltv c :
  internal_htlc_satisfies_config in_amt in_cltv out_amt out_cltv c = ROk tt ->
  (out_amt * fc_prop c < 2 ^ 64 /\ adv_fee c out_amt < 2 ^ 64 /\
   out_amt + adv_fee c out_amt <= in_amt /\ out_cltv + fc_delta c <= in_cltv).
Proof.
  rewrite internal_unfold.
  destruct (cfg_fee out_amt c) as [fee|] eqn:Hfee; [|discriminate].
  apply cfg_fee_some in Hfee. destruct Hfee as (Hm & -> & Hlt).
  destruct (Z.ltb_spec in_amt (adv_fee c out_amt)) as [H1|H1]; cbn [orb]; [discriminate|].
  destruct (Z.ltb_spec (in_amt - adv_fee c out_amt) out_amt) as [H2|H2]; [discriminate|].
  destruct (Z.ltb_spec in_cltv (out_cltv + fc_delta c)) as [H3|H3]; [discriminate|].
  intros _. lia.
Qed.

Lemma internal_ok_complete in_amt in_cltv out_amt out_cltv c :
  0 <= out_amt ->
  out_amt * fc_prop c < 2 ^ 64 -> adv_fee c out_amt < 2 ^ 64 ->
  out_amt + adv_fee c out_amt <= in_amt -> out_cltv + fc_delta c <= in_cltv ->
  internal_htlc_satisfies_config in_amt in_cltv out_amt out_cltv c = ROk tt.
Proof.
  intros H0 Hm Hf Ha Hc. rewrite internal_unfold.
  destruct (cfg_fee out_amt c) as [fee|] eqn:Hfee.
  - apply cfg_fee_some in Hfee. destruct Hfee as (_ & -> & _).
    destruct (Z.ltb_spec in_amt (adv_fee c out_amt)) as [H1|H1]; cbn [orb]; [lia|].
    destruct (Z.ltb_spec (in_amt - adv_fee c out_amt) out_amt) as [H2|H2]; [lia|].
    destruct (Z.ltb_spec in_cltv (out_cltv + fc_delta c)) as [H3|H3]; [lia|]. reflexivity.
  - apply cfg_fee_none in Hfee. lia.
Qed.

Lemma internal_ok_iff in_amt in_cltv out_amt out_cltv c :
  0 <= out_amt ->
  internal_htlc_satisfies_config in_amt in_cltv out_amt out_cltv c = ROk tt <->
  (out_amt * fc_prop c < 2 ^ 64 /\ adv_fee c out_amt < 2 ^ 64 /\
   out_amt + adv_fee c out_amt <= in_amt /\ out_cltv + fc_delta c <= in_cltv).
Proof.
  intros H0. split; [apply internal_ok_sound|].
  intros (H1 & H2 & H3 & H4). apply internal_ok_complete; assumption.
Qed.

(** The fee check fails closed: every rejection names its reason, fee first. *)
Lemma internal_errors in_amt in_cltv out_amt out_cltv c :
  0 <= out_amt ->
  (~ (out_amt * fc_prop c < 2 ^ 64 /\ adv_fee c out_amt < 2 ^ 64 /\ out_amt + adv_fee c out_amt <= in_amt) ->
     internal_htlc_satisfies_config in_amt in_cltv out_amt out_cltv c = RErr "FeeInsufficient") /\
  ((out_amt * fc_prop c < 2 ^ 64 /\ adv_fee c out_amt < 2 ^ 64 /\ out_amt + adv_fee c out_amt <= in_amt) ->
     in_cltv < out_cltv + fc_delta c ->
     internal_htlc_satisfies_config in_amt in_cltv out_amt out_cltv c = RErr "IncorrectCLTVExpiry").
Proof.
  intros Hnn. rewrite internal_unfold.
  destruct (cfg_fee out_amt c) as [fee|] eqn:Hfee.
  - apply cfg_fee_some in Hfee. destruct Hfee as (Hm & -> & Hlt).
    destruct (Z.ltb_spec in_amt (adv_fee c out_amt)) as [H1|H1]; cbn [orb].
    { split; [reflexivity | lia]. }
    destruct (Z.ltb_spec (in_amt - adv_fee c out_amt) out_amt) as [H2|H2].
    { split; [reflexivity | lia]. }
    destruct (Z.ltb_spec in_cltv (out_cltv + fc_delta c)) as [H3|H3].
    { split; [intros Hn; exfalso; apply Hn; lia | reflexivity]. }
    split; [intros Hn; exfalso; apply Hn; lia | lia].
  - apply cfg_fee_none in Hfee. split; [reflexivity | lia].
Qed.

(** No arithmetic panic for any input in the Rust types' ranges. *)
Lemma internal_safe in_amt in_cltv out_amt out_cltv c :
  in_u 64 in_amt = true -> in_u 32 in_cltv = true -> in_u 64 out_amt = true ->
  in_u 32 out_cltv = true -> cfg_in_range c = true ->
  internal_htlc_satisfies_config_safe in_amt in_cltv out_amt out_cltv c = true.
Proof.
  unfold cfg_in_range. rewrite !andb_true_iff, !in_u_iff.
  intros Hia Hic Hoa Hoc ((Hp & Hb) & Hd).
  unfold internal_htlc_satisfies_config_safe. cbv zeta. fold (cfg_fee out_amt c).
  destruct (cfg_fee out_amt c) as [fee|] eqn:Hfee; cbn [is_none is_some unwrap_z unwrap_or orb andb]; [|reflexivity].
  destruct (Z.ltb_spec in_amt fee) as [H1|H1]; cbn [orb andb]; [reflexivity|].
  destruct (Z.leb_spec 0 (in_amt - fee)) as [H0|H0]; [|lia]. cbn [andb].
  destruct (Z.ltb_spec (in_amt - fee) out_amt) as [H2|H2]; [reflexivity|].
  apply Z.ltb_lt. lia.
Qed.

(** ** The config state machine *)

Definition cfg_run (s : cfg_state) (ops : list cfg_op) : cfg_state := fold_left cfg_step ops s.

(** Ghost reading of [prev_config]: the previous config is always younger than the expiry, and every
    config in the state has a delta the API accepted. *)
Definition cfg_inv (s : cfg_state) : Prop :=
  MIN_CLTV_EXPIRY_DELTA <= fc_delta (cs_cur s) /\
  match cs_prev s with
  | None => True
  | Some (p, n) => 0 <= n < EXPIRE_PREV_CONFIG_TICKS /\ MIN_CLTV_EXPIRY_DELTA <= fc_delta p
  end.

Lemma cfg_step_inv s o : cfg_inv s -> cfg_inv (cfg_step s o).
Proof.
  unfold cfg_inv. intros (Hc & Hp). destruct o as [c| |a b d e]; cbn [cfg_step].
  - unfold api_update_config, api_delta_rejected. cbn [option_map unwrap_or].
    destruct (Z.ltb_spec (fc_delta c) MIN_CLTV_EXPIRY_DELTA) as [H|H]; cbn [fst].
    + auto.
    + unfold update_config. destruct (did_channel_update (cs_cur s) c); cbn [cs_cur cs_prev].
      * split; [lia|]. split; [consts; lia | lia].
      * split; [lia | exact Hp].
  - unfold maybe_expire_prev_config. destruct (cs_prev s) as [[p n]|] eqn:E.
    + unfold prev_config_expired.
      destruct (Z.eqb_spec (n + 1) EXPIRE_PREV_CONFIG_TICKS) as [H|H]; cbn [cs_cur cs_prev].
      * auto.
      * split; [exact Hc|]. destruct Hp as (Hn & Hd). split; [lia | exact Hd].
    + rewrite E. auto.
  - auto.
Qed.

Lemma cfg_run_inv ops : forall s, cfg_inv s -> cfg_inv (cfg_run s ops).
Proof.
  unfold cfg_run. induction ops as [|o ops IH]; intros s Hs; cbn [fold_left].
  - exact Hs.
  - apply IH. apply cfg_step_inv. exact Hs.
Qed.

(** Ticks alone: after [EXPIRE_PREV_CONFIG_TICKS] of them the previous config is gone. *)
Fixpoint ticks (n : nat) : list cfg_op := match n with O => nil | S k => OpTick :: ticks k end.

Lemma tick_prev s : forall p n,
  cs_prev s = Some (p, n) -> 0 <= n < EXPIRE_PREV_CONFIG_TICKS ->
  cs_prev (cfg_run s (ticks (Z.to_nat (EXPIRE_PREV_CONFIG_TICKS - n)))) = None /\
  cs_cur (cfg_run s (ticks (Z.to_nat (EXPIRE_PREV_CONFIG_TICKS - n)))) = cs_cur s.
Proof.
  intros p n. remember (Z.to_nat (EXPIRE_PREV_CONFIG_TICKS - n)) as k eqn:Hk.
  revert s n Hk. induction k as [|k IH]; intros s n Hk Hprev Hn.
  - exfalso. lia.
  - cbn [ticks]. unfold cfg_run. cbn [fold_left cfg_step].
    assert (Hstep : maybe_expire_prev_config s =
              if n + 1 =? EXPIRE_PREV_CONFIG_TICKS then {| cs_cur := cs_cur s; cs_prev := None |}
              else {| cs_cur := cs_cur s; cs_prev := Some (p, n + 1) |})
      by (unfold maybe_expire_prev_config, prev_config_expired; rewrite Hprev; reflexivity).
    rewrite Hstep. clear Hstep.
    destruct (Z.eqb_spec (n + 1) EXPIRE_PREV_CONFIG_TICKS) as [He|He].
    + assert (k = O) as -> by lia. cbn [ticks fold_left cs_prev cs_cur]. auto.
    + specialize (IH {| cs_cur := cs_cur s; cs_prev := Some (p, n + 1) |} (n + 1)).
      cbn [cs_prev cs_cur] in IH. unfold cfg_run in IH. apply IH; [lia | reflexivity | lia].
Qed.

Lemma ticks_expire s :
  cfg_inv s ->
  let s' := cfg_run s (ticks (Z.to_nat EXPIRE_PREV_CONFIG_TICKS)) in
  cs_prev s' = None /\ cs_cur s' = cs_cur s.
Proof.
  intros (Hc & Hp). cbv zeta.
  assert (Hnone : forall k s0, cs_prev s0 = None ->
             cs_prev (cfg_run s0 (ticks k)) = None /\ cs_cur (cfg_run s0 (ticks k)) = cs_cur s0).
  { induction k as [|k IH]; intros s0 H0; cbn [ticks]; unfold cfg_run; cbn [fold_left cfg_step].
    - auto.
    - unfold maybe_expire_prev_config. rewrite H0. apply IH. exact H0. }
  destruct (cs_prev s) as [[p n]|] eqn:E.
  - destruct Hp as (Hn & _).
    replace (Z.to_nat EXPIRE_PREV_CONFIG_TICKS)
      with (Z.to_nat (EXPIRE_PREV_CONFIG_TICKS - n) + Z.to_nat n)%nat by lia.
    assert (Happ : forall a b, ticks (a + b) = ticks a ++ ticks b).
    { induction a as [|a IHa]; intros b; cbn [ticks Nat.add app]; [reflexivity | now rewrite IHa]. }
    rewrite Happ. unfold cfg_run. rewrite fold_left_app.
    destruct (tick_prev s p n E Hn) as (H1 & H2). unfold cfg_run in H1, H2.
    destruct (Hnone (Z.to_nat n) _ H1) as (H3 & H4). unfold cfg_run in H3, H4.
    split; [exact H3 | now rewrite H4].
  - apply Hnone. exact E.
Qed.

(** ** Admission *)

(** A forward accepted by [htlc_satisfies_config] satisfies one of the (at most two) configs the
    channel currently honours, with no overflow anywhere in the fee computation. *)
Lemma htlc_satisfies_config_sound s in_amt in_cltv out_amt out_cltv :
  htlc_satisfies_config s in_amt in_cltv out_amt out_cltv = ROk tt ->
  exists c, (c = cs_cur s \/ exists n, cs_prev s = Some (c, n)) /\
    out_amt * fc_prop c < 2 ^ 64 /\ adv_fee c out_amt < 2 ^ 64 /\
    out_amt + adv_fee c out_amt <= in_amt /\ out_cltv + fc_delta c <= in_cltv.
Proof.
  unfold htlc_satisfies_config.
  destruct (internal_htlc_satisfies_config in_amt in_cltv out_amt out_cltv (cs_cur s)) as [[]|e] eqn:E1.
  - intros _. exists (cs_cur s). split; [auto|]. apply internal_ok_sound. exact E1.
  - destruct (cs_prev s) as [[p n]|] eqn:E2; [|discriminate].
    intros E3. exists p. split; [right; exists n; reflexivity|]. apply internal_ok_sound. exact E3.
Qed.

(** ... and conversely nothing that satisfies the current or the previous config is refused. *)
Lemma htlc_satisfies_config_complete s in_amt in_cltv out_amt out_cltv c :
  0 <= out_amt ->
  (c = cs_cur s \/ exists n, cs_prev s = Some (c, n)) ->
  out_amt * fc_prop c < 2 ^ 64 -> adv_fee c out_amt < 2 ^ 64 ->
  out_amt + adv_fee c out_amt <= in_amt -> out_cltv + fc_delta c <= in_cltv ->
  htlc_satisfies_config s in_amt in_cltv out_amt out_cltv = ROk tt.
Proof.
  intros H0 Hc H1 H2 H3 H4.
  assert (Hok : internal_htlc_satisfies_config in_amt in_cltv out_amt out_cltv c = ROk tt)
    by (apply internal_ok_complete; auto).
  unfold htlc_satisfies_config. destruct Hc as [->|(n & Hp)].
  - rewrite Hok. reflexivity.
  - destruct (internal_htlc_satisfies_config in_amt in_cltv out_amt out_cltv (cs_cur s)) as [[]|e]; [reflexivity|].
    rewrite Hp. exact Hok.
Qed.

(** The statement of the property for the amount/expiry clause, over every reachable config state:
    whatever sequence of config updates and timer ticks preceded, an accepted forward offers
    downstream no more than what was received less the fee and delta of a config that is current or
    was replaced fewer than [EXPIRE_PREV_CONFIG_TICKS] ticks ago, that delta is at least
    [MIN_CLTV_EXPIRY_DELTA], and together with [check_incoming_htlc_cltv] the forward has the whole
    on-chain window of C08. *)
Lemma admission s0 ops h in_amt in_cltv out_amt out_cltv :
  cfg_inv s0 ->
  let s := cfg_run s0 ops in
  htlc_satisfies_config s in_amt in_cltv out_amt out_cltv = ROk tt ->
  check_incoming_htlc_cltv h out_cltv in_cltv MIN_CLTV_EXPIRY_DELTA = ROk tt ->
  exists c,
    (c = cs_cur s \/ exists n, cs_prev s = Some (c, n) /\ 0 <= n < EXPIRE_PREV_CONFIG_TICKS) /\
    out_amt + adv_fee c out_amt <= in_amt /\
    out_cltv + fc_delta c <= in_cltv /\
    MIN_CLTV_EXPIRY_DELTA <= fc_delta c /\
    out_cltv + MIN_CLTV_EXPIRY_DELTA <= in_cltv /\
    in_cltv > h + HTLC_FAIL_BACK_BUFFER /\ out_cltv > h + LATENCY_GRACE_PERIOD_BLOCKS.
Proof.
  intros Hinv s Hok Hcltv.
  assert (Hs : cfg_inv s) by (apply cfg_run_inv; exact Hinv).
  apply htlc_satisfies_config_sound in Hok. destruct Hok as (c & Hc & _ & _ & Hamt & Hd).
  apply cltv_ok_iff in Hcltv. destruct Hcltv as (Hm & Hsoon & _ & Hout).
  destruct Hs as (Hcur & Hprev).
  exists c. destruct Hc as [->|(n & Hp)].
  - split; [auto|]. repeat split; try lia.
  - rewrite Hp in Hprev. destruct Hprev as (Hn & Hpd).
    split; [right; exists n; auto|]. repeat split; try lia.
Qed.

(** With a non-negative fee schedule the node's take is non-negative: it never pays to forward. *)
Lemma admission_no_loss c in_amt out_amt :
  0 <= fc_prop c -> 0 <= fc_base c -> 0 <= out_amt ->
  out_amt + adv_fee c out_amt <= in_amt ->
  out_amt <= in_amt /\ adv_fee c out_amt <= in_amt - out_amt /\ 0 <= adv_fee c out_amt.
Proof.
  intros Hp Hb Ho H. unfold adv_fee in *.
  assert (0 <= out_amt * fc_prop c / 1000000) by (apply Z.div_pos; nia).
  lia.
Qed.

Lemma unknown_chan_sanity_sound in_amt in_cltv out_amt out_cltv :
  unknown_chan_sanity in_amt in_cltv out_amt out_cltv = ROk tt ->
  out_amt <= in_amt /\ out_cltv + MIN_CLTV_EXPIRY_DELTA <= in_cltv.
Proof.
  unfold unknown_chan_sanity, unknown_chan_amt_exceeds, unknown_chan_cltv_delta_too_small,
    unknown_chan_cltv_delta, sat_sub.
  destruct (Z.ltb_spec in_amt out_amt); [discriminate|].
  destruct (Z.ltb_spec (Z.max 0 (in_cltv - out_cltv)) MIN_CLTV_EXPIRY_DELTA) as [H1|H1]; [discriminate|].
  intros _. revert H1. consts. lia.
Qed.

(** Forwards to an SCID without a channel (phantom receive, interception): whatever the kind of SCID
    and the interception flags, an accepted HTLC asks for no more than it carries and leaves the
    minimum delta; in particular what [HTLCIntercepted] reports as [expected_outbound_amount_msat]
    (= the onion's amount) never exceeds [inbound_amount_msat]. *)
Lemma no_channel_admission_sound k fi fu h in_amt in_cltv out_amt out_cltv b :
  no_channel_admission k fi fu h in_amt in_cltv out_amt out_cltv = ROk b ->
  out_amt <= in_amt /\ out_cltv + MIN_CLTV_EXPIRY_DELTA <= in_cltv /\
  in_cltv > h + HTLC_FAIL_BACK_BUFFER /\ out_cltv > h + LATENCY_GRACE_PERIOD_BLOCKS /\
  (b = true -> needs_intercept_unknown k fi fu = true) /\ (b = false -> k = ScidPhantom).
Proof.
  unfold no_channel_admission, unknown_chan_amt_exceeds, unknown_chan_cltv_delta_too_small,
    unknown_chan_cltv_delta, sat_sub.
  destruct (Z.ltb_spec in_amt out_amt) as [H1|H1]; [discriminate|].
  destruct (Z.ltb_spec (Z.max 0 (in_cltv - out_cltv)) MIN_CLTV_EXPIRY_DELTA) as [H2|H2]; [discriminate|].
  assert (Hd : out_cltv + MIN_CLTV_EXPIRY_DELTA <= in_cltv) by (revert H2; consts; lia).
  destruct k; cbn [needs_intercept_unknown].
  - destruct (check_incoming_htlc_cltv h out_cltv in_cltv MIN_CLTV_EXPIRY_DELTA) as [[]|e] eqn:E; [|discriminate].
    intros [= <-]. apply cltv_ok_iff in E. repeat split; try lia; try discriminate; reflexivity.
  - destruct fi; [|discriminate].
    destruct (check_incoming_htlc_cltv h out_cltv in_cltv MIN_CLTV_EXPIRY_DELTA) as [[]|e] eqn:E; [|discriminate].
    intros [= <-]. apply cltv_ok_iff in E. repeat split; try lia; try discriminate; reflexivity.
  - destruct fu; [|discriminate].
    destruct (check_incoming_htlc_cltv h out_cltv in_cltv MIN_CLTV_EXPIRY_DELTA) as [[]|e] eqn:E; [|discriminate].
    intros [= <-]. apply cltv_ok_iff in E. repeat split; try lia; try discriminate; reflexivity.
Qed.

(** ** [amt_to_forward_msat] *)

(** the closure [fee_for] of [amt_to_forward_msat] *)
Definition fee_for (base prop amt : Z) : Z := amt * prop / 1000000 + base.

(** The generated function with its record projections and local closure resolved. *)
Definition a2f (inbound_amt base prop : Z) : option Z :=
  match chk_sub inbound_amt base with
  | None => None
  | Some post_base_fee_inbound_amt =>
    let amt_to_forward := post_base_fee_inbound_amt * 1000000 / (prop + 1000000) in
    let one_more := amt_to_forward + 1 in
    let amt_to_forward :=
      if one_more + fee_for base prop one_more <=? inbound_amt then one_more else amt_to_forward in
    if amt_to_forward =? 0 then None
    else if in_u 64 amt_to_forward then Some amt_to_forward else None
  end.

Lemma a2f_unfold inbound r :
  amt_to_forward_msat inbound r = a2f inbound (pr_fee_base_msat r) (pr_fee_proportional_millionths r).
Proof.
  unfold amt_to_forward_msat, a2f, fee_for, try_into_u. cbv zeta.
  destruct (chk_sub inbound (pr_fee_base_msat r)); reflexivity.
Qed.


Definition gross (base prop a : Z) : Z := a + fee_for base prop a.

Lemma gross_mono base prop a a' : 0 <= prop -> a < a' -> gross base prop a < gross base prop a'.
Proof.
  intros Hp Hlt. unfold gross, fee_for.
  assert (a * prop / 1000000 <= a' * prop / 1000000) by (apply Z.div_le_mono; nia).
  lia.
Qed.

Lemma gross_mono_le base prop a a' : 0 <= prop -> a <= a' -> gross base prop a <= gross base prop a'.
Proof.
  intros Hp Hle. destruct (Z.eq_dec a a') as [->|Hne]; [lia|].
  assert (gross base prop a < gross base prop a') by (apply gross_mono; lia). lia.
Qed.

Section Quotient.
  Variables (P prop : Z).
  Hypothesis HP : 0 <= P.
  Hypothesis Hprop : 0 <= prop.
  Let a0 := P * 1000000 / (prop + 1000000).

  Lemma a0_bounds : 0 <= a0 /\ (prop + 1000000) * a0 <= P * 1000000 < (prop + 1000000) * (a0 + 1).
  Proof.
    assert (HD : 0 < prop + 1000000) by lia.
    split; [apply Z.div_pos; lia|]. split.
    - apply Z.mul_div_le. exact HD.
    - replace (a0 + 1) with (Z.succ a0) by lia. apply Z.mul_succ_div_gt. exact HD.
  Qed.

  (** rounding down keeps the full fee *)
  Lemma a0_fits : a0 + a0 * prop / 1000000 <= P.
  Proof.
    destruct a0_bounds as (H0 & Hlo & Hhi).
    assert (a0 * prop / 1000000 < P - a0 + 1).
    { apply Z.div_lt_upper_bound; lia. }
    lia.
  Qed.

  (** the successor of the quotient already uses up everything, so two more never fit *)
  Lemma a1_tight : P <= (a0 + 1) + (a0 + 1) * prop / 1000000.
  Proof.
    destruct a0_bounds as (H0 & Hlo & Hhi).
    assert (P - (a0 + 1) <= (a0 + 1) * prop / 1000000).
    { apply Z.div_le_lower_bound; lia. }
    lia.
  Qed.
End Quotient.

(** [a2f] returns the LARGEST positive amount whose own fee still fits in what was received, or
    [None] exactly when no positive amount fits. *)
Lemma a2f_spec inbound base prop :
  0 <= inbound < 2 ^ 64 -> 0 <= base -> 0 <= prop ->
  match a2f inbound base prop with
  | Some a => 0 < a /\ gross base prop a <= inbound /\ (forall a', a < a' -> inbound < gross base prop a')
  | None => forall a', 0 < a' -> inbound < gross base prop a'
  end.
Proof.
  intros Hin Hb Hp. unfold a2f, chk_sub.
  destruct (Z.leb_spec base inbound) as [Hle|Hgt].
  2:{ intros a' Ha'. unfold gross, fee_for.
      assert (0 <= a' * prop / 1000000) by (apply Z.div_pos; nia). lia. }
  set (P := inbound - base). assert (HP : 0 <= P) by (unfold P; lia).
  set (a0 := P * 1000000 / (prop + 1000000)).
  destruct (a0_bounds P prop HP Hp) as (Ha0 & _).
  assert (Hfit := a0_fits P prop HP Hp). assert (Htight := a1_tight P prop HP Hp).
  fold a0 in Ha0, Hfit, Htight. cbv zeta.
  assert (Hg0 : gross base prop a0 <= inbound) by (unfold gross, fee_for, P in *; lia).
  assert (Hg1 : inbound <= gross base prop (a0 + 1)) by (unfold gross, fee_for, P in *; lia).
  assert (Hg2 : forall a', a0 + 1 < a' -> inbound < gross base prop a').
  { intros a' Ha'. assert (gross base prop (a0 + 1) < gross base prop a') by (apply gross_mono; lia). lia. }
  fold (gross base prop (a0 + 1)).
  destruct (Z.leb_spec (gross base prop (a0 + 1)) inbound) as [H1|H1].
  - (* one more fits *)
    destruct (Z.eqb_spec (a0 + 1) 0) as [E|E]; [lia|].
    assert (Hu : in_u 64 (a0 + 1) = true).
    { apply in_u_iff. unfold gross, fee_for in H1.
      assert (0 <= (a0 + 1) * prop / 1000000) by (apply Z.div_pos; nia). lia. }
    rewrite Hu. repeat split; try lia. exact Hg2.
  - assert (Hg : forall a', a0 < a' -> inbound < gross base prop a').
    { intros a' Ha'. assert (gross base prop (a0 + 1) <= gross base prop a') by (apply gross_mono_le; lia). lia. }
    destruct (Z.eqb_spec a0 0) as [E|E].
    + intros a' Ha'. apply Hg. lia.
    + assert (Hu : in_u 64 a0 = true).
      { apply in_u_iff. unfold gross, fee_for in Hg0.
        assert (0 <= a0 * prop / 1000000) by (apply Z.div_pos; nia). lia. }
      rewrite Hu. repeat split; try lia. exact Hg.
Qed.

Definition relay_in_range (r : PaymentRelay) : bool :=
  in_u 16 (pr_cltv_expiry_delta r) && in_u 32 (pr_fee_proportional_millionths r) &&
  in_u 32 (pr_fee_base_msat r).

(** what forwarding [a] costs the sender under relay parameters [r]: [a] plus the fee on [a] *)
Definition relay_gross (r : PaymentRelay) (a : Z) : Z :=
  a + (a * pr_fee_proportional_millionths r / 1000000 + pr_fee_base_msat r).

(** The generated [amt_to_forward_msat] returns the LARGEST amount whose fee still fits. *)
Lemma amt_to_forward_spec inbound r :
  0 <= inbound < 2 ^ 64 -> 0 <= pr_fee_base_msat r -> 0 <= pr_fee_proportional_millionths r ->
  match amt_to_forward_msat inbound r with
  | Some a => 0 < a /\ relay_gross r a <= inbound /\ (forall a', a < a' -> inbound < relay_gross r a')
  | None => forall a', 0 < a' -> inbound < relay_gross r a'
  end.
Proof.
  intros Hin Hb Hp. rewrite a2f_unfold.
  exact (a2f_spec inbound (pr_fee_base_msat r) (pr_fee_proportional_millionths r) Hin Hb Hp).
Qed.

(** It inverts the fee formula exactly: what a sender computes as [a + fee(a)] comes back as [a]. *)
Lemma amt_to_forward_inverts r a :
  0 < a -> 0 <= pr_fee_base_msat r -> 0 <= pr_fee_proportional_millionths r -> relay_gross r a < 2 ^ 64 ->
  amt_to_forward_msat (relay_gross r a) r = Some a.
Proof.
  intros Ha Hb Hp Hlt.
  set (base := pr_fee_base_msat r) in *. set (prop := pr_fee_proportional_millionths r) in *.
  assert (Hgr : forall x, relay_gross r x = gross base prop x) by reflexivity.
  assert (Hg0 : 0 <= gross base prop a).
  { unfold gross, fee_for. assert (0 <= a * prop / 1000000) by (apply Z.div_pos; nia). lia. }
  rewrite Hgr in *.
  assert (Hs := amt_to_forward_spec (gross base prop a) r ltac:(lia) Hb Hp).
  destruct (amt_to_forward_msat (gross base prop a) r) as [x|].
  - destruct Hs as (Hr & Hle & Hmax). rewrite Hgr in Hle.
    destruct (Z.lt_trichotomy x a) as [Hlt'|[->|Hgt]]; [|reflexivity|].
    + specialize (Hmax a Hlt'). rewrite Hgr in Hmax. lia.
    + assert (gross base prop a < gross base prop x) by (apply gross_mono; lia). lia.
  - specialize (Hs a Ha). rewrite Hgr in Hs. lia.
Qed.

(** No u128 overflow, no division by zero, and the [debug_assert!] holds, for every input in the
    Rust types' ranges. *)
Lemma amt_to_forward_safe inbound r :
  in_u 64 inbound = true -> relay_in_range r = true ->
  amt_to_forward_msat_safe inbound r = true.
Proof.
  unfold relay_in_range. rewrite !andb_true_iff, !in_u_iff. intros Hin ((_ & Hp) & Hb).
  unfold amt_to_forward_msat_safe, chk_sub. cbv zeta.
  set (base := pr_fee_base_msat r) in *. set (prop := pr_fee_proportional_millionths r) in *.
  destruct (Z.leb_spec base inbound) as [Hle|Hgt]; [|reflexivity].
  set (P := inbound - base). assert (HP : 0 <= P) by (unfold P; lia).
  set (a0 := P * 1000000 / (prop + 1000000)).
  destruct (a0_bounds P prop HP (proj1 Hp)) as (Ha0 & Hlo & _). fold a0 in Ha0, Hlo.
  assert (Hfit := a0_fits P prop HP (proj1 Hp)). fold a0 in Hfit.
  assert (Ha0P : a0 <= P).
  { assert (0 <= a0 * prop / 1000000) by (apply Z.div_pos; nia). lia. }
  assert (Hb1 : a0 + 1 <= 2 ^ 64) by (unfold P in *; lia).
  assert (Hm1 : 0 <= (a0 + 1) * prop < 2 ^ 96) by (change (2 ^ 96) with (2 ^ 64 * 2 ^ 32); nia).
  assert (Hm0 : 0 <= a0 * prop < 2 ^ 96) by (change (2 ^ 96) with (2 ^ 64 * 2 ^ 32); nia).
  assert (Hd1 : 0 <= (a0 + 1) * prop / 1000000 < 2 ^ 96).
  { split; [apply Z.div_pos; lia|]. apply Z.div_lt_upper_bound; lia. }
  assert (Hd0 : 0 <= a0 * prop / 1000000 < 2 ^ 96).
  { split; [apply Z.div_pos; lia|]. apply Z.div_lt_upper_bound; lia. }
  assert (Hnz : (prop + 1000000 =? 0) = false) by (apply Z.eqb_neq; lia).
  rewrite Hnz. cbn [negb].
  assert (HPin : P <= inbound /\ inbound < 2 ^ 64) by (unfold P; lia).
  Ltac fin := repeat (apply andb_true_iff; split);
              first [reflexivity | apply Z.ltb_lt; lia | apply Z.leb_le; lia].
  unfold P in Hfit.
  destruct (Z.leb_spec (a0 + 1 + ((a0 + 1) * prop / 1000000 + base)) inbound) as [H1|H1].
  - destruct (Z.eqb_spec (a0 + 1) 0); fin.
  - destruct (Z.eqb_spec a0 0); fin.
Qed.

(** [check_blinded_forward] (generated): what is offered downstream is what was received less the
    relay's fee (on the forwarded amount) and exactly its CLTV delta; it is the most that can be
    forwarded; the constraints hold; and the same numbers pass the channel-side check under the same
    parameters. *)
Lemma blinded_forward_sound in_amt in_cltv r pc unk out_amt out_cltv :
  0 <= in_amt < 2 ^ 64 -> 0 <= pr_fee_base_msat r -> 0 <= pr_fee_proportional_millionths r ->
  0 <= pr_cltv_expiry_delta r ->
  check_blinded_forward in_amt in_cltv r pc unk = ROk (out_amt, out_cltv) ->
  0 < out_amt /\ relay_gross r out_amt <= in_amt /\
  (forall a', out_amt < a' -> in_amt < relay_gross r a') /\
  out_cltv + pr_cltv_expiry_delta r = in_cltv /\ 0 <= out_cltv /\
  pc_htlc_minimum_msat pc <= in_amt /\ in_cltv <= pc_max_cltv_expiry pc /\ unk = false /\
  (out_amt * pr_fee_proportional_millionths r < 2 ^ 64 ->
   internal_htlc_satisfies_config in_amt in_cltv out_amt out_cltv
     (mkChannelConfig (pr_fee_proportional_millionths r) (pr_fee_base_msat r) (pr_cltv_expiry_delta r)) = ROk tt).
Proof.
  intros Hin Hb Hp Hd. unfold check_blinded_forward, check_blinded_payment_constraints, ok_or, chk_sub.
  assert (Hs := amt_to_forward_spec in_amt r Hin Hb Hp).
  destruct (amt_to_forward_msat in_amt r) as [a|]; [|discriminate].
  destruct (Z.leb_spec (pr_cltv_expiry_delta r) in_cltv) as [Hdl|Hdl]; [|discriminate].
  destruct (Z.ltb_spec in_amt (pc_htlc_minimum_msat pc)) as [Hm|Hm]; cbn [orb]; [discriminate|].
  destruct (Z.ltb_spec (pc_max_cltv_expiry pc) in_cltv) as [Hx|Hx]; [discriminate|].
  destruct unk; [discriminate|].
  intros [= <- <-]. destruct Hs as (Ha & Hle & Hmax). unfold relay_gross in *.
  repeat split; try lia.
  - intros a' Ha'. apply Hmax. exact Ha'.
  - intros Hov. assert (0 <= a * pr_fee_proportional_millionths r / 1000000) by (apply Z.div_pos; nia).
    apply internal_ok_complete; unfold adv_fee; cbn [cc_forwarding_fee_proportional_millionths
      cc_forwarding_fee_base_msat cc_cltv_expiry_delta]; lia.
Qed.
