(** C03 — proofs, part 4: the fee a PaymentSent reports is the sum of the fees of the parts that are
    pending at the claim — also for a payment that was abandoned before (parts that failed after the
    abandonment are no longer counted) and whatever a restart re-inserts (a session priv that is
    already tracked is not counted again).

    [F] maps a session priv to the fee of the path it was handed out for. The only hypothesis about
    the run is that it is [consistent] with ONE such function: no session priv is handed out twice
    with different fees (an assumption about the entropy source; the model's counter satisfies it). *)
Require Import LdkV.Prim.U64 LdkV.Gen.ConstsC03 LdkV.Model.Outbound LdkV.Proofs.C03 LdkV.Proofs.C03b LdkV.Proofs.C03c.
Open Scope Z_scope.

Definition sumf (F : Z -> Z) (l : list Z) : Z := sum (map F l).

Definition wfp (F : Z -> Z) (p : payment) : Prop :=
  NoDup (parts_of p) /\
  match p with
  | Retryable _ _ _ parts _ _ pf _ _ => forall x, pf = Some x -> x = sumf F parts
  | Abandoned parts _ _ _ f => forall x, f = Some x -> x = sumf F parts
  | _ => True
  end.

Definition wfe (F : Z -> Z) (e : option payment) : Prop := match e with Some p => wfp F p | None => True end.

Definition consistent (F : Z -> Z) (outs : list out) : Prop :=
  forall sp i h a f r, In (ONew sp i h a f r) outs -> F sp = f.

Lemma consistent_app F a b : consistent F (a ++ b) <-> consistent F a /\ consistent F b.
Proof.
  unfold consistent. split.
  - intros H. split; intros sp i h x f r Hin; apply (H sp i h x f r); apply in_or_app; auto.
  - intros [Ha Hb] sp i h x f r Hin. apply in_app_or in Hin as [Hin|Hin]; eauto.
Qed.

Lemma consistent_nil F : consistent F [].
Proof. intros sp i h a f r []. Qed.

Section Fee.
Variable F : Z -> Z.
Hypothesis Fpos : forall sp, 0 <= F sp.

Lemma sum_app (a b : list Z) : sum (a ++ b) = sum a + sum b.
Proof. induction a as [|x t IH]; cbn [app]; [unfold sum; cbn; lia|]. unfold sum in *. cbn [fold_right]. lia. Qed.

Lemma sumf_app a b : sumf F (a ++ b) = sumf F a + sumf F b.
Proof. unfold sumf. rewrite map_app. apply sum_app. Qed.

Lemma sumf_nonneg l : 0 <= sumf F l.
Proof. unfold sumf. induction l as [|x t IH]; cbn [map sum fold_right]; [lia|]. fold (sum (map F t)). pose proof (Fpos x). lia. Qed.

Lemma sumf_rm sp l : In sp l -> sumf F (rm sp l) = sumf F l - F sp.
Proof.
  unfold sumf. induction l as [|y t IH]; intros Hin; [destruct Hin|]. cbn [rm].
  destruct (Z.eqb_spec sp y) as [->|Hne].
  - cbn [map sum fold_right]. fold (sum (map F t)). lia.
  - destruct Hin as [->|Hin]; [contradiction|]. cbn [map sum fold_right]. fold (sum (map F (rm sp t))). fold (sum (map F t)).
    rewrite IH by exact Hin. lia.
Qed.

Lemma sumf_ge sp l : In sp l -> F sp <= sumf F l.
Proof. intros Hin. pose proof (sumf_rm sp l Hin). pose proof (sumf_nonneg (rm sp l)). lia. Qed.

Lemma In_rm_inv x y l : In y (rm x l) -> In y l.
Proof.
  induction l as [|z t IH]; cbn [rm]; [intros []|]. destruct (x =? z); cbn [In]; [auto|]. intros [H|H]; auto.
Qed.

Lemma NoDup_rm x l : NoDup l -> NoDup (rm x l).
Proof.
  induction l as [|z t IH]; intros Hn; cbn [rm]; [constructor|]. inversion Hn as [|? ? Hnot Hnt]; subst.
  destruct (x =? z); [exact Hnt|]. constructor; [|apply IH; exact Hnt].
  intros Hin. apply Hnot. eapply In_rm_inv. exact Hin.
Qed.

Lemma NoDup_snoc (x : Z) l : NoDup l -> ~ In x l -> NoDup (l ++ [x]).
Proof.
  induction l as [|y t IH]; intros Hn Hx; cbn [app]; [constructor; [intros []|constructor]|].
  inversion Hn as [|? ? Hnot Hnt]; subst. constructor.
  - intros Hin. apply in_app_or in Hin as [Hin|[<-|[]]]; [contradiction|]. apply Hx. left. reflexivity.
  - apply IH; [exact Hnt|]. intros H. apply Hx. right. exact H.
Qed.

(** ** the entry methods *)
Lemma pm_insert_wf p sp amt : wfp F p -> wfp F (fst (pm_insert p sp amt (F sp))).
Proof.
  intros [Hnd Hfee]. destruct p as [r a hp parts h pa pf tot rf|parts h t tot f|parts h r tot f|n r]; cbn [pm_insert];
    try (split; assumption).
  destruct (mem sp parts) eqn:Em; cbn [fst]; [split; assumption|].
  split.
  - cbn [parts_of] in *. apply NoDup_snoc; [exact Hnd|]. intros Hx. apply (proj2 (mem_In _ _)) in Hx. congruence.
  - intros x Hx. destruct pf as [f0|]; [|discriminate]. cbn [option_map] in Hx. injection Hx as <-.
    rewrite sumf_app, (Hfee f0 eq_refl). unfold sumf. cbn [map sum fold_right]. lia.
Qed.

Lemma pm_remove_wf p sp amt : wfp F p -> wfp F (fst (pm_remove p sp amt (F sp))).
Proof.
  intros [Hnd Hfee]. destruct p as [r a hp parts h pa pf tot rf|parts h t tot f|parts h r tot f|n r]; cbn [pm_remove parts_of] in *;
    try (split; assumption); destruct (mem sp parts) eqn:Em; cbn [fst parts_of]; try (split; assumption).
  - apply mem_In in Em. split; [apply NoDup_rm; exact Hnd|].
    intros x Hx. destruct pf as [f0|]; [|discriminate]. cbn [option_map] in Hx. injection Hx as <-.
    rewrite (sumf_rm sp parts Em), (Hfee f0 eq_refl). reflexivity.
  - split; [apply NoDup_rm; exact Hnd|exact I].
  - apply mem_In in Em. split; [apply NoDup_rm; exact Hnd|].
    intros x Hx. destruct f as [f0|]; [|discriminate]. cbn [option_map] in Hx. injection Hx as <-.
    rewrite (sumf_rm sp parts Em), (Hfee f0 eq_refl). pose proof (sumf_ge sp parts Em). unfold sat_sub. lia.
Qed.

(** on a Fulfilled entry the fee argument does not matter *)
Lemma pm_remove_fulfilled_wf p sp amt fee : is_fulfilled p = true -> wfp F p -> wfp F (fst (pm_remove p sp amt fee)).
Proof.
  destruct p; try discriminate. intros _ [Hnd _]. cbn [pm_remove parts_of] in *. destruct (mem sp parts); cbn [fst parts_of];
    (split; [|exact I]); [apply NoDup_rm|]; exact Hnd.
Qed.

Lemma mark_abandoned_wf p reason : wfp F p -> wfp F (mark_abandoned p reason).
Proof. intros [Hnd Hfee]. destruct p; cbn [mark_abandoned]; split; assumption. Qed.

Lemma mark_fulfilled_wf p : wfp F p -> wfp F (mark_fulfilled p).
Proof. intros [Hnd Hfee]. destruct p; cbn [mark_fulfilled parts_of] in *; split; try assumption; exact I. Qed.

Lemma inc_attempts_wf p : wfp F p -> wfp F (inc_attempts p).
Proof. intros H. destruct p; exact H. Qed.

Lemma abandon_t_wf id reason c e : wfe F e -> wfe F (fst (abandon_t id reason c e)).
Proof.
  intros H. destruct e as [p|]; [|exact I]. unfold abandon_t. pose proof (mark_abandoned_wf p reason H) as Hm.
  destruct (mark_abandoned p reason) as [r a hp parts h pa pf tot rf|parts h t tot f|parts h r tot f|n r]; cbn [fst wfe];
    try exact Hm; [destruct (is_nil parts); cbn [fst wfe]; [exact I|exact Hm]|exact I].
Qed.

(** ** the transitions *)
Lemma claim_t_wf id pre sp amt oc c e : wfe F e -> wfe F (fst (claim_t id pre sp amt (F sp) oc c e)).
Proof.
  intros H. destruct e as [p|]; [|exact I]. unfold claim_t.
  destruct p as [r a hp parts h pa pf tot rf|parts h t tot f|parts h r tot f|n r]; try exact H;
    cbn [is_fulfilled]; destruct oc; cbn [fst snd wfe];
    try (match goal with |- context [pm_remove ?q _ _ _] =>
           pose proof (pm_remove_fulfilled_wf q sp amt (F sp) eq_refl) as Hr; destruct (pm_remove q sp amt (F sp)) as [p2 rem] end;
         cbn [fst wfe] in *; apply Hr);
    try (apply (mark_fulfilled_wf _ H)); try exact H.
Qed.

Lemma finalize_t_wf id sp c e : wfe F e -> wfe F (fst (finalize_t id sp c e)).
Proof.
  intros H. destruct e as [p|]; [|exact I]. unfold finalize_t. destruct (is_fulfilled p) eqn:Ef; [|exact H].
  pose proof (pm_remove_fulfilled_wf p sp 0 0 Ef H) as Hr. destruct (pm_remove p sp 0 0). exact Hr.
Qed.

Lemma fail_t_wf id sp amt perm probe c e : wfe F e -> wfe F (fst (fail_t id sp amt (F sp) perm probe c e)).
Proof.
  intros H. destruct e as [p|]; [|exact I]. unfold fail_t.
  assert (Hrest : forall p1 : payment, wfp F p1 ->
            wfe F (fst (let p2 := if probe || negb (is_auto_retryable_now p1) || perm
                                   then mark_abandoned p1 (if perm then R_RecipientRejected else R_RetriesExhausted) else p1 in
                        let pathev := if probe then (if perm then EvProbeOk id sp else EvProbeFailed id sp)
                                      else EvPathFailed id sp perm false in
                        if is_nil (parts_of p2) then
                          match p2 with
                          | Abandoned _ h r _ _ =>
                              (None, OEv pathev :: (if probe then [OGone id 1] else [OEv (EvFailed id (Some h) r)]))
                          | _ => (Some p2, [OEv pathev])
                          end
                        else (Some p2, [OEv pathev])))).
  { intros p1 Hr. cbv zeta.
    set (b := probe || negb (is_auto_retryable_now p1) || perm).
    assert (H2 : wfp F (if b then mark_abandoned p1 (if perm then R_RecipientRejected else R_RetriesExhausted) else p1))
      by (destruct b; [apply mark_abandoned_wf|]; exact Hr).
    destruct (if b then mark_abandoned p1 (if perm then R_RecipientRejected else R_RetriesExhausted) else p1)
      as [r2 a2 hp2 parts2 h2 pa2 pf2 tot2 rf2|parts2 h2 t2 tot2 f2|parts2 h2 r2 tot2 f2|n2 r2];
      cbn [parts_of]; try (destruct (is_nil parts2)); cbn [fst wfe]; try exact H2; exact I. }
  destruct p as [r a hp parts h pa pf tot rf|parts h t tot f|parts h r tot f|n r]; try exact H.
  all: pose proof (pm_remove_wf _ sp amt H) as Hr.
  all: destruct (pm_remove _ sp amt (F sp)) as [p1 removed]; cbn [fst] in Hr.
  all: destruct removed; cbn [negb]; [|exact H].
  all: destruct (is_fulfilled p1); [exact Hr|apply Hrest; exact Hr].
Qed.

Lemma tick_t_wf q id c e : wfe F e -> wfe F (fst (tick_t q id c e)).
Proof.
  intros H. destruct e as [p|]; [|exact I]. unfold tick_t.
  destruct p as [r a hp parts h pa pf tot rf|parts h t tot f|parts h r tot f|n r]; try exact H.
  - destruct (is_nil parts && _); [destruct (t + 1 <=? IDEMPOTENCY_TIMEOUT_TICKS)|]; cbn [fst wfe]; try exact I; exact H.
  - destruct (0 <? n); cbn [fst wfe]; [split; [constructor|exact I]|exact I].
Qed.

Lemma startup_t_wf id hash sp amt c e : wfe F e -> wfe F (fst (startup_t id hash sp amt (F sp) c e)).
Proof.
  assert (Hnew : wfp F (Retryable None 0 false [sp] hash amt (Some (F sp)) amt None)).
  { split; [constructor; [intros []|constructor]|]. intros x [= <-]. unfold sumf. cbn. lia. }
  intros H. destruct e as [p|]; [|exact Hnew]. unfold startup_t.
  destruct p as [r a hp parts h pa pf tot rf|parts h t tot f|parts h r tot f|n r]; cbn [fst wfe]; try exact Hnew;
    apply pm_insert_wf; exact H.
Qed.

Lemma retain_t_wf id c e : wfe F e -> wfe F (fst (retain_t id c e)).
Proof.
  intros H. destruct e as [p|]; [|exact I]. unfold retain_t.
  destruct (negb (is_auto_retryable_now p) && is_nil (parts_of p) && negb (is_awaiting p)); [|exact H].
  pose proof (mark_abandoned_wf p R_RetriesExhausted H) as Hm.
  destruct (mark_abandoned p R_RetriesExhausted); cbn [fst wfe]; try exact Hm; exact I.
Qed.

(** ** routes *)
Lemma insert_all_wf id h : forall paths p sp,
  wfp F p -> (forall i x, nth_error paths i = Some x -> F (sp + Z.of_nat i) = pr_fee x) ->
  wfp F (fst (insert_all id h p sp paths)).
Proof.
  induction paths as [|x t IH]; intros p sp Hw Hf; cbn [insert_all]; [exact Hw|].
  pose proof (Hf 0%nat x eq_refl) as H0. replace (sp + Z.of_nat 0) with sp in H0 by lia.
  assert (Hw1 : wfp F (fst (pm_insert p sp (pr_amt x) (pr_fee x)))) by (rewrite <- H0; apply pm_insert_wf; exact Hw).
  specialize (IH (fst (pm_insert p sp (pr_amt x) (pr_fee x))) (sp + 1) Hw1).
  destruct (insert_all id h _ (sp + 1) t). cbn [fst] in *. apply IH.
  intros i x' Hn. replace (sp + 1 + Z.of_nat i) with (sp + Z.of_nat (S i)) by lia. apply Hf. exact Hn.
Qed.

Lemma drop_unsent_wf id : forall paths p sp,
  wfp F p -> (forall i x, nth_error paths i = Some x -> F (sp + Z.of_nat i) = pr_fee x) ->
  wfp F (fst (drop_unsent id p sp paths)).
Proof.
  induction paths as [|x t IH]; intros p sp Hw Hf; cbn [drop_unsent]; [exact Hw|].
  assert (Hf' : forall i x', nth_error t i = Some x' -> F (sp + 1 + Z.of_nat i) = pr_fee x').
  { intros i x' Hn. replace (sp + 1 + Z.of_nat i) with (sp + Z.of_nat (S i)) by lia. apply Hf. exact Hn. }
  destruct (unsent (pr_res x)); [|apply IH; assumption].
  pose proof (Hf 0%nat x eq_refl) as H0. replace (sp + Z.of_nat 0) with sp in H0 by lia.
  assert (Hw1 : wfp F (fst (pm_remove p sp (pr_amt x) (pr_fee x)))) by (rewrite <- H0; apply pm_remove_wf; exact Hw).
  specialize (IH (fst (pm_remove p sp (pr_amt x) (pr_fee x))) (sp + 1) Hw1 Hf').
  destruct (drop_unsent id _ (sp + 1) t). exact IH.
Qed.

(** what [insert_all] announces *)
Lemma insert_all_news_nth id h : forall paths p sp i x,
  nth_error paths i = Some x ->
  In (ONew (sp + Z.of_nat i) id h (pr_amt x) (pr_fee x) (pr_res x)) (snd (insert_all id h p sp paths)).
Proof.
  induction paths as [|x0 t IH]; intros p sp i x Hn; [destruct i; discriminate|]. cbn [insert_all].
  specialize (IH (fst (pm_insert p sp (pr_amt x0) (pr_fee x0))) (sp + 1)).
  destruct (insert_all id h _ (sp + 1) t) as [p2 outs]. cbn [snd] in *. destruct i as [|i].
  - injection Hn as <-. left. f_equal. lia.
  - right. replace (sp + Z.of_nat (S i)) with (sp + 1 + Z.of_nat i) by lia. apply IH. exact Hn.
Qed.

Lemma news_fees id h paths p sp :
  consistent F (snd (insert_all id h p sp paths)) ->
  forall i x, nth_error paths i = Some x -> F (sp + Z.of_nat i) = pr_fee x.
Proof. intros Hc i x Hn. eapply Hc. apply insert_all_news_nth. exact Hn. Qed.

Lemma frs_wf id : forall answers e c fv mf,
  wfe F e -> consistent F (snd (fst (frs answers id e c fv mf))) ->
  wfe F (fst (fst (frs answers id e c fv mf))).
Proof.
  induction answers as [|a rest IH]; intros e c fv mf Hw Hc.
  - cbn [frs fst snd] in *. apply abandon_t_wf. exact Hw.
  - destruct a as [|k fees over res]; [cbn [frs fst snd] in *; apply abandon_t_wf; exact Hw|].
    cbn [frs] in *.
    destruct e as [p|]; [|exact I].
    destruct p as [r a hp parts h pa pf tot rf|parts h t tot f|parts h r tot f|n r]; try exact Hw.
    destruct (tot * 110 / 100 <? sum (map pr_amt (paths_of fv k fees over res)) + pa);
      [cbn [fst snd] in *; apply abandon_t_wf; exact Hw|].
    destruct (negb (is_retryable_now (Retryable r a hp parts h pa pf tot rf)));
      [cbn [fst snd] in *; apply abandon_t_wf; exact Hw|].
    pose proof (insert_all_wf id h (paths_of fv k fees over res) (Retryable r a hp parts h pa pf tot rf) c Hw) as Hi.
    pose proof (news_fees id h (paths_of fv k fees over res) (Retryable r a hp parts h pa pf tot rf) c) as Hn.
    destruct (insert_all id h (Retryable r a hp parts h pa pf tot rf) c (paths_of fv k fees over res)) as [p1 news].
    cbn [fst snd] in *. unfold after_pay in *.
    pose proof (drop_unsent_wf id (paths_of fv k fees over res) (inc_attempts p1) c) as Hd.
    destruct (drop_unsent id (inc_attempts p1) c (paths_of fv k fees over res)) as [p3 evs]. cbn [fst snd] in *.
    destruct (existsb (fun x => negb (is_sok (pr_res x))) (paths_of fv k fees over res)
              && existsb (fun x => negb (unsent (pr_res x))) (paths_of fv k fees over res)).
    + destruct (existsb (fun x => unsent (pr_res x)) (paths_of fv k fees over res)).
      * specialize (IH (Some p3) (c + Z.of_nat (List.length (paths_of fv k fees over res)))
                       (sat_sub fv (ok_amt (paths_of fv k fees over res)))
                       (option_map (fun m => sat_sub m (ok_fee (paths_of fv k fees over res))) mf)).
        destruct (frs rest id (Some p3) _ _ _) as [[e' outs] rest']. cbn [fst snd] in *.
        apply consistent_app in Hc as [Hc1 Hc2]. apply consistent_app in Hc2 as [_ Hc3].
        apply IH; [|exact Hc3]. apply Hd; [apply inc_attempts_wf, Hi, Hn; exact Hc1|apply Hn; exact Hc1].
      * cbn [fst snd] in *. apply consistent_app in Hc as [Hc1 _]. apply inc_attempts_wf, Hi, Hn. exact Hc1.
    + destruct (existsb (fun x => negb (is_sok (pr_res x))) (paths_of fv k fees over res)).
      * specialize (IH (Some p3) (c + Z.of_nat (List.length (paths_of fv k fees over res))) fv mf).
        destruct (frs rest id (Some p3) _ _ _) as [[e' outs] rest']. cbn [fst snd] in *.
        apply consistent_app in Hc as [Hc1 Hc2]. apply consistent_app in Hc2 as [_ Hc3].
        apply IH; [|exact Hc3]. apply Hd; [apply inc_attempts_wf, Hi, Hn; exact Hc1|apply Hn; exact Hc1].
      * cbn [fst snd] in *. apply consistent_app in Hc as [Hc1 _]. apply inc_attempts_wf, Hi, Hn. exact Hc1.
Qed.

Lemma retry_loop_wf id : forall fuel answers e c,
  wfe F e -> consistent F (snd (retry_loop fuel answers id e c)) -> wfe F (fst (retry_loop fuel answers id e c)).
Proof.
  induction fuel as [|f IH]; intros answers e c Hw Hc; cbn [retry_loop] in *; [exact Hw|].
  destruct e as [p|]; [|exact I].
  destruct p as [r a hp parts h pa pf tot rf|parts h t tot f0|parts h r tot f0|n r]; try exact Hw.
  destruct (is_auto_retryable_now (Retryable r a hp parts h pa pf tot rf) && (pa <? tot)); [|exact Hw].
  pose proof (frs_wf id answers (Some (Retryable r a hp parts h pa pf tot rf)) c (tot - pa) rf Hw) as H1.
  destruct (frs answers id (Some (Retryable r a hp parts h pa pf tot rf)) c (tot - pa) rf) as [[e1 outs1] rest].
  cbn [fst snd] in *. specialize (IH rest e1 (c + count_new outs1)).
  destruct (retry_loop f rest id e1 (c + count_new outs1)) as [e2 outs2]. cbn [fst snd] in *.
  apply consistent_app in Hc as [Hc1 Hc2]. apply IH; [apply H1; exact Hc1|exact Hc2].
Qed.

Lemma retry_t_wf answers id c e :
  wfe F e -> consistent F (snd (retry_t answers id c e)) -> wfe F (fst (retry_t answers id c e)).
Proof. unfold retry_t. apply retry_loop_wf. Qed.

Lemma cons_cons (o : out) outs : consistent F (o :: outs) -> consistent F outs.
Proof. intros H sp i h a f r Hin. apply (H sp i h a f r). right. exact Hin. Qed.

Lemma add_t_wf id hash retry paths mf c e :
  wfe F e -> consistent F (snd (add_t id hash retry paths mf c e)) -> wfe F (fst (add_t id hash retry paths mf c e)).
Proof.
  intros Hw Hc. unfold add_t in *. destruct e as [p|]; [exact Hw|].
  set (ps := map (fun af : Z * Z => {| pr_amt := fst af; pr_fee := snd af; pr_res := SOk |}) paths) in *.
  set (p0 := Retryable retry 0 true [] hash 0 (Some 0) (sum (map pr_amt ps)) mf) in *.
  assert (H0 : wfp F p0). { split; [constructor|]. intros x [= <-]. reflexivity. }
  pose proof (insert_all_wf id hash ps p0 c H0) as Hi. pose proof (news_fees id hash ps p0 c) as Hn.
  destruct (insert_all id hash p0 c ps) as [p1 news]. cbn [fst snd wfe] in *.
  apply Hi, Hn. apply cons_cons, cons_cons in Hc. exact Hc.
Qed.

Lemma await_t_wf id ticks retry c e : wfe F e -> wfe F (fst (await_t id ticks retry c e)).
Proof. intros H. unfold await_t. destruct e; [exact H|]. cbn [fst wfe]. split; [constructor|exact I]. Qed.

Lemma send_t_wf id hash retry amt mf answers c e :
  wfe F e -> consistent F (snd (send_t id hash retry amt mf answers c e)) ->
  wfe F (fst (send_t id hash retry amt mf answers c e)).
Proof.
  intros Hw Hc. unfold send_t in *. destruct answers as [|[|k fees over res] rest]; try exact Hw.
  destruct e as [p|]; [exact Hw|].
  set (paths := paths_of amt k fees over res) in *.
  set (p0 := Retryable (Some retry) 0 true [] hash 0 (Some 0) (sum (map pr_amt paths)) mf) in *.
  assert (H0 : wfp F p0). { split; [constructor|]. intros x [= <-]. reflexivity. }
  pose proof (insert_all_wf id hash paths p0 c H0) as Hi. pose proof (news_fees id hash paths p0 c) as Hn.
  destruct (insert_all id hash p0 c paths) as [p1 news]. cbn [fst snd] in *. unfold after_pay in *.
  pose proof (drop_unsent_wf id paths p1 c) as Hd.
  destruct (drop_unsent id p1 c paths) as [p3 evs]. cbn [fst snd] in *.
  destruct (existsb (fun x => negb (is_sok (pr_res x))) paths && existsb (fun x => negb (unsent (pr_res x))) paths).
  - destruct (existsb (fun x => unsent (pr_res x)) paths).
    + pose proof (frs_wf id rest (Some p3) (c + Z.of_nat (List.length paths)) (sat_sub amt (ok_amt paths))
                    (option_map (fun m => sat_sub m (ok_fee paths)) mf)) as Hf.
      destruct (frs rest id (Some p3) _ _ _) as [[e' outs] rest']. cbn [fst snd] in *.
      apply cons_cons, cons_cons in Hc. apply consistent_app in Hc as [Hc1 Hc2]. apply consistent_app in Hc2 as [_ Hc3].
      apply Hf; [|exact Hc3]. apply Hd; [apply Hi, Hn; exact Hc1|apply Hn; exact Hc1].
    + cbn [fst snd wfe] in *. apply cons_cons, cons_cons in Hc. apply consistent_app in Hc as [Hc1 _]. apply Hi, Hn. exact Hc1.
  - destruct (existsb (fun x => negb (is_sok (pr_res x))) paths).
    + pose proof (frs_wf id rest (Some p3) (c + Z.of_nat (List.length paths)) amt mf) as Hf.
      destruct (frs rest id (Some p3) _ _ _) as [[e' outs] rest']. cbn [fst snd] in *.
      apply cons_cons, cons_cons in Hc. apply consistent_app in Hc as [Hc1 Hc2]. apply consistent_app in Hc2 as [_ Hc3].
      apply Hf; [|exact Hc3]. apply Hd; [apply Hi, Hn; exact Hc1|apply Hn; exact Hc1].
    + cbn [fst snd wfe] in *. apply cons_cons, cons_cons in Hc. apply consistent_app in Hc as [Hc1 _]. apply Hi, Hn. exact Hc1.
Qed.
End Fee.

(** * lifting to states and runs *)
Definition feeinv (F : Z -> Z) (s : state) : Prop :=
  (forall id p, get id (pm s) = Some p -> wfp F p) /\
  (forall sp h, get sp (htl s) = Some h -> h_fee h = F sp).

Lemma get_app_some {A} k (a b : list (Z * A)) v :
  get k (a ++ b) = Some v -> get k a = Some v \/ In (k, v) b.
Proof.
  induction a as [|[k' v'] t IH]; cbn [app get].
  - intros H. right. induction b as [|[k2 v2] b IHb]; [discriminate|]. cbn [get] in H.
    destruct (Z.eqb_spec k k2) as [->|Hne]; [injection H as ->; left; reflexivity|right; apply IHb; exact H].
  - destruct (k =? k'); [intros H; left; exact H|exact IH].
Qed.

Lemma news_of_in sp h outs :
  In (sp, h) (news_of outs) -> exists i hh a r, In (ONew sp i hh a (h_fee h) r) outs.
Proof.
  unfold news_of. intros Hin. apply in_flat_map in Hin as [o [Ho Hin]].
  destruct o; try (destruct Hin; fail). destruct Hin as [Hin|[]]. injection Hin as <- <-.
  exists id, hash, amt, r. exact Ho.
Qed.

Section Lift.
Variable F : Z -> Z.
Hypothesis Fpos : forall sp, 0 <= F sp.

(** a transition that keeps an entry well-formed when its own outputs are consistent with [F] *)
Definition fgood (t : etrans) : Prop :=
  forall c e, wfe F e -> consistent F (snd (t c e)) -> wfe F (fst (t c e)).

Lemma apply_e_fee id t s :
  fgood t -> feeinv F s -> consistent F (snd (apply_e id t s)) -> feeinv F (fst (apply_e id t s)).
Proof.
  intros Hg [Hp Hh] Hc. unfold apply_e in *.
  assert (Hw : wfe F (get id (pm s))).
  { destruct (get id (pm s)) as [p|] eqn:E; [exact (Hp id p E)|exact I]. }
  specialize (Hg (ctr s) (get id (pm s)) Hw).
  destruct (t (ctr s) (get id (pm s))) as [o outs]. cbn [fst snd pm htl] in *. specialize (Hg Hc).
  split.
  - intros id0 p0 H0. cbn [fst pm] in H0. destruct (Z.eq_dec id0 id) as [->|Hne].
    + rewrite get_set_eq in H0. subst o. exact Hg.
    + rewrite get_set_neq in H0 by exact Hne. exact (Hp id0 p0 H0).
  - intros sp h H0. cbn [fst htl] in H0. apply get_app_some in H0 as [H0|H0]; [exact (Hh sp h H0)|].
    apply news_of_in in H0 as (i & hh & a & r & Hin). symmetry. exact (Hc _ _ _ _ _ _ Hin).
Qed.

Lemma apply_each_fee ids (t : state -> Z -> etrans) :
  (forall s0 i, fgood (t s0 i)) ->
  forall s, feeinv F s -> consistent F (snd (apply_each ids t s)) -> feeinv F (fst (apply_each ids t s)).
Proof.
  intros Hg. induction ids as [|i rest IH]; intros s Hi Hc; cbn [apply_each] in *; [exact Hi|].
  pose proof (apply_e_fee i (t s i) s (Hg s i) Hi) as H1.
  destruct (apply_e i (t s i) s) as [s1 o1]. cbn [fst snd] in *.
  specialize (IH s1). destruct (apply_each rest t s1) as [s2 o2]. cbn [fst snd] in *.
  apply consistent_app in Hc as [Hc1 Hc2]. apply IH; [apply H1; exact Hc1|exact Hc2].
Qed.

Lemma with_htlc_fee s sp (f : hinfo -> state * list out) :
  feeinv F s ->
  (forall h, get sp (htl s) = Some h -> consistent F (snd (f h)) -> feeinv F (fst (f h))) ->
  consistent F (snd (with_htlc s sp f)) -> feeinv F (fst (with_htlc s sp f)).
Proof.
  intros Hi Hf Hc. unfold with_htlc in *. destruct (get sp (htl s)) as [h|] eqn:E; [apply Hf; [reflexivity|exact Hc]|exact Hi].
Qed.

Lemma step_fee s o : feeinv F s -> consistent F (snd (step s o)) -> feeinv F (fst (step s o)).
Proof.
  intros Hi Hc. destruct o; cbn [step] in *.
  - apply apply_e_fee; [intros c e; apply (add_t_wf F Fpos)|exact Hi|exact Hc].
  - apply apply_e_fee; [intros c e Hw _; apply await_t_wf; exact Hw|exact Hi|exact Hc].
  - apply apply_e_fee; [intros c e; apply (send_t_wf F Fpos)|exact Hi|exact Hc].
  - pose proof (apply_each_fee (keys (pm s)) (fun _ i => retry_t (answers_for i answers) i)
                  (fun _ i c e => retry_t_wf F Fpos _ i c e) s Hi) as H1.
    destruct (apply_each (keys (pm s)) _ s) as [s1 o1]. cbn [fst snd] in *.
    pose proof (apply_each_fee (keys (pm s1)) (fun _ i => retain_t i)
                  (fun _ i c e Hw _ => retain_t_wf F i c e Hw) s1) as H2.
    destruct (apply_each (keys (pm s1)) _ s1) as [s2 o2]. cbn [fst snd] in *.
    apply consistent_app in Hc as [Hc1 Hc2]. apply H2; [apply H1; exact Hc1|exact Hc2].
  - apply with_htlc_fee; [exact Hi| |exact Hc]. intros h Hh Hc'. destruct Hi as [Hp Hhh].
    rewrite (Hhh sp h Hh) in *. apply apply_e_fee; [intros c e Hw _; apply claim_t_wf; exact Hw|split; assumption|exact Hc'].
  - (* finalize *)
    assert (Hgen : forall acc0 : state * list out, feeinv F (fst acc0) ->
              consistent F (snd (fold_left (fun acc sp => let '(s0, o0) := acc in
                    let '(s1, o1) := with_htlc s0 sp (fun h => apply_e (h_id h) (finalize_t (h_id h) sp) s0) in
                    (s1, o0 ++ o1)) sps acc0)) ->
              feeinv F (fst (fold_left (fun acc sp => let '(s0, o0) := acc in
                    let '(s1, o1) := with_htlc s0 sp (fun h => apply_e (h_id h) (finalize_t (h_id h) sp) s0) in
                    (s1, o0 ++ o1)) sps acc0))).
    { clear Hc. induction sps as [|sp rest IH]; intros [s0 o0] Hi0 Hc0; cbn [fold_left] in *; [exact Hi0|].
      cbn [fst] in Hi0.
      pose proof (with_htlc_fee s0 sp (fun h => apply_e (h_id h) (finalize_t (h_id h) sp) s0) Hi0) as H1.
      assert (Hq : consistent F (snd (with_htlc s0 sp (fun h => apply_e (h_id h) (finalize_t (h_id h) sp) s0)))).
      { (* finalize_t allocates nothing *)
        unfold with_htlc. destruct (get sp (htl s0)) as [h|]; [|apply consistent_nil].
        unfold apply_e, finalize_t. destruct (get (h_id h) (pm s0)) as [p|]; [|apply consistent_nil].
        destruct (is_fulfilled p); [|intros x1 x2 x3 x4 x5 x6 [Hx|[]]; discriminate].
        destruct (pm_remove p sp 0 0) as [p1 [|]]; cbn [snd]; [intros x1 x2 x3 x4 x5 x6 [Hx|[]]; discriminate|apply consistent_nil]. }
      destruct (with_htlc s0 sp _) as [s1 o1]. cbn [fst snd] in *.
      apply (IH (s1, o0 ++ o1)); [|exact Hc0]. cbn [fst]. apply H1; [|exact Hq].
      intros h Hh Hc'. apply apply_e_fee; [intros c e Hw _; apply finalize_t_wf; exact Hw|exact Hi0|exact Hc']. }
    apply (Hgen (s, [])); [exact Hi|exact Hc].
  - apply with_htlc_fee; [exact Hi| |exact Hc]. intros h Hh Hc'. destruct Hi as [Hp Hhh].
    rewrite (Hhh sp h Hh) in *. apply apply_e_fee; [intros c e Hw _; apply (fail_t_wf F Fpos); exact Hw|split; assumption|exact Hc'].
  - apply apply_e_fee; [intros c e Hw _; apply abandon_t_wf; exact Hw|exact Hi|exact Hc].
  - apply (apply_each_fee (keys (pm s)) (fun s0 i => tick_t (evq s0) i)); [|exact Hi|exact Hc].
    intros s0 i c e Hw _. apply tick_t_wf. exact Hw.
  - destruct Hi as [Hp Hh]. split; cbn [fst pm htl]; assumption.
  - apply with_htlc_fee; [exact Hi| |exact Hc]. intros h Hh Hc'. destruct Hi as [Hp Hhh].
    rewrite (Hhh sp h Hh) in *. apply apply_e_fee; [intros c e Hw _; apply (startup_t_wf F Fpos); exact Hw|split; assumption|exact Hc'].
Qed.

Lemma run_fee : forall ops s,
  feeinv F s -> Forall (consistent F) (snd (run s ops)) -> feeinv F (fst (run s ops)).
Proof.
  induction ops as [|o rest IH]; intros s Hi Hc; cbn [run] in *; [exact Hi|].
  pose proof (step_fee s o Hi) as H1. destruct (step s o) as [s1 outs]. cbn [fst snd] in *.
  specialize (IH s1). destruct (run s1 rest) as [s2 tr]. cbn [fst snd] in *.
  inversion Hc as [|? ? Hc1 Hc2]; subst. apply IH; [apply H1; exact Hc1|exact Hc2].
Qed.

Lemma feeinv_init : feeinv F init.
Proof. split; intros ? ? H; discriminate. Qed.

(** The fee a PaymentSent reports is the sum of the fees of the parts pending at the claim. *)
Theorem sent_fee_sum s o id pre amt fee :
  feeinv F s -> In (OEv (EvSent id pre amt fee)) (snd (step s o)) ->
  exists p, get id (pm s) = Some p /\ is_fulfilled p = false /\
            forall x, fee = Some x -> x = sumf F (parts_of p).
Proof.
  intros [Hp _] Hin.
  destruct (sent_truth s o id pre amt fee Hin) as (sp & oc & h & p & _ & _ & _ & Hg & Hnf & _ & Hfee & _).
  exists p. split; [exact Hg|]. split; [exact Hnf|].
  destruct (Hp id p Hg) as [_ Hw]. subst fee.
  destruct p; cbn [get_pending_fee parts_of] in *; try exact Hw; try discriminate; intros x Hx; discriminate.
Qed.

Theorem sent_fee_sum_run ops o id pre amt fee :
  Forall (consistent F) (snd (run init ops)) ->
  In (OEv (EvSent id pre amt fee)) (snd (step (fst (run init ops)) o)) ->
  exists p, get id (pm (fst (run init ops))) = Some p /\ is_fulfilled p = false /\
            forall x, fee = Some x -> x = sumf F (parts_of p).
Proof. intros Hc. apply sent_fee_sum. apply run_fee; [apply feeinv_init|exact Hc]. Qed.
End Lift.

(** the statements as they are quoted in Props/C03.v *)
Lemma sent_fee_truth_any_state (F : Z -> Z) s o id pre amt fee :
  (forall sp, 0 <= F sp) -> feeinv F s ->
  In (OEv (EvSent id pre amt fee)) (snd (step s o)) ->
  exists p, get id (pm s) = Some p /\ is_fulfilled p = false /\
            forall x, fee = Some x -> x = sumf F (parts_of p).
Proof. intros _. apply sent_fee_sum. Qed.

Lemma sent_fee_truth (F : Z -> Z) ops o id pre amt fee :
  (forall sp, 0 <= F sp) ->
  Forall (consistent F) (snd (run init ops)) ->
  In (OEv (EvSent id pre amt fee)) (snd (step (fst (run init ops)) o)) ->
  exists p, get id (pm (fst (run init ops))) = Some p /\ is_fulfilled p = false /\
            forall x, fee = Some x -> x = sumf F (parts_of p).
Proof. intros Hp. apply (sent_fee_sum_run F Hp). Qed.

Lemma fee_invariant (F : Z -> Z) s o :
  (forall sp, 0 <= F sp) -> feeinv F s -> consistent F (snd (step s o)) -> feeinv F (fst (step s o)).
Proof. intros Hp. apply (step_fee F Hp). Qed.
