(** C06, reorganisations: the monitor's awaiting-threshold-confirmation table (and what it concluded)
    after ANY history of block connections and disconnections is the one the straight-line history
    of the FINAL chain gives -- provided no disconnection reaches ANTI_REORG_DELAY or more below the
    highest tip seen, and the history ends at its highest tip.

    The model is Model/ChainView.v (C11: [transactions_confirmed] / [block_confirmed] /
    [blocks_disconnected] with [retain(|entry| entry.height <= new_height)]); the linear invariant and
    its lemmas are reused from Proofs/C11.v. What is new here is the invariant for histories WITH
    disconnections: with [M] the highest tip seen, the table holds exactly the entries of the
    transactions of the CURRENT chain whose threshold is above [M]. *)
Require Import LdkV.Prim.U64 LdkV.Gen.Consts LdkV.Model.ChainView LdkV.Proofs.C11 LdkV.Gen.C06Pins.
Open Scope Z_scope.

Inductive hop := HC (b : blk) | HD (f : blk).
Definition hop_op (h : hop) : op := match h with HC b => BC b | HD f => BD f end.

(** the (block, transaction) pairs of a chain *)
Definition pairs (stack : list blk) : list (blk * tx) :=
  flat_map (fun b => map (fun t => (b, t)) (b_txs b)) stack.
(** what [blocks_disconnected(f)] leaves of the chain: the blocks up to the fork point *)
Definition keep (f : blk) (stack : list blk) : list blk := filter (fun b => b_height b <=? b_height f) stack.

(** a history, given the current chain (newest block first), the monitor state and the highest tip
    seen: a block is connected on top of the best block (its transactions new to the chain and each
    needing at least ANTI_REORG_DELAY confirmations); a disconnection names a block of the chain
    below the tip, fewer than ANTI_REORG_DELAY below the highest tip seen *)
Fixpoint hist_ok (stack : list blk) (st : state) (M : Z) (hs : list hop) : Prop :=
  match hs with
  | [] => True
  | HC b :: r => b_height b = best_h st + 1 /\ Forall tx_ok (b_txs b) /\ uniq_ids (b :: stack) /\
                 hist_ok (b :: stack) (step st (BC b)) (Z.max M (b_height b)) r
  | HD f :: r => In f stack /\ b_height f < best_h st /\ M - b_height f < ANTI_REORG_DELAY /\
                 hist_ok (keep f stack) (step st (BD f)) M r
  end.
Fixpoint final_stack (stack : list blk) (hs : list hop) : list blk :=
  match hs with
  | [] => stack
  | HC b :: r => final_stack (b :: stack) r
  | HD f :: r => final_stack (keep f stack) r
  end.
Fixpoint final_max (M : Z) (hs : list hop) : Z :=
  match hs with
  | [] => M
  | HC b :: r => final_max (Z.max M (b_height b)) r
  | HD f :: r => final_max M r
  end.

(** the state with its best height replaced by [M] *)
Definition vst (M : Z) (st : state) : state := mkSt M (best_hash st) (awaiting st) (done_txids st) (emitted st).

Record rinv (h0 : Z) (stack : list blk) (st : state) (M : Z) : Prop := mkRinv {
  r_inv : inv (vst M st) (pairs stack);
  r_le : best_h st <= M;
  r_near : M - best_h st < ANTI_REORG_DELAY;
  r_heights : forall b, In b stack -> h0 < b_height b <= best_h st;
  r_tip : (stack = [] /\ best_h st = h0) \/ (exists b, In b stack /\ b_height b = best_h st);
  r_txok : forall b, In b stack -> Forall tx_ok (b_txs b);
  r_uniq : uniq_ids stack
}.

Lemma in_pairs stack p : In p (pairs stack) <-> In (fst p) stack /\ In (snd p) (b_txs (fst p)).
Proof.
  unfold pairs. rewrite in_flat_map. split.
  - intros (b & Hb & Hp). apply in_map_iff in Hp as (t & <- & Ht). cbn. split; assumption.
  - intros (Hb & Ht). exists (fst p). split; [exact Hb|]. apply in_map_iff. exists (snd p). split; [destruct p; reflexivity|exact Ht].
Qed.

Lemma pairs_from_chain stack : from_chain stack (pairs stack).
Proof. intros p Hp. apply in_pairs. exact Hp. Qed.

Lemma add_txs_vst M b txs : forall st, add_txs (vst M st) b txs = vst M (add_txs st b txs).
Proof.
  induction txs as [|t r IH]; intros st; cbn [add_txs]; [reflexivity|].
  assert (E : known_tx (vst M st) (t_id t) = known_tx st (t_id t)) by reflexivity. rewrite E.
  destruct (known_tx st (t_id t)); [apply IH|]. rewrite <- IH. reflexivity.
Qed.

Lemma filter_none {A} (f : A -> bool) l : (forall x, In x l -> f x = false) -> filter f l = [].
Proof.
  induction l as [|a l IH]; intros H; cbn [filter]; [reflexivity|].
  rewrite (H a (or_introl eq_refl)). apply IH. intros x Hx. apply H. right. exact Hx.
Qed.
Lemma filter_all {A} (f : A -> bool) l : (forall x, In x l -> f x = true) -> filter f l = l.
Proof.
  induction l as [|a l IH]; intros H; cbn [filter]; [reflexivity|].
  rewrite (H a (or_introl eq_refl)). f_equal. apply IH. intros x Hx. apply H. right. exact Hx.
Qed.

Lemma entry_threshold_far b t e : tx_ok t -> In e (entries_of b t) -> b_height b + ANTI_REORG_DELAY - 1 <= threshold e.
Proof.
  intros Hok He. pose proof (entries_of_ok b t Hok) as Hall. unfold entries_ok in Hall. rewrite Forall_forall in Hall.
  specialize (Hall e He). destruct (entries_of_txid _ _ _ He) as (_ & Eh & _). unfold threshold. lia.
Qed.

Lemma ARD_pos : 0 < ANTI_REORG_DELAY.
Proof. vm_compute. reflexivity. Qed.

Lemma rinv_fresh h0 hash0 : rinv h0 [] (fresh h0 hash0) h0.
Proof.
  pose proof ARD_pos.
  constructor; cbn [fresh best_h]; try lia.
  - exact (fresh_inv h0 hash0).
  - intros b [].
  - left. split; reflexivity.
  - intros b [].
  - intros b b' t t' [].
Qed.

(** connecting a block *)
Lemma rinv_connect h0 stack st M b :
  rinv h0 stack st M -> b_height b = best_h st + 1 -> Forall tx_ok (b_txs b) -> uniq_ids (b :: stack) ->
  rinv h0 (b :: stack) (step st (BC b)) (Z.max M (b_height b)).
Proof.
  intros [Hinv Hle Hnear Hh Htip Htx Hu] Hb Hok Hu'.
  pose proof ARD_pos as Hard.
  assert (Hh0 : h0 <= best_h st).
  { destruct Htip as [(_ & E) | (b0 & Hb0 & E)]; [lia|]. specialize (Hh b0 Hb0). lia. }
  assert (Hpairs : forall p, In p (pairs (b :: stack)) <-> In p (pairs stack) \/ (fst p = b /\ In (snd p) (b_txs b))).
  { intros p. rewrite !in_pairs. cbn [In]. split.
    - intros ([<- | Hs] & Ht); [right; split; [reflexivity|exact Ht] | left; split; assumption].
    - intros [(Hs & Ht) | (E & Ht)]; [split; [right; exact Hs|exact Ht] | split; [left; symmetry; exact E | rewrite E; exact Ht]]. }
  (* the virtual run of add_txs *)
  assert (Hfrom : from_chain (b :: stack) (pairs stack)).
  { intros p Hp. apply in_pairs in Hp as (H1 & H2). split; [right; exact H1|exact H2]. }
  destruct (add_txs_mid (b :: stack) b (b_txs b) (vst M st) (pairs stack) [] Hu' (or_introl eq_refl)
              (fun t Ht => Ht) Hfrom ltac:(intros p []) (inv_to_mid _ _ Hinv))
    as (Dn & _ & HDn & Hmid & Hcov & Hbk).
  rewrite add_txs_vst in Hmid.
  destruct (add_txs_fields st b (b_txs b)) as (F1 & F2 & F3 & F4).
  set (st1 := add_txs st b (b_txs b)) in *.
  (* entries of the new block: exactly those of Dn *)
  assert (HDnb : forall p, In p Dn -> fst p = b /\ In (snd p) (b_txs b)).
  { intros p Hp. destruct (Hbk p Hp) as [[] | E]. split; [exact E|]. destruct (HDn p Hp) as (_ & Ht). rewrite E in Ht. exact Ht. }
  assert (Hnew_far : forall e, In e (entries_D Dn) -> b_height b + ANTI_REORG_DELAY - 1 <= threshold e).
  { intros e He. apply in_entries_D in He as (p & Hp & He). destruct (HDnb p Hp) as (E & Ht). rewrite E in He.
    rewrite Forall_forall in Hok. exact (entry_threshold_far b (snd p) e (Hok _ Ht) He). }
  (* every transaction of b is either new (in Dn) or already known: impossible by uniqueness unless in Dn *)
  assert (Hcov_b : forall t e, In t (b_txs b) -> In e (entries_of b t) -> In e (entries_D Dn)).
  { intros t e Ht He. destruct (Hcov t Ht e He) as [H | H]; [|exact H]. exfalso.
    apply in_entries_D in H as (p & Hp & Hep). apply in_pairs in Hp as (Hps & Hpt).
    destruct (entries_of_txid _ _ _ Hep) as (E1 & _). destruct (entries_of_txid _ _ _ He) as (E2 & _).
    destruct (Hu' b (fst p) t (snd p) (or_introl eq_refl) Ht (or_intror Hps) Hpt ltac:(congruence)) as (Eb & _).
    specialize (Hh (fst p) Hps). rewrite <- Eb in Hh. lia. }
  cbn [step BC]. fold st1.
  replace (best_h st1 <? b_height b) with true by (symmetry; apply Z.ltb_lt; lia).
  destruct (Z.le_gt_cases (b_height b) M) as [HbM | HbM].
  - (* below the highest tip seen: nothing matures *)
    rewrite Z.max_l by lia.
    destruct Hmid as [Maw Mdone Mem]. cbn [vst best_h awaiting done_txids emitted] in Maw, Mdone, Mem.
    assert (Hnone : forall e, In e (awaiting st1) -> (threshold e <=? b_height b) = false).
    { intros e He. apply Z.leb_gt. apply Maw in He as [(_ & H) | H]; [lia|]. specialize (Hnew_far e H). lia. }
    unfold block_confirmed. cbn [best_h best_hash awaiting done_txids emitted].
    rewrite (filter_none _ _ Hnone).
    rewrite (filter_all (fun e => negb (threshold e <=? b_height b)) (awaiting st1))
      by (intros e He; rewrite (Hnone e He); reflexivity).
    cbn [map]. rewrite !app_nil_r.
    constructor; cbn [best_h]; try lia.
    + constructor; cbn [vst best_h awaiting done_txids emitted].
      * intros e. rewrite Maw. split.
        -- intros [(H1 & H2) | H]; [split; [|exact H2]; apply in_entries_D in H1 as (p & Hp & He); apply in_entries_D; exists p; split; [apply Hpairs; left; exact Hp|exact He]|].
           split; [|specialize (Hnew_far e H); lia].
           apply in_entries_D in H as (p & Hp & He). apply in_entries_D. exists p. split; [|exact He].
           apply Hpairs. right. exact (HDnb p Hp).
        -- intros (H1 & H2). apply in_entries_D in H1 as (p & Hp & He). apply Hpairs in Hp as [Hp | (E & Ht)].
           ++ left. split; [apply in_entries_D; exists p; split; assumption|exact H2].
           ++ right. rewrite E in He. exact (Hcov_b (snd p) e Ht He).
      * intros id. rewrite Mdone. split; intros (e & H1 & H2 & H3); exists e; (split; [|split; assumption]).
        -- apply in_entries_D in H1 as (p & Hp & He). apply in_entries_D. exists p. split; [apply Hpairs; left; exact Hp|exact He].
        -- apply in_entries_D in H1 as (p & Hp & He). apply Hpairs in Hp as [Hp | (E & Ht)]; [apply in_entries_D; exists p; split; assumption|].
           exfalso. rewrite E in He. specialize (Hnew_far e (Hcov_b (snd p) e Ht He)). lia.
      * intros id tag c. rewrite Mem. split; intros (e & H1 & H2 & H3); exists e; (split; [|split; assumption]).
        -- apply in_entries_D in H1 as (p & Hp & He). apply in_entries_D. exists p. split; [apply Hpairs; left; exact Hp|exact He].
        -- apply in_entries_D in H1 as (p & Hp & He). apply Hpairs in Hp as [Hp | (E & Ht)]; [apply in_entries_D; exists p; split; assumption|].
           exfalso. rewrite E in He. specialize (Hnew_far e (Hcov_b (snd p) e Ht He)). lia.
    + intros b' [<- | Hb']; [lia|]. specialize (Hh b' Hb'). lia.
    + right. exists b. split; [left; reflexivity|reflexivity].
    + intros b' [<- | Hb']; [exact Hok|apply Htx; exact Hb'].
    + exact Hu'.
  - (* a new highest tip: the linear step *)
    rewrite Z.max_r by lia.
    assert (EM : M = best_h st) by lia.
    assert (Hmid' : inv_mid st1 (pairs stack) Dn).
    { destruct Hmid as [Maw Mdone Mem]. cbn [vst best_h awaiting done_txids emitted] in Maw, Mdone, Mem.
      constructor; rewrite F1, <- EM; assumption. }
    pose proof (block_confirmed_inv st1 (pairs stack) Dn (b_height b) (b_hash b) Hmid' ltac:(lia)) as Hi.
    set (st' := block_confirmed (mkSt (b_height b) (b_hash b) (awaiting st1) (done_txids st1) (emitted st1))) in *.
    assert (Ebest : best_h st' = b_height b) by reflexivity.
    constructor; rewrite ?Ebest; try lia.
    + assert (Ev : vst (b_height b) st' = st') by (rewrite (state_eta st') at 2; unfold vst; rewrite Ebest; reflexivity).
      rewrite Ev. destruct Hi as [A B C]. constructor.
      * intros e. rewrite A, entries_D_app. split; intros (H1 & H2); (split; [|exact H2]).
        -- destruct H1 as [H1 | H1]; apply in_entries_D in H1 as (p & Hp & He); apply in_entries_D; exists p; (split; [|exact He]); apply Hpairs; [left; exact Hp | right; exact (HDnb p Hp)].
        -- apply in_entries_D in H1 as (p & Hp & He). apply Hpairs in Hp as [Hp | (E & Ht)]; [left; apply in_entries_D; exists p; split; assumption|].
           right. rewrite E in He. exact (Hcov_b (snd p) e Ht He).
      * intros id. rewrite B. split; intros (e & H1 & H2); exists e; (split; [|exact H2]).
        -- apply entries_D_app in H1 as [H1 | H1]; apply in_entries_D in H1 as (p & Hp & He); apply in_entries_D; exists p; (split; [|exact He]); apply Hpairs; [left; exact Hp | right; exact (HDnb p Hp)].
        -- apply entries_D_app. apply in_entries_D in H1 as (p & Hp & He). apply Hpairs in Hp as [Hp | (E & Ht)]; [left; apply in_entries_D; exists p; split; assumption|].
           right. rewrite E in He. exact (Hcov_b (snd p) e Ht He).
      * intros id tag c. rewrite C. split; intros (e & H1 & H2); exists e; (split; [|exact H2]).
        -- apply entries_D_app in H1 as [H1 | H1]; apply in_entries_D in H1 as (p & Hp & He); apply in_entries_D; exists p; (split; [|exact He]); apply Hpairs; [left; exact Hp | right; exact (HDnb p Hp)].
        -- apply entries_D_app. apply in_entries_D in H1 as (p & Hp & He). apply Hpairs in Hp as [Hp | (E & Ht)]; [left; apply in_entries_D; exists p; split; assumption|].
           right. rewrite E in He. exact (Hcov_b (snd p) e Ht He).
    + intros b' [<- | Hb']; [lia|]. specialize (Hh b' Hb'). lia.
    + right. exists b. split; [left; reflexivity|reflexivity].
    + intros b' [<- | Hb']; [exact Hok|apply Htx; exact Hb'].
    + exact Hu'.
Qed.

(** disconnecting down to a block of the chain *)
Lemma rinv_disconnect h0 stack st M f :
  rinv h0 stack st M -> In f stack -> b_height f < best_h st -> M - b_height f < ANTI_REORG_DELAY ->
  rinv h0 (keep f stack) (step st (BD f)) M.
Proof.
  intros [Hinv Hle Hnear Hh Htip Htx Hu] Hf Hlt Hdepth.
  assert (Hkeep : forall b, In b (keep f stack) <-> In b stack /\ b_height b <= b_height f).
  { intros b. unfold keep. rewrite filter_In, Z.leb_le. tauto. }
  assert (Hpk : forall p, In p (pairs (keep f stack)) <-> In p (pairs stack) /\ b_height (fst p) <= b_height f).
  { intros p. rewrite !in_pairs, Hkeep. tauto. }
  assert (HeD : forall e, In e (entries_D (pairs (keep f stack))) <-> In e (entries_D (pairs stack)) /\ e_height e <= b_height f).
  { intros e. rewrite !in_entries_D. split.
    - intros (p & Hp & He). apply Hpk in Hp as (Hp & Hhp). destruct (entries_of_txid _ _ _ He) as (_ & E & _).
      split; [exists p; split; assumption | lia].
    - intros ((p & Hp & He) & Hhe). destruct (entries_of_txid _ _ _ He) as (_ & E & _).
      exists p. split; [apply Hpk; split; [exact Hp | lia] | exact He]. }
  (* whatever was concluded sits at or below the fork point *)
  assert (Hdeep : forall e, In e (entries_D (pairs stack)) -> threshold e <= M -> e_height e <= b_height f).
  { intros e He Ht. apply in_entries_D in He as (p & Hp & He). apply in_pairs in Hp as (Hps & Hpt).
    pose proof (Htx _ Hps) as Hok. rewrite Forall_forall in Hok.
    pose proof (entry_threshold_far (fst p) (snd p) e (Hok _ Hpt) He) as Hfar.
    destruct (entries_of_txid _ _ _ He) as (_ & E & _). lia. }
  destruct Hinv as [A B C]. cbn [vst best_h awaiting done_txids emitted] in A, B, C.
  cbn [step]. constructor; cbn [best_h]; try lia.
  - constructor; cbn [vst best_h awaiting done_txids emitted].
    + intros e. rewrite filter_In, A, HeD, Z.leb_le. tauto.
    + intros id. rewrite B. split; intros (e & H1 & H2 & H3); exists e; (split; [|split; assumption]).
      * apply HeD. split; [exact H1 | exact (Hdeep e H1 H2)].
      * apply HeD in H1. tauto.
    + intros id tag c. rewrite C. split; intros (e & H1 & H2 & H3); exists e; (split; [|split; assumption]).
      * apply HeD. split; [exact H1 | exact (Hdeep e H1 H2)].
      * apply HeD in H1. tauto.
  - intros b Hb. apply Hkeep in Hb as (Hb & Hbf). specialize (Hh b Hb). lia.
  - right. exists f. split; [apply Hkeep; split; [exact Hf | lia] | reflexivity].
  - intros b Hb. apply Hkeep in Hb as (Hb & _). exact (Htx b Hb).
  - intros b b' t t' Hb Ht Hb' Ht'. apply Hkeep in Hb as (Hb & _). apply Hkeep in Hb' as (Hb' & _). exact (Hu b b' t t' Hb Ht Hb' Ht').
Qed.

Lemma hist_run h0 hs : forall stack st M,
  rinv h0 stack st M -> hist_ok stack st M hs ->
  rinv h0 (final_stack stack hs) (run st (map hop_op hs)) (final_max M hs).
Proof.
  induction hs as [|[b | f] r IH]; intros stack st M HR Hok; cbn [hist_ok final_stack final_max map run fold_left hop_op] in *.
  - exact HR.
  - destruct Hok as (H1 & H2 & H3 & H4). apply (IH _ _ _ (rinv_connect _ _ _ _ _ HR H1 H2 H3) H4).
  - destruct Hok as (H1 & H2 & H3 & H4). apply (IH _ _ _ (rinv_disconnect _ _ _ _ _ HR H1 H2 H3) H4).
Qed.

(** the straight-line delivery of a chain *)
Lemma best_after_block st b : best_h (step st (BC b)) = Z.max (best_h st) (b_height b).
Proof.
  cbn [step BC]. destruct (add_txs_fields st b (b_txs b)) as (F1 & _).
  destruct (Z.ltb_spec (best_h (add_txs st b (b_txs b))) (b_height b)); unfold block_confirmed; cbn [best_h]; lia.
Qed.

Lemma best_after_blocks blocks : forall st B,
  best_h st <= B -> (forall b, In b blocks -> b_height b <= B) ->
  ((exists b, In b blocks /\ b_height b = B) \/ best_h st = B) ->
  best_h (run st (map BC blocks)) = B.
Proof.
  induction blocks as [|b r IH]; intros st B Hle Hall Hex; cbn [map run fold_left].
  - destruct Hex as [(b & [] & _) | E]; exact E.
  - apply IH.
    + rewrite best_after_block. specialize (Hall b (or_introl eq_refl)). lia.
    + intros b' Hb'. apply Hall. right. exact Hb'.
    + rewrite best_after_block. destruct Hex as [(b' & [Eb | Hb'] & E) | E].
      * right. subst b'. specialize (Hall b (or_introl eq_refl)). lia.
      * left. exists b'. split; assumption.
      * right. specialize (Hall b (or_introl eq_refl)). lia.
Qed.

Lemma linear_blocks chain blocks : forall st, incl blocks chain -> linear chain st (map BC blocks).
Proof.
  induction blocks as [|b r IH]; intros st Hi; cbn [map linear]; [exact I|].
  split; [split; [apply Hi; left; reflexivity | intros t Ht; exact Ht]|].
  apply IH. intros x Hx. apply Hi. right. exact Hx.
Qed.

(** * The theorem *)
Theorem reorg_history_is_straight_line h0 hash0 hs :
  let st0 := fresh h0 hash0 in
  let final := final_stack [] hs in
  hist_ok [] st0 h0 hs ->
  best_h (run st0 (map hop_op hs)) = final_max h0 hs ->
  view_eq (run st0 (map hop_op hs)) (run st0 (map BC (rev final))).
Proof.
  cbv zeta. intros Hok Hend.
  pose proof (hist_run h0 hs [] _ h0 (rinv_fresh h0 hash0) Hok) as HR.
  set (stF := run (fresh h0 hash0) (map hop_op hs)) in *. set (final := final_stack [] hs) in *.
  destruct HR as [Hinv Hle Hnear Hh Htip Htx Hu]. rewrite <- Hend in Hinv.
  assert (Ev : vst (best_h stF) stF = stF) by (rewrite (state_eta stF) at 3; reflexivity).
  rewrite Ev in Hinv.
  (* the straight line *)
  assert (Hu' : uniq_ids (rev final)).
  { intros b b' t t' Hb Ht Hb' Ht'. apply in_rev in Hb. apply in_rev in Hb'. exact (Hu b b' t t' Hb Ht Hb' Ht'). }
  destruct (run_inv (rev final) (map BC (rev final)) (fresh h0 hash0) [] Hu'
              (linear_blocks _ _ _ (incl_refl _)) (fresh_inv h0 hash0) ltac:(intros p []) ltac:(intros p []))
    as (D2 & I2 & F2 & _ & C2).
  assert (Hbest : best_h (run (fresh h0 hash0) (map BC (rev final))) = best_h stF).
  { apply best_after_blocks.
    - cbn [fresh best_h]. destruct Htip as [(_ & E) | (b & Hb & E)]; [lia | specialize (Hh b Hb); lia].
    - intros b Hb. apply in_rev in Hb. specialize (Hh b Hb). lia.
    - destruct Htip as [(_ & E) | (b & Hb & E)]; [right; cbn [fresh best_h]; lia | left; exists b; split; [apply in_rev; rewrite rev_involutive; exact Hb | exact E]]. }
  assert (Hsame : forall e, In e (entries_D (pairs final)) <-> In e (entries_D D2)).
  { intros e. split; intros H; apply in_entries_D in H as (p & Hp & He).
    - apply in_pairs in Hp as (Hpb & Hpt).
      apply (C2 (fst p) (b_txs (fst p)) (snd p) e); [|exact Hpt|exact He].
      apply in_map_iff. exists (fst p). split; [reflexivity | apply in_rev; rewrite rev_involutive; exact Hpb].
    - destruct (F2 p Hp) as (Hpb & Hpt). apply in_entries_D. exists p. split; [|exact He].
      apply in_pairs. split; [apply in_rev; exact Hpb | exact Hpt]. }
  destruct Hinv as [A B C], I2 as [A' B' C']. unfold view_eq. split; [symmetry; exact Hbest|]. split; [|split].
  - intros e. rewrite A, A', Hbest, Hsame. tauto.
  - intros id. rewrite B, B'. split; intros (e & H1 & H2 & H3); exists e; (split; [apply Hsame; exact H1 | split; [lia | exact H3]]).
  - intros id tag c. rewrite C, C'. split; intros (e & H1 & H2 & H3); exists e; (split; [apply Hsame; exact H1 | split; [lia | exact H3]]).
Qed.

(** in particular: what [blocks_disconnected] does to an entry recorded IN the fork-point block: it stays *)
Lemma fork_point_entry_survives st f e :
  In e (awaiting st) -> e_height e = b_height f -> In e (awaiting (step st (BD f))).
Proof. intros He Eh. cbn [step awaiting]. apply filter_In. split; [exact He | apply Z.leb_le; lia]. Qed.

(** * Source pins (coq/Gen/C06Pins.v is regenerated from the sources on every run): the comparisons
    behind [BD] / the reorg branch of [BB] / [TU] in Model/ChainView.v, and the one OnchainTxHandler
    uses for its own table *)
Lemma reorg_source_pins :
  monitor_blocks_disconnected_retain = "entry.height <= new_height"%string /\
  monitor_best_block_reorg_retain = "entry.height <= height"%string /\
  monitor_transaction_unconfirmed_drop = "entry.height >= removed_height"%string /\
  onchaintx_blocks_disconnected_drop = "entry.height > new_best_height"%string.
Proof. repeat split; reflexivity. Qed.
