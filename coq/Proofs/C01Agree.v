(** C01, agreement (BOUNDED): exhaustive exploration, inside Coq (vm_compute + a soundness lemma), of ALL
    interleavings of the two peers' operations of [Model/ChanSys.v] up to a depth bound, over an explicit
    finite label alphabet (sends in both directions, claims, fails, a fee update, holding-cell frees,
    single-message deliveries in both directions, disconnect, reconnect), from six start states (the fresh
    channel and five reachable states with HTLCs committed / announced / claimed-in-holding-cell in both
    directions, a fee update in flight, a disconnection). This is NOT the unbounded inductive
    mirror-invariant proof (see Props/C01.v for what is missing). *)
Require Import LdkV.Prim.U64 LdkV.Prim.Rs2vLib LdkV.Gen.Consts LdkV.Gen.ChanUtilsFees LdkV.Gen.TxBuilder
  LdkV.Model.CommitAmounts LdkV.Model.Chan LdkV.Model.ChanSys LdkV.Proofs.C01Amounts LdkV.Proofs.C01Chan.
From Coq Require Import String List Lia.
Import ListNotations.
Open Scope Z_scope.

Definition sig_err : string := "Invalid commitment tx signature from peer".

(** [true] iff the result is NOT a failed signature (= mirror) check. *)
Definition not_sig_err (r : rres sys) : bool :=
  match r with RErr e => negb (String.eqb e sig_err) | ROk _ => true end.

Fixpoint explore (o : oracle) (alpha : list label) (n : nat) (s : sys) : bool :=
  match n with
  | O => true
  | S n' =>
    forallb (fun l => match sys_step o s l with
                      | ROk s' => explore o alpha n' s'
                      | RErr e => negb (String.eqb e sig_err)
                      end) alpha
  end.

Lemma explore_sound o alpha : forall n s ls,
  explore o alpha n s = true -> (List.length ls <= n)%nat -> Forall (fun l => In l alpha) ls ->
  not_sig_err (sys_steps o s ls) = true.
Proof.
  induction n as [|n IH]; intros s ls He Hl Hf.
  - destruct ls; [reflexivity | cbn in Hl; inversion Hl].
  - destruct ls as [|l t]; [reflexivity|].
    cbn [explore] in He. rewrite forallb_forall in He.
    inversion Hf as [|? ? Hin Hf']; subst.
    specialize (He l Hin). cbn [sys_steps].
    destruct (sys_step o s l) as [s'|e]; [|exact He].
    apply IH; [exact He | cbn in Hl; apply le_S_n; exact Hl | exact Hf'].
Qed.

Definition ag_oracle : oracle := mkOracle [11; 12; 21; 22] true 253 253.
Definition ag_alpha : list label :=
  [L_Deliver false; L_Deliver true;
   L_Send false 5000000 11; L_Send true 3000000 21;
   L_Claim true 0; L_Claim false 0; L_QueueFail true 0; L_QueueFail false 0;
   L_UpdateFee false 1000; L_FreeHC false; L_FreeHC true;
   L_Disconnect; L_Reconnect].


Definition after (ls : list label) : sys :=
  match sys_steps ag_oracle ex_sys ls with ROk s => s | RErr _ => ex_sys end.
Definition dance0 := [L_Send false 5000000 11; L_Deliver false; L_Deliver false; L_Deliver true; L_Deliver true; L_Deliver false].
Definition dance1 := [L_Send true 3000000 21; L_Deliver true; L_Deliver true; L_Deliver false; L_Deliver false; L_Deliver true].
Definition pre1 := dance0 ++ dance1.
Definition pre2 := pre1 ++ [L_Send false 700000 12; L_Send true 400000 22; L_Deliver false; L_Claim true 0].
Definition pre3 := pre2 ++ [L_Deliver true; L_Deliver false; L_Claim false 0; L_Disconnect; L_Reconnect; L_Deliver false].
Definition pre4 := pre1 ++ [L_UpdateFee false 1000; L_FreeHC false; L_Send true 400000 22; L_Deliver false].
Definition pre5 := pre2 ++ [L_Deliver true; L_Disconnect].

(** start states with the exploration depth used from each *)
Definition ag_starts : list (sys * nat) :=
  [(ex_sys, 6%nat); (after pre1, 6%nat); (after pre2, 6%nat); (after pre3, 6%nat); (after pre4, 6%nat); (after pre5, 6%nat)].

Lemma ag_prefixes_run :
  forallb (fun p => match sys_steps ag_oracle ex_sys p with ROk _ => true | RErr _ => false end)
          [pre1; pre2; pre3; pre4; pre5] = true.
Proof. vm_compute. reflexivity. Qed.

Lemma ag_explored : forallb (fun sd => explore ag_oracle ag_alpha (snd sd) (fst sd)) ag_starts = true.
Proof. vm_compute. reflexivity. Qed.

Lemma sys_steps_app o : forall ls s l,
  sys_steps o s (ls ++ [l]) = match sys_steps o s ls with ROk s1 => sys_step o s1 l | RErr e => RErr e end.
Proof.
  induction ls as [|a t IH]; intros s l; cbn [app sys_steps].
  - destruct (sys_step o s l); reflexivity.
  - destruct (sys_step o s a) as [s'|e]; [apply IH | reflexivity].
Qed.

Definition out_queue (s : sys) (x : bool) : list msg := if x then s_q10 s else s_q01 s.

(** The signature check IS the mirror relation: delivering a [commitment_signed] to a connected peer
    does not fail that check iff what was signed is the mirror of what the receiver builds for itself
    at its current holder commitment number. *)
Lemma deliver_commit_mirror o s x v rest :
  out_queue s x = M_Commit v :: rest ->
  c_disconnected (node s (negb x)) = false ->
  not_sig_err (sys_step o s (L_Deliver x)) = true ->
  mirror_eqb (c_value_sat (node s (negb x))) v
    (build_view (node s (negb x)) (c_holder_cn (node s (negb x))) false) = true.
Proof.
  intros Hq Hd Hn. destruct (mirror_eqb _ _ _) eqn:Em; [reflexivity|exfalso].
  unfold out_queue in Hq. unfold sys_step in Hn.
  destruct x; cbn [negb node] in *; rewrite Hq in Hn; cbn [node set_node s_n0 s_n1 negb deliver_msg] in Hn;
    unfold commitment_signed in Hn; rewrite Hd, Em in Hn; cbn in Hn; discriminate.
Qed.

(** Bounded agreement: from each start state, after ANY label list over [ag_alpha] shorter than the
    depth bound, every [commitment_signed] at the head of a queue towards a connected peer is the mirror
    of the commitment that peer builds for itself at the same commitment number. *)
Theorem agreement_bounded :
  forall start depth, In (start, depth) ag_starts ->
  forall ls s1, (List.length ls < depth)%nat -> Forall (fun l => In l ag_alpha) ls ->
  sys_steps ag_oracle start ls = ROk s1 ->
  forall x v rest, out_queue s1 x = M_Commit v :: rest -> c_disconnected (node s1 (negb x)) = false ->
    cv_number v = c_holder_cn (node s1 (negb x)) /\
    mirror_eqb (c_value_sat (node s1 (negb x))) v
      (build_view (node s1 (negb x)) (c_holder_cn (node s1 (negb x))) false) = true.
Proof.
  intros start depth Hin ls s1 Hl Hf Hr x v rest Hq Hd.
  pose proof ag_explored as He. rewrite forallb_forall in He. specialize (He _ Hin). cbn [fst snd] in He.
  assert (Hs : not_sig_err (sys_steps ag_oracle start (ls ++ [L_Deliver x])) = true).
  { apply (explore_sound ag_oracle ag_alpha depth); [exact He | rewrite app_length; cbn; lia |].
    apply Forall_app; split; [exact Hf|]. constructor; [|constructor].
    destruct x; cbn; auto. }
  rewrite sys_steps_app, Hr in Hs.
  pose proof (deliver_commit_mirror _ _ _ _ _ Hq Hd Hs) as Hm.
  split; [|exact Hm].
  unfold mirror_eqb in Hm. apply andb_prop in Hm as [Hm _]. apply andb_prop in Hm as [Hm _].
  apply andb_prop in Hm as [Hm _]. cbn [cv_number build_view] in Hm. apply Z.eqb_eq in Hm. exact Hm.
Qed.

(** Non-triviality of a start state: after [pre2] each direction carries two HTLCs in different states
    (Committed + LocalAnnounced at the sender; Committed + RemoteAnnounced, resp. only the committed one,
    at the receiver), node 1 holds a claim in its holding cell, and commitment_signed messages are in
    flight in both directions. *)
Example ag_start_nontrivial :
  let s := after pre2 in
  map (fun h => (p_id (oh h), out_code (ost h))) (c_out (s_n0 s)) = [(0, 1); (1, 0)] /\
  map (fun h => (p_id (ih h), in_code (ist h))) (c_in (s_n1 s)) = [(0, 3); (1, 0)] /\
  map (fun h => (p_id (oh h), out_code (ost h))) (c_out (s_n1 s)) = [(0, 1); (1, 0)] /\
  map (fun h => (p_id (ih h), in_code (ist h))) (c_in (s_n0 s)) = [(0, 3)] /\
  c_hc (s_n1 s) = [HC_Claim 0] /\
  (exists v, s_q01 s = [M_Commit v]) /\ (exists h v, s_q10 s = [M_Add h; M_Commit v]).
Proof. vm_compute. repeat split; try reflexivity; repeat eexists. Qed.
