(** C17 — concrete sessions through the pending-checks buffer and rapid gossip sync used by the
    non-vacuity examples of [Props/C17.v]. *)
From stdpp Require Import gmap.
From Coq Require Import ZArith String Lia.
Require Import LdkV.Gen.GossipConsts LdkV.Model.Gossip LdkV.Model.GossipSpec LdkV.Model.GossipAsync.
Require Import LdkV.Proofs.C17Examples.
Import Examples.
Open Scope Z_scope.

Module AsyncExamples.
  (** the announcement of channel 42 waits for lookup 1; meanwhile a channel_update for direction
      one signed by a stranger (key 9 instead of node 3), an authentic one for direction two and a
      node_announcement arrive and are held; the lookup succeeds; the next poll replays them *)
  Definition held : list pop :=
    [PAnnAsync true (Some sigs) a1 1 None 1000;
     PSync (OChanUpd true (Some (Some 9)) (u1 500 101) 1000 false);
     PSync (OChanUpd true (Some (Some 7)) (u2 550 103) 1000 false);
     PSync (ONodeAnn true (Some true) (n3 70 104));
     PResolve 1 (AOk 5000 true); PPoll 1001].
  (** the same with authentic messages only, and the lookup fails *)
  Definition failed : list pop :=
    [PAnnAsync true (Some sigs) a1 1 None 1000;
     PSync (OChanUpd true (Some (Some 3)) (u1 500 101) 1000 false);
     PSync (ONodeAnn true (Some true) (n3 70 104));
     PResolve 1 AUnknownTx; PPoll 1001].
  (** an incremental snapshot entry for direction two of channel 42 carrying only a fee base *)
  Definition inc : rgs_upd := RgsUpd 42 (128 + 16 + 1) None None (Some 77) None None.
  Definition sn1 : snapshot := Snapshot 0 2000000 [] [] (RgsDefaults 0 0 0 0 0) [inc].
End AsyncExamples.
