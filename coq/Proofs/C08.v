Require Import LdkV.Prim.U64 LdkV.Gen.Consts LdkV.Gen.CltvChecks LdkV.Gen.CltvCallSites LdkV.Model.CltvHand LdkV.Model.Timeline.
Open Scope Z_scope.

Ltac pow2s :=
  repeat match goal with
  | |- context [2 ^ ?n] => let v := eval vm_compute in (2 ^ n) in change (2 ^ n) with v
  | H : context [2 ^ ?n] |- _ => let v := eval vm_compute in (2 ^ n) in change (2 ^ n) with v in H
  end.
Ltac consts := repeat autounfold with ldk_consts in *; unfold cast_u in *; pow2s.

(** The three [const] assertions of channelmanager.rs and the one of channelmonitor.rs. *)
Lemma static_assertions :
  MIN_CLTV_EXPIRY_DELTA >= 2 * LATENCY_GRACE_PERIOD_BLOCKS + 2 * MAX_BLOCKS_FOR_CONF + ANTI_REORG_DELAY /\
  _ASSUMED_COUNTERPARTY_CLTV_CLAIM_BUFFER >= CLTV_CLAIM_BUFFER /\
  MIN_CLTV_EXPIRY_DELTA >= 2 * LATENCY_GRACE_PERIOD_BLOCKS - 1 + _ASSUMED_COUNTERPARTY_CLTV_CLAIM_BUFFER /\
  MAX_BLOCKS_FOR_CONF > COUNTERPARTY_CLAIMABLE_WITHIN_BLOCKS_PINNABLE.
Proof. consts. lia. Qed.

(** Relations between the constants that the timeline arguments need (so that an edit to a constant
    that keeps the [const] assertions true but breaks a race is caught here). *)
Lemma constant_relations :
  CLTV_CLAIM_BUFFER >= 2 * MAX_BLOCKS_FOR_CONF /\
  HTLC_FAIL_BACK_BUFFER >= CLTV_CLAIM_BUFFER + LATENCY_GRACE_PERIOD_BLOCKS /\
  MIN_FINAL_CLTV_EXPIRY_DELTA >= HTLC_FAIL_BACK_BUFFER + 3 /\
  0 < LATENCY_GRACE_PERIOD_BLOCKS /\ 0 < ANTI_REORG_DELAY /\ 0 < MAX_BLOCKS_FOR_CONF /\
  MIN_CLTV_EXPIRY_DELTA < CLTV_FAR_FAR_AWAY.
Proof. consts. lia. Qed.

(** check_incoming_htlc_cltv: exact characterisation *)
Lemma fwd_ok_iff h out inn d :
  check_incoming_htlc_cltv h out inn d = ROk tt <->
  (inn >= out + d /\ inn > h + HTLC_FAIL_BACK_BUFFER /\ inn <= h + CLTV_FAR_FAR_AWAY /\
   out > h + LATENCY_GRACE_PERIOD_BLOCKS).
Proof.
  unfold check_incoming_htlc_cltv.
  destruct (Z.ltb_spec inn (out + d)); [split; [discriminate | lia]|].
  destruct (Z.leb_spec inn (h + HTLC_FAIL_BACK_BUFFER)); [split; [discriminate | lia]|].
  destruct (Z.ltb_spec (h + CLTV_FAR_FAR_AWAY) inn); [split; [discriminate | lia]|].
  destruct (Z.leb_spec out (h + LATENCY_GRACE_PERIOD_BLOCKS)); [split; [discriminate | lia]|].
  split; [lia | reflexivity].
Qed.

Lemma fwd_errors h out inn d :
  (inn < out + d -> check_incoming_htlc_cltv h out inn d = RErr "IncorrectCLTVExpiry") /\
  (inn >= out + d -> inn <= h + HTLC_FAIL_BACK_BUFFER ->
     check_incoming_htlc_cltv h out inn d = RErr "CLTVExpiryTooSoon") /\
  (inn >= out + d -> inn > h + HTLC_FAIL_BACK_BUFFER -> inn > h + CLTV_FAR_FAR_AWAY ->
     check_incoming_htlc_cltv h out inn d = RErr "CLTVExpiryTooFar") /\
  (inn >= out + d -> inn > h + HTLC_FAIL_BACK_BUFFER -> inn <= h + CLTV_FAR_FAR_AWAY ->
     out <= h + LATENCY_GRACE_PERIOD_BLOCKS ->
     check_incoming_htlc_cltv h out inn d = RErr "OutgoingCLTVTooSoon").
Proof.
  unfold check_incoming_htlc_cltv. repeat split; intros;
  destruct (Z.ltb_spec inn (out + d)); try lia; try reflexivity;
  destruct (Z.leb_spec inn (h + HTLC_FAIL_BACK_BUFFER)); try lia; try reflexivity;
  destruct (Z.ltb_spec (h + CLTV_FAR_FAR_AWAY) inn); try lia; try reflexivity;
  destruct (Z.leb_spec out (h + LATENCY_GRACE_PERIOD_BLOCKS)); try lia; try reflexivity.
Qed.

(** no arithmetic panic for heights that leave room for the look-ahead window *)
Lemma fwd_safe h out inn d :
  0 <= h -> h + CLTV_FAR_FAR_AWAY < 2 ^ 32 -> 0 <= out < 2 ^ 32 -> 0 <= d < 2 ^ 16 ->
  check_incoming_htlc_cltv_safe h out inn d = true.
Proof.
  intros H0 H1 Ho Hd. unfold check_incoming_htlc_cltv_safe.
  assert (h + HTLC_FAIL_BACK_BUFFER < 2 ^ 32) by (consts; lia).
  assert (h + LATENCY_GRACE_PERIOD_BLOCKS < 2 ^ 32) by (consts; lia).
  destruct (Z.ltb_spec (out + d) (2 ^ 64)); [|lia]. cbn [andb].
  destruct (Z.ltb_spec inn (out + d)); [reflexivity|].
  destruct (Z.ltb_spec (h + HTLC_FAIL_BACK_BUFFER) (2 ^ 32)); [|lia]. cbn [andb].
  destruct (Z.leb_spec inn (h + HTLC_FAIL_BACK_BUFFER)); [reflexivity|].
  destruct (Z.ltb_spec (h + CLTV_FAR_FAR_AWAY) (2 ^ 32)); [|lia]. cbn [andb].
  destruct (Z.ltb_spec (h + CLTV_FAR_FAR_AWAY) inn); [reflexivity|].
  destruct (Z.ltb_spec (h + LATENCY_GRACE_PERIOD_BLOCKS) (2 ^ 32)); [reflexivity|lia].
Qed.

(** Receive side. [claim_deadline] as advertised in PaymentClaimable for a single part. *)
Definition claim_deadline (cltv : Z) : Z := cltv - HTLC_FAIL_BACK_BUFFER.

Lemma receive_margins cltv h :
  0 <= h ->
  final_hop_cltv_too_soon cltv h = false ->
  cltv > h + HTLC_FAIL_BACK_BUFFER + 1 /\
  claim_deadline cltv > h + 1 /\
  check_onchain_timeout_safe cltv h = true /\
  (forall h', h' < claim_deadline cltv -> check_onchain_timeout cltv h' = false) /\
  (forall h', claim_deadline cltv <= h' -> check_onchain_timeout cltv h' = true).
Proof.
  unfold final_hop_cltv_too_soon, claim_deadline, check_onchain_timeout, check_onchain_timeout_safe.
  intros H0 H. apply Z.leb_gt in H.
  assert (0 < HTLC_FAIL_BACK_BUFFER) by (consts; lia).
  repeat split; try lia; intros; lia.
Qed.

(** A part accepted at height [h] is still claimable (not timed out) at the height it was accepted
    and one block later: the "+ 1" of the final-hop check closes the race between a block and the claim. *)
Lemma receive_no_immediate_timeout cltv h :
  final_hop_cltv_too_soon cltv h = false ->
  check_onchain_timeout cltv h = false /\ check_onchain_timeout cltv (h + 1) = false.
Proof.
  unfold final_hop_cltv_too_soon, check_onchain_timeout. intros H. apply Z.leb_gt in H. lia.
Qed.

(** When the node fails a claimable HTLC back itself (deadline reached) the monitor has not yet gone
    on chain for it, and will not before [LATENCY_GRACE_PERIOD_BLOCKS] more blocks. *)
Lemma failback_before_onchain cltv h :
  h < claim_deadline cltv + LATENCY_GRACE_PERIOD_BLOCKS ->
  should_broadcast_htlc_timeout false cltv h true = false.
Proof.
  unfold claim_deadline, should_broadcast_htlc_timeout. consts. intros. cbn [negb andb orb]. lia.
Qed.

Lemma outbound_grace expiry H :
  should_broadcast_htlc_timeout true expiry H false = true <-> H >= expiry + LATENCY_GRACE_PERIOD_BLOCKS.
Proof. unfold should_broadcast_htlc_timeout. cbn [negb andb orb]. lia. Qed.

Lemma outbound_first expiry h0 H :
  first_fires (fun h => should_broadcast_htlc_timeout true expiry h false) h0 H ->
  H = Z.max h0 (expiry + LATENCY_GRACE_PERIOD_BLOCKS).
Proof.
  intros (Hle & Ht & Hf). apply outbound_grace in Ht.
  destruct (Z.eq_dec H h0) as [->|Hne]; [lia|].
  assert (Hp := Hf (H - 1) ltac:(lia)).
  assert (~ (H - 1 >= expiry + LATENCY_GRACE_PERIOD_BLOCKS)) as Hn.
  { intro Hc. apply outbound_grace in Hc. congruence. }
  lia.
Qed.

Lemma inbound_trigger cltv H :
  should_broadcast_htlc_timeout false cltv H true = true <-> H >= cltv - CLTV_CLAIM_BUFFER.
Proof. unfold should_broadcast_htlc_timeout. cbn [negb andb orb]. lia. Qed.

Lemma inbound_no_preimage cltv H : should_broadcast_htlc_timeout false cltv H false = false.
Proof. unfold should_broadcast_htlc_timeout. cbn [negb andb orb]. lia. Qed.

Lemma claim_in_time cltv h0 t :
  h0 <= cltv - CLTV_CLAIM_BUFFER ->
  claim_timeline_ok cltv h0 t ->
  ct_H t = cltv - CLTV_CLAIM_BUFFER /\ ct_c2 t <= cltv.
Proof.
  intros Hh0 ((Hle & Ht & Hf) & (Ha & Hb) & (Hc & Hd)).
  apply inbound_trigger in Ht.
  assert (ct_H t = cltv - CLTV_CLAIM_BUFFER) as HH.
  { destruct (Z.eq_dec (ct_H t) h0) as [E|Hne]; [lia|].
    assert (Hp := Hf (ct_H t - 1) ltac:(lia)).
    assert (~ (ct_H t - 1 >= cltv - CLTV_CLAIM_BUFFER)) as Hn.
    { intro Hx. apply inbound_trigger in Hx. congruence. }
    lia. }
  split; [exact HH|]. revert Hb Hd. consts. lia.
Qed.

Lemma threshold_ge height kind delay csv :
  confirmation_threshold height kind delay csv >= height + ANTI_REORG_DELAY - 1 /\
  (kind = OnchainEventKind_MaturingDelayedPaymentOutput ->
     confirmation_threshold height kind delay csv >= height + delay - 1) /\
  (forall c, kind = OnchainEventKind_SpendConfirmation -> csv = Some c ->
     confirmation_threshold height kind delay csv >= height + c - 1).
Proof.
  unfold confirmation_threshold. destruct kind, csv as [c|]; repeat split; intros; try discriminate;
    try (match goal with H : Some _ = Some _ |- _ => injection H as <- end); lia.
Qed.

(** The race of the forwarding node against its upstream peer, dead downstream. *)
Lemma forward_race_won h0 out_cltv in_cltv d t :
  d >= MIN_CLTV_EXPIRY_DELTA ->
  in_cltv >= out_cltv + d ->
  h0 <= out_cltv + LATENCY_GRACE_PERIOD_BLOCKS ->
  fwd_timeline_ok out_cltv h0 t ->
  tl_H t = out_cltv + LATENCY_GRACE_PERIOD_BLOCKS /\
  tl_F t >= tl_c2 t + ANTI_REORG_DELAY - 1 /\
  tl_F t <= in_cltv - LATENCY_GRACE_PERIOD_BLOCKS /\
  tl_F t < in_cltv + LATENCY_GRACE_PERIOD_BLOCKS.
Proof.
  intros Hd Hin Hh0 (Hff & (Ha & Hb) & (Hc & He) & HF).
  apply outbound_first in Hff.
  assert (tl_H t = out_cltv + LATENCY_GRACE_PERIOD_BLOCKS) as HH by lia.
  unfold confirmation_threshold in HF.
  split; [exact HH|]. revert Hd Hin Hb He HF. rewrite HH. consts. lia.
Qed.

(** Cross-check with an accepted forward: the four margins together give the node the whole window. *)
Lemma accepted_forward_has_window h out inn d :
  d >= MIN_CLTV_EXPIRY_DELTA ->
  check_incoming_htlc_cltv h out inn d = ROk tt ->
  inn - out >= MIN_CLTV_EXPIRY_DELTA /\ out + LATENCY_GRACE_PERIOD_BLOCKS > h.
Proof. intros Hd H. apply fwd_ok_iff in H. consts. lia. Qed.

(** The hand transliteration used by older correspondence runs equals the regenerated code. *)
Lemma hand_eq_gen :
  (forall h o i d, h_check_incoming_htlc_cltv h o i d = check_incoming_htlc_cltv h o i d) /\
  (forall c h, h_check_onchain_timeout c h = check_onchain_timeout c h) /\
  (forall c h, h_final_expiry_too_soon c h = final_hop_cltv_too_soon c h) /\
  (forall o c h p, h_should_broadcast o c h p = should_broadcast_htlc_timeout o c h p) /\
  (forall h c, h_confirmation_threshold h (Some c) = confirmation_threshold h OnchainEventKind_SpendConfirmation 0 (Some c)) /\
  (forall h, h_confirmation_threshold h None = confirmation_threshold h OnchainEventKind_Other 0 None).
Proof. repeat split; intros; reflexivity. Qed.

(** Every non-test call site of [check_incoming_htlc_cltv] passes at least MIN_CLTV_EXPIRY_DELTA as the
    minimum delta, so whatever [ChannelConfig::cltv_expiry_delta] a node is configured with, a forward
    it accepts leaves it the whole race budget. *)
Lemma call_sites_enforce_min_delta :
  Forall (fun d => d >= MIN_CLTV_EXPIRY_DELTA) forward_cltv_min_delta_sites.
Proof.
  unfold forward_cltv_min_delta_sites.
  repeat (apply Forall_cons; [cbv beta; repeat autounfold with c08_sites; consts; lia|]).
  apply Forall_nil.
Qed.

Lemma accepted_at_call_site_has_budget h out inn d :
  In d forward_cltv_min_delta_sites ->
  check_incoming_htlc_cltv h out inn d = ROk tt ->
  inn - out >= MIN_CLTV_EXPIRY_DELTA.
Proof.
  intros Hin H. apply fwd_ok_iff in H.
  pose proof (proj1 (Forall_forall _ _) call_sites_enforce_min_delta d Hin) as Hd. cbv beta in Hd. lia.
Qed.

(** Restart path (ChannelMonitor::get_onchain_failed_outbound_htlcs): a funding spend still in
    [onchain_events_awaiting_threshold_conf] counts as confirmed only once buried. *)
Lemma reload_burial event_height best :
  reload_funding_spend_buried event_height best = true <->
  best >= confirmation_threshold event_height OnchainEventKind_Other 0 None.
Proof. unfold reload_funding_spend_buried, confirmation_threshold. lia. Qed.

(** Holding-cell timeout (channel.rs do_best_block_updated): a queued add is dropped and failed back
    exactly when the forward-time check would refuse it as OutgoingCLTVTooSoon -- the two predicates
    mirror each other, as the code comment requires. *)
Lemma holding_cell_mirrors_forward_check out h :
  holding_cell_htlc_timed_out out (holding_cell_cltv_limit h) = true <->
  out <= h + LATENCY_GRACE_PERIOD_BLOCKS.
Proof. unfold holding_cell_htlc_timed_out, holding_cell_cltv_limit. lia. Qed.

Lemma holding_cell_consistent_with_forward h out inn d :
  check_incoming_htlc_cltv h out inn d = ROk tt ->
  holding_cell_htlc_timed_out out (holding_cell_cltv_limit h) = false.
Proof.
  intros H. apply fwd_ok_iff in H.
  unfold holding_cell_htlc_timed_out, holding_cell_cltv_limit. lia.
Qed.
