(** C20: the boolean well-formedness check on finite universes is sound. *)
Require Import LdkV.Prim.U64 LdkV.Model.BlockSync LdkV.Model.BlockSyncSpec.
Open Scope Z_scope.
Local Open Scope list_scope.

Lemma wf_listb_sound l : wf_listb l = true -> wf_tree (tree_of_assoc l).
Proof.
  intros H x nd Hx. unfold wf_listb in H. rewrite forallb_forall in H.
  unfold tree_of_assoc in Hx.
  destruct (find (fun kv => fst kv =? x) l) as [[k v]|] eqn:F; [|discriminate].
  cbn in Hx. inversion Hx; subst v. apply find_some in F. destruct F as (Hin & _).
  specialize (H _ Hin). cbn [snd] in H. apply andb_true_iff in H. destruct H as (H0 & Hp).
  split; [lia|]. intros p Hpar. rewrite Hpar in Hp. lia.
Qed.

Lemma tv_truthful T x nd : T x = Some nd -> n_pow nd = true -> truthful T (tv T x).
Proof.
  intros Hx Hp. unfold tv. rewrite Hx. exists nd. cbn. auto.
Qed.
