(** C20: soundness of the chain-sync client model, for ARBITRARY block sources. *)
Require Import LdkV.Prim.U64 LdkV.Model.BlockSync LdkV.Model.BlockSyncSpec LdkV.Proofs.C20Tree.
Open Scope Z_scope.
Local Open Scope list_scope.

(** [v] builds on [p] as far as the source-supplied metadata is concerned. *)
Definition links (v p : vh) : Prop :=
  v_hash p = v_prev v /\ v_height v = v_height p + 1 /\ v_cwork v = v_cwork p + v_bwork v.

Lemma Forall_filter {A} (P : A -> Prop) f l : Forall P l -> Forall P (filter f l).
Proof. rewrite !Forall_forall. intros H x Hx. apply filter_In in Hx. apply H, Hx. Qed.

Section Sound.
Variable T : tree.
Hypothesis WF : wf_tree T.

Lemma truthful_genuine v : truthful T v -> genuine T v.
Proof. intros (nd & H1 & H2 & H3). exists nd. rewrite H3. cbn. auto. Qed.

Lemma truthful_node v : truthful T v ->
  exists nd, T (v_hash v) = Some nd /\ n_pow nd = true /\ v_prev v = n_prev nd /\
             v_height v = n_height nd /\ v_cwork v = n_cwork nd /\ v_bwork v = n_bwork nd.
Proof. intros (nd & H1 & H2 & H3). exists nd. rewrite H3. cbn. rewrite H3 in H1. cbn in H1. auto 10. Qed.

Lemma mk_truthful v nd : T (v_hash v) = Some nd -> n_pow nd = true -> v_prev v = n_prev nd ->
  v_bwork v = n_bwork nd -> v_height v = n_height nd -> v_cwork v = n_cwork nd -> truthful T v.
Proof.
  intros. exists nd. repeat split; auto. destruct v; cbn in *. unfold true_vh. cbn. congruence.
Qed.

Lemma truthful_eq a b : truthful T a -> truthful T b -> v_hash a = v_hash b -> a = b.
Proof.
  intros (na & A1 & _ & A3) (nb & B1 & _ & B3) E. rewrite E in A1. rewrite A1 in B1. inversion B1; subst nb.
  rewrite A3, B3, E. reflexivity.
Qed.

Lemma genuine_meta_eq a b : genuine T a -> truthful T b -> v_hash a = v_hash b ->
  v_height a = v_height b -> v_cwork a = v_cwork b -> a = b.
Proof.
  intros (na & A1 & A2 & A3 & A4) Hb E Eh Ew.
  destruct (truthful_node _ Hb) as (nb & B1 & B2 & B3 & B4 & B5 & B6).
  rewrite E in A1. rewrite A1 in B1. inversion B1; subst nb.
  destruct a, b; cbn in *. congruence.
Qed.

Lemma validate_header_spec x h w q v : validate_header T x h w q = Ok v ->
  genuine T v /\ v_hash v = q /\ v_height v = h /\ v_cwork v = w /\ x = q.
Proof.
  unfold validate_header. destruct (T x) as [nd|] eqn:Hx; [|discriminate].
  destruct (n_pow nd) eqn:Hp; [|discriminate].
  destruct (x =? q) eqn:E; [|discriminate]. apply Z.eqb_eq in E. subst q.
  intros H. inversion H; subst v. cbn. repeat split; auto. exists nd. cbn. auto.
Qed.

Lemma poller_get_header_spec src q hint n v n' :
  poller_get_header T src q hint n = (Ok v, n') -> genuine T v /\ v_hash v = q.
Proof.
  unfold poller_get_header. destruct (o_header src n q hint) as [e|y h w]; [discriminate|].
  intros H. inversion H as [[H1 H2]]. apply validate_header_spec in H1. tauto.
Qed.

Lemma check_builds_on_spec v p : check_builds_on v p = Ok tt -> links v p.
Proof.
  unfold check_builds_on, links.
  destruct (v_prev v =? v_hash p) eqn:E1; cbn [negb]; [|discriminate].
  destruct (v_height v =? v_height p + 1) eqn:E2; cbn [negb]; [|discriminate].
  destruct (v_cwork v =? v_cwork p + v_bwork v) eqn:E3; cbn [negb]; [|discriminate].
  intros _. lia.
Qed.

(** [ChainPoller::look_up_previous_header] refuses a parent that fails proof of work, has another
    hash than [prev_blockhash], or whose height / chainwork do not link. *)
Lemma poller_prev_spec src v n p n' :
  poller_prev T src v n = (Ok p, n') -> genuine T p /\ links v p.
Proof.
  unfold poller_prev. destruct (v_height v =? 0); [discriminate|].
  destruct (poller_get_header T src (v_prev v) (Some (v_height v - 1)) n) as [[p0|e] n1] eqn:G; [|discriminate].
  destruct (check_builds_on v p0) as [[]|e] eqn:C; [|discriminate].
  intros H. inversion H; subst p0 n1. apply poller_get_header_spec in G. apply check_builds_on_spec in C. tauto.
Qed.

Lemma c_lookup_spec c x p : c_lookup c x = Some p -> In p c /\ v_hash p = x.
Proof. unfold c_lookup. intros H. apply find_some in H. destruct H as (H1 & H2). split; auto. lia. Qed.

(** [ChainNotifier::look_up_previous_header], cache or poller: same guarantees. *)
Lemma look_up_prev_spec src c v n p n' : Forall (truthful T) c ->
  look_up_prev T src c v n = (Ok p, n') -> genuine T p /\ links v p.
Proof.
  intros Hc. unfold look_up_prev. destruct (c_lookup c (v_prev v)) as [p0|] eqn:L.
  - destruct (negb (v_height v =? v_height p0 + 1)) eqn:E1; [discriminate|].
    destruct (negb (v_cwork v =? v_cwork p0 + v_bwork v)) eqn:E2; [discriminate|].
    intros H. inversion H; subst p0 n'. apply c_lookup_spec in L. destruct L as (Hin & Hh).
    split; [apply truthful_genuine; rewrite Forall_forall in Hc; auto|]. unfold links. lia.
  - apply poller_prev_spec.
Qed.

Lemma links_down v p : truthful T v -> genuine T p -> links v p -> truthful T p.
Proof.
  intros Hv (ndp & P1 & P2 & P3 & P4) (L1 & L2 & L3).
  destruct (truthful_node _ Hv) as (nd & V1 & V2 & V3 & V4 & V5 & V6).
  destruct (WF _ _ V1) as (_ & Hpar). rewrite <- V3, <- L1 in Hpar. destruct (Hpar _ P1) as (Hh & Hw).
  eapply mk_truthful; eauto; lia.
Qed.

Lemma links_up v p : genuine T v -> truthful T p -> links v p -> truthful T v.
Proof.
  intros (nd & V1 & V2 & V3 & V4) Hp (L1 & L2 & L3).
  destruct (truthful_node _ Hp) as (ndp & P1 & P2 & P3 & P4 & P5 & P6).
  destruct (WF _ _ V1) as (_ & Hpar). rewrite <- V3, <- L1 in Hpar. destruct (Hpar _ P1) as (Hh & Hw).
  eapply mk_truthful; eauto; lia.
Qed.

(** * The "lowest common ancestor" steps *)
Lemma lowest_step_prev cur prev d : truthful T cur -> truthful T prev -> v_hash cur <> v_hash prev ->
  v_height cur <= v_height prev -> anc T d (v_hash cur) -> anc T d (v_hash prev) -> anc T d (v_prev prev).
Proof.
  intros Hc Hp Hne Hle Dc Dp.
  destruct (truthful_node _ Hc) as (nc & C1 & _ & _ & C4 & _).
  destruct (truthful_node _ Hp) as (np & P1 & _ & P3 & P4 & _).
  destruct Dc as (lc & Dc). destruct (path_start_in _ _ _ _ Dc) as (ndd & Hd).
  assert (Hdc : n_height ndd <= n_height nc) by (apply (anc_height T WF d (v_hash cur) ndd nc); auto; exists lc; auto).
  rewrite P3. eapply anc_down; eauto.
  intros ->. rewrite P1 in Hd. inversion Hd; subst ndd.
  apply Hne. symmetry. apply (anc_same_height T WF (v_hash prev) (v_hash cur) np nc); auto; [exists lc; auto | lia].
Qed.

Lemma lowest_step_cur cur prev d : truthful T cur -> truthful T prev -> v_hash cur <> v_hash prev ->
  v_height prev <= v_height cur -> anc T d (v_hash cur) -> anc T d (v_hash prev) -> anc T d (v_prev cur).
Proof.
  intros Hc Hp Hne Hle Dc Dp.
  destruct (truthful_node _ Hc) as (nc & C1 & _ & C3 & C4 & _).
  destruct (truthful_node _ Hp) as (np & P1 & _ & _ & P4 & _).
  destruct Dp as (lp & Dp). destruct (path_start_in _ _ _ _ Dp) as (ndd & Hd).
  assert (Hdp : n_height ndd <= n_height np) by (apply (anc_height T WF d (v_hash prev) ndd np); auto; exists lp; auto).
  rewrite C3. eapply anc_down; eauto.
  intros ->. rewrite C1 in Hd. inversion Hd; subst ndd.
  apply Hne. apply (anc_same_height T WF (v_hash cur) (v_hash prev) nc np); auto; [exists lp; auto | lia].
Qed.

(** * [find_difference_from_header] *)
Definition diff_ok (cur prev ca : vh) (asc asc' : list vh) : Prop :=
  truthful T ca /\ truthful T cur /\
  exists l, asc' = l ++ asc /\ Forall (truthful T) l /\
            path T (v_hash ca) (v_hash cur) (map v_hash l) /\
            anc T (v_hash ca) (v_hash prev) /\
            (forall d, anc T d (v_hash cur) -> anc T d (v_hash prev) -> anc T d (v_hash ca)).

Lemma find_diff_spec src c : Forall (truthful T) c ->
  forall fuel cur prev asc n ca asc' n',
  genuine T cur -> truthful T prev ->
  find_diff fuel T src c cur prev asc n = (DOk ca asc', n') ->
  diff_ok cur prev ca asc asc'.
Proof.
  intros Hc. induction fuel as [|fuel IH]; intros cur prev asc n ca asc' n' Gc Tp H; cbn [find_diff] in H; [discriminate|].
  destruct (v_hash cur =? v_hash prev) eqn:Eh.
  - apply Z.eqb_eq in Eh.
    destruct (v_height cur =? v_height prev) eqn:E1; cbn [negb] in H; [|discriminate].
    destruct (v_cwork cur =? v_cwork prev) eqn:E2; cbn [negb] in H; [|discriminate].
    inversion H; subst ca asc' n'. clear H.
    assert (cur = prev) by (apply genuine_meta_eq; auto; lia). subst cur.
    destruct (truthful_node _ Tp) as (np & P1 & _).
    split; auto. split; auto. exists []. repeat split; auto.
    + econstructor; eauto.
    + eapply anc_refl; eauto.
  - apply Z.eqb_neq in Eh.
    destruct (v_height cur <=? v_height prev) eqn:Ele.
    + destruct (look_up_prev T src c prev n) as [[prev'|e] n1] eqn:Lp; [|discriminate].
      destruct (look_up_prev_spec _ _ _ _ _ _ Hc Lp) as (Gp' & Lk).
      assert (Tp' : truthful T prev') by (eapply links_down; eauto).
      destruct (truthful_node _ Tp) as (np & P1 & _ & P3 & _).
      assert (Hup : forall a, anc T a (v_hash prev') -> anc T a (v_hash prev)).
      { intros a Ha. eapply anc_up; eauto. rewrite <- P3. destruct Lk as (E & _). rewrite <- E. exact Ha. }
      destruct (v_height prev <=? v_height cur) eqn:Ege.
      * destruct (look_up_prev T src c cur n1) as [[cur'|e] n2] eqn:Lc; [|discriminate].
        destruct (look_up_prev_spec _ _ _ _ _ _ Hc Lc) as (Gc' & Lkc).
        destruct (IH _ _ _ _ _ _ _ Gc' Tp' H) as (Tca & Tc' & l & El & Fl & Pl & Al & Low).
        assert (Tc : truthful T cur) by (eapply links_up; eauto).
        destruct (truthful_node _ Tc) as (nc & C1 & _ & C3 & _).
        split; auto. split; auto. exists (l ++ [cur]). repeat split.
        -- rewrite El, <- app_assoc. reflexivity.
        -- apply Forall_app. split; auto.
        -- rewrite map_app. cbn [map]. eapply path_snoc; eauto. rewrite <- C3. destruct Lkc as (-> & _). reflexivity.
        -- auto.
        -- intros d Dc Dp. apply Low.
           ++ destruct Lkc as (-> & _). apply (lowest_step_cur cur prev d Tc Tp Eh); [lia | exact Dc | exact Dp].
           ++ destruct Lk as (-> & _). apply (lowest_step_prev cur prev d Tc Tp Eh); [lia | exact Dc | exact Dp].
      * destruct (IH _ _ _ _ _ _ _ Gc Tp' H) as (Tca & Tc & l & El & Fl & Pl & Al & Low).
        split; auto. split; auto. exists l. repeat split; auto.
        intros d Dc Dp. apply Low; auto.
        destruct Lk as (-> & _). apply (lowest_step_prev cur prev d Tc Tp Eh); [lia | exact Dc | exact Dp].
    + destruct (v_height prev <=? v_height cur) eqn:Ege; [|lia].
      destruct (look_up_prev T src c cur n) as [[cur'|e] n2] eqn:Lc; [|discriminate].
      destruct (look_up_prev_spec _ _ _ _ _ _ Hc Lc) as (Gc' & Lkc).
      destruct (IH _ _ _ _ _ _ _ Gc' Tp H) as (Tca & Tc' & l & El & Fl & Pl & Al & Low).
      assert (Tc : truthful T cur) by (eapply links_up; eauto).
      destruct (truthful_node _ Tc) as (nc & C1 & _ & C3 & _).
      split; auto. split; auto. exists (l ++ [cur]). repeat split.
      * rewrite El, <- app_assoc. reflexivity.
      * apply Forall_app. split; auto.
      * rewrite map_app. cbn [map]. eapply path_snoc; eauto. rewrite <- C3. destruct Lkc as (-> & _). reflexivity.
      * auto.
      * intros d Dc Dp. apply Low; auto.
        destruct Lkc as (-> & _). apply (lowest_step_cur cur prev d Tc Tp Eh); [lia | exact Dc | exact Dp].
Qed.

(** The fuel measure: the sum of the TRUE heights decreases at every iteration, whatever the source
    claims, because each step follows a hash-committed [prev_blockhash]. *)
Lemma genuine_th_parent v p : genuine T v -> genuine T p -> v_hash p = v_prev v ->
  th T p = th T v - 1 /\ 0 <= th T p.
Proof.
  intros (nd & V1 & _ & V3 & _) (ndp & P1 & _) E. unfold th. rewrite V1, P1.
  destruct (WF _ _ V1) as (_ & Hpar). rewrite <- V3, <- E in Hpar. destruct (Hpar _ P1) as (Hh & _).
  destruct (WF _ _ P1) as (H0 & _). lia.
Qed.

Lemma genuine_th_nonneg v : genuine T v -> 0 <= th T v.
Proof. intros (nd & V1 & _). unfold th. rewrite V1. destruct (WF _ _ V1). lia. Qed.

Lemma find_diff_fuel src c : Forall (truthful T) c ->
  forall fuel cur prev asc n, genuine T cur -> genuine T prev ->
  (Z.to_nat (th T cur + th T prev) < fuel)%nat ->
  fst (find_diff fuel T src c cur prev asc n) <> DOutOfFuel.
Proof.
  intros Hc. induction fuel as [|fuel IH]; intros cur prev asc n Gc Gp Hf; [lia|]. cbn [find_diff].
  pose proof (genuine_th_nonneg _ Gc). pose proof (genuine_th_nonneg _ Gp).
  destruct (v_hash cur =? v_hash prev).
  { destruct (negb (v_height cur =? v_height prev)); [cbn; discriminate|].
    destruct (negb (v_cwork cur =? v_cwork prev)); cbn; discriminate. }
  destruct (v_height cur <=? v_height prev) eqn:Ele.
  - destruct (look_up_prev T src c prev n) as [[prev'|e] n1] eqn:Lp; [|cbn; discriminate].
    destruct (look_up_prev_spec _ _ _ _ _ _ Hc Lp) as (Gp' & (Lk & _)).
    destruct (genuine_th_parent _ _ Gp Gp' Lk).
    destruct (v_height prev <=? v_height cur).
    + destruct (look_up_prev T src c cur n1) as [[cur'|e] n2] eqn:Lc; [|cbn; discriminate].
      destruct (look_up_prev_spec _ _ _ _ _ _ Hc Lc) as (Gc' & (Lkc & _)).
      destruct (genuine_th_parent _ _ Gc Gc' Lkc).
      apply IH; auto. lia.
    + apply IH; auto. lia.
  - destruct (v_height prev <=? v_height cur) eqn:Ege; [|lia].
    destruct (look_up_prev T src c cur n) as [[cur'|e] n2] eqn:Lc; [|cbn; discriminate].
    destruct (look_up_prev_spec _ _ _ _ _ _ Hc Lc) as (Gc' & (Lkc & _)).
    destruct (genuine_th_parent _ _ Gc Gc' Lkc).
    apply IH; auto. lia.
Qed.

(** * Cache operations keep only truthful headers *)
Lemma c_block_connected_truthful c v : Forall (truthful T) c -> truthful T v ->
  Forall (truthful T) (c_block_connected c v).
Proof.
  intros Hc Hv. unfold c_block_connected, c_retain_ge, c_insert.
  apply Forall_filter. constructor; auto. apply Forall_filter; auto.
Qed.

Lemma c_insert_during_diff_truthful c v : Forall (truthful T) c -> truthful T v ->
  Forall (truthful T) (c_insert_during_diff c v).
Proof.
  intros Hc Hv. unfold c_insert_during_diff, c_retain_ge, c_insert.
  apply Forall_filter. constructor; auto. apply Forall_filter; auto.
Qed.

Lemma c_blocks_disconnected_truthful r c v : Forall (truthful T) c ->
  Forall (truthful T) (c_blocks_disconnected r c v).
Proof. intros Hc. unfold c_blocks_disconnected. destruct r; auto. apply Forall_filter; auto. Qed.

(** * [connect_blocks] *)
Lemma fetch_block_hash src v n full n' : fetch_block T src v n = (Ok full, n') -> True.
Proof. auto. Qed.

Lemma connect_blocks_spec src : forall blocks c new_tip n r tip c' log n',
  Forall (truthful T) c -> Forall (truthful T) blocks ->
  connect_blocks T src c new_tip blocks n = (r, tip, c', log, n') ->
  Forall (truthful T) c' /\
  exists k fulls, (k <= List.length blocks)%nat /\ List.length fulls = k /\
    log = conn_events (firstn k blocks) fulls /\
    tip = last (firstn k blocks) new_tip /\
    (r = None -> k = List.length blocks) /\ (r <> None -> (k < List.length blocks)%nat).
Proof.
  induction blocks as [|b rest IH]; intros c new_tip n r tip c' log n' Hc Hb H; cbn [connect_blocks] in H.
  - inversion H; subst. split; auto. exists 0%nat, []. cbn. repeat split; auto; congruence.
  - destruct (fetch_block T src b n) as [[full|e] n1] eqn:F.
    + destruct (connect_blocks T src (c_block_connected c b) b rest n1) as [[[[r0 tip0] c0] log0] n0] eqn:R.
      inversion H; subst r0 tip0 c0 log n0. clear H.
      inversion Hb as [|? ? Hb1 Hb2]; subst.
      destruct (IH _ _ _ _ _ _ _ _ (c_block_connected_truthful _ _ Hc Hb1) Hb2 R) as (Hc' & k & fulls & Hk & Hl & Elog & Etip & Hr1 & Hr2).
      split; auto. exists (S k), (full :: fulls). cbn [List.length firstn]. repeat split; auto; try lia.
      * rewrite Elog. reflexivity.
      * rewrite last_cons_default. exact Etip.
    + inversion H; subst. split; auto. exists 0%nat, []. cbn. repeat split; auto; try congruence; try lia.
Qed.

(** * The listener's view of a run of connections along a path *)
Lemma lrun_conns : forall l a x fulls nda,
  path T a x (map v_hash l) -> Forall (truthful T) l -> T a = Some nda ->
  List.length fulls = List.length l ->
  lrun T (a, n_height nda) (conn_events l fulls) (x, n_height nda + Z.of_nat (List.length l)).
Proof.
  induction l as [|b l IH]; intros a x fulls nda Hp Hl Ha Hf.
  - cbn in Hp. apply path_nil_inv in Hp. subst x. destruct fulls; [|discriminate].
    cbn. rewrite Z.add_0_r. constructor.
  - destruct fulls as [|f fulls]; [discriminate|]. cbn [map] in Hp.
    inversion Hp as [|? ? ? ? nda' ndb Ha' Hb Hprev Hrest]; subst.
    inversion Hl as [|? ? Hb1 Hl2]; subst.
    destruct (truthful_node _ Hb1) as (nb & B1 & B2 & B3 & B4 & _).
    rewrite Hb in B1. inversion B1; subst nb.
    destruct (WF _ _ Hb) as (_ & Hpar). destruct (Hpar _ Ha) as (Hh & _).
    unfold conn_events. cbn [combine map fst snd]. unfold conn_event at 1.
    replace (v_height b) with (n_height nda + 1) by lia.
    econstructor.
    + eapply ls_conn; eauto. lia.
    + replace (n_height nda + Z.of_nat (List.length (b :: l))) with (n_height ndb + Z.of_nat (List.length l))
        by (cbn [List.length]; lia).
      replace (n_height nda + 1) with (n_height ndb) by lia.
      apply IH; auto.
Qed.

End Sound.
