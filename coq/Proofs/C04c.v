(** C04, part A — the executable instance satisfies the hypotheses of the abstract theorems. *)
From LdkV Require Import Prim.U64 Crypto.Bytes Crypto.Sha256 Crypto.Hmac Crypto.ChaCha20
  Gen.ConstsC04 Model.InboundSecret Model.InboundSecretExec Proofs.C04.
Open Scope Z_scope.

Lemma exec_crypt_inv : forall k iv d, p_crypt P_exec k iv (p_crypt P_exec k iv d) = d.
Proof. intros. apply ldk_apply_chacha20_involutive. Qed.

Lemma exec_hmac_len : forall k m, List.length (p_hmac P_exec k m) = 32%nat.
Proof. intros. apply length_hmac_sha256. Qed.

(** completeness for the real HMAC-SHA256 / ChaCha20 / SHA-256 (no hypothesis left) *)
Lemma verify_create_ok_exec K min_value delta rand now cltv hash secret info total now' :
  info_args_ok min_value (match cltv with Some _ => M_LdkPaymentHashCustomFinalCltv | None => M_LdkPaymentHash end) delta now cltv ->
  (32 <= List.length rand)%nat ->
  info_bytes min_value (match cltv with Some _ => M_LdkPaymentHashCustomFinalCltv | None => M_LdkPaymentHash end)
             delta now cltv = Some info ->
  create P_exec K min_value delta rand now cltv = Some (hash, secret) ->
  match min_value with Some a => a | None => 0 end <= total ->
  now' <= absolute_expiry now delta ->
  verify P_exec K hash secret total now' = Some (Some (create_preimage P_exec K info rand), cltv) /\
  hash = sha256 (create_preimage P_exec K info rand).
Proof. apply (verify_create_ok P_exec exec_crypt_inv exec_hmac_len). Qed.

Lemma verify_create_from_hash_ok_exec K min_value hash delta now cltv secret total now' :
  info_args_ok min_value (match cltv with Some _ => M_UserPaymentHashCustomFinalCltv | None => M_UserPaymentHash end) delta now cltv ->
  create_from_hash P_exec K min_value hash delta now cltv = Some secret ->
  match min_value with Some a => a | None => 0 end <= total ->
  now' <= absolute_expiry now delta ->
  verify P_exec K hash secret total now' = Some (None, cltv).
Proof. apply (verify_create_from_hash_ok P_exec exec_crypt_inv exec_hmac_len). Qed.
