(** C02 — dust exposure: the gates of [validate_update_fee] / [can_accept_incoming_htlc] (anchored,
    generated comparisons) bound BOTH exposures, and the exposure the generated
    [get_dust_exposure_stats] computes is at least the total of the HTLCs that have no output. *)
Require Import LdkV.Prim.U64 LdkV.Prim.Rs2vLib LdkV.Gen.Consts LdkV.Gen.ChanUtilsFees LdkV.Gen.TxBuilder
  LdkV.Gen.CfgChecks LdkV.Gen.FwdChecks LdkV.Model.FwdAdmission.
Open Scope Z_scope.

Lemma update_fee_gate l r mx :
  update_fee_dust_ok l r mx = true -> l <= mx /\ r <= mx.
Proof.
  unfold update_fee_dust_ok, fee_local_dust_over, fee_remote_dust_over.
  destruct (Z.ltb_spec mx l); cbn [negb andb]; [discriminate|].
  destruct (Z.ltb_spec mx r); cbn [negb andb]; [discriminate|]. lia.
Qed.

Lemma accept_htlc_gate l r mx :
  accept_htlc_dust_ok l r mx = true -> l <= mx /\ r <= mx.
Proof.
  unfold accept_htlc_dust_ok, accept_remote_dust_over, accept_local_dust_over.
  destruct (Z.ltb_spec mx r); cbn [negb andb]; [discriminate|].
  destruct (Z.ltb_spec mx l); cbn [negb andb]; [discriminate|]. lia.
Qed.

(** total of the HTLCs without an output on the commitment of [local] at the buffered feerate *)
Definition htlc_dust_total (local : bool) (htlcs : list HTLCAmountDirection) (fb limit : Z)
    (ct : ChannelTypeFeatures) : Z :=
  sum_z (filter_map (fun h => then_some (is_dust h local fb limit ct) (htlc_amount_msat h)) htlcs).

Lemma second_stage_nonneg ct f : 0 <= f ->
  0 <= fst (second_stage_tx_fees_sat ct f) /\ 0 <= snd (second_stage_tx_fees_sat ct f).
Proof.
  intros Hf. unfold second_stage_tx_fees_sat, htlc_success_tx_weight, htlc_timeout_tx_weight.
  destruct (ctf_supports_anchors_zero_fee_htlc_tx ct), (ctf_supports_anchor_zero_fee_commitments ct);
    cbn [orb fst snd]; split; try lia; apply Z.div_pos; lia.
Qed.

Lemma commit_fee_nonneg f n ct : 0 <= f -> 0 <= n -> 0 <= commit_tx_fee_sat f n ct.
Proof.
  intros Hf Hn. unfold commit_tx_fee_sat, commitment_tx_base_weight.
  assert (0 <= COMMITMENT_TX_WEIGHT_PER_HTLC) by (repeat autounfold with ldk_consts; lia).
  apply Z.div_pos; [|lia].
  apply Z.mul_nonneg_nonneg; [lia|].
  destruct (ctf_supports_anchors_zero_fee_htlc_tx ct); nia.
Qed.

Lemma htlc_fees_nonneg f a o ct : 0 <= f -> 0 <= a -> 0 <= o -> 0 <= htlc_tx_fees_sat f a o ct.
Proof.
  intros Hf Ha Ho. unfold htlc_tx_fees_sat.
  destruct (second_stage_nonneg ct f Hf) as (H1 & H2).
  destruct (second_stage_tx_fees_sat ct f) as [s t]. cbn [fst snd] in *. nia.
Qed.

Lemma excess_fees_nonneg local htlcs fb f limit ct :
  0 <= f -> 0 <= fst (commit_plus_htlc_tx_fees_msat local htlcs fb f limit ct).
Proof.
  intros Hf. unfold commit_plus_htlc_tx_fees_msat. cbv zeta. cbn [fst].
  set (a := Z.of_nat (List.length (List.filter _ htlcs))).
  set (o := Z.of_nat (List.length (List.filter _ htlcs))).
  assert (0 <= a) by (unfold a; lia). assert (0 <= o) by (unfold o; lia).
  assert (0 <= commit_tx_fee_sat f (a + o) ct) by (apply commit_fee_nonneg; lia).
  assert (0 <= htlc_tx_fees_sat f a o ct) by (apply htlc_fees_nonneg; lia).
  lia.
Qed.

Lemma exposure_local htlcs f lim dl ct :
  fst (get_dust_exposure_stats true htlcs f lim dl ct) =
  htlc_dust_total true htlcs (get_dust_buffer_feerate f) dl ct.
Proof. reflexivity. Qed.

Lemma exposure_remote_ge htlcs f lim dl ct :
  htlc_dust_total false htlcs (get_dust_buffer_feerate f) dl ct <=
  fst (get_dust_exposure_stats false htlcs f lim dl ct).
Proof.
  unfold get_dust_exposure_stats. cbv zeta. cbn [orb].
  fold (htlc_dust_total false htlcs (get_dust_buffer_feerate f) dl ct).
  destruct (sat_sub f (unwrap_or lim f) =? 0) eqn:E; [cbn [fst]; lia|].
  assert (Hx : 0 <= sat_sub f (unwrap_or lim f)) by (unfold sat_sub; lia).
  assert (Hn := excess_fees_nonneg false htlcs (get_dust_buffer_feerate f) _ dl ct Hx).
  destruct (commit_plus_htlc_tx_fees_msat false htlcs (get_dust_buffer_feerate f)
              (sat_sub f (unwrap_or lim f)) dl ct) as [x y].
  cbn [fst] in *. lia.
Qed.

(** A feerate update (resp. an inbound HTLC) that passes the gates leaves the total of the HTLCs without
    an output within the limit on the node's OWN commitment and on the COUNTERPARTY's. *)
Lemma dust_bound_update_fee htlcs f lim dl cdl ct mx :
  update_fee_dust_ok (fst (get_dust_exposure_stats true htlcs f lim dl ct))
                     (fst (get_dust_exposure_stats false htlcs f lim cdl ct)) mx = true ->
  htlc_dust_total true htlcs (get_dust_buffer_feerate f) dl ct <= mx /\
  htlc_dust_total false htlcs (get_dust_buffer_feerate f) cdl ct <= mx.
Proof.
  intros H. apply update_fee_gate in H. destruct H as (Hl & Hr).
  rewrite exposure_local in Hl. assert (Hg := exposure_remote_ge htlcs f lim cdl ct). lia.
Qed.

Lemma dust_bound_accept htlcs f lim dl cdl ct mx :
  accept_htlc_dust_ok (fst (get_dust_exposure_stats true htlcs f lim dl ct))
                      (fst (get_dust_exposure_stats false htlcs f lim cdl ct)) mx = true ->
  htlc_dust_total true htlcs (get_dust_buffer_feerate f) dl ct <= mx /\
  htlc_dust_total false htlcs (get_dust_buffer_feerate f) cdl ct <= mx.
Proof.
  intros H. apply accept_htlc_gate in H. destruct H as (Hl & Hr).
  rewrite exposure_local in Hl. assert (Hg := exposure_remote_ge htlcs f lim cdl ct). lia.
Qed.
