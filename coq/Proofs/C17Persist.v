(** C17 — write / read of the network graph is the identity on channels and nodes and drops the
    removal tracking; everything the model's theorems say about the graph content survives it. *)
From stdpp Require Import gmap.
From Coq Require Import ZArith Lia.
Require Import LdkV.Gen.GossipConsts LdkV.Model.Gossip LdkV.Model.GossipSpec LdkV.Model.GossipPersist.
Require Import LdkV.Proofs.C17Base LdkV.Proofs.C17Step LdkV.Proofs.C17Auth.
Open Scope Z_scope.

Lemma dec_enc_oz o : ∀ f v, enc_oz o = [f; v] → dec_oz f v = o.
Proof. destruct o; intros f v [= <- <-]; reflexivity. Qed.

Lemma dec_enc_chan c : dec_chan (enc_chan c) = Some c.
Proof.
  destruct c as [ft one two cap u12 u21 msg rv].
  destruct cap, msg, u12 as [[? [] ? ? ? ? ? []]|], u21 as [[? [] ? ? ? ? ? []]|]; reflexivity.
Qed.

Lemma dec_enc_node n : dec_node (enc_node n) = Some n.
Proof.
  destruct n as [cs a]. unfold enc_node, dec_node. simpl n_chans. simpl n_ann.
  rewrite Nat2Z.id, drop_app, take_app.
  destruct a as [[ts ct [m|]]|]; reflexivity.
Qed.

Theorem read_write g : read (write g) = Some (Graph (g_chans g) (g_nodes g) ∅ ∅).
Proof.
  unfold read, write. simpl.
  rewrite (mapM_fmap_Some _ (prod_map id enc_chan) (map_to_list (g_chans g))).
  2: { intros [k c]. change (dec_chan (enc_chan c) ≫= (λ c0, Some (k, c0)) = Some (k, c)). by rewrite dec_enc_chan. }
  simpl.
  rewrite (mapM_fmap_Some _ (prod_map id enc_node) (map_to_list (g_nodes g))).
  2: { intros [k n]. change (dec_node (enc_node n) ≫= (λ n0, Some (k, n0)) = Some (k, n)). by rewrite dec_enc_node. }
  simpl. by rewrite !list_to_map_to_list.
Qed.

(** … which is the model's [OReload] step *)
Corollary read_write_is_reload cf g : read (write g) = Some (step cf g OReload).2.
Proof. by rewrite read_write. Qed.

(** what is read back has the same channels and nodes, hence is well formed / authentic exactly
    when the graph written was, and holds the same directional and node information (so every
    "newer only" / staleness statement about [g] is a statement about it) *)
Theorem read_write_preserves cf ops g g' :
  read (write g) = Some g' →
  g_chans g' = g_chans g ∧ g_nodes g' = g_nodes g ∧ g_rmc g' = ∅ ∧ g_rmn g' = ∅ ∧
  (wf g → wf g') ∧ (authentic cf ops g → authentic cf ops g') ∧
  (∀ scid d, g_dir g' scid d = g_dir g scid d) ∧
  read (write g') = Some g'.
Proof.
  rewrite read_write. intros [= <-]. simpl. split_and!; try done.
  by rewrite read_write.
Qed.
