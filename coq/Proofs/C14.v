(** C14, forward direction: the onion built by [build] is peeled hop by hop into exactly the
    per-hop payloads, every packet in flight has the size of the first one, the last hop sees the
    end marker; [build] fails exactly when the route does not fit; a peel that succeeds pins the
    packet bytes and the associated data under the hop's [mu] key. *)
From Coq Require Import ZArith List Bool Lia.
Require Import LdkV.Crypto.Bytes LdkV.Model.Sphinx.
Import ListNotations.
Open Scope nat_scope.

(** * List lemmas about [xor_bytes] that [Crypto/Bytes.v] does not have *)

Lemma firstn_xor n a b : firstn n (xor_bytes a b) = xor_bytes (firstn n a) (firstn n b).
Proof.
  revert a b. induction n as [|n IH]; intros [|x a] [|y b]; cbn [firstn xor_bytes]; try reflexivity.
  now rewrite IH.
Qed.

Lemma skipn_xor n a b : skipn n (xor_bytes a b) = xor_bytes (skipn n a) (skipn n b).
Proof.
  revert a b. induction n as [|n IH]; intros [|x a] [|y b]; cbn [skipn xor_bytes]; try reflexivity.
  - now rewrite xor_bytes_nil_r.
  - apply IH.
Qed.

Lemma xor_zeros_l n a : length a = n -> xor_bytes (zeros n) a = a.
Proof. intros H. rewrite xor_bytes_comm. now apply xor_bytes_zeros_r. Qed.

Lemma skipn_skipn {A} (l : list A) x y : skipn x (skipn y l) = skipn (y + x) l.
Proof.
  revert l. induction y as [|y IH]; intros l; [reflexivity|].
  destruct l as [|a l]; [now rewrite !skipn_nil|]. cbn [skipn Nat.add]. apply IH.
Qed.

Lemma skipn_app_exact {A} (a b : list A) n : length a = n -> skipn n (a ++ b) = b.
Proof. intros <-. rewrite skipn_app, skipn_all, Nat.sub_diag. reflexivity. Qed.

Lemma firstn_app_exact {A} (a b : list A) n : length a = n -> firstn n (a ++ b) = a.
Proof. intros <-. rewrite firstn_app, firstn_all, Nat.sub_diag, app_nil_r. reflexivity. Qed.

Lemma firstn_app_ge {A} (a b : list A) n : length a <= n -> firstn n (a ++ b) = a ++ firstn (n - length a) b.
Proof. intros H. rewrite firstn_app, firstn_all2 by exact H. reflexivity. Qed.

Lemma skipn_app_ge {A} (a b : list A) n : length a <= n -> skipn n (a ++ b) = skipn (n - length a) b.
Proof. intros H. rewrite skipn_app, skipn_all2 by exact H. reflexivity. Qed.

Section Forward.
  Variable payload : Type.
  Variable enc : payload -> bytes.
  Variable parse : bytes -> option (payload * bytes).
  Variable ks : bytes -> nat -> bytes.
  Variable hmac : bytes -> bytes -> bytes.
  (** which payloads the codec law is claimed for (LDK: the encoded TLV stream is shorter than 2^16) *)
  Variable payload_ok : payload -> Prop.

  (** The stream cipher yields [n] bytes and longer requests extend shorter ones. *)
  Hypothesis ks_length : forall k n, length (ks k n) = n.
  Hypothesis ks_prefix : forall k m n, m <= n -> firstn m (ks k n) = ks k m.
  Hypothesis hmac_length : forall k m, length (hmac k m) = 32.
  (** The payload codec is self-delimiting. *)
  Hypothesis parse_enc : forall p r, payload_ok p -> parse (enc p ++ r) = Some (p, r).

  Notation hop := (hop payload).
  Notation hop_len := (hop_len payload enc).
  Notation total_len := (total_len payload enc).
  Notation filler_loop := (filler_loop payload enc ks).
  Notation wrap_loop := (wrap_loop payload enc ks hmac).
  Notation build := (build payload enc ks hmac).
  Notation peel := (peel payload parse ks hmac).
  Notation peel_route := (peel_route payload parse ks hmac).
  Notation ks_at := (ks_at ks).

  (** ** What "delivered" means: hop [i] obtains payload [i] and a next packet of size [N]; the last
      hop obtains its payload and the end marker. *)
  Fixpoint delivers (N : nat) (keys : list hopkeys) (ad : bytes) (P : packet) (ps : list payload) : Prop :=
    match keys, ps with
    | k :: keys', p :: ps' =>
        match keys' with
        | [] => ps' = [] /\ peel k ad P = PeelFinal p
        | _ :: _ =>
            exists P', peel k ad P = PeelForward p P' /\ length (p_data P') = N /\ length (p_hmac P') = 32 /\
                       delivers N keys' ad P' ps'
        end
    | _, _ => False
    end.

  (** No layer below the outermost one carries the all-zero HMAC, which BOLT-4 reserves as the end
      marker.  For HMAC-SHA256 an all-zero tag has probability 2^-256 per hop; when it does happen the
      real node (and this model) treats the hop as final. *)
  Fixpoint inner_nonzero (N : nat) (ad filler noise : bytes) (hs : list hop) : Prop :=
    match hs with
    | [] => True
    | _ :: tl =>
        match tl with
        | [] => True
        | _ :: _ => snd (wrap_loop N ad filler noise tl) <> zeros 32 /\ inner_nonzero N ad filler noise tl
        end
    end.

  Definition layers_nonzero (noise : bytes) (hs : list hop) (ad : bytes) : Prop :=
    match filler_loop (length noise) hs 0 [] with
    | Some filler => inner_nonzero (length noise) ad filler noise hs
    | None => True
    end.

  (** ** The filler loop *)

  Lemma ks_at_length k seek len : length (ks_at k seek len) = len.
  Proof. unfold Sphinx.ks_at. rewrite skipn_length, ks_length. lia. Qed.

  Lemma filler_loop_none N hs pos res :
    hs <> [] -> N < pos + total_len hs -> filler_loop N hs pos res = None.
  Proof.
    revert pos res. induction hs as [|h tl IH]; intros pos res Hne Hlt; [congruence|].
    cbn [Sphinx.filler_loop]. cbn [Sphinx.total_len fold_right] in Hlt.
    destruct (N <? pos + hop_len h) eqn:E; [reflexivity|].
    apply Nat.ltb_ge in E.
    destruct tl as [|h2 tl]; [cbn [fold_right] in Hlt; lia|].
    apply IH; [discriminate|]. cbn [Sphinx.total_len fold_right] in *. lia.
  Qed.

  Lemma filler_loop_some N hs pos res :
    pos + total_len hs <= N -> exists f, filler_loop N hs pos res = Some f.
  Proof.
    revert pos res. induction hs as [|h tl IH]; intros pos res Hle; [eexists; reflexivity|].
    cbn [Sphinx.filler_loop]. cbn [Sphinx.total_len fold_right] in Hle.
    destruct (N <? pos + hop_len h) eqn:E; [apply Nat.ltb_lt in E; lia|].
    destruct tl as [|h2 tl]; [eexists; reflexivity|].
    apply IH. cbn [Sphinx.total_len fold_right] in *. lia.
  Qed.

  Lemma filler_loop_le N hs pos res f :
    hs <> [] -> length res = pos -> filler_loop N hs pos res = Some f -> length f <= N.
  Proof.
    revert pos res. induction hs as [|h tl IH]; intros pos res Hne Hres Hf; [congruence|].
    cbn [Sphinx.filler_loop] in Hf.
    destruct (N <? pos + hop_len h) eqn:E; [discriminate|]. apply Nat.ltb_ge in E.
    destruct tl as [|h2 tl].
    - injection Hf as <-. lia.
    - eapply IH; [discriminate| |exact Hf].
      rewrite xor_bytes_length, app_length, length_zeros, ks_at_length. lia.
  Qed.

  (** ** The wrapping loop *)

  Lemma wrap_loop_hmac_length N ad filler noise hs :
    length (snd (wrap_loop N ad filler noise hs)) = 32.
  Proof.
    destruct hs as [|h tl]; cbn [Sphinx.wrap_loop]; [apply length_zeros|].
    destruct (wrap_loop N ad filler noise tl) as [data hm]. cbn [snd]. apply hmac_length.
  Qed.

  Lemma wrap_loop_data_length N ad filler noise hs :
    length noise = N -> length filler <= N -> Forall (fun h => hop_len h <= N) hs ->
    length (fst (wrap_loop N ad filler noise hs)) = N.
  Proof.
    intros Hn Hf. induction hs as [|h tl IH]; intros Hall; cbn [Sphinx.wrap_loop]; [exact Hn|].
    apply Forall_cons_iff in Hall as [Hh Htl]. specialize (IH Htl).
    pose proof (wrap_loop_hmac_length N ad filler noise tl) as Hm.
    destruct (wrap_loop N ad filler noise tl) as [data hm]. cbn [fst snd] in *.
    unfold Sphinx.hop_len in Hh.
    assert (Hx : length (xor_bytes (enc (snd h) ++ hm ++ firstn (N - (length (enc (snd h)) + 32)) data)
                                   (ks (hk_rho (fst h)) N)) = N).
    { rewrite xor_bytes_length, !app_length, firstn_length, ks_length. lia. }
    destruct tl; cbn [fst]; [|exact Hx].
    rewrite app_length, firstn_length, Hx. lia.
  Qed.

  Lemma delivers_cons2 N k k2 keys ad P p p2 ps :
    delivers N (k :: k2 :: keys) ad P (p :: p2 :: ps) =
    (exists P', peel k ad P = PeelForward p P' /\ length (p_data P') = N /\ length (p_hmac P') = 32 /\
                delivers N (k2 :: keys) ad P' (p2 :: ps)).
  Proof. reflexivity. Qed.

  Lemma inner_nonzero_cons2 N ad filler noise h h2 tl :
    inner_nonzero N ad filler noise (h :: h2 :: tl) =
    (snd (wrap_loop N ad filler noise (h2 :: tl)) <> zeros 32 /\ inner_nonzero N ad filler noise (h2 :: tl)).
  Proof. reflexivity. Qed.

  Lemma wrap_loop_cons2 N ad filler noise h h2 tl :
    wrap_loop N ad filler noise (h :: h2 :: tl) =
    (let crypted := xor_bytes (enc (snd h) ++ snd (wrap_loop N ad filler noise (h2 :: tl)) ++
                               firstn (N - (length (enc (snd h)) + 32)) (fst (wrap_loop N ad filler noise (h2 :: tl))))
                              (ks (hk_rho (fst h)) N) in
     (crypted, hmac (hk_mu (fst h)) (crypted ++ ad))).
  Proof.
    change (wrap_loop N ad filler noise (h :: h2 :: tl)) with
      (let '(data, hmac_res) := wrap_loop N ad filler noise (h2 :: tl) in
       let crypted := xor_bytes (enc (snd h) ++ hmac_res ++ firstn (N - (length (enc (snd h)) + 32)) data) (ks (hk_rho (fst h)) N) in
       (crypted, hmac (hk_mu (fst h)) (crypted ++ ad))).
    destruct (wrap_loop N ad filler noise (h2 :: tl)); reflexivity.
  Qed.

  (** The central invariant.  [res] is the filler accumulated by the hops before [hs] (of total
      length [pos]); [filler] is what the filler loop returns in the end.  Then the packet wrapped for
      [hs] has [res] as its last [pos] bytes, and peeling it with the keys of [hs] delivers exactly
      their payloads. *)
  Lemma wrap_correct N ad noise filler : length noise = N ->
    forall hs pos res,
    hs <> [] ->
    length res = pos ->
    pos + total_len hs <= N ->
    filler_loop N hs pos res = Some filler ->
    Forall payload_ok (map snd hs) ->
    inner_nonzero N ad filler noise hs ->
    length (fst (wrap_loop N ad filler noise hs)) = N /\
    skipn (N - pos) (fst (wrap_loop N ad filler noise hs)) = res /\
    delivers N (map fst hs) ad (mk_packet (fst (wrap_loop N ad filler noise hs)) (snd (wrap_loop N ad filler noise hs))) (map snd hs).
  Proof.
    intros Hnoise. induction hs as [|h tl IH]; intros pos res Hne Hres Hfit Hfill Hok Hnz; [congruence|].
    cbn [Sphinx.total_len fold_right] in Hfit. fold (total_len tl) in Hfit.
    cbn [Sphinx.filler_loop] in Hfill.
    destruct (N <? pos + hop_len h) eqn:E; [discriminate|]. apply Nat.ltb_ge in E.
    cbn [map] in Hok. apply Forall_cons_iff in Hok as [Hokp Hoktl].
    set (pl := enc (snd h)) in *. set (K := ks (hk_rho (fst h)) N).
    assert (HK : length K = N) by apply ks_length.
    assert (Hs : hop_len h = length pl + 32) by reflexivity.
    destruct tl as [|h2 tl].
    - (* last hop *)
      injection Hfill as <-.
      cbn [Sphinx.wrap_loop fst snd map].
      fold pl K.
      set (shifted := pl ++ zeros 32 ++ firstn (N - (length pl + 32)) noise).
      assert (Hsh : length shifted = N).
      { unfold shifted. rewrite !app_length, length_zeros, firstn_length. lia. }
      assert (Hcr : length (xor_bytes shifted K) = N) by (rewrite xor_bytes_length; lia).
      set (D := firstn (N - length res) (xor_bytes shifted K) ++ res).
      assert (HD : length D = N) by (unfold D; rewrite app_length, firstn_length; lia).
      split; [exact HD|]. split.
      + unfold D. apply skipn_app_exact. rewrite firstn_length. lia.
      + cbn [delivers]. split; [reflexivity|]. unfold Sphinx.peel. cbn [p_data p_hmac].
        rewrite bytes_eqb_refl. cbn [negb]. rewrite HD. fold K.
        assert (Hplain : exists X, xor_bytes D K = pl ++ zeros 32 ++ X).
        { replace (xor_bytes D K) with (xor_bytes D (firstn (N - length res) K ++ skipn (N - length res) K))
            by (now rewrite firstn_skipn).
          unfold D. rewrite xor_bytes_app by (rewrite !firstn_length; lia).
          rewrite firstn_xor, xor_bytes_cancel by (rewrite !firstn_length; lia).
          unfold shifted. rewrite app_assoc, firstn_app_ge by (rewrite app_length, length_zeros; lia).
          rewrite <- app_assoc. eexists. rewrite <- app_assoc. reflexivity. }
        destruct Hplain as [X ->].
        unfold pl. rewrite parse_enc by exact Hokp.
        rewrite app_length, length_zeros.
        destruct (32 + length X <? 32) eqn:E2; [apply Nat.ltb_lt in E2; lia|].
        rewrite firstn_app_exact by apply length_zeros. rewrite bytes_eqb_refl. reflexivity.
    - (* intermediate hop *)
      remember (h2 :: tl) as tl' eqn:Etl.
      assert (Hne' : tl' <> []) by (subst tl'; discriminate).
      set (pos' := pos + hop_len h) in *.
      set (KK := ks_at (hk_rho (fst h)) (N - pos) pos') in *.
      set (res' := xor_bytes (res ++ zeros (pos' - length res)) KK) in *.
      assert (HKK : length KK = pos') by apply ks_at_length.
      assert (Hres' : length res' = pos').
      { unfold res'. rewrite xor_bytes_length, app_length, length_zeros. lia. }
      rewrite Etl, inner_nonzero_cons2, <- Etl in Hnz. destruct Hnz as [Hnz0 Hnz].
      assert (Hfit' : pos' + total_len tl' <= N) by (unfold pos'; lia).
      destruct (IH pos' res' Hne' Hres' Hfit' Hfill Hoktl Hnz) as (HlenD' & Htail' & Hdel').
      pose proof (wrap_loop_hmac_length N ad filler noise tl') as HlenM'.
      rewrite Etl, wrap_loop_cons2, <- Etl.
      destruct (wrap_loop N ad filler noise tl') as [D' M'] eqn:EW. cbn [fst snd] in *.
      fold pl K.
      set (shifted := pl ++ M' ++ firstn (N - (length pl + 32)) D').
      assert (Hsh : length shifted = N).
      { unfold shifted. rewrite !app_length, firstn_length. lia. }
      (* KK is the stream of this hop from N - pos to N + hop_len *)
      assert (HKKdef : KK = skipn (N - pos) (ks (hk_rho (fst h)) (N + hop_len h))).
      { unfold KK, Sphinx.ks_at, pos'. f_equal. f_equal. lia. }
      assert (HKK1 : firstn pos KK = skipn (N - pos) K).
      { rewrite HKKdef, firstn_skipn_comm. replace (N - pos + pos) with N by lia.
        unfold K. rewrite ks_prefix by lia. reflexivity. }
      assert (HKK2 : skipn pos KK = skipn N (ks (hk_rho (fst h)) (N + hop_len h))).
      { rewrite HKKdef, skipn_skipn. f_equal. lia. }
      assert (Hr1 : firstn pos res' = xor_bytes res (skipn (N - pos) K)).
      { unfold res'. rewrite firstn_xor, firstn_app_exact by exact Hres. now rewrite HKK1. }
      assert (Hr2 : skipn pos res' = skipn N (ks (hk_rho (fst h)) (N + hop_len h))).
      { unfold res'. rewrite skipn_xor, skipn_app_exact by exact Hres. rewrite HKK2.
        apply xor_zeros_l. rewrite skipn_length, ks_length. lia. }
      assert (HD : length (xor_bytes shifted K) = N) by (rewrite xor_bytes_length; lia).
      split; [exact HD|]. split.
      + (* tail of this layer is [res] *)
        rewrite skipn_xor. unfold shifted.
        rewrite app_assoc, skipn_app_ge by (rewrite app_length; lia).
        rewrite app_length, HlenM'.
        replace (skipn (N - pos - (length pl + 32)) (firstn (N - (length pl + 32)) D'))
          with (firstn pos (skipn (N - pos') D')).
        2:{ rewrite firstn_skipn_comm. unfold pos'. rewrite Hs.
            replace (N - (pos + (length pl + 32)) + pos) with (N - (length pl + 32)) by lia.
            f_equal. lia. }
        rewrite Htail', Hr1. apply xor_bytes_cancel. rewrite skipn_length. lia.
      + (* peeling *)
        rewrite Etl. cbn [map]. rewrite delivers_cons2.
        change (fst h2 :: map fst tl) with (map fst (h2 :: tl)).
        change (snd h2 :: map snd tl) with (map snd (h2 :: tl)). rewrite <- Etl.
        exists (mk_packet D' M').
        split; [|split; [exact HlenD'|split; [exact HlenM'|exact Hdel']]].
        unfold Sphinx.peel. cbn [p_data p_hmac].
        rewrite bytes_eqb_refl. cbn [negb]. rewrite HD. fold K.
        rewrite xor_bytes_cancel by lia.
        unfold shifted, pl. rewrite parse_enc by exact Hokp. fold pl.
        rewrite app_length, HlenM', firstn_length, HlenD'.
        destruct (32 + Nat.min (N - (length pl + 32)) N <? 32) eqn:E2; [apply Nat.ltb_lt in E2; lia|].
        rewrite firstn_app_exact, skipn_app_exact by exact HlenM'.
        destruct (bytes_eqb M' (zeros 32)) eqn:E3; [apply bytes_eqb_eq in E3; contradiction|].
        f_equal. f_equal.
        rewrite firstn_length, HlenD'.
        replace (N - Nat.min (N - (length pl + 32)) N) with (hop_len h) by lia.
        unfold Sphinx.ks_at. rewrite <- Hr2, <- Htail', skipn_skipn.
        replace (N - pos' + pos) with (N - (length pl + 32)) by (unfold pos'; lia).
        apply firstn_skipn.
  Qed.

  (** ** Theorems *)

  Lemma total_len_forall N hs : total_len hs <= N -> Forall (fun h => hop_len h <= N) hs.
  Proof.
    induction hs as [|h tl IH]; intros H; [constructor|].
    cbn [Sphinx.total_len fold_right] in H. constructor; [lia|]. apply IH. unfold Sphinx.total_len. lia.
  Qed.

  Theorem build_some noise hs ad :
    hs <> [] -> total_len hs <= length noise ->
    exists filler, filler_loop (length noise) hs 0 [] = Some filler /\
      build noise hs ad = Some (mk_packet (fst (wrap_loop (length noise) ad filler noise hs))
                                          (snd (wrap_loop (length noise) ad filler noise hs))) /\
      length (fst (wrap_loop (length noise) ad filler noise hs)) = length noise /\
      length (snd (wrap_loop (length noise) ad filler noise hs)) = 32.
  Proof.
    intros Hne Hfit.
    destruct (filler_loop_some (length noise) hs 0 [] Hfit) as [f Hf].
    pose proof (filler_loop_le (length noise) hs 0 [] f Hne eq_refl Hf) as Hle.
    exists f. split; [exact Hf|]. split; [|split].
    - unfold Sphinx.build. destruct hs as [|h tl]; [congruence|]. rewrite Hf.
      destruct (length noise <? length f) eqn:E; [apply Nat.ltb_lt in E; lia|].
      destruct (wrap_loop (length noise) ad f noise (h :: tl)); reflexivity.
    - apply wrap_loop_data_length; [reflexivity|exact Hle|now apply total_len_forall].
    - apply wrap_loop_hmac_length.
  Qed.

  Theorem build_none_iff noise hs ad :
    build noise hs ad = None <-> hs = [] \/ length noise < total_len hs.
  Proof.
    split.
    - intros Hb. destruct hs as [|h tl]; [now left|]. right.
      destruct (Nat.lt_ge_cases (length noise) (total_len (h :: tl))) as [Hlt|Hge]; [exact Hlt|].
      destruct (build_some noise (h :: tl) ad ltac:(discriminate) Hge) as (f & _ & Hs & _). congruence.
    - intros [->|Hlt]; [reflexivity|].
      destruct hs as [|h tl]; [reflexivity|].
      unfold Sphinx.build. rewrite filler_loop_none; [reflexivity|discriminate|exact Hlt].
  Qed.

  Lemma delivers_peel_route N keys ad P ps :
    delivers N keys ad P ps -> peel_route keys ad P = (ps, None, true).
  Proof.
    revert P ps. induction keys as [|k keys IH]; intros P ps H; [destruct ps; exfalso; exact H|].
    destruct ps as [|p ps]; [destruct keys; exfalso; exact H|].
    destruct keys as [|k2 keys].
    - cbn [delivers] in H. destruct H as [-> H]. cbn [Sphinx.peel_route]. now rewrite H.
    - destruct ps as [|p2 ps]; [destruct H as (? & _ & _ & _ & H); destruct keys; exfalso; exact H|].
      rewrite delivers_cons2 in H. destruct H as (P' & Hp & _ & _ & Hd).
      change (peel_route (k :: k2 :: keys) ad P) with
        (match peel k ad P with
         | PeelErr e => ([], Some e, false)
         | PeelFinal p => ([p], None, true)
         | PeelForward p next => let '(ps, e, fin) := peel_route (k2 :: keys) ad next in (p :: ps, e, fin)
         end).
      rewrite Hp, (IH _ _ Hd). reflexivity.
  Qed.

  (** C14, delivery.  For every packet size (the length of the initial noise), every non-empty route
      whose payloads fit: the packet is built, has the size of the noise, and - unless some inner layer
      happens to carry the all-zero HMAC - peeling with the successive hop keys yields exactly the
      payloads, packets of unchanged size, and the end marker at the last hop. *)
  Theorem peel_build noise hs ad :
    hs <> [] -> Forall payload_ok (map snd hs) -> total_len hs <= length noise ->
    exists P0, build noise hs ad = Some P0 /\ length (p_data P0) = length noise /\ length (p_hmac P0) = 32 /\
      (layers_nonzero noise hs ad ->
         delivers (length noise) (map fst hs) ad P0 (map snd hs) /\
         peel_route (map fst hs) ad P0 = (map snd hs, None, true)).
  Proof.
    intros Hne Hok Hfit.
    destruct (build_some noise hs ad Hne Hfit) as (f & Hf & Hb & Hl1 & Hl2).
    eexists. split; [exact Hb|]. cbn [p_data p_hmac]. split; [exact Hl1|]. split; [exact Hl2|].
    intros Hnz. unfold layers_nonzero in Hnz. rewrite Hf in Hnz.
    destruct (wrap_correct (length noise) ad noise f eq_refl hs 0 [] Hne eq_refl Hfit Hf Hok Hnz) as (_ & _ & Hd).
    split; [exact Hd|]. eapply delivers_peel_route. exact Hd.
  Qed.

  (** ** Integrity *)

  Definition hmac_collision (k m m' : bytes) : Prop := m <> m' /\ hmac k m = hmac k m'.

  (** A packet that passes the HMAC check carries the HMAC of its bytes and the associated data. *)
  Theorem hmac_binds k ad P :
    peel k ad P <> PeelErr HmacCheckFailed -> p_hmac P = hmac (hk_mu k) (p_data P ++ ad).
  Proof.
    unfold Sphinx.peel. intros H.
    destruct (bytes_eqb (hmac (hk_mu k) (p_data P ++ ad)) (p_hmac P)) eqn:E; [|cbn [negb] in H; congruence].
    apply bytes_eqb_eq in E. now symmetry.
  Qed.

  Lemma app_inj_length {A} (a a' b b' : list A) : length a = length a' -> a ++ b = a' ++ b' -> a = a' /\ b = b'.
  Proof.
    revert a'. induction a as [|x a IH]; intros [|y a'] Hl H; cbn in *; try discriminate; [now split|].
    injection H as -> H. destruct (IH a' ltac:(lia) H) as [-> ->]. now split.
  Qed.

  (** Tampering.  [P] was accepted by hop [k] under associated data [ad].  [P'], [ad'] differ from it
      in the packet bytes and/or the associated data (same sizes) with the HMAC field untouched, or in
      the HMAC field alone.  Then the hop rejects [P'] with the HMAC error - or the two authenticated
      strings are an explicit collision of [hmac] under the hop's [mu] key. *)
  Theorem tamper_rejected k ad ad' P P' :
    peel k ad P <> PeelErr HmacCheckFailed ->
    length (p_data P') = length (p_data P) ->
    (p_hmac P' = p_hmac P \/ (p_data P' = p_data P /\ ad' = ad)) ->
    (P', ad') <> (P, ad) ->
    peel k ad' P' = PeelErr HmacCheckFailed \/
    hmac_collision (hk_mu k) (p_data P ++ ad) (p_data P' ++ ad').
  Proof.
    intros Hacc Hlen Hshape Hne.
    pose proof (hmac_binds k ad P Hacc) as HP.
    unfold Sphinx.peel at 1.
    destruct (bytes_eqb (hmac (hk_mu k) (p_data P' ++ ad')) (p_hmac P')) eqn:E; [|now left].
    apply bytes_eqb_eq in E. right.
    destruct P as [d m], P' as [d' m']; cbn [p_data p_hmac] in *.
    destruct Hshape as [Hm|[Hd Ha]].
    - subst m'. split; [|congruence].
      intros Heq. symmetry in Heq. destruct (app_inj_length _ _ _ _ Hlen Heq) as [-> ->]. now apply Hne.
    - subst d' ad'. exfalso. apply Hne. congruence.
  Qed.
End Forward.
