(** C19: FilesystemStore's versioned-write protocol keeps, per key, the effect of the last issued
    operation; the lock-table clean-up never lets an older version win. *)
Require Import LdkV.Prim.U64 LdkV.Model.FsStoreProto.
Open Scope Z_scope.
Local Open Scope list_scope.

Definition holds (p : phase) : bool := match p with PRef _ | PExec _ => true | _ => false end.
Definition pver (p : phase) : option Z :=
  match p with PNew => None | PFetched v | PRef v | PExec v | PDone v => Some v end.
Definition applied (p : phase) (v : Z) : Prop := p = PExec v \/ p = PDone v.
Definition reffed (p : phase) (v : Z) : Prop := p = PRef v \/ p = PExec v \/ p = PDone v.

Section Fs.
Variable ops : list fop.
Notation N := (List.length ops).
Definition okey (i : nat) : Z := f_key (opn ops i).
Definition mut (i : nat) : Prop := is_mut (opn ops i) = true.
Definition eff (i : nat) : Prop := is_eff (opn ops i) = true.

Record fs_inv (st : fstate) : Prop := {
  v_next : 1 <= f_next st;
  v_range : forall i v, mut i -> pver (f_phase st i) = Some v -> 1 <= v < f_next st;
  v_uniq : forall i j v, mut i -> mut j -> pver (f_phase st i) = Some v -> pver (f_phase st j) = Some v -> i = j;
  v_new : forall i, (N <= i)%nat -> f_phase st i = PNew;
  fv_range : forall k, 0 <= f_ver st k < f_next st;
  fv_wit : forall k, (f_ver st k = 0 /\ f_fs st k = None) \/
                     exists i, (i < N)%nat /\ eff i /\ okey i = k /\ applied (f_phase st i) (f_ver st k) /\
                               f_fs st k = effect (opn ops i);
  ap_le : forall i v, eff i -> applied (f_phase st i) v -> v <= f_ver st (okey i);
  lk : forall k, match f_locks st k with
       | None => forall i, (i < N)%nat -> okey i = k -> holds (f_phase st i) = false
       | Some e => NoDup (l_holders e) /\ l_holders e <> [] /\
                   (forall i, In i (l_holders e) <-> (i < N)%nat /\ okey i = k /\ holds (f_phase st i) = true) /\
                   (l_last e = f_ver st k \/
                    (l_last e = 0 /\ forall i v, In i (l_holders e) -> mut i -> f_phase st i = PRef v -> f_ver st k < v))
       end;
  fe_gt : forall j v, mut j -> f_phase st j = PFetched v ->
          forall i w, mut i -> i <> j -> okey i = okey j -> reffed (f_phase st i) w -> w < v;
  fe_one : forall i j v w, mut i -> mut j -> okey i = okey j ->
           f_phase st i = PFetched v -> f_phase st j = PFetched w -> i = j;
  obs_ok : forall i x, f_obs st i = Some x ->
           x = None \/ exists j v, (j < N)%nat /\ mut j /\ okey j = okey i /\ f_kind (opn ops j) = FWrite v /\
                                   x = Some v /\ exists w, applied (f_phase st j) w }.

Lemma finit_inv : fs_inv finit.
Proof.
  constructor; cbn; intros; try discriminate; try lia; auto.
  destruct H0; discriminate.
Qed.

Lemma issue_free_spec st i : issue_free ops st i = true ->
  forall j, (j < N)%nat -> j <> i -> mut j -> okey j = okey i -> is_fetched (f_phase st j) = false.
Proof.
  unfold issue_free. rewrite forallb_forall. intros H j Hj Hne Hm Hk.
  specialize (H j). rewrite in_seq in H. specialize (H ltac:(lia)).
  destruct (Nat.eqb_spec j i); [contradiction|]. unfold mut in Hm. rewrite Hm in H. unfold okey in Hk.
  rewrite Hk, Z.eqb_refl in H. cbn in H. destruct (is_fetched (f_phase st j)); auto.
Qed.

Lemma eff_mut i : eff i -> mut i.
Proof. unfold eff, mut, is_eff, is_mut. destruct (f_kind (opn ops i)); auto; discriminate. Qed.

Lemma mut_lt i : mut i -> (i < N)%nat.
Proof.
  unfold mut, opn. intros H. destruct (Nat.lt_ge_cases i N); auto.
  rewrite nth_overflow in H by lia. discriminate.
Qed.

Ltac up := unfold updn, updz in *.
Ltac eqn j i := destruct (Nat.eqb_spec j i); [subst|].
Ltac eqz a b := destruct (Z.eqb_spec a b); [subst|].
Ltac fin := try solve [ eauto | lia | congruence | discriminate | tauto ].

(** ** LFetch *)
Lemma step_fetch st i st' : fs_inv st -> fstep ops st (LFetch i) = Some st' -> fs_inv st'.
Proof.
  intros I H. cbn [fstep] in H.
  destruct ((i <? N)%nat && is_mut (opn ops i) && issue_free ops st i) eqn:G; [|discriminate].
  apply andb_true_iff in G. destruct G as (G & Hfree). apply andb_true_iff in G. destruct G as (Hlt & Hmut).
  apply Nat.ltb_lt in Hlt.
  destruct (f_phase st i) eqn:Pi; try discriminate. inversion H; subst st'; clear H.
  pose proof (issue_free_spec _ _ Hfree) as Free.
  destruct I. constructor; cbn [f_next f_locks f_fs f_ver f_phase f_obs].
  - lia.
  - intros j v Hm Hv. up. eqn j i.
    + inversion Hv; subst. lia.
    + specialize (v_range0 _ _ Hm Hv). lia.
  - intros j j' v Hm Hm' Hv Hv'. up. eqn j i; eqn j' i; fin.
    + inversion Hv; subst. specialize (v_range0 _ _ Hm' Hv'). lia.
    + inversion Hv'; subst. specialize (v_range0 _ _ Hm Hv). lia.
  - intros j Hj. up. eqn j i; fin.
  - intros k. specialize (fv_range0 k). lia.
  - intros k. destruct (fv_wit0 k) as [?|(j & A & B & C & D & E)]; [left; auto|right].
    exists j. repeat split; auto. up. eqn j i; fin. destruct D as [D|D]; rewrite Pi in D; discriminate.
  - intros j v Hm Ha. up. eqn j i; fin. destruct Ha; discriminate.
  - intros k. specialize (lk0 k). destruct (f_locks st k) as [e|].
    + destruct lk0 as (A & B & C & D). split; [auto|]. split; [auto|]. split.
      * intros j. rewrite C. up. eqn j i; fin. rewrite Pi. cbn. tauto.
      * destruct D as [D|(D1 & D2)]; [left; auto|right]. split; auto. intros j v Hin Hm Hp. up. eqn j i; fin.
    + intros j Hj Hk. up. eqn j i; fin.
  - intros j v Hm Hp j' w Hm' Hne Hk Hr. up. eqn j i.
    + inversion Hp; subst. eqn j' i; fin.
      assert (pver (f_phase st j') = Some w) by (destruct Hr as [ -> | [ -> | -> ] ]; reflexivity).
      specialize (v_range0 _ _ Hm' H). lia.
    + eqn j' i; fin. destruct Hr as [?|[?|?]]; discriminate.
  - intros j j' v w Hm Hm' Hk Hp Hp'. up. eqn j i; eqn j' i; fin.
    + exfalso. pose proof (Free j' (mut_lt _ Hm') n Hm' (eq_sym Hk)) as F. rewrite Hp' in F. discriminate.
    + exfalso. pose proof (Free j (mut_lt _ Hm) n Hm Hk) as F. rewrite Hp in F. discriminate.
  - intros j x Ho. destruct (obs_ok0 _ _ Ho) as [?|(j' & v & A & B & C & D & E & w & F)]; [left; auto|right].
    exists j', v. repeat split; auto. exists w. up. eqn j' i; fin. destruct F as [F|F]; rewrite Pi in F; discriminate.
Qed.

(** the version a fetched operation holds is above the version currently in the file *)
Lemma fetched_above st i v : fs_inv st -> mut i -> f_phase st i = PFetched v -> f_ver st (okey i) < v.
Proof.
  intros I Hm Hp. destruct I.
  destruct (fv_wit0 (okey i)) as [(E & _)|(j & A & B & C & D & _)].
  - rewrite E. assert (pver (f_phase st i) = Some v) by (rewrite Hp; reflexivity).
    specialize (v_range0 _ _ Hm H). lia.
  - assert (j <> i) by (intros ->; destruct D as [D|D]; rewrite Hp in D; discriminate).
    apply (fe_gt0 i v Hm Hp j (f_ver st (okey i)) (eff_mut _ B) H C).
    destruct D as [D|D]; rewrite D; unfold reffed; auto.
Qed.

(** ** LRef *)
Lemma step_ref_take st i v :
  fs_inv st -> (i < N)%nat ->
  (f_phase st i = PFetched v /\ mut i) \/ (f_phase st i = PNew /\ ~ mut i) ->
  fs_inv {| f_next := f_next st;
            f_locks := updz (f_locks st) (okey i)
                         (Some match f_locks st (okey i) with
                               | None => {| l_last := 0; l_holders := [i] |}
                               | Some e => {| l_last := l_last e; l_holders := i :: l_holders e |}
                               end);
            f_fs := f_fs st; f_ver := f_ver st;
            f_phase := updn (f_phase st) i (PRef v); f_obs := f_obs st |}.
Proof.
  intros I Hlt Hc.
  assert (Hold : holds (f_phase st i) = false) by (destruct Hc as [(-> & _)|(-> & _)]; reflexivity).
  assert (Hnap : forall w, ~ applied (f_phase st i) w) by (intros w [A|A]; destruct Hc as [(E & _)|(E & _)]; rewrite E in A; discriminate).
  assert (Habove : mut i -> f_ver st (okey i) < v).
  { intros Hm. destruct Hc as [(E & _)|(_ & X)]; [|contradiction]. eapply fetched_above; eauto. }
  pose proof I as I0. destruct I. constructor; cbn [f_next f_locks f_fs f_ver f_phase f_obs].
  - lia.
  - intros j w Hm Hv. up. eqn j i; fin.
    destruct Hc as [(E & _)|(_ & X)]; [|contradiction]. inversion Hv; subst. apply (v_range0 i); auto. rewrite E. reflexivity.
  - intros j j' w Hm Hm' Hv Hv'. up.
    assert (Hi : forall w, mut i -> Some v = Some w -> pver (f_phase st i) = Some w).
    { intros w0 Hmi Ew. destruct Hc as [(E & _)|(_ & X)]; [|contradiction]. rewrite E. exact Ew. }
    eqn j i; eqn j' i; fin;
      try solve [apply (v_uniq0 i j' w); auto]; try solve [apply (v_uniq0 j i w); auto].
  - intros j Hj. up. eqn j i; fin.
  - auto.
  - intros k. destruct (fv_wit0 k) as [?|(j & A & B & C & D & E)]; [left; auto|right].
    exists j. repeat split; auto. up. eqn j i; fin. exfalso. eapply Hnap; eauto.
  - intros j w Hm Ha. up. eqn j i; fin. destruct Ha; discriminate.
  - intros k. up. eqz k (okey i).
    + specialize (lk0 (okey i)). destruct (f_locks st (okey i)) as [e|]; cbn [l_last l_holders].
      * destruct lk0 as (A & B & C & D). split; [|split; [discriminate|split]].
        -- constructor; auto. intros Hin. apply C in Hin. destruct Hin as (_ & _ & X). congruence.
        -- intros j. cbn [In]. rewrite C. eqn j i; fin. cbn. split; auto.
           intros [X|X]; [congruence|tauto].
        -- destruct D as [D|(D1 & D2)]; [left; auto|right]. split; auto.
           intros j w [<-|Hin] Hm Hp.
           ++ rewrite Nat.eqb_refl in Hp. inversion Hp; subst. auto.
           ++ eqn j i; fin. inversion Hp; subst. auto.
      * split; [constructor; [intros []|constructor]|split; [discriminate|split]].
        -- intros j. cbn [In]. eqn j i; fin; try solve [cbn; tauto].
           split; [intros [X|[]]; congruence|]. intros (X & Y & Z0). rewrite (lk0 j X Y) in Z0. discriminate.
        -- right. split; auto. intros j w [<-|[]] Hm Hp. rewrite Nat.eqb_refl in Hp. inversion Hp; subst. auto.
    + specialize (lk0 k). destruct (f_locks st k) as [e|].
      * destruct lk0 as (A & B & C & D). split; [auto|split; [auto|split]].
        -- intros j. rewrite C. eqn j i; fin; try solve [split; intros (X & Y & Z0); congruence].
        -- destruct D as [D|(D1 & D2)]; [left; auto|right]. split; auto. intros j w Hin Hm Hp. eqn j i; fin;
             try solve [apply C in Hin; destruct Hin as (_ & Y & _); congruence].
      * intros j Hj Hk. eqn j i; fin.
  - intros j w Hm Hp j' w' Hm' Hne Hk Hr. up. eqn j i; [discriminate|]. eqn j' i; fin.
    all: try solve [destruct Hc as [(E & _)|(_ & X)]; [|contradiction]; exfalso; apply n; symmetry; eapply (fe_one0 i j); eauto].
  - intros j j' w w' Hm Hm' Hk Hp Hp'. up. eqn j i; [discriminate|]. eqn j' i; [discriminate|]. eauto.
  - intros j x Ho. destruct (obs_ok0 _ _ Ho) as [?|(j' & w & A & B & C & D & E & w' & F)]; [left; auto|right].
    exists j', w. repeat split; auto. exists w'. up. eqn j' i; fin. exfalso. eapply Hnap; eauto.
Qed.

Lemma step_ref st i st' : fs_inv st -> fstep ops st (LRef i) = Some st' -> fs_inv st'.
Proof.
  intros I H. cbn [fstep] in H. destruct (Nat.ltb_spec i N); [|discriminate].
  destruct (f_phase st i) eqn:Pi; try discriminate.
  - destruct (is_mut (opn ops i)) eqn:Hm; [discriminate|]. inversion H; subst st'.
    apply step_ref_take; auto. right. split; auto. unfold mut. congruence.
  - destruct (is_mut (opn ops i)) eqn:Hm; [|discriminate]. inversion H; subst st'.
    apply step_ref_take; auto.
Qed.

(** ** LExec *)
Lemma holder_in st i v e : fs_inv st -> f_phase st i = PRef v -> f_locks st (okey i) = Some e ->
  (i < N)%nat -> In i (l_holders e).
Proof.
  intros I Hp He Hlt. pose proof (lk _ I (okey i)) as L. rewrite He in L. destruct L as (_ & _ & C & _).
  apply C. rewrite Hp. auto.
Qed.

Lemma phase_lt st i : fs_inv st -> f_phase st i <> PNew -> (i < N)%nat.
Proof. intros I H. destruct (Nat.lt_ge_cases i N); auto. exfalso. apply H. apply (v_new _ I). lia. Qed.

(* stale write / read: only the phase (and the observation) change *)
Lemma step_exec_phase st i v obs' :
  fs_inv st -> f_phase st i = PRef v ->
  (eff i -> v <= f_ver st (okey i)) ->
  (forall j x, obs' j = Some x -> f_obs st j = Some x \/ (j = i /\ x = f_fs st (okey i))) ->
  fs_inv {| f_next := f_next st; f_locks := f_locks st; f_fs := f_fs st; f_ver := f_ver st;
            f_phase := updn (f_phase st) i (PExec v); f_obs := obs' |}.
Proof.
  intros I Pi Hst Hobs.
  assert (Hlt : (i < N)%nat) by (eapply phase_lt; eauto; congruence).
  pose proof I as I0. destruct I. constructor; cbn [f_next f_locks f_fs f_ver f_phase f_obs].
  - lia.
  - intros j w Hm Hv. up. eqn j i; fin. inversion Hv; subst. apply (v_range0 i); auto. rewrite Pi. reflexivity.
  - intros j j' w Hm Hm' Hv Hv'. up.
    assert (Hi : forall w, Some v = Some w -> pver (f_phase st i) = Some w) by (intros w0 Ew; rewrite Pi; exact Ew).
    eqn j i; eqn j' i; fin;
      try solve [apply (v_uniq0 i j' w); auto]; try solve [apply (v_uniq0 j i w); auto].
  - intros j Hj. up. eqn j i; fin.
  - auto.
  - intros k. destruct (fv_wit0 k) as [?|(j & A & B & C & D & E)]; [left; auto|right].
    exists j. repeat split; auto. up. eqn j i; fin. destruct D as [D|D]; rewrite Pi in D; discriminate.
  - intros j w Hm Ha. up. eqn j i; fin. destruct Ha as [Ha|Ha]; inversion Ha; subst. auto.
  - intros k. specialize (lk0 k). destruct (f_locks st k) as [e|].
    + destruct lk0 as (A & B & C & D). split; [auto|split; [auto|split]].
      * intros j. rewrite C. up. eqn j i; fin. rewrite Pi. cbn. tauto.
      * destruct D as [D|(D1 & D2)]; [left; auto|right]. split; auto. intros j w Hin Hm Hp. up. eqn j i; fin.
    + intros j Hj Hk. up. eqn j i; fin. exfalso. specialize (lk0 i Hj eq_refl). rewrite Pi in lk0. discriminate.
  - intros j w Hm Hp j' w' Hm' Hne Hk Hr. up. eqn j i; [discriminate|]. eqn j' i; fin.
    apply (fe_gt0 j w Hm Hp i w'); auto. destruct Hr as [Hr|[Hr|Hr]]; inversion Hr; subst. rewrite Pi. left. reflexivity.
  - intros j j' w w' Hm Hm' Hk Hp Hp'. up. eqn j i; [discriminate|]. eqn j' i; [discriminate|]. eauto.
  - intros j x Ho. destruct (Hobs _ _ Ho) as [Ho'|(-> & ->)].
    + destruct (obs_ok0 _ _ Ho') as [?|(j' & w & A & B & C & D & E & w' & F)]; [left; auto|right].
      exists j', w. repeat split; auto. up. eqn j' i; fin. destruct F as [F|F]; rewrite Pi in F; discriminate.
    + destruct (fv_wit0 (okey i)) as [(_ & ->)|(j' & A & B & C & D & E)]; [left; auto|].
      rewrite E. unfold effect. destruct (f_kind (opn ops j')) eqn:K; [right|left; auto|left; auto|left; auto].
      exists j', v0. repeat split; auto using eff_mut. exists (f_ver st (okey i)). up. eqn j' i; fin.
      destruct D as [D|D]; rewrite Pi in D; discriminate.
Qed.

(* effective write *)
Lemma step_exec_write st i v e :
  fs_inv st -> f_phase st i = PRef v -> mut i -> eff i -> f_locks st (okey i) = Some e -> l_last e < v ->
  fs_inv {| f_next := f_next st;
            f_locks := updz (f_locks st) (okey i) (Some {| l_last := v; l_holders := l_holders e |});
            f_fs := updz (f_fs st) (okey i) (effect (opn ops i)); f_ver := updz (f_ver st) (okey i) v;
            f_phase := updn (f_phase st) i (PExec v); f_obs := f_obs st |}.
Proof.
  intros I Pi Hmi Hei He Hlast.
  assert (Hlt : (i < N)%nat) by (eapply phase_lt; eauto; congruence).
  pose proof (holder_in _ _ _ _ I Pi He Hlt) as Hin.
  assert (Hgt : f_ver st (okey i) < v).
  { pose proof (lk _ I (okey i)) as L. rewrite He in L. destruct L as (_ & _ & _ & [D|(D1 & D2)]); [lia|eauto]. }
  assert (Hv : 1 <= v < f_next st) by (apply (v_range _ I i); auto; rewrite Pi; reflexivity).
  pose proof I as I0. destruct I. constructor; cbn [f_next f_locks f_fs f_ver f_phase f_obs].
  - lia.
  - intros j w Hm Hv'. up. eqn j i; fin. inversion Hv'; subst. lia.
  - intros j j' w Hm Hm' Hv1 Hv2. up.
    assert (Hi : forall w, Some v = Some w -> pver (f_phase st i) = Some w) by (intros w0 Ew; rewrite Pi; exact Ew).
    eqn j i; eqn j' i; fin;
      try solve [apply (v_uniq0 i j' w); auto]; try solve [apply (v_uniq0 j i w); auto].
  - intros j Hj. up. eqn j i; fin.
  - intros k. up. eqz k (okey i); [lia|auto].
  - intros k. up. eqz k (okey i).
    + right. exists i. repeat split; auto. rewrite Nat.eqb_refl. left. reflexivity.
    + destruct (fv_wit0 k) as [?|(j & A & B & C & D & E)]; [left; auto|right].
      exists j. repeat split; auto. eqn j i; fin.
  - intros j w Hm Ha. up. eqn j i.
    + rewrite Z.eqb_refl. destruct Ha as [Ha|Ha]; inversion Ha; subst. lia.
    + specialize (ap_le0 _ _ Hm Ha). eqz (okey j) (okey i); fin. rewrite e0 in ap_le0. lia.
  - intros k. up. eqz k (okey i).
    + specialize (lk0 (okey i)). rewrite He in lk0. destruct lk0 as (A & B & C & D). cbn [l_last l_holders].
      split; [auto|split; [auto|split]].
      * intros j. rewrite C. eqn j i; fin. rewrite Pi. cbn. tauto.
      * left. reflexivity.
    + specialize (lk0 k). destruct (f_locks st k) as [e'|].
      * destruct lk0 as (A & B & C & D). split; [auto|split; [auto|split]].
        -- intros j. rewrite C. eqn j i; fin; try solve [split; intros (X & Y & Z0); congruence].
        -- destruct D as [D|(D1 & D2)]; [left; auto|right]. split; auto. intros j w Hin' Hm Hp. eqn j i; fin.
      * intros j Hj Hk. eqn j i; fin.
  - intros j w Hm Hp j' w' Hm' Hne Hk Hr. up. eqn j i; [discriminate|]. eqn j' i; fin.
    apply (fe_gt0 j w Hm Hp i w'); auto. destruct Hr as [Hr|[Hr|Hr]]; inversion Hr; subst. rewrite Pi. left. reflexivity.
  - intros j j' w w' Hm Hm' Hk Hp Hp'. up. eqn j i; [discriminate|]. eqn j' i; [discriminate|]. eauto.
  - intros j x Ho. destruct (obs_ok0 _ _ Ho) as [?|(j' & w & A & B & C & D & E & w' & F)]; [left; auto|right].
    exists j', w. repeat split; auto. up. eqn j' i; fin. exists v. left. reflexivity.
Qed.

Lemma step_exec st i st' : fs_inv st -> fstep ops st (LExec i) = Some st' -> fs_inv st'.
Proof.
  intros I H. cbn [fstep] in H. fold (okey i) in H.
  destruct (f_phase st i) eqn:Pi; try discriminate.
  destruct (f_locks st (okey i)) as [e|] eqn:He; [|discriminate].
  destruct (is_mut (opn ops i)) eqn:Hm.
  - destruct (is_eff (opn ops i)) eqn:He'; cbn [negb orb] in H.
    + rewrite orb_false_r in H. destruct (Z.leb_spec ver (l_last e)); inversion H; subst st'.
      * apply step_exec_phase; auto.
        intros _. pose proof (lk _ I (okey i)) as L. rewrite He in L.
        destruct L as (_ & _ & _ & [D|(D1 & D2)]); [lia|].
        assert (1 <= ver) by (apply (v_range _ I i); auto; rewrite Pi; reflexivity). lia.
      * apply step_exec_write; auto.
    + (* the callback fails: nothing but the phase changes; in particular no version is recorded *)
      rewrite orb_true_r in H. inversion H; subst st'. apply step_exec_phase; auto.
      intros X. unfold eff in X. congruence.
  - inversion H; subst st'. apply step_exec_phase; auto.
    + intros X. apply eff_mut in X. unfold mut in X. congruence.
    + intros j x Hx. unfold updn in Hx. destruct (Nat.eqb_spec j i); [subst; inversion Hx; right; auto|left; auto].
Qed.

(** ** LClean *)
Lemma remove_nat_in i l j : In j (remove_nat i l) <-> j <> i /\ In j l.
Proof.
  unfold remove_nat. rewrite filter_In. destruct (Nat.eqb_spec j i); cbn; split; intros; try tauto; try lia;
    try solve [destruct H; discriminate]; try solve [destruct H; contradiction].
Qed.

Lemma remove_nat_nonempty i a b l : NoDup (a :: b :: l) -> remove_nat i (a :: b :: l) <> [].
Proof.
  intros ND E. inversion ND as [|? ? Hn _]; subst.
  assert (Ha : ~ In a (remove_nat i (a :: b :: l))) by (rewrite E; auto).
  assert (Hb : ~ In b (remove_nat i (a :: b :: l))) by (rewrite E; auto).
  rewrite remove_nat_in in Ha, Hb. cbn in Ha, Hb, Hn.
  assert (a = i) by (destruct (Nat.eq_dec a i); auto; exfalso; apply Ha; auto).
  assert (b = i) by (destruct (Nat.eq_dec b i); auto; exfalso; apply Hb; auto).
  subst. apply Hn. auto.
Qed.

Arguments remove_nat : simpl never.

Lemma step_clean st i st' : fs_inv st -> fstep ops st (LClean i) = Some st' -> fs_inv st'.
Proof.
  intros I H. cbn [fstep] in H. fold (okey i) in H.
  destruct (f_phase st i) eqn:Pi; try discriminate. rename ver into v.
  destruct (f_locks st (okey i)) as [e|] eqn:He; [|discriminate].
  inversion H; subst st'; clear H.
  assert (Hlt : (i < N)%nat) by (eapply phase_lt; eauto; congruence).
  pose proof (lk _ I (okey i)) as L. rewrite He in L. destruct L as (LA & LB & LC & LD).
  assert (Hin : In i (l_holders e)) by (apply LC; rewrite Pi; auto).
  pose proof I as I0. destruct I. constructor; cbn [f_next f_locks f_fs f_ver f_phase f_obs].
  - lia.
  - intros j w Hm Hv. up. eqn j i; fin. inversion Hv; subst. apply (v_range0 i); auto. rewrite Pi. reflexivity.
  - intros j j' w Hm Hm' Hv Hv'. up.
    assert (Hi : forall w, Some v = Some w -> pver (f_phase st i) = Some w) by (intros w0 Ew; rewrite Pi; exact Ew).
    eqn j i; eqn j' i; fin;
      try solve [apply (v_uniq0 i j' w); auto]; try solve [apply (v_uniq0 j i w); auto].
  - intros j Hj. up. eqn j i; fin.
  - auto.
  - intros k. destruct (fv_wit0 k) as [?|(j & A & B & C & D & E)]; [left; auto|right].
    exists j. repeat split; auto. up. eqn j i; fin.
    destruct D as [D|D]; rewrite Pi in D; inversion D; subst. right. reflexivity.
  - intros j w Hm Ha. up. eqn j i; fin.
    destruct Ha as [Ha|Ha]; inversion Ha; subst. apply ap_le0; auto. rewrite Pi. left. reflexivity.
  - intros k.
    assert (Hother : forall locks', (forall k', k' <> okey i -> locks' k' = f_locks st k') -> k <> okey i ->
              match locks' k with
              | Some e0 => NoDup (l_holders e0) /\ l_holders e0 <> [] /\
                  (forall i0, In i0 (l_holders e0) <-> (i0 < N)%nat /\ okey i0 = k /\ holds (updn (f_phase st) i (PDone v) i0) = true) /\
                  (l_last e0 = f_ver st k \/ l_last e0 = 0 /\
                   (forall i0 v0, In i0 (l_holders e0) -> mut i0 -> updn (f_phase st) i (PDone v) i0 = PRef v0 -> f_ver st k < v0))
              | None => forall i0, (i0 < N)%nat -> okey i0 = k -> holds (updn (f_phase st) i (PDone v) i0) = false
              end).
    { intros locks' Hl Hk. rewrite (Hl k Hk). specialize (lk0 k). destruct (f_locks st k) as [e'|].
      - destruct lk0 as (A & B & C & D). split; [auto|split; [auto|split]].
        + intros j. rewrite C. up. eqn j i; fin; try solve [split; intros (X & Y & Z0); congruence].
        + destruct D as [D|(D1 & D2)]; [left; auto|right]. split; auto. intros j w Hin' Hm Hp. up. eqn j i; fin.
      - intros j Hj Hk'. up. eqn j i; fin. }
    destruct (Z.eq_dec k (okey i)) as [->|Hk].
    2:{ destruct (l_holders e) as [|a [|b r]]; apply Hother; auto; intros k' Hk'; up; eqz k' (okey i); fin. }
    destruct (l_holders e) as [|a [|b r]] eqn:Hh.
    + contradiction.
    + (* last holder: the entry is dropped *)
      up. rewrite Z.eqb_refl. destruct Hin as [->|[]].
      intros j Hj Hk. eqn j i; fin.
      destruct (holds (f_phase st j)) eqn:Hj'; auto. exfalso.
      assert (In j [i]) by (apply LC; auto). destruct H as [->|[]]. congruence.
    + up. rewrite Z.eqb_refl. cbn [l_last l_holders].
      split; [unfold remove_nat; apply NoDup_filter; auto|split; [apply remove_nat_nonempty; auto|split]].
      * intros j. rewrite remove_nat_in, LC. eqn j i; fin;
          try solve [cbn; split; [intros (X & _); congruence|intros (_ & _ & X); discriminate]].
      * destruct LD as [D|(D1 & D2)]; [left; auto|right]. split; auto.
        intros j w Hin' Hm Hp. apply remove_nat_in in Hin'. destruct Hin' as (Hne & Hin'). eqn j i; fin.
  - intros j w Hm Hp j' w' Hm' Hne Hk Hr. up. eqn j i; [discriminate|]. eqn j' i; fin.
    apply (fe_gt0 j w Hm Hp i w'); auto. destruct Hr as [Hr|[Hr|Hr]]; inversion Hr; subst. rewrite Pi. right. left. reflexivity.
  - intros j j' w w' Hm Hm' Hk Hp Hp'. up. eqn j i; [discriminate|]. eqn j' i; [discriminate|]. eauto.
  - intros j x Ho. destruct (obs_ok0 _ _ Ho) as [?|(j' & w & A & B & C & D & E & w' & F)]; [left; auto|right].
    exists j', w. repeat split; auto. up. eqn j' i; fin. exists v. right. reflexivity.
Qed.

(** * All schedules *)
Lemma fstep_inv st l st' : fs_inv st -> fstep ops st l = Some st' -> fs_inv st'.
Proof.
  destruct l; [apply step_fetch|apply step_ref|apply step_exec|apply step_clean].
Qed.

Lemma frun_from_inv : forall sched st st', fs_inv st -> frun_from ops st sched = Some st' -> fs_inv st'.
Proof.
  induction sched as [|l r IH]; intros st st' I H; cbn in H.
  - inversion H; subst. exact I.
  - destruct (fstep ops st l) as [st1|] eqn:S; [|discriminate].
    apply (IH st1 st'); [eapply fstep_inv; eauto | exact H].
Qed.

Lemma all_done_spec st : all_done ops st = true -> forall i, (i < N)%nat -> exists v, f_phase st i = PDone v.
Proof.
  unfold all_done. rewrite forallb_forall. intros H i Hi. specialize (H i). rewrite in_seq in H.
  specialize (H ltac:(lia)). destruct (f_phase st i); try discriminate. eauto.
Qed.

(** The ghost version never decreases, and the file changes only when it increases. *)
Lemma fstep_monotone st l st' : fs_inv st -> fstep ops st l = Some st' ->
  forall k, f_ver st k <= f_ver st' k /\ (f_ver st' k = f_ver st k -> f_fs st' k = f_fs st k).
Proof.
  intros I H k. destruct l as [i|i|i|i]; cbn [fstep] in H.
  - destruct ((i <? N)%nat && is_mut (opn ops i) && issue_free ops st i); [|discriminate].
    destruct (f_phase st i); inversion H; subst; cbn; split; auto; lia.
  - destruct (i <? N)%nat; [|discriminate].
    destruct (f_phase st i); try discriminate; destruct (is_mut (opn ops i)); inversion H; subst; cbn; split; auto; lia.
  - fold (okey i) in H. destruct (f_phase st i) eqn:Pi; try discriminate.
    destruct (f_locks st (okey i)) as [e|] eqn:He; [|discriminate].
    destruct (is_mut (opn ops i)) eqn:Hm; [|inversion H; subst; cbn; split; auto; lia].
    destruct ((ver <=? l_last e) || negb (is_eff (opn ops i))) eqn:Dc; inversion H; subst; cbn; [split; auto; lia|].
    apply orb_false_iff in Dc. destruct Dc as (Dc & _). apply Z.leb_gt in Dc.
    assert (Hlt : (i < N)%nat) by (eapply phase_lt; eauto; congruence).
    pose proof (holder_in _ _ _ _ I Pi He Hlt) as Hin.
    assert (Hgt : f_ver st (okey i) < ver).
    { pose proof (lk _ I (okey i)) as L. rewrite He in L. destruct L as (_ & _ & _ & [D|(D1 & D2)]); [lia|eauto]. }
    unfold updz. destruct (Z.eqb_spec k (okey i)); subst; split; auto; lia.
  - destruct (f_phase st i); try discriminate. destruct (f_locks st (f_key (opn ops i))); inversion H; subst; cbn; split; auto; lia.
Qed.

Theorem versioned_writes_in_issue_order : forall sched st,
  frun ops sched = Some st ->
  fs_inv st /\
  (all_done ops st = true ->
   forall k, f_locks st k = None /\
     ((f_fs st k = None /\ forall i, (i < N)%nat -> is_eff (opn ops i) = true -> f_key (opn ops i) <> k) \/
      exists i v, (i < N)%nat /\ is_eff (opn ops i) = true /\ f_key (opn ops i) = k /\
                  f_phase st i = PDone v /\ f_fs st k = effect (opn ops i) /\
                  forall j w, is_eff (opn ops j) = true -> f_key (opn ops j) = k -> f_phase st j = PDone w -> w <= v)).
Proof.
  intros sched st R. pose proof (frun_from_inv _ _ _ finit_inv R) as I. split; auto.
  intros AD k. pose proof (all_done_spec _ AD) as Done. split.
  - pose proof (lk _ I k) as L. destruct (f_locks st k) as [e|]; auto. exfalso.
    destruct L as (_ & B & C & _). destruct (l_holders e) as [|a r]; [contradiction|].
    destruct (proj1 (C a) (or_introl eq_refl)) as (X & _ & Z0). destruct (Done a X) as (v & E). rewrite E in Z0. discriminate.
  - destruct (fv_wit _ I k) as [(E0 & F0)|(i & A & B & C & D & E)].
    + left. split; auto. intros i Hi Hm Hk. destruct (Done i Hi) as (v & E).
      assert (v <= f_ver st (okey i)) by (apply (ap_le _ I); auto; rewrite E; right; reflexivity).
      assert (1 <= v) by (apply (v_range _ I i); auto using eff_mut; rewrite E; reflexivity).
      unfold okey in H. rewrite Hk in H. lia.
    + right. exists i, (f_ver st k). repeat split; auto.
      * destruct (Done i A) as (v & E'). destruct D as [D|D]; rewrite E' in D; inversion D; subst. exact E'.
      * intros j w Hm Hk Hp. assert (w <= f_ver st (okey j)) by (apply (ap_le _ I); auto; rewrite Hp; right; reflexivity).
        unfold okey in H. rewrite Hk in H. exact H.
Qed.

End Fs.
