(** C16 — what [update_value_and_recompute_fees] guarantees (and where it does not). *)
Require Import LdkV.Prim.U64 LdkV.Prim.Rs2vLib LdkV.Gen.RouterFees LdkV.Model.RouteRecompute.
Open Scope Z_scope.

Definition fees_nonneg (h : phop) : Prop :=
  0 <= rf_base_msat (ph_fees h) /\ 0 <= rf_proportional_millionths (ph_fees h).

Lemma compute_fees_nonneg a f r :
  0 <= a -> 0 <= rf_base_msat f -> 0 <= rf_proportional_millionths f ->
  compute_fees a f = Some r -> 0 <= r.
Proof.
  intros Ha Hb Hp. unfold compute_fees, opt_bind, chk_mul, chk_add.
  destruct (a * rf_proportional_millionths f <? 2 ^ 64); [|discriminate].
  destruct (rf_base_msat f + a * rf_proportional_millionths f / 1000000 <? 2 ^ 64); [|discriminate].
  intros [= <-]. assert (0 <= a * rf_proportional_millionths f) by nia.
  assert (0 <= a * rf_proportional_millionths f / 1000000) by (apply Z.div_pos; lia). lia.
Qed.

Lemma chk_sub_Some a b ex : chk_sub a b = Some ex -> ex = a - b /\ b <= a.
Proof. unfold chk_sub. destruct (Z.leb_spec b a); [|discriminate]. intros [= <-]. lia. Qed.
Lemma chk_sub_None a b : chk_sub a b = None -> a < b.
Proof. unfold chk_sub. destruct (Z.leb_spec b a); [discriminate|]. intros _. lia. Qed.


(** ** The generated fee formula is the BOLT 7 one *)
Lemma compute_fees_bolt7 a f :
  0 <= a -> 0 <= rf_base_msat f -> 0 <= rf_proportional_millionths f ->
  compute_fees a f =
  (if (a * rf_proportional_millionths f <? 2 ^ 64) &&
      (rf_base_msat f + a * rf_proportional_millionths f / 1000000 <? 2 ^ 64)
   then Some (rf_base_msat f + a * rf_proportional_millionths f / 1000000) else None).
Proof.
  intros _ _ _. unfold compute_fees, opt_bind, chk_mul, chk_add.
  destruct (a * rf_proportional_millionths f <? 2 ^ 64); [|reflexivity].
  destruct (rf_base_msat f + a * rf_proportional_millionths f / 1000000 <? 2 ^ 64); reflexivity.
Qed.

Lemma compute_fees_saturating_bolt7 a f :
  compute_fees_saturating a f =
  Z.min (2 ^ 64 - 1)
    ((if a * rf_proportional_millionths f <? 2 ^ 64
      then a * rf_proportional_millionths f / 1000000 else 2 ^ 64 - 1) + rf_base_msat f).
Proof.
  unfold compute_fees_saturating, sat_add, unwrap_or, option_map, chk_mul.
  destruct (a * rf_proportional_millionths f <? 2 ^ 64); reflexivity.
Qed.

(** ** The reversed view *)
(** hops in processing order (last hop first); [A] = amount carried by the hop processed just
    before, [nxt] = (that amount, that hop's fees) *)
Fixpoint rpays (A : Z) (nxt : option (Z * RoutingFees)) (hs : list phop) : Prop :=
  match hs with
  | nil => True
  | h :: t =>
      ph_hmin h <= ph_fee h + A /\
      match nxt with
      | Some (a', f') => exists req, compute_fees a' f' = Some req /\ req <= ph_fee h
      | None => True
      end /\
      rpays (ph_fee h + A) (Some (ph_fee h + A, ph_fees h)) t
  end.

Definition head_amt (d : list phop) : Z := match amounts d with a :: _ => a | nil => 0 end.
Definition head_nxt (d : list phop) : option (Z * RoutingFees) :=
  match d with h :: _ => Some (head_amt d, ph_fees h) | nil => None end.

Lemma pays_policy_rev hs d :
  pays_policy (List.rev hs ++ d) <-> rpays (head_amt d) (head_nxt d) hs /\ pays_policy d.
Proof.
  revert d. induction hs as [|h t IH]; intros d; simpl.
  - tauto.
  - rewrite <-app_assoc. simpl. rewrite IH.
    destruct d as [|h' d']; unfold head_amt, head_nxt; simpl; tauto.
Qed.

(** ** The loop *)
Lemma rr_extra value rest extra total nu hs e :
  recompute_rev value rest false extra total nu = Some (hs, e) -> e = extra.
Proof.
  revert extra total nu hs e. induction rest as [|h rest IH]; intros extra total nu hs e; simpl.
  - intros [= _ <-]. reflexivity.
  - destruct (chk_sub (ph_hmin h) (total + value)) as [ex|]; destruct rest as [|h2 rest'].
    + intros [= _ <-]. reflexivity.
    + destruct (compute_fees _ _) as [nf|]; [|discriminate].
      destruct (recompute_rev _ _ _ _ _ _) as [[hs' e']|] eqn:Hr; [|discriminate].
      intros [= _ <-]. eapply IH. eassumption.
    + intros [= _ <-]. reflexivity.
    + destruct (compute_fees _ _) as [nf|]; [|discriminate].
      destruct (recompute_rev _ _ _ _ _ _) as [[hs' e']|] eqn:Hr; [|discriminate].
      intros [= _ <-]. eapply IH. eassumption.
Qed.

Lemma rr_spec value rest total nu hs e A nf :
  recompute_rev value rest false 0 total nu = Some (hs, e) ->
  Forall fees_nonneg rest -> 0 <= A -> 0 <= nu ->
  total + value = A + nu -> compute_fees A nf = Some nu ->
  rpays A (Some (A, nf)) hs.
Proof.
  revert total nu hs e A nf. induction rest as [|h rest IH]; intros total nu hs e A nf; simpl.
  - intros [= <- _] _ _ _ _ _. exact I.
  - intros Hr Hnn HA Hnu Htot Hcf. inversion Hnn as [|? ? Hh Hrest]; subst.
    destruct (chk_sub (ph_hmin h) (total + value)) as [ex|] eqn:Hex.
    + apply chk_sub_Some in Hex as [-> Hle].
      destruct rest as [|h2 rest'].
      * injection Hr as <- _. simpl. repeat split; try lia.
        exists nu. split; [assumption|lia].
      * destruct (compute_fees (total + value + (ph_hmin h - (total + value))) (ph_fees h)) as [nf'|] eqn:Hcf';
          [|discriminate].
        destruct (recompute_rev _ _ _ _ _ _) as [[hs' e']|] eqn:Hr'; [|discriminate].
        injection Hr as <- _. simpl. repeat split; try lia.
        -- exists nu. split; [assumption|lia].
        -- assert (0 <= nf') as Hnf'.
           { destruct Hh. eapply compute_fees_nonneg; [| | |eassumption]; lia. }
           eapply IH; [eassumption|assumption|lia|assumption|lia|].
           replace (nu + (ph_hmin h - (total + value)) + A) with
             (total + value + (ph_hmin h - (total + value))) by lia. assumption.
    + apply chk_sub_None in Hex.
      destruct rest as [|h2 rest'].
      * injection Hr as <- _. simpl. repeat split; try lia.
        exists nu. split; [assumption|lia].
      * destruct (compute_fees (total + value) (ph_fees h)) as [nf'|] eqn:Hcf'; [|discriminate].
        destruct (recompute_rev _ _ _ _ _ _) as [[hs' e']|] eqn:Hr'; [|discriminate].
        injection Hr as <- _. simpl. repeat split; try lia.
        -- exists nu. split; [assumption|lia].
        -- assert (0 <= nf') as Hnf'.
           { destruct Hh. eapply compute_fees_nonneg; [| | |eassumption]; lia. }
           eapply IH; [eassumption|assumption|lia|assumption|lia|].
           replace (nu + A) with (total + value) by lia. assumption.
Qed.

(** ** Statements *)
Lemma Forall_rev_fees hops : Forall fees_nonneg hops -> Forall fees_nonneg (List.rev hops).
Proof. intros H. apply Forall_forall. intros x Hx. apply in_rev in Hx. rewrite Forall_forall in H. auto. Qed.

(** when the value is not below the final hop's minimum, the recomputed path pays every policy and
    meets every minimum, and contributes exactly [value] *)
Theorem recompute_pays_policy hops value hops' c :
  recompute hops value = Some (hops', c) ->
  Forall fees_nonneg hops -> 0 <= value -> last_hmin hops <= value ->
  pays_policy hops' /\ c = value.
Proof.
  unfold recompute, last_hmin. intros Hr Hnn Hv Hmin.
  apply Forall_rev_fees in Hnn.
  destruct (List.rev hops) as [|h rest] eqn:Hrev.
  - simpl in Hr. injection Hr as <- <-. simpl. split; [exact I|lia].
  - simpl in Hr. try rewrite Z.add_0_l in Hr. inversion Hnn as [|? ? Hh Hrest]; subst.
    assert (match chk_sub (ph_hmin h) value with
            | Some ex => (value + ex, ex, 0, 0)
            | None => (value, 0, 0, 0)
            end = (value, 0, 0, 0)) as Heq.
    { destruct (chk_sub (ph_hmin h) value) as [ex|] eqn:Hex; [|reflexivity].
      apply chk_sub_Some in Hex as [-> ?]. repeat f_equal; lia. }
    rewrite Heq in Hr. clear Heq.
    destruct rest as [|h2 rest'].
    + injection Hr as <- <-. simpl. split; [|lia]. repeat split. lia.
    + destruct (compute_fees value (ph_fees h)) as [nf|] eqn:Hcf; [|discriminate].
      destruct (recompute_rev value (h2 :: rest') false 0 (0 + nf) nf) as [[hs e]|] eqn:Hrr; [|discriminate].
      injection Hr as <- <-.
      pose proof (rr_extra _ _ _ _ _ _ _ Hrr) as ->.
      split; [|lia].
      assert (0 <= nf) as Hnf by (destruct Hh; eapply compute_fees_nonneg; [| | |eassumption]; lia).
      pose proof (rr_spec value (h2 :: rest') (0 + nf) nf hs 0 value (ph_fees h) Hrr Hrest Hv Hnf
                    ltac:(lia) Hcf) as Hp.
      pose proof (pays_policy_rev (mkPhop (ph_fees h) (ph_hmin h) nf value :: hs) nil) as Hpr.
      rewrite app_nil_r in Hpr. apply Hpr. split; [|exact I].
      simpl. unfold head_amt. simpl. rewrite Z.add_0_r. repeat split; try lia. exact Hp.
Qed.

(** the value returned is [value_msat] plus what the final hop's minimum forces on top *)
Theorem recompute_contribution hops value hops' c :
  recompute hops value = Some (hops', c) -> hops <> nil ->
  c = Z.max value (last_hmin hops).
Proof.
  unfold recompute, last_hmin. intros Hr Hne.
  destruct (List.rev hops) as [|h rest] eqn:Hrev.
  - exfalso. apply Hne. apply (f_equal (@List.rev phop)) in Hrev. rewrite rev_involutive in Hrev. assumption.
  - simpl in Hr. try rewrite Z.add_0_l in Hr.
    destruct (chk_sub (ph_hmin h) value) as [ex|] eqn:Hex.
    + apply chk_sub_Some in Hex as [-> Hle]. destruct rest as [|h2 rest'].
      * injection Hr as _ <-. lia.
      * destruct (compute_fees _ _) as [nf|]; [|discriminate].
        destruct (recompute_rev _ _ _ _ _ _) as [[hs e]|] eqn:Hrr; [|discriminate].
        injection Hr as _ <-. apply rr_extra in Hrr as ->. lia.
    + apply chk_sub_None in Hex. destruct rest as [|h2 rest'].
      * injection Hr as _ <-. lia.
      * destruct (compute_fees _ _) as [nf|]; [|discriminate].
        destruct (recompute_rev _ _ _ _ _ _) as [[hs e]|] eqn:Hrr; [|discriminate].
        injection Hr as _ <-. apply rr_extra in Hrr as ->. lia.
Qed.

(** REFUTATION of the unconditional statement: when the value is below the final hop's minimum the
    final hop is raised, but the hops before it are recomputed for the un-raised value: a
    forwarding node is paid for 1 000 000 msat while 2 000 000 msat flow through its channel. *)
Definition underpay_hops : list phop :=
  mkPhop (mkRoutingFees 0 0) 0 0 0 ::
  mkPhop (mkRoutingFees 0 100000) 0 0 0 ::
  mkPhop (mkRoutingFees 0 0) 2000000 0 0 :: nil.

Theorem recompute_last_raise_underpays :
  exists hops value hops' c,
    Forall fees_nonneg hops /\ 0 <= value /\ recompute hops value = Some (hops', c) /\
    pays_policy_b hops' = false /\
    List.map ph_fee hops' = (100000 :: 0 :: 2000000 :: nil)%list /\ c = 2000000.
Proof.
  exists underpay_hops, 1000000. eexists. eexists. split; [|split; [|split; [|split; [|split]]]].
  - repeat constructor; simpl; lia.
  - lia.
  - vm_compute. reflexivity.
  - vm_compute. reflexivity.
  - vm_compute. reflexivity.
  - reflexivity.
Qed.

Lemma pays_policy_b_iff hops : pays_policy_b hops = true <-> pays_policy hops.
Proof.
  induction hops as [|h t IH]; [simpl; tauto|].
  destruct t as [|h' t'].
  - simpl. rewrite !andb_true_iff, Z.leb_le. tauto.
  - change (pays_policy_b (h :: h' :: t')) with
      ((match amounts (h :: h' :: t') with a :: _ => ph_hmin h <=? a | nil => true end) &&
       (match amounts (h' :: t') with
        | a' :: _ => match compute_fees a' (ph_fees h') with Some req => req <=? ph_fee h | None => false end
        | nil => true end) && pays_policy_b (h' :: t')).
    change (pays_policy (h :: h' :: t')) with
      ((match amounts (h :: h' :: t') with a :: _ => ph_hmin h <= a | nil => True end) /\
       (match amounts (h' :: t') with
        | a' :: _ => exists req, compute_fees a' (ph_fees h') = Some req /\ req <= ph_fee h
        | nil => True end) /\ pays_policy (h' :: t')).
    rewrite !andb_true_iff, IH.
    destruct (amounts (h :: h' :: t')) as [|a ?] eqn:Ha; [discriminate Ha|].
    destruct (amounts (h' :: t')) as [|a' ?] eqn:Ha'; [discriminate Ha'|].
    rewrite Z.leb_le.
    destruct (compute_fees a' (ph_fees h')) as [req|].
    + rewrite Z.leb_le. split.
      * intros [[? ?] ?]. split; [assumption|]. split; [|assumption]. exists req. split; [reflexivity|assumption].
      * intros (? & (req' & [= <-] & ?) & ?). split; [split|]; assumption.
    + split; [intros [[_ ?] _]; discriminate|]. intros (_ & (req' & ? & _) & _). discriminate.
Qed.

(** ** Exact amounts (a raise at any position) *)
Fixpoint rexact (A : Z) (nf : RoutingFees) (hs : list phop) : Prop :=
  match hs with
  | nil => True
  | h :: t =>
      (exists req, compute_fees A nf = Some req /\ ph_fee h + A = Z.max (ph_hmin h) (A + req)) /\
      rexact (ph_fee h + A) (ph_fees h) t
  end.

Lemma exact_policy_rev v hs h0 d :
  exact_policy v (List.rev hs ++ h0 :: d) <->
  rexact (first_amount (h0 :: d)) (ph_fees h0) hs /\ exact_policy v (h0 :: d).
Proof.
  revert h0 d. induction hs as [|h t IH]; intros h0 d.
  - simpl. tauto.
  - simpl List.rev. rewrite <-app_assoc. simpl app. rewrite IH.
    change (exact_policy v (h :: h0 :: d)) with
      ((exists req, compute_fees (first_amount (h0 :: d)) (ph_fees h0) = Some req /\
          first_amount (h :: h0 :: d) = Z.max (ph_hmin h) (first_amount (h0 :: d) + req)) /\
       exact_policy v (h0 :: d)).
    change (first_amount (h :: h0 :: d)) with (ph_fee h + first_amount (h0 :: d)).
    simpl rexact. tauto.
Qed.

Lemma rr_exact value rest total nu hs e A nf :
  recompute_rev value rest false 0 total nu = Some (hs, e) ->
  Forall fees_nonneg rest -> 0 <= A -> 0 <= nu ->
  total + value = A + nu -> compute_fees A nf = Some nu ->
  rexact A nf hs.
Proof.
  revert total nu hs e A nf. induction rest as [|h rest IH]; intros total nu hs e A nf; simpl.
  - intros [= <- _] _ _ _ _ _. exact I.
  - intros Hr Hnn HA Hnu Htot Hcf. inversion Hnn as [|? ? Hh Hrest]; subst.
    destruct (chk_sub (ph_hmin h) (total + value)) as [ex|] eqn:Hex.
    + apply chk_sub_Some in Hex as [-> Hle].
      destruct rest as [|h2 rest'].
      * injection Hr as <- _. simpl. split; [|exact I].
        exists nu. split; [assumption|lia].
      * destruct (compute_fees (total + value + (ph_hmin h - (total + value))) (ph_fees h)) as [nf'|] eqn:Hcf';
          [|discriminate].
        destruct (recompute_rev _ _ _ _ _ _) as [[hs' e']|] eqn:Hr'; [|discriminate].
        injection Hr as <- _. simpl. split.
        -- exists nu. split; [assumption|lia].
        -- assert (0 <= nf') as Hnf'.
           { destruct Hh. eapply compute_fees_nonneg; [| | |eassumption]; lia. }
           eapply IH; [eassumption|assumption|lia|assumption|lia|].
           replace (nu + (ph_hmin h - (total + value)) + A) with
             (total + value + (ph_hmin h - (total + value))) by lia. assumption.
    + apply chk_sub_None in Hex.
      destruct rest as [|h2 rest'].
      * injection Hr as <- _. simpl. split; [|exact I].
        exists nu. split; [assumption|lia].
      * destruct (compute_fees (total + value) (ph_fees h)) as [nf'|] eqn:Hcf'; [|discriminate].
        destruct (recompute_rev _ _ _ _ _ _) as [[hs' e']|] eqn:Hr'; [|discriminate].
        injection Hr as <- _. simpl. split.
        -- exists nu. split; [assumption|lia].
        -- assert (0 <= nf') as Hnf'.
           { destruct Hh. eapply compute_fees_nonneg; [| | |eassumption]; lia. }
           eapply IH; [eassumption|assumption|lia|assumption|lia|].
           replace (nu + A) with (total + value) by lia. assumption.
Qed.

Theorem recompute_exact hops value hops' c :
  recompute hops value = Some (hops', c) ->
  Forall fees_nonneg hops -> 0 <= value -> last_hmin hops <= value ->
  exact_policy value hops'.
Proof.
  unfold recompute, last_hmin. intros Hr Hnn Hv Hmin.
  apply Forall_rev_fees in Hnn.
  destruct (List.rev hops) as [|h rest] eqn:Hrev.
  - simpl in Hr. injection Hr as <- <-. exact I.
  - simpl in Hr. try rewrite Z.add_0_l in Hr. inversion Hnn as [|? ? Hh Hrest]; subst.
    assert (match chk_sub (ph_hmin h) value with
            | Some ex => (value + ex, ex, 0, 0)
            | None => (value, 0, 0, 0)
            end = (value, 0, 0, 0)) as Heq.
    { destruct (chk_sub (ph_hmin h) value) as [ex|] eqn:Hex; [|reflexivity].
      apply chk_sub_Some in Hex as [-> ?]. repeat f_equal; lia. }
    rewrite Heq in Hr. clear Heq.
    destruct rest as [|h2 rest'].
    + injection Hr as <- <-. simpl. split; [reflexivity|exact I].
    + destruct (compute_fees value (ph_fees h)) as [nf|] eqn:Hcf; [|discriminate].
      destruct (recompute_rev value (h2 :: rest') false 0 (0 + nf) nf) as [[hs e]|] eqn:Hrr; [|discriminate].
      injection Hr as <- <-.
      assert (0 <= nf) as Hnf by (destruct Hh; eapply compute_fees_nonneg; [| | |eassumption]; lia).
      pose proof (rr_exact value (h2 :: rest') (0 + nf) nf hs e value (ph_fees h) Hrr Hrest Hv Hnf
                    ltac:(lia) Hcf) as Hp.
      simpl List.rev.
      apply (exact_policy_rev value hs (mkPhop (ph_fees h) (ph_hmin h) nf value) nil).
      split.
      * unfold first_amount. simpl. rewrite Z.add_0_r. exact Hp.
      * simpl. split; [reflexivity|exact I].
Qed.

(** a raise in the MIDDLE of a five-hop path (hop 2 of 0..4: minimum 3 000 000 for a value of
    1 000 000) with proportional fees before and after it: the raised hop carries exactly its
    minimum and the hops before it are paid for the raised amount *)
Definition midbump_hops : list phop :=
  mkPhop (mkRoutingFees 0 0) 0 0 0 ::
  mkPhop (mkRoutingFees 1000 10000) 0 0 0 ::
  mkPhop (mkRoutingFees 0 20000) 3000000 0 0 ::
  mkPhop (mkRoutingFees 500 5000) 0 0 0 ::
  mkPhop (mkRoutingFees 0 1000) 1000 0 0 :: nil.

Lemma midbump_example :
  match recompute midbump_hops 1000000 with
  | Some (hs, c) => (List.map ph_fee hs, amounts hs, pays_policy_b hs, c)
  | None => (nil, nil, false, 0)
  end = ((31600 :: 60000 :: 1999000 :: 1000 :: 1000000 :: nil)%list,
         (3091600 :: 3060000 :: 3000000 :: 1001000 :: 1000000 :: nil)%list, true, 1000000).
Proof. vm_compute. reflexivity. Qed.

(** ** Monotonicity: a larger value never lowers the amount of any hop *)
Lemma compute_fees_mono a a' f r r' :
  0 <= rf_proportional_millionths f -> a <= a' ->
  compute_fees a f = Some r -> compute_fees a' f = Some r' -> r <= r'.
Proof.
  intros Hp Ha. unfold compute_fees, opt_bind, chk_mul, chk_add.
  destruct (a * rf_proportional_millionths f <? 2 ^ 64); [|discriminate].
  destruct (a' * rf_proportional_millionths f <? 2 ^ 64); [|discriminate].
  destruct (rf_base_msat f + a * rf_proportional_millionths f / 1000000 <? 2 ^ 64); [|discriminate].
  destruct (rf_base_msat f + a' * rf_proportional_millionths f / 1000000 <? 2 ^ 64); [|discriminate].
  intros [= <-] [= <-].
  assert (a * rf_proportional_millionths f / 1000000 <= a' * rf_proportional_millionths f / 1000000).
  { apply Z.div_le_mono; [lia|nia]. }
  lia.
Qed.

Theorem exact_policy_mono v v' hs hs' :
  Forall2 same_policy hs hs' -> Forall fees_nonneg hs ->
  exact_policy v hs -> exact_policy v' hs' -> v <= v' ->
  Forall2 Z.le (amounts hs) (amounts hs').
Proof.
  intros Hsame. induction Hsame as [|h h' t t' [Hf Hm] Ht IH]; intros Hnn He He' Hv; [constructor|].
  inversion Hnn as [|? ? _ Hnnt]; subst.
  destruct He as [Hh Het]. destruct He' as [Hh' Het'].
  specialize (IH Hnnt Het Het' Hv).
  change (amounts (h :: t)) with (first_amount (h :: t) :: amounts t).
  change (amounts (h' :: t')) with (first_amount (h' :: t') :: amounts t').
  constructor; [|exact IH].
  destruct Ht as [|h2 h2' t2 t2' [Hf2 Hm2] Ht2].
  - unfold first_amount. simpl. lia.
  - destruct Hh as (req & Hreq & ->). destruct Hh' as (req' & Hreq' & ->).
    assert (first_amount (h2 :: t2) <= first_amount (h2' :: t2')) as Hle.
    { unfold first_amount. remember (amounts (h2 :: t2)) as A eqn:HA. remember (amounts (h2' :: t2')) as A' eqn:HA'.
      destruct IH as [|x y ? ? Hxy _]; [simpl in HA; discriminate HA|exact Hxy]. }
    rewrite <-Hf2 in Hreq'.
    inversion Hnnt as [|? ? [_ Hp2] _]; subst.
    pose proof (compute_fees_mono _ _ _ _ _ Hp2 Hle Hreq Hreq'). lia.
Qed.

Lemma mono_example :
  match recompute midbump_hops 1000000, recompute midbump_hops 4000000 with
  | Some (hs, _), Some (hs', _) => (amounts hs, amounts hs')
  | _, _ => (nil, nil)
  end = ((3091600 :: 3060000 :: 3000000 :: 1001000 :: 1000000 :: nil)%list,
         (4147060 :: 4105010 :: 4024520 :: 4004000 :: 4000000 :: nil)%list).
Proof. vm_compute. reflexivity. Qed.
