(** C11: proofs about Model/ChainView.v. *)
Require Import LdkV.Prim.U64 LdkV.Gen.Consts LdkV.Gen.CltvChecks LdkV.Model.ChainView.
Open Scope Z_scope.

(** * The abstraction [threshold = height + delta - 1] is the generated [confirmation_threshold] *)
Definition delta_of (kind : OnchainEventKind) (to_self_delay : Z) (csv : option Z) : Z :=
  match kind, csv with
  | OnchainEventKind_MaturingDelayedPaymentOutput, _ => Z.max ANTI_REORG_DELAY to_self_delay
  | OnchainEventKind_SpendConfirmation, Some c => Z.max ANTI_REORG_DELAY c
  | _, _ => ANTI_REORG_DELAY
  end.

Lemma threshold_is_delta h kind tsd csv :
  confirmation_threshold h kind tsd csv = h + delta_of kind tsd csv - 1 /\
  ANTI_REORG_DELAY <= delta_of kind tsd csv.
Proof. unfold confirmation_threshold, delta_of. destruct kind, csv as [c|]; lia. Qed.

(** * Generic facts *)
Lemma filter_filter_impl {A} (f g : A -> bool) l :
  (forall x, g x = true -> f x = true) -> filter g (filter f l) = filter g l.
Proof.
  intros H. induction l as [|x t IH]; [reflexivity|]. cbn [filter].
  destruct (f x) eqn:Ef; cbn [filter]; destruct (g x) eqn:Eg; try rewrite IH; try reflexivity.
  rewrite (H x Eg) in Ef. discriminate.
Qed.

Lemma filter_filter_impl_in {A} (f g : A -> bool) l :
  (forall x, In x l -> g x = true -> f x = true) -> filter g (filter f l) = filter g l.
Proof.
  intros H. induction l as [|x t IH]; [reflexivity|]. cbn [filter].
  assert (IH' : filter g (filter f t) = filter g t) by (apply IH; intros y Hy; apply H; right; exact Hy).
  destruct (f x) eqn:Ef; cbn [filter]; destruct (g x) eqn:Eg; try rewrite IH'; try reflexivity.
  rewrite (H x (or_introl eq_refl) Eg) in Ef. discriminate.
Qed.

Lemma filter_comm {A} (f g : A -> bool) l : filter f (filter g l) = filter g (filter f l).
Proof.
  induction l as [|x t IH]; [reflexivity|]. cbn [filter].
  destruct (f x) eqn:Ef, (g x) eqn:Eg; cbn [filter]; rewrite ?Ef, ?Eg, ?IH; reflexivity.
Qed.

Definition tx_ok (t : tx) : Prop := Forall (fun ev => ANTI_REORG_DELAY <= snd ev) (t_evs t).
Definition op_ok (o : op) : Prop := match o with TC _ txs => Forall tx_ok txs | _ => True end.
Definition entries_ok (l : list entry) : Prop := Forall (fun e => ANTI_REORG_DELAY <= e_delta e) l.

Lemma entries_of_ok b t : tx_ok t -> entries_ok (entries_of b t).
Proof.
  unfold tx_ok, entries_ok, entries_of. intros H. apply Forall_forall. intros e He.
  apply in_map_iff in He as (ev & <- & Hev). rewrite Forall_forall in H. apply (H ev Hev).
Qed.

Lemma add_txs_fields st b txs :
  best_h (add_txs st b txs) = best_h st /\ best_hash (add_txs st b txs) = best_hash st /\
  done_txids (add_txs st b txs) = done_txids st /\ emitted (add_txs st b txs) = emitted st.
Proof.
  revert st. induction txs as [|t r IH]; intros st; cbn [add_txs]; [repeat split|].
  destruct (known_tx st (t_id t)); [apply IH|].
  destruct (IH (mkSt (best_h st) (best_hash st) (awaiting st ++ entries_of b t) (done_txids st) (emitted st)))
    as (A & B & C & D). cbn in *. repeat split; assumption.
Qed.

Lemma add_txs_awaiting_ok st b txs :
  Forall tx_ok txs -> entries_ok (awaiting st) -> entries_ok (awaiting (add_txs st b txs)).
Proof.
  revert st. induction txs as [|t r IH]; intros st Ht Ha; cbn [add_txs]; [exact Ha|].
  inversion Ht as [|x l Hx Hl]; subst. destruct (known_tx st (t_id t)); [apply IH; assumption|].
  apply IH; [exact Hl|]. cbn [awaiting]. apply Forall_app. split; [exact Ha | apply entries_of_ok; exact Hx].
Qed.

(** * Irreversible conclusions only for buried transactions *)

Definition emitted_buried (st : state) : Prop :=
  Forall (fun m => m_conf m + ANTI_REORG_DELAY - 1 <= m_at m) (emitted st).

Lemma block_confirmed_buried st :
  entries_ok (awaiting st) -> emitted_buried st ->
  entries_ok (awaiting (block_confirmed st)) /\ emitted_buried (block_confirmed st).
Proof.
  intros Ha He. unfold block_confirmed, emitted_buried, entries_ok in *. cbn [awaiting emitted]. split.
  - apply Forall_forall. intros e Hin. apply filter_In in Hin as (Hin & _). rewrite Forall_forall in Ha. apply Ha. exact Hin.
  - apply Forall_app. split; [exact He|]. apply Forall_forall. intros m Hm.
    apply in_map_iff in Hm as (e & <- & Hin). apply filter_In in Hin as (Hin & Ht). apply Z.leb_le in Ht.
    rewrite Forall_forall in Ha. specialize (Ha e Hin). unfold threshold in Ht. cbn [m_conf m_at]. lia.
Qed.

Lemma step_buried st o :
  op_ok o -> entries_ok (awaiting st) -> emitted_buried st ->
  entries_ok (awaiting (step st o)) /\ emitted_buried (step st o).
Proof.
  intros Ho Ha He. destruct o as [b txs | b | f | id | | dep tag]; cbn [step op_ok] in *; [ | | | | split; assumption | ].
  - pose proof (add_txs_awaiting_ok st b txs Ho Ha) as Ha1.
    destruct (add_txs_fields st b txs) as (F1 & F2 & F3 & F4).
    destruct (best_h (add_txs st b txs) <? b_height b); apply block_confirmed_buried; cbn [awaiting emitted];
      try exact Ha1; unfold emitted_buried; cbn [emitted]; rewrite ?F4; exact He.
  - destruct (best_h st <? b_height b); [apply block_confirmed_buried; assumption|].
    destruct (negb (b_hash b =? best_hash st)); [|split; assumption].
    split; [|exact He]. cbn [awaiting]. unfold entries_ok in *. apply Forall_forall. intros e Hin.
    apply filter_In in Hin as (Hin & _). rewrite Forall_forall in Ha. apply Ha. exact Hin.
  - split; [|exact He]. cbn [awaiting]. unfold entries_ok in *. apply Forall_forall. intros e Hin.
    apply filter_In in Hin as (Hin & _). rewrite Forall_forall in Ha. apply Ha. exact Hin.
  - destruct (find _ (awaiting st)) as [e0|]; [|split; assumption].
    split; [|exact He]. cbn [awaiting]. unfold entries_ok in *. apply Forall_forall. intros x Hin.
    apply filter_In in Hin as (Hin & _). rewrite Forall_forall in Ha. apply Ha. exact Hin.
  - destruct (find (fun e => e_txid e =? dep) (awaiting st)) as [e0|].
    + apply block_confirmed_buried; cbn [awaiting emitted]; [|exact He].
      unfold entries_ok. apply Forall_app. split; [exact Ha|]. constructor; [cbn; lia | constructor].
    + destruct (find (fun m => m_txid m =? dep) (emitted st)) as [m0|] eqn:Ef; [|split; assumption].
      split; [exact Ha|]. unfold emitted_buried in *. cbn [emitted]. apply Forall_app. split; [exact He|].
      constructor; [|constructor]. cbn [m_conf m_at]. apply find_some in Ef as (Hin & _).
      rewrite Forall_forall in He. apply (He m0 Hin).
Qed.

(** For ANY operation list (admissible or not, reorgs included): whatever was concluded irreversibly
    about a transaction confirmed at [c] was concluded at a best height of at least
    [c + ANTI_REORG_DELAY - 1]. *)
Lemma buried_first ops : forall st,
  Forall op_ok ops -> entries_ok (awaiting st) -> emitted_buried st ->
  emitted_buried (run st ops).
Proof.
  induction ops as [|o t IH]; intros st Ho Ha He; [exact He|]. cbn [run fold_left].
  inversion Ho as [|x l Hx Hl]; subst. destruct (step_buried st o Hx Ha He) as (Ha' & He'). apply IH; assumption.
Qed.

(** * Idempotence *)

Lemma block_confirmed_idem st : block_confirmed (block_confirmed st) = block_confirmed st.
Proof.
  unfold block_confirmed. cbn [best_h best_hash awaiting done_txids emitted].
  assert (E : filter (fun e => threshold e <=? best_h st) (filter (fun e => negb (threshold e <=? best_h st)) (awaiting st)) = []).
  { induction (awaiting st) as [|e t IH]; [reflexivity|]. cbn [filter].
    destruct (threshold e <=? best_h st) eqn:E; cbn [negb filter]; [exact IH | rewrite E; exact IH]. }
  rewrite E. cbn [map]. rewrite !app_nil_r. f_equal.
  apply filter_filter_impl. intros x Hx. exact Hx.
Qed.

Lemma known_after_block_confirmed st id : known_tx st id = true -> known_tx (block_confirmed st) id = true.
Proof.
  unfold known_tx, block_confirmed. cbn [awaiting done_txids]. intros H. apply orb_true_iff in H as [H | H].
  - apply existsb_exists in H as (e & Hin & He). destruct (threshold e <=? best_h st) eqn:Et.
    + apply orb_true_iff. right. apply existsb_exists. exists (e_txid e). split.
      * apply in_or_app. right. apply in_map. apply filter_In. split; assumption.
      * apply Z.eqb_eq in He. rewrite He. apply Z.eqb_refl.
    + apply orb_true_iff. left. apply existsb_exists. exists e. split; [|exact He].
      apply filter_In. split; [exact Hin | rewrite Et; reflexivity].
  - apply orb_true_iff. right. apply existsb_exists in H as (x & Hin & Hx). apply existsb_exists. exists x.
    split; [apply in_or_app; left; exact Hin | exact Hx].
Qed.

(** a transaction with at least one event is known right after [add_txs] has seen it *)
Lemma add_txs_known st b txs : forall t, In t txs -> t_evs t <> [] -> known_tx (add_txs st b txs) (t_id t) = true.
Proof.
  revert st. induction txs as [|x r IH]; intros st t Hin Hev; [destruct Hin|]. cbn [add_txs].
  assert (Hmono : forall s id, known_tx s id = true -> forall s', (forall e, In e (awaiting s) -> In e (awaiting s')) ->
                    done_txids s' = done_txids s -> known_tx s' id = true).
  { intros s id Hk s' Hsub Hd. unfold known_tx in *. rewrite Hd. apply orb_true_iff in Hk as [Hk | Hk]; apply orb_true_iff; [left | right; exact Hk].
    apply existsb_exists in Hk as (e & He & Hid). apply existsb_exists. exists e. split; [apply Hsub; exact He | exact Hid]. }
  assert (Hkeep : forall s id, known_tx s id = true -> known_tx (add_txs s b r) id = true).
  { clear - Hmono. induction r as [|y r' IHr]; intros s id Hk; [exact Hk|]. cbn [add_txs].
    destruct (known_tx s (t_id y)); [apply IHr; exact Hk|]. apply IHr.
    apply (Hmono s id Hk); [intros e He; cbn [awaiting]; apply in_or_app; left; exact He | reflexivity]. }
  destruct Hin as [-> | Hin].
  - destruct (known_tx st (t_id t)) eqn:Ek; [apply Hkeep; exact Ek|]. apply Hkeep.
    unfold known_tx. cbn [awaiting]. apply orb_true_iff. left.
    destruct (t_evs t) as [|ev evs] eqn:Ee; [contradiction|].
    apply existsb_exists. exists (mkEntry (t_id t) (b_height b) (b_hash b) (fst ev) (snd ev)).
    split; [apply in_or_app; right; unfold entries_of; rewrite Ee; left; reflexivity | cbn; apply Z.eqb_refl].
  - destruct (known_tx st (t_id x)); apply IH; assumption.
Qed.

Lemma add_txs_all_known st b txs :
  (forall t, In t txs -> known_tx st (t_id t) = true \/ t_evs t = []) -> add_txs st b txs = st.
Proof.
  revert st. induction txs as [|t r IH]; intros st H; [reflexivity|]. cbn [add_txs].
  destruct (H t (or_introl eq_refl)) as [Hk | He].
  - rewrite Hk. apply IH. intros t' Ht'. apply H. right. exact Ht'.
  - destruct (known_tx st (t_id t)); [apply IH; intros t' Ht'; apply H; right; exact Ht'|].
    unfold entries_of. rewrite He. cbn [map]. rewrite app_nil_r.
    replace (mkSt (best_h st) (best_hash st) (awaiting st) (done_txids st) (emitted st)) with st by (destruct st; reflexivity).
    apply IH. intros t' Ht'. apply H. right. exact Ht'.
Qed.

(** Re-delivering the same notification changes nothing, in any state. *)
Lemma step_idempotent st o :
  match o with TC _ _ | BB _ => step (step st o) o = step st o | _ => True end.
Proof.
  destruct o as [b txs | b | f | id | | dep tag]; try exact I.
  - cbn [step]. set (st1 := add_txs st b txs).
    set (st2 := if best_h st1 <? b_height b then mkSt (b_height b) (b_hash b) (awaiting st1) (done_txids st1) (emitted st1) else st1).
    set (st3 := block_confirmed st2).
    assert (Hk : forall t, In t txs -> known_tx st3 (t_id t) = true \/ t_evs t = []).
    { intros t Ht. destruct (t_evs t) as [|ev evs] eqn:Ee; [right; reflexivity|]. left.
      apply known_after_block_confirmed. unfold st2.
      assert (known_tx st1 (t_id t) = true) by (apply add_txs_known; [exact Ht | rewrite Ee; discriminate]).
      destruct (best_h st1 <? b_height b); [|assumption]. unfold known_tx in *. cbn [awaiting done_txids]. assumption. }
    rewrite (add_txs_all_known st3 b txs Hk).
    assert (Hb : (best_h st3 <? b_height b) = false).
    { unfold st3, block_confirmed. cbn [best_h]. unfold st2. destruct (Z.ltb_spec (best_h st1) (b_height b)); cbn [best_h]; apply Z.ltb_ge; lia. }
    rewrite Hb. unfold st3. apply block_confirmed_idem.
  - cbn [step]. destruct (Z.ltb_spec (best_h st) (b_height b)) as [Hlt | Hge].
    + set (s := block_confirmed _). assert (best_h s = b_height b /\ best_hash s = b_hash b) as (E1 & E2) by (unfold s, block_confirmed; cbn; split; reflexivity).
      rewrite E1, E2, Z.ltb_irrefl, Z.eqb_refl. reflexivity.
    + destruct (Z.eqb_spec (b_hash b) (best_hash st)) as [Eh | Nh]; cbn [negb].
      * destruct (Z.ltb_spec (best_h st) (b_height b)); [lia|]. rewrite Eh, Z.eqb_refl. reflexivity.
      * cbn [best_h best_hash]. rewrite Z.ltb_irrefl, Z.eqb_refl. reflexivity.
Qed.

(** * A shallow fork leaves no trace once it is disconnected *)

Definition empty_blk (b : blk) : blk := mkBlk (b_hash b) (b_height b) [].

(** a fork segment on top of the current best block: consecutive heights, at most
    [ANTI_REORG_DELAY - 1] blocks, transactions with events of at least [ANTI_REORG_DELAY] *)
Fixpoint fork_seg (h : Z) (blocks : list blk) : Prop :=
  match blocks with
  | [] => True
  | b :: r => b_height b = h + 1 /\ Forall tx_ok (b_txs b) /\ fork_seg (h + 1) r
  end.

(** [s1] saw the fork's transactions, [s2] saw the same blocks emptied *)
Definition fork_rel (H top : Z) (s1 s2 : state) : Prop :=
  best_h s1 = best_h s2 /\ best_hash s1 = best_hash s2 /\ done_txids s1 = done_txids s2 /\ emitted s1 = emitted s2 /\
  awaiting s2 = filter (fun e => e_height e <=? H) (awaiting s1) /\
  Forall (fun e => H < e_height e -> top < threshold e) (awaiting s1).

Lemma add_txs_fork st b txs H top :
  Forall tx_ok txs -> H < b_height b -> top < b_height b + ANTI_REORG_DELAY - 1 ->
  Forall (fun e => H < e_height e -> top < threshold e) (awaiting st) ->
  filter (fun e => e_height e <=? H) (awaiting (add_txs st b txs)) = filter (fun e => e_height e <=? H) (awaiting st) /\
  Forall (fun e => H < e_height e -> top < threshold e) (awaiting (add_txs st b txs)).
Proof.
  revert st. induction txs as [|t r IH]; intros st Hok Hh Ht Hf; cbn [add_txs]; [split; [reflexivity | exact Hf]|].
  inversion Hok as [|x l Hx Hl]; subst. destruct (known_tx st (t_id t)); [apply IH; assumption|].
  set (st' := mkSt _ _ _ _ _).
  assert (Hnew : Forall (fun e => H < e_height e -> top < threshold e) (entries_of b t)).
  { apply Forall_forall. intros e He _. pose proof (entries_of_ok b t Hx) as Hok'. unfold entries_ok in Hok'.
    rewrite Forall_forall in Hok'. specialize (Hok' e He). unfold entries_of in He. apply in_map_iff in He as (ev & <- & _).
    unfold threshold in *. cbn in *. lia. }
  assert (Hf' : Forall (fun e => H < e_height e -> top < threshold e) (awaiting st')) by (apply Forall_app; split; assumption).
  destruct (IH st' Hl Hh Ht Hf') as (E & F). split; [|exact F]. rewrite E. unfold st'. cbn [awaiting]. rewrite filter_app.
  assert (filter (fun e => e_height e <=? H) (entries_of b t) = []) as ->; [|apply app_nil_r].
  unfold entries_of. induction (t_evs t) as [|ev evs IHe]; [reflexivity|]. cbn [map filter e_height].
  destruct (Z.leb_spec (b_height b) H); [lia | exact IHe].
Qed.

Lemma fork_step H top s1 s2 b :
  fork_rel H top s1 s2 -> Forall tx_ok (b_txs b) -> H < b_height b -> b_height b <= top ->
  top < b_height b + ANTI_REORG_DELAY - 1 -> best_h s1 < b_height b ->
  fork_rel H top (step s1 (BC b)) (step s2 (BC (empty_blk b))).
Proof.
  intros (E1 & E2 & E3 & E4 & E5 & E6) Hok Hh Htop Ht Hb. unfold BC, empty_blk. cbn [step b_txs b_height b_hash add_txs].
  destruct (add_txs_fields s1 b (b_txs b)) as (F1 & F2 & F3 & F4).
  destruct (add_txs_fork s1 b (b_txs b) H top Hok Hh Ht E6) as (G1 & G2).
  rewrite F1. destruct (Z.ltb_spec (best_h s1) (b_height b)); [|lia].
  rewrite <- E1. destruct (Z.ltb_spec (best_h s1) (b_height b)); [|lia].
  unfold block_confirmed. cbn [best_h best_hash awaiting done_txids emitted].
  set (a1 := awaiting (add_txs s1 b (b_txs b))) in *.
  assert (HP : filter (fun e => e_height e <=? H) a1 = awaiting s2) by (rewrite G1, E5; reflexivity).
  assert (Himp : forall e, In e a1 -> (threshold e <=? b_height b) = true -> (e_height e <=? H) = true).
  { intros e Hin He. apply Z.leb_le in He. apply Z.leb_le. destruct (Z.leb_spec (e_height e) H); [assumption|].
    rewrite Forall_forall in G2. specialize (G2 e Hin ltac:(lia)). lia. }
  assert (Hreach : filter (fun e => threshold e <=? b_height b) a1 =
                   filter (fun e => threshold e <=? b_height b) (awaiting s2)).
  { rewrite <- HP. symmetry. apply filter_filter_impl_in. exact Himp. }
  unfold fork_rel. cbn [best_h best_hash awaiting done_txids emitted].
  rewrite Hreach, F3, F4, E3, E4. repeat split; try reflexivity.
  - rewrite <- HP. apply filter_comm.
  - apply Forall_forall. intros e Hin. apply filter_In in Hin as (Hin & _). rewrite Forall_forall in G2. apply G2. exact Hin.
Qed.

Lemma fork_run H top blocks : forall s1 s2,
  fork_rel H top s1 s2 -> fork_seg (best_h s1) blocks -> H <= best_h s1 ->
  best_h s1 + Z.of_nat (List.length blocks) <= top -> top < H + ANTI_REORG_DELAY ->
  fork_rel H top (run s1 (map BC blocks)) (run s2 (map BC (map empty_blk blocks))).
Proof.
  induction blocks as [|b r IH]; intros s1 s2 Hrel Hseg HH Htop Hsh; [exact Hrel|].
  cbn [map run fold_left]. destruct Hseg as (Hh & Hok & Hseg). cbn [List.length] in Htop.
  assert (Hstep : fork_rel H top (step s1 (BC b)) (step s2 (BC (empty_blk b)))).
  { apply fork_step; try assumption; lia. }
  assert (Hb' : best_h (step s1 (BC b)) = b_height b).
  { unfold BC. cbn [step]. destruct (add_txs_fields s1 b (b_txs b)) as (F1 & _). rewrite F1.
    destruct (Z.ltb_spec (best_h s1) (b_height b)); [|lia]. unfold block_confirmed. reflexivity. }
  apply IH; try assumption; rewrite ?Hb', ?Hh; try assumption; try lia.
Qed.

(** Connecting a fork of fewer than ANTI_REORG_DELAY blocks and disconnecting it again (by
    [blocks_disconnected], or by [best_block_updated] back to the fork point) leaves exactly the state
    that the same blocks WITHOUT their transactions would have left: the removed transactions have no
    effect, in particular nothing they caused was emitted. *)
Lemma shallow_reorg_retracts st blocks fp :
  Forall (fun e => e_height e <= best_h st) (awaiting st) ->
  fork_seg (best_h st) blocks -> (Z.of_nat (List.length blocks) < ANTI_REORG_DELAY) ->
  b_height fp = best_h st ->
  step (run st (map BC blocks)) (BD fp) = step (run st (map BC (map empty_blk blocks))) (BD fp).
Proof.
  intros Hh Hseg Hlen Hfp.
  set (H := best_h st). set (top := H + Z.of_nat (List.length blocks)).
  assert (Hrel0 : fork_rel H top st st).
  { unfold fork_rel. repeat split; try reflexivity.
    - assert (forall l, Forall (fun e => e_height e <= H) l -> filter (fun e => e_height e <=? H) l = l) as Hid.
      { induction l as [|e t IH]; intros Hf; [reflexivity|]. inversion Hf; subst. cbn [filter].
        destruct (Z.leb_spec (e_height e) H); [f_equal; apply IH; assumption | lia]. }
      symmetry. apply Hid. exact Hh.
    - apply Forall_forall. intros e Hin Hlt. rewrite Forall_forall in Hh. specialize (Hh e Hin). unfold H in Hlt. lia. }
  pose proof (fork_run H top blocks st st Hrel0 Hseg ltac:(unfold H; lia) ltac:(unfold top, H; lia) ltac:(unfold top; lia))
    as (E1 & E2 & E3 & E4 & E5 & E6).
  cbn [step]. rewrite E3, E4, E5, Hfp. fold H. f_equal.
  rewrite filter_filter_impl; [reflexivity | intros x Hx; exact Hx].
Qed.

(** [best_block_updated] back to a lower block of a different hash is the same retraction *)
Lemma bb_reorg_is_bd s fp :
  b_height fp <= best_h s -> b_hash fp <> best_hash s -> step s (BB fp) = step s (BD fp).
Proof.
  intros Hh Hn. cbn [step]. destruct (Z.ltb_spec (best_h s) (b_height fp)); [lia|].
  destruct (Z.eqb_spec (b_hash fp) (best_hash s)); [contradiction | reflexivity].
Qed.

(** * Delivery independence on a chain without detours *)

(** what has been delivered: (block, transaction) pairs *)
Definition entries_D (D : list (blk * tx)) : list entry := flat_map (fun p => entries_of (fst p) (snd p)) D.

Record inv (st : state) (D : list (blk * tx)) : Prop := mkInv {
  inv_aw : forall e, In e (awaiting st) <-> In e (entries_D D) /\ best_h st < threshold e;
  inv_done : forall id, In id (done_txids st) <-> exists e, In e (entries_D D) /\ threshold e <= best_h st /\ e_txid e = id;
  inv_em : forall id tag c, (exists at_h, In (mkEm id tag c at_h) (emitted st)) <->
             exists e, In e (entries_D D) /\ threshold e <= best_h st /\ e_txid e = id /\ e_tag e = tag /\ e_height e = c
}.

(** chain well-formedness: transaction ids identify (block, transaction) *)
Definition uniq_ids (chain : list blk) : Prop :=
  forall b b' t t', In b chain -> In t (b_txs b) -> In b' chain -> In t' (b_txs b') -> t_id t = t_id t' -> b = b' /\ t = t'.
Definition from_chain (chain : list blk) (D : list (blk * tx)) : Prop :=
  forall p, In p D -> In (fst p) chain /\ In (snd p) (b_txs (fst p)).

Lemma in_entries_D D e : In e (entries_D D) <-> exists p, In p D /\ In e (entries_of (fst p) (snd p)).
Proof. unfold entries_D. apply in_flat_map. Qed.

Lemma entries_of_txid b t e : In e (entries_of b t) -> e_txid e = t_id t /\ e_height e = b_height b /\ e_hash e = b_hash b.
Proof. unfold entries_of. intros H. apply in_map_iff in H as (ev & <- & _). repeat split. Qed.

(** intermediate invariant while [add_txs] runs: new entries are in [awaiting] whatever their threshold *)
Record inv_mid (st : state) (D Dn : list (blk * tx)) : Prop := mkMid {
  mid_aw : forall e, In e (awaiting st) <-> (In e (entries_D D) /\ best_h st < threshold e) \/ In e (entries_D Dn);
  mid_done : forall id, In id (done_txids st) <-> exists e, In e (entries_D D) /\ threshold e <= best_h st /\ e_txid e = id;
  mid_em : forall id tag c, (exists at_h, In (mkEm id tag c at_h) (emitted st)) <->
             exists e, In e (entries_D D) /\ threshold e <= best_h st /\ e_txid e = id /\ e_tag e = tag /\ e_height e = c
}.

Lemma known_tx_spec st id :
  known_tx st id = true <-> (exists e, In e (awaiting st) /\ e_txid e = id) \/ In id (done_txids st).
Proof.
  unfold known_tx. rewrite orb_true_iff, !existsb_exists. split.
  - intros [(e & He & E) | (x & Hx & E)]; [left; exists e; split; [exact He | apply Z.eqb_eq; exact E] | right; apply Z.eqb_eq in E; subst; exact Hx].
  - intros [(e & He & E) | H]; [left; exists e; split; [exact He | apply Z.eqb_eq; exact E] | right; exists id; split; [exact H | apply Z.eqb_refl]].
Qed.

Lemma entries_D_incl D D' e : incl D D' -> In e (entries_D D) -> In e (entries_D D').
Proof. intros Hi H. apply in_entries_D in H as (p & Hp & He). apply in_entries_D. exists p. split; [apply Hi; exact Hp | exact He]. Qed.

Lemma entries_D_app D1 D2 e : In e (entries_D (D1 ++ D2)) <-> In e (entries_D D1) \/ In e (entries_D D2).
Proof. unfold entries_D. rewrite flat_map_app, in_app_iff. tauto. Qed.

Lemma add_txs_mid chain b txs : forall st D Dn,
  uniq_ids chain -> In b chain -> (forall t, In t txs -> In t (b_txs b)) ->
  from_chain chain D -> from_chain chain Dn ->
  inv_mid st D Dn ->
  exists Dn', incl Dn Dn' /\ from_chain chain Dn' /\ inv_mid (add_txs st b txs) D Dn' /\
              (forall t, In t txs -> forall e, In e (entries_of b t) -> In e (entries_D D) \/ In e (entries_D Dn')) /\
              (forall p, In p Dn' -> In p Dn \/ fst p = b).
Proof.
  induction txs as [|t r IH]; intros st D Dn Hu Hb Hsub HD HDn Hm; cbn [add_txs].
  - exists Dn. split; [apply incl_refl|]. split; [exact HDn|]. split; [exact Hm|]. split; [intros t [] | intros p Hp; left; exact Hp].
  - assert (Hsub' : forall t', In t' r -> In t' (b_txs b)) by (intros t' Ht'; apply Hsub; right; exact Ht').
    destruct (known_tx st (t_id t)) eqn:Ek.
    + (* already recorded: by uniqueness of ids it is this very (block, transaction) *)
      destruct Hm as [Haw Hdone Hem].
      assert (Hin : forall e, In e (entries_of b t) -> In e (entries_D D) \/ In e (entries_D Dn)).
      { intros e He. apply known_tx_spec in Ek.
        assert (Hsrc : exists e0, (In e0 (entries_D D) \/ In e0 (entries_D Dn)) /\ e_txid e0 = t_id t).
        { destruct Ek as [(e0 & H0 & E0) | Hd].
          - exists e0. split; [|exact E0]. apply Haw in H0 as [(H0 & _) | H0]; [left | right]; exact H0.
          - apply Hdone in Hd as (e0 & H0 & _ & E0). exists e0. split; [left; exact H0 | exact E0]. }
        destruct Hsrc as (e0 & [H0 | H0] & E0); apply in_entries_D in H0 as (p & Hp & Hep);
          destruct (entries_of_txid _ _ _ Hep) as (Eid & _).
        - destruct (HD p Hp) as (Hpb & Hpt). destruct (Hu b (fst p) t (snd p) Hb (Hsub t (or_introl eq_refl)) Hpb Hpt ltac:(congruence)) as (Eb & Et).
          left. apply in_entries_D. exists p. split; [exact Hp | rewrite <- Eb, <- Et; exact He].
        - destruct (HDn p Hp) as (Hpb & Hpt). destruct (Hu b (fst p) t (snd p) Hb (Hsub t (or_introl eq_refl)) Hpb Hpt ltac:(congruence)) as (Eb & Et).
          right. apply in_entries_D. exists p. split; [exact Hp | rewrite <- Eb, <- Et; exact He]. }
      destruct (IH st D Dn Hu Hb Hsub' HD HDn (mkMid _ _ _ Haw Hdone Hem)) as (Dn' & Hi & Hf & Hm' & Hc & Hbk).
      exists Dn'. split; [exact Hi|]. split; [exact Hf|]. split; [exact Hm'|]. split; [|exact Hbk].
      intros t' [<- | Ht'] e He; [|apply (Hc t' Ht' e He)].
      destruct (Hin e He) as [H | H]; [left; exact H | right; apply (entries_D_incl Dn Dn' e Hi H)].
    + (* recorded now *)
      set (st' := mkSt (best_h st) (best_hash st) (awaiting st ++ entries_of b t) (done_txids st) (emitted st)).
      assert (HDn1 : from_chain chain (Dn ++ [(b, t)])).
      { intros p Hp. apply in_app_or in Hp as [Hp | [<- | []]]; [apply HDn; exact Hp | split; [exact Hb | apply Hsub; left; reflexivity]]. }
      assert (Hm1 : inv_mid st' D (Dn ++ [(b, t)])).
      { destruct Hm as [Haw Hdone Hem]. constructor; [|exact Hdone | exact Hem].
        intros e. unfold st'. cbn [awaiting best_h]. rewrite in_app_iff, Haw, entries_D_app.
        assert (Es : forall x, In x (entries_D [(b, t)]) <-> In x (entries_of b t)) by (intros x; unfold entries_D; cbn [flat_map fst snd]; rewrite app_nil_r; tauto).
        rewrite Es. tauto. }
      destruct (IH st' D (Dn ++ [(b, t)]) Hu Hb Hsub' HD HDn1 Hm1) as (Dn' & Hi & Hf & Hm' & Hc & Hbk).
      exists Dn'. split; [intros p Hp; apply Hi; apply in_or_app; left; exact Hp|]. split; [exact Hf|]. split; [exact Hm'|].
      split; [|intros p Hp; destruct (Hbk p Hp) as [H | H]; [apply in_app_or in H as [H | [<- | []]]; [left; exact H | right; reflexivity] | right; exact H]].
      intros t' [<- | Ht'] e He; [|apply (Hc t' Ht' e He)].
      right. apply (entries_D_incl (Dn ++ [(b, t)]) Dn' e Hi). apply entries_D_app. right.
      unfold entries_D. cbn [flat_map fst snd]. apply in_or_app. left. exact He.
Qed.

(** [block_confirmed] at a best height that did not decrease turns the intermediate invariant into
    the invariant over everything delivered *)
Lemma block_confirmed_inv st D Dn B hash :
  inv_mid st D Dn -> best_h st <= B ->
  inv (block_confirmed (mkSt B hash (awaiting st) (done_txids st) (emitted st))) (D ++ Dn).
Proof.
  intros [Haw Hdone Hem] HB. unfold block_confirmed. cbn [best_h best_hash awaiting done_txids emitted].
  assert (Hmat : forall e, In e (entries_D (D ++ Dn)) /\ threshold e <= B <->
                           (In e (entries_D D) /\ threshold e <= best_h st) \/ (In e (awaiting st) /\ threshold e <= B)).
  { intros e. rewrite entries_D_app, Haw. split.
    - intros ([H | H] & Ht); [|right; split; [right; exact H | exact Ht]].
      destruct (Z.leb_spec (threshold e) (best_h st)); [left; split; assumption | right; split; [left; split; assumption | exact Ht]].
    - intros [(H & Ht) | ([(H & _) | H] & Ht)]; (split; [|lia]); [left | left | right]; exact H. }
  constructor; cbn [best_h best_hash awaiting done_txids emitted].
  - intros e. rewrite filter_In, Haw, entries_D_app, negb_true_iff, Z.leb_gt. split.
    + intros ([(H & _) | H] & Ht); (split; [|exact Ht]); [left | right]; exact H.
    + intros ([H | H] & Ht); (split; [|exact Ht]); [left; split; [exact H | lia] | right; exact H].
  - intros id. rewrite in_app_iff, Hdone, in_map_iff. split.
    + intros [(e & H & Ht & E) | (e & E & Hin)].
      * exists e. split; [apply entries_D_app; left; exact H | split; [lia | exact E]].
      * apply filter_In in Hin as (Hin & Ht). apply Z.leb_le in Ht.
        exists e. split; [|split; [exact Ht | exact E]]. apply (proj2 (Hmat e)). right. split; assumption.
    + intros (e & H & Ht & E). destruct (proj1 (Hmat e) (conj H Ht)) as [(H1 & H2) | (H1 & H2)].
      * left. exists e. repeat split; assumption.
      * right. exists e. split; [exact E | apply filter_In; split; [exact H1 | apply Z.leb_le; exact H2]].
  - intros id tag c. split.
    + intros (at_h & Hin). apply in_app_or in Hin as [Hin | Hin].
      * destruct (proj1 (Hem id tag c) (ex_intro _ at_h Hin)) as (e & H & Ht & E).
        exists e. split; [apply entries_D_app; left; exact H | split; [lia | exact E]].
      * apply in_map_iff in Hin as (e & E & Hin). injection E as E1 E2 E3 E4.
        apply filter_In in Hin as (Hin & Ht). apply Z.leb_le in Ht.
        exists e. split; [apply (proj2 (Hmat e)); right; split; assumption | repeat split; assumption].
    + intros (e & H & Ht & E1 & E2 & E3). destruct (proj1 (Hmat e) (conj H Ht)) as [(H1 & H2) | (H1 & H2)].
      * destruct (proj2 (Hem id tag c) (ex_intro _ e (conj H1 (conj H2 (conj E1 (conj E2 E3)))))) as (at_h & Hin).
        exists at_h. apply in_or_app. left. exact Hin.
      * exists B. apply in_or_app. right. apply in_map_iff. exists e. split; [subst; reflexivity|].
        apply filter_In. split; [exact H1 | apply Z.leb_le; exact H2].
Qed.

(** deliveries of a chain without reorganisation: [transactions_confirmed] for any block of the chain
    with any sub-list of its transactions -- whole blocks ([Listen]), split calls, duplicates, late
    deliveries for lower heights --, [best_block_updated] for any block of the chain at or above the
    current best height -- before or after the block's transactions, skipping blocks, repeated *)
Definition lin_ok (chain : list blk) (st : state) (o : op) : Prop :=
  match o with
  | TC b txs => In b chain /\ (forall t, In t txs -> In t (b_txs b))
  | BB b => In b chain /\ best_h st <= b_height b
  | _ => False
  end.
Fixpoint linear (chain : list blk) (st : state) (ops : list op) : Prop :=
  match ops with [] => True | o :: r => lin_ok chain st o /\ linear chain (step st o) r end.

Definition heights_ok (st : state) (D : list (blk * tx)) : Prop := forall p, In p D -> b_height (fst p) <= best_h st.

Lemma inv_to_mid st D : inv st D -> inv_mid st D [].
Proof.
  intros [A B C]. constructor; [|exact B | exact C]. intros e. rewrite A. unfold entries_D at 2. cbn [flat_map]. split; [intros H; left; exact H | intros [H | []]; exact H].
Qed.

Lemma state_eta st : st = mkSt (best_h st) (best_hash st) (awaiting st) (done_txids st) (emitted st).
Proof. destruct st; reflexivity. Qed.

Lemma step_inv chain st D o :
  uniq_ids chain -> lin_ok chain st o -> inv st D -> from_chain chain D -> heights_ok st D ->
  exists D', inv (step st o) D' /\ from_chain chain D' /\ heights_ok (step st o) D' /\ incl D D' /\
             match o with
             | TC b txs => forall t, In t txs -> forall e, In e (entries_of b t) -> In e (entries_D D')
             | _ => True
             end.
Proof.
  intros Hu Hok Hinv HD Hh. destruct o as [b txs | b | f | id | | dep tag]; cbn [lin_ok] in Hok; try contradiction.
  - destruct Hok as (Hb & Hsub). cbn [step].
    destruct (add_txs_mid chain b txs st D [] Hu Hb Hsub HD ltac:(intros p []) (inv_to_mid st D Hinv))
      as (Dn & _ & HDn & Hmid & Hcov & Hbk).
    destruct (add_txs_fields st b txs) as (F1 & F2 & F3 & F4).
    set (st1 := add_txs st b txs) in *.
    exists (D ++ Dn).
    assert (Hfrom : from_chain chain (D ++ Dn)) by (intros p Hp; apply in_app_or in Hp as [Hp | Hp]; [apply HD | apply HDn]; exact Hp).
    assert (Hcov' : forall t, In t txs -> forall e, In e (entries_of b t) -> In e (entries_D (D ++ Dn)))
      by (intros t Ht e He; apply entries_D_app; apply (Hcov t Ht e He)).
    destruct (Z.ltb_spec (best_h st1) (b_height b)) as [Hlt | Hge].
    + pose proof (block_confirmed_inv st1 D Dn (b_height b) (b_hash b) Hmid ltac:(lia)) as Hi.
      split; [exact Hi|]. split; [exact Hfrom|]. split; [|split; [apply incl_appl; apply incl_refl | exact Hcov']].
      intros p Hp. unfold block_confirmed. cbn [best_h]. apply in_app_or in Hp as [Hp | Hp].
      * specialize (Hh p Hp). lia.
      * destruct (Hbk p Hp) as [[] | ->]. lia.
    + rewrite (state_eta st1) at 1.
      pose proof (block_confirmed_inv st1 D Dn (best_h st1) (best_hash st1) Hmid ltac:(lia)) as Hi.
      split; [exact Hi|]. split; [exact Hfrom|]. split; [|split; [apply incl_appl; apply incl_refl | exact Hcov']].
      intros p Hp. unfold block_confirmed. cbn [best_h]. apply in_app_or in Hp as [Hp | Hp].
      * specialize (Hh p Hp). lia.
      * destruct (Hbk p Hp) as [[] | ->]. lia.
  - destruct Hok as (Hb & Hge). cbn [step]. destruct (Z.ltb_spec (best_h st) (b_height b)) as [Hlt | Hnlt].
    + exists (D ++ []). pose proof (block_confirmed_inv st D [] (b_height b) (b_hash b) (inv_to_mid st D Hinv) ltac:(lia)) as Hi.
      split; [exact Hi|]. rewrite app_nil_r. split; [exact HD|]. split; [|split; [apply incl_refl | exact I]].
      intros p Hp. unfold block_confirmed. cbn [best_h]. specialize (Hh p Hp). lia.
    + assert (Eh : b_height b = best_h st) by lia.
      destruct (negb (b_hash b =? best_hash st)).
      * exists D. split; [|split; [exact HD | split; [intros p Hp; cbn [best_h]; specialize (Hh p Hp); lia | split; [apply incl_refl | exact I]]]].
        destruct Hinv as [A B C]. constructor; cbn [best_h awaiting done_txids emitted]; rewrite ?Eh; [|exact B | exact C].
        intros e. rewrite filter_In, A. split; [intros ((H1 & H2) & _); split; assumption|].
        intros (H1 & H2). split; [split; assumption|]. apply Z.leb_le.
        apply in_entries_D in H1 as (p & Hp & He). destruct (entries_of_txid _ _ _ He) as (_ & E & _). rewrite E. apply Hh. exact Hp.
      * exists D. split; [exact Hinv|]. split; [exact HD|]. split; [exact Hh|]. split; [apply incl_refl | exact I].
Qed.

Lemma run_inv chain ops : forall st D,
  uniq_ids chain -> linear chain st ops -> inv st D -> from_chain chain D -> heights_ok st D ->
  exists D', inv (run st ops) D' /\ from_chain chain D' /\ incl D D' /\
             (forall b txs t e, In (TC b txs) ops -> In t txs -> In e (entries_of b t) -> In e (entries_D D')).
Proof.
  induction ops as [|o r IH]; intros st D Hu Hlin Hinv HD Hh.
  - exists D. split; [exact Hinv|]. split; [exact HD|]. split; [apply incl_refl|]. intros b txs t e [].
  - destruct Hlin as (Hok & Hlin). cbn [run fold_left].
    destruct (step_inv chain st D o Hu Hok Hinv HD Hh) as (D1 & Hi1 & Hf1 & Hh1 & Hinc1 & Hcov1).
    destruct (IH (step st o) D1 Hu Hlin Hi1 Hf1 Hh1) as (D2 & Hi2 & Hf2 & Hinc2 & Hcov2).
    exists D2. split; [exact Hi2|]. split; [exact Hf2|]. split; [intros p Hp; apply Hinc2; apply Hinc1; exact Hp|].
    intros b txs t e [-> | Hin] Ht He; [|apply (Hcov2 b txs t e Hin Ht He)].
    apply (entries_D_incl D1 D2 e Hinc2). apply (Hcov1 t Ht e He).
Qed.

(** every transaction of the chain was handed to [transactions_confirmed] at least once *)
Definition delivers_all (chain : list blk) (ops : list op) : Prop :=
  forall b t, In b chain -> In t (b_txs b) -> exists txs, In (TC b txs) ops /\ In t txs.

(** the observable view: best block, what still awaits its threshold, which transactions are done
    with, what was concluded irreversibly (as sets; the height at which a conclusion was drawn is not
    part of the view) *)
Definition view_eq (s1 s2 : state) : Prop :=
  best_h s1 = best_h s2 /\
  (forall e, In e (awaiting s1) <-> In e (awaiting s2)) /\
  (forall id, In id (done_txids s1) <-> In id (done_txids s2)) /\
  (forall id tag c, (exists a, In (mkEm id tag c a) (emitted s1)) <-> (exists a, In (mkEm id tag c a) (emitted s2))).

Definition fresh (h0 hash0 : Z) : state := mkSt h0 hash0 [] [] [].

Lemma fresh_inv h0 hash0 : inv (fresh h0 hash0) [].
Proof.
  constructor; cbn; intros.
  - split; [intros [] | intros ([] & _)].
  - split; [intros [] | intros (e & [] & _)].
  - split; [intros (a & []) | intros (e & [] & _)].
Qed.

Theorem delivery_independent chain h0 hash0 ops1 ops2 :
  uniq_ids chain ->
  linear chain (fresh h0 hash0) ops1 -> linear chain (fresh h0 hash0) ops2 ->
  delivers_all chain ops1 -> delivers_all chain ops2 ->
  best_h (run (fresh h0 hash0) ops1) = best_h (run (fresh h0 hash0) ops2) ->
  view_eq (run (fresh h0 hash0) ops1) (run (fresh h0 hash0) ops2).
Proof.
  intros Hu L1 L2 A1 A2 Hb.
  destruct (run_inv chain ops1 _ [] Hu L1 (fresh_inv h0 hash0) ltac:(intros p []) ltac:(intros p [])) as (D1 & I1 & F1 & _ & C1).
  destruct (run_inv chain ops2 _ [] Hu L2 (fresh_inv h0 hash0) ltac:(intros p []) ltac:(intros p [])) as (D2 & I2 & F2 & _ & C2).
  assert (Hsame : forall e, In e (entries_D D1) <-> In e (entries_D D2)).
  { intros e. split; intros H; apply in_entries_D in H as (p & Hp & He).
    - destruct (F1 p Hp) as (Hpb & Hpt). destruct (A2 _ _ Hpb Hpt) as (txs & Hin & Ht). apply (C2 _ _ _ _ Hin Ht He).
    - destruct (F2 p Hp) as (Hpb & Hpt). destruct (A1 _ _ Hpb Hpt) as (txs & Hin & Ht). apply (C1 _ _ _ _ Hin Ht He). }
  destruct I1 as [A B C], I2 as [A' B' C']. unfold view_eq. split; [exact Hb|]. split; [|split].
  - intros e. rewrite A, A', Hb, Hsame. tauto.
  - intros id. rewrite B, B'. split; intros (e & H1 & H2 & H3); exists e; (split; [apply Hsame; exact H1 | split; [lia | exact H3]]).
  - intros id tag c. rewrite C, C'. split; intros (e & H1 & H2 & H3); exists e; (split; [apply Hsame; exact H1 | split; [lia | exact H3]]).
Qed.

(** * Late monitor updates ([AU]) *)

(** all awaiting entries of one transaction sit at one height in one block: where that transaction
    confirmed *)
Definition coherent (l : list entry) : Prop :=
  forall e1 e2, In e1 l -> In e2 l -> e_txid e1 = e_txid e2 -> e_height e1 = e_height e2 /\ e_hash e1 = e_hash e2.

Lemma coherent_sub l l' : (forall e, In e l' -> In e l) -> coherent l -> coherent l'.
Proof. intros Hs Hc e1 e2 H1 H2. apply Hc; apply Hs; assumption. Qed.

Lemma add_txs_coherent b txs : forall st, coherent (awaiting st) -> coherent (awaiting (add_txs st b txs)).
Proof.
  induction txs as [|t r IH]; intros st Hc; cbn [add_txs]; [exact Hc|].
  destruct (known_tx st (t_id t)) eqn:Ek; [apply IH; exact Hc|]. apply IH. cbn [awaiting].
  assert (Hnone : forall e, In e (awaiting st) -> e_txid e <> t_id t).
  { intros e He E. assert (known_tx st (t_id t) = true); [|congruence]. apply known_tx_spec. left. exists e. split; assumption. }
  intros e1 e2 H1 H2 E. apply in_app_or in H1, H2. destruct H1 as [H1 | H1], H2 as [H2 | H2].
  - apply Hc; assumption.
  - destruct (entries_of_txid _ _ _ H2) as (T & _). exfalso. apply (Hnone e1 H1). congruence.
  - destruct (entries_of_txid _ _ _ H1) as (T & _). exfalso. apply (Hnone e2 H2). congruence.
  - destruct (entries_of_txid _ _ _ H1) as (_ & A1 & B1), (entries_of_txid _ _ _ H2) as (_ & A2 & B2). split; congruence.
Qed.

Lemma block_confirmed_coherent st : coherent (awaiting st) -> coherent (awaiting (block_confirmed st)).
Proof. unfold block_confirmed. cbn [awaiting]. apply coherent_sub. intros e He. apply filter_In in He. tauto. Qed.

(** Coherence is kept by EVERY operation, late updates included: this is what makes a reorganisation
    retract an entry exactly when it retracts the transaction the entry depends on (the retractions of
    [BD], [BB], [TU] filter on the height alone). *)
Lemma step_coherent st o : coherent (awaiting st) -> coherent (awaiting (step st o)).
Proof.
  intros Hc. destruct o as [b txs | b | f | id | | dep tag]; cbn [step]; [ | | | | exact Hc | ].
  - apply block_confirmed_coherent. pose proof (add_txs_coherent b txs st Hc) as H1.
    destruct (best_h (add_txs st b txs) <? b_height b); [cbn [awaiting]|]; exact H1.
  - destruct (best_h st <? b_height b); [apply block_confirmed_coherent; exact Hc|].
    destruct (negb (b_hash b =? best_hash st)); [|exact Hc]. cbn [awaiting].
    apply (coherent_sub (awaiting st)); [|exact Hc]. intros e He. apply filter_In in He. tauto.
  - cbn [awaiting]. apply (coherent_sub (awaiting st)); [|exact Hc]. intros e He. apply filter_In in He. tauto.
  - destruct (find _ (awaiting st)) as [e0|]; [|exact Hc]. cbn [awaiting].
    apply (coherent_sub (awaiting st)); [|exact Hc]. intros e He. apply filter_In in He. tauto.
  - destruct (find (fun e => e_txid e =? dep) (awaiting st)) as [e0|] eqn:Ef.
    + apply block_confirmed_coherent. cbn [awaiting]. apply find_some in Ef as (Hin0 & Hid0). apply Z.eqb_eq in Hid0.
      intros e1 e2 H1 H2 E. apply in_app_or in H1, H2.
      destruct H1 as [H1 | [<- | []]], H2 as [H2 | [<- | []]]; cbn [e_txid e_height e_hash] in *.
      * apply Hc; assumption.
      * apply (Hc e1 e0 H1 Hin0). congruence.
      * destruct (Hc e2 e0 H2 Hin0 ltac:(congruence)) as (A & B). split; congruence.
      * split; reflexivity.
    + destruct (find _ (emitted st)); exact Hc.
Qed.

Lemma run_coherent ops : forall st, coherent (awaiting st) -> coherent (awaiting (run st ops)).
Proof. induction ops as [|o t IH]; intros st Hc; [exact Hc|]. cbn [run fold_left]. apply IH. apply step_coherent. exact Hc. Qed.

(** A late update never makes a transaction appear at another height or in another block: every
    (txid, height, block) it leaves in [get_relevant_txids] was there before. *)
Lemma au_stamped_with_spend st dep tag x :
  In x (relevant_txids (step st (AU dep tag))) -> In x (relevant_txids st).
Proof.
  unfold relevant_txids. cbn [step]. destruct (find (fun e => e_txid e =? dep) (awaiting st)) as [e0|] eqn:Ef.
  - unfold block_confirmed. cbn [awaiting]. intros H. apply in_map_iff in H as (e & <- & He).
    apply filter_In in He as (He & _). apply in_app_or in He as [He | [<- | []]].
    + apply in_map_iff. exists e. split; [reflexivity | exact He].
    + apply find_some in Ef as (Hin0 & Hid0). apply Z.eqb_eq in Hid0. cbn [e_txid e_height e_hash].
      apply in_map_iff. exists e0. split; [rewrite Hid0; reflexivity | exact Hin0].
  - destruct (find _ (emitted st)); intros H; exact H.
Qed.

(** ** forks with late updates in between *)

Lemma find_filter_first (p q : entry -> bool) l e0 :
  find p l = Some e0 -> q e0 = true -> find p (filter q l) = Some e0.
Proof.
  induction l as [|x t IH]; [discriminate|]. cbn [find filter]. destruct (p x) eqn:Ep.
  - intros [= ->] Hq. rewrite Hq. cbn [find]. rewrite Ep. reflexivity.
  - intros Hf Hq. destruct (q x); [cbn [find]; rewrite Ep|]; apply IH; assumption.
Qed.

Lemma find_none_filter (p q : entry -> bool) l : find p l = None -> find p (filter q l) = None.
Proof.
  induction l as [|x t IH]; [reflexivity|]. cbn [find filter]. destruct (p x) eqn:Ep; [discriminate|].
  intros Hf. destruct (q x); [cbn [find]; rewrite Ep|]; apply IH; exact Hf.
Qed.

(** [block_confirmed] on two states related as in [fork_rel] *)
Lemma fork_block_confirmed H top B hash a1 a2 dn em :
  B <= top -> a2 = filter (fun e => e_height e <=? H) a1 ->
  Forall (fun e => H < e_height e -> top < threshold e) a1 ->
  fork_rel H top (block_confirmed (mkSt B hash a1 dn em)) (block_confirmed (mkSt B hash a2 dn em)).
Proof.
  intros HB E5 E6. unfold block_confirmed. cbn [best_h best_hash awaiting done_txids emitted].
  assert (Himp : forall e, In e a1 -> (threshold e <=? B) = true -> (e_height e <=? H) = true).
  { intros e Hin He. apply Z.leb_le in He. apply Z.leb_le. destruct (Z.leb_spec (e_height e) H); [assumption|].
    rewrite Forall_forall in E6. specialize (E6 e Hin ltac:(lia)). lia. }
  assert (Hreach : filter (fun e => threshold e <=? B) a1 = filter (fun e => threshold e <=? B) a2).
  { rewrite E5. symmetry. apply filter_filter_impl_in. exact Himp. }
  unfold fork_rel. cbn [best_h best_hash awaiting done_txids emitted]. rewrite Hreach. repeat split; try reflexivity.
  - rewrite E5. apply filter_comm.
  - apply Forall_forall. intros e Hin. apply filter_In in Hin as (Hin & _). rewrite Forall_forall in E6. apply E6. exact Hin.
Qed.

(** a late update about a transaction of the common chain (its entries, if any, are at or below the
    fork point), applied while the fork is connected *)
Lemma fork_step_au H top s1 s2 dep tag :
  fork_rel H top s1 s2 -> best_h s1 <= top ->
  (forall e, In e (awaiting s1) -> e_txid e = dep -> e_height e <= H) ->
  fork_rel H top (step s1 (AU dep tag)) (step s2 (AU dep tag)).
Proof.
  intros (E1 & E2 & E3 & E4 & E5 & E6) HB Hdep. cbn [step].
  destruct (find (fun e => e_txid e =? dep) (awaiting s1)) as [e0|] eqn:Ef.
  - pose proof (find_some _ _ Ef) as (Hin0 & Hid0). apply Z.eqb_eq in Hid0.
    assert (Hq : (e_height e0 <=? H) = true) by (apply Z.leb_le; apply Hdep; assumption).
    rewrite E5, (find_filter_first _ (fun e => e_height e <=? H) _ _ Ef Hq), <- E1, <- E2, <- E3, <- E4.
    apply fork_block_confirmed; [exact HB | |].
    + rewrite filter_app. cbn [filter e_height]. rewrite Hq. reflexivity.
    + apply Forall_app. split; [exact E6|]. constructor; [|constructor]. cbn [e_height]. apply Z.leb_le in Hq. lia.
  - rewrite E5, (find_none_filter _ _ _ Ef), <- E4.
    destruct (find (fun m => m_txid m =? dep) (emitted s1)) as [m0|].
    + unfold fork_rel. cbn [best_h best_hash awaiting done_txids emitted]. rewrite <- E5. repeat split; assumption.
    + unfold fork_rel. repeat split; assumption.
Qed.

(** fork segments interleaving blocks and late updates *)
Inductive fop := FB (b : blk) | FU (dep tag : Z).
Definition fop_full (f : fop) : op := match f with FB b => BC b | FU d t => AU d t end.
Definition fop_empty (f : fop) : op := match f with FB b => BC (empty_blk b) | FU d t => AU d t end.

Fixpoint fork_ops_ok (H h : Z) (s1 : state) (fs : list fop) : Prop :=
  match fs with
  | [] => True
  | FB b :: r => b_height b = h + 1 /\ Forall tx_ok (b_txs b) /\ fork_ops_ok H (h + 1) (step s1 (BC b)) r
  | FU d t :: r => (forall e, In e (awaiting s1) -> e_txid e = d -> e_height e <= H) /\ fork_ops_ok H h (step s1 (AU d t)) r
  end.

Fixpoint count_blocks (fs : list fop) : Z := match fs with [] => 0 | FB _ :: r => 1 + count_blocks r | FU _ _ :: r => count_blocks r end.

Lemma count_blocks_nonneg fs : 0 <= count_blocks fs.
Proof. induction fs as [|[b|d t] r IH]; cbn [count_blocks]; lia. Qed.

Lemma au_best st d t : best_h (step st (AU d t)) = best_h st.
Proof.
  cbn [step]. destruct (find (fun e => e_txid e =? d) (awaiting st)); [unfold block_confirmed; reflexivity|].
  destruct (find _ (emitted st)); reflexivity.
Qed.

Lemma fork_run_ops H top fs : forall s1 s2,
  fork_rel H top s1 s2 -> fork_ops_ok H (best_h s1) s1 fs -> H <= best_h s1 ->
  best_h s1 + count_blocks fs <= top -> top < H + ANTI_REORG_DELAY ->
  fork_rel H top (run s1 (map fop_full fs)) (run s2 (map fop_empty fs)).
Proof.
  induction fs as [|[b|d t] r IH]; intros s1 s2 Hrel Hok HH Htop Hsh; [exact Hrel| |];
    cbn [map run fold_left fop_full fop_empty]; cbn [fork_ops_ok count_blocks] in *.
  - destruct Hok as (Hh & Htx & Hok). pose proof (count_blocks_nonneg r) as Hnn.
    assert (Hstep : fork_rel H top (step s1 (BC b)) (step s2 (BC (empty_blk b)))) by (apply fork_step; try assumption; lia).
    assert (Hb' : best_h (step s1 (BC b)) = b_height b).
    { unfold BC. cbn [step]. destruct (add_txs_fields s1 b (b_txs b)) as (F1 & _). rewrite F1.
      destruct (Z.ltb_spec (best_h s1) (b_height b)); [|lia]. unfold block_confirmed. reflexivity. }
    apply (IH (step s1 (BC b)) (step s2 (BC (empty_blk b))) Hstep); [rewrite Hb', Hh; exact Hok | rewrite Hb'; lia | rewrite Hb'; lia | exact Hsh].
  - destruct Hok as (Hdep & Hok). pose proof (count_blocks_nonneg r) as Hnn.
    assert (Hstep : fork_rel H top (step s1 (AU d t)) (step s2 (AU d t))) by (apply fork_step_au; try assumption; lia).
    apply (IH (step s1 (AU d t)) (step s2 (AU d t)) Hstep); [rewrite au_best; exact Hok | rewrite au_best; lia | rewrite au_best; lia | exact Hsh].
Qed.

(** The shallow-fork theorem with late updates applied while the fork is connected. *)
Lemma shallow_reorg_retracts_with_updates st fs fp :
  Forall (fun e => e_height e <= best_h st) (awaiting st) ->
  fork_ops_ok (best_h st) (best_h st) st fs -> count_blocks fs < ANTI_REORG_DELAY ->
  b_height fp = best_h st ->
  step (run st (map fop_full fs)) (BD fp) = step (run st (map fop_empty fs)) (BD fp).
Proof.
  intros Hh Hok Hlen Hfp.
  set (H := best_h st). set (top := H + count_blocks fs).
  assert (Hrel0 : fork_rel H top st st).
  { unfold fork_rel. repeat split; try reflexivity.
    - assert (forall l, Forall (fun e => e_height e <= H) l -> filter (fun e => e_height e <=? H) l = l) as Hid.
      { induction l as [|e t IH]; intros Hf; [reflexivity|]. inversion Hf; subst. cbn [filter].
        destruct (Z.leb_spec (e_height e) H); [f_equal; apply IH; assumption | lia]. }
      symmetry. apply Hid. exact Hh.
    - apply Forall_forall. intros e Hin Hlt. rewrite Forall_forall in Hh. specialize (Hh e Hin). unfold H in Hlt. lia. }
  pose proof (count_blocks_nonneg fs) as Hnn.
  pose proof (fork_run_ops H top fs st st Hrel0 Hok ltac:(unfold H; lia) ltac:(unfold top, H; lia) ltac:(unfold top; lia))
    as (E1 & E2 & E3 & E4 & E5 & E6).
  cbn [step]. rewrite E3, E4, E5, Hfp. fold H. f_equal.
  rewrite filter_filter_impl; [reflexivity | intros x Hx; exact Hx].
Qed.

(** * Boundary of a disconnection, restarts, the alternative funding, the block filter *)

(** [blocks_disconnected] back to fork point [f] keeps exactly the entries at or below the fork point's
    height -- the fork point is the last block kept -- and touches nothing else. *)
Lemma disconnect_boundary st f :
  (forall e, In e (awaiting (step st (BD f))) <-> In e (awaiting st) /\ e_height e <= b_height f) /\
  done_txids (step st (BD f)) = done_txids st /\ emitted (step st (BD f)) = emitted st /\
  best_h (step st (BD f)) = b_height f.
Proof.
  cbn [step awaiting done_txids emitted best_h]. split; [|repeat split; reflexivity].
  intros e. rewrite filter_In, Z.leb_le. reflexivity.
Qed.

(** ... and so does it treat the recorded alternative funding: recorded at the fork point's height or
    below it stays, above it goes. *)
Lemma disconnect_boundary_alt pending x f t h :
  alt x = Some (t, h) ->
  (h <= b_height f -> alt (xstep pending x (BD f)) = Some (t, h)) /\
  (b_height f < h -> alt (xstep pending x (BD f)) = None).
Proof.
  intros E. cbn [xstep alt]. rewrite E. split; intros H.
  - destruct (Z.ltb_spec (b_height f) h); [lia | reflexivity].
  - destruct (Z.ltb_spec (b_height f) h); [reflexivity | lia].
Qed.

(** whole-block deliveries never change an alternative funding that is already recorded *)
Lemma xrun_bc_alt_some pending : forall blocks x a, alt x = Some a -> alt (xrun pending x (map BC blocks)) = Some a.
Proof.
  induction blocks as [|b r IH]; intros x a E; [exact E|]. cbn [map xrun fold_left]. apply IH.
  cbn [xstep BC alt]. unfold alt_of_txs. rewrite E. reflexivity.
Qed.

Lemma xrun_bc_alt_none pending : forall blocks x H, alt x = None ->
  Forall (fun b => H < b_height b) blocks ->
  alt (xrun pending x (map BC blocks)) = None \/ exists t h, alt (xrun pending x (map BC blocks)) = Some (t, h) /\ H < h.
Proof.
  induction blocks as [|b r IH]; intros x H E Hb; [left; exact E|]. cbn [map xrun fold_left].
  inversion Hb as [|? ? Hb1 Hb2]; subst.
  destruct (alt (xstep pending x (BC b))) as [[t h]|] eqn:E1.
  - right. exists t, h. split; [apply xrun_bc_alt_some; exact E1|].
    cbn [xstep BC alt] in E1. unfold alt_of_txs in E1. rewrite E in E1.
    destruct (find _ (b_txs b)); [|discriminate]. inversion E1; subst. exact Hb1.
  - apply (IH _ H E1 Hb2).
Qed.

(** A fork on top of [f], whatever it confirms, followed by the disconnection back to [f], leaves the
    alternative funding as it was, provided it was recorded at or below [f] (or not at all). *)
Lemma fork_leaves_alt pending x fork f :
  (match alt x with Some (_, h) => h <= b_height f | None => True end) ->
  Forall (fun b => b_height f < b_height b) fork ->
  alt (xstep pending (xrun pending x (map BC fork)) (BD f)) = alt x.
Proof.
  intros Ha Hf. destruct (alt x) as [[t h]|] eqn:E.
  - pose proof (xrun_bc_alt_some pending fork x (t, h) E) as E2.
    apply (proj1 (disconnect_boundary_alt pending _ f t h E2)). exact Ha.
  - destruct (xrun_bc_alt_none pending fork x (b_height f) E Hf) as [E2 | (t & h & E2 & Hh)].
    + cbn [xstep alt]. rewrite E2. reflexivity.
    + apply (proj2 (disconnect_boundary_alt pending _ f t h E2)). exact Hh.
Qed.

(** A restart (serialize, read back) is invisible: as an operation it changes nothing, wherever it is
    inserted in an operation list. *)
Lemma reload_invariant st : step st RL = st.
Proof. reflexivity. Qed.

Lemma reload_anywhere st a b : run st (a ++ RL :: b) = run st (a ++ b).
Proof. unfold run. rewrite !fold_left_app. reflexivity. Qed.

Lemma xreload_anywhere pending x a b : xrun pending x (a ++ RL :: b) = xrun pending x (a ++ b).
Proof.
  unfold xrun. rewrite !fold_left_app. cbn [fold_left]. f_equal.
  destruct (fold_left (xstep pending) a x) as [c al]. reflexivity.
Qed.

Lemma reload_all st a b :
  step st RL = st /\ run st (a ++ RL :: b) = run st (a ++ b) /\
  forall pending x, xrun pending x (a ++ RL :: b) = xrun pending x (a ++ b).
Proof. split; [apply reload_invariant | split; [apply reload_anywhere | intros; apply xreload_anywhere]]. Qed.

(** The block filter: whatever per-transaction delivery finds (each transaction in its own call, the
    watched outputs growing with every transaction processed), whole-block delivery finds too -- a child
    of a transaction kept earlier in the block is recognised through ANY of its inputs. *)
Lemma existsb_in {A} (f : A -> bool) l : existsb f l = true <-> exists x, In x l /\ f x = true.
Proof. apply existsb_exists. Qed.

Lemma per_tx_sub_filter_block : forall txs w w' m,
  (forall o, In o w' -> In o w \/ In (fst o) m) ->
  forall t, In t (per_tx w' txs) -> In t (filter_block w m txs).
Proof.
  induction txs as [|t0 r IH]; intros w w' m Hinv t Hin; [exact Hin|]. cbn [per_tx filter_block] in *.
  destruct (spends_watched w' t0) eqn:Ew.
  - assert (Hk : spends_watched w t0 || spends_matched m t0 = true).
    { unfold spends_watched in Ew. apply existsb_exists in Ew as (i & Hi & Ho). apply existsb_exists in Ho as (o & Ho & Heq).
      apply andb_true_iff in Heq as (E1 & E2). apply Z.eqb_eq in E1, E2.
      destruct (Hinv o Ho) as [Hw | Hm].
      - apply orb_true_iff. left. unfold spends_watched. apply existsb_exists. exists i. split; [exact Hi|].
        apply existsb_exists. exists o. split; [exact Hw|]. apply andb_true_iff. split; apply Z.eqb_eq; assumption.
      - apply orb_true_iff. right. unfold spends_matched. apply existsb_exists. exists i. split; [exact Hi|].
        apply existsb_exists. exists (fst o). split; [exact Hm|]. apply Z.eqb_eq. symmetry. exact E1. }
    rewrite Hk. destruct Hin as [<- | Hin]; [left; reflexivity|]. right.
    apply (IH w (w' ++ map (fun v => (f_id t0, v)) (f_watch t0)) (f_id t0 :: m)); [|exact Hin].
    intros o Ho. apply in_app_or in Ho as [Ho | Ho].
    + destruct (Hinv o Ho) as [H1 | H1]; [left; exact H1 | right; right; exact H1].
    + apply in_map_iff in Ho as (v & <- & _). right. left. reflexivity.
  - destruct (spends_watched w t0 || spends_matched m t0).
    + right. apply (IH w w' (f_id t0 :: m)); [|exact Hin]. intros o Ho. destruct (Hinv o Ho) as [H1 | H1]; [left; exact H1 | right; right; exact H1].
    + apply (IH w w' m Hinv t Hin).
Qed.

Lemma whole_block_finds_what_per_tx_finds w txs t : In t (per_tx w txs) -> In t (filter_block w [] txs).
Proof. apply per_tx_sub_filter_block. intros o Ho. left. exact Ho. Qed.

(** a child is kept whatever the position of the input that spends its parent *)
Lemma filter_child_any_input w m t r i :
  In i (f_ins t) -> In (fst i) m -> filter_block w m (t :: r) = t :: filter_block w (f_id t :: m) r.
Proof.
  intros Hi Hm. cbn [filter_block].
  assert (E : spends_matched m t = true).
  { unfold spends_matched. apply existsb_exists. exists i. split; [exact Hi|]. apply existsb_exists. exists (fst i). split; [exact Hm | apply Z.eqb_refl]. }
  rewrite E, orb_true_r. reflexivity.
Qed.
