(** C03 — proofs about [Model/Outbound.v]: per-id lifetime scanner and its invariant. *)
Require Import LdkV.Prim.U64 LdkV.Gen.ConstsC03 LdkV.Model.Outbound.
Open Scope Z_scope.

(** * association lists *)
Lemma get_ins_eq {A} k (v : A) m : get k (ins k v m) = Some v.
Proof.
  induction m as [|[k' v'] t IH]; cbn [ins get].
  - rewrite Z.eqb_refl. reflexivity.
  - destruct (Z.ltb_spec k k'); cbn [get].
    + rewrite Z.eqb_refl. reflexivity.
    + destruct (Z.eqb_spec k k'); cbn [get].
      * rewrite Z.eqb_refl. reflexivity.
      * destruct (Z.eqb_spec k k'); [contradiction|]. exact IH.
Qed.

Lemma get_ins_neq {A} k k0 (v : A) m : k0 <> k -> get k0 (ins k v m) = get k0 m.
Proof.
  intros Hne. induction m as [|[k' v'] t IH]; cbn [ins get].
  - destruct (Z.eqb_spec k0 k); [contradiction|reflexivity].
  - destruct (Z.ltb_spec k k'); cbn [get].
    + destruct (Z.eqb_spec k0 k); [contradiction|reflexivity].
    + destruct (Z.eqb_spec k k'); cbn [get].
      * subst k'. destruct (Z.eqb_spec k0 k); [contradiction|reflexivity].
      * destruct (Z.eqb_spec k0 k'); [reflexivity|exact IH].
Qed.

Lemma get_del_eq {A} k (m : list (Z * A)) : get k (del k m) = None.
Proof.
  induction m as [|[k' v'] t IH]; cbn [del get]; [reflexivity|].
  destruct (Z.eqb_spec k k'); [exact IH|]. cbn [get].
  destruct (Z.eqb_spec k k'); [contradiction|exact IH].
Qed.

Lemma get_del_neq {A} k k0 (m : list (Z * A)) : k0 <> k -> get k0 (del k m) = get k0 m.
Proof.
  intros Hne. induction m as [|[k' v'] t IH]; cbn [del get]; [reflexivity|].
  destruct (Z.eqb_spec k k').
  - subst k'. destruct (Z.eqb_spec k0 k); [contradiction|exact IH].
  - cbn [get]. destruct (Z.eqb_spec k0 k'); [reflexivity|exact IH].
Qed.

Lemma get_set_eq {A} k (o : option A) m : get k (set k o m) = o.
Proof. destruct o; cbn [set]; [apply get_ins_eq|apply get_del_eq]. Qed.

Lemma get_set_neq {A} k k0 (o : option A) m : k0 <> k -> get k0 (set k o m) = get k0 m.
Proof. intros H. destruct o; cbn [set]; [apply get_ins_neq|apply get_del_neq]; exact H. Qed.

(** * the per-id lifetime scanner

    It reads the output stream of a run and, for one payment id, tracks whether the map currently
    holds an entry ([sc_present]: set by a creation, cleared by [PaymentFailed] and by the two silent
    removals [OGone]), whether a terminal event was emitted since the last creation ([sc_seen]) and
    whether [claim_htlc] found the entry since the last creation ([sc_claimed]).
    It rejects ([None]): a creation while an entry is present; a terminal event, a claim hit or a
    removal while no entry is present; a second terminal event within one lifetime; a
    [PaymentFailed] after a claim hit the entry. *)
Inductive seen : Type := SNone | SSent | SFailed.
Record scan : Type := { sc_present : bool; sc_seen : seen; sc_claimed : bool }.

Definition scan0 : scan := {| sc_present := false; sc_seen := SNone; sc_claimed := false |}.

Definition scan_step (id : Z) (st : option scan) (o : out) : option scan :=
  match st with
  | None => None
  | Some s =>
      match o with
      | OCreated i =>
          if i =? id then
            if sc_present s then None
            else Some {| sc_present := true; sc_seen := SNone; sc_claimed := false |}
          else st
      | OClaimHit i =>
          if i =? id then
            if sc_present s then Some {| sc_present := true; sc_seen := sc_seen s; sc_claimed := true |}
            else None
          else st
      | OGone i _ =>
          if i =? id then
            if sc_present s then Some {| sc_present := false; sc_seen := sc_seen s; sc_claimed := sc_claimed s |}
            else None
          else st
      | OEv (EvSent i _ _ _) =>
          if i =? id then
            if sc_present s then
              match sc_seen s with
              | SNone => Some {| sc_present := true; sc_seen := SSent; sc_claimed := sc_claimed s |}
              | _ => None
              end
            else None
          else st
      | OEv (EvFailed i _ _) =>
          if i =? id then
            if sc_present s && negb (sc_claimed s) then
              match sc_seen s with
              | SNone => Some {| sc_present := false; sc_seen := SFailed; sc_claimed := false |}
              | _ => None
              end
            else None
          else st
      | _ => st
      end
  end.

Definition scan_list (id : Z) (st : option scan) (outs : list out) : option scan :=
  fold_left (scan_step id) outs st.

Lemma scan_list_app id st a b : scan_list id st (a ++ b) = scan_list id (scan_list id st a) b.
Proof. unfold scan_list. apply fold_left_app. Qed.

Lemma scan_list_none id outs : scan_list id None outs = None.
Proof. induction outs as [|o t IH]; [reflexivity|exact IH]. Qed.

(** the id an output is about *)
Definition out_id (o : out) : option Z :=
  match o with
  | OEv (EvSent i _ _ _) | OEv (EvFailed i _ _) | OEv (EvPathOk i _) | OEv (EvPathFailed i _ _ _)
  | OEv (EvProbeOk i _) | OEv (EvProbeFailed i _) => Some i
  | OCreated i | OClaimHit i | OGone i _ => Some i
  | ONew _ i _ _ _ _ => Some i
  | ORes _ | OPanic => None
  end.

Definition only_about (id : Z) (outs : list out) : Prop :=
  forall o, In o outs -> out_id o = Some id \/ out_id o = None.

Lemma scan_step_other id id' s o :
  id' <> id -> (out_id o = Some id' \/ out_id o = None) -> scan_step id (Some s) o = Some s.
Proof.
  intros Hne Ho. destruct o as [e| i | i | sp i h a f r | r | i w |]; cbn [scan_step]; try reflexivity.
  - destruct e; cbn [out_id] in Ho; try reflexivity;
      (destruct Ho as [Ho|Ho]; [injection Ho as ->|discriminate]);
      (destruct (Z.eqb_spec id' id); [contradiction|reflexivity]).
  - cbn [out_id] in Ho. destruct Ho as [Ho|Ho]; [injection Ho as ->|discriminate].
    destruct (Z.eqb_spec id' id); [contradiction|reflexivity].
  - cbn [out_id] in Ho. destruct Ho as [Ho|Ho]; [injection Ho as ->|discriminate].
    destruct (Z.eqb_spec id' id); [contradiction|reflexivity].
  - cbn [out_id] in Ho. destruct Ho as [Ho|Ho]; [injection Ho as ->|discriminate].
    destruct (Z.eqb_spec id' id); [contradiction|reflexivity].
Qed.

Lemma scan_list_other id id' s outs :
  id' <> id -> only_about id' outs -> scan_list id (Some s) outs = Some s.
Proof.
  intros Hne. induction outs as [|o t IH]; intros Ha; [reflexivity|].
  cbn [scan_list fold_left]. rewrite (scan_step_other id id' s o Hne).
  - apply IH. intros o' Ho'. apply Ha. right. exact Ho'.
  - apply Ha. left. reflexivity.
Qed.

(** outputs the scanner ignores *)
Definition neutral (o : out) : bool :=
  match o with
  | OEv (EvSent _ _ _ _) | OEv (EvFailed _ _ _) | OCreated _ | OClaimHit _ | OGone _ _ => false
  | _ => true
  end.

Lemma scan_step_neutral id st o : neutral o = true -> scan_step id st o = st.
Proof.
  destruct st as [s|]; [|reflexivity].
  destruct o as [e| | | | | |]; try discriminate; try reflexivity.
  destruct e; try discriminate; reflexivity.
Qed.

Lemma scan_list_neutral id st outs : forallb neutral outs = true -> scan_list id st outs = st.
Proof.
  revert st. induction outs as [|o t IH]; intros st H; [reflexivity|].
  cbn [forallb] in H. apply andb_true_iff in H as [Ho Ht].
  cbn [scan_list fold_left]. rewrite scan_step_neutral by exact Ho. apply IH. exact Ht.
Qed.

(** * the invariant linking an entry and the scanner state *)
Definition live_entry (e : option payment) : Prop :=
  exists p, e = Some p /\ is_fulfilled p = false.

Definition InvE (e : option payment) (s : scan) : Prop :=
  (sc_seen s <> SNone \/ sc_claimed s = true -> ~ live_entry e) /\
  (sc_present s = true -> e <> None) /\
  (sc_present s = false -> e = None).

(** a transition on the entry of [id] is [good] when the scanner accepts its outputs and the
    invariant is re-established, and it talks about [id] only *)
Definition good (id : Z) (t : etrans) : Prop :=
  forall c e s, InvE e s ->
    only_about id (snd (t c e)) /\
    exists s', scan_list id (Some s) (snd (t c e)) = Some s' /\ InvE (fst (t c e)) s'.

Lemma InvE_live_facts e s p :
  InvE e s -> e = Some p -> is_fulfilled p = false ->
  sc_present s = true /\ sc_seen s = SNone /\ sc_claimed s = false.
Proof.
  intros (H1 & H2 & H3) He Hf. subst e.
  assert (Hl : live_entry (Some p)) by (exists p; split; [reflexivity|exact Hf]).
  repeat split.
  - destruct (sc_present s) eqn:E; [reflexivity|]. specialize (H3 eq_refl). discriminate.
  - destruct (sc_seen s) eqn:E; [reflexivity| |]; exfalso; apply H1; try exact Hl; left; discriminate.
  - destruct (sc_claimed s) eqn:E; [|reflexivity]. exfalso. apply H1; [right; reflexivity|exact Hl].
Qed.

Lemma InvE_some_live e s p : InvE e s -> e = Some p -> sc_present s = true.
Proof.
  intros (_ & _ & H3) He. destruct (sc_present s) eqn:E; [reflexivity|]. rewrite (H3 eq_refl) in He. discriminate.
Qed.

(** the invariant only depends on absent / live / fulfilled *)
Lemma InvE_live_to_live s p p' :
  InvE (Some p) s -> is_fulfilled p = false -> InvE (Some p') s.
Proof.
  intros H Hf. destruct (InvE_live_facts _ _ _ H eq_refl Hf) as (Hl & Hs & Hc).
  split; [|split].
  - intros [Hx|Hx]; [rewrite Hs in Hx; contradiction|rewrite Hc in Hx; discriminate].
  - intros _. discriminate.
  - intros Hx. rewrite Hl in Hx. discriminate.
Qed.

Lemma InvE_fulfilled s p : sc_present s = true -> is_fulfilled p = true -> InvE (Some p) s.
Proof.
  intros Hl Hf. split; [|split].
  - intros _ [q [Hq Hq']]. injection Hq as <-. rewrite Hf in Hq'. discriminate.
  - intros _. discriminate.
  - intros Hx. rewrite Hl in Hx. discriminate.
Qed.

Lemma InvE_none s : sc_present s = false -> InvE None s.
Proof.
  intros Hp. split; [|split].
  - intros _ [q [Hq _]]. discriminate.
  - intros Hx. rewrite Hp in Hx. discriminate.
  - reflexivity.
Qed.

Lemma InvE_none_present e s : InvE e s -> e = None -> sc_present s = false.
Proof.
  intros (_ & H2 & _) He. destruct (sc_present s) eqn:E; [|reflexivity]. exfalso. apply (H2 eq_refl). exact He.
Qed.

Lemma not_live_fulfilled p : is_fulfilled p = true -> ~ live_entry (Some p).
Proof. intros Hf [q [Hq Hq']]. injection Hq as <-. rewrite Hf in Hq'. discriminate. Qed.

Ltac oa_tac :=
  let o := fresh "o" in let Ho := fresh "Ho" in
  intros o Ho; cbn [In] in Ho;
  repeat (destruct Ho as [Ho|Ho]; [subst o; cbn [out_id]; auto|]); try contradiction.

(** ** abandon *)
Lemma is_nil_true {A} (l : list A) : is_nil l = true -> l = [].
Proof. destruct l; [reflexivity|discriminate]. Qed.

Lemma good_abandon id reason : good id (abandon_t id reason).
Proof.
  intros c e s HI. unfold abandon_t. destruct e as [p|]; cbn [fst snd].
  - pose proof (InvE_some_live _ _ _ HI eq_refl) as Hlive.
    destruct p as [r a hp parts h pa pf tot rf|parts h t tot f|parts h r tot f|n r]; cbn [mark_abandoned].
    + (* Retryable *)
      destruct (InvE_live_facts _ _ _ HI eq_refl eq_refl) as (Hl & Hs & Hc).
      destruct (is_nil parts) eqn:En; cbn [fst snd].
      * split; [oa_tac|]. eexists. split.
        { unfold scan_list; cbn [fold_left scan_step]. rewrite Z.eqb_refl, Hl, Hc, Hs. cbn [andb negb]. reflexivity. }
        apply InvE_none; reflexivity.
      * split; [oa_tac|]. eexists. split; [reflexivity|].
        eapply InvE_live_to_live; [exact HI|reflexivity].
    + split; [oa_tac|]. eexists. split; [reflexivity|exact HI].
    + (* Abandoned *)
      destruct (InvE_live_facts _ _ _ HI eq_refl eq_refl) as (Hl & Hs & Hc).
      destruct (is_nil parts) eqn:En; cbn [fst snd].
      * split; [oa_tac|]. eexists. split.
        { unfold scan_list; cbn [fold_left scan_step]. rewrite Z.eqb_refl, Hl, Hc, Hs. cbn [andb negb]. reflexivity. }
        apply InvE_none; reflexivity.
      * split; [oa_tac|]. eexists. split; [reflexivity|exact HI].
    + (* AwaitingInvoice *)
      destruct (InvE_live_facts _ _ _ HI eq_refl eq_refl) as (Hl & Hs & Hc).
      cbn [fst snd]. split; [oa_tac|]. eexists. split.
      { unfold scan_list; cbn [fold_left scan_step]. rewrite Z.eqb_refl, Hl, Hc, Hs. cbn [andb negb]. reflexivity. }
      apply InvE_none; reflexivity.
  - split; [oa_tac|]. eexists. split; [reflexivity|exact HI].
Qed.

(** ** helpers *)
Lemma pm_remove_fulfilled p sp a f : is_fulfilled (fst (pm_remove p sp a f)) = is_fulfilled p.
Proof. destruct p; cbn [pm_remove]; try destruct (mem sp parts); reflexivity. Qed.

Lemma pm_insert_fulfilled p sp a f : is_fulfilled (fst (pm_insert p sp a f)) = is_fulfilled p.
Proof. destruct p; cbn [pm_insert]; try destruct (mem sp parts); reflexivity. Qed.

Lemma pm_remove_awaiting p sp a f : is_awaiting (fst (pm_remove p sp a f)) = is_awaiting p.
Proof. destruct p; cbn [pm_remove]; try destruct (mem sp parts); reflexivity. Qed.

Lemma pm_insert_awaiting p sp a f : is_awaiting (fst (pm_insert p sp a f)) = is_awaiting p.
Proof. destruct p; cbn [pm_insert]; try destruct (mem sp parts); reflexivity. Qed.

Lemma InvE_created p : is_fulfilled p = false ->
  InvE (Some p) {| sc_present := true; sc_seen := SNone; sc_claimed := false |}.
Proof.
  intros _. split; [|split]; cbn [sc_seen sc_claimed sc_present];
    [intros [H|H]; [contradiction|discriminate]|discriminate|discriminate].
Qed.

Ltac scan_go :=
  repeat (cbv beta iota delta [scan_list fold_left scan_step app];
          cbn [sc_present sc_seen sc_claimed andb negb];
          rewrite ?Z.eqb_refl;
          repeat match goal with
                 | H : sc_present _ = _ |- _ => rewrite H
                 | H : sc_seen _ = _ |- _ => rewrite H
                 | H : sc_claimed _ = _ |- _ => rewrite H
                 end);
  reflexivity.

Ltac fin_inv HI :=
  first [ exact HI
        | (apply InvE_none; cbn [sc_present]; reflexivity)
        | (eapply InvE_live_to_live; [exact HI|reflexivity])
        | (apply InvE_fulfilled; [cbn [sc_present]; first [reflexivity|assumption]|reflexivity]) ].

Ltac leaf HI :=
  cbn [fst snd app]; split; [solve [oa_tac]|]; eexists; split; [scan_go|fin_inv HI].

Ltac split_ifs :=
  repeat match goal with
         | |- context [if ?b then _ else _] => destruct b eqn:?
         end.

(** ** claim_htlc *)
Lemma good_claim id pre sp amt fee oc : good id (claim_t id pre sp amt fee oc).
Proof.
  intros c e s HI. unfold claim_t. destruct e as [p|]; [|leaf HI].
  pose proof (InvE_some_live _ _ _ HI eq_refl) as Hlive.
  destruct p as [r a hp parts h pa pf tot rf|parts h t tot f|parts h r tot f|n r].
  - destruct (InvE_live_facts _ _ _ HI eq_refl eq_refl) as (Hl & Hs & Hc).
    cbn [is_fulfilled mark_fulfilled parts_of payment_hash total_msat get_pending_fee pm_remove].
    split_ifs; leaf HI.
  - cbn [is_fulfilled pm_remove]. split_ifs; leaf HI.
  - destruct (InvE_live_facts _ _ _ HI eq_refl eq_refl) as (Hl & Hs & Hc).
    cbn [is_fulfilled mark_fulfilled parts_of payment_hash total_msat get_pending_fee pm_remove].
    split_ifs; leaf HI.
  - leaf HI.
Qed.

(** ** finalize_claims *)
Lemma good_finalize id sp : good id (finalize_t id sp).
Proof.
  intros c e s HI. unfold finalize_t. destruct e as [p|]; [|leaf HI].
  pose proof (InvE_some_live _ _ _ HI eq_refl) as Hlive.
  destruct p; cbn [is_fulfilled pm_remove]; split_ifs; leaf HI.
Qed.

(** ** fail_htlc *)
Ltac crush HI := repeat (cbn -[Z.add Z.sub Z.mul Z.div Z.ltb Z.leb Z.eqb sat_add sat_sub]; split_ifs); leaf HI.

Lemma good_fail id sp amt fee perm probe : good id (fail_t id sp amt fee perm probe).
Proof.
  intros c e s HI. unfold fail_t. destruct e as [p|]; [|leaf HI].
  pose proof (InvE_some_live _ _ _ HI eq_refl) as Hlive.
  destruct p as [r a hp parts h pa pf tot rf|parts h t tot f|parts h r tot f|n r].
  - destruct (InvE_live_facts _ _ _ HI eq_refl eq_refl) as (Hl & Hs & Hc).
    cbn [pm_remove]. destruct (mem sp parts) eqn:Em; [|leaf HI].
    cbn [negb is_fulfilled].
    destruct (probe || negb (is_auto_retryable_now (Retryable r a hp (rm sp parts) h (pa - amt)
               (option_map (fun f : Z => f - fee) pf) tot (option_map (fun m : Z => sat_add 64 m fee) rf))) || perm) eqn:Eab;
      cbn [mark_abandoned parts_of]; destruct (is_nil (rm sp parts)) eqn:En; destruct probe, perm; leaf HI.
  - cbn [pm_remove]. destruct (mem sp parts) eqn:Em; cbn [negb is_fulfilled]; leaf HI.
  - destruct (InvE_live_facts _ _ _ HI eq_refl eq_refl) as (Hl & Hs & Hc).
    cbn [pm_remove]. destruct (mem sp parts) eqn:Em; [|leaf HI].
    destruct probe, perm;
      cbn [negb is_fulfilled is_auto_retryable_now mark_abandoned parts_of orb];
      destruct (is_nil (rm sp parts)) eqn:En; leaf HI.
  - leaf HI.
Qed.

(** ** remove_stale_payments *)
Lemma good_tick q id : good id (tick_t q id).
Proof.
  intros c e s HI. unfold tick_t. destruct e as [p|]; [|leaf HI].
  pose proof (InvE_some_live _ _ _ HI eq_refl) as Hlive.
  destruct p as [r a hp parts h pa pf tot rf|parts h t tot f|parts h r tot f|n r].
  - leaf HI.
  - split_ifs; leaf HI.
  - leaf HI.
  - destruct (InvE_live_facts _ _ _ HI eq_refl eq_refl) as (Hl & Hs & Hc).
    split_ifs; leaf HI.
Qed.

(** ** insert_from_monitor_on_startup *)
Lemma good_startup id hash sp amt fee : good id (startup_t id hash sp amt fee).
Proof.
  intros c e s HI. unfold startup_t. destruct e as [p|].
  - pose proof (InvE_some_live _ _ _ HI eq_refl) as Hlive.
    destruct p as [r a hp parts h pa pf tot rf|parts h t tot f|parts h r tot f|n r];
      cbn [pm_insert]; split_ifs; leaf HI.
  - pose proof (InvE_none_present _ _ HI eq_refl) as Hp.
    cbn [fst snd]. split; [oa_tac|]. eexists. split; [scan_go|]. apply InvE_created. reflexivity.
Qed.

(** ** the retain pass of check_retry_payments *)
Lemma good_retain id : good id (retain_t id).
Proof.
  intros c e s HI. unfold retain_t. destruct e as [p|]; [|leaf HI].
  pose proof (InvE_some_live _ _ _ HI eq_refl) as Hlive.
  destruct p as [r a hp parts h pa pf tot rf|parts h t tot f|parts h r tot f|n r].
  - destruct (InvE_live_facts _ _ _ HI eq_refl eq_refl) as (Hl & Hs & Hc).
    cbn [parts_of is_awaiting mark_abandoned negb andb]. split_ifs; leaf HI.
  - cbn [parts_of is_awaiting mark_abandoned is_auto_retryable_now negb andb]. split_ifs; leaf HI.
  - destruct (InvE_live_facts _ _ _ HI eq_refl eq_refl) as (Hl & Hs & Hc).
    cbn [parts_of is_awaiting mark_abandoned is_auto_retryable_now negb andb]. split_ifs; leaf HI.
  - cbn [parts_of is_awaiting mark_abandoned is_auto_retryable_now negb andb is_nil]. leaf HI.
Qed.

(** ** add_new_awaiting_invoice *)
Lemma good_await id ticks retry : good id (await_t id ticks retry).
Proof.
  intros c e s HI. unfold await_t. destruct e as [p|]; [leaf HI|].
  pose proof (InvE_none_present _ _ HI eq_refl) as Hp.
  cbn [fst snd]. split; [oa_tac|]. eexists. split; [scan_go|]. apply InvE_created. reflexivity.
Qed.

(** ** routes: insert_all / drop_unsent are quiet *)
Definition quiet (id : Z) (outs : list out) : Prop :=
  forallb neutral outs = true /\ only_about id outs.

Lemma only_about_app id a b : only_about id a -> only_about id b -> only_about id (a ++ b).
Proof. intros Ha Hb o Ho. apply in_app_or in Ho as [Ho|Ho]; [apply Ha|apply Hb]; exact Ho. Qed.

Lemma only_about_cons id o t : (out_id o = Some id \/ out_id o = None) -> only_about id t -> only_about id (o :: t).
Proof. intros Ho Ht o' [<-|Hi]; [exact Ho|apply Ht; exact Hi]. Qed.

Lemma only_about_nil id : only_about id [].
Proof. intros o []. Qed.

Lemma quiet_nil id : quiet id [].
Proof. split; [reflexivity|apply only_about_nil]. Qed.

Lemma quiet_app id a b : quiet id a -> quiet id b -> quiet id (a ++ b).
Proof.
  intros [Ha1 Ha2] [Hb1 Hb2]. split; [|apply only_about_app; assumption].
  rewrite forallb_app, Ha1, Hb1. reflexivity.
Qed.

Lemma scan_quiet id st outs : quiet id outs -> scan_list id st outs = st.
Proof. intros [H _]. apply scan_list_neutral. exact H. Qed.

Lemma insert_all_spec id h p sp paths :
  quiet id (snd (insert_all id h p sp paths)) /\
  is_fulfilled (fst (insert_all id h p sp paths)) = is_fulfilled p.
Proof.
  revert p sp. induction paths as [|x t IH]; intros p sp; cbn [insert_all].
  - split; [apply quiet_nil|reflexivity].
  - specialize (IH (fst (pm_insert p sp (pr_amt x) (pr_fee x))) (sp + 1)).
    destruct (insert_all id h (fst (pm_insert p sp (pr_amt x) (pr_fee x))) (sp + 1) t) as [p2 outs].
    cbn [fst snd] in *. destruct IH as [[Hq1 Hq2] Hf]. split.
    + split; [cbn [forallb neutral]; exact Hq1|].
      apply only_about_cons; [left; reflexivity|exact Hq2].
    + rewrite Hf. apply pm_insert_fulfilled.
Qed.

Lemma drop_unsent_spec id p sp paths :
  quiet id (snd (drop_unsent id p sp paths)) /\
  is_fulfilled (fst (drop_unsent id p sp paths)) = is_fulfilled p.
Proof.
  revert p sp. induction paths as [|x t IH]; intros p sp; cbn [drop_unsent].
  - split; [apply quiet_nil|reflexivity].
  - destruct (unsent (pr_res x)).
    + specialize (IH (fst (pm_remove p sp (pr_amt x) (pr_fee x))) (sp + 1)).
      destruct (drop_unsent id (fst (pm_remove p sp (pr_amt x) (pr_fee x))) (sp + 1) t) as [p2 outs].
      cbn [fst snd] in *. destruct IH as [[Hq1 Hq2] Hf]. split.
      * split; [cbn [forallb neutral]; exact Hq1|].
        apply only_about_cons; [left; reflexivity|exact Hq2].
      * rewrite Hf. apply pm_remove_fulfilled.
    + apply IH.
Qed.

Lemma inc_attempts_fulfilled p : is_fulfilled (inc_attempts p) = is_fulfilled p.
Proof. destruct p; reflexivity. Qed.

(** a transition result: scanner accepts and invariant re-established *)
Definition accepted (id : Z) (s : scan) (e' : option payment) (outs : list out) : Prop :=
  only_about id outs /\ exists s', scan_list id (Some s) outs = Some s' /\ InvE e' s'.

Lemma accepted_quiet_prefix id s e' pre outs :
  quiet id pre -> accepted id s e' outs -> accepted id s e' (pre ++ outs).
Proof.
  intros Hq [Ha [s' [Hs Hi]]]. split.
  - apply only_about_app; [apply Hq|exact Ha].
  - exists s'. split; [|exact Hi]. rewrite scan_list_app. rewrite (scan_quiet id (Some s) pre Hq). exact Hs.
Qed.

Lemma accepted_quiet_only id s e : InvE e s -> forall outs, quiet id outs -> accepted id s e outs.
Proof.
  intros Hi outs Hq. split; [apply Hq|]. exists s. split; [apply scan_quiet; exact Hq|exact Hi].
Qed.

(** ** find_route_and_send_payment *)
Lemma after_pay_accepted id s (p : payment) sp0 paths fv mf
      (cont : option payment -> Z -> option Z -> option payment * list out * list ans) rest :
  InvE (Some p) s -> is_fulfilled p = false ->
  (forall p1 fv1 mf1, is_fulfilled p1 = false ->
     accepted id s (fst (fst (cont (Some p1) fv1 mf1))) (snd (fst (cont (Some p1) fv1 mf1)))) ->
  let r := after_pay cont (fun e1 => (e1, [], rest)) id p sp0 paths fv mf in
  accepted id s (fst (fst (snd r))) (fst r ++ snd (fst (snd r))).
Proof.
  intros HI Hf Hc. unfold after_pay.
  pose proof (drop_unsent_spec id p sp0 paths) as [Hq Hd].
  destruct (drop_unsent id p sp0 paths) as [p1 evs]. cbn [fst snd] in Hq, Hd.
  assert (Hdone : accepted id s (Some p) ([] ++ [])) by (apply accepted_quiet_only; [exact HI|apply quiet_nil]).
  destruct (existsb (fun x => negb (is_sok (pr_res x))) paths && existsb (fun x => negb (unsent (pr_res x))) paths).
  - destruct (existsb (fun x => unsent (pr_res x)) paths); cbn [fst snd]; [|exact Hdone].
    apply accepted_quiet_prefix; [exact Hq|]. apply Hc. rewrite Hd. exact Hf.
  - destruct (existsb (fun x => negb (is_sok (pr_res x))) paths); cbn [fst snd]; [|exact Hdone].
    apply accepted_quiet_prefix; [exact Hq|]. apply Hc. rewrite Hd. exact Hf.
Qed.

Lemma good_accepted id t : good id t -> forall c e s, InvE e s -> accepted id s (fst (t c e)) (snd (t c e)).
Proof. intros Hg c e s Hi. exact (Hg c e s Hi). Qed.

Lemma frs_accepted id : forall answers e c fv mf s, InvE e s ->
  accepted id s (fst (fst (frs answers id e c fv mf))) (snd (fst (frs answers id e c fv mf))).
Proof.
  induction answers as [|a rest IH]; intros e c fv mf s HI.
  - cbn [frs fst snd]. apply good_accepted; [apply good_abandon|exact HI].
  - destruct a as [|k fees over res].
    + cbn [frs fst snd]. apply good_accepted; [apply good_abandon|exact HI].
    + cbn [frs]. destruct e as [p|]; [|cbn [fst snd]; apply accepted_quiet_only; [exact HI|apply quiet_nil]].
      destruct p as [r a hp parts h pa pf tot rf|parts h t tot f|parts h r tot f|n r];
        try (cbn [fst snd]; apply accepted_quiet_only; [exact HI|apply quiet_nil]).
      destruct (tot * 110 / 100 <? sum (map pr_amt (paths_of fv k fees over res)) + pa).
      { cbn [fst snd]. apply good_accepted; [apply good_abandon|exact HI]. }
      destruct (negb (is_retryable_now (Retryable r a hp parts h pa pf tot rf))).
      { cbn [fst snd]. apply good_accepted; [apply good_abandon|exact HI]. }
      pose proof (insert_all_spec id h (Retryable r a hp parts h pa pf tot rf) c (paths_of fv k fees over res)) as [Hq Hfi].
      destruct (insert_all id h (Retryable r a hp parts h pa pf tot rf) c (paths_of fv k fees over res)) as [p1 news].
      cbn [fst snd] in Hq, Hfi.
      assert (Hlive2 : is_fulfilled (inc_attempts p1) = false) by (rewrite inc_attempts_fulfilled; exact Hfi).
      assert (HI2 : InvE (Some (inc_attempts p1)) s) by (eapply InvE_live_to_live; [exact HI|reflexivity]).
      pose proof (after_pay_accepted id s (inc_attempts p1) c (paths_of fv k fees over res) fv mf
                    (fun e1 fv1 mf1 => frs rest id e1 (c + Z.of_nat (List.length (paths_of fv k fees over res))) fv1 mf1)
                    rest HI2 Hlive2) as Hap.
      cbv zeta in Hap.
      destruct (after_pay _ _ id (inc_attempts p1) c (paths_of fv k fees over res) fv mf) as [evs [[e' outs] rest']].
      cbn [fst snd] in *.
      apply accepted_quiet_prefix; [exact Hq|]. apply Hap.
      intros p2 fv1 mf1 Hf2. apply IH. eapply InvE_live_to_live; [exact HI|reflexivity].
Qed.

(** chaining two accepted output blocks *)
Lemma accepted_chain id s e1 o1 e2 o2 :
  accepted id s e1 o1 -> (forall s1, InvE e1 s1 -> accepted id s1 e2 o2) -> accepted id s e2 (o1 ++ o2).
Proof.
  intros [Ha1 [s1 [Hs1 Hi1]]] H2. destruct (H2 s1 Hi1) as [Ha2 [s2 [Hs2 Hi2]]]. split.
  - apply only_about_app; assumption.
  - exists s2. split; [|exact Hi2]. rewrite scan_list_app, Hs1. exact Hs2.
Qed.

Lemma retry_loop_accepted id : forall fuel answers e c s, InvE e s ->
  accepted id s (fst (retry_loop fuel answers id e c)) (snd (retry_loop fuel answers id e c)).
Proof.
  induction fuel as [|f IH]; intros answers e c s HI; cbn [retry_loop].
  - cbn [fst snd]. apply accepted_quiet_only; [exact HI|apply quiet_nil].
  - destruct e as [p|]; [|cbn [fst snd]; apply accepted_quiet_only; [exact HI|apply quiet_nil]].
    destruct p as [r a hp parts h pa pf tot rf|parts h t tot f0|parts h r tot f0|n r];
      try (cbn [fst snd]; apply accepted_quiet_only; [exact HI|apply quiet_nil]).
    destruct (is_auto_retryable_now (Retryable r a hp parts h pa pf tot rf) && (pa <? tot));
      [|cbn [fst snd]; apply accepted_quiet_only; [exact HI|apply quiet_nil]].
    pose proof (frs_accepted id answers (Some (Retryable r a hp parts h pa pf tot rf)) c (tot - pa) rf s HI) as H1.
    destruct (frs answers id (Some (Retryable r a hp parts h pa pf tot rf)) c (tot - pa) rf) as [[e1 outs1] rest].
    cbn [fst snd] in H1.
    pose proof (fun s1 H => IH rest e1 (c + count_new outs1) s1 H) as H2.
    destruct (retry_loop f rest id e1 (c + count_new outs1)) as [e2 outs2]. cbn [fst snd] in *.
    eapply accepted_chain; [exact H1|exact H2].
Qed.

Lemma good_retry answers id : good id (retry_t answers id).
Proof. intros c e s HI. unfold retry_t. apply retry_loop_accepted. exact HI. Qed.

(** ** add_new_pending_payment, send_payment *)
Lemma good_add id hash retry paths mf : good id (add_t id hash retry paths mf).
Proof.
  intros c e s HI. unfold add_t. destruct e as [p|]; [leaf HI|].
  pose proof (InvE_none_present _ _ HI eq_refl) as Hp.
  set (ps := map (fun af : Z * Z => {| pr_amt := fst af; pr_fee := snd af; pr_res := SOk |}) paths).
  set (p0 := Retryable retry 0 true [] hash 0 (Some 0) (sum (map pr_amt ps)) mf).
  pose proof (insert_all_spec id hash p0 c ps) as [Hq Hf].
  destruct (insert_all id hash p0 c ps) as [p1 news]. cbn [fst snd] in *.
  split.
  - apply only_about_cons; [left; reflexivity|]. apply only_about_cons; [right; reflexivity|apply Hq].
  - eexists. split.
    + unfold scan_list. cbn [fold_left scan_step]. rewrite Z.eqb_refl, Hp.
      change (fold_left (scan_step id) news ?x) with (scan_list id x news).
      apply scan_quiet. exact Hq.
    + apply InvE_created. rewrite Hf. reflexivity.
Qed.

Lemma good_send id hash retry amt mf answers : good id (send_t id hash retry amt mf answers).
Proof.
  intros c e s HI. unfold send_t.
  destruct answers as [|a rest]; [leaf HI|].
  destruct a as [|k fees over res]; [leaf HI|].
  destruct e as [p|]; [leaf HI|].
  pose proof (InvE_none_present _ _ HI eq_refl) as Hp.
  set (paths := paths_of amt k fees over res).
  set (p0 := Retryable (Some retry) 0 true [] hash 0 (Some 0) (sum (map pr_amt paths)) mf).
  pose proof (insert_all_spec id hash p0 c paths) as [Hq Hf].
  destruct (insert_all id hash p0 c paths) as [p1 news]. cbn [fst snd] in Hq, Hf.
  set (s1 := {| sc_present := true; sc_seen := SNone; sc_claimed := false |}).
  assert (HI1 : InvE (Some p1) s1) by (apply InvE_created; rewrite Hf; reflexivity).
  assert (Hl1 : is_fulfilled p1 = false) by (rewrite Hf; reflexivity).
  pose proof (after_pay_accepted id s1 p1 c paths amt mf
                (fun e1 fv1 mf1 => frs rest id e1 (c + Z.of_nat (List.length paths)) fv1 mf1) rest HI1 Hl1) as Hap.
  cbv zeta in Hap.
  destruct (after_pay _ _ id p1 c paths amt mf) as [evs [[e' outs] rest']]. cbn [fst snd] in *.
  assert (Hacc : accepted id s1 e' (news ++ evs ++ outs)).
  { apply accepted_quiet_prefix; [exact Hq|]. apply Hap. intros p2 fv1 mf1 Hf2. apply frs_accepted.
    eapply InvE_live_to_live; [exact HI1|exact Hl1]. }
  destruct Hacc as [Ha [s' [Hs Hi']]]. split.
  - apply only_about_cons; [left; reflexivity|]. apply only_about_cons; [right; reflexivity|exact Ha].
  - exists s'. split; [|exact Hi'].
    unfold scan_list. cbn [fold_left scan_step]. rewrite Z.eqb_refl, Hp. exact Hs.
Qed.

(** * lifting to states *)
Definition InvS (id : Z) (st : state) (s : scan) : Prop := InvE (get id (pm st)) s.

Lemma apply_e_inv id0 t st id s :
  good id0 t -> InvS id st s ->
  exists s', scan_list id (Some s) (snd (apply_e id0 t st)) = Some s' /\ InvS id (fst (apply_e id0 t st)) s'.
Proof.
  intros Hg HI. unfold apply_e, InvS in *.
  destruct (Z.eq_dec id id0) as [->|Hne].
  - destruct (Hg (ctr st) (get id0 (pm st)) s HI) as [_ [s' [Hs Hi]]].
    destruct (t (ctr st) (get id0 (pm st))) as [o outs]. cbn [fst snd pm] in *.
    exists s'. split; [exact Hs|]. rewrite get_set_eq. exact Hi.
  - assert (Hx : exists sx, InvE (get id0 (pm st)) sx).
    { destruct (get id0 (pm st)) as [p0|].
      - exists {| sc_present := true; sc_seen := SNone; sc_claimed := false |}.
        split; [|split]; cbn [sc_seen sc_claimed sc_present];
          [intros [H|H]; [contradiction|discriminate]|discriminate|discriminate].
      - exists scan0. apply InvE_none. reflexivity. }
    destruct Hx as [sx Hx].
    destruct (Hg (ctr st) (get id0 (pm st)) _ Hx) as [Ha _].
    destruct (t (ctr st) (get id0 (pm st))) as [o outs]. cbn [fst snd pm] in *.
    exists s. split.
    + apply (scan_list_other id id0); [congruence|exact Ha].
    + rewrite get_set_neq by exact Hne. exact HI.
Qed.

Lemma apply_each_inv ids (t : state -> Z -> etrans) id :
  (forall st0 i, good i (t st0 i)) ->
  forall st s, InvS id st s ->
  exists s', scan_list id (Some s) (snd (apply_each ids t st)) = Some s' /\ InvS id (fst (apply_each ids t st)) s'.
Proof.
  intros Hg. induction ids as [|i rest IH]; intros st s HI; cbn [apply_each].
  - exists s. split; [reflexivity|exact HI].
  - destruct (apply_e_inv i (t st i) st id s (Hg st i) HI) as [s1 [Hs1 Hi1]].
    destruct (apply_e i (t st i) st) as [st1 o1]. cbn [fst snd] in *.
    destruct (IH st1 s1 Hi1) as [s2 [Hs2 Hi2]].
    destruct (apply_each rest t st1) as [st2 o2]. cbn [fst snd] in *.
    exists s2. split; [|exact Hi2]. rewrite scan_list_app, Hs1. exact Hs2.
Qed.

Lemma with_htlc_inv st sp (f : hinfo -> state * list out) id s :
  InvS id st s ->
  (forall h, exists s', scan_list id (Some s) (snd (f h)) = Some s' /\ InvS id (fst (f h)) s') ->
  exists s', scan_list id (Some s) (snd (with_htlc st sp f)) = Some s' /\ InvS id (fst (with_htlc st sp f)) s'.
Proof.
  intros HI Hf. unfold with_htlc. destruct (get sp (htl st)) as [h|]; [apply Hf|].
  exists s. split; [reflexivity|exact HI].
Qed.

Lemma step_inv st o id s :
  InvS id st s ->
  exists s', scan_list id (Some s) (snd (step st o)) = Some s' /\ InvS id (fst (step st o)) s'.
Proof.
  intros HI. destruct o; cbn [step].
  - apply apply_e_inv; [apply good_add|exact HI].
  - apply apply_e_inv; [apply good_await|exact HI].
  - apply apply_e_inv; [apply good_send|exact HI].
  - destruct (apply_each_inv (keys (pm st)) (fun _ i => retry_t (answers_for i answers) i) id
                (fun _ i => good_retry _ i) st s HI) as [s1 [Hs1 Hi1]].
    destruct (apply_each (keys (pm st)) _ st) as [st1 o1]. cbn [fst snd] in *.
    destruct (apply_each_inv (keys (pm st1)) (fun _ i => retain_t i) id
                (fun _ i => good_retain i) st1 s1 Hi1) as [s2 [Hs2 Hi2]].
    destruct (apply_each (keys (pm st1)) _ st1) as [st2 o2]. cbn [fst snd] in *.
    exists s2. split; [|exact Hi2]. rewrite scan_list_app, Hs1. exact Hs2.
  - apply with_htlc_inv; [exact HI|]. intros h. apply apply_e_inv; [apply good_claim|exact HI].
  - (* finalize: fold over the sources *)
    assert (Hgen : forall acc0 : state * list out,
               forall s0, scan_list id (Some s) (snd acc0) = Some s0 -> InvS id (fst acc0) s0 ->
               exists s', scan_list id (Some s)
                            (snd (fold_left (fun acc sp => let '(s0, o0) := acc in
                                   let '(s1, o1) := with_htlc s0 sp (fun h => apply_e (h_id h) (finalize_t (h_id h) sp) s0) in
                                   (s1, o0 ++ o1)) sps acc0)) = Some s' /\
                          InvS id (fst (fold_left (fun acc sp => let '(s0, o0) := acc in
                                   let '(s1, o1) := with_htlc s0 sp (fun h => apply_e (h_id h) (finalize_t (h_id h) sp) s0) in
                                   (s1, o0 ++ o1)) sps acc0)) s').
    { induction sps as [|sp rest IH]; intros [st0 o0] s0 Hs0 Hi0; cbn [fold_left].
      - exists s0. split; assumption.
      - cbn [fst snd] in Hs0, Hi0.
        destruct (with_htlc_inv st0 sp (fun h => apply_e (h_id h) (finalize_t (h_id h) sp) st0) id s0 Hi0) as [s1 [Hs1 Hi1]].
        { intros h. apply apply_e_inv; [apply good_finalize|exact Hi0]. }
        destruct (with_htlc st0 sp _) as [st1 o1]. cbn [fst snd] in *.
        apply (IH (st1, o0 ++ o1) s1); cbn [fst snd]; [|exact Hi1].
        rewrite scan_list_app, Hs0. exact Hs1. }
    apply (Hgen (st, []) s); [reflexivity|exact HI].
  - apply with_htlc_inv; [exact HI|]. intros h. apply apply_e_inv; [apply good_fail|exact HI].
  - apply apply_e_inv; [apply good_abandon|exact HI].
  - apply (apply_each_inv (keys (pm st)) (fun s0 i => tick_t (evq s0) i) id); [|exact HI].
    intros st0 i. apply good_tick.
  - cbn [fst snd]. exists s. split; [reflexivity|exact HI].
  - apply with_htlc_inv; [exact HI|]. intros h. apply apply_e_inv; [apply good_startup|exact HI].
Qed.

(** the outputs of a run from any state whose entry for [id] satisfies the invariant are accepted *)
Lemma run_inv : forall ops st id s,
  InvS id st s ->
  exists s', scan_list id (Some s) (List.concat (snd (run st ops))) = Some s' /\ InvS id (fst (run st ops)) s'.
Proof.
  induction ops as [|o rest IH]; intros st id s HI; cbn [run].
  - exists s. split; [reflexivity|exact HI].
  - destruct (step_inv st o id s HI) as [s1 [Hs1 Hi1]].
    destruct (step st o) as [st1 outs]. cbn [fst snd] in *.
    destruct (IH st1 id s1 Hi1) as [s2 [Hs2 Hi2]].
    destruct (run st1 rest) as [st2 tr]. cbn [fst snd List.concat] in *.
    exists s2. split; [|exact Hi2]. rewrite scan_list_app, Hs1. exact Hs2.
Qed.

Lemma InvS_init id : InvS id init scan0.
Proof. unfold InvS. cbn. apply InvE_none. reflexivity. Qed.

Theorem lifetime_scan : forall ops id, scan_list id (Some scan0) (trace ops) <> None.
Proof.
  intros ops id. destruct (run_inv ops init id scan0 (InvS_init id)) as [s' [Hs _]].
  unfold trace. rewrite Hs. discriminate.
Qed.

(** * readable consequences of scanner acceptance *)
Definition is_sent (id : Z) (o : out) : bool :=
  match o with OEv (EvSent i _ _ _) => i =? id | _ => false end.
Definition is_failed (id : Z) (o : out) : bool :=
  match o with OEv (EvFailed i _ _) => i =? id | _ => false end.
Definition is_terminal (id : Z) (o : out) : bool := is_sent id o || is_failed id o.
Definition is_created (id : Z) (o : out) : bool :=
  match o with OCreated i => i =? id | _ => false end.
Definition is_claimhit (id : Z) (o : out) : bool :=
  match o with OClaimHit i => i =? id | _ => false end.
Definition is_gone (id : Z) (o : out) : bool :=
  match o with OGone i _ => i =? id | _ => false end.
(** the entry of [id] leaves the map *)
Definition is_removal (id : Z) (o : out) : bool := is_failed id o || is_gone id o.

Lemma scan_prefix id st a b : scan_list id st (a ++ b) <> None -> scan_list id st a <> None.
Proof.
  rewrite scan_list_app. intros H Hn. rewrite Hn, scan_list_none in H. apply H. reflexivity.
Qed.

Lemma scan_cons id st o t : scan_list id st (o :: t) = scan_list id (scan_step id st o) t.
Proof. reflexivity. Qed.

(** without a creation of [id]: the flags stay, and an absent entry stays absent *)
Lemma scan_step_flags id s o s' :
  scan_step id (Some s) o = Some s' -> is_created id o = false ->
  (sc_seen s <> SNone -> sc_seen s' <> SNone) /\ (sc_claimed s = true -> sc_claimed s' = true) /\
  (sc_present s = false -> sc_present s' = false).
Proof.
  intros H Hc. destruct o as [e|i|i|sp i h a f r|r|i w|]; cbn [scan_step is_created] in *.
  - destruct e; try (injection H as <-; auto).
    + destruct (id0 =? id); [|injection H as <-; auto].
      destruct (sc_present s); [|discriminate]. destruct (sc_seen s); try discriminate.
      injection H as <-. cbn. repeat split; intros; try discriminate; auto.
    + destruct (id0 =? id); [|injection H as <-; auto].
      destruct (sc_present s && negb (sc_claimed s)) eqn:E; [|discriminate].
      destruct (sc_seen s); try discriminate. injection H as <-. cbn.
      apply andb_true_iff in E as [_ E]. apply negb_true_iff in E.
      repeat split; intros; try discriminate; auto; congruence.
  - rewrite Hc in H. injection H as <-. auto.
  - destruct (i =? id); [|injection H as <-; auto].
    destruct (sc_present s) eqn:E; [|discriminate]. injection H as <-. cbn.
    repeat split; intros; try discriminate; auto.
  - injection H as <-. auto.
  - injection H as <-. auto.
  - destruct (i =? id); [|injection H as <-; auto].
    destruct (sc_present s) eqn:E; [|discriminate]. injection H as <-. cbn. auto.
  - injection H as <-. auto.
Qed.

Lemma scan_list_flags id : forall b s s',
  scan_list id (Some s) b = Some s' -> existsb (is_created id) b = false ->
  (sc_seen s <> SNone -> sc_seen s' <> SNone) /\ (sc_claimed s = true -> sc_claimed s' = true) /\
  (sc_present s = false -> sc_present s' = false).
Proof.
  induction b as [|o t IH]; intros s s' H Hc.
  - injection H as <-. auto.
  - cbn [existsb] in Hc. apply orb_false_iff in Hc as [Hc1 Hc2].
    rewrite scan_cons in H.
    destruct (scan_step id (Some s) o) as [s1|] eqn:E1.
    + destruct (scan_step_flags id s o s1 E1 Hc1) as (A & B & C).
      destruct (IH s1 s' H Hc2) as (A' & B' & C'). auto.
    + rewrite scan_list_none in H. discriminate.
Qed.

(** without a removal of [id]: a present entry stays present *)
Lemma scan_step_present id s o s' :
  scan_step id (Some s) o = Some s' -> is_removal id o = false ->
  sc_present s = true -> sc_present s' = true.
Proof.
  unfold is_removal. intros H Hc Hp.
  destruct o as [e|i|i|sp i h a f r|r|i w|]; cbn [scan_step is_failed is_gone orb] in *.
  - destruct e; try (injection H as <-; exact Hp).
    + destruct (id0 =? id); [|injection H as <-; exact Hp].
      rewrite Hp in H. destruct (sc_seen s); try discriminate. injection H as <-. reflexivity.
    + rewrite orb_false_r in Hc. rewrite Hc in H. injection H as <-. exact Hp.
  - destruct (i =? id); [|injection H as <-; exact Hp]. rewrite Hp in H. discriminate.
  - destruct (i =? id); [|injection H as <-; exact Hp]. rewrite Hp in H. injection H as <-. reflexivity.
  - injection H as <-. exact Hp.
  - injection H as <-. exact Hp.
  - rewrite Hc in H. injection H as <-. exact Hp.
  - injection H as <-. exact Hp.
Qed.

Lemma scan_list_present id : forall b s s',
  scan_list id (Some s) b = Some s' -> existsb (is_removal id) b = false ->
  sc_present s = true -> sc_present s' = true.
Proof.
  induction b as [|o t IH]; intros s s' H Hc Hp.
  - injection H as <-. exact Hp.
  - cbn [existsb] in Hc. apply orb_false_iff in Hc as [Hc1 Hc2]. rewrite scan_cons in H.
    destruct (scan_step id (Some s) o) as [s1|] eqn:E1.
    + apply (IH s1 s' H Hc2). apply (scan_step_present id s o s1 E1 Hc1 Hp).
    + rewrite scan_list_none in H. discriminate.
Qed.

Lemma scan_terminal_needs id s o :
  is_terminal id o = true -> scan_step id (Some s) o <> None ->
  sc_present s = true /\ sc_seen s = SNone /\
  exists s', scan_step id (Some s) o = Some s' /\ sc_seen s' <> SNone.
Proof.
  unfold is_terminal. intros Ht Hn. destruct o as [e| | | | | |]; try discriminate.
  destruct e; try discriminate; cbn [is_sent is_failed orb scan_step] in *.
  - rewrite orb_false_r in Ht. rewrite Ht in *.
    destruct (sc_present s); [|contradiction]. destruct (sc_seen s); try contradiction.
    repeat split; auto. eexists. split; [reflexivity|]. cbn. discriminate.
  - rewrite Ht in *.
    destruct (sc_present s && negb (sc_claimed s)) eqn:E; [|contradiction].
    destruct (sc_seen s); try contradiction. apply andb_true_iff in E as [E _].
    repeat split; auto. eexists. split; [reflexivity|]. cbn. discriminate.
Qed.

Lemma scan_failed_needs id s o :
  is_failed id o = true -> scan_step id (Some s) o <> None -> sc_claimed s = false.
Proof.
  intros Ht Hn. destruct o as [e| | | | | |]; try discriminate.
  destruct e; try discriminate; cbn [is_failed scan_step] in *. rewrite Ht in *.
  destruct (sc_present s && negb (sc_claimed s)) eqn:E; [|contradiction].
  apply andb_true_iff in E as [_ E]. apply negb_true_iff in E. exact E.
Qed.

(** splitting an accepted stream at one output *)
Lemma accepted_split id s a x c :
  scan_list id (Some s) (a ++ x :: c) <> None ->
  exists sa sx, scan_list id (Some s) a = Some sa /\ scan_step id (Some sa) x = Some sx /\
                scan_list id (Some sx) c <> None.
Proof.
  intros Hacc. rewrite scan_list_app in Hacc.
  destruct (scan_list id (Some s) a) as [sa|] eqn:Ea; [|rewrite scan_list_none in Hacc; contradiction].
  rewrite scan_cons in Hacc.
  destruct (scan_step id (Some sa) x) as [sx|] eqn:Ex; [|rewrite scan_list_none in Hacc; contradiction].
  exists sa, sx. auto.
Qed.

(** generic: in an accepted stream, between two terminal events of [id] lies a creation of [id] *)
Lemma accepted_two_terminals id s a t1 b t2 c :
  scan_list id (Some s) (a ++ t1 :: b ++ t2 :: c) <> None ->
  is_terminal id t1 = true -> is_terminal id t2 = true ->
  existsb (is_created id) b = true.
Proof.
  intros Hacc H1 H2.
  destruct (existsb (is_created id) b) eqn:Eb; [reflexivity|exfalso].
  destruct (accepted_split _ _ _ _ _ Hacc) as (sa & s1 & Ea & E1 & Hacc1).
  assert (Hn1 : scan_step id (Some sa) t1 <> None) by (rewrite E1; discriminate).
  destruct (scan_terminal_needs id sa t1 H1 Hn1) as (_ & _ & s1' & E1' & Hseen).
  rewrite E1 in E1'. injection E1' as <-.
  destruct (accepted_split _ _ _ _ _ Hacc1) as (sb & s2 & Eb' & E2 & _).
  destruct (scan_list_flags id b s1 sb Eb' Eb) as (Hs & _ & _).
  assert (Hn2 : scan_step id (Some sb) t2 <> None) by (rewrite E2; discriminate).
  destruct (scan_terminal_needs id sb t2 H2 Hn2) as (_ & Hnone & _).
  apply (Hs Hseen). exact Hnone.
Qed.

(** ... and between a claim that hit the entry and a later PaymentFailed *)
Lemma accepted_claim_then_failed id s a h b f c :
  scan_list id (Some s) (a ++ h :: b ++ f :: c) <> None ->
  is_claimhit id h = true -> is_failed id f = true ->
  existsb (is_created id) b = true.
Proof.
  intros Hacc H1 H2.
  destruct (existsb (is_created id) b) eqn:Eb; [reflexivity|exfalso].
  destruct (accepted_split _ _ _ _ _ Hacc) as (sa & s1 & Ea & E1 & Hacc1).
  destruct h as [e|i|i|sp i hh aa ff r|r|i w|]; try discriminate. cbn [is_claimhit] in H1.
  cbn [scan_step] in E1. rewrite H1 in E1. destruct (sc_present sa); [|discriminate]. injection E1 as <-.
  destruct (accepted_split _ _ _ _ _ Hacc1) as (sb & s2 & Eb' & E2 & _).
  destruct (scan_list_flags id b _ sb Eb' Eb) as (_ & Hc & _). cbn [sc_claimed] in Hc.
  assert (Hn2 : scan_step id (Some sb) f <> None) by (rewrite E2; discriminate).
  pose proof (scan_failed_needs id sb f H2 Hn2) as Hx. rewrite (Hc eq_refl) in Hx. discriminate.
Qed.

(** ... a terminal event needs an earlier creation when none is pending at the start *)
Lemma accepted_terminal_after_creation id s a t c :
  scan_list id (Some s) (a ++ t :: c) <> None -> sc_present s = false \/ sc_seen s <> SNone ->
  is_terminal id t = true -> existsb (is_created id) a = true.
Proof.
  intros Hacc Hs Ht.
  destruct (existsb (is_created id) a) eqn:Ea'; [reflexivity|exfalso].
  destruct (accepted_split _ _ _ _ _ Hacc) as (sa & s1 & Ea & E1 & _).
  assert (Hn1 : scan_step id (Some sa) t <> None) by (rewrite E1; discriminate).
  destruct (scan_terminal_needs id sa t Ht Hn1) as (Hl & Hnone & _).
  destruct (scan_list_flags id a s sa Ea Ea') as (Hk & _ & Hp).
  destruct Hs as [Hs|Hs].
  - rewrite (Hp Hs) in Hl. discriminate.
  - apply (Hk Hs). exact Hnone.
Qed.

(** ... and between two creations of [id] the entry was removed *)
Lemma accepted_two_creations id s a c1 b c2 c :
  scan_list id (Some s) (a ++ c1 :: b ++ c2 :: c) <> None ->
  is_created id c1 = true -> is_created id c2 = true ->
  existsb (is_removal id) b = true.
Proof.
  intros Hacc H1 H2.
  destruct (existsb (is_removal id) b) eqn:Eb; [reflexivity|exfalso].
  destruct (accepted_split _ _ _ _ _ Hacc) as (sa & s1 & Ea & E1 & Hacc1).
  destruct c1 as [e|i|i|sp i hh aa ff r|r|i w|]; try discriminate. cbn [is_created] in H1.
  cbn [scan_step] in E1. rewrite H1 in E1. destruct (sc_present sa); [discriminate|]. injection E1 as <-.
  destruct (accepted_split _ _ _ _ _ Hacc1) as (sb & s2 & Eb' & E2 & _).
  pose proof (scan_list_present id b _ sb Eb' Eb eq_refl) as Hp.
  destruct c2 as [e|i2|i2|sp i2 hh aa ff r|r|i2 w|]; try discriminate. cbn [is_created] in H2.
  cbn [scan_step] in E2. rewrite H2, Hp in E2. discriminate.
Qed.

Theorem terminal_unique ops id a t1 b t2 c :
  trace ops = a ++ t1 :: b ++ t2 :: c ->
  is_terminal id t1 = true -> is_terminal id t2 = true -> existsb (is_created id) b = true.
Proof.
  intros Htr. apply (accepted_two_terminals id scan0 a t1 b t2 c). rewrite <- Htr. apply lifetime_scan.
Qed.

Theorem not_contradicted ops id a t1 b t2 c :
  trace ops = a ++ t1 :: b ++ t2 :: c ->
  (is_sent id t1 = true /\ is_failed id t2 = true) \/ (is_failed id t1 = true /\ is_sent id t2 = true) ->
  existsb (is_created id) b = true.
Proof.
  intros Htr H. apply (terminal_unique ops id a t1 b t2 c Htr); unfold is_terminal;
    destruct H as [[H1 H2]|[H1 H2]]; rewrite ?H1, ?H2, ?orb_true_r; reflexivity.
Qed.

Theorem failed_means_untouched ops id a h b f c :
  trace ops = a ++ h :: b ++ f :: c ->
  is_claimhit id h = true -> is_failed id f = true -> existsb (is_created id) b = true.
Proof.
  intros Htr. apply (accepted_claim_then_failed id scan0 a h b f c). rewrite <- Htr. apply lifetime_scan.
Qed.

Theorem terminal_needs_creation ops id a t c :
  trace ops = a ++ t :: c -> is_terminal id t = true -> existsb (is_created id) a = true.
Proof.
  intros Htr. apply (accepted_terminal_after_creation id scan0 a t c).
  - rewrite <- Htr. apply lifetime_scan.
  - left. reflexivity.
Qed.

Theorem recreation_needs_removal ops id a c1 b c2 c :
  trace ops = a ++ c1 :: b ++ c2 :: c ->
  is_created id c1 = true -> is_created id c2 = true -> existsb (is_removal id) b = true.
Proof.
  intros Htr. apply (accepted_two_creations id scan0 a c1 b c2 c). rewrite <- Htr. apply lifetime_scan.
Qed.

(** the domain of the map is a function of the output stream: created and not removed since *)
Theorem dom_tracks_trace ops id :
  exists s', scan_list id (Some scan0) (trace ops) = Some s' /\
             (sc_present s' = true <-> get id (pm (fst (run init ops))) <> None).
Proof.
  destruct (run_inv ops init id scan0 (InvS_init id)) as [s' [Hs (_ & H2 & H3)]].
  exists s'. split; [exact Hs|]. split; [exact H2|].
  intros Hne. destruct (sc_present s') eqn:E; [reflexivity|]. exfalso. apply Hne. apply H3. reflexivity.
Qed.

(** restart: from ANY state (reachable or not, e.g. any persisted snapshot) in which [id] is
    Fulfilled, no operation list — [insert_from_monitor_on_startup], fails, abandons, retries
    included — produces a terminal event for [id] before a new entry for [id] is created, and a
    new entry is created only after the old one was removed *)
Theorem fulfilled_snapshot_stays st id p ops :
  get id (pm st) = Some p -> is_fulfilled p = true ->
  (forall a t c, List.concat (snd (run st ops)) = a ++ t :: c -> is_terminal id t = true ->
                 existsb (is_created id) a = true) /\
  (forall a t c, List.concat (snd (run st ops)) = a ++ t :: c -> is_created id t = true ->
                 existsb (is_removal id) a = true).
Proof.
  intros Hg Hf.
  set (s := {| sc_present := true; sc_seen := SSent; sc_claimed := true |}).
  assert (HI : InvS id st s) by (unfold InvS; rewrite Hg; apply InvE_fulfilled; [reflexivity|exact Hf]).
  destruct (run_inv ops st id s HI) as [s' [Hs _]].
  split; intros a t c Htr Ht.
  - apply (accepted_terminal_after_creation id s a t c).
    + rewrite <- Htr, Hs. discriminate.
    + right. cbn. discriminate.
    + exact Ht.
  - destruct (existsb (is_removal id) a) eqn:Ea; [reflexivity|exfalso].
    assert (Hacc : scan_list id (Some s) (a ++ t :: c) <> None) by (rewrite <- Htr, Hs; discriminate).
    destruct (accepted_split _ _ _ _ _ Hacc) as (sa & s1 & Ea' & E1 & _).
    pose proof (scan_list_present id a s sa Ea' Ea eq_refl) as Hp.
    destruct t as [e|i|i|sp i hh aa ff r|r|i w|]; try discriminate. cbn [is_created] in Ht.
    cbn [scan_step] in E1. rewrite Ht, Hp in E1. discriminate.
Qed.

(** restart, second half: from any state whatsoever, once a claim hits the entry of [id] no
    PaymentFailed follows (until re-creation) *)
Theorem pending_snapshot_claim_wins st id ops a h b f c :
  List.concat (snd (run st ops)) = a ++ h :: b ++ f :: c ->
  is_claimhit id h = true -> is_failed id f = true -> existsb (is_created id) b = true.
Proof.
  intros Htr.
  assert (Hx : exists s, InvS id st s).
  { unfold InvS. destruct (get id (pm st)) as [p0|].
    - exists {| sc_present := true; sc_seen := SNone; sc_claimed := false |}.
      split; [|split]; cbn [sc_seen sc_claimed sc_present];
        [intros [H|H]; [contradiction|discriminate]|discriminate|discriminate].
    - exists scan0. apply InvE_none. reflexivity. }
  destruct Hx as [s HI].
  destruct (run_inv ops st id s HI) as [s' [Hs _]].
  apply (accepted_claim_then_failed id s a h b f c). rewrite <- Htr, Hs. discriminate.
Qed.
