(** C03 — proofs about [Model/Outbound.v]: per-id lifetime scanner and its invariant. *)
Require Import LdkV.Prim.U64 LdkV.Gen.ConstsC03 LdkV.Model.Outbound.
Open Scope Z_scope.

(** * association lists *)
Lemma get_ins_eq {A} k (v : A) m : get k (ins k v m) = Some v.
Proof.
  induction m as [|[k' v'] t IH]; cbn [ins get].
  - rewrite Z.eqb_refl. reflexivity.
  - destruct (Z.ltb_spec k k'); cbn [get].
    + rewrite Z.eqb_refl. reflexivity.
    + destruct (Z.eqb_spec k k'); cbn [get].
      * rewrite Z.eqb_refl. reflexivity.
      * destruct (Z.eqb_spec k k'); [contradiction|]. exact IH.
Qed.

Lemma get_ins_neq {A} k k0 (v : A) m : k0 <> k -> get k0 (ins k v m) = get k0 m.
Proof.
  intros Hne. induction m as [|[k' v'] t IH]; cbn [ins get].
  - destruct (Z.eqb_spec k0 k); [contradiction|reflexivity].
  - destruct (Z.ltb_spec k k'); cbn [get].
    + destruct (Z.eqb_spec k0 k); [contradiction|reflexivity].
    + destruct (Z.eqb_spec k k'); cbn [get].
      * subst k'. destruct (Z.eqb_spec k0 k); [contradiction|reflexivity].
      * destruct (Z.eqb_spec k0 k'); [reflexivity|exact IH].
Qed.

Lemma get_del_eq {A} k (m : list (Z * A)) : get k (del k m) = None.
Proof.
  induction m as [|[k' v'] t IH]; cbn [del get]; [reflexivity|].
  destruct (Z.eqb_spec k k'); [exact IH|]. cbn [get].
  destruct (Z.eqb_spec k k'); [contradiction|exact IH].
Qed.

Lemma get_del_neq {A} k k0 (m : list (Z * A)) : k0 <> k -> get k0 (del k m) = get k0 m.
Proof.
  intros Hne. induction m as [|[k' v'] t IH]; cbn [del get]; [reflexivity|].
  destruct (Z.eqb_spec k k').
  - subst k'. destruct (Z.eqb_spec k0 k); [contradiction|exact IH].
  - cbn [get]. destruct (Z.eqb_spec k0 k'); [reflexivity|exact IH].
Qed.

Lemma get_set_eq {A} k (o : option A) m : get k (set k o m) = o.
Proof. destruct o; cbn [set]; [apply get_ins_eq|apply get_del_eq]. Qed.

Lemma get_set_neq {A} k k0 (o : option A) m : k0 <> k -> get k0 (set k o m) = get k0 m.
Proof. intros H. destruct o; cbn [set]; [apply get_ins_neq|apply get_del_neq]; exact H. Qed.

(** * the per-id lifetime scanner

    It reads the output stream of a run and, for one payment id, tracks whether a map entry has
    ever been created ([sc_live]), whether a terminal event was emitted since the last creation
    ([sc_seen]) and whether [claim_htlc] found the entry since the last creation ([sc_claimed]).
    It rejects ([None]) a terminal event without a preceding creation, a second terminal event
    within one lifetime, and a [PaymentFailed] after a claim hit the entry. *)
Inductive seen : Type := SNone | SSent | SFailed.
Record scan : Type := { sc_live : bool; sc_seen : seen; sc_claimed : bool }.

Definition scan0 : scan := {| sc_live := false; sc_seen := SNone; sc_claimed := false |}.

Definition scan_step (id : Z) (st : option scan) (o : out) : option scan :=
  match st with
  | None => None
  | Some s =>
      match o with
      | OCreated i =>
          if i =? id then Some {| sc_live := true; sc_seen := SNone; sc_claimed := false |} else st
      | OClaimHit i =>
          if i =? id then Some {| sc_live := sc_live s; sc_seen := sc_seen s; sc_claimed := true |} else st
      | OEv (EvSent i _ _ _) =>
          if i =? id then
            if sc_live s then
              match sc_seen s with
              | SNone => Some {| sc_live := true; sc_seen := SSent; sc_claimed := sc_claimed s |}
              | _ => None
              end
            else None
          else st
      | OEv (EvFailed i _ _) =>
          if i =? id then
            if sc_live s && negb (sc_claimed s) then
              match sc_seen s with
              | SNone => Some {| sc_live := true; sc_seen := SFailed; sc_claimed := false |}
              | _ => None
              end
            else None
          else st
      | _ => st
      end
  end.

Definition scan_list (id : Z) (st : option scan) (outs : list out) : option scan :=
  fold_left (scan_step id) outs st.

Lemma scan_list_app id st a b : scan_list id st (a ++ b) = scan_list id (scan_list id st a) b.
Proof. unfold scan_list. apply fold_left_app. Qed.

Lemma scan_list_none id outs : scan_list id None outs = None.
Proof. induction outs as [|o t IH]; [reflexivity|exact IH]. Qed.

(** the id an output is about *)
Definition out_id (o : out) : option Z :=
  match o with
  | OEv (EvSent i _ _ _) | OEv (EvFailed i _ _) | OEv (EvPathOk i _) | OEv (EvPathFailed i _ _ _)
  | OEv (EvProbeOk i _) | OEv (EvProbeFailed i _) => Some i
  | OCreated i | OClaimHit i => Some i
  | ONew _ i _ _ _ _ => Some i
  | ORes _ | OPanic => None
  end.

Definition only_about (id : Z) (outs : list out) : Prop :=
  forall o, In o outs -> out_id o = Some id \/ out_id o = None.

Lemma scan_step_other id id' s o :
  id' <> id -> (out_id o = Some id' \/ out_id o = None) -> scan_step id (Some s) o = Some s.
Proof.
  intros Hne Ho. destruct o as [e| i | i | sp i h a f r | r |]; cbn [scan_step]; try reflexivity.
  - destruct e; cbn [out_id] in Ho; try reflexivity;
      (destruct Ho as [Ho|Ho]; [injection Ho as ->|discriminate]);
      (destruct (Z.eqb_spec id' id); [contradiction|reflexivity]).
  - cbn [out_id] in Ho. destruct Ho as [Ho|Ho]; [injection Ho as ->|discriminate].
    destruct (Z.eqb_spec id' id); [contradiction|reflexivity].
  - cbn [out_id] in Ho. destruct Ho as [Ho|Ho]; [injection Ho as ->|discriminate].
    destruct (Z.eqb_spec id' id); [contradiction|reflexivity].
Qed.

Lemma scan_list_other id id' s outs :
  id' <> id -> only_about id' outs -> scan_list id (Some s) outs = Some s.
Proof.
  intros Hne. induction outs as [|o t IH]; intros Ha; [reflexivity|].
  cbn [scan_list fold_left]. rewrite (scan_step_other id id' s o Hne).
  - apply IH. intros o' Ho'. apply Ha. right. exact Ho'.
  - apply Ha. left. reflexivity.
Qed.

(** outputs the scanner ignores *)
Definition neutral (o : out) : bool :=
  match o with
  | OEv (EvSent _ _ _ _) | OEv (EvFailed _ _ _) | OCreated _ | OClaimHit _ => false
  | _ => true
  end.

Lemma scan_step_neutral id st o : neutral o = true -> scan_step id st o = st.
Proof.
  destruct st as [s|]; [|reflexivity].
  destruct o as [e| | | | |]; try discriminate; try reflexivity.
  destruct e; try discriminate; reflexivity.
Qed.

Lemma scan_list_neutral id st outs : forallb neutral outs = true -> scan_list id st outs = st.
Proof.
  revert st. induction outs as [|o t IH]; intros st H; [reflexivity|].
  cbn [forallb] in H. apply andb_true_iff in H as [Ho Ht].
  cbn [scan_list fold_left]. rewrite scan_step_neutral by exact Ho. apply IH. exact Ht.
Qed.

(** * the invariant linking an entry and the scanner state *)
Definition live_entry (e : option payment) : Prop :=
  exists p, e = Some p /\ is_fulfilled p = false.

Definition InvE (e : option payment) (s : scan) : Prop :=
  (sc_seen s <> SNone \/ sc_claimed s = true -> ~ live_entry e) /\
  (sc_live s = false -> e = None).

(** a transition on the entry of [id] is [good] when the scanner accepts its outputs and the
    invariant is re-established, and it talks about [id] only *)
Definition good (id : Z) (t : etrans) : Prop :=
  forall c e s, InvE e s ->
    only_about id (snd (t c e)) /\
    exists s', scan_list id (Some s) (snd (t c e)) = Some s' /\ InvE (fst (t c e)) s'.

Lemma InvE_live_facts e s p :
  InvE e s -> e = Some p -> is_fulfilled p = false ->
  sc_live s = true /\ sc_seen s = SNone /\ sc_claimed s = false.
Proof.
  intros [H1 H2] He Hf. subst e.
  assert (Hl : live_entry (Some p)) by (exists p; split; [reflexivity|exact Hf]).
  repeat split.
  - destruct (sc_live s) eqn:E; [reflexivity|]. specialize (H2 eq_refl). discriminate.
  - destruct (sc_seen s) eqn:E; [reflexivity| |]; exfalso; apply H1; try exact Hl; left; discriminate.
  - destruct (sc_claimed s) eqn:E; [|reflexivity]. exfalso. apply H1; [right; reflexivity|exact Hl].
Qed.

Lemma InvE_some_live e s p : InvE e s -> e = Some p -> sc_live s = true.
Proof.
  intros [_ H2] He. destruct (sc_live s) eqn:E; [reflexivity|]. rewrite (H2 eq_refl) in He. discriminate.
Qed.

(** the invariant only depends on absent / live / fulfilled *)
Lemma InvE_live_to_live s p p' :
  InvE (Some p) s -> is_fulfilled p = false -> InvE (Some p') s.
Proof.
  intros H Hf. destruct (InvE_live_facts _ _ _ H eq_refl Hf) as (Hl & Hs & Hc).
  split.
  - intros [Hx|Hx]; [rewrite Hs in Hx; contradiction|rewrite Hc in Hx; discriminate].
  - intros Hx. rewrite Hl in Hx. discriminate.
Qed.

Lemma InvE_fulfilled s p : sc_live s = true -> is_fulfilled p = true -> InvE (Some p) s.
Proof.
  intros Hl Hf. split.
  - intros _ [q [Hq Hq']]. injection Hq as <-. rewrite Hf in Hq'. discriminate.
  - intros Hx. rewrite Hl in Hx. discriminate.
Qed.

Lemma InvE_none s : InvE None s.
Proof.
  split; [|reflexivity]. intros _ [q [Hq _]]. discriminate.
Qed.

Lemma not_live_fulfilled p : is_fulfilled p = true -> ~ live_entry (Some p).
Proof. intros Hf [q [Hq Hq']]. injection Hq as <-. rewrite Hf in Hq'. discriminate. Qed.

Ltac oa_tac :=
  let o := fresh "o" in let Ho := fresh "Ho" in
  intros o Ho; cbn [In] in Ho;
  repeat (destruct Ho as [Ho|Ho]; [subst o; cbn [out_id]; auto|]); try contradiction.

(** ** abandon *)
Lemma is_nil_true {A} (l : list A) : is_nil l = true -> l = [].
Proof. destruct l; [reflexivity|discriminate]. Qed.

Lemma good_abandon id reason : good id (abandon_t id reason).
Proof.
  intros c e s HI. unfold abandon_t. destruct e as [p|]; cbn [fst snd].
  - pose proof (InvE_some_live _ _ _ HI eq_refl) as Hlive.
    destruct p as [r a hp parts h pa pf tot rf|parts h t tot f|parts h r tot f|n r]; cbn [mark_abandoned].
    + (* Retryable *)
      destruct (InvE_live_facts _ _ _ HI eq_refl eq_refl) as (Hl & Hs & Hc).
      destruct (is_nil parts) eqn:En; cbn [fst snd].
      * split; [oa_tac|]. eexists. split.
        { unfold scan_list; cbn [fold_left scan_step]. rewrite Z.eqb_refl, Hl, Hc, Hs. cbn [andb negb]. reflexivity. }
        apply InvE_none.
      * split; [oa_tac|]. eexists. split; [reflexivity|].
        eapply InvE_live_to_live; [exact HI|reflexivity].
    + split; [oa_tac|]. eexists. split; [reflexivity|exact HI].
    + (* Abandoned *)
      destruct (InvE_live_facts _ _ _ HI eq_refl eq_refl) as (Hl & Hs & Hc).
      destruct (is_nil parts) eqn:En; cbn [fst snd].
      * split; [oa_tac|]. eexists. split.
        { unfold scan_list; cbn [fold_left scan_step]. rewrite Z.eqb_refl, Hl, Hc, Hs. cbn [andb negb]. reflexivity. }
        apply InvE_none.
      * split; [oa_tac|]. eexists. split; [reflexivity|exact HI].
    + (* AwaitingInvoice *)
      destruct (InvE_live_facts _ _ _ HI eq_refl eq_refl) as (Hl & Hs & Hc).
      cbn [fst snd]. split; [oa_tac|]. eexists. split.
      { unfold scan_list; cbn [fold_left scan_step]. rewrite Z.eqb_refl, Hl, Hc, Hs. cbn [andb negb]. reflexivity. }
      apply InvE_none.
  - split; [oa_tac|]. eexists. split; [reflexivity|exact HI].
Qed.

(** ** helpers *)
Lemma pm_remove_fulfilled p sp a f : is_fulfilled (fst (pm_remove p sp a f)) = is_fulfilled p.
Proof. destruct p; cbn [pm_remove]; try destruct (mem sp parts); reflexivity. Qed.

Lemma pm_insert_fulfilled p sp a f : is_fulfilled (fst (pm_insert p sp a f)) = is_fulfilled p.
Proof. destruct p; cbn [pm_insert]; try destruct (mem sp parts); reflexivity. Qed.

Lemma pm_remove_awaiting p sp a f : is_awaiting (fst (pm_remove p sp a f)) = is_awaiting p.
Proof. destruct p; cbn [pm_remove]; try destruct (mem sp parts); reflexivity. Qed.

Lemma pm_insert_awaiting p sp a f : is_awaiting (fst (pm_insert p sp a f)) = is_awaiting p.
Proof. destruct p; cbn [pm_insert]; try destruct (mem sp parts); reflexivity. Qed.

Ltac scan_go :=
  repeat (cbv beta iota delta [scan_list fold_left scan_step app];
          cbn [sc_live sc_seen sc_claimed andb negb];
          rewrite ?Z.eqb_refl;
          repeat match goal with
                 | H : sc_live _ = _ |- _ => rewrite H
                 | H : sc_seen _ = _ |- _ => rewrite H
                 | H : sc_claimed _ = _ |- _ => rewrite H
                 end);
  reflexivity.

Ltac fin_inv HI :=
  first [ apply InvE_none
        | exact HI
        | (eapply InvE_live_to_live; [exact HI|reflexivity])
        | (apply InvE_fulfilled; [cbn [sc_live]; first [reflexivity|assumption]|reflexivity]) ].

Ltac leaf HI :=
  cbn [fst snd app]; split; [solve [oa_tac]|]; eexists; split; [scan_go|fin_inv HI].

Ltac split_ifs :=
  repeat match goal with
         | |- context [if ?b then _ else _] => destruct b eqn:?
         end.

(** ** claim_htlc *)
Lemma good_claim id pre sp amt fee oc : good id (claim_t id pre sp amt fee oc).
Proof.
  intros c e s HI. unfold claim_t. destruct e as [p|]; [|leaf HI].
  pose proof (InvE_some_live _ _ _ HI eq_refl) as Hlive.
  destruct p as [r a hp parts h pa pf tot rf|parts h t tot f|parts h r tot f|n r].
  - destruct (InvE_live_facts _ _ _ HI eq_refl eq_refl) as (Hl & Hs & Hc).
    cbn [is_fulfilled mark_fulfilled parts_of payment_hash total_msat get_pending_fee pm_remove].
    split_ifs; leaf HI.
  - cbn [is_fulfilled pm_remove]. split_ifs; leaf HI.
  - destruct (InvE_live_facts _ _ _ HI eq_refl eq_refl) as (Hl & Hs & Hc).
    cbn [is_fulfilled mark_fulfilled parts_of payment_hash total_msat get_pending_fee pm_remove].
    split_ifs; leaf HI.
  - leaf HI.
Qed.

(** ** finalize_claims *)
Lemma good_finalize id sp : good id (finalize_t id sp).
Proof.
  intros c e s HI. unfold finalize_t. destruct e as [p|]; [|leaf HI].
  pose proof (InvE_some_live _ _ _ HI eq_refl) as Hlive.
  destruct p; cbn [is_fulfilled pm_remove]; split_ifs; leaf HI.
Qed.

(** ** fail_htlc *)
Ltac crush HI := repeat (cbn -[Z.add Z.sub Z.mul Z.div Z.ltb Z.leb Z.eqb sat_add sat_sub]; split_ifs); leaf HI.

Lemma good_fail id sp amt fee perm probe : good id (fail_t id sp amt fee perm probe).
Proof.
  intros c e s HI. unfold fail_t. destruct e as [p|]; [|leaf HI].
  pose proof (InvE_some_live _ _ _ HI eq_refl) as Hlive.
  destruct p as [r a hp parts h pa pf tot rf|parts h t tot f|parts h r tot f|n r].
  - destruct (InvE_live_facts _ _ _ HI eq_refl eq_refl) as (Hl & Hs & Hc).
    cbn [pm_remove]. destruct (mem sp parts) eqn:Em; [|leaf HI].
    cbn [negb is_fulfilled].
    destruct (probe || negb (is_auto_retryable_now (Retryable r a hp (rm sp parts) h (pa - amt)
               (option_map (fun f : Z => f - fee) pf) tot (option_map (fun m : Z => sat_add 64 m fee) rf))) || perm) eqn:Eab;
      cbn [mark_abandoned parts_of]; destruct (is_nil (rm sp parts)) eqn:En; destruct probe, perm; leaf HI.
  - cbn [pm_remove]. destruct (mem sp parts) eqn:Em; cbn [negb is_fulfilled]; leaf HI.
  - destruct (InvE_live_facts _ _ _ HI eq_refl eq_refl) as (Hl & Hs & Hc).
    cbn [pm_remove]. destruct (mem sp parts) eqn:Em; [|leaf HI].
    destruct probe, perm;
      cbn [negb is_fulfilled is_auto_retryable_now mark_abandoned parts_of orb];
      destruct (is_nil (rm sp parts)) eqn:En; leaf HI.
  - leaf HI.
Qed.

(** ** remove_stale_payments *)
Lemma good_tick q id : good id (tick_t q id).
Proof.
  intros c e s HI. unfold tick_t. destruct e as [p|]; [|leaf HI].
  pose proof (InvE_some_live _ _ _ HI eq_refl) as Hlive.
  destruct p as [r a hp parts h pa pf tot rf|parts h t tot f|parts h r tot f|n r].
  - leaf HI.
  - split_ifs; leaf HI.
  - leaf HI.
  - destruct (InvE_live_facts _ _ _ HI eq_refl eq_refl) as (Hl & Hs & Hc).
    split_ifs; leaf HI.
Qed.

(** ** insert_from_monitor_on_startup *)
Lemma good_startup id hash sp amt fee : good id (startup_t id hash sp amt fee).
Proof.
  intros c e s HI. unfold startup_t. destruct e as [p|].
  - pose proof (InvE_some_live _ _ _ HI eq_refl) as Hlive.
    destruct p as [r a hp parts h pa pf tot rf|parts h t tot f|parts h r tot f|n r];
      cbn [pm_insert]; split_ifs; leaf HI.
  - cbn [fst snd]. split; [oa_tac|]. eexists. split; [scan_go|].
    split; cbn [sc_seen sc_claimed sc_live]; [intros [H|H]; [contradiction|discriminate]|discriminate].
Qed.

(** ** the retain pass of check_retry_payments *)
Lemma good_retain id : good id (retain_t id).
Proof.
  intros c e s HI. unfold retain_t. destruct e as [p|]; [|leaf HI].
  pose proof (InvE_some_live _ _ _ HI eq_refl) as Hlive.
  destruct p as [r a hp parts h pa pf tot rf|parts h t tot f|parts h r tot f|n r].
  - destruct (InvE_live_facts _ _ _ HI eq_refl eq_refl) as (Hl & Hs & Hc).
    cbn [parts_of is_awaiting mark_abandoned negb andb]. split_ifs; leaf HI.
  - cbn [parts_of is_awaiting mark_abandoned is_auto_retryable_now negb andb]. split_ifs; leaf HI.
  - destruct (InvE_live_facts _ _ _ HI eq_refl eq_refl) as (Hl & Hs & Hc).
    cbn [parts_of is_awaiting mark_abandoned is_auto_retryable_now negb andb]. split_ifs; leaf HI.
  - cbn [parts_of is_awaiting mark_abandoned is_auto_retryable_now negb andb is_nil]. leaf HI.
Qed.

(** ** add_new_awaiting_invoice *)
Lemma InvE_created p : is_fulfilled p = false ->
  InvE (Some p) {| sc_live := true; sc_seen := SNone; sc_claimed := false |}.
Proof.
  intros _. split; cbn [sc_seen sc_claimed sc_live]; [intros [H|H]; [contradiction|discriminate]|discriminate].
Qed.

Lemma good_await id ticks retry : good id (await_t id ticks retry).
Proof.
  intros c e s HI. unfold await_t. destruct e as [p|]; [leaf HI|].
  cbn [fst snd]. split; [oa_tac|]. eexists. split; [scan_go|]. apply InvE_created. reflexivity.
Qed.

(** ** routes: insert_all / drop_unsent are quiet *)
Definition quiet (id : Z) (outs : list out) : Prop :=
  forallb neutral outs = true /\ only_about id outs.

Lemma only_about_app id a b : only_about id a -> only_about id b -> only_about id (a ++ b).
Proof. intros Ha Hb o Ho. apply in_app_or in Ho as [Ho|Ho]; [apply Ha|apply Hb]; exact Ho. Qed.

Lemma only_about_cons id o t : (out_id o = Some id \/ out_id o = None) -> only_about id t -> only_about id (o :: t).
Proof. intros Ho Ht o' [<-|Hi]; [exact Ho|apply Ht; exact Hi]. Qed.

Lemma only_about_nil id : only_about id [].
Proof. intros o []. Qed.

Lemma quiet_nil id : quiet id [].
Proof. split; [reflexivity|apply only_about_nil]. Qed.

Lemma quiet_app id a b : quiet id a -> quiet id b -> quiet id (a ++ b).
Proof.
  intros [Ha1 Ha2] [Hb1 Hb2]. split; [|apply only_about_app; assumption].
  rewrite forallb_app, Ha1, Hb1. reflexivity.
Qed.

Lemma scan_quiet id st outs : quiet id outs -> scan_list id st outs = st.
Proof. intros [H _]. apply scan_list_neutral. exact H. Qed.

Lemma insert_all_spec id h p sp paths :
  quiet id (snd (insert_all id h p sp paths)) /\
  is_fulfilled (fst (insert_all id h p sp paths)) = is_fulfilled p.
Proof.
  revert p sp. induction paths as [|x t IH]; intros p sp; cbn [insert_all].
  - split; [apply quiet_nil|reflexivity].
  - specialize (IH (fst (pm_insert p sp (pr_amt x) (pr_fee x))) (sp + 1)).
    destruct (insert_all id h (fst (pm_insert p sp (pr_amt x) (pr_fee x))) (sp + 1) t) as [p2 outs].
    cbn [fst snd] in *. destruct IH as [[Hq1 Hq2] Hf]. split.
    + split; [cbn [forallb neutral]; exact Hq1|].
      apply only_about_cons; [left; reflexivity|exact Hq2].
    + rewrite Hf. apply pm_insert_fulfilled.
Qed.

Lemma drop_unsent_spec id p sp paths :
  quiet id (snd (drop_unsent id p sp paths)) /\
  is_fulfilled (fst (drop_unsent id p sp paths)) = is_fulfilled p.
Proof.
  revert p sp. induction paths as [|x t IH]; intros p sp; cbn [drop_unsent].
  - split; [apply quiet_nil|reflexivity].
  - destruct (unsent (pr_res x)).
    + specialize (IH (fst (pm_remove p sp (pr_amt x) (pr_fee x))) (sp + 1)).
      destruct (drop_unsent id (fst (pm_remove p sp (pr_amt x) (pr_fee x))) (sp + 1) t) as [p2 outs].
      cbn [fst snd] in *. destruct IH as [[Hq1 Hq2] Hf]. split.
      * split; [cbn [forallb neutral]; exact Hq1|].
        apply only_about_cons; [left; reflexivity|exact Hq2].
      * rewrite Hf. apply pm_remove_fulfilled.
    + apply IH.
Qed.

Lemma inc_attempts_fulfilled p : is_fulfilled (inc_attempts p) = is_fulfilled p.
Proof. destruct p; reflexivity. Qed.

(** a transition result: scanner accepts and invariant re-established *)
Definition accepted (id : Z) (s : scan) (e' : option payment) (outs : list out) : Prop :=
  only_about id outs /\ exists s', scan_list id (Some s) outs = Some s' /\ InvE e' s'.

Lemma accepted_quiet_prefix id s e' pre outs :
  quiet id pre -> accepted id s e' outs -> accepted id s e' (pre ++ outs).
Proof.
  intros Hq [Ha [s' [Hs Hi]]]. split.
  - apply only_about_app; [apply Hq|exact Ha].
  - exists s'. split; [|exact Hi]. rewrite scan_list_app. rewrite (scan_quiet id (Some s) pre Hq). exact Hs.
Qed.

Lemma accepted_quiet_only id s e : InvE e s -> forall outs, quiet id outs -> accepted id s e outs.
Proof.
  intros Hi outs Hq. split; [apply Hq|]. exists s. split; [apply scan_quiet; exact Hq|exact Hi].
Qed.

(** ** find_route_and_send_payment *)
Lemma after_pay_accepted id s (p : payment) sp0 paths fv mf
      (cont : option payment -> Z -> option Z -> option payment * list out * list ans) rest :
  InvE (Some p) s -> is_fulfilled p = false ->
  (forall p1 fv1 mf1, is_fulfilled p1 = false ->
     accepted id s (fst (fst (cont (Some p1) fv1 mf1))) (snd (fst (cont (Some p1) fv1 mf1)))) ->
  let r := after_pay cont (fun e1 => (e1, [], rest)) id p sp0 paths fv mf in
  accepted id s (fst (fst (snd r))) (fst r ++ snd (fst (snd r))).
Proof.
  intros HI Hf Hc. unfold after_pay.
  pose proof (drop_unsent_spec id p sp0 paths) as [Hq Hd].
  destruct (drop_unsent id p sp0 paths) as [p1 evs]. cbn [fst snd] in Hq, Hd.
  assert (Hdone : accepted id s (Some p) ([] ++ [])) by (apply accepted_quiet_only; [exact HI|apply quiet_nil]).
  destruct (existsb (fun x => negb (is_sok (pr_res x))) paths && existsb (fun x => negb (unsent (pr_res x))) paths).
  - destruct (existsb (fun x => unsent (pr_res x)) paths); cbn [fst snd]; [|exact Hdone].
    apply accepted_quiet_prefix; [exact Hq|]. apply Hc. rewrite Hd. exact Hf.
  - destruct (existsb (fun x => negb (is_sok (pr_res x))) paths); cbn [fst snd]; [|exact Hdone].
    apply accepted_quiet_prefix; [exact Hq|]. apply Hc. rewrite Hd. exact Hf.
Qed.

Lemma good_accepted id t : good id t -> forall c e s, InvE e s -> accepted id s (fst (t c e)) (snd (t c e)).
Proof. intros Hg c e s Hi. exact (Hg c e s Hi). Qed.

Lemma frs_accepted id : forall answers e c fv mf s, InvE e s ->
  accepted id s (fst (fst (frs answers id e c fv mf))) (snd (fst (frs answers id e c fv mf))).
Proof.
  induction answers as [|a rest IH]; intros e c fv mf s HI.
  - cbn [frs fst snd]. apply good_accepted; [apply good_abandon|exact HI].
  - destruct a as [|k fees over res].
    + cbn [frs fst snd]. apply good_accepted; [apply good_abandon|exact HI].
    + cbn [frs]. destruct e as [p|]; [|cbn [fst snd]; apply accepted_quiet_only; [exact HI|apply quiet_nil]].
      destruct p as [r a hp parts h pa pf tot rf|parts h t tot f|parts h r tot f|n r];
        try (cbn [fst snd]; apply accepted_quiet_only; [exact HI|apply quiet_nil]).
      destruct (tot * 110 / 100 <? sum (map pr_amt (paths_of fv k fees over res)) + pa).
      { cbn [fst snd]. apply good_accepted; [apply good_abandon|exact HI]. }
      destruct (negb (is_retryable_now (Retryable r a hp parts h pa pf tot rf))).
      { cbn [fst snd]. apply good_accepted; [apply good_abandon|exact HI]. }
      pose proof (insert_all_spec id h (Retryable r a hp parts h pa pf tot rf) c (paths_of fv k fees over res)) as [Hq Hfi].
      destruct (insert_all id h (Retryable r a hp parts h pa pf tot rf) c (paths_of fv k fees over res)) as [p1 news].
      cbn [fst snd] in Hq, Hfi.
      assert (Hlive2 : is_fulfilled (inc_attempts p1) = false) by (rewrite inc_attempts_fulfilled; exact Hfi).
      assert (HI2 : InvE (Some (inc_attempts p1)) s) by (eapply InvE_live_to_live; [exact HI|reflexivity]).
      pose proof (after_pay_accepted id s (inc_attempts p1) c (paths_of fv k fees over res) fv mf
                    (fun e1 fv1 mf1 => frs rest id e1 (c + Z.of_nat (List.length (paths_of fv k fees over res))) fv1 mf1)
                    rest HI2 Hlive2) as Hap.
      cbv zeta in Hap.
      destruct (after_pay _ _ id (inc_attempts p1) c (paths_of fv k fees over res) fv mf) as [evs [[e' outs] rest']].
      cbn [fst snd] in *.
      apply accepted_quiet_prefix; [exact Hq|]. apply Hap.
      intros p2 fv1 mf1 Hf2. apply IH. eapply InvE_live_to_live; [exact HI|reflexivity].
Qed.
