(** C17 — the pending-checks / rapid-gossip-sync layer refines the synchronous model: the graph only
    ever changes by [step]s of [Model/Gossip.v], and every op pushed through it is a message that
    was delivered (same content, same signature oracle) or was synthesised, unsigned, from a
    delivered snapshot.  Hence authenticity carries over to held-and-replayed messages. *)
From stdpp Require Import gmap.
From Coq Require Import ZArith String Lia ZifyBool.
Require Import LdkV.Gen.GossipConsts LdkV.Model.Gossip LdkV.Model.GossipSpec LdkV.Model.GossipAsync.
Require Import LdkV.Proofs.C17Base LdkV.Proofs.C17Step LdkV.Proofs.C17Auth.
Open Scope Z_scope.

Local Instance gerr_eq_dec : EqDecision gerr.
Proof. solve_decision. Defined.

Lemma run_app cf g a b : run cf g (a ++ b) = run cf (run cf g a) b.
Proof. unfold run. apply foldl_app. Qed.

(** ** The graph is [run] of the emitted ops *)
Definition refines (cf : cfg) (s : pstate) (r : pres * pstate * list op) : Prop :=
  ps_g r.1.2 = run cf (ps_g s) r.2.

Lemma psync_refines cf s o : refines cf s (psync cf s o).
Proof.
  unfold refines, psync.
  destruct o; simpl; repeat case_match; simpl; simplify_eq; try done;
    try (match goal with H : step _ _ _ = (_, ?g') |- _ => by rewrite H end);
    try (match goal with H : chan_ann_step _ _ _ _ _ _ _ = (_, ?g') |- _ => by rewrite H end);
    try (match goal with H : partial_ann_step _ _ _ _ _ _ _ = (_, ?g') |- _ => by rewrite H end);
    try (match goal with H : chan_upd_step _ _ _ _ _ _ _ = (_, ?g') |- _ => by rewrite H end);
    try (match goal with H : node_ann_step _ _ _ _ _ = (_, ?g') |- _ => by rewrite H end).
Qed.

Lemma psync_seq_inv cf g0 acc o :
  ps_g acc.1.1 = run cf g0 acc.2 →
  ps_g (psync_seq cf acc o).1.1 = run cf g0 (psync_seq cf acc o).2.
Proof.
  destruct acc as [[s relay] emitted]. simpl. intros H. unfold psync_seq.
  pose proof (psync_refines cf s o) as Hr. unfold refines in Hr.
  destruct (psync cf s o) as [[r s'] ops]. simpl in *. by rewrite run_app, <-H.
Qed.

Lemma foldl_psync_seq_inv cf g0 l acc :
  ps_g acc.1.1 = run cf g0 acc.2 →
  ps_g (foldl (psync_seq cf) acc l).1.1 = run cf g0 (foldl (psync_seq cf) acc l).2.
Proof.
  revert acc. induction l as [|o l IH]; intros acc H; [done|]. simpl. apply IH. by apply psync_seq_inv.
Qed.

Lemma resolve_one_inv cf now g0 acc fid :
  ps_g acc.1.1 = run cf g0 acc.2 →
  ps_g (resolve_one cf now acc fid).1.1 = run cf g0 (resolve_one cf now acc fid).2.
Proof.
  destruct acc as [[s relay] emitted]. intros H. unfold resolve_one.
  repeat case_match; try done. by apply foldl_psync_seq_inv.
Qed.

Lemma poll_refines cf s now : refines cf s (poll cf s now).
Proof.
  unfold refines, poll.
  match goal with |- context [foldl (resolve_one cf now) ?a ?l] =>
    assert (ps_g (foldl (resolve_one cf now) a l).1.1 = run cf (ps_g s) (foldl (resolve_one cf now) a l).2) as H end.
  { match goal with |- context [foldl _ ?a ?l] => generalize l; intros l0;
      assert (ps_g a.1.1 = run cf (ps_g s) a.2) as H0 by done; revert H0; generalize a end.
    induction l0 as [|x l0 IH]; intros a H0; [done|]. simpl. apply IH. by apply resolve_one_inv. }
  destruct (foldl (resolve_one cf now) _ _) as [[s2 relay] emitted]. done.
Qed.

Lemma rgs_step_op_inv cf g0 acc o :
  ps_g acc.1 = run cf g0 acc.2 → ps_g (rgs_step_op cf acc o).1 = run cf g0 (rgs_step_op cf acc o).2.
Proof.
  intros H. unfold rgs_step_op. pose proof (psync_refines cf acc.1 o) as Hr. unfold refines in Hr.
  destruct (psync cf acc.1 o) as [[r s'] ops]. simpl in *. by rewrite run_app, <-H.
Qed.

Lemma rgs_anns_inv cf g0 sn anns acc :
  ps_g acc.1 = run cf g0 acc.2 →
  ps_g (rgs_anns cf sn anns acc).2.1 = run cf g0 (rgs_anns cf sn anns acc).2.2.
Proof.
  revert acc. induction anns as [|a rest IH]; intros acc H; [done|]. cbn [rgs_anns].
  match goal with |- context [psync cf acc.1 ?o] =>
    pose proof (psync_refines cf acc.1 o) as Hr; unfold refines in Hr;
    destruct (psync cf acc.1 o) as [[r s'] ops] end.
  simpl in *.
  assert (ps_g s' = run cf g0 (acc.2 ++ ops)) as H' by (by rewrite run_app, <-H).
  repeat case_match; simpl; try done; by apply IH.
Qed.

Lemma rgs_refines cf s sn time now : refines cf s (rgs_apply cf s sn time now).
Proof.
  unfold refines, rgs_apply.
  pose proof (rgs_anns_inv cf (ps_g s) sn (sn_anns sn) (s, []) eq_refl) as H1.
  destruct (rgs_anns cf sn (sn_anns sn) (s, [])) as [[e|] acc1]; [by destruct acc1|].
  set (mods := rgs_node_mod (ps_g s) sn <$> sn_reminders sn).
  assert (∀ l acc, ps_g acc.1 = run cf (ps_g s) acc.2 →
            ps_g (foldl (λ acc m, rgs_step_op cf acc (ONodeAnn false None m)) acc l).1
            = run cf (ps_g s) (foldl (λ acc m, rgs_step_op cf acc (ONodeAnn false None m)) acc l).2) as Hn.
  { induction l as [|m l IH]; intros acc H; [done|]. simpl. apply IH. by apply rgs_step_op_inv. }
  specialize (Hn mods acc1 H1).
  destruct (sn_upds sn) as [|u us] eqn:Hu; [done|]. rewrite <-Hu.
  assert (∀ l acc, ps_g acc.1 = run cf (ps_g s) acc.2 →
            ps_g (foldl (rgs_upd_one cf sn now) acc l).1 = run cf (ps_g s) (foldl (rgs_upd_one cf sn now) acc l).2) as Hup.
  { induction l as [|x l IH]; intros acc H; [done|]. simpl. apply IH.
    unfold rgs_upd_one. case_match; [by apply rgs_step_op_inv|done]. }
  specialize (Hup (sn_upds sn) _ Hn).
  destruct time as [t|]; [exact (rgs_step_op_inv cf _ _ _ Hup)|exact Hup].
Qed.

Lemma pstep_refines cf s o : refines cf s (pstep cf s o).
Proof.
  destruct o as [o|via sg a fid pre now|fid r|now|sn time now]; simpl.
  - apply psync_refines.
  - unfold refines, ann_async. repeat case_match; simpl; simplify_eq; try done.
    all: match goal with H : _ = (_, ?g') |- ?g' = _ => simpl in H; by rewrite H end.
  - done.
  - apply poll_refines.
  - apply rgs_refines.
Qed.

Lemma prun_refines cf s pops :
  ps_g (prun cf s pops) = run cf (ps_g s) (pemitted cf s pops).
Proof.
  unfold prun, pemitted.
  assert (∀ l (acc : pstate * list op) g0, ps_g acc.1 = run cf g0 acc.2 →
     ps_g (foldl (λ s o, (pstep cf s o).1.2) acc.1 l)
     = run cf g0 (foldl (λ (acc : pstate * list op) o, let '(_, s', e) := pstep cf acc.1 o in (s', acc.2 ++ e)) acc l).2) as H.
  { induction l as [|o l IH]; intros acc g0 H; [done|]. simpl.
    pose proof (pstep_refines cf acc.1 o) as Hr. unfold refines in Hr.
    destruct (pstep cf acc.1 o) as [[r s'] e] eqn:Hp. simpl in *.
    apply (IH (s', acc.2 ++ e) g0). simpl. by rewrite run_app, <-H. }
  apply (H pops (s, []) (ps_g s)). done.
Qed.

(** ** Where the emitted ops come from *)
Lemma delivered_mono pops x o : delivered pops o → delivered (pops ++ [x]) o.
Proof.
  assert (∀ y, y ∈ pops → y ∈ pops ++ [x]) as Hin by (intros; apply elem_of_app; by left).
  assert (rgs_in pops → rgs_in (pops ++ [x])) as Hr by (intros (a & b & c & ?); exists a, b, c; auto).
  destruct o; simpl; naive_solver.
Qed.

Definition held_from (pops : list pop) (futs : gmap Z pend) : Prop :=
  ∀ fid pe, futs !! fid = Some pe →
    (∀ h, pe_ann pe = Some h → delivered pops (OChanAnn false (ha_sg h) (ha_msg h) UNoLookup 0)) ∧
    (∀ h, pe_na pe = Some h ∨ pe_nb pe = Some h → delivered pops (ONodeAnn false (hn_sg h) (hn_msg h))) ∧
    (∀ h, pe_ua pe = Some h ∨ pe_ub pe = Some h → delivered pops (OChanUpd false (hu_sg h) (hu_msg h) 0 false)).

Lemma held_from_mono pops x futs : held_from pops futs → held_from (pops ++ [x]) futs.
Proof.
  intros H fid pe Hpe. destruct (H fid pe Hpe) as (H1 & H2 & H3).
  split_and!; intros; apply delivered_mono; eauto.
Qed.

Lemma held_from_insert pops futs fid pe :
  held_from pops futs →
  (∀ h, pe_ann pe = Some h → delivered pops (OChanAnn false (ha_sg h) (ha_msg h) UNoLookup 0)) →
  (∀ h, pe_na pe = Some h ∨ pe_nb pe = Some h → delivered pops (ONodeAnn false (hn_sg h) (hn_msg h))) →
  (∀ h, pe_ua pe = Some h ∨ pe_ub pe = Some h → delivered pops (OChanUpd false (hu_sg h) (hu_msg h) 0 false)) →
  held_from pops (<[fid := pe]> futs).
Proof.
  intros H H1 H2 H3 fid' pe' [[<- <-]|[_ Hl]]%lookup_insert_Some; [done|by apply (H fid')].
Qed.

Ltac held_side H2 H3 Hd :=
  intros h Hx; cbn [pe_ann pe_na pe_nb pe_ua pe_ub] in Hx;
  first [ destruct Hx as [Hx|Hx]; simplify_eq;
          first [ exact Hd | apply H3; by left | apply H3; by right | apply H2; by left | apply H2; by right ]
        | simplify_eq; first [exact Hd | by apply H2 | by apply H3] ].

Lemma hold_update_held pops s sg m futs :
  held_from pops (ps_futs s) → delivered pops (OChanUpd false sg m 0 false) →
  hold_update s sg m = Some futs → held_from pops futs.
Proof.
  intros Hh Hd. unfold hold_update. destruct (ps_chans s !! cu_scid m) as [fid|]; [|done].
  destruct (ps_futs s !! fid) as [pe|] eqn:Hpe; [|done]. intros [= <-].
  destruct (Hh fid pe Hpe) as (H1 & H2 & H3).
  apply held_from_insert; [done|..]; repeat case_match; try done;
    try (intros h Hx; cbn [pe_ann] in Hx; by apply H1); held_side H2 H3 Hd.
Qed.

Lemma hold_node_one_held pops sg m fs fid :
  delivered pops (ONodeAnn false sg m) → held_from pops fs.1 →
  held_from pops (hold_node_one sg m fs fid).1.
Proof.
  intros Hd Hh. unfold hold_node_one. destruct (fs.1 !! fid) as [pe|] eqn:Hpe; [|done].
  destruct (pe_ann pe) as [ha|] eqn:Ha; [|done]. cbn [fst].
  destruct (Hh fid pe Hpe) as (H1 & H2 & H3).
  apply held_from_insert; [done|..]; repeat case_match; try done;
    try (intros h Hx; cbn [pe_ann] in Hx; apply H1; congruence); held_side H2 H3 Hd.
Qed.

Lemma hold_node_held pops s sg m futs :
  held_from pops (ps_futs s) → delivered pops (ONodeAnn false sg m) →
  hold_node s sg m = Some futs → held_from pops futs.
Proof.
  intros Hh Hd. unfold hold_node. destruct (ps_nodes s !! nm_nid m) as [fids|]; [|done].
  assert (∀ l fs, held_from pops fs.1 → held_from pops (foldl (hold_node_one sg m) fs l).1) as Hf.
  { induction l as [|x l IH]; intros fs H; [done|]. simpl. apply IH. by apply hold_node_one_held. }
  specialize (Hf fids (ps_futs s, false) Hh).
  destruct (foldl (hold_node_one sg m) (ps_futs s, false) fids) as [f found]. simpl in Hf.
  destruct found; [|done]. by intros [= <-].
Qed.

Lemma delivered_irrel_ann pops v sg a u t v' u' t' :
  delivered pops (OChanAnn v sg a u t) → delivered pops (OChanAnn v' sg a u' t').
Proof. done. Qed.
Lemma delivered_irrel_upd pops v sg m t ov v' t' ov' :
  delivered pops (OChanUpd v sg m t ov) → delivered pops (OChanUpd v' sg m t' ov').
Proof. done. Qed.
Lemma delivered_irrel_node pops v sg m v' :
  delivered pops (ONodeAnn v sg m) → delivered pops (ONodeAnn v' sg m).
Proof. done. Qed.

(** one synchronous entry point *)
Lemma psync_from pops cf s o :
  delivered pops o → held_from pops (ps_futs s) →
  held_from pops (ps_futs (psync cf s o).1.2) ∧ Forall (delivered pops) (psync cf s o).2.
Proof.
  intros Hd Hh. unfold psync.
  destruct o as [via sg a u now|scid cap ts f n1 n2|via sg m now ov|via sg m|scid perm now|nid perm now|now|].
  - case_match; [split; [exact Hh|constructor]|]. match goal with |- context [step cf (ps_g s) ?o0] => destruct (step cf (ps_g s) o0) end; simpl; split; [done|by constructor].
  - match goal with |- context [step cf (ps_g s) ?o0] => destruct (step cf (ps_g s) o0) end; simpl; split; [done|by constructor].
  - destruct ((step cf (ps_g s) (OChanUpd via sg m now ov)).1) as [v|e] eqn:Hr.
    + match goal with |- context [step cf (ps_g s) ?o0] => destruct (step cf (ps_g s) o0) end; simpl; split; [done|by constructor].
    + destruct (decide (e = ENoChan)) as [->|Hne].
      * destruct (hold_update s sg m) as [futs|] eqn:Hu.
        -- split; [|constructor]. cbn [fst snd ps_futs]. eapply hold_update_held; [done| |done]. by eapply delivered_irrel_upd.
        -- match goal with |- context [step cf (ps_g s) ?o0] => destruct (step cf (ps_g s) o0) end; simpl; split; [done|by constructor].
      * assert (∀ X Y : pres * pstate * list op,
                 match e with ENoChan => X | _ => Y end = Y) as Heq by (intros; by destruct e).
        rewrite Heq. match goal with |- context [step cf (ps_g s) ?o0] => destruct (step cf (ps_g s) o0) end; simpl; split; [done|by constructor].
  - destruct ((step cf (ps_g s) (ONodeAnn via sg m)).1) as [v|e] eqn:Hr.
    + match goal with |- context [step cf (ps_g s) ?o0] => destruct (step cf (ps_g s) o0) end; simpl; split; [done|by constructor].
    + destruct (decide (e = ENoChannels)) as [->|Hne].
      * destruct (hold_node s sg m) as [futs|] eqn:Hu.
        -- split; [|constructor]. cbn [fst snd ps_futs]. eapply hold_node_held; [done| |done]. by eapply delivered_irrel_node.
        -- match goal with |- context [step cf (ps_g s) ?o0] => destruct (step cf (ps_g s) o0) end; simpl; split; [done|by constructor].
      * assert (∀ X Y : pres * pstate * list op,
                 match e with ENoChannels => X | _ => Y end = Y) as Heq by (intros; by destruct e).
        rewrite Heq. match goal with |- context [step cf (ps_g s) ?o0] => destruct (step cf (ps_g s) o0) end; simpl; split; [done|by constructor].
  - match goal with |- context [step cf (ps_g s) ?o0] => destruct (step cf (ps_g s) o0) end; simpl; split; [done|by constructor].
  - match goal with |- context [step cf (ps_g s) ?o0] => destruct (step cf (ps_g s) o0) end; simpl; split; [done|by constructor].
  - match goal with |- context [step cf (ps_g s) ?o0] => destruct (step cf (ps_g s) o0) end; simpl; split; [done|by constructor].
  - simpl. split; [done|by constructor].
Qed.

Lemma psync_seq_from pops cf acc o :
  delivered pops o → held_from pops (ps_futs acc.1.1) → Forall (delivered pops) acc.2 →
  held_from pops (ps_futs (psync_seq cf acc o).1.1) ∧ Forall (delivered pops) (psync_seq cf acc o).2.
Proof.
  destruct acc as [[s relay] emitted]. simpl. intros Hd Hh Hf. unfold psync_seq.
  destruct (psync_from pops cf s o Hd Hh) as [H1 H2].
  destruct (psync cf s o) as [[r s'] ops]. simpl in *. split; [done|]. by apply Forall_app.
Qed.

Lemma foldl_psync_seq_from pops cf l acc :
  Forall (delivered pops) l → held_from pops (ps_futs acc.1.1) → Forall (delivered pops) acc.2 →
  held_from pops (ps_futs (foldl (psync_seq cf) acc l).1.1) ∧
  Forall (delivered pops) (foldl (psync_seq cf) acc l).2.
Proof.
  revert acc. induction l as [|o l IH]; intros acc Hl Hh Hf; [done|]. simpl.
  inversion Hl as [|? ? Ho Hl']; subst. destruct (psync_seq_from pops cf acc o) as [Ha Hb]; try done. by apply IH.
Qed.

Lemma replay_ops_from pops pe r now :
  (∀ h, pe_ann pe = Some h → delivered pops (OChanAnn false (ha_sg h) (ha_msg h) UNoLookup 0)) →
  (∀ h, pe_na pe = Some h ∨ pe_nb pe = Some h → delivered pops (ONodeAnn false (hn_sg h) (hn_msg h))) →
  (∀ h, pe_ua pe = Some h ∨ pe_ub pe = Some h → delivered pops (OChanUpd false (hu_sg h) (hu_msg h) 0 false)) →
  Forall (delivered pops) (replay_ops pe r now).
Proof.
  intros H1 H2 H3. unfold replay_ops. destruct (pe_ann pe) as [ha|] eqn:Ha; [|done].
  repeat apply Forall_app_2; repeat case_match; try done; constructor; try done.
  - by eapply delivered_irrel_ann, H1.
  - apply H2. by left.
  - apply H2. by right.
  - eapply delivered_irrel_upd, H3. by left.
  - eapply delivered_irrel_upd, H3. by right.
Qed.

Lemma resolve_one_from pops cf now acc fid :
  held_from pops (ps_futs acc.1.1) → Forall (delivered pops) acc.2 →
  held_from pops (ps_futs (resolve_one cf now acc fid).1.1) ∧
  Forall (delivered pops) (resolve_one cf now acc fid).2.
Proof.
  destruct acc as [[s relay] emitted]. simpl. intros Hh Hf. unfold resolve_one.
  destruct (ps_futs s !! fid) as [pe|] eqn:Hpe; [|done].
  destruct (pe_ann pe) as [ha|] eqn:Ha; [|done]. destruct (pe_complete pe) as [r|]; [|done].
  destruct (Hh fid pe Hpe) as (H1 & H2 & H3).
  apply foldl_psync_seq_from; simpl; [|apply held_from_insert; try done; by intros h [?|?]|done].
  apply replay_ops_from; try done.
Qed.

Lemma poll_from pops cf s now :
  held_from pops (ps_futs s) →
  held_from pops (ps_futs (poll cf s now).1.2) ∧ Forall (delivered pops) (poll cf s now).2.
Proof.
  intros Hh. unfold poll.
  match goal with |- context [foldl (resolve_one cf now) ?a ?l] =>
    assert (held_from pops (ps_futs (foldl (resolve_one cf now) a l).1.1) ∧
            Forall (delivered pops) (foldl (resolve_one cf now) a l).2) as H end.
  { match goal with |- context [foldl _ ?a ?l] => generalize l; intros l0;
      assert (held_from pops (ps_futs a.1.1) ∧ Forall (delivered pops) a.2) as H0 by (split; [done|constructor]);
      revert H0; generalize a end.
    induction l0 as [|x l0 IH]; intros a [H1 H2]; [done|]. simpl. apply IH. by apply resolve_one_from. }
  destruct (foldl (resolve_one cf now) _ _) as [[s2 relay] emitted]. done.
Qed.

Lemma rgs_step_op_from pops cf acc o :
  delivered pops o → held_from pops (ps_futs acc.1) → Forall (delivered pops) acc.2 →
  held_from pops (ps_futs (rgs_step_op cf acc o).1) ∧ Forall (delivered pops) (rgs_step_op cf acc o).2.
Proof.
  intros Hd Hh Hf. unfold rgs_step_op. destruct (psync_from pops cf acc.1 o Hd Hh) as [H1 H2].
  destruct (psync cf acc.1 o) as [[r s'] ops]. simpl in *. split; [done|]. by apply Forall_app.
Qed.

Lemma rgs_from pops cf s sn time now :
  rgs_in pops → held_from pops (ps_futs s) →
  held_from pops (ps_futs (rgs_apply cf s sn time now).1.2) ∧
  Forall (delivered pops) (rgs_apply cf s sn time now).2.
Proof.
  intros Hr Hh. unfold rgs_apply.
  assert (∀ anns acc, held_from pops (ps_futs acc.1) → Forall (delivered pops) acc.2 →
            held_from pops (ps_futs (rgs_anns cf sn anns acc).2.1) ∧
            Forall (delivered pops) (rgs_anns cf sn anns acc).2.2) as Ha.
  { induction anns as [|a rest IH]; intros acc H1 H2; [done|]. cbn [rgs_anns].
    match goal with |- context [psync cf acc.1 ?o] =>
      destruct (psync_from pops cf acc.1 o) as [H3 H4]; [by right|done|];
      destruct (psync cf acc.1 o) as [[r s'] ops] end.
    simpl in *. assert (Forall (delivered pops) (acc.2 ++ ops)) by (by apply Forall_app).
    repeat case_match; simpl; try done; by apply IH. }
  destruct (Ha (sn_anns sn) (s, []) Hh (List.Forall_nil _)) as [H1 H2].
  destruct (rgs_anns cf sn (sn_anns sn) (s, [])) as [[e|] acc1]; [by destruct acc1|].
  assert (∀ l acc, held_from pops (ps_futs acc.1) → Forall (delivered pops) acc.2 →
            held_from pops (ps_futs (foldl (λ acc m, rgs_step_op cf acc (ONodeAnn false None m)) acc l).1) ∧
            Forall (delivered pops) (foldl (λ acc m, rgs_step_op cf acc (ONodeAnn false None m)) acc l).2) as Hn.
  { induction l as [|m l IH]; intros acc H3 H4; [done|]. simpl.
    destruct (rgs_step_op_from pops cf acc (ONodeAnn false None m)); [by right|done..|]. by apply IH. }
  destruct (Hn (rgs_node_mod (ps_g s) sn <$> sn_reminders sn) acc1 H1 H2) as [H3 H4].
  destruct (sn_upds sn) as [|u us] eqn:Hu; [done|]. rewrite <-Hu.
  assert (∀ l acc, held_from pops (ps_futs acc.1) → Forall (delivered pops) acc.2 →
            held_from pops (ps_futs (foldl (rgs_upd_one cf sn now) acc l).1) ∧
            Forall (delivered pops) (foldl (rgs_upd_one cf sn now) acc l).2) as Hup.
  { induction l as [|x l IH]; intros acc H5 H6; [done|]. simpl.
    assert (held_from pops (ps_futs (rgs_upd_one cf sn now acc x).1) ∧
            Forall (delivered pops) (rgs_upd_one cf sn now acc x).2) as [? ?].
    { unfold rgs_upd_one. case_match; [|done]. apply rgs_step_op_from; [by right|done..]. }
    by apply IH. }
  destruct (Hup (sn_upds sn) _ H3 H4) as [H5 H6].
  destruct time as [t|]; [|exact (conj H5 H6)]. apply (rgs_step_op_from pops cf _ (OPrune t)); [by right|done..].
Qed.

Lemma pstep_from pops cf s o :
  held_from pops (ps_futs s) →
  held_from (pops ++ [o]) (ps_futs (pstep cf s o).1.2) ∧
  Forall (delivered (pops ++ [o])) (pstep cf s o).2.
Proof.
  intros Hh. apply (held_from_mono _ o) in Hh.
  assert (o ∈ pops ++ [o]) as Hin by (apply elem_of_app; right; apply elem_of_list_here).
  destruct o as [o|via sg a fid pre now|fid r|now|sn time now]; simpl.
  - apply psync_from; [|done]. destruct o; simpl; eauto 10.
  - unfold ann_async. repeat case_match; simpl; simplify_eq; try done.
    all: split; [|first [by constructor | constructor; [|by constructor]; simpl; right; eauto 10]].
    all: try done.
    all: apply held_from_insert; try done; simpl.
    all: try (intros h [= <-]; simpl; right; eauto 10).
    all: try (by intros h [?|?]).
    all: intros h Hx; match goal with H : ps_futs _ !! ?f = Some ?pe |- _ =>
           destruct (Hh f pe H) as (_ & H2' & H3') end; first [by apply H2'|by apply H3'].
  - split; [|done]. destruct (ps_futs s !! fid) as [pe|] eqn:Hpe; [|done].
    destruct (Hh fid pe Hpe) as (H1 & H2 & H3). by apply held_from_insert.
  - by apply poll_from.
  - apply rgs_from; [|done]. by exists sn, time, now.
Qed.

(** ** The theorems *)
Lemma pemitted_snoc cf s pops o :
  pemitted cf s (pops ++ [o]) = pemitted cf s pops ++ (pstep cf (prun cf s pops) o).2.
Proof.
  unfold pemitted, prun. rewrite !foldl_app. simpl.
  assert (∀ l (acc : pstate * list op),
    (foldl (λ (acc : pstate * list op) o, let '(_, s', e) := pstep cf acc.1 o in (s', acc.2 ++ e)) acc l).1
    = foldl (λ s o, (pstep cf s o).1.2) acc.1 l) as H.
  { induction l as [|x l IH]; intros acc; [done|]. simpl. rewrite IH.
    by destruct (pstep cf acc.1 x) as [[? ?] ?]. }
  rewrite H. simpl. by destruct (pstep cf _ o) as [[? ?] ?].
Qed.

Lemma prun_snoc cf s pops o : prun cf s (pops ++ [o]) = (pstep cf (prun cf s pops) o).1.2.
Proof. unfold prun. by rewrite foldl_app. Qed.

Lemma prun_from cf pops :
  held_from pops (ps_futs (prun cf p_init pops)) ∧ Forall (delivered pops) (pemitted cf p_init pops).
Proof.
  induction pops as [|o pops [IH1 IH2]] using rev_ind.
  - split; [|by constructor]. intros fid pe H. change (ps_futs (prun cf p_init [])) with (∅ : gmap Z pend) in H. by apply lookup_empty_Some in H.
  - rewrite prun_snoc, pemitted_snoc. destruct (pstep_from pops cf (prun cf p_init pops) o IH1) as [H1 H2].
    split; [done|]. apply Forall_app. split; [|done].
    eapply Forall_impl; [done|]. intros x. apply delivered_mono.
Qed.

(** The graph reached through the layered model is the graph of a run of the synchronous model over
    messages that were all delivered (or synthesised, unsigned, from a delivered snapshot); being a
    run of the synchronous model, it is well formed and authentic with respect to those messages. *)
Theorem async_refines cf pops :
  let g := ps_g (prun cf p_init pops) in
  let ops := pemitted cf p_init pops in
  g = run cf g_init ops ∧ Forall (delivered pops) ops ∧ wf g ∧ authentic cf ops g.
Proof.
  simpl. pose proof (prun_refines cf p_init pops) as Hr. simpl in Hr.
  split_and!.
  - done.
  - apply prun_from.
  - rewrite Hr. apply run_wf, init_wf.
  - rewrite Hr. apply run_authentic.
Qed.

(** ** Rapid gossip sync: an incremental entry replaces exactly the flagged fields *)
Theorem rgs_incremental_preserves_unmentioned g sn u old :
  rgs_incremental u = true →
  g_dir g (ru_scid u) (Z.testbit (ru_flags u) 0) = Some old →
  ∃ m, rgs_synth g sn u = Some m ∧
    cu_scid m = ru_scid u ∧ dir_is_two_to_one m = Z.testbit (ru_flags u) 0 ∧
    cu_ts m = backdated sn ∧
    cu_cltv m = opt_or (ru_cltv u) (ui_cltv old) ∧
    cu_hmin m = opt_or (ru_hmin u) (ui_hmin old) ∧
    cu_hmax m = opt_or (ru_hmax u) (ui_hmax old) ∧
    cu_base m = opt_or (ru_base u) (ui_base old) ∧
    cu_prop m = opt_or (ru_prop u) (ui_prop old).
Proof.
  intros Hinc Hold. unfold rgs_synth. rewrite Hinc. unfold g_dir in Hold. rewrite Hold.
  eexists. split; [done|]. simpl. split_and!; try done.
  unfold dir_is_two_to_one. simpl.
  rewrite <-!Z.bit0_odd, Z.land_spec. change (Z.testbit 3 0) with true. by rewrite andb_true_r.
Qed.

(** … and when the graph accepts it, the stored direction is exactly that *)
Theorem rgs_incremental_effect cf g sn u old m now v g' :
  rgs_incremental u = true →
  g_dir g (ru_scid u) (Z.testbit (ru_flags u) 0) = Some old →
  rgs_synth g sn u = Some m →
  step cf g (OChanUpd false None m now false) = (GOk v, g') →
  ∃ new, g_dir g' (ru_scid u) (Z.testbit (ru_flags u) 0) = Some new ∧
    ui_ts new = backdated sn ∧
    ui_cltv new = opt_or (ru_cltv u) (ui_cltv old) ∧
    ui_hmin new = opt_or (ru_hmin u) (ui_hmin old) ∧
    ui_hmax new = opt_or (ru_hmax u) (ui_hmax old) ∧
    ui_base new = opt_or (ru_base u) (ui_base old) ∧
    ui_prop new = opt_or (ru_prop u) (ui_prop old).
Proof.
  intros Hinc Hold Hs Hstep.
  destruct (rgs_incremental_preserves_unmentioned g sn u old Hinc Hold) as (m' & Hm' & Hsc & Hd & Hts & H1 & H2 & H3 & H4 & H5).
  rewrite Hs in Hm'. injection Hm' as <-.
  simpl in Hstep. apply chan_upd_accept in Hstep as (c & (Hc & _) & ->).
  rewrite <-Hsc, <-Hd. unfold g_dir, upd_result. simpl. rewrite lookup_insert. simpl.
  exists (upd_info_of m false). split.
  - unfold set_dir, chan_dir. by destruct (dir_is_two_to_one m).
  - simpl. split_and!; congruence.
Qed.

(** ** Authenticity through the pending-checks buffer and rapid gossip sync
    Whatever was delivered, held, resolved (in any order, with any result) or applied from
    snapshots: every direction and every node announcement in the graph is a DELIVERED message with
    the signature verdict it was delivered with (or an unsigned one synthesised from a snapshot),
    and when that verdict exists — the message came in through a signed entry point, directly or
    held and replayed — it is "verifies under the node of that direction" / "under the node". *)
Theorem async_authentic cf pops :
  let g := ps_g (prun cf p_init pops) in
  (∀ scid c, g_chans g !! scid = Some c →
     ((∃ sg a u, delivered pops (OChanAnn false sg a u 0) ∧ ca_scid a = scid ∧
         c_one c = ca_n1 a ∧ c_two c = ca_n2 a ∧ c_features c = ca_features a ∧
         utxo_value u = inr (c_cap c) ∧ ca_chain a = cfg_chain cf ∧
         (∀ s, sg = Some s → ann_authentic cf a s)) ∨
      (∃ ts, delivered pops (OPartialAnn scid (c_cap c) ts (c_features c) (c_one c) (c_two c)))) ∧
     ∀ d ui, chan_dir c d = Some ui →
       ∃ sg m, delivered pops (OChanUpd false sg m 0 false) ∧ cu_scid m = scid ∧
         dir_is_two_to_one m = d ∧ ui = upd_info_of m (is_some_b sg) ∧ cu_chain m = cfg_chain cf ∧
         (∀ s, sg = Some s → s = Some (dir_node c d) ∧ pk_ok cf (dir_node c d) = true)) ∧
  (∀ nid n a, g_nodes g !! nid = Some n → n_ann n = Some a →
     ∃ sg m, delivered pops (ONodeAnn false sg m) ∧ nm_nid m = nid ∧ na_ts a = nm_ts m ∧
       na_content a = nm_content m ∧ (∀ b, sg = Some b → b = true ∧ pk_ok cf nid = true)).
Proof.
  simpl. destruct (async_refines cf pops) as (_ & Hd & _ & Hc & Hn). simpl in *.
  rewrite Forall_forall in Hd. split.
  - intros scid c Hsc. destruct (Hc scid c Hsc) as [Hj Hdir]. split.
    + destruct Hj as [(via & sg & a & u & now & Hin & ?)|(ts & Hin)].
      * left. exists sg, a, u. split; [exact (Hd _ Hin)|done].
      * right. exists ts. exact (Hd _ Hin).
    + intros d ui Hui. destruct (Hdir d ui Hui) as (via & sg & m & now & Hin & ?).
      exists sg, m. split; [exact (Hd _ Hin)|done].
  - intros nid n a Hn1 Hn2. destruct (Hn nid n a Hn1 Hn2) as (via & sg & m & Hin & ?).
    exists sg, m. split; [exact (Hd _ Hin)|done].
Qed.
