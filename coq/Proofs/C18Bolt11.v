(** C18, BOLT 11 part 2: integers, timestamp, tagged-field framing, hrp amount grammar, and the
    signed content.  Lemmas only; statements are in Props/C18.v. *)
Require Import LdkV.Prim.U64 LdkV.Model.Bech32 LdkV.Model.Bolt11.
Open Scope Z_scope.

(** * Base-32 integers *)

Lemma parse_int_be_snoc w ds b :
  parse_int_be w (ds ++ [b]) =
  match parse_int_be w ds with
  | None => None
  | Some x => if x * 32 <? 2 ^ w then (if x * 32 + b <? 2 ^ w then Some (x * 32 + b) else None) else None
  end.
Proof. unfold parse_int_be. rewrite fold_left_app. reflexivity. Qed.

Lemma int_digits_roundtrip fuel : forall x, 0 <= x < 2 ^ 64 -> x < 32 ^ Z.of_nat fuel ->
  parse_int_be 64 (rev (int_digits_rev fuel x)) = Some x.
Proof.
  induction fuel as [|f IH]; intros x Hx Hf.
  - change (32 ^ Z.of_nat 0) with 1 in Hf. assert (x = 0) by lia. subst. reflexivity.
  - cbn [int_digits_rev]. destruct (Z.eqb_spec x 0) as [->|Hx0]; [reflexivity|].
    cbn [rev]. rewrite parse_int_be_snoc.
    rewrite Nat2Z.inj_succ, Z.pow_succ_r in Hf by lia.
    rewrite IH by lia.
    destruct (Z.ltb_spec (x / 32 * 32) (2 ^ 64)); [|lia].
    destruct (Z.ltb_spec (x / 32 * 32 + x mod 32) (2 ^ 64)); [f_equal; lia | lia].
Qed.

Lemma encode_int_roundtrip x : 0 <= x < 2 ^ 64 -> parse_int_be 64 (encode_int_be x) = Some x.
Proof.
  intros Hx. unfold encode_int_be. apply int_digits_roundtrip; [exact Hx|].
  change (32 ^ Z.of_nat 13) with 36893488147419103232. change (2 ^ 64) with 18446744073709551616 in Hx. lia.
Qed.

Lemma parse_int_be_zeros w k ds : 0 < w -> parse_int_be w (repeat 0 k ++ ds) = parse_int_be w ds.
Proof.
  intros Hw. unfold parse_int_be. rewrite fold_left_app. f_equal.
  induction k as [|k IH]; [reflexivity|]. cbn [repeat fold_left].
  change (0 * 32) with 0. change (0 + 0) with 0.
  assert (H0 : 0 <? 2 ^ w = true) by (apply Z.ltb_lt, Z.pow_pos_nonneg; lia).
  rewrite H0. exact IH.
Qed.

Lemma int_digits_length fuel : forall x k, 0 <= x < 32 ^ Z.of_nat k ->
  (List.length (int_digits_rev fuel x) <= k)%nat.
Proof.
  induction fuel as [|f IH]; intros x k Hx; [cbn; lia|].
  cbn [int_digits_rev]. destruct (Z.eqb_spec x 0) as [->|Hx0]; [cbn; lia|].
  destruct k as [|k]; [change (32 ^ Z.of_nat 0) with 1 in Hx; lia|].
  cbn [List.length]. apply le_n_S. apply IH.
  rewrite Nat2Z.inj_succ, Z.pow_succ_r in Hx by lia. lia.
Qed.

Lemma int_digits_fe fuel : forall x, 0 <= x -> forallb fe_ok (int_digits_rev fuel x) = true.
Proof.
  induction fuel as [|f IH]; intros x Hx; [reflexivity|].
  cbn [int_digits_rev]. destruct (Z.eqb_spec x 0); [reflexivity|].
  cbn [forallb]. rewrite IH by lia. unfold fe_ok. lia.
Qed.

Lemma encode_timestamp_length t : 0 <= t < 2 ^ 35 -> List.length (encode_timestamp t) = 7%nat.
Proof.
  intros Ht. unfold encode_timestamp. cbv zeta. rewrite app_length, repeat_length.
  assert (Hl : (List.length (encode_int_be t) <= 7)%nat).
  { unfold encode_int_be. rewrite rev_length. apply int_digits_length.
    change (32 ^ Z.of_nat 7) with (2 ^ 35). exact Ht. }
  lia.
Qed.

Lemma timestamp_roundtrip t : 0 <= t < 2 ^ 35 -> parse_int_be 64 (encode_timestamp t) = Some t.
Proof.
  intros Ht. unfold encode_timestamp. cbv zeta. rewrite parse_int_be_zeros by lia.
  apply encode_int_roundtrip. change (2 ^ 35) with 34359738368 in Ht. change (2 ^ 64) with 18446744073709551616. lia.
Qed.

(** * Tagged-field framing *)

Lemma field_ok_len f : field_ok f = true -> 0 <= Z.of_nat (List.length (snd f)) < 1024.
Proof. unfold field_ok. intros Hf. lia. Qed.

Lemma ser_fields_cons tag d fs :
  ser_fields ((tag, d) :: fs) =
  tag :: Z.of_nat (List.length d) / 32 :: Z.of_nat (List.length d) mod 32 :: d ++ ser_fields fs.
Proof. unfold ser_fields. cbn [map List.concat ser_field app]. reflexivity. Qed.

Lemma fields_roundtrip_go fs : forall fuel, (List.length fs < fuel)%nat ->
  forallb field_ok fs = true -> parse_fields_go fuel (ser_fields fs) = ROk fs.
Proof.
  induction fs as [|[tag d] fs IH]; intros fuel Hfuel Hok.
  - destruct fuel; reflexivity.
  - cbn [forallb] in Hok. apply andb_true_iff in Hok. destruct Hok as [Hf Hfs].
    pose proof (field_ok_len _ Hf) as Hlen. cbn [snd] in Hlen.
    rewrite ser_fields_cons. destruct fuel as [|fuel]; [cbn in Hfuel; lia|].
    cbn [parse_fields_go].
    replace (Z.to_nat (Z.of_nat (List.length d) / 32 * 32 + Z.of_nat (List.length d) mod 32)) with (List.length d) by lia.
    rewrite app_length.
    destruct (Nat.ltb_spec (List.length d + List.length (ser_fields fs)) (List.length d)); [lia|].
    rewrite skipn_app, skipn_all, Nat.sub_diag. cbn [skipn app].
    rewrite IH by (cbn [List.length] in Hfuel; try lia; exact Hfs).
    rewrite firstn_app, firstn_all, Nat.sub_diag. cbn [firstn]. rewrite app_nil_r. reflexivity.
Qed.

Lemma ser_fields_length fs : (3 * List.length fs <= List.length (ser_fields fs))%nat.
Proof.
  induction fs as [|[tag d] fs IH]; [cbn; lia|].
  rewrite ser_fields_cons. cbn [List.length]. rewrite app_length. lia.
Qed.

Lemma fields_roundtrip fs : forallb field_ok fs = true -> parse_fields (ser_fields fs) = ROk fs.
Proof.
  intros Hok. unfold parse_fields. apply fields_roundtrip_go; [|exact Hok].
  pose proof (ser_fields_length fs). lia.
Qed.

Lemma data_roundtrip ts fs : 0 <= ts < 2 ^ 35 -> forallb field_ok fs = true ->
  parse_data (ser_data ts fs) = ROk (ts, fs).
Proof.
  intros Hts Hok. unfold parse_data, ser_data.
  pose proof (encode_timestamp_length ts Hts) as Hl.
  rewrite app_length, Hl.
  destruct (Nat.ltb_spec (7 + List.length (ser_fields fs)) 7); [lia|].
  rewrite firstn_app, Hl, Nat.sub_diag. rewrite firstn_O, app_nil_r.
  rewrite firstn_all2 by lia. rewrite timestamp_roundtrip by exact Hts.
  rewrite skipn_app, Hl, Nat.sub_diag. rewrite skipn_O.
  rewrite skipn_all2 by lia. cbn [app].
  rewrite fields_roundtrip by exact Hok. reflexivity.
Qed.

(** Consequently the serialisation is injective: what is signed determines timestamp and fields. *)
Lemma ser_data_inj ts fs ts' fs' :
  0 <= ts < 2 ^ 35 -> 0 <= ts' < 2 ^ 35 -> forallb field_ok fs = true -> forallb field_ok fs' = true ->
  ser_data ts fs = ser_data ts' fs' -> ts = ts' /\ fs = fs'.
Proof.
  intros H1 H2 H3 H4 Heq.
  pose proof (data_roundtrip ts fs H1 H3) as R1. pose proof (data_roundtrip ts' fs' H2 H4) as R2.
  rewrite Heq in R1. rewrite R1 in R2. inversion R2. split; reflexivity.
Qed.

(** * Decimal numbers *)

Lemma parse_dec_go_snoc s : forall acc c,
  parse_dec_go acc (s ++ [c]) =
  match parse_dec_go acc s with
  | None => None
  | Some v => if v * 10 + (c - 48) <? 2 ^ 64 then Some (v * 10 + (c - 48)) else None
  end.
Proof.
  induction s as [|d s IH]; intros acc c; cbn [app parse_dec_go]; [reflexivity|].
  destruct (acc * 10 + (d - 48) <? 2 ^ 64); [apply IH | reflexivity].
Qed.

Lemma dec_digits_roundtrip fuel : forall x, 0 <= x < 2 ^ 64 -> x < 10 ^ Z.of_nat fuel ->
  (1 <= fuel)%nat -> parse_dec (rev (dec_digits_rev fuel x)) = Some x.
Proof.
  induction fuel as [|f IH]; intros x Hx Hf H1; [lia|].
  cbn [dec_digits_rev]. destruct (Z.ltb_spec x 10) as [Hlt|Hge].
  - cbn [rev app]. unfold parse_dec. cbn [parse_dec_go].
    destruct (Z.ltb_spec (0 * 10 + (48 + x - 48)) (2 ^ 64)); [f_equal; lia | lia].
  - cbn [rev]. unfold parse_dec. rewrite parse_dec_go_snoc.
    rewrite Nat2Z.inj_succ, Z.pow_succ_r in Hf by lia.
    fold (parse_dec (rev (dec_digits_rev f (x / 10)))).
    destruct f as [|f']; [change (10 ^ Z.of_nat 0) with 1 in Hf; lia|].
    rewrite IH by lia.
    destruct (Z.ltb_spec (x / 10 * 10 + (48 + x mod 10 - 48)) (2 ^ 64)); [f_equal; lia | lia].
Qed.

Lemma print_dec_roundtrip x : 0 <= x < 2 ^ 64 -> parse_dec (print_dec x) = Some x.
Proof.
  intros Hx. unfold print_dec. apply dec_digits_roundtrip; [exact Hx | | lia].
  change (10 ^ Z.of_nat 20) with 100000000000000000000. change (2 ^ 64) with 18446744073709551616 in Hx. lia.
Qed.

Lemma dec_digits_are_digits fuel : forall x, 0 <= x -> forallb is_digit (dec_digits_rev fuel x) = true.
Proof.
  induction fuel as [|f IH]; intros x Hx; [reflexivity|].
  cbn [dec_digits_rev]. destruct (Z.ltb_spec x 10).
  - cbn [forallb]. unfold is_digit. lia.
  - cbn [forallb]. rewrite IH by lia. unfold is_digit. lia.
Qed.

Lemma print_dec_digits x : 0 <= x -> forallb is_digit (print_dec x) = true.
Proof.
  intros Hx. unfold print_dec. rewrite forallb_forall. intros c Hc. apply in_rev in Hc.
  pose proof (dec_digits_are_digits 20 x Hx) as Hd. rewrite forallb_forall in Hd. apply Hd, Hc.
Qed.

Lemma dec_digits_rev_nonempty f x : dec_digits_rev (S f) x <> [].
Proof. change (dec_digits_rev (S f) x) with (if x <? 10 then [48 + x] else (48 + x mod 10) :: dec_digits_rev f (x / 10)). destruct (x <? 10); discriminate. Qed.

Lemma print_dec_nonempty x : print_dec x <> [].
Proof.
  unfold print_dec. intros E. apply (f_equal (@rev Z)) in E. rewrite rev_involutive in E.
  exact (dec_digits_rev_nonempty 19 x E).
Qed.

(** * Human-readable part: printing then parsing *)

Lemma digit_lt128 c : is_digit c = true -> (0 <=? c) && (c <? 128) = true.
Proof. unfold is_digit. lia. Qed.

Lemma hrp_sm_digits ds : forall st cur amt rest,
  (st = HParseN \/ st = HCurrency \/ st = HAmount) -> ds <> [] -> forallb is_digit ds = true ->
  hrp_sm st cur amt [] (ds ++ rest) = hrp_sm HAmount cur (amt ++ ds) [] rest.
Proof.
  induction ds as [|d ds IH]; intros st cur amt rest Hst Hne Hd; [congruence|].
  cbn [forallb] in Hd. apply andb_true_iff in Hd. destruct Hd as [Hd Hds].
  cbn [app hrp_sm].
  assert (Hn : hrp_next st d = ROk HAmount).
  { unfold hrp_next. rewrite (digit_lt128 d Hd). cbn [negb]. rewrite Hd.
    destruct Hst as [-> | [-> | ->]]; reflexivity. }
  rewrite Hn.
  destruct ds as [|d2 ds].
  - cbn [app]. reflexivity.
  - rewrite IH; [| right; right; reflexivity | discriminate | exact Hds].
    rewrite <- app_assoc. reflexivity.
Qed.

Lemma hrp_sm_prefix c rest :
  hrp_sm HStart [] [] [] ([108; 110] ++ currency_str c ++ rest) = hrp_sm HCurrency (currency_str c) [] [] rest.
Proof. destruct c; reflexivity. Qed.

Lemma currency_roundtrip c : currency_of_str (currency_str c) = Some c.
Proof. destruct c; reflexivity. Qed.

Lemma si_roundtrip p : si_of_char (si_char p) = Some p.
Proof. destruct p; reflexivity. Qed.

Lemma hrp_sm_si p cur amt :
  hrp_sm HAmount cur amt [] [si_char p] = ROk (HSi, cur, amt, [si_char p]).
Proof. destruct p; reflexivity. Qed.

(** Printing and re-parsing an hrp with an amount and a prefix (what the builder produces). *)
Lemma hrp_roundtrip_amount c a p :
  0 <= a -> a * multiplier p < 2 ^ 64 ->
  parse_hrp (print_hrp {| h_currency := c; h_amount := Some a; h_si := Some p |}) =
  ROk {| h_currency := c; h_amount := Some a; h_si := Some p |}.
Proof.
  intros Ha Hm. unfold parse_hrp, print_hrp. cbn [h_currency h_amount h_si].
  rewrite hrp_sm_prefix.
  rewrite hrp_sm_digits; [| right; left; reflexivity | apply print_dec_nonempty | apply print_dec_digits, Ha].
  cbn [app]. rewrite hrp_sm_si. cbn [is_final negb].
  rewrite currency_roundtrip.
  assert (Ha64 : 0 <= a < 2 ^ 64) by (destruct p; cbn [multiplier] in Hm; lia).
  destruct (print_dec a) as [|d ds] eqn:E; [exfalso; eapply print_dec_nonempty; exact E|].
  rewrite <- E. rewrite print_dec_roundtrip by exact Ha64.
  rewrite si_roundtrip.
  destruct (Z.leb_spec (2 ^ 64) (a * multiplier p)); [lia | reflexivity].
Qed.

(** Without amount. *)
Lemma hrp_roundtrip_noamount c :
  parse_hrp (print_hrp {| h_currency := c; h_amount := None; h_si := None |}) =
  ROk {| h_currency := c; h_amount := None; h_si := None |}.
Proof. destruct c; reflexivity. Qed.

(** The builder's amount: round trip, exact millisatoshi value, precision check passes. *)
Lemma amount_roundtrip c msat h :
  0 <= msat -> build_amount c msat = ROk h ->
  parse_hrp (print_hrp h) = ROk h /\ amount_msat h = Some msat /\ check_amount h = true.
Proof.
  intros Hm Hb. unfold build_amount in Hb. cbv zeta in Hb.
  destruct (Z.leb_spec (2 ^ 64) (msat * 10)) as [|Hlt]; [discriminate|].
  inversion Hb as [Hh]. clear Hb.
  set (p := if msat * 10 mod 1000000000 =? 0 then Milli
            else if msat * 10 mod 1000000 =? 0 then Micro
            else if msat * 10 mod 1000 =? 0 then Nano else Pico) in *.
  assert (Hdiv : msat * 10 mod multiplier p = 0).
  { unfold p.
    destruct (Z.eqb_spec (msat * 10 mod 1000000000) 0); [assumption|].
    destruct (Z.eqb_spec (msat * 10 mod 1000000) 0); [assumption|].
    destruct (Z.eqb_spec (msat * 10 mod 1000) 0); [assumption|]. apply Z.mod_1_r. }
  assert (Hmp : 0 < multiplier p) by (destruct p; cbn; lia).
  assert (Hmul : msat * 10 / multiplier p * multiplier p = msat * 10).
  { pose proof (Z.div_mod (msat * 10) (multiplier p) ltac:(lia)). lia. }
  split; [|split].
  - apply hrp_roundtrip_amount; [apply Z.div_pos; lia | rewrite Hmul; exact Hlt].
  - unfold amount_msat, amount_pico_btc. cbn [h_amount h_si]. rewrite Hmul.
    destruct (Z.ltb_spec (msat * 10) (2 ^ 64)); [f_equal; lia | lia].
  - unfold check_amount, amount_pico_btc. cbn [h_amount h_si]. rewrite Hmul.
    destruct (Z.ltb_spec (msat * 10) (2 ^ 64)); [lia | reflexivity].
Qed.

(** picoBTC amounts that are not a multiple of 10 (sub-millisatoshi) are refused. *)
Lemma imprecise_amount_rejected h p :
  amount_pico_btc h = Some p -> p mod 10 <> 0 -> check_amount h = false.
Proof. intros Hp Hn. unfold check_amount. rewrite Hp. apply Z.eqb_neq, Hn. Qed.

(** * Signed content *)

Section SignedContent.
  Variable hash : Type.
  Variable pubkey : Type.
  Variable sha : list Z -> hash.
  Variable verify : hash -> list Z -> pubkey -> bool.
  Variable recover : hash -> list Z -> Z -> option pubkey.
  Variable decode_pk : list Z -> option pubkey.
  (** ECDSA public-key recovery returns a key under which the signature verifies. *)
  Hypothesis recover_sound : forall h sg rid pk, recover h sg rid = Some pk -> verify h sg pk = true.

  Lemma signed_content (s : signed_raw) :
    check_signature hash pubkey sha verify recover decode_pk s = true ->
    exists pk,
      payee_pub_key hash pubkey sha recover decode_pk s = Some pk /\
      verify (sha (signable_bytes (print_hrp (sr_hrp s)) (ser_data (sr_ts s) (sr_fields s)))) (sr_sig s) pk = true.
  Proof.
    unfold check_signature, payee_pub_key, signable_hash. intros Hc.
    destruct (payee_of_fields pubkey decode_pk (sr_fields s)) as [pk|].
    - exists pk. split; [reflexivity | exact Hc].
    - destruct (recover _ (sr_sig s) (sr_rid s)) as [pk|] eqn:E; [|discriminate].
      exists pk. split; [reflexivity|]. eapply recover_sound. exact E.
  Qed.

  (** Which [n] field is authoritative when there are several (or when other fields of tag 19 with
      a different length precede it): the first 53-symbol one.  Whatever follows it, including
      further [n] fields, the signature is checked against that key and that key is the one reported. *)
  Lemma filter_none {A} (f : A -> bool) l : (forall x, In x l -> f x = false) -> filter f l = [].
  Proof.
    induction l as [|x l IH]; intros Hf; [reflexivity|]. cbn [filter].
    rewrite (Hf x (or_introl eq_refl)). apply IH. intros y Hy. apply Hf. right. exact Hy.
  Qed.

  Lemma first_payee_field_first (pre : list field) d (post : list field) : List.length d = 53%nat ->
    (forall f, In f pre -> is_payee_field f = false) ->
    first_payee_field (pre ++ (TAG_PAYEE_PUB_KEY, d) :: post) = Some d.
  Proof.
    intros Hl Hpre. unfold first_payee_field. rewrite filter_app, (filter_none _ _ Hpre). cbn [app filter].
    unfold is_payee_field at 1. cbn [fst snd]. rewrite Z.eqb_refl, Hl. reflexivity.
  Qed.

  Lemma signed_content_first_n (s : signed_raw) (pre : list field) d (post : list field) pk :
    sr_fields s = pre ++ (TAG_PAYEE_PUB_KEY, d) :: post -> List.length d = 53%nat ->
    (forall f, In f pre -> is_payee_field f = false) -> decode_pk d = Some pk ->
    check_signature hash pubkey sha verify recover decode_pk s = true ->
    payee_pub_key hash pubkey sha recover decode_pk s = Some pk /\
    verify (sha (signable_bytes (print_hrp (sr_hrp s)) (ser_data (sr_ts s) (sr_fields s)))) (sr_sig s) pk = true.
  Proof.
    intros Hf Hl Hpre Hd Hc.
    assert (Hp : payee_of_fields pubkey decode_pk (sr_fields s) = Some pk).
    { unfold payee_of_fields. rewrite Hf, (first_payee_field_first pre d post Hl Hpre). exact Hd. }
    unfold check_signature in Hc. unfold payee_pub_key. rewrite Hp in Hc |- *.
    split; [reflexivity | exact Hc].
  Qed.

  (** Without any 53-symbol [n] field the reported key is the recovered one. *)
  Lemma signed_content_recovered (s : signed_raw) :
    (forall f, In f (sr_fields s) -> is_payee_field f = false) ->
    check_signature hash pubkey sha verify recover decode_pk s = true ->
    exists pk, recover (signable_hash hash sha s) (sr_sig s) (sr_rid s) = Some pk /\
               payee_pub_key hash pubkey sha recover decode_pk s = Some pk.
  Proof.
    intros Hn Hc.
    assert (Hp : payee_of_fields pubkey decode_pk (sr_fields s) = None).
    { unfold payee_of_fields, first_payee_field. rewrite (filter_none _ _ Hn). reflexivity. }
    unfold check_signature in Hc. unfold payee_pub_key. rewrite Hp in Hc |- *.
    destruct (recover (signable_hash hash sha s) (sr_sig s) (sr_rid s)) as [pk|]; [|discriminate].
    exists pk. split; reflexivity.
  Qed.

  (** Two accepted invoices with equal hrp, timestamp and fields are the same signed content:
      same hash. (The converse direction, that the hash commits to the content, is SHA-256
      collision resistance and [ser_data_inj].) *)
  Lemma same_content_same_hash (s1 s2 : signed_raw) :
    sr_hrp s1 = sr_hrp s2 -> sr_ts s1 = sr_ts s2 -> sr_fields s1 = sr_fields s2 ->
    signable_hash hash sha s1 = signable_hash hash sha s2.
  Proof. unfold signable_hash. intros -> -> ->. reflexivity. Qed.
End SignedContent.
