(** C17 — exact effect of permanent failures and of pruning. *)
From stdpp Require Import gmap.
From Coq Require Import ZArith String Lia ZifyBool.
Require Import LdkV.Gen.GossipConsts LdkV.Model.Gossip LdkV.Model.GossipSpec.
Require Import LdkV.Proofs.C17Base LdkV.Proofs.C17Step.
Open Scope Z_scope.

(** in a well-formed graph the nodes are exactly the ends of the channels *)
Lemma wf_node_alive g nid :
  wf g → (is_Some (g_nodes g !! nid) ↔ ∃ scid, ends (g_chans g) scid nid).
Proof.
  intros [Hs Hn Hx]. split.
  - intros [n Hnid]. destruct (Hn _ _ Hnid) as [Hne _].
    destruct (n_chans n) as [|scid l] eqn:Hl; [done|]. exists scid. apply Hx. exists n.
    split; [done|]. rewrite Hl. apply elem_of_list_here.
  - intros (scid & (n & Hnid & _)%Hx). by exists n.
Qed.

(** ** [channel_failed_permanent] *)
Lemma remove_in_nodes_lookup nodes c scid nid :
  c_one c ≠ c_two c →
  remove_in_nodes nodes c scid !! nid =
  if decide (nid = c_one c ∨ nid = c_two c) then node_without (nodes !! nid) scid
  else nodes !! nid.
Proof.
  intros Hne. unfold remove_in_nodes. rewrite !rm_one_lookup.
  destruct (decide (nid = c_two c)) as [->|H2].
  - rewrite (decide_False (P := c_two c = c_one c)) by done.
    rewrite decide_True; [done|]. by right.
  - destruct (decide (nid = c_one c)) as [->|H1].
    + rewrite decide_True; [done|]. by left.
    + rewrite decide_False; [done|]. intros [?|?]; done.
Qed.

Lemma fail_chan_known cf g scid now c :
  wf g → g_chans g !! scid = Some c →
  let g' := (step cf g (OFailChan scid true now)).2 in
  g_chans g' = delete scid (g_chans g) ∧
  g_rmc g' = <[scid := now]> (g_rmc g) ∧ g_rmn g' = g_rmn g ∧
  (∀ nid, g_nodes g' !! nid =
          if decide (nid = c_one c ∨ nid = c_two c) then node_without (g_nodes g !! nid) scid
          else g_nodes g !! nid) ∧
  wf g'.
Proof.
  intros Hwf Hc. simpl. split_and!.
  - unfold remove_channel. by rewrite Hc.
  - unfold remove_channel. by rewrite Hc.
  - unfold remove_channel. by rewrite Hc.
  - intros nid. unfold remove_channel. rewrite Hc. simpl. apply remove_in_nodes_lookup.
    destruct Hwf as [Hs _ _]. specialize (Hs _ _ Hc). lia.
  - by apply remove_channel_wf.
Qed.

Lemma fail_chan_unknown cf g scid now :
  g_chans g !! scid = None → (step cf g (OFailChan scid true now)).2 = g.
Proof. intros Hc. simpl. unfold remove_channel. by rewrite Hc. Qed.

(** a removal tombstone blocks (signed or unsigned) re-announcement *)
Lemma tombstone_blocks cf g via sg a u now :
  is_Some (g_rmc g !! ca_scid a) ∨ is_Some (g_rmn g !! ca_n1 a) ∨ is_Some (g_rmn g !! ca_n2 a) →
  ∃ e, step cf g (OChanAnn via sg a u now) = (GErr e, g).
Proof.
  intros Ht. simpl. unfold chan_ann_step.
  destruct (pre_check cf g a u) as [e|]; [by exists e|].
  destruct (match sg with Some s => verify_ann cf a s | None => None end) as [e|]; [by exists e|].
  unfold ann_intern.
  assert (is_some_b (g_rmc g !! ca_scid a) || is_some_b (g_rmn g !! ca_n1 a)
          || is_some_b (g_rmn g !! ca_n2 a) = true) as ->.
  { destruct Ht as [[? ->]|[[? ->]|[? ->]]]; simpl; [done|..].
    - by rewrite orb_true_r.
    - by rewrite orb_true_r. }
  by exists ERemovedRecently.
Qed.

(** ** [node_failed_permanent] *)
Lemma foldl_fail_node_chan_chans nid now l g scid :
  g_chans (foldl (fail_node_chan nid now) g l) !! scid =
  if decide (scid ∈ l) then None else g_chans g !! scid.
Proof.
  revert g. induction l as [|x l IH]; intros g; simpl.
  - done.
  - rewrite IH. assert (g_chans (fail_node_chan nid now g x) = delete x (g_chans g)) as ->.
    { unfold fail_node_chan. destruct (g_chans g !! x) eqn:Hx; simpl; [done|].
      by rewrite delete_notin. }
    destruct (decide (scid ∈ l)) as [Hin|Hnin].
    + rewrite decide_True; [done|]. by apply elem_of_list_further.
    + destruct (decide (scid = x)) as [->|Hne].
      * rewrite decide_True by (apply elem_of_list_here). apply lookup_delete.
      * rewrite decide_False; [by rewrite lookup_delete_ne|].
        intros [?|?]%elem_of_cons; done.
Qed.

Lemma fail_node_known cf g nid now n :
  wf g → g_nodes g !! nid = Some n →
  let g' := (step cf g (OFailNode nid true now)).2 in
  g_nodes g' !! nid = None ∧
  (∀ scid, g_chans g' !! scid = if decide (scid ∈ n_chans n) then None else g_chans g !! scid) ∧
  (∀ scid c, g_chans g' !! scid = Some c → c_one c ≠ nid ∧ c_two c ≠ nid) ∧
  g_rmn g' = <[nid := now]> (g_rmn g) ∧
  wf g'.
Proof.
  intros Hwf Hn. simpl.
  assert (wf (fail_node g nid now)) as Hwf' by (by apply fail_node_wf).
  assert (∀ scid, g_chans (fail_node g nid now) !! scid =
                  if decide (scid ∈ n_chans n) then None else g_chans g !! scid) as Hch.
  { intros scid. unfold fail_node. rewrite Hn. simpl. by rewrite foldl_fail_node_chan_chans. }
  assert (g_nodes (fail_node g nid now) !! nid = None) as Hnone.
  { (* by well-formedness: no surviving channel has [nid] as an end *)
    destruct (g_nodes (fail_node g nid now) !! nid) as [n'|] eqn:Hn'; [|done]. exfalso.
    assert (is_Some (g_nodes (fail_node g nid now) !! nid)) as Hs by (by exists n').
    apply wf_node_alive in Hs as (scid & c & Hc & Hor); [|done].
    rewrite Hch in Hc. destruct (decide (scid ∈ n_chans n)) as [|Hnin]; [done|].
    apply Hnin. destruct Hwf as [_ _ Hx].
    assert (lists (g_nodes g) nid scid) as (n0 & Hn0 & Hin) by (apply Hx; by exists c).
    rewrite Hn in Hn0. by injection Hn0 as <-. }
  split_and!; try done.
  - intros scid c Hc. split; intros <-.
    + assert (is_Some (g_nodes (fail_node g (c_one c) now) !! c_one c)) as [? Hs].
      { apply wf_node_alive; [done|]. exists scid, c. split; [done|by left]. }
      by rewrite Hnone in Hs.
    + assert (is_Some (g_nodes (fail_node g (c_two c) now) !! c_two c)) as [? Hs].
      { apply wf_node_alive; [done|]. exists scid, c. split; [done|by right]. }
      by rewrite Hnone in Hs.
  - unfold fail_node. rewrite Hn. simpl.
    assert (∀ l g0, g_rmn (foldl (fail_node_chan nid now) g0 l) = g_rmn g0) as Hrmn.
    { induction l as [|x l IH]; intros g0; [done|]. simpl. rewrite IH.
      unfold fail_node_chan. by destruct (g_chans g0 !! x). }
    by rewrite Hrmn.
Qed.

(** ** Pruning *)
Lemma remove_channel_chans g scid now :
  g_chans (remove_channel g scid now) = delete scid (g_chans g).
Proof.
  unfold remove_channel. destruct (g_chans g !! scid) eqn:Hc; [done|]. by rewrite delete_notin.
Qed.

Lemma foldl_remove_chans now l g scid :
  g_chans (foldl (λ g s, remove_channel g s now) g l) !! scid =
  if decide (scid ∈ l) then None else g_chans g !! scid.
Proof.
  revert g. induction l as [|x l IH]; intros g; simpl.
  - done.
  - rewrite IH, remove_channel_chans.
    destruct (decide (scid ∈ l)) as [Hin|Hnin].
    + rewrite decide_True; [done|]. by apply elem_of_list_further.
    + destruct (decide (scid = x)) as [->|Hne].
      * rewrite decide_True by (apply elem_of_list_here). apply lookup_delete.
      * rewrite decide_False; [by rewrite lookup_delete_ne|].
        intros [?|?]%elem_of_cons; done.
Qed.

Lemma foldl_remove_rmn now l g :
  g_rmn (foldl (λ g s, remove_channel g s now) g l) = g_rmn g.
Proof.
  revert g. induction l as [|x l IH]; intros g; [done|]. simpl. rewrite IH.
  unfold remove_channel. by destruct (g_chans g !! x).
Qed.

(** tombstones written by the bulk removal: [now] for every removed channel, others unchanged *)
Lemma foldl_remove_rmc now l g scid :
  g_rmc (foldl (λ g s, remove_channel g s now) g l) !! scid =
  if decide (scid ∈ l ∧ is_Some (g_chans g !! scid)) then Some now else g_rmc g !! scid.
Proof.
  revert g. induction l as [|x l IH]; intros g; simpl.
  - done.
  - rewrite IH, remove_channel_chans.
    destruct (decide (scid = x)) as [->|Hne].
    + rewrite decide_False by (rewrite lookup_delete; intros [_ []]; done).
      unfold remove_channel. destruct (g_chans g !! x) as [c|] eqn:Hc; simpl.
      * rewrite lookup_insert. rewrite decide_True; [done|]. split; [apply elem_of_list_here|done].
      * rewrite decide_False; [done|]. intros [_ []]. done.
    + rewrite lookup_delete_ne by done.
      assert (g_rmc (remove_channel g x now) !! scid = g_rmc g !! scid) as ->.
      { unfold remove_channel. destruct (g_chans g !! x); simpl; [|done].
        by rewrite lookup_insert_ne. }
      destruct (decide (scid ∈ l ∧ is_Some (g_chans g !! scid))) as [[H1 H2]|Hn].
      * rewrite decide_True; [done|]. split; [by apply elem_of_list_further|done].
      * rewrite decide_False; [done|]. intros [[?|?]%elem_of_cons ?]; [done|]. by apply Hn.
Qed.

Lemma prune_inactive g now : ¬ prune_active now → prune g now = g.
Proof. unfold prune_active, prune. intros H. repeat case_match; try done. lia. Qed.

Section prune.
  Context (g : graph) (now : Z) (Hact : prune_active now).
  Let mt := now - STALE_CHANNEL_UPDATE_AGE_LIMIT_SECS.

  Lemma prune_chans scid :
    g_chans (prune g now) !! scid = g_chans g !! scid ≫= prune_chan mt.
  Proof.
    unfold prune, prune_active in *.
    assert ((2 ^ 32 - 1 <? now) = false) as -> by lia.
    assert ((now <? STALE_CHANNEL_UPDATE_AGE_LIMIT_SECS) = false) as -> by lia.
    simpl. rewrite foldl_remove_chans. simpl. fold mt.
    rewrite lookup_fmap. unfold prune_chan.
    destruct (g_chans g !! scid) as [c|] eqn:Hc; simpl.
    - destruct (removable mt (drop_stale mt c)) eqn:Hr.
      + rewrite decide_True; [done|]. apply elem_of_list_fmap.
        exists (scid, drop_stale mt c). split; [done|]. apply elem_of_map_to_list.
        apply map_filter_lookup_Some. split; [by rewrite lookup_fmap, Hc|]. simpl. by rewrite Hr.
      + rewrite decide_False; [done|]. intros ([s c'] & -> & Hin)%elem_of_list_fmap.
        apply elem_of_map_to_list, map_filter_lookup_Some in Hin as [Hl Hp]. simpl in *.
        rewrite lookup_fmap, Hc in Hl. injection Hl as <-. by rewrite Hr in Hp.
    - by case_decide.
  Qed.

  Lemma prune_rmn : g_rmn (prune g now) =
    filter (λ kt : Z * Z, Is_true (Z.max 0 (now - kt.2) <? REMOVED_ENTRIES_TRACKING_AGE_LIMIT_SECS))
           (g_rmn g).
  Proof.
    unfold prune, prune_active in *.
    assert ((2 ^ 32 - 1 <? now) = false) as -> by lia.
    assert ((now <? STALE_CHANNEL_UPDATE_AGE_LIMIT_SECS) = false) as -> by lia.
    simpl. by rewrite foldl_remove_rmn.
  Qed.

  Lemma prune_rmc scid t :
    g_rmc (prune g now) !! scid = Some t ↔
    Z.max 0 (now - t) < REMOVED_ENTRIES_TRACKING_AGE_LIMIT_SECS ∧
    ((∃ c, g_chans g !! scid = Some c ∧ prune_chan mt c = None ∧ t = now) ∨
     (¬ (∃ c, g_chans g !! scid = Some c ∧ prune_chan mt c = None) ∧ g_rmc g !! scid = Some t)).
  Proof.
    unfold prune, prune_active in *.
    assert ((2 ^ 32 - 1 <? now) = false) as -> by lia.
    assert ((now <? STALE_CHANNEL_UPDATE_AGE_LIMIT_SECS) = false) as -> by lia.
    simpl. rewrite map_filter_lookup_Some. simpl. rewrite foldl_remove_rmc. simpl. fold mt.
    assert (∀ s, (s ∈ (map_to_list (filter (λ kc : Z * chan, Is_true (removable mt kc.2))
                                   (drop_stale mt <$> g_chans g))).*1
                 ∧ is_Some ((drop_stale mt <$> g_chans g) !! s))
                ↔ ∃ c, g_chans g !! s = Some c ∧ prune_chan mt c = None) as Hstale.
    { intros s. rewrite lookup_fmap. unfold prune_chan. split.
      - intros [([s' c'] & -> & Hin)%elem_of_list_fmap _].
        apply elem_of_map_to_list, map_filter_lookup_Some in Hin as [Hl Hp]. simpl in *.
        rewrite lookup_fmap in Hl. destruct (g_chans g !! s') as [c|]; [|done].
        injection Hl as <-. exists c. split; [done|]. by destruct (removable mt (drop_stale mt c)).
      - intros (c & Hc & Hp). rewrite Hc. split; [|by eexists].
        apply elem_of_list_fmap. exists (s, drop_stale mt c). split; [done|].
        apply elem_of_map_to_list, map_filter_lookup_Some. split; [by rewrite lookup_fmap, Hc|].
        simpl. by destruct (removable mt (drop_stale mt c)). }
    case_decide as Hd.
    - apply Hstale in Hd. split.
      + intros [[= <-] Hk]. apply Is_true_true in Hk. split; [lia|]. left.
        destruct Hd as (c & ? & ?). by exists c.
      + intros [Hk [(c & ? & ? & ->)|[Hn _]]]; [|done]. split; [done|]. apply Is_true_true. lia.
    - rewrite Hstale in Hd. split.
      + intros [Ht Hk]. apply Is_true_true in Hk. split; [lia|]. by right.
      + intros [Hk [(c & ? & ? & _)|[_ Ht]]]; [exfalso; apply Hd; by exists c|].
        split; [done|]. apply Is_true_true. lia.
  Qed.
End prune.

(** nodes that survive a removal-type operation keep their announcement *)
Definition nodes_keep (nd nd' : gmap Z node) : Prop :=
  ∀ nid n', nd' !! nid = Some n' → ∃ n, nd !! nid = Some n ∧ n_ann n' = n_ann n.

Lemma nodes_keep_refl nd : nodes_keep nd nd.
Proof. intros nid n' ?. by exists n'. Qed.
Lemma nodes_keep_trans a b c : nodes_keep a b → nodes_keep b c → nodes_keep a c.
Proof.
  intros Hab Hbc nid nc Hnc. destruct (Hbc _ _ Hnc) as (nb & Hnb & He).
  destruct (Hab _ _ Hnb) as (na & Hna & He'). exists na. split; [done|]. by rewrite He.
Qed.
Lemma nodes_keep_rm_one nd nid scid : nodes_keep nd (rm_one nd nid scid).
Proof. intros nid' n' ?. by eapply rm_one_ann. Qed.

Lemma remove_channel_keep g scid now :
  nodes_keep (g_nodes g) (g_nodes (remove_channel g scid now)).
Proof.
  unfold remove_channel. destruct (g_chans g !! scid); [|apply nodes_keep_refl]. simpl.
  unfold remove_in_nodes. eapply nodes_keep_trans; apply nodes_keep_rm_one.
Qed.

Lemma foldl_remove_keep now l g0 :
  nodes_keep (g_nodes g0) (g_nodes (foldl (λ g s, remove_channel g s now) g0 l)).
Proof.
  revert g0. induction l as [|x l IH]; intros g0; [apply nodes_keep_refl|].
  simpl. eapply nodes_keep_trans; [apply remove_channel_keep|apply IH].
Qed.

Lemma prune_keep g now : nodes_keep (g_nodes g) (g_nodes (prune g now)).
Proof.
  unfold prune. repeat case_match; try apply nodes_keep_refl. simpl.
  apply (foldl_remove_keep now _ (Graph _ _ _ _)).
Qed.

Lemma foldl_fail_keep nid now l g0 :
  nodes_keep (g_nodes g0) (g_nodes (foldl (fail_node_chan nid now) g0 l)).
Proof.
  revert g0. induction l as [|x l IH]; intros g0; [apply nodes_keep_refl|].
  simpl. eapply nodes_keep_trans; [|apply IH]. unfold fail_node_chan.
  destruct (g_chans g0 !! x); [|apply nodes_keep_refl]. simpl. apply nodes_keep_rm_one.
Qed.

Lemma fail_node_keep g nid now : nodes_keep (g_nodes g) (g_nodes (fail_node g nid now)).
Proof.
  unfold fail_node. destruct (g_nodes g !! nid) as [n|]; [|apply nodes_keep_refl]. simpl.
  eapply nodes_keep_trans with (b := delete nid (g_nodes g)).
  { intros nid' n' [_ ?]%lookup_delete_Some. by exists n'. }
  apply (foldl_fail_keep nid now _ (Graph _ _ _ _)).
Qed.
