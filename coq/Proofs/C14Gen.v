(** C14: the arithmetic and the guards of [onion_utils.rs] that the hand model transliterates,
    regenerated from the Rust source on every run by rs2v ([Gen/C14Guards.v]: anchored expressions
    and constants), are the ones the model uses.  An edit of one of these expressions (a changed
    comparison in the attribution-dropping guard, a changed position / index formula, a changed
    padding rule, a changed constant) breaks one of these lemmas. *)
From Coq Require Import ZArith List Bool Lia.
Require Import LdkV.Prim.U64 LdkV.Crypto.Bytes LdkV.Model.Sphinx LdkV.Model.OnionFail LdkV.Gen.C14Guards.
Import ListNotations.
Open Scope Z_scope.

Lemma gen_constants :
  G_LN_MAX_MSG_LEN = LN_MAX_MSG_LEN /\
  G_MAX_HOPS = Z.of_nat MAX_HOPS /\ G_HOLD_TIME_LEN = Z.of_nat HOLD_TIME_LEN /\
  G_HMAC_LEN = Z.of_nat HMAC_LEN /\ G_HMAC_COUNT = Z.of_nat HMAC_COUNT /\
  G_DEFAULT_MIN_FAILURE_PACKET_LEN = Z.of_nat DEFAULT_MIN_FAILURE_PACKET_LEN /\
  G_ONION_DATA_LEN = 1300.
Proof. repeat split; reflexivity. Qed.

(** the guard at the end of [process_failure_packet] *)
Lemma gen_relay_guard p :
  keeps_attribution p = negb (g_relay_drops_attribution (Z.of_nat (update_fail_htlc_wire_len p))).
Proof. reflexivity. Qed.

Lemma gen_relay_guard_spec wire_len : g_relay_drops_attribution wire_len = (65535 <? wire_len).
Proof. reflexivity. Qed.

(** [build_unencrypted_failure_packet]: failure_len, pad_len (saturating), total_len *)
Lemma gen_failure_lengths hmac k code d m :
  List.length (hmac (fk_um k) (failure_body code d m)) = 32%nat ->
  Z.of_nat (List.length (failure_plain hmac k code d m)) =
  g_total_len (g_failure_len (Z.of_nat (List.length d)))
              (g_pad_len (Z.of_nat m) (g_failure_len (Z.of_nat (List.length d)))).
Proof.
  intros Hh. unfold failure_plain. rewrite app_length, Hh. unfold failure_body.
  rewrite !app_length, !length_be16, length_zeros.
  unfold g_total_len, g_pad_len, g_failure_len, sat_sub. lia.
Qed.

Lemma gen_pad_len m failure_len :
  Z.of_nat (m - failure_len) = g_pad_len (Z.of_nat m) (Z.of_nat failure_len).
Proof. unfold g_pad_len, sat_sub. lia. Qed.

(** the number of attributable hops and the position the sender verifies for hop [idx], in
    [process_onion_failure_inner] and in [decode_fulfill_attribution_data]; the position is only
    computed (and does not underflow) for [idx < cnt], which is when the model computes it *)
Lemma gen_hop_counts n :
  Z.of_nat (Nat.min n MAX_HOPS) = g_failure_hop_count (Z.of_nat n) /\
  Z.of_nat (Nat.min n MAX_HOPS) = g_fulfill_hop_count (Z.of_nat n).
Proof. unfold g_failure_hop_count, g_fulfill_hop_count, G_MAX_HOPS, MAX_HOPS. lia. Qed.

Lemma gen_positions cnt idx : (idx < cnt)%nat ->
  Z.of_nat (cnt - idx - 1) = g_failure_position (Z.of_nat cnt) (Z.of_nat idx) /\
  Z.of_nat (cnt - idx - 1) = g_fulfill_position (Z.of_nat cnt) (Z.of_nat idx) /\
  g_failure_position_safe (Z.of_nat cnt) (Z.of_nat idx) = true /\
  g_fulfill_position_safe (Z.of_nat cnt) (Z.of_nat idx) = true.
Proof.
  intros H. unfold g_failure_position, g_fulfill_position, g_failure_position_safe, g_fulfill_position_safe.
  repeat split; lia.
Qed.

Lemma gen_positions_underflow cnt idx : (cnt <= idx)%nat ->
  g_failure_position_safe (Z.of_nat cnt) (Z.of_nat idx) = false /\
  g_fulfill_position_safe (Z.of_nat cnt) (Z.of_nat idx) = false.
Proof. intros H. unfold g_failure_position_safe, g_fulfill_position_safe. split; lia. Qed.

(** [add_hmacs], [write_downstream_hmacs], [verify]: index arithmetic *)
Lemma gen_attr_indices hmac_idx position j :
  (hmac_idx < MAX_HOPS)%nat -> (position < MAX_HOPS)%nat -> (j < MAX_HOPS)%nat ->
  Z.of_nat (MAX_HOPS - hmac_idx - 1) = g_add_hmacs_position (Z.of_nat hmac_idx) /\
  Z.of_nat (MAX_HOPS + MAX_HOPS - position - 1) = g_downstream_start (Z.of_nat position) /\
  Z.of_nat (MAX_HOPS - j - 1) = g_downstream_block_size (Z.of_nat j) /\
  Z.of_nat (MAX_HOPS - position - 1) = g_verify_hmac_idx (Z.of_nat position).
Proof.
  unfold MAX_HOPS, g_add_hmacs_position, g_downstream_start, g_downstream_block_size, g_verify_hmac_idx, G_MAX_HOPS.
  intros. repeat split; lia.
Qed.

(** the filler loop's keystream seek position *)
Lemma gen_seek_pos N pos : (pos <= N)%nat -> Z.of_nat N < 2 ^ 32 ->
  Z.of_nat (N - pos) = g_seek_pos (Z.of_nat N) (Z.of_nat pos) /\ g_seek_pos_safe (Z.of_nat N) (Z.of_nat pos) = true.
Proof.
  intros H Hn. unfold g_seek_pos, g_seek_pos_safe, cast_u. split; [|lia].
  rewrite Z.mod_small by lia. lia.
Qed.
