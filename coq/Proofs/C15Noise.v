(** C15 — proofs about the encryptor model [Model/Noise.v]: the three-act handshake ends with
    matching, swapped transport keys; an act is accepted only if its version byte, key and MACs
    all check; sender and receiver stay in lock-step message after message, rotating their keys
    at the same message index. The primitives are abstract; the laws used are the section
    hypotheses below and nothing else. *)
Require Import LdkV.Prim.U64 LdkV.Gen.NoiseConsts.
From Coq Require Import List.
Import ListNotations.
Require Import LdkV.Model.Noise.
Open Scope Z_scope.
Set Default Proof Using "Type*".

(** ** list slicing *)
Lemma skipn_app_exact {A} (a b : list A) n : length a = n -> skipn n (a ++ b) = b.
Proof.
  intros <-. rewrite skipn_app, skipn_all, Nat.sub_diag. reflexivity.
Qed.

Lemma firstn_app_exact {A} (a b : list A) n : length a = n -> firstn n (a ++ b) = a.
Proof.
  intros <-. rewrite firstn_app, firstn_all, Nat.sub_diag. cbn. apply app_nil_r.
Qed.

Lemma slice_act_key (p c : bytes) : length p = 33%nat -> slice 1 34 (0 :: p ++ c) = p.
Proof.
  intros H. unfold slice. change (skipn 1 (0 :: p ++ c)) with (p ++ c).
  change (34 - 1)%nat with 33%nat. apply firstn_app_exact. exact H.
Qed.

Lemma skipn_act_tag (p c : bytes) : length p = 33%nat -> skipn 34 (0 :: p ++ c) = c.
Proof. intros H. change (skipn 34 (0 :: p ++ c)) with (skipn 33 (p ++ c)). apply skipn_app_exact. exact H. Qed.

Lemma slice_act3_c1 (c1 c2 : bytes) : length c1 = 49%nat -> slice 1 50 (0 :: c1 ++ c2) = c1.
Proof.
  intros H. unfold slice. change (skipn 1 (0 :: c1 ++ c2)) with (c1 ++ c2).
  change (50 - 1)%nat with 49%nat. apply firstn_app_exact. exact H.
Qed.

Lemma skipn_act3_c2 (c1 c2 : bytes) : length c1 = 49%nat -> skipn 50 (0 :: c1 ++ c2) = c2.
Proof. intros H. change (skipn 50 (0 :: c1 ++ c2)) with (skipn 49 (c1 ++ c2)). apply skipn_app_exact. exact H. Qed.

(** ** u16 big-endian *)
Lemma be16_roundtrip n : 0 <= n < 65536 -> be16_dec (be16 n) = n.
Proof. intros H. unfold be16_dec, be16. cbn [nth]. lia. Qed.

Lemma be16_length n : length (be16 n) = 2%nat.
Proof. reflexivity. Qed.

Lemma blen_nonneg b : 0 <= blen b.
Proof. unfold blen. lia. Qed.

(** ** the constants as extracted from the source *)
Lemma rot_equal : ROT_SEND = ROT_RECV.
Proof. reflexivity. Qed.
Lemma max_len_u16 : 0 <= LN_MAX_MSG_LEN < 65536.
Proof. unfold LN_MAX_MSG_LEN. lia. Qed.
Lemma rot_even_pos : 0 < ROT_SEND /\ ROT_SEND mod 2 = 0.
Proof. unfold ROT_SEND. split; [lia | reflexivity]. Qed.

Lemma consts_ok :
  ROT_SEND = ROT_RECV /\ 0 < ROT_SEND /\ ROT_SEND mod 2 = 0 /\
  0 <= MIN_MSG_LEN <= LN_MAX_MSG_LEN /\ LN_MAX_MSG_LEN < 65536.
Proof.
  split; [exact rot_equal|]. split; [exact (proj1 rot_even_pos)|]. split; [exact (proj2 rot_even_pos)|].
  unfold MIN_MSG_LEN, LN_MAX_MSG_LEN. lia.
Qed.

Section NoiseProofs.
  Variable dh : bytes -> bytes -> bytes.
  Variable pub : bytes -> bytes.
  Variable pk_valid : bytes -> bool.
  Variable hkdf2 : bytes -> bytes -> bytes * bytes.
  Variable H : bytes -> bytes.
  Variable seal : bytes -> Z -> bytes -> bytes -> bytes.
  Variable open : bytes -> Z -> bytes -> bytes -> option bytes.

  Notation init_hs := (init_hs H).
  Notation new_outbound := (new_outbound H).
  Notation new_inbound := (new_inbound pub H).
  Notation outbound_noise_act := (outbound_noise_act dh pub hkdf2 H seal).
  Notation inbound_noise_act := (inbound_noise_act dh pk_valid hkdf2 H open).
  Notation get_act_one := (get_act_one dh pub hkdf2 H seal).
  Notation process_act_one_with_keys := (process_act_one_with_keys dh pub pk_valid hkdf2 H seal open).
  Notation process_act_two := (process_act_two dh pub pk_valid hkdf2 H seal open).
  Notation process_act_three := (process_act_three dh pk_valid hkdf2 H open).
  Notation rotate_send := (rotate_send hkdf2).
  Notation rotate_recv := (rotate_recv hkdf2).
  Notation enc_msg := (enc_msg hkdf2 seal).
  Notation dec_header := (dec_header hkdf2 open).
  Notation dec_body := (dec_body open).
  Notation enc_all := (enc_all hkdf2 seal).

  (** ** Handshake *)
  Section Handshake.
    Hypothesis dh_sym : forall a b, dh a (pub b) = dh b (pub a).
    Hypothesis pub_len : forall a, length (pub a) = 33%nat.
    Hypothesis pub_valid : forall a, pk_valid (pub a) = true.
    Hypothesis seal_len : forall k n ad p, length (seal k n ad p) = (length p + 16)%nat.
    Hypothesis open_seal : forall k n ad p, open k n ad (seal k n ad p) = Some p.

    (** what one side writes in an act the other side accepts, ending in the same state *)
    Lemma act_matches st our_key their_secret act temp_k st' :
      outbound_noise_act st our_key (pub their_secret) = (act, temp_k, st') ->
      inbound_noise_act st act their_secret = Some (pub our_key, temp_k, st') /\
      length act = 50%nat.
    Proof.
      unfold Noise.outbound_noise_act, Noise.inbound_noise_act, hkdf_step. cbn [hs_h hs_ck].
      destruct (hkdf2 (hs_ck st) (dh our_key (pub their_secret))) as [t1 t2] eqn:Hk.
      cbn [hs_h hs_ck]. intros Heq. inversion Heq; subst act temp_k st'. clear Heq.
      cbn [nth]. cbn [Z.eqb negb].
      rewrite slice_act_key by apply pub_len.
      rewrite pub_valid. cbn [negb].
      rewrite <- dh_sym, Hk. cbn [hs_h hs_ck].
      rewrite skipn_act_tag by apply pub_len.
      rewrite open_seal.
      split; [reflexivity|].
      cbn [length]. rewrite app_length, pub_len, seal_len. reflexivity.
    Qed.

    Theorem handshake_agrees ls_i ls_r ie re :
      exists act1 e_i1 act2 e_r1 act3 t_i t_r,
        get_act_one (new_outbound (pub ls_r) ie) = Some (act1, e_i1) /\
        process_act_one_with_keys (new_inbound ls_r) act1 ls_r re = Some (Some (act2, e_r1)) /\
        process_act_two e_i1 act2 ls_i = Some (Some (act3, pub ls_r, Finished t_i)) /\
        process_act_three e_r1 act3 = Some (Some (pub ls_i, Finished t_r)) /\
        length act1 = 50%nat /\ length act2 = 50%nat /\ length act3 = 66%nat /\
        t_sk t_i = t_rk t_r /\ t_rk t_i = t_sk t_r /\
        t_sck t_i = t_rck t_r /\ t_rck t_i = t_sck t_r /\ t_sck t_i = t_rck t_i /\
        t_sn t_i = 0 /\ t_rn t_i = 0 /\ t_sn t_r = 0 /\ t_rn t_r = 0.
    Proof.
      destruct (outbound_noise_act (init_hs (pub ls_r)) ie (pub ls_r)) as [[act1 tk1] st1] eqn:H1.
      destruct (act_matches _ _ _ _ _ _ H1) as [Hin1 Hl1].
      destruct (outbound_noise_act st1 re (pub ie)) as [[act2 tk2] st2] eqn:H2.
      destruct (act_matches _ _ _ _ _ _ H2) as [Hin2 Hl2].
      destruct (hkdf2 (hs_ck st2) (dh ls_i (pub re))) as [ck3 tk3] eqn:Hk3.
      destruct (hkdf2 ck3 []) as [k1 k2] eqn:Hfin.
      set (c1 := seal tk2 1 (hs_h st2) (pub ls_i)).
      set (h3 := H (hs_h st2 ++ c1)).
      set (c2 := seal tk3 0 h3 []).
      assert (Hc1 : length c1 = 49%nat) by (unfold c1; rewrite seal_len, pub_len; reflexivity).
      assert (Hc2 : length c2 = 16%nat) by (unfold c2; rewrite seal_len; reflexivity).
      exists act1, (OutPostActOne ie (pub ls_r) st1), act2, (InPostActTwo (pub ie) re tk2 st2),
        (0 :: c1 ++ c2), (mk_tr k1 0 ck3 k2 0 ck3), (mk_tr k2 0 ck3 k1 0 ck3).
      split.
      { unfold Noise.new_outbound, Noise.get_act_one. rewrite H1. reflexivity. }
      split.
      { unfold Noise.new_inbound, Noise.process_act_one_with_keys. rewrite Hin1, H2. reflexivity. }
      split.
      { unfold Noise.process_act_two. rewrite Hin2.
        unfold hkdf_step. cbn [hs_h hs_ck]. rewrite Hk3. cbn [hs_h hs_ck]. rewrite Hfin.
        reflexivity. }
      split.
      { unfold Noise.process_act_three.
        change (nth 0 (0 :: c1 ++ c2) 0) with 0. cbn [Z.eqb negb].
        rewrite slice_act3_c1 by exact Hc1.
        unfold c1 at 1. rewrite open_seal. rewrite pub_valid. cbn [negb].
        unfold hkdf_step. cbn [hs_h hs_ck].
        rewrite <- dh_sym, Hk3. cbn [hs_h hs_ck].
        rewrite skipn_act3_c2 by exact Hc1. fold c1. fold h3.
        unfold c2. rewrite open_seal. rewrite Hfin. reflexivity. }
      cbn [t_sk t_sn t_sck t_rk t_rn t_rck].
      repeat split; try reflexivity; try assumption.
      cbn [length]. rewrite app_length, Hc1, Hc2. reflexivity.
    Qed.
  End Handshake.

  (** An act is accepted only if everything in it checks: version byte 0, a valid key, an
      authenticating MAC. (No hypotheses: this is how the model, following the source, is built.)
      Otherwise the result is [None] = [Err(DisconnectPeer)] and no encryptor state is produced. *)
  Theorem inbound_act_checks st act k their_pub temp_k st' :
    inbound_noise_act st act k = Some (their_pub, temp_k, st') ->
    nth 0 act 0 = 0 /\ their_pub = slice 1 34 act /\ pk_valid their_pub = true /\
    let h1 := H (hs_h st ++ their_pub) in
    let '(ck, tk) := hkdf2 (hs_ck st) (dh k their_pub) in
    tk = temp_k /\ open temp_k 0 h1 (skipn 34 act) <> None.
  Proof.
    unfold Noise.inbound_noise_act, hkdf_step. cbn [hs_h hs_ck].
    destruct (Z.eqb_spec (nth 0 act 0) 0) as [Hv|Hv]; cbn [negb]; [|discriminate].
    destruct (pk_valid (slice 1 34 act)) eqn:Hpk; cbn [negb]; [|discriminate].
    destruct (hkdf2 (hs_ck st) (dh k (slice 1 34 act))) as [ck tk] eqn:Hk. cbn [hs_h hs_ck].
    destruct (open tk 0 (H (hs_h st ++ slice 1 34 act)) (skipn 34 act)) eqn:Ho; [|discriminate].
    intros Heq. inversion Heq; subst. rewrite Hk.
    repeat split; try assumption. rewrite Ho. discriminate.
  Qed.

  Theorem bad_version_rejected st act k : nth 0 act 0 <> 0 -> inbound_noise_act st act k = None.
  Proof.
    intros Hv. unfold Noise.inbound_noise_act.
    destruct (Z.eqb_spec (nth 0 act 0) 0); [contradiction | reflexivity].
  Qed.

  Theorem act_one_rejected_no_state st act ls re :
    inbound_noise_act st act ls = None ->
    process_act_one_with_keys (InPreActOne st) act ls re = Some None.
  Proof. intros Hn. cbn. rewrite Hn. reflexivity. Qed.

  Theorem act_two_rejected_no_state ie their st act ls :
    inbound_noise_act st act ie = None ->
    process_act_two (OutPostActOne ie their st) act ls = Some None.
  Proof. intros Hn. cbn. rewrite Hn. reflexivity. Qed.

  Theorem act_three_checks ie_pub re tk2 st act their e :
    process_act_three (InPostActTwo ie_pub re tk2 st) act = Some (Some (their, e)) ->
    nth 0 act 0 = 0 /\
    open tk2 1 (hs_h st) (slice 1 50 act) = Some their /\ pk_valid their = true /\
    exists t, e = Finished t /\ t_sn t = 0 /\ t_rn t = 0 /\ t_sck t = t_rck t.
  Proof.
    cbn [Noise.process_act_three].
    destruct (Z.eqb_spec (nth 0 act 0) 0) as [Hv|Hv]; cbn [negb]; [|discriminate].
    destruct (open tk2 1 (hs_h st) (slice 1 50 act)) as [id|] eqn:Ho; [|discriminate].
    destruct (pk_valid id) eqn:Hpk; cbn [negb]; [|discriminate].
    unfold hkdf_step. cbn [hs_h hs_ck].
    destruct (hkdf2 (hs_ck st) (dh re id)) as [ck tk] eqn:Hk. cbn [hs_h hs_ck].
    destruct (open tk 0 (H (hs_h st ++ slice 1 50 act)) (skipn 50 act)); [|discriminate].
    destruct (hkdf2 ck []) as [rk sk].
    intros Heq. inversion Heq; subst.
    repeat split; try assumption. eexists. split; [reflexivity|]. cbn. auto.
  Qed.
End NoiseProofs.

(** ** Transport: lock-step *)

(** the sender's sending half equals the receiver's receiving half *)
Definition synced (ts tr : transport) : Prop :=
  t_sk ts = t_rk tr /\ t_sn ts = t_rn tr /\ t_sck ts = t_rck tr.

Section NoiseTransport.
  Variable hkdf2 : bytes -> bytes -> bytes * bytes.
  Variable seal : bytes -> Z -> bytes -> bytes -> bytes.
  Variable open : bytes -> Z -> bytes -> bytes -> option bytes.

  Notation rotate_send := (rotate_send hkdf2).
  Notation rotate_recv := (rotate_recv hkdf2).
  Notation enc_msg := (enc_msg hkdf2 seal).
  Notation dec_header := (dec_header hkdf2 open).
  Notation dec_body := (dec_body open).
  Notation enc_all := (enc_all hkdf2 seal).

  Section Transport.
    Hypothesis seal_len : forall k n ad p, length (seal k n ad p) = (length p + 16)%nat.
    Hypothesis open_seal : forall k n ad p, open k n ad (seal k n ad p) = Some p.

    Lemma rotate_synced ts tr : synced ts tr ->
      synced (rotate_send ts) (rotate_recv tr) /\
      t_rk (rotate_send ts) = t_rk ts /\ t_rn (rotate_send ts) = t_rn ts /\ t_rck (rotate_send ts) = t_rck ts /\
      t_sk (rotate_recv tr) = t_sk tr /\ t_sn (rotate_recv tr) = t_sn tr /\ t_sck (rotate_recv tr) = t_sck tr.
    Proof.
      intros [Hk [Hn Hc]]. unfold Noise.rotate_send, Noise.rotate_recv.
      rewrite <- rot_equal, <- Hn, <- Hk, <- Hc.
      destruct (ROT_SEND <=? t_sn ts).
      - destruct (hkdf2 (t_sck ts) (t_sk ts)) as [c k]. cbn. unfold synced; cbn. auto 10.
      - unfold synced. auto 10.
    Qed.

    (** one message: the frame is an 18-byte header followed by [|m| + 16] bytes; the receiver
        recovers the length, then [m]; both ends stay in lock-step; the opposite direction's keys
        and counters are untouched on both sides *)
    Theorem enc_dec_one ts tr m :
      synced ts tr -> blen m <= LN_MAX_MSG_LEN ->
      exists hdr body ts' tr1 tr',
        enc_msg ts m = Some (hdr ++ body, ts') /\
        length hdr = 18%nat /\ length body = (length m + 16)%nat /\
        dec_header tr hdr = Some (blen m, tr1) /\
        dec_body tr1 body = Some (m, tr') /\
        synced ts' tr' /\
        t_rk ts' = t_rk ts /\ t_rn ts' = t_rn ts /\ t_rck ts' = t_rck ts /\
        t_sk tr' = t_sk tr /\ t_sn tr' = t_sn tr /\ t_sck tr' = t_sck tr.
    Proof.
      intros Hs Hlen.
      destruct (rotate_synced ts tr Hs) as [[Hk [Hn Hc]] [Hr1 [Hr2 [Hr3 [Hr4 [Hr5 Hr6]]]]]].
      unfold Noise.enc_msg, Noise.dec_header, Noise.dec_body.
      destruct (Z.ltb_spec LN_MAX_MSG_LEN (blen m)) as [Hbad|_]; [lia|].
      set (ts1 := rotate_send ts) in *. set (trr := rotate_recv tr) in *.
      exists (seal (t_sk ts1) (t_sn ts1) [] (be16 (blen m))),
             (seal (t_sk ts1) (t_sn ts1 + 1) [] m),
             (mk_tr (t_sk ts1) (t_sn ts1 + 1 + 1) (t_sck ts1) (t_rk ts1) (t_rn ts1) (t_rck ts1)),
             (mk_tr (t_sk trr) (t_sn trr) (t_sck trr) (t_rk trr) (t_rn trr + 1) (t_rck trr)),
             (mk_tr (t_sk trr) (t_sn trr) (t_sck trr) (t_rk trr) (t_rn trr + 1 + 1) (t_rck trr)).
      split; [reflexivity|].
      split; [rewrite seal_len; reflexivity|].
      split; [rewrite seal_len; reflexivity|].
      split.
      { rewrite <- Hk, <- Hn, open_seal. rewrite be16_roundtrip; [reflexivity|].
        pose proof (blen_nonneg m). pose proof max_len_u16. lia. }
      cbn [t_sk t_sn t_sck t_rk t_rn t_rck].
      split.
      { destruct (Z.ltb_spec (LN_MAX_MSG_LEN + 16) (blen (seal (t_sk ts1) (t_sn ts1 + 1) [] m))) as [Hbad|_].
        - unfold blen in Hbad, Hlen. rewrite seal_len in Hbad. lia.
        - rewrite <- Hk, <- Hn, open_seal. reflexivity. }
      unfold synced. cbn [t_sk t_sn t_sck t_rk t_rn t_rck].
      repeat split; try assumption; try lia.
    Qed.

  End Transport.

    (** ** Rotation *)

    (** sender: rotation happens exactly when the nonce has reached the constant *)
    Theorem rotation_send t m c t' : enc_msg t m = Some (c, t') ->
      (t_sn t < ROT_SEND -> t_sk t' = t_sk t /\ t_sck t' = t_sck t /\ t_sn t' = t_sn t + 2) /\
      (ROT_SEND <= t_sn t -> (t_sck t', t_sk t') = hkdf2 (t_sck t) (t_sk t) /\ t_sn t' = 2) /\
      t_rk t' = t_rk t /\ t_rn t' = t_rn t /\ t_rck t' = t_rck t.
    Proof.
      clear open.
      unfold Noise.enc_msg, Noise.rotate_send.
      destruct (LN_MAX_MSG_LEN <? blen m); [discriminate|].
      destruct (Z.leb_spec ROT_SEND (t_sn t)) as [Hr|Hr].
      - destruct (hkdf2 (t_sck t) (t_sk t)) as [ck k]. cbn. intros [= <- <-]; cbn.
        repeat split; try lia; reflexivity.
      - intros [= <- <-]; cbn. repeat split; try lia; reflexivity.
    Qed.

    (** receiver: the same rule on the receiving half, applied when the length header arrives *)
    Theorem rotation_recv t hdr len t' : dec_header t hdr = Some (len, t') ->
      (t_rn t < ROT_RECV -> t_rk t' = t_rk t /\ t_rck t' = t_rck t /\ t_rn t' = t_rn t + 1) /\
      (ROT_RECV <= t_rn t -> (t_rck t', t_rk t') = hkdf2 (t_rck t) (t_rk t) /\ t_rn t' = 1) /\
      t_sk t' = t_sk t /\ t_sn t' = t_sn t /\ t_sck t' = t_sck t.
    Proof.
      clear seal.
      unfold Noise.dec_header, Noise.rotate_recv.
      destruct (Z.leb_spec ROT_RECV (t_rn t)) as [Hr|Hr].
      - destruct (hkdf2 (t_rck t) (t_rk t)) as [ck k]. cbn.
        destruct (open k 0 [] hdr); [|discriminate].
        intros [= <- <-]; cbn. repeat split; try lia; reflexivity.
      - destruct (open (t_rk t) (t_rn t) [] hdr); [|discriminate].
        intros [= <- <-]; cbn. repeat split; try lia; reflexivity.
    Qed.

    (** the body never rotates *)
    Theorem body_no_rotation t body m t' : dec_body t body = Some (m, t') ->
      t_rk t' = t_rk t /\ t_rck t' = t_rck t /\ t_rn t' = t_rn t + 1 /\
      t_sk t' = t_sk t /\ t_sn t' = t_sn t /\ t_sck t' = t_sck t.
    Proof.
      clear hkdf2 seal.
      unfold Noise.dec_body.
      destruct (LN_MAX_MSG_LEN + 16 <? blen body); [discriminate|].
      destruct (open (t_rk t) (t_rn t) [] body); [|discriminate].
      intros [= <- <-]; cbn. auto 10.
    Qed.

    (** closed form. [rot_n r (ck, k)]: the key pair after [r] rotations. After [j >= 1] messages
        from a fresh transport state, with [j - 1 = r * (ROT_SEND / 2) + s], [0 <= s < ROT_SEND / 2]:
        exactly [r] rotations were made and the nonce is [2 (s + 1)]. By [enc_dec_one] the receiver
        is in the same position after the same [j] messages. *)
    Definition rot1 (p : bytes * bytes) : bytes * bytes := hkdf2 (fst p) (snd p).
    Fixpoint rot_n (r : nat) (p : bytes * bytes) : bytes * bytes :=
      match r with O => p | Datatypes.S r' => rot1 (rot_n r' p) end.

    Definition PER : Z := ROT_SEND / 2.

    Lemma rotation_index_step t m c t' (r : nat) s ck0 k0 :
      enc_msg t m = Some (c, t') ->
      0 <= s < PER ->
      (t_sck t, t_sk t) = rot_n r (ck0, k0) -> t_sn t = 2 * (s + 1) ->
      if s + 1 <? PER
      then (t_sck t', t_sk t') = rot_n r (ck0, k0) /\ t_sn t' = 2 * (s + 2)
      else (t_sck t', t_sk t') = rot_n (Datatypes.S r) (ck0, k0) /\ t_sn t' = 2 * (0 + 1).
    Proof.
      clear open.
      intros Henc Hs Hkeys Hsn.
      destruct (rotation_send _ _ _ _ Henc) as [Hlt [Hge _]].
      assert (Hrot : ROT_SEND = 2 * PER) by (unfold PER, ROT_SEND; reflexivity).
      destruct (Z.ltb_spec (s + 1) PER) as [Hc|Hc].
      - destruct Hlt as [Hk [Hck Hn]]; [lia|]. rewrite Hk, Hck, Hn, Hkeys, Hsn. split; [reflexivity | lia].
      - destruct Hge as [Hk Hn]; [lia|]. split; [|lia].
        cbn [rot_n]. rewrite <- Hkeys. unfold rot1. cbn [fst snd]. exact Hk.
    Qed.

    Theorem rotation_closed_form ms : forall t cs t' ck0 k0,
      t_sn t = 0 -> (t_sck t, t_sk t) = (ck0, k0) ->
      enc_all t ms = Some (cs, t') -> ms <> [] ->
      exists (r : nat) s,
        Z.of_nat (length ms) - 1 = Z.of_nat r * PER + s /\ 0 <= s < PER /\
        (t_sck t', t_sk t') = rot_n r (ck0, k0) /\ t_sn t' = 2 * (s + 1).
    Proof.
      clear open.
      assert (Hper : 0 < PER) by (unfold PER, ROT_SEND; reflexivity).
      (* generalised: start after [j] messages in position (r, s) *)
      assert (Hgen : forall ms t cs t' ck0 k0 (r : nat) s,
        0 <= s < PER -> (t_sck t, t_sk t) = rot_n r (ck0, k0) -> t_sn t = 2 * (s + 1) ->
        enc_all t ms = Some (cs, t') ->
        exists (r' : nat) s',
          Z.of_nat r * PER + s + Z.of_nat (length ms) = Z.of_nat r' * PER + s' /\ 0 <= s' < PER /\
          (t_sck t', t_sk t') = rot_n r' (ck0, k0) /\ t_sn t' = 2 * (s' + 1)).
      { induction ms0 as [|m ms0 IH]; intros t cs t' ck0 k0 r s Hs Hk Hn Hall.
        - cbn in Hall. inversion Hall; subst. exists r, s. cbn [length]. repeat split; try lia; assumption.
        - cbn [Noise.enc_all] in Hall.
          destruct (enc_msg t m) as [[c t1]|] eqn:Henc; [|discriminate].
          destruct (enc_all t1 ms0) as [[cs1 t2]|] eqn:Hrest; [|discriminate].
          inversion Hall; subst cs t'. clear Hall.
          pose proof (rotation_index_step _ _ _ _ r s ck0 k0 Henc Hs Hk Hn) as Hstep.
          destruct (Z.ltb_spec (s + 1) PER) as [Hc|Hc].
          + destruct Hstep as [Hk1 Hn1].
            destruct (IH t1 cs1 t2 ck0 k0 r (s + 1)) as [r' [s' [He [Hs' [Hk' Hn']]]]];
              [lia | exact Hk1 | rewrite Hn1; lia | exact Hrest |].
            exists r', s'. cbn [length]. repeat split; try assumption; lia.
          + destruct Hstep as [Hk1 Hn1].
            destruct (IH t1 cs1 t2 ck0 k0 (Datatypes.S r) 0) as [r' [s' [He [Hs' [Hk' Hn']]]]];
              [lia | exact Hk1 | rewrite Hn1; lia | exact Hrest |].
            exists r', s'. cbn [length]. repeat split; try assumption; lia. }
      intros t cs t' ck0 k0 Hn0 Hk0 Hall Hne.
      destruct ms as [|m ms]; [contradiction|].
      cbn [Noise.enc_all] in Hall.
      destruct (enc_msg t m) as [[c t1]|] eqn:Henc; [|discriminate].
      destruct (enc_all t1 ms) as [[cs1 t2]|] eqn:Hrest; [|discriminate].
      inversion Hall; subst cs t'. clear Hall.
      destruct (rotation_send _ _ _ _ Henc) as [Hlt _].
      destruct Hlt as [Hk1 [Hck1 Hn1]]; [rewrite Hn0; unfold ROT_SEND; lia|].
      destruct (Hgen ms t1 cs1 t2 ck0 k0 O 0) as [r' [s' [He [Hs' [Hk' Hn']]]]];
        [lia | cbn [rot_n]; rewrite Hk1, Hck1; exact Hk0 | rewrite Hn1, Hn0; lia | exact Hrest |].
      exists r', s'. cbn [length]. repeat split; try assumption; lia.
    Qed.
End NoiseTransport.
