(** C17 — concrete delivery lists used by the non-vacuity examples of [Props/C17.v]: two genuinely
    different admissible deliveries (with duplicates) of one valid message set. *)
From stdpp Require Import gmap.
From Coq Require Import ZArith String Lia.
Require Import LdkV.Gen.GossipConsts LdkV.Model.Gossip LdkV.Model.GossipSpec.
Open Scope Z_scope.

Module Examples.

  Definition cf : cfg := Cfg 0 [99] false.
  Definition a1 : chan_ann := ChanAnnMsg 1 0 42 3 7 11 12 0 100.
  Definition sigs : ann_sigs := AnnSigs true true true true.
  Definition u1 (ts mid : Z) : chan_upd := ChanUpdMsg 0 42 ts 1 0 40 1 1000000 10 20 0 mid.
  Definition u2 (ts mid : Z) : chan_upd := ChanUpdMsg 0 42 ts 1 1 40 1 2000000 10 20 0 mid.
  Definition n3 (ts mid : Z) : node_ann := NodeAnnMsg ts 3 5 0 0 mid.
  Definition A (via : bool) (now : Z) := OChanAnn via (Some sigs) a1 (UOk 5000 true) now.
  Definition L1 : list op :=
    [A true 1000; OChanUpd true (Some (Some 3)) (u1 500 101) 1000 false;
     OChanUpd false (Some (Some 3)) (u1 600 102) 1001 false;
     OChanUpd true (Some (Some 7)) (u2 550 103) 1002 false;
     ONodeAnn true (Some true) (n3 70 104); ONodeAnn false (Some true) (n3 80 105)].
  Definition L2 : list op :=
    [A false 2000; ONodeAnn true (Some true) (n3 80 105);
     OChanUpd false (Some (Some 7)) (u2 550 103) 2001 false;
     OChanUpd true (Some (Some 3)) (u1 600 102) 2002 false; A true 2003;
     ONodeAnn true (Some true) (n3 70 104);
     OChanUpd true (Some (Some 3)) (u1 500 101) 2004 false;
     OChanUpd true (Some (Some 3)) (u1 600 102) 2005 false].

  Lemma upd1_valid via now ts mid :
    upd_valid_for cf a1 (UOk 5000 true) via (Some (Some 3)) (u1 ts mid) now.
  Proof.
    unfold upd_valid_for. simpl. split_and!; [done|done| |done|done| |].
    - by vm_compute.
    - intros cap [= <-]. split; [by vm_compute|lia].
    - by intros s [= <-].
  Qed.
  Lemma upd2_valid via now ts mid :
    upd_valid_for cf a1 (UOk 5000 true) via (Some (Some 7)) (u2 ts mid) now.
  Proof.
    unfold upd_valid_for. simpl. split_and!; [done|done| |done|done| |].
    - by vm_compute.
    - intros cap [= <-]. split; [by vm_compute|lia].
    - by intros s [= <-].
  Qed.

  Lemma vs (L : list op) : (L = L1 ∨ L = L2) → valid_set cf L.
  Proof.
    intros HL.
    assert (∃ via now, A via now ∈ L) as (via0 & now0 & HA).
    { destruct HL as [-> | ->]; eexists _, _; apply elem_of_list_here. }
    split.
    - intros o Ho. destruct HL as [-> | ->]; unfold L1, L2, A in Ho; set_unfold in Ho;
        repeat (destruct Ho as [-> | Ho]; [|]); try done; simpl.
      all: try (unfold ann_valid; simpl; split_and!; [lia|lia|done|by intros s [= <-]|right; by eexists]).
      all: try (split; [done|]; eexists _, _, _, _, _; split; [apply HA|]; first [apply upd1_valid|apply upd2_valid]).
      all: split; [by intros b [= <-]|]; eexists; (split; [apply HA|]); simpl; auto.
    - intros v1 s1 x1 w1 t1 v2 s2 x2 w2 t2 H1 H2 _.
      destruct HL as [-> | ->]; unfold L1, L2, A in H1, H2; set_unfold in H1; set_unfold in H2; naive_solver.
    - intros v1 s1 m1 t1 o1 v2 s2 m2 t2 o2 H1 H2 Hs Hd Ht.
      destruct HL as [-> | ->]; unfold L1, L2, A in H1, H2; set_unfold in H1; set_unfold in H2;
        repeat (destruct H1 as [H1|H1]; try done); simplify_eq;
        repeat (destruct H2 as [H2|H2]; try done); simplify_eq; done.
    - intros v1 s1 m1 v2 s2 m2 H1 H2 Hn Ht.
      destruct HL as [-> | ->]; unfold L1, L2, A in H1, H2; set_unfold in H1; set_unfold in H2;
        repeat (destruct H1 as [H1|H1]; try done); simplify_eq;
        repeat (destruct H2 as [H2|H2]; try done); simplify_eq; done.
  Qed.

  Lemma adm1 : admissible [] L1.
  Proof. unfold L1, A. simpl. split_and!; try done; eexists; (split; [apply elem_of_list_here|]); simpl; auto. Qed.
  Lemma adm2 : admissible [] L2.
  Proof. unfold L2, A. simpl. split_and!; try done; eexists; (split; [apply elem_of_list_here|]); simpl; auto. Qed.
  Lemma same12 : same_messages L1 L2.
  Proof. intros o. unfold L1, L2, A. simpl. set_unfold. naive_solver. Qed.

End Examples.
