(** Lemmas about the byte-level combinators of Codec/Combinators.v: round trip, canonicity of
    BigSize, "decoders return a suffix of their input". *)
Require Import LdkV.Prim.U64 LdkV.Codec.Combinators.
Open Scope Z_scope.

Lemma len_nil : len [] = 0. Proof. reflexivity. Qed.
Lemma len_cons x l : len (x :: l) = len l + 1.
Proof. unfold len. cbn [List.length]. lia. Qed.
Lemma len_app a b : len (a ++ b) = len a + len b.
Proof. unfold len. rewrite app_length. lia. Qed.
Lemma len_nonneg l : 0 <= len l.
Proof. unfold len. lia. Qed.
Lemma len_0_nil l : len l = 0 -> l = [].
Proof. destruct l; [reflexivity|]. rewrite len_cons. pose proof (len_nonneg l). lia. Qed.

Lemma ztake_nonpos n l : n <= 0 -> ztake n l = [].
Proof. intros H. destruct l; cbn [ztake]; [reflexivity|]. destruct (Z.leb_spec n 0); [reflexivity|lia]. Qed.
Lemma zdrop_nonpos n l : n <= 0 -> zdrop n l = l.
Proof. intros H. destruct l; cbn [zdrop]; [reflexivity|]. destruct (Z.leb_spec n 0); [reflexivity|lia]. Qed.

Lemma ztake_app_exact a : forall n r, len a = n -> ztake n (a ++ r) = a.
Proof.
  induction a as [|x a IH]; intros n r H.
  - rewrite len_nil in H. subst n. apply ztake_nonpos. lia.
  - rewrite len_cons in H. pose proof (len_nonneg a). cbn [app ztake].
    destruct (Z.leb_spec n 0); [lia|]. f_equal. apply IH. lia.
Qed.
Lemma zdrop_app_exact a : forall n r, len a = n -> zdrop n (a ++ r) = r.
Proof.
  induction a as [|x a IH]; intros n r H.
  - rewrite len_nil in H. subst n. apply zdrop_nonpos. lia.
  - rewrite len_cons in H. pose proof (len_nonneg a). cbn [app zdrop].
    destruct (Z.leb_spec n 0); [lia|]. apply IH. lia.
Qed.
Lemma ztake_zdrop l : forall n, ztake n l ++ zdrop n l = l.
Proof.
  induction l as [|x l IH]; intros n; cbn [ztake zdrop]; [reflexivity|].
  destruct (Z.leb_spec n 0); [reflexivity|]. cbn [app]. f_equal. apply IH.
Qed.
Lemma len_ztake l : forall n, 0 <= n <= len l -> len (ztake n l) = n.
Proof.
  induction l as [|x l IH]; intros n H.
  - rewrite len_nil in H. cbn [ztake]. rewrite len_nil. lia.
  - rewrite len_cons in H. cbn [ztake]. destruct (Z.leb_spec n 0).
    + rewrite len_nil. lia.
    + rewrite len_cons. rewrite IH; lia.
Qed.
Lemma len_ztake_le l : forall n, len (ztake n l) <= len l.
Proof.
  induction l as [|x l IH]; intros n; cbn [ztake]; [lia|].
  destruct (Z.leb_spec n 0); rewrite ?len_nil, ?len_cons; [pose proof (len_nonneg l); lia|].
  specialize (IH (n - 1)). lia.
Qed.
Lemma ztake_all l : forall n, len l <= n -> ztake n l = l.
Proof.
  induction l as [|x l IH]; intros n H; cbn [ztake]; [reflexivity|].
  rewrite len_cons in H. pose proof (len_nonneg l). destruct (Z.leb_spec n 0); [lia|]. f_equal. apply IH. lia.
Qed.

(** read_n *)
Lemma read_n_app a n r : len a = n -> read_n n (a ++ r) = ROk (a, r).
Proof.
  intros H. unfold read_n. rewrite len_app. pose proof (len_nonneg r).
  destruct (Z.ltb_spec (len a + len r) n); [lia|].
  rewrite ztake_app_exact, zdrop_app_exact by exact H. reflexivity.
Qed.
Lemma read_n_inv n b x r : read_n n b = ROk (x, r) -> b = x ++ r /\ (0 <= n -> len x = n) /\ len x <= Z.max 0 n.
Proof.
  unfold read_n. destruct (Z.ltb_spec (len b) n); [discriminate|]. intros E. inversion E; subst x r.
  split; [symmetry; apply ztake_zdrop|]. split.
  - intros Hn. apply len_ztake. lia.
  - destruct (Z.leb_spec n 0).
    + rewrite ztake_nonpos by lia. rewrite len_nil. lia.
    + rewrite len_ztake by lia. lia.
Qed.
Lemma read_n_short n b : len b < n -> read_n n b = RErr "ShortRead".
Proof. intros H. unfold read_n. destruct (Z.ltb_spec (len b) n); [reflexivity|lia]. Qed.

(** big-endian *)
Lemma be_val_app l : forall acc x, be_val acc (l ++ [x]) = be_val acc l * 256 + x.
Proof. induction l as [|y l IH]; intros acc x; cbn [app be_val]; [reflexivity|]. apply IH. Qed.
Lemma be_enc_len n : forall v, len (be_enc n v) = Z.of_nat n.
Proof.
  induction n as [|n IH]; intros v; cbn [be_enc]; [reflexivity|].
  rewrite len_app, IH, len_cons, len_nil. lia.
Qed.
Lemma pow256_S n : 256 ^ Z.of_nat (S n) = 256 * 256 ^ Z.of_nat n.
Proof. rewrite Nat2Z.inj_succ, Z.pow_succ_r by lia. reflexivity. Qed.
Lemma be_val_enc n : forall v, 0 <= v < 256 ^ Z.of_nat n -> be_val 0 (be_enc n v) = v.
Proof.
  induction n as [|n IH]; intros v H.
  - cbn in H. cbn [be_enc be_val]. lia.
  - rewrite pow256_S in H. cbn [be_enc]. rewrite be_val_app, IH.
    + pose proof (Z.div_mod v 256). lia.
    + split; [apply Z.div_pos; lia|]. apply Z.div_lt_upper_bound; lia.
Qed.
Lemma be_enc_val a : bytes_ok a = true -> be_enc (List.length a) (be_val 0 a) = a /\ 0 <= be_val 0 a < 256 ^ len a.
Proof.
  induction a as [|x a IH] using rev_ind; intros H.
  - cbn. split; [reflexivity|lia].
  - unfold bytes_ok in H. rewrite forallb_app in H. apply andb_true_iff in H. destruct H as [Ha Hx].
    cbn [forallb] in Hx. rewrite andb_true_r in Hx. unfold is_byte in Hx.
    destruct (IH Ha) as [IH1 IH2]. rewrite app_length. cbn [List.length]. rewrite Nat.add_1_r.
    cbn [be_enc]. rewrite be_val_app. rewrite len_app, len_cons, len_nil.
    replace ((be_val 0 a * 256 + x) / 256) with (be_val 0 a) by (rewrite Z.div_add_l by lia; rewrite Z.div_small; lia).
    replace ((be_val 0 a * 256 + x) mod 256) with x by (rewrite Z.add_comm, Z.mod_add by lia; rewrite Z.mod_small; lia).
    rewrite IH1. split; [reflexivity|].
    replace (len a + (0 + 1)) with (Z.succ (len a)) by lia. rewrite Z.pow_succ_r by apply len_nonneg. lia.
Qed.
Lemma be_enc_bytes_ok n : forall v, bytes_ok (be_enc n v) = true.
Proof.
  induction n as [|n IH]; intros v; cbn [be_enc]; [reflexivity|].
  unfold bytes_ok. rewrite forallb_app. fold (bytes_ok (be_enc n (v / 256))). rewrite IH. cbn [forallb andb].
  unfold is_byte. pose proof (Z.mod_pos_bound v 256). lia.
Qed.

Lemma read_u_enc n v r : 0 <= v < 256 ^ Z.of_nat n -> read_u n (be_enc n v ++ r) = ROk (v, r).
Proof.
  intros H. unfold read_u. rewrite read_n_app by apply be_enc_len. cbn [rbind]. rewrite be_val_enc by exact H. reflexivity.
Qed.
Lemma read_u_inv n b x r : read_u n b = ROk (x, r) ->
  exists p, b = p ++ r /\ len p = Z.of_nat n /\ x = be_val 0 p.
Proof.
  unfold read_u. destruct (read_n (Z.of_nat n) b) as [[p r']|e] eqn:E; cbn [rbind]; [|discriminate].
  intros H. inversion H; subst. apply read_n_inv in E. destruct E as [E1 [E2 _]].
  exists p. split; [exact E1|]. split; [apply E2; lia|reflexivity].
Qed.
Lemma read_u_canon n b x r : bytes_ok b = true -> read_u n b = ROk (x, r) ->
  b = be_enc n x ++ r /\ 0 <= x < 256 ^ Z.of_nat n.
Proof.
  intros Hb H. apply read_u_inv in H. destruct H as [p [E1 [E2 E3]]]. subst b x.
  unfold bytes_ok in Hb. rewrite forallb_app in Hb. apply andb_true_iff in Hb. destruct Hb as [Hp _].
  destruct (be_enc_val p Hp) as [A B]. unfold len in E2. apply Nat2Z.inj in E2. rewrite E2 in A.
  rewrite A. split; [reflexivity|]. unfold len in B. rewrite E2 in B. exact B.
Qed.
Lemma read_u1_cons x r : read_u 1 (x :: r) = ROk (x, r).
Proof.
  unfold read_u, read_n. rewrite len_cons. pose proof (len_nonneg r). change (Z.of_nat 1) with 1.
  destruct (Z.ltb_spec (len r + 1) 1); [lia|]. cbn [ztake zdrop].
  destruct (Z.leb_spec 1 0); [lia|]. rewrite ztake_nonpos, zdrop_nonpos by lia.
  cbn [rbind be_val]. f_equal.
Qed.
Lemma read_u_short n b : len b < Z.of_nat n -> read_u n b = RErr "ShortRead".
Proof. intros H. unfold read_u. rewrite read_n_short by exact H. reflexivity. Qed.

(** ------------------------------------------------------------------ BigSize *)
Lemma bigsize_rt v r : 0 <= v < 2 ^ 64 -> bigsize_dec (bigsize_enc v ++ r) = ROk (v, r).
Proof.
  intros H. unfold bigsize_enc, bigsize_dec.
  destruct (Z.leb_spec v 0xFC).
  { cbn [app]. rewrite read_u1_cons. cbn [rbind].
    destruct (Z.eqb_spec v 0xFF); [lia|]. destruct (Z.eqb_spec v 0xFE); [lia|]. destruct (Z.eqb_spec v 0xFD); [lia|]. reflexivity. }
  destruct (Z.leb_spec v 0xFFFF).
  { cbn [app]. rewrite read_u1_cons. cbn [rbind Z.eqb]. rewrite read_u_enc by (change (256 ^ Z.of_nat 2) with 65536; lia).
    cbn [rbind]. destruct (Z.ltb_spec v 0xFD); [lia|]. reflexivity. }
  destruct (Z.leb_spec v 0xFFFFFFFF).
  { cbn [app]. rewrite read_u1_cons. cbn [rbind Z.eqb]. rewrite read_u_enc by (change (256 ^ Z.of_nat 4) with 4294967296; lia).
    cbn [rbind]. destruct (Z.ltb_spec v 0x10000); [lia|]. reflexivity. }
  cbn [app]. rewrite read_u1_cons. cbn [rbind Z.eqb]. rewrite read_u_enc by (change (256 ^ Z.of_nat 8) with (2 ^ 64); lia).
  cbn [rbind]. destruct (Z.ltb_spec v 0x100000000); [lia|]. reflexivity.
Qed.

Lemma bytes_ok_app a b : bytes_ok (a ++ b) = bytes_ok a && bytes_ok b.
Proof. unfold bytes_ok. apply forallb_app. Qed.

(** Canonicity: whatever [bigsize_dec] accepts is exactly the minimal encoding of the value it returns. *)
Lemma bigsize_canon b v r : bytes_ok b = true -> bigsize_dec b = ROk (v, r) ->
  b = bigsize_enc v ++ r /\ 0 <= v < 2 ^ 64.
Proof.
  intros Hb. unfold bigsize_dec.
  destruct (read_u 1 b) as [[n r1]|e] eqn:E1; cbn [rbind]; [|discriminate].
  destruct (read_u_canon _ _ _ _ Hb E1) as [Eb Hn]. change (256 ^ Z.of_nat 1) with 256 in Hn.
  assert (Hr1 : bytes_ok r1 = true).
  { rewrite Eb, bytes_ok_app in Hb. apply andb_true_iff in Hb. tauto. }
  assert (Eb' : b = n :: r1).
  { rewrite Eb. cbn [be_enc app]. rewrite Z.mod_small by lia. reflexivity. }
  clear Eb. subst b. unfold bigsize_enc.
  destruct (Z.eqb_spec n 0xFF) as [->|N1].
  { destruct (read_u 8 r1) as [[x r']|e] eqn:E2; cbn [rbind]; [|discriminate].
    destruct (Z.ltb_spec x 0x100000000); [discriminate|]. intros Hdec; inversion Hdec; subst x r'.
    destruct (read_u_canon _ _ _ _ Hr1 E2) as [Er Hx]. change (256 ^ Z.of_nat 8) with (2 ^ 64) in Hx.
    destruct (Z.leb_spec v 0xFC); [lia|]. destruct (Z.leb_spec v 0xFFFF); [lia|]. destruct (Z.leb_spec v 0xFFFFFFFF); [lia|].
    rewrite Er. split; [reflexivity|lia]. }
  destruct (Z.eqb_spec n 0xFE) as [->|N2].
  { destruct (read_u 4 r1) as [[x r']|e] eqn:E2; cbn [rbind]; [|discriminate].
    destruct (Z.ltb_spec x 0x10000); [discriminate|]. intros Hdec; inversion Hdec; subst x r'.
    destruct (read_u_canon _ _ _ _ Hr1 E2) as [Er Hx]. change (256 ^ Z.of_nat 4) with 4294967296 in Hx.
    destruct (Z.leb_spec v 0xFC); [lia|]. destruct (Z.leb_spec v 0xFFFF); [lia|]. destruct (Z.leb_spec v 0xFFFFFFFF); [|lia].
    rewrite Er. split; [reflexivity|lia]. }
  destruct (Z.eqb_spec n 0xFD) as [->|N3].
  { destruct (read_u 2 r1) as [[x r']|e] eqn:E2; cbn [rbind]; [|discriminate].
    destruct (Z.ltb_spec x 0xFD); [discriminate|]. intros Hdec; inversion Hdec; subst x r'.
    destruct (read_u_canon _ _ _ _ Hr1 E2) as [Er Hx]. change (256 ^ Z.of_nat 2) with 65536 in Hx.
    destruct (Z.leb_spec v 0xFC); [lia|]. destruct (Z.leb_spec v 0xFFFF); [|lia].
    rewrite Er. split; [reflexivity|lia]. }
  intros Hdec; inversion Hdec; subst n r1.
  destruct (Z.leb_spec v 0xFC); [|lia]. split; [reflexivity|lia].
Qed.

(** what a successful BigSize read consumed: a non-empty prefix *)
Lemma bigsize_consumed b v r : bigsize_dec b = ROk (v, r) -> exists p, b = p ++ r /\ 1 <= len p.
Proof.
  unfold bigsize_dec.
  destruct (read_u 1 b) as [[n r1]|e] eqn:E1; cbn [rbind]; [|discriminate].
  apply read_u_inv in E1. destruct E1 as [p1 [Eb [Lp _]]].
  assert (forall k x r', read_u k r1 = ROk (x, r') -> exists p, b = p ++ r' /\ 1 <= len p) as Hk.
  { intros k x r' E. apply read_u_inv in E. destruct E as [p2 [Er [L2 _]]]. exists (p1 ++ p2).
    rewrite Eb, Er, app_assoc, len_app. split; [reflexivity|]. pose proof (len_nonneg p2). lia. }
  destruct (n =? 0xFF).
  { destruct (read_u 8 r1) as [[x r']|e] eqn:E2; cbn [rbind]; [|discriminate].
    destruct (x <? 0x100000000); [discriminate|]. intros Hdec; inversion Hdec; subst. eapply Hk; eauto. }
  destruct (n =? 0xFE).
  { destruct (read_u 4 r1) as [[x r']|e] eqn:E2; cbn [rbind]; [|discriminate].
    destruct (x <? 0x10000); [discriminate|]. intros Hdec; inversion Hdec; subst. eapply Hk; eauto. }
  destruct (n =? 0xFD).
  { destruct (read_u 2 r1) as [[x r']|e] eqn:E2; cbn [rbind]; [|discriminate].
    destruct (x <? 0xFD); [discriminate|]. intros Hdec; inversion Hdec; subst. eapply Hk; eauto. }
  intros Hdec; inversion Hdec; subst. exists p1. split; [reflexivity|lia].
Qed.

(** non-minimal encodings are rejected with InvalidValue (the three boundary families) *)
Lemma bigsize_nonminimal_fd x r : 0 <= x < 0xFD -> bigsize_dec (0xFD :: be_enc 2 x ++ r) = RErr "InvalidValue".
Proof.
  intros H. unfold bigsize_dec. rewrite read_u1_cons. cbn [rbind Z.eqb].
  rewrite read_u_enc by (change (256 ^ Z.of_nat 2) with 65536; lia). cbn [rbind].
  destruct (Z.ltb_spec x 0xFD); [reflexivity|lia].
Qed.
Lemma bigsize_nonminimal_fe x r : 0 <= x < 0x10000 -> bigsize_dec (0xFE :: be_enc 4 x ++ r) = RErr "InvalidValue".
Proof.
  intros H. unfold bigsize_dec. rewrite read_u1_cons. cbn [rbind Z.eqb].
  rewrite read_u_enc by (change (256 ^ Z.of_nat 4) with 4294967296; lia). cbn [rbind].
  destruct (Z.ltb_spec x 0x10000); [reflexivity|lia].
Qed.
Lemma bigsize_nonminimal_ff x r : 0 <= x < 0x100000000 -> bigsize_dec (0xFF :: be_enc 8 x ++ r) = RErr "InvalidValue".
Proof.
  intros H. unfold bigsize_dec. rewrite read_u1_cons. cbn [rbind Z.eqb].
  rewrite read_u_enc by (change (256 ^ Z.of_nat 8) with (2 ^ 64); lia). cbn [rbind].
  destruct (Z.ltb_spec x 0x100000000); [reflexivity|lia].
Qed.

(** ------------------------------------------------------------------ CollectionLength *)
Lemma cl_rt n r : 0 <= n < 2 ^ 64 -> cl_dec (cl_enc n ++ r) = ROk (n, r).
Proof.
  intros H. unfold cl_enc, cl_dec. destruct (Z.ltb_spec n 0xFFFF).
  - rewrite read_u_enc by (change (256 ^ Z.of_nat 2) with 65536; lia). cbn [rbind].
    destruct (Z.eqb_spec n 0xFFFF); [lia|]. reflexivity.
  - rewrite <- app_assoc. rewrite read_u_enc by (change (256 ^ Z.of_nat 2) with 65536; lia). cbn [rbind].
    rewrite Z.eqb_refl.
    rewrite read_u_enc by (change (256 ^ Z.of_nat 8) with (2 ^ 64); lia). cbn [rbind].
    destruct (Z.ltb_spec (n - 0xFFFF + 0xFFFF) (2 ^ 64)); [|lia]. f_equal. f_equal. lia.
Qed.
Lemma cl_consumed b n r : cl_dec b = ROk (n, r) -> exists p, b = p ++ r /\ 2 <= len p.
Proof.
  unfold cl_dec. destruct (read_u 2 b) as [[v r1]|e] eqn:E1; cbn [rbind]; [|discriminate].
  apply read_u_inv in E1. destruct E1 as [p1 [Eb [Lp _]]].
  destruct (v =? 0xFFFF).
  - destruct (read_u 8 r1) as [[x r']|e] eqn:E2; cbn [rbind]; [|discriminate].
    destruct (x + 0xFFFF <? 2 ^ 64); [|discriminate]. intros Hdec; inversion Hdec; subst.
    apply read_u_inv in E2. destruct E2 as [p2 [Er [L2 _]]]. exists (p1 ++ p2).
    rewrite Er, app_assoc, len_app. split; [reflexivity|]. pose proof (len_nonneg p2). lia.
  - intros Hdec; inversion Hdec; subst. exists p1. split; [reflexivity|lia].
Qed.

Lemma read_n_split k b : 0 <= k <= len b -> read_n k b = ROk (ztake k b, zdrop k b).
Proof. intros H. unfold read_n. destruct (Z.ltb_spec (len b) k); [lia|reflexivity]. Qed.
Lemma len_zdrop b k : 0 <= k <= len b -> len (zdrop k b) = len b - k.
Proof.
  intros H. pose proof (ztake_zdrop b k) as Q. apply (f_equal len) in Q. rewrite len_app, len_ztake in Q by exact H. lia.
Qed.

(** ------------------------------------------------------------------ base codecs *)
Section WithOracle.
Variable pk_valid : bytes -> bool.
Notation bdec := (bdec pk_valid).
Notation bdom := (bdom pk_valid).
Notation fdec := (fdec pk_valid).
Notation fdom := (fdom pk_valid).

Lemma all_zero_repeat (k : bytes) : forallb (Z.eqb 0) k = true -> k = repeat 0 (List.length k).
Proof.
  induction k as [|x k IH]; cbn [forallb repeat List.length]; [reflexivity|].
  intros H. apply andb_true_iff in H. destruct H as [Hx Hk]. apply Z.eqb_eq in Hx. subst x. f_equal. apply IH, Hk.
Qed.

Lemma split3 (b : bytes) : b = ztake 1 b ++ ztake 33 (zdrop 1 b) ++ zdrop 34 b.
Proof.
  rewrite <- (ztake_zdrop b 1) at 1. f_equal.
  rewrite <- (ztake_zdrop (zdrop 1 b) 33) at 1. f_equal.
  destruct b as [|x b]; [reflexivity|]. cbn [zdrop].
  change (1 <=? 0) with false. change (34 <=? 0) with false. cbn iota.
  change (1 - 1) with 0. change (34 - 1) with 33. rewrite (zdrop_nonpos 0 b) by lia. reflexivity.
Qed.

Lemma onion_norm_dom b : bdom BOnion (VB b) = true -> onion_norm pk_valid b = b.
Proof.
  cbn [Combinators.bdom]. unfold onion_norm. intros H. apply andb_true_iff in H. destruct H as [HL H].
  destruct (pk_valid (ztake 33 (zdrop 1 b))); [reflexivity|].
  apply all_zero_repeat in H.
  assert (L : len (ztake 33 (zdrop 1 b)) = 33).
  { apply Z.eqb_eq in HL. apply len_ztake. pose proof (split3 b) as S. 
    assert (len (zdrop 1 b) = len b - len (ztake 1 b)) as E.
    { pose proof (ztake_zdrop b 1) as Q. apply (f_equal len) in Q. rewrite len_app in Q. lia. }
    rewrite (len_ztake b 1) in E by lia. lia. }
  unfold len in L. replace (List.length (ztake 33 (zdrop 1 b))) with 33%nat in H by lia.
  unfold zeros33. rewrite <- H. symmetry. apply split3.
Qed.

Lemma bdec_rt c v rest : bdom c v = true -> bdec c (benc c v ++ rest) = ROk (v, rest).
Proof.
  destruct c, v; cbn [Combinators.bdom]; try discriminate; intros H.
  - (* BU *) apply andb_true_iff in H. cbn [Combinators.bdec benc]. rewrite read_u_enc by lia. reflexivity.
  - (* BBool *) cbn [Combinators.bdec benc app]. rewrite read_u1_cons. cbn [rbind]. rewrite H. reflexivity.
  - (* BAcct *) cbn [Combinators.bdec benc app]. rewrite read_u1_cons. cbn [rbind].
    apply orb_true_iff in H. destruct H as [H|H]; apply Z.eqb_eq in H; subst z; reflexivity.
  - (* BBytes *) apply Z.eqb_eq in H. cbn [Combinators.bdec benc]. rewrite read_n_app by exact H. reflexivity.
  - (* BPk *) apply andb_true_iff in H. destruct H as [HL HV]. apply Z.eqb_eq in HL.
    cbn [Combinators.bdec benc]. rewrite read_n_app by exact HL. cbn [rbind]. rewrite HV. reflexivity.
  - (* BSig *) apply andb_true_iff in H. destruct H as [HL HV]. apply Z.eqb_eq in HL.
    cbn [Combinators.bdec benc]. rewrite read_n_app by exact HL. cbn [rbind]. rewrite HV. reflexivity.
  - (* BVarCL *) cbn [Combinators.bdec benc]. rewrite <- app_assoc. rewrite cl_rt by (pose proof (len_nonneg b); lia).
    cbn [rbind]. rewrite read_n_app by reflexivity. reflexivity.
  - (* BVar16 *) cbn [Combinators.bdec benc]. rewrite <- app_assoc.
    rewrite read_u_enc by (change (256 ^ Z.of_nat 2) with 65536; pose proof (len_nonneg b); lia).
    cbn [rbind]. rewrite read_n_app by reflexivity. reflexivity.
  - (* BUtf8 *) apply andb_true_iff in H. destruct H as [HL HV]. cbn [Combinators.bdec benc]. rewrite <- app_assoc.
    rewrite read_u_enc by (change (256 ^ Z.of_nat 2) with 65536; pose proof (len_nonneg b); lia).
    cbn [rbind]. rewrite read_n_app by reflexivity. cbn [rbind]. rewrite HV. reflexivity.
  - (* BOnion *) pose proof (onion_norm_dom b H) as N. cbn [Combinators.bdom] in H. apply andb_true_iff in H. destruct H as [HL _].
    apply Z.eqb_eq in HL. cbn [Combinators.bdec benc]. rewrite read_n_app by exact HL. cbn [rbind]. rewrite N. reflexivity.
  - (* BBig *) cbn [Combinators.bdec benc]. rewrite bigsize_rt by lia. reflexivity.
  - (* BOmPacket *) apply andb_true_iff in H. destruct H as [H HV]. apply andb_true_iff in H. destruct H as [L1 L2].
    apply Z.leb_le in L1. apply Z.ltb_lt in L2.
    cbn [Combinators.bdec benc]. rewrite <- app_assoc.
    rewrite read_u_enc by (change (256 ^ Z.of_nat 2) with 65536; lia). cbn [rbind].
    rewrite ztake_app_exact, zdrop_app_exact by reflexivity.
    rewrite (read_n_split 34 b) by lia. cbn [rbind]. rewrite HV.
    rewrite (read_n_split (Z.max 0 (len b - 66) + 32) (zdrop 34 b)) by (rewrite len_zdrop by lia; lia). cbn [rbind].
    rewrite (ztake_all (zdrop 34 b)) by (rewrite len_zdrop by lia; lia). rewrite ztake_zdrop. reflexivity.
Qed.

(** A successful base decode consumed a prefix [p] (non-empty when [bc_pos]) and left the rest untouched. *)
Lemma bdec_consumed c b v r : bdec c b = ROk (v, r) ->
  exists p, b = p ++ r /\ (bc_pos c = true -> 1 <= len p).
Proof.
  destruct c; cbn [Combinators.bdec bc_pos].
  - destruct (read_u n b) as [[z r1]|e] eqn:E; cbn [rbind]; [|discriminate]. intros Hd; inversion Hd; subst.
    apply read_u_inv in E. destruct E as [p [E1 [E2 _]]]. exists p. split; [exact E1|].
    intros P. destruct n; [discriminate|]. lia.
  - destruct (read_u 1 b) as [[z r1]|e] eqn:E; cbn [rbind]; [|discriminate].
    destruct ((z =? 0) || (z =? 1)); [|discriminate]. intros Hd; inversion Hd; subst.
    apply read_u_inv in E. destruct E as [p [E1 [E2 _]]]. exists p. split; [exact E1|]. intros _. lia.
  - destruct (read_u 1 b) as [[z r1]|e] eqn:E; cbn [rbind]; [|discriminate]. intros Hd; inversion Hd; subst.
    apply read_u_inv in E. destruct E as [p [E1 [E2 _]]]. exists p. split; [exact E1|]. intros _. lia.
  - destruct (read_n n b) as [[x r1]|e] eqn:E; cbn [rbind]; [|discriminate]. intros Hd; inversion Hd; subst.
    apply read_n_inv in E. destruct E as [E1 [E2 _]]. exists x. split; [exact E1|].
    intros P. apply Z.leb_le in P. rewrite E2; lia.
  - destruct (read_n 33 b) as [[x r1]|e] eqn:E; cbn [rbind]; [|discriminate].
    destruct (pk_valid x); [|discriminate]. intros Hd; inversion Hd; subst.
    apply read_n_inv in E. destruct E as [E1 [E2 _]]. exists x. split; [exact E1|]. intros _. rewrite E2; lia.
  - destruct (read_n 64 b) as [[x r1]|e] eqn:E; cbn [rbind]; [|discriminate].
    destruct (sig_valid x); [|discriminate]. intros Hd; inversion Hd; subst.
    apply read_n_inv in E. destruct E as [E1 [E2 _]]. exists x. split; [exact E1|]. intros _. rewrite E2; lia.
  - destruct (cl_dec b) as [[n r1]|e] eqn:E; cbn [rbind]; [|discriminate].
    destruct (read_n n r1) as [[x r2]|e] eqn:E'; cbn [rbind]; [|discriminate]. intros Hd; inversion Hd; subst.
    apply cl_consumed in E. destruct E as [p [E1 E2]]. apply read_n_inv in E'. destruct E' as [E3 _].
    exists (p ++ x). rewrite E1, E3, app_assoc, len_app. split; [reflexivity|]. pose proof (len_nonneg x). lia.
  - destruct (read_u 2 b) as [[n r1]|e] eqn:E; cbn [rbind]; [|discriminate].
    destruct (read_n n r1) as [[x r2]|e] eqn:E'; cbn [rbind]; [|discriminate]. intros Hd; inversion Hd; subst.
    apply read_u_inv in E. destruct E as [p [E1 [E2 _]]]. apply read_n_inv in E'. destruct E' as [E3 _].
    exists (p ++ x). rewrite E1, E3, app_assoc, len_app. split; [reflexivity|]. pose proof (len_nonneg x). lia.
  - destruct (read_u 2 b) as [[n r1]|e] eqn:E; cbn [rbind]; [|discriminate].
    destruct (read_n n r1) as [[x r2]|e] eqn:E'; cbn [rbind]; [|discriminate].
    destruct (is_utf8 x); [|discriminate]. intros Hd; inversion Hd; subst.
    apply read_u_inv in E. destruct E as [p [E1 [E2 _]]]. apply read_n_inv in E'. destruct E' as [E3 _].
    exists (p ++ x). rewrite E1, E3, app_assoc, len_app. split; [reflexivity|]. pose proof (len_nonneg x). lia.
  - destruct (read_n 1366 b) as [[x r1]|e] eqn:E; cbn [rbind]; [|discriminate]. intros Hd; inversion Hd; subst.
    apply read_n_inv in E. destruct E as [E1 [E2 _]]. exists x. split; [exact E1|]. intros _. rewrite E2; lia.
  - destruct (bigsize_dec b) as [[z r1]|e] eqn:E; cbn [rbind]; [|discriminate]. intros Hd; inversion Hd; subst.
    apply bigsize_consumed in E. destruct E as [p [E1 E2]]. exists p. split; [exact E1|]. intros _. exact E2.
  - destruct (read_u 2 b) as [[n r1]|e] eqn:E; cbn [rbind]; [|discriminate].
    destruct (read_n 34 (ztake n r1)) as [[hdr w1]|e] eqn:E'; cbn [rbind]; [|discriminate].
    destruct (pk_valid (zdrop 1 hdr)); [|discriminate].
    destruct (read_n (Z.max 0 (n - 66) + 32) w1) as [[body w2]|e] eqn:E''; cbn [rbind]; [|discriminate].
    intros Hd; inversion Hd; subst.
    apply read_u_inv in E. destruct E as [p [E1 [E2 _]]].
    exists (p ++ ztake n r1). rewrite <- app_assoc, ztake_zdrop. split; [exact E1|]. intros _.
    rewrite len_app. pose proof (len_nonneg (ztake n r1)). lia.
Qed.

Lemma bdec_shrinks c b v r : bc_pos c = true -> bdec c b = ROk (v, r) -> (List.length r < List.length b)%nat.
Proof.
  intros P H. apply bdec_consumed in H. destruct H as [p [E L]]. specialize (L P).
  subst b. rewrite app_length. unfold len in L. lia.
Qed.

Lemma benc_pos c v : bc_pos c = true -> bdom c v = true -> (1 <= List.length (benc c v))%nat.
Proof.
  intros P D. pose proof (bdec_rt c v [] D) as R. apply (bdec_shrinks _ _ _ _ P) in R.
  rewrite app_nil_r in R. cbn [List.length] in R. lia.
Qed.

(** ------------------------------------------------------------------ sequences and vectors *)
Lemma seq_rt l : forall vs rest, seq_dom pk_valid l vs = true -> seq_dec pk_valid l (seq_enc l vs ++ rest) = ROk (vs, rest).
Proof.
  induction l as [|c l IH]; intros vs rest H; destruct vs as [|v vs]; cbn [seq_dom] in H; try discriminate.
  - reflexivity.
  - apply andb_true_iff in H. destruct H as [Hv Hvs]. cbn [seq_enc seq_dec]. rewrite <- app_assoc.
    rewrite bdec_rt by exact Hv. cbn [rbind]. rewrite IH by exact Hvs. reflexivity.
Qed.
Lemma seq_consumed l : forall b vs r, seq_dec pk_valid l b = ROk (vs, r) -> exists p, b = p ++ r.
Proof.
  induction l as [|c l IH]; intros b vs r; cbn [seq_dec].
  - intros Hd; inversion Hd; subst. exists []. reflexivity.
  - destruct (bdec c b) as [[v r1]|e] eqn:E; cbn [rbind]; [|discriminate].
    destruct (seq_dec pk_valid l r1) as [[vs' r2]|e] eqn:E'; cbn [rbind]; [|discriminate].
    intros Hd; inversion Hd; subst. apply bdec_consumed in E. destruct E as [p1 [E1 _]].
    apply IH in E'. destruct E' as [p2 E2]. exists (p1 ++ p2). rewrite E1, E2, app_assoc. reflexivity.
Qed.

Lemma vec_rt c : bc_pos c = true -> forall vs fuel rest, forallb (bdom c) vs = true ->
  (List.length vs <= fuel)%nat ->
  vec_dec pk_valid c fuel (Z.of_nat (List.length vs)) (vec_enc c vs ++ rest) = ROk (vs, rest).
Proof.
  intros P. induction vs as [|v vs IH]; intros fuel rest D F.
  - destruct fuel; reflexivity.
  - cbn [forallb] in D. apply andb_true_iff in D. destruct D as [Dv Dvs].
    cbn [List.length] in F. destruct fuel as [|fuel]; [lia|].
    cbn [vec_dec]. destruct (Z.leb_spec (Z.of_nat (List.length (v :: vs))) 0) as [L|L]; [cbn [List.length] in L; lia|].
    unfold vec_enc. cbn [map List.concat]. rewrite <- app_assoc. rewrite bdec_rt by exact Dv. cbn [rbind].
    replace (Z.of_nat (List.length (v :: vs)) - 1) with (Z.of_nat (List.length vs)) by (cbn [List.length]; lia).
    fold (vec_enc c vs). rewrite IH by (try exact Dvs; lia). reflexivity.
Qed.
Lemma vec_enc_length c vs : bc_pos c = true -> forallb (bdom c) vs = true ->
  (List.length vs <= List.length (vec_enc c vs))%nat.
Proof.
  intros P. induction vs as [|v vs IH]; intros D; [cbn; lia|].
  cbn [forallb] in D. apply andb_true_iff in D. destruct D as [Dv Dvs].
  unfold vec_enc. cbn [map List.concat List.length]. rewrite app_length. fold (vec_enc c vs).
  pose proof (benc_pos c v P Dv). specialize (IH Dvs). lia.
Qed.
Lemma vec_consumed c : forall fuel n b vs r, vec_dec pk_valid c fuel n b = ROk (vs, r) -> exists p, b = p ++ r.
Proof.
  induction fuel as [|fuel IH]; intros n b vs r; cbn [vec_dec]; destruct (n <=? 0).
  - intros Hd; inversion Hd; subst. exists []. reflexivity.
  - destruct (bdec c b) as [[v r1]|e]; cbn [rbind]; discriminate.
  - intros Hd; inversion Hd; subst. exists []. reflexivity.
  - destruct (bdec c b) as [[v r1]|e] eqn:E; cbn [rbind]; [|discriminate].
    destruct (vec_dec pk_valid c fuel (n - 1) r1) as [[vs' r2]|e] eqn:E'; cbn [rbind]; [|discriminate].
    intros Hd; inversion Hd; subst. apply bdec_consumed in E. destruct E as [p1 [E1 _]].
    apply IH in E'. destruct E' as [p2 E2]. exists (p1 ++ p2). rewrite E1, E2, app_assoc. reflexivity.
Qed.

Lemma restvec_rt c : bc_pos c = true -> forall vs fuel, forallb (bdom c) vs = true ->
  (List.length vs <= fuel)%nat -> restvec_dec pk_valid c fuel (vec_enc c vs) = ROk (vs, []).
Proof.
  intros P. induction vs as [|v vs IH]; intros fuel D F.
  - destruct fuel; reflexivity.
  - cbn [forallb] in D. apply andb_true_iff in D. destruct D as [Dv Dvs].
    cbn [List.length] in F. destruct fuel as [|fuel]; [lia|].
    unfold vec_enc. cbn [map List.concat]. fold (vec_enc c vs).
    pose proof (benc_pos c v P Dv) as Lp.
    destruct (benc c v ++ vec_enc c vs) as [|x t] eqn:E.
    { apply (f_equal (@List.length Z)) in E. rewrite app_length in E. cbn [List.length] in E. lia. }
    rewrite <- E. cbn [restvec_dec]. rewrite E. rewrite <- E.
    rewrite bdec_rt by exact Dv. cbn [rbind]. rewrite IH by (try exact Dvs; lia). reflexivity.
Qed.

(** ------------------------------------------------------------------ field codecs *)
Lemma fdec_rt_prefix c v rest : fc_prefix c = true -> fdom c v = true -> fdec c (fenc c v ++ rest) = ROk (v, rest).
Proof.
  destruct c; cbn [fc_prefix]; try discriminate; intros P D.
  - destruct v as [|x [|y v]]; cbn [Combinators.fdom] in D; try discriminate.
    cbn [Combinators.fdec fenc]. rewrite bdec_rt by exact D. reflexivity.
  - cbn [Combinators.fdec fenc Combinators.fdom] in *. apply seq_rt, D.
  - cbn [Combinators.fdec fenc Combinators.fdom] in *. apply andb_true_iff in D. destruct D as [D L].
    rewrite <- app_assoc. rewrite cl_rt by lia. cbn [rbind].
    apply vec_rt; [exact P|exact D|]. rewrite app_length. pose proof (vec_enc_length c v P D). lia.
Qed.

Lemma fdec_rt_end c v : fc_wf c = true -> fdom c v = true -> fdec c (fenc c v) = ROk (v, []).
Proof.
  intros W D. destruct c.
  - rewrite <- (app_nil_r (fenc _ v)). apply fdec_rt_prefix; [reflexivity|exact D].
  - rewrite <- (app_nil_r (fenc _ v)). apply fdec_rt_prefix; [reflexivity|exact D].
  - rewrite <- (app_nil_r (fenc _ v)). apply fdec_rt_prefix; [exact W|exact D].
  - destruct v as [|[z|b] [|y v]]; cbn [Combinators.fdom] in D; try discriminate. reflexivity.
  - cbn [Combinators.fdec fenc Combinators.fdom fc_wf] in *. apply restvec_rt; [exact W|exact D|].
    apply vec_enc_length; assumption.
  - discriminate.
Qed.

Lemma fdec_consumed c b v r : fdec c b = ROk (v, r) -> exists p, b = p ++ r.
Proof.
  destruct c; cbn [Combinators.fdec].
  - destruct (bdec c b) as [[x r1]|e] eqn:E; cbn [rbind]; [|discriminate]. intros Hd; inversion Hd; subst.
    apply bdec_consumed in E. destruct E as [p [E _]]. exists p. exact E.
  - apply seq_consumed.
  - destruct (cl_dec b) as [[n r1]|e] eqn:E; cbn [rbind]; [|discriminate]. intros Hd.
    apply cl_consumed in E. destruct E as [p1 [E1 _]]. apply vec_consumed in Hd. destruct Hd as [p2 E2].
    exists (p1 ++ p2). rewrite E1, E2, app_assoc. reflexivity.
  - intros Hd; inversion Hd; subst. exists b. rewrite app_nil_r. reflexivity.
  - intros Hd. exists b.
    assert (forall fuel b vs r, restvec_dec pk_valid c fuel b = ROk (vs, r) -> r = []) as Q.
    { induction fuel as [|fuel IH]; intros b0 vs r0; destruct b0 as [|x t]; cbn [restvec_dec].
      - intros H0; inversion H0; reflexivity.
      - discriminate.
      - intros H0; inversion H0; reflexivity.
      - destruct (bdec c (x :: t)) as [[v0 r1]|e]; cbn [rbind]; [|discriminate].
        destruct (restvec_dec pk_valid c fuel r1) as [[vs' r2]|e] eqn:E'; cbn [rbind]; [|discriminate].
        intros H0; inversion H0; subst. eapply IH; eauto. }
    apply Q in Hd. subst r. rewrite app_nil_r. reflexivity.
  - discriminate.
Qed.

End WithOracle.
