(** C09 proofs, part b: every label of [Model/MonUpd.v] preserves the invariants and releases nothing
    early ([step_PostL]). *)
Require Import LdkV.Prim.U64 LdkV.Model.MonUpd LdkV.Proofs.C09a.
Open Scope Z_scope.

Definition alldone_nb (s : st) : Prop :=
  forall i, In i (H s) -> i <> base (gh s) -> In i (done (gh s)).

(** Finding F1: channel_reestablish re-sends channel_ready in the ChannelReady state without looking at
    MONITOR_UPDATE_IN_PROGRESS. That output is excluded from the no-early-release statement (and shown to
    violate it in [Props/C09.v]). *)
Definition excl (s : st) (l : label) (k : rkind) : Prop :=
  match l with
  | LReestablish _ _ true => is_ready (ch s) = true /\ k = RChannelReady
  | _ => False
  end.

Definition PostL (l : label) (s : st) (r : st * list out) : Prop :=
  let '(s', o) := r in
  IA s' /\ handed (gh s') = handed (gh s) ++ watched o /\
  (forall k d, In (ORel k d) o -> ~ excl s l k ->
     (k = RAction -> alldone_nb s') /\ (k <> RAction -> alldone s')) /\
  (forall h, In (OCmEvent h) o -> cmp (cm s') = [] /\ h = applied (cm s')) /\ IC s' /\
  base (gh s') = base (gh s).

Lemma alldone_nb_of s : alldone s -> alldone_nb s.
Proof. intros A i Hi _. apply A, Hi. Qed.

Lemma Post_PostL l s r : Post s r -> PostL l s r.
Proof.
  destruct r as [s' o]. unfold Post, PostL. intros (A1 & A2 & A3 & A4 & A5 & A6).
  split; [exact A1|split; [exact A2|split; [|split; [exact A4|split; [exact A5|exact A6]]]]].
  intros k d Hin _. assert (A : alldone s') by (apply A3; exists k, d; exact Hin).
  split; intros _; [apply alldone_nb_of|]; exact A.
Qed.

Definition same_ic (s t : st) : Prop :=
  mip (ch t) = mip (ch s) /\ inflight (mg t) = inflight (mg s) /\ blocked (ch t) = blocked (ch s) /\
  p_raa (ch t) = p_raa (ch s) /\ p_cs (ch t) = p_cs (ch s) /\ p_cr (ch t) = p_cr (ch s) /\
  p_fwd (ch t) = p_fwd (ch s) /\ acts (mg t) = acts (mg s) /\ handed (gh t) = handed (gh s) /\
  done (gh t) = done (gh s).

Lemma IC_same s t : same_ic s t -> IC s -> IC t.
Proof.
  intros (E1 & E2 & E3 & E4 & E5 & E6 & E7 & E8 & E9 & E10) C Hm. rewrite E1 in Hm.
  destruct (C Hm) as (A1 & A2 & A3 & A4 & A5 & A6 & A7 & A8).
  unfold clear, alldone, H. rewrite E2, E3, E4, E5, E6, E7, E8, E9, E10. repeat split; assumption.
Qed.

Lemma IC_mip s : mip (ch s) = true -> IC s.
Proof. intros Hm Hx. congruence. Qed.

Lemma Post_err s : IA s -> IC s -> Post s (err s).
Proof.
  intros I C. unfold err, Post. cbn. rewrite app_nil_r.
  split; [exact I|split; [reflexivity|split; [|split; [|split; [exact C|reflexivity]]]]].
  - intros (k & d & [Hx|[]]). discriminate.
  - intros h [Hx|[]]. discriminate.
Qed.

(** an unfrozen channel has nothing blocked; with something blocked it cannot commit *)
Lemma IC_blocked_mip s : IC s -> blocked (ch s) <> [] -> mip (ch s) = true.
Proof.
  intros C Hb. destruct (mip (ch s)) eqn:Hm; [reflexivity|]. destruct (C Hm) as (_ & _ & B & _). congruence.
Qed.
Lemma can_commit_nomip s : can_commit (ch s) = true -> mip (ch s) = false.
Proof. unfold can_commit. destruct (mip (ch s)); [|reflexivity]. cbn. rewrite andb_false_r. cbn. discriminate. Qed.

Ltac tw := unfold tweak; cbn; repeat split; try reflexivity; try lia.
Ltac ss := unfold same_struct; cbn; repeat split; try reflexivity.
Ltac si := unfold same_ic; cbn; repeat split; try reflexivity.

Lemma step_LSend s v : IA s -> IC s -> Post s (step s (LSend v)).
Proof.
  intros I C. unfold step.
  destruct (negb (is_ready (ch s)) || pd (ch s)); [apply Post_err; assumption|].
  destruct (can_commit (ch s)) eqn:Hc.
  - cbn [build_commitment]. apply push_or_handle_spec; [exact I|tw|reflexivity].
  - apply Post_flags; [exact I|ss|constructor|intros []; reflexivity|eapply IC_same; [|exact C]; si].
Qed.

Lemma step_LQueue s it : IA s -> IC s -> Post s (step s (LQueue it)).
Proof.
  intros I C. unfold step.
  destruct (negb (is_ready (ch s))); [apply Post_err; assumption|].
  apply Post_flags; [exact I|ss|constructor|intros []; reflexivity|eapply IC_same; [|exact C]; si].
Qed.

Lemma step_LFreeHold s d v : IA s -> IC s -> Post s (step s (LFreeHold d v)).
Proof.
  intros I C. unfold step.
  destruct (can_commit (ch s)) eqn:Hc.
  - unfold free_holding. destruct (nilb (hold (ch s))) eqn:Hh.
    + apply Post_flags; [exact I|ss|constructor|intros []; reflexivity|exact C].
    + destruct (d && (nclaims (hold (ch s)) =? 0)%nat).
      * apply Post_flags; [exact I|ss|constructor|intros []; reflexivity|eapply IC_same; [|exact C]; si].
      * cbn [build_commitment]. apply push_or_handle_spec; [exact I|tw|reflexivity].
  - apply Post_flags; [exact I|ss|constructor|intros []; reflexivity|exact C].
Qed.

(** get_update_fulfill_htlc_and_commit's renumbering: the new preimage update takes the id of the first
    blocked update, every blocked update moves up by one *)
Lemma IA_renumber s t :
  IA s ->
  latest (ch t) = latest (ch s) + 1 -> blocked (ch t) = map bump (blocked (ch s)) ->
  inflight (mg t) = inflight (mg s) -> cm t = cm s -> handed (gh t) = handed (gh s) ->
  done (gh t) = done (gh s) -> base (gh t) = base (gh s) ->
  IAg [match blocked (ch s) with b :: _ => uid b | [] => latest (ch s) + 1 end] t.
Proof.
  intros I T1 T2 T3 T4 T5 T6 T7.
  assert (HH : H t = H s) by (unfold H; rewrite T5; reflexivity).
  assert (HL : lasth t = lasth s) by (unfold lasth; rewrite HH, T7; reflexivity).
  destruct I as [I1 I2 I3 I4 I5 I6 I7 IB I8 I9]. change (zlen (@nil Z)) with 0 in I3. cbn [app] in I2.
  assert (Hfirst : match blocked (ch s) with b :: _ => uid b | [] => latest (ch s) + 1 end = lasth s + 1).
  { destruct (blocked (ch s)) as [|b r] eqn:Hb.
    - change (zlen (@nil upd)) with 0 in I3. lia.
    - apply consec_app in I2. destruct I2 as [_ I2]. change (ids (b :: r)) with (uid b :: ids r) in I2.
      cbn in I2. destruct I2 as [-> _]. unfold lasth. lia. }
  rewrite Hfirst.
  constructor; rewrite ?HH, ?HL, ?T2, ?T3, ?T4, ?T6, ?T7; try assumption.
  - apply consec_app in I2. destruct I2 as [Ia Ib]. apply consec_app. split; [exact Ia|].
    cbn [app consec]. split; [unfold lasth; lia|]. rewrite ids_bump. apply consec_shift. exact Ib.
  - rewrite T1, I3. change (zlen [lasth s + 1]) with 1. unfold zlen. rewrite map_length. lia.
Qed.

Lemma step_LClaim s v : IA s -> IC s -> Post s (step s (LClaim v)).
Proof.
  intros I C. unfold step.
  destruct (negb (is_ready (ch s))); [apply Post_err; assumption|].
  destruct (can_commit (ch s)) eqn:Hc.
  - (* free to commit: nothing is blocked, the preimage and the new commitment go in one update *)
    pose proof (can_commit_nomip _ Hc) as Hm. destruct (C Hm) as (_ & _ & Hb & _).
    rewrite Hb. cbn [nilb negb andb build_commitment].
    apply (Post_transport s (on_ch (c_latest (latest (ch s) + 1)) s)); [reflexivity|reflexivity|].
    match goal with |- Post _ (handle_new_update ?u ?v ?t) => apply (handle_new_update_spec u v t) end; [|reflexivity].
    pose proof (IA_number [] s (c_latest (latest (ch s) + 1)) I ltac:(split; reflexivity) Hb) as J.
    cbn [app] in J. eapply IA_same_struct; [|exact J]. ss.
  - (* cannot commit: the claim waits in the holding cell, its preimage update jumps the blocked queue *)
    cbn [negb andb]. rewrite andb_false_r.
    match goal with |- Post _ (handle_new_update ?u ?v ?t) =>
      apply (Post_transport s t); [reflexivity|reflexivity|apply (handle_new_update_spec u v t); [|reflexivity]] end.
    cbn [uid].
    eapply IA_renumber; [exact I|cbn; reflexivity|cbn; reflexivity|reflexivity|reflexivity|reflexivity|reflexivity|reflexivity].
Qed.

Lemma step_LRecvCS s need v : IA s -> IC s -> Post s (step s (LRecvCS need v)).
Proof.
  intros I C. unfold step.
  destruct (negb (is_ready (ch s)) || pd (ch s)); [apply Post_err; assumption|].
  destruct (need && negb (arr (ch s))); cbn [build_commitment]; destruct (mip (ch s)) eqn:Hm;
    (apply push_or_handle_spec; [exact I|tw; try exact Hm|reflexivity]).
Qed.

Lemma step_LUnblock s v : IA s -> IC s -> Post s (step s (LUnblock v)).
Proof.
  intros I C. unfold step. destruct (blocked (ch s)) as [|b rest] eqn:Hb.
  - apply Post_flags; [exact I|apply same_struct_refl|constructor|intros []; reflexivity|exact C].
  - assert (Hm : mip (ch s) = true) by (apply IC_blocked_mip; [exact C|rewrite Hb; discriminate]).
    apply (Post_transport s (on_ch (c_blocked rest) s)); [reflexivity|reflexivity|].
    apply handle_new_update_spec; [|exact Hm].
    destruct I as [I1 I2 I3 I4 I5 I6 I7 IB I8 I9]. rewrite Hb in *.
    constructor; autorewrite with st; cbn; try assumption.
    change (zlen [uid b]) with 1. change (zlen (@nil Z)) with 0 in I3. rewrite zlen_cons in I3. lia.
Qed.

Lemma step_LComplete s id : IA s -> IC s -> Post s (step s (LComplete id)).
Proof. intros I C. apply cm_completed_spec; assumption. Qed.

Lemma step_LEvents s : IA s -> IC s -> Post s (step s LEvents).
Proof.
  intros I C. unfold step.
  set (s0 := on_cm (k_evq []) s).
  apply (Post_transport s s0); [reflexivity|reflexivity|].
  assert (I0 : IA s0).
  { destruct I as [I1 I2 I3 I4 I5 I6 I7 IB I8 I9]. constructor; autorewrite with st; cbn; try assumption. intros h []. }
  apply process_events_spec; [exact I0|eapply IC_same; [|exact C]; si|].
  intros h Hh. exact (ia_evq _ _ I h Hh).
Qed.

Lemma step_LDisconnect s : IA s -> IC s -> Post s (step s LDisconnect).
Proof.
  intros I C. unfold step.
  apply Post_flags; [exact I|ss|constructor|intros []; reflexivity|eapply IC_same; [|exact C]; si].
Qed.

Lemma step_LRecvChannelReady s : IA s -> IC s -> Post s (step s LRecvChannelReady).
Proof.
  intros I C. unfold step.
  apply Post_flags; [exact I|ss|constructor|intros []; reflexivity|eapply IC_same; [|exact C]; si].
Qed.

Lemma step_LFlush s v : IA s -> IC s -> Post s (step s (LFlush v)).
Proof.
  intros I C. unfold step. destruct (cmq (cm s)) as [|u rest] eqn:Hq.
  - apply Post_flags; [exact I|apply same_struct_refl|constructor|intros []; reflexivity|exact C].
  - destruct I as [I1 I2 I3 I4 I5 I6 I7 IB I8 I9]. rewrite Hq in *.
    change (ids (u :: rest)) with (uid u :: ids rest) in *. cbn [consec] in I6. destruct I6 as [Hu I6].
    rewrite zlen_cons in I7.
    assert (Hdef : deferred (cm s) = false -> rest = []).
    { intros Hd. specialize (I8 Hd). discriminate. }
    assert (Hrest : forall i, In i (ids rest) -> uid u < i).
    { intros i Hi. pose proof (consec_In _ _ _ I6 Hi). lia. }
    destruct v.
    + (* Completed *)
      set (s2 := on_gh (fun g => g_done (done g ++ [uid u]) g) (on_cm (fun k => k_applied (uid u) (k_cmq rest k)) s)).
      assert (Hnew : cmp (cm s) = [] -> forall i, In i (H s) -> i <= uid u -> In i (done (gh s) ++ [uid u])).
      { intros Hc i Hi Hle. destruct (Z.eq_dec i (uid u)) as [->|Hne]; [apply in_or_app; right; left; reflexivity|].
        apply in_or_app. left. destruct (in_dec Z.eq_dec i (done (gh s))) as [Hd|Hd]; [exact Hd|]. exfalso.
        destruct (I5 i Hi Hd) as [Hx|[Hx|Hx]]; [rewrite Hc in Hx; destruct Hx|congruence|]. specialize (Hrest i Hx). lia. }
      assert (IAev : forall ev, (forall h, In h ev -> base (gh s) <= h <= uid u /\ forall i, In i (H s) -> i <= h -> In i (done (gh s) ++ [uid u])) ->
                IA (on_cm (k_evq ev) s2)).
      { intros ev Hev. assert (H2 : H s2 = H s) by reflexivity. assert (L2 : lasth s2 = lasth s) by reflexivity.
        constructor; autorewrite with st; cbn; rewrite ?H2, ?L2; try assumption.
        - intros i Hi Hd. apply I4; [exact Hi|]. intros Hx. apply Hd. apply in_or_app. left. exact Hx.
        - intros i Hi Hd. destruct (I5 i Hi) as [Hx|[Hx|Hx]].
          + intros Hx. apply Hd. apply in_or_app. left. exact Hx.
          + left. exact Hx.
          + exfalso. apply Hd. apply in_or_app. right. left. exact Hx.
          + right. exact Hx.
        - rewrite Hu. replace (applied (cm s) + 1 + 1) with (applied (cm s) + 1 + 1) by lia. exact I6.
        - lia.
        - lia. }
      assert (Cx : forall s3, ch s3 = ch s -> mg s3 = mg s -> H s3 = H s -> done (gh s3) = done (gh s) ++ [uid u] -> IC s3).
      { intros s3 F1 F2 F3 F4 Hm. rewrite F1 in Hm. destruct (C Hm) as (A1 & A2 & A3).
        unfold clear, alldone. rewrite F1, F2, F3, F4. split; [exact A1|split; [|exact A3]].
        intros i Hi. apply in_or_app. left. apply A2, Hi. }
      change (nilb (cmp (cm s2))) with (nilb (cmp (cm s))). destruct (nilb (cmp (cm s))) eqn:Hn.
      * apply nilb_true in Hn. unfold Post. cbn [watched flat_map app]. rewrite app_nil_r.
        split; [|split; [reflexivity|split; [intros (k & d & [Hx|[]]); discriminate|split; [|split; [|reflexivity]]]]].
        -- apply (IAev (evq (cm s) ++ [uid u])). intros h Hh. apply in_app_or in Hh. destruct Hh as [Hh|[<-|[]]].
           ++ destruct (I9 h Hh) as [Hr Hd]. split; [lia|]. intros i Hi Hle. apply in_or_app. left. apply Hd; assumption.
           ++ split; [lia|]. apply Hnew, Hn.
        -- intros h [Hx|[]]. injection Hx as <-. cbn. split; [exact Hn|reflexivity].
        -- apply Cx; reflexivity.
      * unfold Post. cbn [watched flat_map app]. rewrite app_nil_r.
        split; [|split; [reflexivity|split; [intros (k & d & [])|split; [intros h []|split; [|reflexivity]]]]].
        -- pose proof (IAev (evq (cm s))) as J. 
           assert (E : on_cm (k_evq (evq (cm s))) s2 = s2) by (subst s2; destruct s as [c m [d q a p e] g sh]; reflexivity).
           rewrite E in J. apply J. intros h Hh. destruct (I9 h Hh) as [Hr Hd]. split; [lia|].
           intros i Hi Hle. apply in_or_app. left. apply Hd; assumption.
        -- apply Cx; reflexivity.
    + (* InProgress *)
      unfold Post. cbn [watched flat_map app]. rewrite app_nil_r.
      split; [|split; [reflexivity|split; [intros (k & d & [])|split; [intros h []|split; [eapply IC_same; [|exact C]; si|reflexivity]]]]].
      constructor; autorewrite with st; cbn; try assumption.
      * intros i Hi Hd. destruct (I5 i Hi Hd) as [Hx|[Hx|Hx]].
        -- left. apply in_or_app. left. exact Hx.
        -- left. apply in_or_app. right. left. exact Hx.
        -- right. exact Hx.
      * rewrite Hu. exact I6.
      * lia.
      * lia.
      * intros h Hh. destruct (I9 h Hh) as [Hr Hd]. split; [lia|exact Hd].
Qed.

Lemma handle_spec_tweak s t u v :
  IA s -> tweak s t -> blocked (ch t) = [] -> uid u = latest (ch t) -> Post s (handle_new_update u v t).
Proof.
  intros I T Hb Hu. pose proof (push_or_handle_spec s t u v I T Hu) as P.
  unfold push_or_handle in P. rewrite Hb in P. exact P.
Qed.

Lemma block_spec s t u :
  IA s -> tweak s t -> uid u = latest (ch t) ->
  Post s (on_ch (fun c => c_blocked (blocked c ++ [u]) c) t, []).
Proof.
  intros I (T1 & T2 & T3 & T4 & T5 & T6 & T7 & T8) Hu.
  assert (HH : H t = H s) by (unfold H; rewrite T5; reflexivity).
  assert (HL : lasth t = lasth s) by (unfold lasth; rewrite HH, T7; reflexivity).
  destruct I as [I1 I2 I3 I4 I5 I6 I7 IB I8 I9]. change (zlen (@nil Z)) with 0 in I3.
  unfold Post. cbn.
  split; [|split; [rewrite app_nil_r; exact T5|split; [intros (k & d & []) |split; [intros h []|split; [intros Hx; cbn in Hx; congruence|exact T7]]]]].
  constructor; autorewrite with st; cbn; rewrite ?HH, ?HL, ?T2, ?T3, ?T4, ?T6, ?T7; try assumption.
  - rewrite ids_app, app_assoc. apply consec_app. split; [exact I2|]. cbn. split; [|exact I].
    rewrite zlen_app. unfold lasth in *. unfold ids. rewrite zlen_map. lia.
  - rewrite zlen_app. change (zlen [u]) with 1. change (zlen (@nil Z)) with 0. lia.
Qed.

Lemma step_LRecvRAA s held d req n v : IA s -> IC s -> Post s (step s (LRecvRAA held d req n v)).
Proof.
  intros I C. unfold step.
  destruct (negb (is_ready (ch s)) || pd (ch s) || negb (arr (ch s))); [apply Post_err; assumption|].
  cbn [ch on_ch]. unfold free_holding. cbn [ch on_ch hold c_arr c_latest].
  destruct (can_commit (c_arr false (c_latest (latest (ch s) + 1) (ch s)))) eqn:Hc;
  destruct (nilb (hold (ch s))) eqn:Hh; destruct req; destruct d; destruct (nclaims (hold (ch s)) =? 0)%nat eqn:Hn;
  cbn [andb build_commitment fst snd];
  destruct (nilb (blocked (ch s))) eqn:Hb; destruct held; cbn [andb negb];
  first
    [ apply handle_spec_tweak; [exact I|tw|cbn; apply nilb_true; exact Hb|reflexivity]
    | match goal with |- Post _ (on_ch (fun c => c_blocked (blocked c ++ [?u]) c) ?t, []) =>
        apply (block_spec s t u); [exact I|tw|reflexivity] end ].
Qed.

Lemma IC_alldone s : IC s -> mip (ch s) = false -> alldone s.
Proof. intros C Hm. destruct (C Hm) as (_ & A & _). exact A. Qed.

Lemma step_LFundingLocked s oc : IA s -> IC s -> Post s (step s (LFundingLocked oc)).
Proof.
  intros I C. unfold step.
  destruct (our_cr (ch s)).
  - apply Post_flags; [exact I|ss|constructor|intros []; reflexivity|eapply IC_same; [|exact C]; si].
  - destruct (mip (ch s)) eqn:Hm.
    + apply Post_flags; [exact I|ss|constructor|intros []; reflexivity|apply IC_mip; cbn; exact Hm].
    + destruct (pd (ch s)).
      * apply Post_flags; [exact I|ss|constructor|intros []; reflexivity|eapply IC_same; [|exact C]; si].
      * apply Post_flags; [exact I|ss|repeat constructor|intros _; apply IC_alldone; assumption|eapply IC_same; [|exact C]; si].
Qed.

Lemma PostL_flags l s s' o :
  IA s -> same_struct s s' -> Forall is_rel o ->
  (forall k d, In (ORel k d) o -> ~ excl s l k -> (k = RAction -> alldone_nb s) /\ (k <> RAction -> alldone s)) ->
  IC s' -> PostL l s (s', o).
Proof.
  intros I S F A C. unfold PostL. pose proof S as (Q1 & Q2 & Q3 & Q4 & Q5 & Q6 & Q7).
  assert (HH : H s' = H s) by (unfold H; rewrite Q5; reflexivity).
  split; [eapply IA_same_struct; eassumption|].
  split; [rewrite (watched_rels _ F), app_nil_r; exact Q5|].
  split; [|split; [intros h Hin; destruct (no_event_rels _ F h Hin)|split; [exact C|exact Q7]]].
  intros k d Hin Hex. destruct (A k d Hin Hex) as [A1 A2].
  unfold alldone_nb, alldone. rewrite HH, Q6, Q7. split; assumption.
Qed.

Lemma rev_nil_inv {A} (l : list A) : rev l = [] -> l = [].
Proof. intros E. rewrite <- (rev_involutive l), E. reflexivity. Qed.

Lemma step_LDupClaim s : IA s -> IC s -> PostL LDupClaim s (step s LDupClaim).
Proof.
  intros I C. unfold step.
  destruct (negb (is_ready (ch s))); [apply Post_PostL, Post_err; assumption|].
  destruct (rev (inflight (mg s))) as [|i r] eqn:Hr.
  - apply rev_nil_inv in Hr.
    apply PostL_flags; [exact I|apply same_struct_refl|repeat constructor| |exact C].
    intros k d [Hx|[]] _. injection Hx as <- <-. split; [intros _|congruence].
    intros i Hi Hne. destruct (in_dec Z.eq_dec i (done (gh s))) as [Hd|Hd]; [exact Hd|]. exfalso.
    destruct (ia_infl _ _ I i Hi Hd) as [Hx|Hx]; [rewrite Hr in Hx; destruct Hx|congruence].
  - apply PostL_flags; [exact I|ss|constructor|intros k d []|].
    apply IC_mip. cbn. destruct (mip (ch s)) eqn:Hm; [reflexivity|].
    destruct (C Hm) as (A & _). rewrite A in Hr. discriminate.
Qed.

Lemma step_LReestablish s a b c : IA s -> IC s -> PostL (LReestablish a b c) s (step s (LReestablish a b c)).
Proof.
  intros I C. unfold step.
  destruct (pd (ch s)) eqn:Hpd; cbn [negb]; [|apply Post_PostL, Post_err; assumption].
  destruct (is_ready (ch s)) eqn:Hr; cbn [negb].
  - (* ChannelReady *)
    destruct (mip (ch s)) eqn:Hm.
    + destruct a, b, c, (raa_first (ch s)); cbn -[PostL];
        (apply PostL_flags; [exact I|ss|repeat constructor| |apply IC_mip; cbn; exact Hm]);
        intros k d Hin Hex; cbn in Hin; repeat (destruct Hin as [Hin|Hin]; [injection Hin as <- <-; exfalso; apply Hex; cbn; auto|]); destruct Hin.
    + pose proof (IC_alldone _ C Hm) as AD.
      destruct a, b, c, (raa_first (ch s)); cbn -[PostL];
        (apply PostL_flags; [exact I|ss|repeat constructor| |]);
        try (intros k d Hin Hex; split; intros _; [apply alldone_nb_of|]; exact AD);
        (intros Hx; destruct (C Hm) as (A1 & A2 & A3 & A4 & A5 & A6 & A7 & A8); unfold clear, alldone, H; cbn; repeat split; assumption).
  - (* AwaitingChannelReady *)
    destruct (our_cr (ch s)); cbn [negb orb].
    + destruct (mip (ch s)) eqn:Hm.
      * apply PostL_flags; [exact I|ss|constructor|intros k d []|apply IC_mip; cbn; exact Hm].
      * pose proof (IC_alldone _ C Hm) as AD.
        apply PostL_flags; [exact I|ss|repeat constructor| |eapply IC_same; [|exact C]; si].
        intros k d Hin Hex; split; intros _; [apply alldone_nb_of|]; exact AD.
    + apply PostL_flags; [exact I|ss|constructor|intros k d []|eapply IC_same; [|exact C]; si].
Qed.

Lemma step_LShutdown s lo sc v : IA s -> IC s -> Post s (step s (LShutdown lo sc v)).
Proof.
  intros I C. unfold step.
  destruct (if lo then pd (ch s) || mip (ch s) else pd (ch s)); [apply Post_err; assumption|].
  destruct sc.
  - apply push_or_handle_spec; [exact I|tw|reflexivity].
  - apply Post_flags; [exact I|ss|constructor|intros []; reflexivity|eapply IC_same; [|exact C]; si].
Qed.

Lemma step_LClosing s nh : IA s -> IC s -> Post s (step s (LClosing nh)).
Proof.
  intros I C. unfold step.
  destruct (sh_local (sd s) && sh_remote (sd s)); cbn [andb];
    [|apply Post_flags; [exact I|apply same_struct_refl|constructor|intros []; reflexivity|exact C]].
  destruct (mip (ch s)) eqn:Hm; cbn [negb andb];
    [apply Post_flags; [exact I|apply same_struct_refl|constructor|intros []; reflexivity|exact C]|].
  destruct (negb (pd (ch s)) && nh);
    [|apply Post_flags; [exact I|apply same_struct_refl|constructor|intros []; reflexivity|exact C]].
  apply Post_flags; [exact I|apply same_struct_refl|repeat constructor|intros _; apply IC_alldone; assumption|exact C].
Qed.

(** ---------- every label *)
Theorem step_PostL l s : IA s -> IC s -> PostL l s (step s l).
Proof.
  intros I C. destruct l.
  - apply Post_PostL, step_LSend; assumption.
  - apply Post_PostL, step_LQueue; assumption.
  - apply Post_PostL, step_LFreeHold; assumption.
  - apply Post_PostL, step_LClaim; assumption.
  - apply step_LDupClaim; assumption.
  - apply Post_PostL, step_LRecvCS; assumption.
  - apply Post_PostL, step_LRecvRAA; assumption.
  - apply Post_PostL, step_LUnblock; assumption.
  - apply Post_PostL, step_LFlush; assumption.
  - apply Post_PostL, step_LComplete; assumption.
  - apply Post_PostL, step_LEvents; assumption.
  - apply Post_PostL, step_LDisconnect; assumption.
  - apply step_LReestablish; assumption.
  - apply Post_PostL, step_LFundingLocked; assumption.
  - apply Post_PostL, step_LRecvChannelReady; assumption.
  - apply Post_PostL, step_LShutdown; assumption.
  - apply Post_PostL, step_LClosing; assumption.
Qed.

(** ---------- initial states and runs *)
Inductive cfg :=
| COpen (b : Z) (isdef : bool)                 (* a ready channel, monitor at update id b *)
| CNew (b : Z) (initial_pending funder : bool) (* right after watch_channel *).
Definition init_of (c : cfg) : st :=
  match c with COpen b d => init_open b d | CNew b p f => init_new b p f end.
Definition base_of (c : cfg) : Z := match c with COpen b _ => b | CNew b _ _ => b end.

Lemma init_IA c : IA (init_of c).
Proof.
  assert (Z1 : forall b : Z, zlen [b] = 1) by reflexivity.
  assert (Z2 : zlen (@nil Z) = 0) by reflexivity.
  assert (Z3 : zlen (@nil upd) = 0) by reflexivity.
  destruct c as [b d|b p f];
    (constructor; unfold lasth, H, ids; cbn; rewrite ?Z1, ?Z2, ?Z3; try tauto; try lia;
     try (exists []; reflexivity);
     try (intros i [<-|[]] Hd; first [exfalso; apply Hd; left; reflexivity | destruct p; [left; left; reflexivity|exfalso; apply Hd; left; reflexivity] | right; reflexivity])).
Qed.

Lemma init_IC c : IC (init_of c).
Proof.
  destruct c as [b d|b p f]; cbn; intros Hm; cbn in Hm.
  - unfold clear, alldone, H. cbn. repeat split. intros i [<-|[]]. left. reflexivity.
  - subst p. unfold clear, alldone, H. cbn. repeat split. intros i [<-|[]]. left. reflexivity.
Qed.

Lemma init_base c : base (gh (init_of c)) = base_of c.
Proof. destruct c; reflexivity. Qed.

Lemma run_inv ls : forall s, IA s -> IC s ->
  IA (run s ls) /\ IC (run s ls) /\ base (gh (run s ls)) = base (gh s).
Proof.
  induction ls as [|l t IH]; intros s I C; cbn [run]; [auto|].
  pose proof (step_PostL l s I C) as P. destruct (step s l) as [s' o]. cbn [fst].
  destruct P as (P1 & _ & _ & _ & P5 & P6). destruct (IH s' P1 P5) as (A & B & E). rewrite E. auto.
Qed.

Lemma run_app s l1 l2 : run s (l1 ++ l2) = run (run s l1) l2.
Proof. revert s. induction l1 as [|l t IH]; intros s; cbn; [reflexivity|apply IH]. Qed.
