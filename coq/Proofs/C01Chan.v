(** C01, protocol layer: invariants of one side of the channel ([Model/Chan.v]) under ALL sequences of
    entry-point calls with arbitrary arguments (hence under all schedules of [Model/ChanSys.v], with or
    without disconnections): HTLC ids are unique, so every pending HTLC occurs exactly once in every
    commitment view that includes it; [value_to_self_msat] moves only in [revoke_and_ack], by exactly
    the claims that become irrevocable there. *)
Require Import LdkV.Prim.U64 LdkV.Prim.Rs2vLib LdkV.Gen.Consts LdkV.Gen.ChanUtilsFees LdkV.Gen.TxBuilder
  LdkV.Model.CommitAmounts LdkV.Model.Chan LdkV.Model.ChanSys LdkV.Proofs.C01Amounts.
From Coq Require Import Permutation.
Open Scope Z_scope.

Definition in_id (h : in_htlc) : Z := p_id (ih h).
Definition out_id (h : out_htlc) : Z := p_id (oh h).
Definition is_ra (h : in_htlc) : bool := match ist h with IS_RemoteAnnounced => true | _ => false end.

Fixpoint zseq (start : Z) (n : nat) : list Z :=
  match n with O => [] | S k => start :: zseq (start + 1) k end.

Lemma zseq_app start n : zseq start (S n) = zseq start n ++ [start + Z.of_nat n].
Proof.
  revert start. induction n as [|n IH]; intros start.
  - cbn. f_equal. lia.
  - change (zseq start (S (S n))) with (start :: zseq (start + 1) (S n)).
    rewrite IH. cbn [zseq app]. f_equal. f_equal. f_equal. lia.
Qed.

Lemma zseq_bounds start n x : In x (zseq start n) -> start <= x < start + Z.of_nat n.
Proof.
  revert start. induction n as [|n IH]; intros start; cbn [zseq In]; [tauto|].
  intros [<-|H]; [lia|]. apply IH in H. lia.
Qed.

Lemma zseq_nodup start n : NoDup (zseq start n).
Proof.
  revert start. induction n as [|n IH]; intros start; cbn [zseq]; constructor.
  - intros H. apply zseq_bounds in H. lia.
  - apply IH.
Qed.

Lemma nodup_app {A} (l1 l2 : list A) :
  NoDup l1 -> NoDup l2 -> (forall x, In x l1 -> In x l2 -> False) -> NoDup (l1 ++ l2).
Proof.
  intros H1 H2 Hd. induction H1 as [|x l Hx Hl IH]; [exact H2|].
  cbn [app]. constructor.
  - intros Hin. apply in_app_or in Hin. destruct Hin as [Hin|Hin]; [exact (Hx Hin)|].
    apply (Hd x); [left; reflexivity | exact Hin].
  - apply IH. intros y Hy1 Hy2. apply (Hd y); [right; exact Hy1 | exact Hy2].
Qed.

(** The well-formedness invariant on (inbound list, outbound list, next holder id, next counterparty id):
    outbound ids are distinct and below the next id; the inbound list is a part without
    [RemoteAnnounced] entries, with distinct ids, followed by the [RemoteAnnounced] ones, whose ids are
    the last ones handed out (that is what lets a disconnection roll [next_counterparty_htlc_id] back). *)
Record wf4 (i : list in_htlc) (o : list out_htlc) (nh nc : Z) : Prop := {
  wf_out_nodup : NoDup (map out_id o);
  wf_out_bound : Forall (fun h => out_id h < nh) o;
  wf_in_split : exists pre suf,
    i = pre ++ suf /\ Forall (fun h => is_ra h = false) pre /\ Forall (fun h => is_ra h = true) suf /\
    NoDup (map in_id pre) /\
    Forall (fun h => in_id h < nc - Z.of_nat (List.length suf)) pre /\
    map in_id suf = zseq (nc - Z.of_nat (List.length suf)) (List.length suf)
}.

Definition chan_wf (c : chan) : Prop := wf4 (c_in c) (c_out c) (c_next_holder_id c) (c_next_cp_id c).

Lemma wf4_in_nodup i o nh nc : wf4 i o nh nc -> NoDup (map in_id i) /\ Forall (fun h => in_id h < nc) i.
Proof.
  intros [_ _ (pre & suf & -> & Hp & Hs & Hnd & Hb & Hseq)].
  split.
  - rewrite map_app. apply nodup_app; [exact Hnd | rewrite Hseq; apply zseq_nodup |].
    intros x Hx1 Hx2. rewrite Hseq in Hx2. apply zseq_bounds in Hx2.
    apply in_map_iff in Hx1. destruct Hx1 as (h & <- & Hh).
    rewrite Forall_forall in Hb. specialize (Hb h Hh). lia.
  - apply Forall_app. split.
    + rewrite Forall_forall in *. intros h Hh. specialize (Hb h Hh). lia.
    + rewrite Forall_forall. intros h Hh.
      assert (In (in_id h) (map in_id suf)) as Hin by (apply in_map; exact Hh).
      rewrite Hseq in Hin. apply zseq_bounds in Hin. lia.
Qed.

(** ** Transformers that preserve [wf4] *)
Lemma map_id_ext {A} (f : A -> A) (g : A -> Z) l : (forall h, g (f h) = g h) -> map g (map f l) = map g l.
Proof. intros H. rewrite map_map. apply map_ext. exact H. Qed.

Lemma wf4_in_map_nonra (f : in_htlc -> in_htlc) i o nh nc :
  (forall h, in_id (f h) = in_id h) -> (forall h, is_ra (f h) = is_ra h) ->
  wf4 i o nh nc -> wf4 (map f i) o nh nc.
Proof.
  intros Hid Hra [H1 H2 (pre & suf & -> & Hp & Hs & Hnd & Hb & Hseq)].
  constructor; [exact H1 | exact H2 |].
  exists (map f pre), (map f suf). rewrite map_app, !map_length, !(map_id_ext f in_id) by exact Hid.
  repeat split; try assumption.
  - rewrite Forall_map. eapply Forall_impl; [|exact Hp]. intros h Hh. cbn. rewrite Hra. exact Hh.
  - rewrite Forall_map. eapply Forall_impl; [|exact Hs]. intros h Hh. cbn. rewrite Hra. exact Hh.
  - rewrite Forall_map. eapply Forall_impl; [|exact Hb]. intros h Hh. cbn. rewrite Hid. exact Hh.
Qed.

Lemma wf4_in_promote_all (f : in_htlc -> in_htlc) i o nh nc :
  (forall h, in_id (f h) = in_id h) -> (forall h, is_ra (f h) = false) ->
  wf4 i o nh nc -> wf4 (map f i) o nh nc.
Proof.
  intros Hid Hra Hwf. destruct (wf4_in_nodup _ _ _ _ Hwf) as [Hnd Hb].
  destruct Hwf as [H1 H2 _].
  constructor; [exact H1 | exact H2 |].
  exists (map f i), []. rewrite app_nil_r. cbn [List.length zseq map]. rewrite Z.sub_0_r.
  repeat split; try constructor.
  - rewrite Forall_map. rewrite Forall_forall. intros h _. apply Hra.
  - rewrite (map_id_ext f in_id) by exact Hid. exact Hnd.
  - rewrite Forall_map. eapply Forall_impl; [|exact Hb]. intros h Hh. cbn. rewrite Hid. exact Hh.
Qed.

Lemma NoDup_map_filter {A} (g : A -> Z) (p : A -> bool) l : NoDup (map g l) -> NoDup (map g (filter p l)).
Proof.
  induction l as [|x t IH]; cbn [map filter]; intros H; [constructor|].
  inversion H as [|? ? Hx Ht]; subst.
  destruct (p x); cbn [map]; [constructor|]; auto.
  intros Hin. apply Hx. apply in_map_iff in Hin. destruct Hin as (y & Hy & Hin).
  apply in_map_iff. exists y. split; [exact Hy|]. apply filter_In in Hin. apply Hin.
Qed.

Lemma filter_all_true {A} (p : A -> bool) l : Forall (fun h => p h = true) l -> filter p l = l.
Proof.
  induction 1 as [|x t Hx Ht IH]; cbn [filter]; [reflexivity|]. rewrite Hx, IH. reflexivity.
Qed.

Lemma wf4_in_filter (p : in_htlc -> bool) i o nh nc :
  (forall h, is_ra h = true -> p h = true) ->
  wf4 i o nh nc -> wf4 (filter p i) o nh nc.
Proof.
  intros Hk [H1 H2 (pre & suf & -> & Hp & Hs & Hnd & Hb & Hseq)].
  constructor; [exact H1 | exact H2 |].
  exists (filter p pre), suf. rewrite filter_app.
  rewrite (filter_all_true p suf) by (eapply Forall_impl; [|exact Hs]; intros h Hh; apply Hk; exact Hh).
  repeat split; try assumption.
  - apply Forall_filter. exact Hp.
  - apply NoDup_map_filter. exact Hnd.
  - apply Forall_filter. exact Hb.
Qed.

Lemma wf4_in_add h i o nh nc :
  p_id h = nc -> wf4 i o nh nc -> wf4 (i ++ [mkIn h IS_RemoteAnnounced]) o nh (nc + 1).
Proof.
  intros Hid [H1 H2 (pre & suf & -> & Hp & Hs & Hnd & Hb & Hseq)].
  constructor; [exact H1 | exact H2 |].
  exists pre, (suf ++ [mkIn h IS_RemoteAnnounced]). rewrite <- app_assoc.
  rewrite app_length. cbn [List.length]. rewrite Nat.add_1_r.
  replace (nc + 1 - Z.of_nat (S (List.length suf))) with (nc - Z.of_nat (List.length suf)) by lia.
  repeat split; try assumption.
  - apply Forall_app. split; [exact Hs|]. constructor; [reflexivity|constructor].
  - rewrite map_app, Hseq, zseq_app. cbn [map]. unfold in_id at 1. cbn [ih]. rewrite Hid. f_equal. f_equal. lia.
Qed.

Lemma filter_none {A} (p : A -> bool) l : Forall (fun h => p h = false) l -> filter p l = [].
Proof.
  induction 1 as [|x t Hx Ht IH]; cbn [filter]; [reflexivity|]. rewrite Hx, IH. reflexivity.
Qed.

Lemma wf4_in_drop_ra i o nh nc :
  wf4 i o nh nc ->
  wf4 (filter (fun h => negb (is_ra h)) i) o nh (nc - Z.of_nat (List.length (filter is_ra i))).
Proof.
  intros [H1 H2 (pre & suf & -> & Hp & Hs & Hnd & Hb & Hseq)].
  constructor; [exact H1 | exact H2 |].
  exists pre, []. rewrite !filter_app.
  rewrite (filter_all_true (fun h => negb (is_ra h)) pre)
    by (eapply Forall_impl; [|exact Hp]; intros h Hh; cbn; rewrite Hh; reflexivity).
  rewrite (filter_none (fun h => negb (is_ra h)) suf)
    by (eapply Forall_impl; [|exact Hs]; intros h Hh; cbn; rewrite Hh; reflexivity).
  rewrite (filter_none is_ra pre) by exact Hp.
  rewrite (filter_all_true is_ra suf) by exact Hs.
  cbn [app List.length zseq map]. rewrite Z.sub_0_r.
  repeat split; try constructor; assumption.
Qed.

Lemma wf4_out_map (f : out_htlc -> out_htlc) i o nh nc :
  (forall h, out_id (f h) = out_id h) -> wf4 i o nh nc -> wf4 i (map f o) nh nc.
Proof.
  intros Hid [H1 H2 H3]. constructor; [| |exact H3].
  - rewrite (map_id_ext f out_id) by exact Hid. exact H1.
  - rewrite Forall_map. eapply Forall_impl; [|exact H2]. intros h Hh. cbn. rewrite Hid. exact Hh.
Qed.

Lemma wf4_out_filter (p : out_htlc -> bool) i o nh nc : wf4 i o nh nc -> wf4 i (filter p o) nh nc.
Proof.
  intros [H1 H2 H3]. constructor; [| |exact H3].
  - apply NoDup_map_filter. exact H1.
  - apply Forall_filter. exact H2.
Qed.

Lemma wf4_out_add amt tag st i o nh nc :
  wf4 i o nh nc -> wf4 i (o ++ [mkOut (mkP nh amt tag) st]) (nh + 1) nc.
Proof.
  intros [H1 H2 H3]. constructor; [| |exact H3].
  - rewrite map_app. apply nodup_app; [exact H1 | cbn; constructor; [intros []|constructor] |].
    intros x Hx [<-|[]]. apply in_map_iff in Hx. destruct Hx as (h & Hh & Hin).
    rewrite Forall_forall in H2. specialize (H2 h Hin). unfold out_id in *. cbn in Hh. lia.
  - apply Forall_app. split.
    + eapply Forall_impl; [|exact H2]. intros h Hh. cbn in *. lia.
    + constructor; [unfold out_id; cbn; lia | constructor].
Qed.

(** Setters that do not touch the four components. *)
Lemma wf_set_hc c h f : chan_wf (set_hc c h f) <-> chan_wf c. Proof. reflexivity. Qed.
Lemma wf_set_fee c fr p : chan_wf (set_fee c fr p) <-> chan_wf c. Proof. reflexivity. Qed.
Lemma wf_set_self c v : chan_wf (set_self c v) <-> chan_wf c. Proof. reflexivity. Qed.
Lemma wf_set_cns c h cp : chan_wf (set_cns c h cp) <-> chan_wf c. Proof. reflexivity. Qed.
Lemma wf_set_flags c a d r : chan_wf (set_flags c a d r) <-> chan_wf c. Proof. reflexivity. Qed.

(** ** Every entry point preserves well-formedness *)
Lemma wf_promote_for_sign c : chan_wf c -> chan_wf (promote_for_sign c).
Proof.
  intros H. unfold promote_for_sign.
  match goal with |- chan_wf (match c_pending_fee ?x with _ => _ end) => set (c1 := x) end.
  assert (chan_wf c1) as H1.
  { unfold c1, chan_wf. cbn [set_htlcs c_in c_out c_next_holder_id c_next_cp_id].
    apply wf4_out_map; [intros h; destruct h as [p s]; destruct s; reflexivity|].
    apply wf4_in_map_nonra; [intros h; destruct h as [p s]; destruct s; reflexivity
                            |intros h; destruct h as [p s]; destruct s; reflexivity | exact H]. }
  destruct (c_pending_fee c1) as [[f s]|]; [destruct s|]; try exact H1; apply wf_set_fee; exact H1.
Qed.

Lemma wf_build_commitment_no_status_check c : chan_wf c -> chan_wf (fst (build_commitment_no_status_check c)).
Proof. intros H. unfold build_commitment_no_status_check. cbn [fst]. apply wf_set_flags. apply wf_promote_for_sign. exact H. Qed.

Lemma wf_sign_and_send c : chan_wf c -> chan_wf (fst (sign_and_send c)).
Proof.
  intros H. unfold sign_and_send. pose proof (wf_build_commitment_no_status_check c H) as H'.
  destruct (build_commitment_no_status_check c) as [c' v]. exact H'.
Qed.

Lemma wf_sign_and_send' c c' ms : chan_wf c -> sign_and_send c = (c', ms) -> chan_wf c'.
Proof. intros H E. pose proof (wf_sign_and_send c H) as H'. rewrite E in H'. exact H'. Qed.
Local Opaque sign_and_send.

Lemma wf_send_htlc c amt tag c' b : chan_wf c -> send_htlc c amt tag = ROk (c', b) -> chan_wf c'.
Proof.
  intros H. unfold send_htlc.
  destruct (amt =? 0); [discriminate|]. destruct (c_disconnected c); [discriminate|].
  destruct (negb (can_generate_new_commitment c)); intros [= <- <-].
  - apply wf_set_hc. exact H.
  - unfold chan_wf. cbn [set_ids set_htlcs c_in c_out c_next_holder_id c_next_cp_id]. apply wf4_out_add. exact H.
Qed.

Lemma wf_send_htlc_and_commit c amt tag c' ms : chan_wf c -> send_htlc_and_commit c amt tag = ROk (c', ms) -> chan_wf c'.
Proof.
  intros H. unfold send_htlc_and_commit. destruct (send_htlc c amt tag) as [[c1 b]|e] eqn:E; [|discriminate].
  pose proof (wf_send_htlc _ _ _ _ _ H E) as H1.
  destruct b.
  - intros E'. assert (sign_and_send c1 = (c', ms)) as E'' by congruence. exact (wf_sign_and_send' _ _ _ H1 E'').
  - intros [= <- <-]. exact H1.
Qed.

Lemma wf_update_add_htlc c h c' : chan_wf c -> update_add_htlc c h = ROk c' -> chan_wf c'.
Proof.
  intros H. unfold update_add_htlc. destruct (c_disconnected c); [discriminate|].
  destruct (p_amt h =? 0); [discriminate|].
  destruct (Z.eqb_spec (c_next_cp_id c) (p_id h)) as [E|]; [|discriminate]. cbn [negb]. intros [= <-].
  unfold chan_wf. cbn [set_ids set_htlcs c_in c_out c_next_holder_id c_next_cp_id].
  apply wf4_in_add; [symmetry; exact E | exact H].
Qed.

Lemma wf_set_in_state c id s : s <> IS_RemoteAnnounced ->
  (forall h, In h (c_in c) -> in_id h = id -> is_ra h = false) ->
  chan_wf c -> chan_wf (set_in_state c id s).
Proof.
  intros Hs Hnra H. unfold set_in_state, chan_wf. cbn [set_htlcs c_in c_out c_next_holder_id c_next_cp_id].
  (* express the map as one that preserves [is_ra] on the elements of the list *)
  destruct H as [H1 H2 (pre & suf & E & Hp & Hsf & Hnd & Hb & Hseq)].
  constructor; [exact H1 | exact H2 |].
  set (f := fun h : in_htlc => if p_id (ih h) =? id then mkIn (ih h) s else h).
  exists (map f pre), (map f suf). rewrite E, map_app, !map_length.
  assert (forall h, in_id (f h) = in_id h) as Hid.
  { intros h. unfold f. destruct (p_id (ih h) =? id); reflexivity. }
  rewrite !(map_id_ext f in_id) by exact Hid.
  assert (forall h, In h (c_in c) -> is_ra (f h) = is_ra h) as Hra.
  { intros h Hin. unfold f. destruct (Z.eqb_spec (p_id (ih h)) id) as [Ei|]; [|reflexivity].
    rewrite (Hnra h Hin Ei). unfold is_ra. cbn [ist]. destruct s; try reflexivity. contradiction. }
  repeat split; try assumption.
  - rewrite Forall_map. rewrite Forall_forall in *. intros h Hh. cbn. rewrite Hra; [apply Hp; exact Hh|].
    rewrite E. apply in_or_app. left. exact Hh.
  - rewrite Forall_map. rewrite Forall_forall in *. intros h Hh. cbn. rewrite Hra; [apply Hsf; exact Hh|].
    rewrite E. apply in_or_app. right. exact Hh.
  - rewrite Forall_map. eapply Forall_impl; [|exact Hb]. intros h Hh. cbn. rewrite Hid. exact Hh.
Qed.

Lemma find_in_spec c id h : find_in c id = Some h -> In h (c_in c) /\ in_id h = id.
Proof.
  unfold find_in. intros H. apply find_some in H. destruct H as [H1 H2]. split; [exact H1|].
  apply Z.eqb_eq in H2. exact H2.
Qed.

Lemma in_id_unique c h1 h2 : chan_wf c -> In h1 (c_in c) -> In h2 (c_in c) -> in_id h1 = in_id h2 -> h1 = h2.
Proof.
  intros H. destruct (wf4_in_nodup _ _ _ _ H) as [Hnd _]. revert Hnd.
  generalize (c_in c). intros l. induction l as [|x t IH]; cbn [map In]; intros Hnd H1 H2 E; [contradiction|].
  inversion Hnd as [|? ? Hx Ht]; subst.
  destruct H1 as [<-|H1], H2 as [<-|H2]; auto.
  - exfalso. apply Hx. rewrite E. apply in_map. exact H2.
  - exfalso. apply Hx. rewrite <- E. apply in_map. exact H1.
Qed.

Lemma wf_set_in_state_found c id h s : s <> IS_RemoteAnnounced -> chan_wf c ->
  find_in c id = Some h -> is_ra h = false -> chan_wf (set_in_state c id s).
Proof.
  intros Hs H Hf Hra. apply wf_set_in_state; [exact Hs| |exact H].
  intros h' Hin Eid. destruct (find_in_spec _ _ _ Hf) as [Hin0 Eid0].
  rewrite (in_id_unique c h' h H Hin Hin0) by congruence. exact Hra.
Qed.

Lemma wf_get_update_fulfill_htlc c id : chan_wf c -> chan_wf (fst (get_update_fulfill_htlc c id)).
Proof.
  intros H. unfold get_update_fulfill_htlc.
  destruct (find_in c id) as [h|] eqn:Ef; [|exact H].
  destruct (ist h) eqn:Es; cbn [fst];
    try (destruct (negb (can_generate_new_commitment c));
         [destruct (hc_mentions (c_hc c) id); cbn [fst]; [exact H | apply wf_set_hc; exact H] | try exact H]);
    try exact H.
  cbn [fst]. apply (wf_set_in_state_found c id h); [discriminate | exact H | exact Ef |].
  unfold is_ra. rewrite Es. reflexivity.
Qed.

Lemma wf_claim_htlc c id : chan_wf c -> chan_wf (fst (claim_htlc c id)).
Proof.
  intros H. unfold claim_htlc. pose proof (wf_get_update_fulfill_htlc c id H) as H1.
  destruct (get_update_fulfill_htlc c id) as [c1 [[|]|]]; cbn [fst] in *; try exact H1.
  apply wf_sign_and_send. exact H1.
Qed.

Lemma wf_fail_htlc c id force c' b : chan_wf c -> fail_htlc c id force = ROk (c', b) -> chan_wf c'.
Proof.
  intros H. unfold fail_htlc. destruct (find_in c id) as [h|] eqn:Ef; [|discriminate].
  destruct (ist h) eqn:Es; try discriminate.
  destruct (force || negb (can_generate_new_commitment c)).
  - destruct (hc_mentions (c_hc c) id); [discriminate|]. intros [= <- <-]. apply wf_set_hc. exact H.
  - intros [= <- <-]. apply (wf_set_in_state_found c id h); [discriminate | exact H | exact Ef |].
    unfold is_ra. rewrite Es. reflexivity.
Qed.

Lemma wf_queue_fail_htlc c id : chan_wf c -> chan_wf (queue_fail_htlc c id).
Proof.
  intros H. unfold queue_fail_htlc. destruct (fail_htlc c id true) as [[c' b]|e] eqn:E; [|exact H].
  exact (wf_fail_htlc _ _ _ _ _ H E).
Qed.

Lemma wf_update_remove_htlc c id b c' : chan_wf c -> update_remove_htlc c id b = ROk c' -> chan_wf c'.
Proof.
  intros H. unfold update_remove_htlc. destruct (c_disconnected c); [discriminate|].
  destruct (find _ (c_out c)) as [h|]; [|discriminate]. destruct (ost h); try discriminate.
  intros [= <-]. unfold chan_wf. cbn [set_htlcs c_in c_out c_next_holder_id c_next_cp_id].
  apply wf4_out_map; [|exact H]. intros h'. destruct (p_id (oh h') =? id); reflexivity.
Qed.

Lemma wf_send_update_fee c f force : chan_wf c -> chan_wf (fst (send_update_fee c f force)).
Proof.
  intros H. unfold send_update_fee. destruct (force || negb (can_generate_new_commitment c)); cbn [fst];
  [apply wf_set_hc | apply wf_set_fee]; exact H.
Qed.

Lemma wf_update_fee c f c' : chan_wf c -> update_fee c f = ROk c' -> chan_wf c'.
Proof.
  intros H. unfold update_fee. destruct (c_funder c); [discriminate|]. destruct (c_disconnected c); [discriminate|].
  intros [= <-]. apply wf_set_fee. exact H.
Qed.

Lemma wf_free_hc_updates send_ok l : forall c n, chan_wf c -> chan_wf (fst (free_hc_updates send_ok c l n)).
Proof.
  induction l as [|u t IH]; intros c n H; cbn [free_hc_updates]; [exact H|].
  destruct u as [amt tag|id|id].
  - destruct (send_ok tag); [|apply IH; exact H].
    destruct (send_htlc c amt tag) as [[c' b]|e] eqn:E; [|apply IH; exact H].
    destruct b; apply IH; [exact (wf_send_htlc _ _ _ _ _ H E) | exact H].
  - pose proof (wf_get_update_fulfill_htlc c id H) as H1.
    destruct (get_update_fulfill_htlc c id) as [c' r]. apply IH. exact H1.
  - destruct (fail_htlc c id false) as [[c' b]|e] eqn:E; [|apply IH; exact H].
    destruct b; apply IH; [exact (wf_fail_htlc _ _ _ _ _ H E) | exact H].
Qed.

Lemma wf_free_holding_cell_htlcs send_ok fee_ok c : chan_wf c -> chan_wf (fst (free_holding_cell_htlcs send_ok fee_ok c)).
Proof.
  intros H. unfold free_holding_cell_htlcs.
  assert (forall l hf, chan_wf (fst (
    let c0 := set_hc c [] hf in
    let '(c1, n) := free_hc_updates send_ok c0 l 0 in
    let '(c2, fee_sent) :=
      match hf with
      | Some f => let c1' := set_hc c1 (c_hc c1) None in if fee_ok then send_update_fee c1' f false else (c1', false)
      | None => (c1, false)
      end in
    if (n =? 0) && negb fee_sent then (c2, []) else sign_and_send c2))) as Hgen.
  { intros l hf. cbv zeta.
    pose proof (wf_free_hc_updates send_ok l (set_hc c [] hf) 0 (proj2 (wf_set_hc c [] hf) H)) as H1.
    destruct (free_hc_updates send_ok (set_hc c [] hf) l 0) as [c1 n]. cbn [fst] in H1.
    assert (chan_wf (fst (match hf with
      | Some f => let c1' := set_hc c1 (c_hc c1) None in if fee_ok then send_update_fee c1' f false else (c1', false)
      | None => (c1, false) end))) as H2.
    { destruct hf as [f|]; [|exact H1]. cbv zeta. destruct fee_ok; [apply wf_send_update_fee|]; apply wf_set_hc; exact H1. }
    destruct (match hf with Some f => _ | None => _ end) as [c2 fs]. cbn [fst] in H2.
    destruct ((n =? 0) && negb fs); [exact H2|]. apply wf_sign_and_send. exact H2. }
  destruct (c_hc c) as [|u t]; [destruct (c_hc_fee c) as [f|]; [apply (Hgen [] (Some f)) | exact H] | apply Hgen].
Qed.

Lemma wf_maybe_free send_ok fee_ok c : chan_wf c -> chan_wf (fst (maybe_free_holding_cell_htlcs send_ok fee_ok c)).
Proof.
  intros H. unfold maybe_free_holding_cell_htlcs. destruct (can_generate_new_commitment c); [|exact H].
  apply wf_free_holding_cell_htlcs. exact H.
Qed.

Lemma wf_commitment_signed_update_monitor c : chan_wf c -> chan_wf (fst (commitment_signed_update_monitor c)).
Proof.
  intros H. unfold commitment_signed_update_monitor. cbn [fst].
  apply wf_set_flags. unfold chan_wf. cbn [set_htlcs c_in c_out c_next_holder_id c_next_cp_id].
  apply wf4_out_map; [intros h; destruct h as [p s]; destruct s; reflexivity|].
  match goal with |- wf4 (map _ (c_in ?x)) _ (c_next_holder_id ?x) (c_next_cp_id ?x) => assert (chan_wf x) as Hx end.
  { destruct (c_pending_fee _) as [[f s]|]; [destruct s|]; try (apply wf_set_fee); apply wf_set_cns; exact H. }
  apply wf4_in_promote_all; [intros h; destruct h as [p s]; destruct s; reflexivity
                            |intros h; destruct h as [p s]; destruct s; reflexivity | exact Hx].
Qed.

Lemma wf_commitment_signed c v c' ms : chan_wf c -> commitment_signed c v = ROk (c', ms) -> chan_wf c'.
Proof.
  intros H. unfold commitment_signed. destruct (c_disconnected c); [discriminate|].
  destruct (negb (mirror_eqb _ _ _)); [discriminate|].
  pose proof (wf_commitment_signed_update_monitor c H) as H1.
  destruct (commitment_signed_update_monitor c) as [c1 need]. cbn [fst] in H1.
  destruct (need && negb (c_awaiting_raa c1)).
  - destruct (sign_and_send c1) as [c2 ms2] eqn:E2. intros [= <- <-]. exact (wf_sign_and_send' _ _ _ H1 E2).
  - intros [= <- <-]. exact H1.
Qed.

Lemma wf_revoke_and_ack_update c : chan_wf c -> chan_wf (fst (revoke_and_ack_update c)).
Proof.
  intros H. unfold revoke_and_ack_update.
  match goal with |- chan_wf (fst (match c_pending_fee ?x with _ => _ end)) => assert (chan_wf x) as Hx end.
  { apply wf_set_self. unfold chan_wf. cbn [set_htlcs c_in c_out c_next_holder_id c_next_cp_id].
    apply wf4_out_map; [intros h; destruct h as [p s]; destruct s; reflexivity|].
    apply wf4_out_filter.
    apply wf4_in_map_nonra; [intros h; destruct h as [p s]; destruct s; reflexivity
                            |intros h; destruct h as [p s]; destruct s; reflexivity|].
    apply wf4_in_filter; [intros h; destruct h as [p s]; destruct s; cbn; congruence|].
    apply wf_set_cns. apply wf_set_flags. exact H. }
  destruct (c_pending_fee _) as [[f s]|]; [destruct s|]; cbn [fst]; try exact Hx; apply wf_set_fee; exact Hx.
Qed.

Lemma wf_revoke_and_ack send_ok fee_ok c c' ms : chan_wf c -> revoke_and_ack send_ok fee_ok c = ROk (c', ms) -> chan_wf c'.
Proof.
  intros H. unfold revoke_and_ack. destruct (c_disconnected c); [discriminate|].
  destruct (negb (c_awaiting_raa c)); [discriminate|].
  pose proof (wf_revoke_and_ack_update c H) as H1.
  destruct (revoke_and_ack_update c) as [c1 req]. cbn [fst] in H1.
  pose proof (wf_maybe_free send_ok fee_ok c1 H1) as H2.
  destruct (maybe_free_holding_cell_htlcs send_ok fee_ok c1) as [c2 [|m ms2]]; cbn [fst] in H2.
  - destruct req.
    + intros E. assert (sign_and_send c2 = (c', ms)) as E' by congruence. exact (wf_sign_and_send' _ _ _ H2 E').
    + intros [= <- <-]. exact H2.
  - intros [= <- <-]. exact H2.
Qed.

Lemma wf_peer_disconnected c : chan_wf c -> chan_wf (peer_disconnected c).
Proof.
  intros H. unfold peer_disconnected. destruct (c_disconnected c); [exact H|].
  apply wf_set_flags.
  match goal with |- chan_wf (match c_pending_fee ?x with _ => _ end) => assert (chan_wf x) as Hx end.
  { unfold chan_wf. cbn [set_ids set_htlcs c_in c_out c_next_holder_id c_next_cp_id].
    apply wf4_out_map; [intros h; destruct h as [p s]; destruct s; reflexivity|].
    pose proof (wf4_in_drop_ra _ _ _ _ H) as Hd.
    replace (filter (fun h => match ist h with IS_RemoteAnnounced => false | _ => true end) (c_in c))
      with (filter (fun h => negb (is_ra h)) (c_in c))
      by (apply filter_ext; intros h; destruct h as [p s]; destruct s; reflexivity).
    replace (filter (fun h => match ist h with IS_RemoteAnnounced => true | _ => false end) (c_in c))
      with (filter is_ra (c_in c))
      by (apply filter_ext; intros h; destruct h as [p s]; destruct s; reflexivity).
    exact Hd. }
  destruct (c_pending_fee _) as [[f s]|]; [destruct s|]; try exact Hx; apply wf_set_fee; exact Hx.
Qed.

Lemma channel_reestablish_state c nl nr c' ms :
  channel_reestablish c nl nr = ROk (c', ms) -> c' = set_flags c (c_awaiting_raa c) false (c_resend_raa_first c).
Proof.
  unfold channel_reestablish. cbv zeta.
  destruct (negb (c_disconnected c)); [discriminate|].
  destruct (_ <? _); [discriminate|]. destruct (negb _); [discriminate|].
  destruct (nl =? _); [intros E; congruence|].
  destruct (nl =? _); [intros E; congruence|].
  destruct (nl <? _); discriminate.
Qed.

Lemma wf_channel_reestablish c nl nr c' ms : chan_wf c -> channel_reestablish c nl nr = ROk (c', ms) -> chan_wf c'.
Proof. intros H E. rewrite (channel_reestablish_state _ _ _ _ _ E). apply wf_set_flags. exact H. Qed.

(** ** All schedules: both sides stay well-formed *)
Definition sys_wf (s : sys) : Prop := chan_wf (s_n0 s) /\ chan_wf (s_n1 s).

Lemma wf_node s x : sys_wf s -> chan_wf (node s x).
Proof. intros [H0 H1]. destruct x; assumption. Qed.

Lemma wf_set_node s x c : sys_wf s -> chan_wf c -> sys_wf (set_node s x c).
Proof. intros [H0 H1] Hc. destruct x; split; assumption. Qed.

Lemma wf_emit s x ms : sys_wf (emit s x ms) <-> sys_wf s.
Proof. destruct x; reflexivity. Qed.

Lemma wf_deliver_msg o c m c' ms : chan_wf c -> deliver_msg o c m = ROk (c', ms) -> chan_wf c'.
Proof.
  intros H. destruct m as [h|id|id|f|v| |nl nr]; cbn [deliver_msg].
  - destruct (update_add_htlc c h) eqn:E; [|discriminate]. intros [= <- <-]. exact (wf_update_add_htlc _ _ _ H E).
  - destruct (update_remove_htlc c id true) eqn:E; [|discriminate]. intros [= <- <-]. exact (wf_update_remove_htlc _ _ _ _ H E).
  - destruct (update_remove_htlc c id false) eqn:E; [|discriminate]. intros [= <- <-]. exact (wf_update_remove_htlc _ _ _ _ H E).
  - destruct (update_fee c f) eqn:E; [|discriminate]. intros [= <- <-]. exact (wf_update_fee _ _ _ H E).
  - apply wf_commitment_signed. exact H.
  - apply wf_revoke_and_ack. exact H.
  - apply wf_channel_reestablish. exact H.
Qed.

Lemma wf_sys_step o s l s' : sys_wf s -> sys_step o s l = ROk s' -> sys_wf s'.
Proof.
  intros H. destruct l as [x amt tag|x id|x id|x f|x| | |x]; cbn [sys_step].
  - destruct (send_htlc_and_commit (node s x) amt tag) as [[c ms]|e] eqn:E; [|discriminate].
    intros [= <-]. apply wf_emit. apply wf_set_node; [exact H|].
    exact (wf_send_htlc_and_commit _ _ _ _ _ (wf_node s x H) E).
  - pose proof (wf_claim_htlc (node s x) id (wf_node s x H)) as Hc.
    destruct (claim_htlc (node s x) id) as [c ms]. intros [= <-]. apply wf_emit. apply wf_set_node; assumption.
  - intros [= <-]. apply wf_set_node; [exact H|]. apply wf_queue_fail_htlc. apply wf_node. exact H.
  - intros [= <-]. apply wf_set_node; [exact H|]. unfold queue_update_fee. apply wf_send_update_fee. apply wf_node. exact H.
  - destruct (if x then s_q10 s else s_q01 s) as [|m rest]; [discriminate|].
    match goal with |- match deliver_msg o (node ?s1 ?y) m with _ => _ end = _ -> _ =>
      assert (sys_wf s1) as H1 by (destruct x; exact H);
      destruct (deliver_msg o (node s1 y) m) as [[c ms]|e] eqn:E; [|discriminate];
      intros [= <-]; apply wf_emit; apply wf_set_node; [exact H1|];
      exact (wf_deliver_msg _ _ _ _ _ (wf_node s1 y H1) E)
    end.
  - intros [= <-]. destruct H as [H0 H1]. split; apply wf_peer_disconnected; assumption.
  - destruct (s_connected s); [discriminate|]. intros [= <-]. exact H.
  - pose proof (wf_maybe_free (send_ok_of o) (fee_ok o) (node s x) (wf_node s x H)) as Hc.
    destruct (maybe_free_holding_cell_htlcs _ _ (node s x)) as [c ms]. intros [= <-].
    apply wf_emit. apply wf_set_node; assumption.
Qed.

Lemma wf_run ls : forall s s', sys_wf s -> run s ls = ROk s' -> sys_wf s'.
Proof.
  induction ls as [|[o l] t IH]; intros s s' H; cbn [run].
  - intros [= <-]. exact H.
  - destruct (sys_step o s l) as [s1|e] eqn:E; [|discriminate]. apply IH. exact (wf_sys_step _ _ _ _ H E).
Qed.

(** ** Each pending HTLC exactly once in every commitment view *)
Definition view_key (x : bool * phtlc) : bool * Z := (fst x, p_id (snd x)).

Lemma NoDup_map_inj_pair {A} (g : A -> Z) (b : bool) (l : list A) (f : A -> phtlc) :
  (forall h, p_id (f h) = g h) -> NoDup (map g l) -> NoDup (map view_key (map (fun h => (b, f h)) l)).
Proof.
  intros Hg. induction l as [|x t IH]; cbn [map]; intros H; [constructor|].
  inversion H as [|? ? Hx Ht]; subst. constructor; [|apply IH; exact Ht].
  intros Hin. apply Hx. rewrite map_map in Hin. apply in_map_iff in Hin. destruct Hin as (y & Hy & Hin).
  unfold view_key in Hy. cbn [fst snd] in Hy. injection Hy as Hy. rewrite !Hg in Hy. rewrite <- Hy. apply in_map. exact Hin.
Qed.

Lemma view_once c g :
  chan_wf c ->
  NoDup (map view_key (view_htlcs c g)) /\
  (forall p, In (false, p) (view_htlcs c g) <-> exists h, In h (c_in c) /\ ih h = p /\ in_included (ist h) g = true) /\
  (forall p, In (true, p) (view_htlcs c g) <-> exists h, In h (c_out c) /\ oh h = p /\ out_included (ost h) g = true).
Proof.
  intros H. destruct (wf4_in_nodup _ _ _ _ H) as [Hin _]. destruct H as [Hout _ _].
  unfold view_htlcs. split; [|split].
  - rewrite map_app. apply nodup_app.
    + apply (NoDup_map_inj_pair in_id false _ ih); [reflexivity|]. apply NoDup_map_filter. exact Hin.
    + apply (NoDup_map_inj_pair out_id true _ oh); [reflexivity|]. apply NoDup_map_filter. exact Hout.
    + intros [b i] H1 H2. rewrite map_map in H1, H2.
      apply in_map_iff in H1. destruct H1 as (h1 & E1 & _).
      apply in_map_iff in H2. destruct H2 as (h2 & E2 & _).
      unfold view_key in *. cbn in *. congruence.
  - intros p. rewrite in_app_iff. split.
    + intros [Hi|Ho].
      * apply in_map_iff in Hi. destruct Hi as (h & Eh & Hf). apply filter_In in Hf.
        exists h. injection Eh as Eh. tauto.
      * apply in_map_iff in Ho. destruct Ho as (h & Eh & _). discriminate.
    + intros (h & Hh & <- & Hi). left. apply in_map_iff. exists h. split; [reflexivity|].
      apply filter_In. tauto.
  - intros p. rewrite in_app_iff. split.
    + intros [Hi|Ho].
      * apply in_map_iff in Hi. destruct Hi as (h & Eh & _). discriminate.
      * apply in_map_iff in Ho. destruct Ho as (h & Eh & Hf). apply filter_In in Hf.
        exists h. injection Eh as Eh. tauto.
    + intros (h & Hh & <- & Hi). right. apply in_map_iff. exists h. split; [reflexivity|].
      apply filter_In. tauto.
Qed.

(** Packaged: in every state reachable from a well-formed one under ANY list of labels and oracles, for
    either node, any commitment it builds (own or counterparty's, any number): no HTLC twice, exactly
    the pending HTLCs whose state says "included", and the builder's non-dust ++ dust lists are a
    permutation of that view. *)
Definition each_htlc_once_stmt : Prop :=
  forall s0 ls s x g number,
  sys_wf s0 -> run s0 ls = ROk s ->
  let c := node s x in
  let v := build_view c number g in
  NoDup (map view_key (cv_htlcs v)) /\
  (forall p, In (false, p) (cv_htlcs v) <-> exists h, In h (c_in c) /\ ih h = p /\ in_included (ist h) g = true) /\
  (forall p, In (true, p) (cv_htlcs v) <-> exists h, In h (c_out c) /\ oh h = p /\ out_included (ost h) g = true) /\
  (forall local ca, view_amounts c local v = Some ca ->
     Permutation (ca_nondust ca ++ ca_dust ca)
       (map (fun oh => mkHtlcOut (Bool.eqb (fst oh) local) (p_amt (snd oh)) (p_tag (snd oh))) (cv_htlcs v))).

Lemma each_htlc_once : each_htlc_once_stmt.
Proof.
  intros s0 ls s x g number H0 Hrun. cbv zeta.
  pose proof (wf_node s x (wf_run _ _ _ H0 Hrun)) as Hc.
  destruct (view_once (node s x) g Hc) as (H1 & H2 & H3).
  cbn [build_view cv_htlcs]. repeat split; try assumption; try (apply H2); try (apply H3).
  intros local ca Hb. unfold view_amounts in Hb. cbn [cv_htlcs cv_to_self_msat cv_feerate build_view] in Hb.
  exact (proj2 (proj2 (build_commitment_partition _ _ _ _ _ _ _ _ _ Hb))).
Qed.

(** ** The balance ledger *)

(** What [revoke_and_ack] adds to [value_to_self_msat]: the inbound HTLCs we claimed whose removal the
    peer just made irrevocable, minus the outbound HTLCs the peer claimed whose removal is now
    irrevocable. These are exactly the claimed HTLCs that leave the pending lists in that call. *)
Definition raa_settled_in (c : chan) : Z :=
  sum_z (map (fun h => p_amt (ih h)) (filter (fun h => match ist h with IS_LocalRemoved true => true | _ => false end) (c_in c))).
Definition raa_settled_out (c : chan) : Z :=
  sum_z (map (fun h => p_amt (oh h)) (filter (fun h => match ost h with OS_AwaitingRemovedRemoteRevoke true => true | _ => false end) (c_out c))).

Local Transparent sign_and_send.
Lemma self_promote_for_sign c : c_self_msat (promote_for_sign c) = c_self_msat c.
Proof. unfold promote_for_sign. destruct (c_pending_fee _) as [[f s]|]; [destruct s|]; reflexivity. Qed.
Lemma self_sign_and_send c : c_self_msat (fst (sign_and_send c)) = c_self_msat c.
Proof. unfold sign_and_send, build_commitment_no_status_check. cbn [fst]. cbn [set_flags c_self_msat]. apply self_promote_for_sign. Qed.
Local Opaque sign_and_send.

Lemma self_sign_and_send' c c' ms : sign_and_send c = (c', ms) -> c_self_msat c' = c_self_msat c.
Proof. intros E. pose proof (self_sign_and_send c) as H. rewrite E in H. exact H. Qed.

Lemma self_send_htlc c amt tag c' b : send_htlc c amt tag = ROk (c', b) -> c_self_msat c' = c_self_msat c.
Proof.
  unfold send_htlc. destruct (amt =? 0); [discriminate|]. destruct (c_disconnected c); [discriminate|].
  destruct (negb _); intros [= <- <-]; reflexivity.
Qed.

Lemma self_send_htlc_and_commit c amt tag c' ms : send_htlc_and_commit c amt tag = ROk (c', ms) -> c_self_msat c' = c_self_msat c.
Proof.
  unfold send_htlc_and_commit. destruct (send_htlc c amt tag) as [[c1 b]|e] eqn:E; [|discriminate].
  pose proof (self_send_htlc _ _ _ _ _ E) as H1. destruct b.
  - intros E'. assert (sign_and_send c1 = (c', ms)) as E'' by congruence. rewrite (self_sign_and_send' _ _ _ E''). exact H1.
  - intros [= <- <-]. exact H1.
Qed.

Lemma self_set_in_state c id s : c_self_msat (set_in_state c id s) = c_self_msat c.
Proof. reflexivity. Qed.

Lemma self_get_update_fulfill_htlc c id : c_self_msat (fst (get_update_fulfill_htlc c id)) = c_self_msat c.
Proof.
  unfold get_update_fulfill_htlc. destruct (find_in c id) as [h|]; [|reflexivity].
  destruct (ist h); cbn [fst]; try reflexivity;
  destruct (negb (can_generate_new_commitment c)); try (destruct (hc_mentions _ _)); reflexivity.
Qed.

Lemma self_claim_htlc c id : c_self_msat (fst (claim_htlc c id)) = c_self_msat c.
Proof.
  unfold claim_htlc. pose proof (self_get_update_fulfill_htlc c id) as H.
  destruct (get_update_fulfill_htlc c id) as [c1 [[|]|]]; cbn [fst] in *; try exact H.
  rewrite self_sign_and_send. exact H.
Qed.

Lemma self_fail_htlc c id force c' b : fail_htlc c id force = ROk (c', b) -> c_self_msat c' = c_self_msat c.
Proof.
  unfold fail_htlc. destruct (find_in c id) as [h|]; [|discriminate]. destruct (ist h); try discriminate.
  destruct (force || _); [destruct (hc_mentions _ _); [discriminate|]|]; intros [= <- <-]; reflexivity.
Qed.

Lemma self_queue_fail_htlc c id : c_self_msat (queue_fail_htlc c id) = c_self_msat c.
Proof.
  unfold queue_fail_htlc. destruct (fail_htlc c id true) as [[c' b]|e] eqn:E; [|reflexivity].
  exact (self_fail_htlc _ _ _ _ _ E).
Qed.

Lemma self_update_add_htlc c h c' : update_add_htlc c h = ROk c' -> c_self_msat c' = c_self_msat c.
Proof.
  unfold update_add_htlc. destruct (c_disconnected c); [discriminate|]. destruct (p_amt h =? 0); [discriminate|].
  destruct (negb _); [discriminate|]. intros [= <-]. reflexivity.
Qed.

Lemma self_update_remove_htlc c id b c' : update_remove_htlc c id b = ROk c' -> c_self_msat c' = c_self_msat c.
Proof.
  unfold update_remove_htlc. destruct (c_disconnected c); [discriminate|].
  destruct (find _ _) as [h|]; [|discriminate]. destruct (ost h); try discriminate. intros [= <-]. reflexivity.
Qed.

Lemma self_send_update_fee c f force : c_self_msat (fst (send_update_fee c f force)) = c_self_msat c.
Proof. unfold send_update_fee. destruct (force || _); reflexivity. Qed.

Lemma self_update_fee c f c' : update_fee c f = ROk c' -> c_self_msat c' = c_self_msat c.
Proof. unfold update_fee. destruct (c_funder c); [discriminate|]. destruct (c_disconnected c); [discriminate|]. intros [= <-]. reflexivity. Qed.

Lemma self_free_hc_updates send_ok l : forall c n, c_self_msat (fst (free_hc_updates send_ok c l n)) = c_self_msat c.
Proof.
  induction l as [|u t IH]; intros c n; cbn [free_hc_updates]; [reflexivity|].
  destruct u as [amt tag|id|id].
  - destruct (send_ok tag); [|apply IH].
    destruct (send_htlc c amt tag) as [[c' b]|e] eqn:E; [|apply IH].
    destruct b; rewrite IH; [exact (self_send_htlc _ _ _ _ _ E) | reflexivity].
  - pose proof (self_get_update_fulfill_htlc c id) as H1.
    destruct (get_update_fulfill_htlc c id) as [c' r]. rewrite IH. exact H1.
  - destruct (fail_htlc c id false) as [[c' b]|e] eqn:E; [|apply IH].
    destruct b; rewrite IH; [exact (self_fail_htlc _ _ _ _ _ E) | reflexivity].
Qed.

Lemma self_free_holding_cell_htlcs send_ok fee_ok c : c_self_msat (fst (free_holding_cell_htlcs send_ok fee_ok c)) = c_self_msat c.
Proof.
  unfold free_holding_cell_htlcs.
  assert (forall l hf, c_self_msat (fst (
    let c0 := set_hc c [] hf in
    let '(c1, n) := free_hc_updates send_ok c0 l 0 in
    let '(c2, fee_sent) :=
      match hf with
      | Some f => let c1' := set_hc c1 (c_hc c1) None in if fee_ok then send_update_fee c1' f false else (c1', false)
      | None => (c1, false)
      end in
    if (n =? 0) && negb fee_sent then (c2, []) else sign_and_send c2)) = c_self_msat c) as Hgen.
  { intros l hf. cbv zeta.
    pose proof (self_free_hc_updates send_ok l (set_hc c [] hf) 0) as H1.
    destruct (free_hc_updates send_ok (set_hc c [] hf) l 0) as [c1 n]. cbn [fst] in H1.
    assert (c_self_msat (fst (match hf with
      | Some f => let c1' := set_hc c1 (c_hc c1) None in if fee_ok then send_update_fee c1' f false else (c1', false)
      | None => (c1, false) end)) = c_self_msat c1) as H2.
    { destruct hf as [f|]; [|reflexivity]. cbv zeta. destruct fee_ok; [rewrite self_send_update_fee|]; reflexivity. }
    destruct (match hf with Some f => _ | None => _ end) as [c2 fs]. cbn [fst] in H2.
    destruct ((n =? 0) && negb fs); cbn [fst]; [|rewrite self_sign_and_send]; rewrite H2; exact H1. }
  destruct (c_hc c) as [|u t]; [destruct (c_hc_fee c) as [f|]; [apply (Hgen [] (Some f)) | reflexivity] | apply Hgen].
Qed.

Lemma self_maybe_free send_ok fee_ok c : c_self_msat (fst (maybe_free_holding_cell_htlcs send_ok fee_ok c)) = c_self_msat c.
Proof. unfold maybe_free_holding_cell_htlcs. destruct (can_generate_new_commitment c); [apply self_free_holding_cell_htlcs|reflexivity]. Qed.

Lemma self_commitment_signed c v c' ms : commitment_signed c v = ROk (c', ms) -> c_self_msat c' = c_self_msat c.
Proof.
  unfold commitment_signed. destruct (c_disconnected c); [discriminate|]. destruct (negb (mirror_eqb _ _ _)); [discriminate|].
  assert (c_self_msat (fst (commitment_signed_update_monitor c)) = c_self_msat c) as H1.
  { unfold commitment_signed_update_monitor. cbn [fst set_flags set_htlcs c_self_msat].
    destruct (c_pending_fee _) as [[f s]|]; [destruct s|]; reflexivity. }
  destruct (commitment_signed_update_monitor c) as [c1 need]. cbn [fst] in H1.
  destruct (need && _).
  - destruct (sign_and_send c1) as [c2 ms2] eqn:E2. intros [= <- <-]. rewrite (self_sign_and_send' _ _ _ E2). exact H1.
  - intros [= <- <-]. exact H1.
Qed.

Lemma self_revoke_and_ack_update c :
  c_self_msat (fst (revoke_and_ack_update c)) = c_self_msat c + raa_settled_in c - raa_settled_out c.
Proof.
  unfold revoke_and_ack_update, raa_settled_in, raa_settled_out.
  destruct (c_pending_fee _) as [[f s]|]; [destruct s|]; cbn [fst set_fee set_self c_self_msat set_cns set_flags c_in c_out]; lia.
Qed.

Lemma self_revoke_and_ack send_ok fee_ok c c' ms :
  revoke_and_ack send_ok fee_ok c = ROk (c', ms) ->
  c_self_msat c' = c_self_msat c + raa_settled_in c - raa_settled_out c.
Proof.
  unfold revoke_and_ack. destruct (c_disconnected c); [discriminate|]. destruct (negb _); [discriminate|].
  pose proof (self_revoke_and_ack_update c) as H1.
  destruct (revoke_and_ack_update c) as [c1 req]. cbn [fst] in H1.
  pose proof (self_maybe_free send_ok fee_ok c1) as H2.
  destruct (maybe_free_holding_cell_htlcs send_ok fee_ok c1) as [c2 [|m ms2]]; cbn [fst] in H2.
  - destruct req.
    + intros E. assert (sign_and_send c2 = (c', ms)) as E' by congruence. rewrite (self_sign_and_send' _ _ _ E'). lia.
    + intros [= <- <-]. lia.
  - intros [= <- <-]. lia.
Qed.

Lemma self_peer_disconnected c : c_self_msat (peer_disconnected c) = c_self_msat c.
Proof.
  unfold peer_disconnected. destruct (c_disconnected c); [reflexivity|]. cbn [set_flags c_self_msat].
  destruct (c_pending_fee _) as [[f s]|]; [destruct s|]; reflexivity.
Qed.

Lemma self_channel_reestablish c nl nr c' ms : channel_reestablish c nl nr = ROk (c', ms) -> c_self_msat c' = c_self_msat c.
Proof. intros E. rewrite (channel_reestablish_state _ _ _ _ _ E). reflexivity. Qed.

(** The amount a step settles irrevocably at node [x]: non-zero only when the step delivers a
    revoke_and_ack to [x]. *)
Definition settled_by (s : sys) (l : label) (x : bool) : Z * Z :=
  match l with
  | L_Deliver y =>
    if Bool.eqb y x then (0, 0)
    else match (if y then s_q10 s else s_q01 s) with
         | M_Raa :: _ => (raa_settled_in (node s x), raa_settled_out (node s x))
         | _ => (0, 0)
         end
  | _ => (0, 0)
  end.

Fixpoint ledger (s : sys) (ls : list (oracle * label)) (x : bool) : Z * Z :=
  match ls with
  | [] => (0, 0)
  | (o, l) :: t =>
    match sys_step o s l with
    | ROk s' => let '(a, b) := settled_by s l x in let '(a', b') := ledger s' t x in (a + a', b + b')
    | RErr _ => (0, 0)
    end
  end.

Lemma self_deliver_msg o c m c' ms :
  deliver_msg o c m = ROk (c', ms) ->
  c_self_msat c' = c_self_msat c + (match m with M_Raa => raa_settled_in c - raa_settled_out c | _ => 0 end).
Proof.
  destruct m as [h|id|id|f|v| |nl nr]; cbn [deliver_msg].
  - destruct (update_add_htlc c h) eqn:E; [|discriminate]. intros [= <- <-]. rewrite (self_update_add_htlc _ _ _ E). lia.
  - destruct (update_remove_htlc c id true) eqn:E; [|discriminate]. intros [= <- <-]. rewrite (self_update_remove_htlc _ _ _ _ E). lia.
  - destruct (update_remove_htlc c id false) eqn:E; [|discriminate]. intros [= <- <-]. rewrite (self_update_remove_htlc _ _ _ _ E). lia.
  - destruct (update_fee c f) eqn:E; [|discriminate]. intros [= <- <-]. rewrite (self_update_fee _ _ _ E). lia.
  - intros E. rewrite (self_commitment_signed _ _ _ _ E). lia.
  - intros E. rewrite (self_revoke_and_ack _ _ _ _ _ E). lia.
  - intros E. rewrite (self_channel_reestablish _ _ _ _ _ E). lia.
Qed.

Lemma node_set_node s x c y : node (set_node s x c) y = if Bool.eqb x y then c else node s y.
Proof. destruct x, y; reflexivity. Qed.
Lemma node_emit s x ms y : node (emit s x ms) y = node s y.
Proof. destruct x, y; reflexivity. Qed.

Lemma self_sys_step o s l s' x :
  sys_step o s l = ROk s' ->
  c_self_msat (node s' x) = c_self_msat (node s x) + fst (settled_by s l x) - snd (settled_by s l x).
Proof.
  destruct l as [y amt tag|y id|y id|y f|y| | |y]; cbn [sys_step settled_by fst snd].
  - destruct (send_htlc_and_commit (node s y) amt tag) as [[c ms]|e] eqn:E; [|discriminate].
    intros [= <-]. rewrite node_emit, node_set_node.
    destruct (Bool.eqb_spec y x) as [->|]; [rewrite (self_send_htlc_and_commit _ _ _ _ _ E)|]; lia.
  - pose proof (self_claim_htlc (node s y) id) as Hc.
    destruct (claim_htlc (node s y) id) as [c ms]. cbn [fst] in Hc. intros [= <-]. rewrite node_emit, node_set_node.
    destruct (Bool.eqb_spec y x) as [->|]; lia.
  - intros [= <-]. rewrite node_set_node. destruct (Bool.eqb_spec y x) as [->|]; [rewrite self_queue_fail_htlc|]; lia.
  - intros [= <-]. rewrite node_set_node. unfold queue_update_fee.
    destruct (Bool.eqb_spec y x) as [->|]; [rewrite self_send_update_fee|]; lia.
  - destruct (if y then s_q10 s else s_q01 s) as [|m rest] eqn:Eq; [discriminate|].
    match goal with |- match deliver_msg o (node ?s1 ?z) m with _ => _ end = _ -> _ =>
      assert (forall w, node s1 w = node s w) as Hn by (intros w; destruct y, w; reflexivity);
      destruct (deliver_msg o (node s1 z) m) as [[c ms]|e] eqn:E; [|discriminate]
    end.
    intros [= <-]. rewrite node_emit, node_set_node. rewrite Hn in E.
    pose proof (self_deliver_msg _ _ _ _ _ E) as Hd.
    destruct y, x; cbn [negb Bool.eqb fst snd] in *; try lia; destruct m; cbn [fst snd node s_n0 s_n1] in *; lia.
  - intros [= <-]. destruct x; cbn [node s_n0 s_n1]; rewrite self_peer_disconnected; lia.
  - destruct (s_connected s); [discriminate|]. intros [= <-]. destruct x; cbn [node s_n0 s_n1]; lia.
  - pose proof (self_maybe_free (send_ok_of o) (fee_ok o) (node s y)) as Hc.
    destruct (maybe_free_holding_cell_htlcs _ _ (node s y)) as [c ms]. cbn [fst] in Hc. intros [= <-].
    rewrite node_emit, node_set_node. destruct (Bool.eqb_spec y x) as [->|]; lia.
Qed.

(** For every list of labels: each side's balance is its opening balance plus what was irrevocably
    settled to it minus what was irrevocably settled away. No other step moves it. *)
Lemma balance_ledger ls : forall s0 s x,
  run s0 ls = ROk s ->
  c_self_msat (node s x) = c_self_msat (node s0 x) + fst (ledger s0 ls x) - snd (ledger s0 ls x).
Proof.
  induction ls as [|[o l] t IH]; intros s0 s x; cbn [run ledger].
  - intros [= <-]. cbn. lia.
  - destruct (sys_step o s0 l) as [s1|e] eqn:E; [|discriminate]. intros Hr.
    rewrite (IH _ _ x Hr), (self_sys_step _ _ _ _ x E).
    destruct (settled_by s0 l x) as [a b]. destruct (ledger s1 t x) as [a' b']. cbn [fst snd]. lia.
Qed.

(** ** Send limits at the level of [send_htlc] *)
Lemma limits_tight limit minimum c amt tag :
  amt < minimum \/ limit < amt -> is_ok (send_htlc_checked limit minimum c amt tag) = false.
Proof.
  intros H. unfold send_htlc_checked. destruct (amt =? 0); [reflexivity|].
  destruct (Z.ltb_spec amt minimum); [reflexivity|]. destruct (Z.ltb_spec limit amt); [reflexivity|]. lia.
Qed.

Lemma limits_accept limit minimum c amt tag :
  0 < amt -> minimum <= amt <= limit -> c_disconnected c = false ->
  exists c' b, send_htlc_checked limit minimum c amt tag = ROk (c', b) /\
    (if b then c_out c' = c_out c ++ [mkOut (mkP (c_next_holder_id c) amt tag) OS_LocalAnnounced] /\ c_hc c' = c_hc c
     else c_hc c' = c_hc c ++ [HC_Add amt tag] /\ c_out c' = c_out c) /\
    c_in c' = c_in c /\ c_self_msat c' = c_self_msat c.
Proof.
  intros Hpos Hr Hd. unfold send_htlc_checked, send_htlc.
  destruct (Z.eqb_spec amt 0); [lia|]. destruct (Z.ltb_spec amt minimum); [lia|]. destruct (Z.ltb_spec limit amt); [lia|].
  rewrite Hd. destruct (negb (can_generate_new_commitment c)); eexists _, _; (split; [reflexivity|]); cbn; auto.
Qed.

(** ** Non-vacuity: a concrete schedule on a fresh channel *)
Definition ex_chan (funder : bool) (self_msat : Z) : chan :=
  mkChan funder 100000 CT_Anchors 354 354 self_msat 253 None None [] [] [] 0 0
    (INITIAL_COMMITMENT_NUMBER - 1) (INITIAL_COMMITMENT_NUMBER - 1) false false false.
Definition ex_sys : sys := mkSys (ex_chan true 70000000) (ex_chan false 30000000) [] [] true.
Definition ex_oracle : oracle := mkOracle [22] true 253 253.
(** node 0 sends 5000 sat, full commitment dance, node 1 claims, dance; meanwhile node 1 sends a dust
    HTLC that ends in node 0's holding-cell-free path. *)
Definition ex_labels : list (oracle * label) :=
  map (fun l => (ex_oracle, l))
    [L_Send false 5000000 11; L_Deliver false; L_Deliver false; L_Send true 300000 22; L_Deliver true; L_Deliver true;
     L_Deliver false; L_Deliver true; L_Deliver true; L_Deliver false; L_Deliver false; L_Deliver true;
     L_Claim true 0; L_Deliver true; L_Deliver true; L_Deliver false; L_Deliver false; L_Deliver true].

Lemma ex_sys_wf : sys_wf ex_sys.
Proof.
  split; (constructor; [constructor | constructor |]); exists [], []; cbn; repeat split; constructor.
Qed.

Lemma ex_run_ok : exists s, run ex_sys ex_labels = ROk s /\
  c_self_msat (s_n0 s) = 65000000 /\ c_self_msat (s_n1 s) = 35000000 /\
  map (fun h => (p_id (ih h), in_code (ist h))) (c_in (s_n0 s)) = [(0, 3)] /\
  ledger ex_sys ex_labels false = (0, 5000000).
Proof. eexists. split; [vm_compute; reflexivity|]. vm_compute. repeat split; reflexivity. Qed.
