(** C17 — per-step facts: rejected messages change nothing, exact acceptance conditions of
    channel updates, strict timestamp monotonicity, effects of removal and pruning. *)
From stdpp Require Import gmap.
From Coq Require Import ZArith String Lia ZifyBool.
Require Import LdkV.Gen.GossipConsts LdkV.Model.Gossip LdkV.Model.GossipSpec LdkV.Proofs.C17Base.
Open Scope Z_scope.

(** ** Rejected operations leave the graph unchanged *)
Lemma add_chan_err g scid ci us e g' : add_chan g scid ci us = (GErr e, g') → g' = g.
Proof. unfold add_chan. repeat case_match; intros; simplify_eq; done. Qed.

Lemma ann_intern_err g a s u now e g' : ann_intern g a s u now = (GErr e, g') → g' = g.
Proof.
  unfold ann_intern. repeat case_match; intros; simplify_eq; try done; by eapply add_chan_err.
Qed.

Lemma node_intern_err g m s e g' : node_intern g m s = (GErr e, g') → g' = g.
Proof. unfold node_intern. repeat case_match; intros; simplify_eq; done. Qed.

Lemma step_err_unchanged cf g o e g' : step cf g o = (GErr e, g') → g' = g.
Proof.
  destruct o as [via sg a u now|scid cap ts f n1 n2|via sg m now ov|via sg m|scid perm now|nid perm now|now|]; simpl.
  - unfold chan_ann_step. destruct (pre_check cf g a u); [by intros [= _ <-]|].
    destruct (match sg with Some s => verify_ann cf a s | None => None end); [by intros [= _ <-]|].
    destruct (ann_intern g a (is_some_b sg) u now) as [r g1] eqn:Hint. destruct r as [v|e'].
    + by case_match.
    + intros [= _ <-]. by eapply ann_intern_err.
  - unfold partial_ann_step. case_match; [by intros [= _ <-]|]. apply add_chan_err.
  - unfold chan_upd_step. repeat case_match; intros; simplify_eq; done.
  - unfold node_ann_step. repeat case_match; intros; simplify_eq; try done; by eapply node_intern_err.
  - done.
  - done.
  - done.
  - done.
Qed.

(** ** Exact acceptance condition and effect of a channel update *)
Lemma check_sanity_None c m :
  check_sanity c m = None ↔
  (∀ cap, c_cap c = Some cap → cap ≤ MAX_VALUE_MSAT / 1000 ∧ cu_hmax m ≤ cap * 1000) ∧
  (∀ old, chan_dir c (dir_is_two_to_one m) = Some old → ui_ts old < cu_ts m).
Proof.
  unfold check_sanity, check_latest. split.
  - intros H. repeat case_match; simplify_eq; split; intros; simplify_eq.
    all: try lia.
  - intros [H1 H2]. destruct (c_cap c) as [cap|].
    + destruct (H1 cap eq_refl).
      assert ((MAX_VALUE_MSAT / 1000 <? cap) || (cap * 1000 <? cu_hmax m) = false) as -> by lia.
      destruct (chan_dir c (dir_is_two_to_one m)) as [old|]; [|done].
      specialize (H2 old eq_refl). repeat case_match; try done; lia.
    + destruct (chan_dir c (dir_is_two_to_one m)) as [old|]; [|done].
      specialize (H2 old eq_refl). repeat case_match; try done; lia.
Qed.

Lemma chan_upd_accept cf g via sg m now v g' :
  chan_upd_step cf g via sg m now false = (GOk v, g') →
  ∃ c, upd_guards cf g via sg m now c ∧ g' = upd_result g sg m c.
Proof.
  unfold chan_upd_step.
  destruct (via && upd_dont_forward m) eqn:H1; [done|].
  destruct (negb (cu_chain m =? cfg_chain cf)) eqn:H2; [done|].
  destruct (cfg_time_check cf && (cu_ts m <? now - STALE_CHANNEL_UPDATE_AGE_LIMIT_SECS)) eqn:H3; [done|].
  destruct (cfg_time_check cf && (now + 60 * 60 * 24 <? cu_ts m)) eqn:H4; [done|].
  destruct (MAX_VALUE_MSAT <? cu_hmax m) eqn:H5; [done|].
  destruct (g_chans g !! cu_scid m) as [c|] eqn:Hc; [|done].
  destruct (check_sanity c m) eqn:H6; [done|].
  destruct (is_some_b sg && negb (pk_ok cf (dir_node c (dir_is_two_to_one m)))) eqn:H7; [done|].
  case_match eqn:H8; [done|]. intros [= _ <-].
  exists c. split; [|done]. apply check_sanity_None in H6 as [H6a H6b].
  split_and!; try done.
  - intros ->. by destruct (upd_dont_forward m).
  - lia.
  - intros Ht. rewrite Ht in H3, H4. simpl in *. lia.
  - lia.
  - intros s ->. simpl in *. split.
    + by destruct (pk_ok cf _).
    + by case_bool_decide.
Qed.

Lemma chan_upd_accepts cf g via sg m now c :
  upd_guards cf g via sg m now c →
  ∃ v, chan_upd_step cf g via sg m now false = (GOk v, upd_result g sg m c).
Proof.
  intros (Hc & H1 & H2 & H3 & H4 & H5 & H6 & H7). unfold chan_upd_step.
  assert (via && upd_dont_forward m = false) as ->.
  { destruct via; [|done]. by rewrite H1. }
  assert (negb (cu_chain m =? cfg_chain cf) = false) as -> by (rewrite H2; by rewrite Z.eqb_refl).
  assert (cfg_time_check cf && (cu_ts m <? now - STALE_CHANNEL_UPDATE_AGE_LIMIT_SECS) = false) as ->.
  { destruct (cfg_time_check cf); [|done]. specialize (H3 eq_refl). simpl. lia. }
  assert (cfg_time_check cf && (now + 60 * 60 * 24 <? cu_ts m) = false) as ->.
  { destruct (cfg_time_check cf); [|done]. specialize (H3 eq_refl). simpl. lia. }
  assert ((MAX_VALUE_MSAT <? cu_hmax m) = false) as -> by lia.
  rewrite Hc.
  assert (check_sanity c m = None) as -> by (apply check_sanity_None; done).
  destruct sg as [s|]; simpl.
  - destruct (H7 s eq_refl) as [-> ->]. simpl. rewrite bool_decide_eq_true_2 by done. simpl.
    eexists. done.
  - eexists. done.
Qed.

(** [verify_channel_update] never changes the graph *)
Lemma verify_only_unchanged cf g via sg m now : (chan_upd_step cf g via sg m now true).2 = g.
Proof. unfold chan_upd_step. repeat case_match; done. Qed.

(** ** Monotonicity of timestamps, for every operation *)
Definition dir_step_ok (old new : option upd_info) : Prop :=
  ∀ u u', old = Some u → new = Some u' → u' = u ∨ ui_ts u < ui_ts u'.
Definition nann_step_ok (old new : option nann) : Prop :=
  ∀ a a', old = Some a → new = Some a' → a' = a ∨ na_ts a < na_ts a'.

Definition chans_mono (ch ch' : gmap Z chan) : Prop :=
  ∀ scid d, dir_step_ok (c ← ch !! scid; chan_dir c d) (c ← ch' !! scid; chan_dir c d).
Definition nodes_mono (nd nd' : gmap Z node) : Prop :=
  ∀ nid, nann_step_ok (n ← nd !! nid; n_ann n) (n ← nd' !! nid; n_ann n).

Lemma chans_mono_refl ch : chans_mono ch ch.
Proof. intros scid d u u' -> [= ->]. by left. Qed.
Lemma nodes_mono_refl nd : nodes_mono nd nd.
Proof. intros nid a a' -> [= ->]. by left. Qed.

(** removal-type steps only delete channels or reset directions to [None] *)
(** [c'] is [c] with some directions possibly reset to [None] *)
Definition chan_le (c' c : chan) : Prop :=
  c_features c' = c_features c ∧ c_one c' = c_one c ∧ c_two c' = c_two c ∧ c_cap c' = c_cap c ∧
  c_msg c' = c_msg c ∧ c_recv c' = c_recv c ∧
  ∀ d, chan_dir c' d = None ∨ chan_dir c' d = chan_dir c d.
Definition chans_shrink (ch ch' : gmap Z chan) : Prop :=
  ∀ scid c', ch' !! scid = Some c' → ∃ c, ch !! scid = Some c ∧ chan_le c' c.

Lemma chan_le_refl c : chan_le c c.
Proof. unfold chan_le. split_and!; try done. intros d. by right. Qed.
Lemma chan_le_trans a b c : chan_le a b → chan_le b c → chan_le a c.
Proof.
  intros (?&?&?&?&?&?&Hd1) (?&?&?&?&?&?&Hd2). unfold chan_le. split_and!; try congruence.
  intros d. destruct (Hd1 d) as [?|He]; [by left|]. rewrite He. apply Hd2.
Qed.

Lemma chans_shrink_mono ch ch' : chans_shrink ch ch' → chans_mono ch ch'.
Proof.
  intros Hs scid d u u' Hu Hu'. destruct (ch' !! scid) as [c'|] eqn:Hc'; [|done].
  destruct (Hs _ _ Hc') as (c & Hc & Hle). rewrite Hc in Hu. simpl in *.
  destruct Hle as (_&_&_&_&_&_&Hd).
  destruct (Hd d) as [Hn|He]; [by rewrite Hn in Hu'|]. rewrite He, Hu in Hu'. left. by injection Hu'.
Qed.

Lemma chans_shrink_refl ch : chans_shrink ch ch.
Proof. intros scid c' ?. exists c'. split; [done|]. apply chan_le_refl. Qed.

Lemma chans_shrink_trans a b c : chans_shrink a b → chans_shrink b c → chans_shrink a c.
Proof.
  intros Hab Hbc scid cc Hcc. destruct (Hbc _ _ Hcc) as (cb & Hcb & Hd1).
  destruct (Hab _ _ Hcb) as (ca & Hca & Hd2). exists ca. split; [done|].
  by eapply chan_le_trans.
Qed.

Lemma chans_shrink_delete ch scid : chans_shrink ch (delete scid ch).
Proof.
  intros scid' c' [_ ?]%lookup_delete_Some. exists c'. split; [done|]. apply chan_le_refl.
Qed.

(** node-side analogue: a step that keeps or forgets announcements *)
Definition nodes_shrink (nd nd' : gmap Z node) : Prop :=
  ∀ nid n', nd' !! nid = Some n' → n_ann n' = None ∨ ∃ n, nd !! nid = Some n ∧ n_ann n' = n_ann n.

Lemma nodes_shrink_mono nd nd' : nodes_shrink nd nd' → nodes_mono nd nd'.
Proof.
  intros Hs nid a a' Ha Ha'. destruct (nd' !! nid) as [n'|] eqn:Hn'; [|done]. simpl in Ha'.
  destruct (Hs _ _ Hn') as [Hnone|(n & Hn & He)]; [by rewrite Hnone in Ha'|].
  rewrite Hn in Ha. simpl in Ha. rewrite He, Ha in Ha'. left. by injection Ha'.
Qed.

Lemma nodes_shrink_refl nd : nodes_shrink nd nd.
Proof. intros nid n' ?. right. by exists n'. Qed.

Lemma nodes_shrink_trans a b c : nodes_shrink a b → nodes_shrink b c → nodes_shrink a c.
Proof.
  intros Hab Hbc nid nc Hnc. destruct (Hbc _ _ Hnc) as [?|(nb & Hnb & He)]; [by left|].
  destruct (Hab _ _ Hnb) as [Hn|(na & Hna & He')]; [left; by rewrite He|].
  right. exists na. split; [done|]. by rewrite He.
Qed.

Lemma nodes_shrink_rm_one nd nid scid : nodes_shrink nd (rm_one nd nid scid).
Proof. intros nid' n' (n & ? & ?)%rm_one_ann. right. by exists n. Qed.

Lemma nodes_shrink_push nd nid scid : nodes_shrink nd (push_node nd nid scid).
Proof.
  intros nid' n' Hn'. apply push_node_ann in Hn'. destruct (nd !! nid') as [n|] eqn:Hn.
  - right. by exists n.
  - by left.
Qed.

Lemma nodes_shrink_delete nd nid : nodes_shrink nd (delete nid nd).
Proof. intros nid' n' [_ ?]%lookup_delete_Some. right. by exists n'. Qed.

Lemma remove_in_nodes_shrink nd c scid : nodes_shrink nd (remove_in_nodes nd c scid).
Proof.
  unfold remove_in_nodes. eapply nodes_shrink_trans; apply nodes_shrink_rm_one.
Qed.

Definition g_shrink (g g' : graph) : Prop :=
  chans_shrink (g_chans g) (g_chans g') ∧ nodes_shrink (g_nodes g) (g_nodes g').

Lemma g_shrink_refl g : g_shrink g g.
Proof. split; [apply chans_shrink_refl|apply nodes_shrink_refl]. Qed.
Lemma g_shrink_trans a b c : g_shrink a b → g_shrink b c → g_shrink a c.
Proof.
  intros [H1 H2] [H3 H4]. split; [exact (chans_shrink_trans _ _ _ H1 H3)|exact (nodes_shrink_trans _ _ _ H2 H4)].
Qed.

Lemma remove_channel_shrink g scid now : g_shrink g (remove_channel g scid now).
Proof.
  unfold remove_channel. destruct (g_chans g !! scid) as [c|]; [|apply g_shrink_refl].
  split; simpl; [apply chans_shrink_delete|apply remove_in_nodes_shrink].
Qed.

Lemma foldl_shrink {A} (f : graph → A → graph) g l :
  (∀ g x, g_shrink g (f g x)) → g_shrink g (foldl f g l).
Proof.
  intros Hf. revert g. induction l as [|x l IH]; intros g; [apply g_shrink_refl|].
  simpl. eapply g_shrink_trans; [apply Hf|apply IH].
Qed.

Lemma fail_node_shrink g nid now : g_shrink g (fail_node g nid now).
Proof.
  unfold fail_node. destruct (g_nodes g !! nid) as [n|]; [|apply g_shrink_refl].
  set (g1 := Graph _ (delete nid (g_nodes g)) _ _).
  assert (g_shrink g g1) as H1.
  { split; simpl; [apply chans_shrink_refl|apply nodes_shrink_delete]. }
  assert (g_shrink g1 (foldl (fail_node_chan nid now) g1 (n_chans n))) as [H2 H3].
  { apply foldl_shrink. intros g' scid. unfold fail_node_chan.
    destruct (g_chans g' !! scid) as [c|]; [|apply g_shrink_refl].
    split; simpl; [apply chans_shrink_delete|apply nodes_shrink_rm_one]. }
  destruct H1 as [H1a H1b]. split; simpl.
  - exact (chans_shrink_trans _ _ _ H1a H2).
  - exact (nodes_shrink_trans _ _ _ H1b H3).
Qed.

Lemma drop_stale_dirs mt c d :
  chan_dir (drop_stale mt c) d = None ∨ chan_dir (drop_stale mt c) d = chan_dir c d.
Proof.
  unfold drop_stale, chan_dir. destruct d; simpl.
  - destruct (c_21 c); [|by left]. case_match; [by left|by right].
  - destruct (c_12 c); [|by left]. case_match; [by left|by right].
Qed.

Lemma prune_shrink g now : g_shrink g (prune g now).
Proof.
  unfold prune. repeat case_match; try apply g_shrink_refl.
  set (g1 := Graph (drop_stale _ <$> g_chans g) _ _ _).
  assert (g_shrink g g1) as H1.
  { split; simpl; [|apply nodes_shrink_refl]. intros scid c'. rewrite lookup_fmap.
    destruct (g_chans g !! scid) as [c|]; [|done]. intros [= <-]. exists c. split; [done|].
    unfold chan_le. split_and!; try done. apply drop_stale_dirs. }
  match goal with |- g_shrink _ (Graph (g_chans ?g2) (g_nodes ?g2) _ _) =>
    assert (g_shrink g1 g2) as [H2 H3] end.
  { apply foldl_shrink. intros. apply remove_channel_shrink. }
  destruct H1 as [H1a H1b]. split; simpl.
  - exact (chans_shrink_trans _ _ _ H1a H2).
  - exact (nodes_shrink_trans _ _ _ H1b H3).
Qed.

Lemma add_chan_mono g scid ci us r g' :
  c_12 ci = None → c_21 ci = None → add_chan g scid ci us = (r, g') →
  chans_mono (g_chans g) (g_chans g') ∧ nodes_mono (g_nodes g) (g_nodes g').
Proof.
  intros H12 H21. unfold add_chan.
  assert (chans_mono (g_chans g) (<[scid := ci]> (g_chans g))) as Hch.
  { intros s d u u' Hu Hu'. destruct (decide (s = scid)) as [->|Hne].
    - rewrite lookup_insert in Hu'. simpl in Hu'. destruct d; simpl in Hu'; congruence.
    - rewrite lookup_insert_ne in Hu' by done. rewrite Hu in Hu'. left. by injection Hu'. }
  destruct (g_chans g !! scid) as [old|].
  - destruct us; intros [= <- <-]; simpl.
    + split; [done|]. apply nodes_shrink_mono.
      eapply nodes_shrink_trans; [apply remove_in_nodes_shrink|].
      eapply nodes_shrink_trans; apply nodes_shrink_push.
    + split; [apply chans_mono_refl|apply nodes_mono_refl].
  - intros [= <- <-]; simpl. split; [done|]. apply nodes_shrink_mono.
    eapply nodes_shrink_trans; apply nodes_shrink_push.
Qed.

Lemma step_monotone cf g o :
  chans_mono (g_chans g) (g_chans (step cf g o).2) ∧
  nodes_mono (g_nodes g) (g_nodes (step cf g o).2).
Proof.
  assert (∀ g', g_shrink g g' → chans_mono (g_chans g) (g_chans g') ∧
                                nodes_mono (g_nodes g) (g_nodes g')) as Hshr.
  { intros g' [? ?]. split; [by apply chans_shrink_mono|by apply nodes_shrink_mono]. }
  destruct o as [via sg a u now|scid cap ts f n1 n2|via sg m now ov|via sg m|scid perm now|nid perm now|now|]; simpl.
  - unfold chan_ann_step. repeat case_match; simplify_eq; simpl;
      try (split; [apply chans_mono_refl|apply nodes_mono_refl]).
    all: match goal with H : ann_intern _ _ _ _ _ = _ |- _ => unfold ann_intern in H end.
    all: repeat case_match; simplify_eq; try (split; [apply chans_mono_refl|apply nodes_mono_refl]).
    all: eapply add_chan_mono; [| |done]; done.
  - unfold partial_ann_step. case_match; [split; [apply chans_mono_refl|apply nodes_mono_refl]|].
    destruct (add_chan _ _ _ _) as [r g'] eqn:Hadd. eapply add_chan_mono; [| |done]; done.
  - destruct ov.
    + rewrite verify_only_unchanged. split; [apply chans_mono_refl|apply nodes_mono_refl].
    + destruct (chan_upd_step cf g via sg m now false) as [[v|e] g'] eqn:Hstep; simpl.
      * apply chan_upd_accept in Hstep as (c & (Hc & _ & _ & _ & _ & _ & Hnew & _) & ->).
        simpl. split; [|apply nodes_mono_refl].
        intros s d u u' Hu Hu'. destruct (decide (s = cu_scid m)) as [->|Hne].
        -- rewrite lookup_insert in Hu'. rewrite Hc in Hu. simpl in *.
           unfold set_dir, chan_dir in *. destruct (dir_is_two_to_one m), d; simpl in *;
             simplify_eq; try (by left); right; by apply Hnew.
        -- rewrite lookup_insert_ne in Hu' by done. rewrite Hu in Hu'. left. by injection Hu'.
      * assert (g' = g) as -> by (eapply (step_err_unchanged cf g (OChanUpd via sg m now false)); done).
        split; [apply chans_mono_refl|apply nodes_mono_refl].
  - assert (∀ s, chans_mono (g_chans g) (g_chans (node_intern g m s).2) ∧
                 nodes_mono (g_nodes g) (g_nodes (node_intern g m s).2)) as Hint.
    { intros s. unfold node_intern. destruct (g_nodes g !! nm_nid m) as [n|] eqn:Hn;
        [|split; [apply chans_mono_refl|apply nodes_mono_refl]].
      destruct (n_ann n) as [a|] eqn:Ha.
      - repeat case_match; simplify_eq; simpl; try (split; [apply chans_mono_refl|apply nodes_mono_refl]).
        all: split; [apply chans_mono_refl|]; intros nid x x' Hx Hx';
          (destruct (decide (nid = nm_nid m)) as [->|Hne];
           [rewrite lookup_insert in Hx'; rewrite Hn in Hx; simpl in *; simplify_eq; right; simpl; lia
           |rewrite lookup_insert_ne in Hx' by done; rewrite Hx in Hx'; left; by injection Hx']).
      - simpl. split; [apply chans_mono_refl|]. intros nid x x' Hx Hx'.
        destruct (decide (nid = nm_nid m)) as [->|Hne].
        + rewrite Hn in Hx. simpl in Hx. congruence.
        + rewrite lookup_insert_ne in Hx' by done. rewrite Hx in Hx'. left. by injection Hx'. }
    unfold node_ann_step. repeat case_match; simplify_eq; simpl;
      try (split; [apply chans_mono_refl|apply nodes_mono_refl]).
    all: try match goal with H : node_intern _ _ ?s = (_, ?g') |- _ =>
           specialize (Hint s); by rewrite H in Hint end.
    apply Hint.
  - destruct perm; [apply Hshr, remove_channel_shrink|split; [apply chans_mono_refl|apply nodes_mono_refl]].
  - destruct perm; [apply Hshr, fail_node_shrink|split; [apply chans_mono_refl|apply nodes_mono_refl]].
  - apply Hshr, prune_shrink.
  - split; [apply chans_mono_refl|apply nodes_mono_refl].
Qed.
