(** C12: the persistence TLV layer.  The stream theorems are those of Proofs/C13Tlv.v (same macros);
    here: the length-prefixed suffix composes with anything that follows, and the extracted
    persistence schemas are well formed. *)
Require Import LdkV.Prim.U64 LdkV.Codec.Combinators LdkV.Codec.Tlv LdkV.Proofs.C13Base LdkV.Proofs.C13Tlv.
Require Import LdkV.Gen.PersistSchemas.
Open Scope Z_scope.

Lemma suffix_roundtrip pk es vals rest :
  tlvs_wf es = true -> tlv_dom pk es vals = true -> len (tlv_enc es vals) < 2 ^ 64 ->
  suffix_dec pk es (suffix_enc es vals ++ rest) = ROk (vals, rest).
Proof.
  intros W D L. unfold suffix_dec, suffix_enc. rewrite <- app_assoc.
  rewrite bigsize_rt by (pose proof (len_nonneg (tlv_enc es vals)); lia). cbn [rbind].
  rewrite ztake_app_exact, zdrop_app_exact by reflexivity.
  rewrite (tlv_roundtrip pk) by assumption. cbn [rbind].
  rewrite len_app. pose proof (len_nonneg rest).
  destruct (Z.ltb_spec (len (tlv_enc es vals) + len rest) (len (tlv_enc es vals))); [lia|]. reflexivity.
Qed.

(** a suffix whose declared length exceeds what is left is a short read, never a partial object
    (here for the empty schema: every record is unknown; an unknown odd record is skipped first) *)
Lemma suffix_truncated pk n w : 0 <= n < 2 ^ 64 -> len w < n -> bytes_ok w = true ->
  forall v r, suffix_dec pk [] (bigsize_enc n ++ w) <> ROk (v, r).
Proof.
  intros N S _ v r. unfold suffix_dec. rewrite bigsize_rt by exact N. cbn [rbind].
  destruct (tlv_dec pk [] (ztake n w)); cbn [rbind]; [|discriminate].
  destruct (Z.ltb_spec (len w) n); [discriminate|lia].
Qed.

Lemma persist_schemas_wf : forallb (fun s => tlvs_wf (snd s)) persist_schemas = true.
Proof. vm_compute. reflexivity. Qed.

Lemma persist_field_pins_ok : forallb pin_ok persist_field_pins = true.
Proof. vm_compute. reflexivity. Qed.

Lemma persist_roundtrip pk name es vals rest : In (name, es) persist_schemas ->
  tlv_dom pk es vals = true -> len (tlv_enc es vals) < 2 ^ 64 ->
  suffix_dec pk es (suffix_enc es vals ++ rest) = ROk (vals, rest).
Proof.
  intros I D L. apply suffix_roundtrip; [|exact D|exact L].
  pose proof persist_schemas_wf as W. rewrite forallb_forall in W. apply (W _ I).
Qed.
