(** C05, revocation discipline: every log the one-node machine of Model/RevokeLog.v can produce,
    for every operation list (= every behaviour of user, peer, network, persistence completion,
    restart), is accepted by the policy checker [chk_all]; and what acceptance means. *)
Require Import LdkV.Prim.U64 LdkV.Model.RevokeLog LdkV.Gen.C05Pins.
Open Scope Z_scope.

Section Proofs.
  Variables secret point : Type.
  Variable pub : secret -> point.
  Variable point_eqb : point -> point -> bool.
  Hypothesis point_eqb_refl : forall p, point_eqb p p = true.
  Hypothesis point_eqb_eq : forall p q, point_eqb p q = true -> p = q.

  Notation ev := (ev secret point).
  Notation st := (st secret point).
  Notation op := (op secret point).
  Notation pol := (pol point).
  Notation step := (step secret point pub point_eqb).
  Notation run := (run secret point pub point_eqb).
  Notation chk := (chk secret point pub point_eqb).
  Notation chk_all := (chk_all secret point pub point_eqb).
  Notation restore := (restore secret point).
  Notation recv_channel_ready := (recv_channel_ready secret point pub point_eqb).
  Notation close := (close secret point).
  Notation maybe_restore := (maybe_restore secret point).
  Notation announced := (announced point point_eqb).

  (* ---------------------------------------------------------------------------------------- *)
  (** * Part A: simulation -- the machine's log is always accepted *)

  Lemma chk_all_app g l1 l2 :
    chk_all g (l1 ++ l2) = match chk_all g l1 with Some g' => chk_all g' l2 | None => None end.
  Proof.
    revert g. induction l1 as [|e l1 IH]; intros g; cbn [chk_all app]; [reflexivity|].
    destruct (chk g e); [apply IH|reflexivity].
  Qed.

  Lemma announced_cons_same a k p : announced ((k, p) :: a) k p = true.
  Proof. unfold announced. cbn [existsb fst snd]. rewrite Z.eqb_refl, point_eqb_refl. reflexivity. Qed.

  Lemma announced_cons_mono a kp k p : announced a k p = true -> announced (kp :: a) k p = true.
  Proof. unfold announced. cbn [existsb]. intros ->. apply orb_true_r. Qed.

  (** have the peer's points been shifted by its channel_ready yet? *)
  Definition ann_phase (s : st) : bool := chan_ready (hsk s) || their_ready (hsk s).
  Definition has_key (a : list (Z * point)) (k : Z) : bool := existsb (fun kp : Z * point => fst kp =? k) a.

  (** the relation between machine state and policy state; [Rc] is the part that survives a close *)
  Record Rc (s : st) (g : pol) : Prop := mkRc {
    R_hn : holder_next s <= INITIAL - 1;
    R_vh : p_vh g = holder_next s + 1;
    R_rel : holder_next s + 2 <= p_rel g;
    (* the commitment in the monitor's funding claim is validated, unreleased, and remembered as signed *)
    R_ms : forall k, mon_signed (ext s) = Some k ->
           holder_next s + 1 <= k /\ k < p_rel g /\ exists m, p_sh g = Some m /\ k <= m
  }.

  Record R (s : st) (g : pol) : Prop := mkR {
    R_c : Rc s g;
    (* nothing was ever signed for broadcast unless the monitor is locked *)
    R_sh1 : closed s = false -> mon_signed (ext s) = None -> p_sh g = None;
    (* a locked monitor whose channel moved on never completes an update again *)
    R_sh2 : closed s = false -> forall m, p_sh g = Some m ->
            m <= holder_next s + 1 \/ mon_in_progress s = true;
    R_mpraa : closed s = false -> mp_raa s = true -> holder_next s < INITIAL - 1;
    R_st : closed s = false -> p_st g = cp_next s + 2;
    R_rv : closed s = false -> p_rv g = cp_next s + 2;
    R_cur : closed s = false -> ann_phase s = true ->
            exists p, cp_cur_point s = Some p /\ announced (p_ann g) (cp_next s + 1) p = true;
    R_nxt : closed s = false -> ann_phase s = true ->
            exists p, cp_next_point s = Some p /\ announced (p_ann g) (cp_next s) p = true;
    R_pre : closed s = false -> ann_phase s = false ->
            cp_next s = INITIAL - 1 /\
            exists p, cp_next_point s = Some p /\ announced (p_ann g) (cp_next s + 1) p = true;
    R_keys : closed s = false -> forall k, has_key (p_ann g) k = true ->
             (if ann_phase s then cp_next s else cp_next s + 1) <= k;
    (* AwaitingChannelReady never has OUR_CHANNEL_READY together with WAITING_FOR_BATCH or THEIR_CHANNEL_READY *)
    R_flags : closed s = false -> chan_ready (hsk s) = false -> our_ready (hsk s) = true ->
              wfb (hsk s) = false /\ their_ready (hsk s) = false
  }.

  Lemma R_init batch p0 :
    exists g, chk_all (pol_init point) (init_log secret point p0) = Some g /\ R (init secret point batch p0) g.
  Proof.
    exists (mkPol point INITIAL (INITIAL + 1) (INITIAL + 1) [(INITIAL, p0)] (INITIAL + 1) None).
    split; [reflexivity|].
    constructor; [constructor|..]; cbn [init holder_next cp_next mp_raa cp_cur_point cp_next_point closed hsk ext mon_signed
                      mon_in_progress p_vh p_st p_rv p_ann p_rel p_sh]; unfold ann_phase;
      cbn [init hsk chan_ready their_ready orb]; intros; try lia; try discriminate; try reflexivity.
    - split; [reflexivity|]. exists p0. split; [reflexivity|].
      replace (INITIAL - 1 + 1) with INITIAL by lia. apply announced_cons_same.
    - unfold has_key in *. cbn [existsb fst] in *. rewrite orb_false_r in *. lia.
  Qed.

  Ltac sf := cbn [holder_next cp_next awaiting_rr disconnected mon_in_progress mp_raa mp_cs raa_first
                   cp_cur_point cp_next_point closed hsk ext stfu_sent quiescent mon_signed
                   p_vh p_rv p_st p_ann p_rel p_sh fst snd
                   build_commitment upd_mon set_mp_raa set_mp_cs set_hs set_mon_signed set_stfu] in *.

  (** R only looks at these components (and is monotone in [mon_in_progress]) *)
  Definition hflags (s : st) := (chan_ready (hsk s), our_ready (hsk s), their_ready (hsk s), wfb (hsk s)).
  Definition core (s : st) := (holder_next s, cp_next s, mp_raa s, cp_cur_point s, cp_next_point s, closed s, hflags s,
                               mon_signed (ext s)).
  Definition core_ok (s s' : st) : Prop :=
    core s = core s' /\ (mon_in_progress s = true -> mon_in_progress s' = true).

  Ltac core_eq := unfold core_ok, core, hflags; repeat match goal with x := _ : RevokeLog.st _ _ |- _ => subst x end; sf;
    rewrite ?orb_false_r, ?orb_true_r;
    repeat match goal with H : closed _ = false |- _ => rewrite H; clear H end;
    split; [reflexivity|intros; first [assumption|reflexivity]].

  Lemma Rc_core s s' g : holder_next s = holder_next s' -> mon_signed (ext s) = mon_signed (ext s') -> Rc s g -> Rc s' g.
  Proof. intros E1 E2 [H1 H2 H3 H4]. constructor; rewrite <- ?E1, <- ?E2; assumption. Qed.

  (** clearing [mp_raa] (or keeping it) never hurts *)
  Lemma R_mpraa_weaken s s' g :
    (holder_next s, cp_next s, cp_cur_point s, cp_next_point s, closed s, hflags s, mon_signed (ext s)) =
    (holder_next s', cp_next s', cp_cur_point s', cp_next_point s', closed s', hflags s', mon_signed (ext s')) ->
    (mp_raa s' = true -> mp_raa s = true \/ holder_next s < INITIAL - 1) ->
    (mon_in_progress s = true -> mon_in_progress s' = true) ->
    R s g -> R s' g.
  Proof.
    unfold hflags. intros E Hm Hmip HR. injection E as E1 E2 E4 E5 E6 E7 E8 E9 E10 E11.
    destruct HR as [HRc Hsh1 Hsh2 Hmp Hst Hrv Hcur Hnxt Hpre Hkeys Hflags].
    constructor; unfold ann_phase in *;
      rewrite <- ?E1, <- ?E2, <- ?E4, <- ?E5, <- ?E6, <- ?E7, <- ?E8, <- ?E9, <- ?E10, <- ?E11; try assumption.
    - eapply Rc_core; [exact E1|exact E11|assumption].
    - intros Hc m Hm'. destruct (Hsh2 Hc m Hm') as [H|H]; [left; exact H|right; exact (Hmip H)].
    - intros Hc Hm'. destruct (Hm Hm'); auto.
  Qed.

  Lemma R_core s s' g : core_ok s s' -> R s g -> R s' g.
  Proof.
    unfold core_ok, core. intros [E Hmip] HR.
    assert (E3 : mp_raa s = mp_raa s') by (injection E; intros; assumption).
    eapply R_mpraa_weaken; [| |exact Hmip|exact HR].
    - injection E; intros; congruence.
    - rewrite E3. auto.
  Qed.

  (** the policy state after signing holder commitment [k] *)
  Definition g_sh (g : pol) (k : Z) : pol :=
    mkPol point (p_vh g) (p_rv g) (p_st g) (p_ann g) (p_rel g) (sh_max (p_sh g) k).
  Definition g_rel (g : pol) (k : Z) : pol :=
    mkPol point (p_vh g) (p_rv g) (p_st g) (p_ann g) k (p_sh g).

  Lemma sh_max_ge o k : exists m, sh_max o k = Some m /\ k <= m /\ (forall m0, o = Some m0 -> m0 <= m).
  Proof.
    destruct o as [m0|]; cbn [sh_max].
    - exists (Z.max m0 k). split; [reflexivity|]. split; [lia|]. intros ? E. injection E as <-. lia.
    - exists k. split; [reflexivity|]. split; [lia|]. discriminate.
  Qed.

  (** the monitor signs [k], a validated unreleased commitment *)
  Lemma chk_sign_holder s g k : Rc s g -> holder_next s + 1 <= k -> k < p_rel g ->
    chk g (SignHolder k) = Some (g_sh g k).
  Proof.
    intros HRc H1 H2. cbn [chk]. pose proof (R_vh _ _ HRc) as Hv.
    replace (p_vh g <=? k) with true by lia. replace (k <? p_rel g) with true by lia. reflexivity.
  Qed.

  (** [mon_sign]: accepted in every state, closed or not *)
  Lemma mon_sign_sim s g fresh : R s g ->
    exists g', chk_all g (snd (mon_sign secret point s fresh)) = Some g' /\ R (fst (mon_sign secret point s fresh)) g'.
  Proof.
    intros HR. pose proof (R_c _ _ HR) as HRc. unfold mon_sign.
    destruct (mon_signed (ext s)) as [k|] eqn:Ems.
    - destruct (R_ms _ _ HRc k Ems) as (Hk1 & Hk2 & m & Em & Hkm).
      destruct fresh; cbn [fst snd chk_all]; [exists g; split; [reflexivity|exact HR]|].
      rewrite (chk_sign_holder s g k HRc Hk1 Hk2). exists (g_sh g k). split; [reflexivity|].
      assert (Esh : sh_max (p_sh g) k = Some m) by (rewrite Em; cbn [sh_max]; f_equal; lia).
      destruct HR as [_ Hsh1 Hsh2 Hmp Hst Hrv Hcur Hnxt Hpre Hkeys Hflags]. constructor; unfold g_sh; sf; try assumption.
      + destruct HRc as [H1 H2 H3 H4]. constructor; sf; try assumption. rewrite Esh, <- Em. assumption.
      + intros Hc En. congruence.
      + rewrite Esh, <- Em. assumption.
    - destruct (fresh || closed s) eqn:Ef; cbn [fst snd chk_all]; [|exists g; split; [reflexivity|exact HR]].
      assert (Hk2 : holder_next s + 1 < p_rel g) by (pose proof (R_rel _ _ HRc); lia).
      rewrite (chk_sign_holder s g (holder_next s + 1) HRc ltac:(lia) Hk2).
      exists (g_sh g (holder_next s + 1)). split; [reflexivity|].
      destruct (sh_max_ge (p_sh g) (holder_next s + 1)) as (m & Esh & Hge & Hold).
      destruct HR as [_ Hsh1 Hsh2 Hmp Hst Hrv Hcur Hnxt Hpre Hkeys Hflags]. constructor; unfold g_sh; sf; try assumption.
      + destruct HRc as [H1 H2 H3 H4]. constructor; sf; try assumption.
        intros k E. injection E as <-. split; [lia|]. split; [lia|]. exists m. split; [exact Esh|exact Hge].
      + intros Hc En. discriminate.
      + intros Hc m' Em'. rewrite Esh in Em'. injection Em' as <-.
        (* nothing was signed before: the fresh signature is of the current commitment *)
        rewrite (Hsh1 Hc Ems) in Esh. cbn [sh_max] in Esh. injection Esh as <-. left. lia.
  Qed.

  (** [close]: whatever was emitted so far, the close (signing the current holder commitment
      unless a claim exists) is accepted *)
  Lemma close_sim s g evs g1 :
    chk_all g evs = Some g1 -> Rc s g1 ->
    exists g', chk_all g (snd (close s evs)) = Some g' /\ R (fst (close s evs)) g'.
  Proof.
    intros Hc HRc. unfold close. cbv zeta.
    destruct (mon_signed (ext s)) as [k|] eqn:Ems.
    - cbn [fst snd]. exists g1. split; [exact Hc|].
      constructor; sf; intros; try discriminate.
      eapply Rc_core; [| |exact HRc]; reflexivity.
    - destruct (chan_ready (hsk s) || negb (wfb (hsk s))); cbn [fst snd].
      + rewrite chk_all_app, Hc. cbn [chk_all].
        assert (Hk2 : holder_next s + 1 < p_rel g1) by (pose proof (R_rel _ _ HRc); lia).
        rewrite (chk_sign_holder s g1 (holder_next s + 1) HRc ltac:(lia) Hk2).
        eexists. split; [reflexivity|].
        destruct (sh_max_ge (p_sh g1) (holder_next s + 1)) as (m & Esh & Hge & Hold).
        constructor; unfold g_sh; sf; intros; try discriminate.
        destruct HRc as [H1 H2 H3 H4]. constructor; sf; try assumption.
        intros k E. injection E as <-. split; [lia|]. split; [lia|]. exists m. split; [exact Esh|exact Hge].
      + exists g1. split; [exact Hc|].
        constructor; sf; intros; try discriminate.
        eapply Rc_core; [| |exact HRc]; reflexivity.
  Qed.

  Lemma restore_sim s g : closed s = false -> mon_signed (ext s) = None -> R s g ->
    exists g', chk_all g (snd (restore s)) = Some g' /\ R (fst (restore s)) g'.
  Proof.
    intros Hc Hun HR. pose proof HR as HR0. destruct HR as [HRc Hsh1 Hsh2 Hmp Hst Hrv Hcur Hnxt Hpre Hkeys Hflags].
    pose proof (Hsh1 Hc Hun) as Hnone.
    unfold restore.
    (* the state after: everything [R] looks at is unchanged except the cleared flags *)
    assert (Hstate : forall g', Rc s g' -> p_sh g' = None -> p_st g' = p_st g -> p_rv g' = p_rv g -> p_ann g' = p_ann g ->
      R (mkSt secret point (holder_next s) (cp_next s) (awaiting_rr s) (disconnected s) false false false
              (raa_first s) (cp_cur_point s) (cp_next_point s) (closed s) (hsk s) (ext s)) g').
    { intros g' HRc' Hn' E1 E2 E3. constructor; unfold ann_phase in *; sf; rewrite ?E1, ?E2, ?E3; try assumption.
      - eapply Rc_core; [| |exact HRc']; reflexivity.
      - intros _ _. exact Hn'.
      - intros _ m Em. congruence.
      - discriminate. }
    destruct (disconnected s).
    - cbn [fst snd chk_all]. exists g. split; [reflexivity|]. apply Hstate; auto.
    - cbn [fst snd].
      destruct (mp_raa s) eqn:Em.
      + (* the revoke_and_ack goes out: Release (holder_next + 2) *)
        specialize (Hmp Hc eq_refl).
        assert (E1 : chk g (Release (holder_next s + 2)) = Some (g_rel g (holder_next s + 2))).
        { cbn [chk]. pose proof (R_vh _ _ HRc) as Hv.
          replace (holder_next s + 2 =? p_vh g + 1) with true by lia.
          replace (holder_next s + 2 <=? INITIAL) with true by lia.
          replace (sh_below (p_sh g) (holder_next s + 2)) with true by (rewrite Hnone; reflexivity). reflexivity. }
        exists (g_rel g (holder_next s + 2)). split.
        * unfold last_raa. cbn [app chk_all]. rewrite E1.
          destruct (mp_cs s); [|reflexivity]. unfold last_cs. cbn [chk_all chk]. unfold g_rel. sf.
          rewrite (Hst Hc). replace (cp_next s =? cp_next s + 2 - 2) with true by lia. reflexivity.
        * apply Hstate; unfold g_rel; sf; auto.
          destruct HRc as [H1 H2 H3 H4]. constructor; sf; try assumption; try lia. intros k E. congruence.
      + exists g. split; [|apply Hstate; auto].
        cbn [app]. destruct (mp_cs s); [|reflexivity]. unfold last_cs. cbn [chk_all chk].
        rewrite (Hst Hc). replace (cp_next s =? cp_next s + 2 - 2) with true by lia. reflexivity.
  Qed.

  Lemma maybe_restore_sim sync s g0 g evs : closed s = false ->
    chk_all g0 evs = Some g -> R s g ->
    exists g', chk_all g0 (snd (maybe_restore sync s evs)) = Some g' /\ R (fst (maybe_restore sync s evs)) g'.
  Proof.
    intros Hc He HR. unfold maybe_restore, mon_locked. destruct sync; cbn [andb].
    - destruct (mon_signed (ext s)) eqn:Ems; cbn [negb].
      + cbn [fst snd]. exists g. split; assumption.
      + destruct (restore_sim s g Hc Ems HR) as (g' & Hg' & HR'). destruct (restore s) as [s' evs'].
        cbn [fst snd] in *. exists g'. split; [|exact HR']. rewrite chk_all_app, He. exact Hg'.
    - cbn [fst snd]. exists g. split; assumption.
  Qed.

  Ltac cl := match goal with HRc : Rc ?s ?g |- _ =>
    apply (close_sim s g [] g); [reflexivity|exact HRc] end.

  Ltac rc HRc := let H1 := fresh in let H2 := fresh in let H3 := fresh in let H4 := fresh in
    destruct HRc as [H1 H2 H3 H4]; constructor; sf; first [assumption|lia|idtac].

  (** the revoke_and_ack (re)transmission [Release (holder_next + 2)] is accepted whenever no
      monitor update is pending *)
  Lemma release_sim s g : R s g -> closed s = false -> mon_in_progress s = false ->
    holder_next s < INITIAL - 1 ->
    chk g (Release (holder_next s + 2)) = Some (g_rel g (holder_next s + 2)) /\
    R s (g_rel g (holder_next s + 2)).
  Proof.
    intros HR Hc Hmip Hlt. destruct HR as [HRc Hsh1 Hsh2 Hmp Hst Hrv Hcur Hnxt Hpre Hkeys Hflags].
    assert (Hbelow : forall m, p_sh g = Some m -> m <= holder_next s + 1).
    { intros m Em. destruct (Hsh2 Hc m Em) as [H|H]; [exact H|congruence]. }
    split.
    - cbn [chk]. pose proof (R_vh _ _ HRc) as Hv.
      replace (holder_next s + 2 =? p_vh g + 1) with true by lia.
      replace (holder_next s + 2 <=? INITIAL) with true by lia.
      replace (sh_below (p_sh g) (holder_next s + 2)) with true; [reflexivity|].
      destruct (p_sh g) as [m|] eqn:Em; cbn [sh_below]; [|reflexivity]. specialize (Hbelow m eq_refl). lia.
    - constructor; unfold g_rel; sf; try assumption.
      destruct HRc as [H1 H2 H3 H4]. constructor; sf; try assumption; try lia.
      intros k Ek. destruct (H4 k Ek) as (Ha & Hb & m & Em & Hkm). specialize (Hbelow m Em).
      split; [exact Ha|]. split; [lia|]. exists m. split; assumption.
  Qed.

  Lemma recv_channel_ready_sim s g p : R s g -> closed s = false ->
    exists g', chk_all g (snd (recv_channel_ready s p)) = Some g' /\ R (fst (recv_channel_ready s p)) g'.
  Proof.
    intros HR0 Hc. pose proof HR0 as HR. destruct HR as [HRc Hsh1 Hsh2 Hmp Hst Hrv Hcur Hnxt Hpre Hkeys Hflags].
    unfold RevokeLog.recv_channel_ready.
    destruct (disconnected s); [cbn [fst snd chk_all]; exists g; split; [reflexivity|]; eapply R_core; [|exact HR0]; core_eq|].
    assert (Hrecon : exists g', chk_all g (snd (if opt_point_eqb point point_eqb
                (if cp_next s =? INITIAL - 1 then cp_next_point s
                 else if cp_next s =? INITIAL - 2 then cp_cur_point s
                 else match sec1 (hsk s) with Some sc => Some (pub sc) | None => None end) p
              then (s, []) else close s [])) = Some g' /\
             R (fst (if opt_point_eqb point point_eqb
                (if cp_next s =? INITIAL - 1 then cp_next_point s
                 else if cp_next s =? INITIAL - 2 then cp_cur_point s
                 else match sec1 (hsk s) with Some sc => Some (pub sc) | None => None end) p
              then (s, []) else close s [])) g').
    { destruct (opt_point_eqb _ _ _ _); [exists g; split; [reflexivity|exact HR0]|cl]. }
    destruct (chan_ready (hsk s)) eqn:Hready; cbn [fst snd]; [exact Hrecon|].
    destruct (their_ready (hsk s)) eqn:Htheir, (our_ready (hsk s)) eqn:Hour; cbn [andb negb fst snd];
      try exact Hrecon.
    + (* THEIR and OUR both set while awaiting: excluded *)
      pose proof (Hflags Hc) as Hf. rewrite ?Hready, ?Hour, ?Htheir in Hf. destruct (Hf eq_refl eq_refl) as [_ Hx]. congruence.
    + (* OUR_CHANNEL_READY only *)
      pose proof (Hflags Hc) as Hf. rewrite ?Hready, ?Hour, ?Htheir in Hf. destruct (Hf eq_refl eq_refl) as [Hw _]. rewrite Hw. cbn [negb fst snd].
      assert (Hph : ann_phase s = false) by (unfold ann_phase; rewrite Hready, Htheir; reflexivity).
      destruct (Hpre Hc Hph) as (Hcn & pn & Epn & Apn).
      assert (Hfresh : existsb (fun kp : Z * point => fst kp =? cp_next s) (p_ann g) = false).
      { destruct (existsb _ (p_ann g)) eqn:E; [|reflexivity]. apply (Hkeys Hc) in E. rewrite Hph in E. lia. }
      cbn [chk_all chk]. rewrite Hfresh. eexists. split; [reflexivity|].
      constructor; [rc HRc|..]; unfold ann_phase; sf; cbn [chan_ready their_ready our_ready wfb orb]; intros; try lia; try discriminate; auto.
      * exists pn. split; [exact Epn|]. apply announced_cons_mono. exact Apn.
      * exists p. split; [reflexivity|]. apply announced_cons_same.
      * unfold has_key in *. cbn [existsb fst] in *. destruct (Z.eqb_spec (cp_next s) k); [lia|]. cbn [orb] in *.
        match goal with H : existsb _ _ = true |- _ => apply (Hkeys Hc) in H; rewrite Hph in H end. lia.
    + (* no flag (or only WAITING_FOR_BATCH): the first channel_ready *)
      assert (Hph : ann_phase s = false) by (unfold ann_phase; rewrite Hready, Htheir; reflexivity).
      destruct (Hpre Hc Hph) as (Hcn & pn & Epn & Apn).
      assert (Hfresh : existsb (fun kp : Z * point => fst kp =? cp_next s) (p_ann g) = false).
      { destruct (existsb _ (p_ann g)) eqn:E; [|reflexivity]. apply (Hkeys Hc) in E. rewrite Hph in E. lia. }
      cbn [chk_all chk]. rewrite Hfresh. eexists. split; [reflexivity|].
      constructor; [rc HRc|..]; unfold ann_phase; sf; cbn [chan_ready their_ready our_ready wfb orb]; intros; try lia; try discriminate; auto.
      * exists pn. split; [exact Epn|]. apply announced_cons_mono. exact Apn.
      * exists p. split; [reflexivity|]. apply announced_cons_same.
      * unfold has_key in *. cbn [existsb fst] in *. destruct (Z.eqb_spec (cp_next s) k); [lia|]. cbn [orb] in *.
        match goal with H : existsb _ _ = true |- _ => apply (Hkeys Hc) in H; rewrite Hph in H end. lia.
  Qed.

  Lemma reest_core_sim s g nl nr sc : R s g -> closed s = false ->
    exists g', chk_all g (snd (reest_core secret point s nl nr sc)) = Some g' /\
               R (fst (reest_core secret point s nl nr sc)) g'.
  Proof.
    intros HR0 Hc. pose proof HR0 as HR. destruct HR as [HRc Hsh1 Hsh2 Hmp Hst Hrv Hcur Hnxt Hpre Hkeys Hflags].
    pose proof (R_vh _ _ HRc) as Hvh. pose proof (R_hn _ _ HRc) as Hhn.
    unfold reest_core. rewrite ?Hc.
    cbv zeta.
    destruct ((nl <? 0) || (nr <? 0)) eqn:Hrange; [exists g; split; [reflexivity|exact HR0]|].
    destruct (negb (disconnected s)); [apply (close_sim s g [] g); [reflexivity|exact HRc]|].
    destruct ((nl =? 0) || (INITIAL <=? nl) || (INITIAL <=? nr)); [apply (close_sim s g [] g); [reflexivity|exact HRc]|].
    destruct ((0 <? nr) && match sc with SecGarbage => true | _ => false end);
      [apply (close_sim s g [] g); [reflexivity|exact HRc]|].
    destruct ((0 <? nr) && (INITIAL - (holder_next s + 1) <? nr)).
    { destruct (match sc with SecMatch => true | _ => false end);
        [|apply (close_sim s g [] g); [reflexivity|exact HRc]].
      cbn [fst snd chk_all]. exists g. split; [reflexivity|].
      constructor; [rc HRc|..]; sf; intros; try discriminate. }
    destruct ((0 <? nr) && ((nr =? INITIAL - (holder_next s + 1)) || (nr + 1 =? INITIAL - (holder_next s + 1)))
              && negb match sc with SecMatch => true | _ => false end);
      [apply (close_sim s g [] g); [reflexivity|exact HRc]|].
    destruct (Z.ltb_spec (nr + 1) (INITIAL - (holder_next s + 1))) as [_|Hnr];
      [exists g; split; [reflexivity|exact HR0]|].
    set (s0 := mkSt secret point (holder_next s) (cp_next s) (awaiting_rr s) false (mon_in_progress s)
                    (mp_raa s) (mp_cs s) (raa_first s) (cp_cur_point s) (cp_next_point s) false (hsk s) (ext s)).
    assert (HR1 : R s0 g) by (eapply R_core; [|exact HR0]; core_eq).
    assert (Hc0 : closed s0 = false) by reflexivity.
    destruct (chan_ready (hsk s)) eqn:Hready; cbn [negb].
    2:{ destruct ((negb (our_ready (hsk s)) || mon_in_progress s) && negb (nr =? 0));
          [apply (close_sim s0 g [] g); [reflexivity|exact (R_c _ _ HR1)]|].
        cbn [fst snd chk_all]. exists g. split; [reflexivity|exact HR1]. }
    (* required_revoke *)
    assert (Hrev : match reest_revoke secret point s0 nr (INITIAL - (holder_next s + 1)) with
                   | None => True
                   | Some (s1, raa_evs) =>
                       closed s1 = false /\ exists g1, chk_all g raa_evs = Some g1 /\ R s1 g1
                   end).
    { unfold reest_revoke.
      destruct (Z.eqb_spec nr (INITIAL - (holder_next s + 1))) as [Enr|Nnr].
      - split; [reflexivity|]. exists g. split; [reflexivity|].
        eapply R_mpraa_weaken; [| | |exact HR1]; sf; [reflexivity|discriminate|auto].
      - destruct (Z.eqb_spec (nr + 1) (INITIAL - (holder_next s + 1))) as [Enr1|_]; [|exact I].
        assert (Hlt : holder_next s < INITIAL - 1) by lia.
        destruct (mon_in_progress s0) eqn:Emip.
        + split; [reflexivity|]. exists g. split; [reflexivity|].
          eapply R_mpraa_weaken; [| | |exact HR1]; sf; [reflexivity|intros _; right; exact Hlt|auto].
        + split; [reflexivity|].
          destruct (release_sim s0 g HR1 eq_refl Emip Hlt) as [Hrel HRrel].
          exists (g_rel g (holder_next s + 2)). split; [|exact HRrel].
          unfold last_raa. cbn [chk_all]. cbn [holder_next s0] in *. rewrite Hrel. reflexivity. }
    destruct (reest_revoke secret point s0 nr (INITIAL - (holder_next s + 1))) as [[s1 raa_evs]|];
      [|apply (close_sim s0 g [] g); [reflexivity|exact (R_c _ _ HR1)]].
    destruct Hrev as (Hc1 & g1 & Hg1 & HRs1).
    (* commitment retransmission *)
    unfold reest_commit.
    match goal with |- context [if ?c then _ else _] => destruct c end.
    { cbn [fst snd]. exists g1. split; [exact Hg1|]. eapply R_core; [|exact HRs1]. core_eq. }
    match goal with |- context [if ?c then _ else _] => destruct c end.
    { destruct (mon_in_progress s1).
      - cbn [fst snd]. exists g1. split; [exact Hg1|]. eapply R_core; [|exact HRs1]. core_eq.
      - cbn [fst snd]. exists g1. split; [|exact HRs1].
        rewrite chk_all_app, Hg1. unfold last_cs. cbn [chk_all chk].
        rewrite (R_st _ _ HRs1 Hc1).
        replace (cp_next s1 =? cp_next s1 + 2 - 2) with true by lia. reflexivity. }
    eapply close_sim; [exact Hg1|exact (R_c _ _ HRs1)].
  Qed.

  Lemma step_sim s g o : R s g ->
    exists g', chk_all g (snd (step s o)) = Some g' /\ R (fst (step s o)) g'.
  Proof.
    intros HR. unfold step. destruct (closed s) eqn:Hc.
    { (* closed: only the monitor signs *)
      destruct o; cbn [fst snd chk_all]; try (exists g; split; [reflexivity|exact HR]);
        apply mon_sign_sim; exact HR. }
    pose proof HR as HR0. destruct HR as [HRc Hsh1 Hsh2 Hmp Hst Hrv Hcur Hnxt Hpre Hkeys Hflags].
    pose proof (R_vh _ _ HRc) as Hvh. pose proof (R_hn _ _ HRc) as Hhn.
    destruct o as [sync|sig_ok nsig nnd htlc_ok need_cs sync|sec np chain_ok commit sync|sync| |p| | | | |nl nr sc| | | | | | | | ].
    - (* OCommit *)
      destruct (can_generate_new_commitment secret point s).
      + apply (maybe_restore_sim sync _ g g []); [exact Hc|reflexivity|].
        eapply R_core; [|exact HR0]. core_eq.
      + exists g. split; [reflexivity|exact HR0].
    - (* ORecvCS *)
      destruct (quiescent (ext s)); [exists g; split; [reflexivity|exact HR0]|].
      destruct (chan_ready (hsk s)) eqn:Hready; cbn [negb]; [|cl].
      destruct (disconnected s); [cl|].
      destruct sig_ok; cbn [negb]; [|cl].
      destruct (Z.eqb_spec nsig nnd) as [Ecnt|_]; cbn [negb]; [|cl].
      destruct htlc_ok; cbn [negb]; [|cl].
      cbv zeta. sf. eapply maybe_restore_sim.
      + destruct (need_cs && negb (awaiting_rr s)); sf; reflexivity.
      + cbn [chk_all chk].
        replace (holder_next s =? p_vh g - 1) with true by lia.
        subst nsig. rewrite Z.eqb_refl. reflexivity.
      + destruct (need_cs && negb (awaiting_rr s)); (constructor; [rc HRc|..]); unfold ann_phase in *; sf; intros; try lia;
          try discriminate; try congruence; auto.
        all: match goal with H4 : forall k, mon_signed _ = Some k -> _, Hk : mon_signed _ = Some ?k |- _ =>
               destruct (H4 k Hk) as (Ha & Hb & Hm) end; (split; [lia|]); split; assumption.
    - (* ORecvRAA *)
      destruct (quiescent (ext s)); [exists g; split; [reflexivity|exact HR0]|].
      destruct (chan_ready (hsk s)) eqn:Hready; cbn [negb]; [|cl].
      destruct (disconnected s); [cl|].
      assert (Hph : ann_phase s = true) by (unfold ann_phase; rewrite Hready; reflexivity).
      destruct (Hcur Hc Hph) as (pc & Epc & Apc). destruct (Hnxt Hc Hph) as (pn & Epn & Apn). rewrite Epc.
      destruct (point_eqb (pub sec) pc) eqn:Epq; cbn [negb]; [|cl].
      apply point_eqb_eq in Epq. subst pc.
      destruct (awaiting_rr s); cbn [negb]; [|cl].
      assert (Evr : chk g (ValidateRevocation (cp_next s + 1)) =
                    Some (mkPol point (p_vh g) (cp_next s + 1) (p_st g) (p_ann g) (p_rel g) (p_sh g))).
      { cbn [chk]. rewrite (Hrv Hc), (Hst Hc).
        replace (cp_next s + 1 =? cp_next s + 2 - 1) with true by lia. rewrite Z.eqb_refl. reflexivity. }
      assert (Hfresh : existsb (fun kp : Z * point => fst kp =? cp_next s - 1) (p_ann g) = false).
      { destruct (existsb _ (p_ann g)) eqn:E; [|reflexivity].
        apply (Hkeys Hc) in E. rewrite Hph in E. lia. }
      destruct chain_ok; cbn [negb].
      + cbv zeta. sf. eapply maybe_restore_sim.
        * destruct commit; sf; reflexivity.
        * cbn [chk_all app]. rewrite Evr. cbn [chk p_rv p_st p_ann p_vh p_rel p_sh].
          rewrite Z.eqb_refl, (Hst Hc). replace (cp_next s + 2 =? cp_next s + 1 + 1) with true by lia.
          rewrite Apc. cbn [andb]. cbn [chk_all chk p_rv p_st p_ann p_vh p_rel p_sh]. rewrite Hfresh. reflexivity.
        * set (h' := if cp_next s + 1 =? INITIAL - 1
                     then mkHs secret point true (our_ready (hsk s)) (their_ready (hsk s)) (wfb (hsk s)) (Some sec) (pending_ready (hsk s))
                     else hsk s).
          assert (Hr' : chan_ready h' = true) by (unfold h'; destruct (cp_next s + 1 =? INITIAL - 1); [reflexivity|exact Hready]).
          assert (HRn : R (mkSt secret point (holder_next s) (cp_next s - 1) false false (mon_in_progress s)
                                (mp_raa s) (mp_cs s) (raa_first s) (cp_next_point s) (Some np) false h' (ext s))
                          (mkPol point (p_vh g) (cp_next s + 1) (cp_next s + 1)
                                 ((cp_next s - 1, np) :: p_ann g) (p_rel g) (p_sh g))).
          { constructor; [rc HRc|..]; unfold ann_phase; sf; rewrite ?Hr'; cbn [orb]; intros; try lia; try discriminate; try congruence; auto.
            - exists pn. split; [exact Epn|]. apply announced_cons_mono.
              replace (cp_next s - 1 + 1) with (cp_next s) by lia. exact Apn.
            - exists np. split; [reflexivity|]. apply announced_cons_same.
            - unfold has_key in *. cbn [existsb fst] in *.
              destruct (Z.eqb_spec (cp_next s - 1) k); [lia|]. cbn [orb] in *.
              match goal with H : existsb _ _ = true |- _ => apply (Hkeys Hc) in H; rewrite Hph in H end. lia. }
          eapply R_core; [|exact HRn]. subst h'. destruct commit; core_eq.
      + eapply close_sim; [cbn [chk_all]; rewrite Evr; reflexivity|]. rc HRc.
    - (* OMonUpdate *)
      apply (maybe_restore_sim sync _ g g []); [exact Hc|reflexivity|].
      eapply R_core; [|exact HR0]. core_eq.
    - (* OMonitorDone *)
      unfold mon_locked. destruct (mon_in_progress s); cbn [andb]; [|exists g; split; [reflexivity|exact HR0]].
      destruct (mon_signed (ext s)) eqn:Ems; cbn [negb]; [exists g; split; [reflexivity|exact HR0]|].
      apply restore_sim; assumption.
    - (* ORecvChannelReady *)
      apply recv_channel_ready_sim; assumption.
    - (* OOurChannelReady *)
      cbv zeta. destruct (chan_ready (hsk s)) eqn:Hready; [exists g; split; [reflexivity|exact HR0]|].
      destruct (our_ready (hsk s)) eqn:Hour, (their_ready (hsk s)) eqn:Htheir, (wfb (hsk s)) eqn:Hw;
        cbn [andb negb fst snd chk_all]; try (exists g; split; [reflexivity|exact HR0]);
        (exists g; split; [reflexivity|]);
        (constructor; [rc HRc|..]); unfold ann_phase in *; sf; rewrite ?Hready, ?Htheir, ?Hour in *;
        cbn [chan_ready their_ready our_ready wfb orb] in *; intros; try lia; try discriminate; auto.
    - (* OBatchReady *)
      cbv zeta. cbn [fst snd chk_all]. exists g. split; [reflexivity|].
      constructor; [rc HRc|..]; unfold ann_phase in *; sf; cbn [chan_ready their_ready our_ready wfb] in *; intros; try lia;
        try discriminate; auto.
      destruct (Hflags Hc ltac:(assumption) ltac:(assumption)). auto.
    - (* ODisconnect *)
      cbn [fst snd chk_all]. exists g. split; [reflexivity|]. eapply R_core; [|exact HR0]. core_eq.
    - (* OReload *)
      cbn [fst snd chk_all]. exists g. split; [reflexivity|]. eapply R_core; [|exact HR0]. core_eq.
    - (* ORecvReest *)
      unfold RevokeLog.reest_with_replay.
      destruct (reest_core_sim s g nl nr sc HR0 Hc) as (g1 & Hg1 & HR1).
      destruct (reest_core secret point s nl nr sc) as [s1 evs1]. cbn [fst snd] in *.
      destruct (closed s1) eqn:Hc1; cbn [orb]; [exists g1; split; assumption|].
      destruct (disconnected s1); [exists g1; split; assumption|].
      destruct (pending_ready (hsk s1)) as [pp|]; [|exists g1; split; assumption].
      set (s1' := set_hs secret point s1 _).
      assert (HR1' : R s1' g1) by (eapply R_core; [|exact HR1]; unfold s1'; core_eq).
      destruct (recv_channel_ready_sim s1' g1 pp HR1' Hc1) as (g2 & Hg2 & HR2).
      destruct (recv_channel_ready s1' pp) as [s2 evs2]. cbn [fst snd] in *.
      exists g2. split; [rewrite chk_all_app, Hg1; exact Hg2|exact HR2].
    - (* OForceClose *)
      cl.
    - (* OChainClose *)
      cbn [fst snd chk_all]. exists g. split; [reflexivity|].
      constructor; [rc HRc|..]; sf; intros; try discriminate.
    - (* OResign *)
      apply mon_sign_sim; exact HR0.
    - (* OMonBroadcast *)
      apply mon_sign_sim; exact HR0.
    - (* OProcessEvents *)
      destruct (mon_locked secret point s); cbn [fst snd chk_all]; (exists g; split; [reflexivity|]); [|exact HR0].
      constructor; [rc HRc|..]; sf; intros; try discriminate.
    - (* OStfuSent *)
      destruct (chan_ready (hsk s)); cbn [fst snd chk_all]; (exists g; split; [reflexivity|]); [|exact HR0].
      eapply R_core; [|exact HR0]. core_eq.
    - (* OQuiescent *)
      destruct (chan_ready (hsk s)); cbn [fst snd chk_all]; (exists g; split; [reflexivity|]); [|exact HR0].
      eapply R_core; [|exact HR0]. core_eq.
    - (* OExitQuiescence *)
      cbn [fst snd chk_all]. exists g. split; [reflexivity|]. eapply R_core; [|exact HR0]. core_eq.
  Qed.

  (** every run, from the initial state, is accepted *)
  Lemma run_sim : forall ops s log g,
    chk_all (pol_init point) log = Some g -> R s g ->
    exists g', chk_all (pol_init point) (snd (run s log ops)) = Some g' /\ R (fst (run s log ops)) g'.
  Proof.
    induction ops as [|o ops IH]; intros s log g Hl HR; cbn [RevokeLog.run].
    - exists g. split; assumption.
    - destruct (step_sim s g o HR) as (g1 & Hg1 & HR1).
      destruct (step s o) as [s' evs]. cbn [fst snd] in *.
      apply (IH s' (log ++ evs) g1); [|exact HR1]. rewrite chk_all_app, Hl. exact Hg1.
  Qed.

  Theorem policy_holds batch p0 ops :
    exists g, chk_all (pol_init point)
                (snd (run (init secret point batch p0) (init_log secret point p0) ops)) = Some g.
  Proof.
    destruct (R_init batch p0) as (g0 & Hg0 & HR0).
    destruct (run_sim ops _ _ g0 Hg0 HR0) as (g & Hg & _). exists g. exact Hg.
  Qed.

  (* ---------------------------------------------------------------------------------------- *)
  (** * Part B: what acceptance by [chk_all] means *)

  Definition is_sign_holder (e : ev) : bool := match e with SignHolder _ => true | _ => false end.
  Definition is_vh (e : ev) : bool := match e with ValidateHolder _ _ _ => true | _ => false end.
  Definition is_store (e : ev) : bool := match e with StoreSecret _ _ => true | _ => false end.
  Definition is_vr (e : ev) : bool := match e with ValidateRevocation _ => true | _ => false end.
  Definition count (f : ev -> bool) (l : list ev) : Z := Z.of_nat (List.length (filter f l)).

  Lemma count_cons f e l : count f (e :: l) = (if f e then 1 else 0) + count f l.
  Proof. unfold count. cbn [filter]. destruct (f e); cbn [List.length]; lia. Qed.
  Lemma count_nil f : count f [] = 0.
  Proof. reflexivity. Qed.

  (** inversion of one step of the checker *)
  Lemma chk_inv g e g2 : chk g e = Some g2 ->
    match e with
    | SignHolder k => p_vh g <= k /\ k < p_rel g /\ g2 = g_sh g k
    | ValidateHolder k nsig nnd => k = p_vh g - 1 /\ nsig = nnd /\
                          g2 = mkPol point k (p_rv g) (p_st g) (p_ann g) (p_rel g) (p_sh g)
    | Release k => k = p_vh g + 1 /\ k <= INITIAL /\ sh_below (p_sh g) k = true /\ g2 = g_rel g k
    | SignCounterparty k => k = p_st g - 2 /\ g2 = g
    | ValidateRevocation k => k = p_rv g - 1 /\ p_st g = p_rv g /\
                              g2 = mkPol point (p_vh g) k (p_st g) (p_ann g) (p_rel g) (p_sh g)
    | StoreSecret k sec => k = p_rv g /\ p_st g = k + 1 /\
                           announced (p_ann g) k (pub sec) = true /\
                           g2 = mkPol point (p_vh g) (p_rv g) k (p_ann g) (p_rel g) (p_sh g)
    | Announce k p => has_key (p_ann g) k = false /\
                      g2 = mkPol point (p_vh g) (p_rv g) (p_st g) ((k, p) :: p_ann g) (p_rel g) (p_sh g)
    end.
  Proof.
    destruct e; cbn [RevokeLog.chk];
      repeat match goal with
             | |- context [if ?c then _ else _] => destruct c eqn:?
             end; try discriminate; intros E; injection E as <-;
      repeat match goal with
             | H : _ && _ = true |- _ => apply andb_true_iff in H; destruct H
             end; repeat split; try lia; try reflexivity; try assumption.
  Qed.

  Lemma chk_all_split g pre e post g' : chk_all g (pre ++ e :: post) = Some g' ->
    exists g1 g2, chk_all g pre = Some g1 /\ chk g1 e = Some g2 /\ chk_all g2 post = Some g'.
  Proof.
    rewrite chk_all_app. destruct (chk_all g pre) as [g1|]; [|discriminate]. cbn [RevokeLog.chk_all].
    destruct (chk g1 e) as [g2|] eqn:E; [|discriminate]. intros H. exists g1, g2. auto.
  Qed.

  (** the summary fields as functions of the log *)
  Lemma chk_all_counts : forall l g g', chk_all g l = Some g' ->
    p_vh g' = p_vh g - count is_vh l /\
    p_st g' = p_st g - count is_store l /\
    p_rv g' = p_rv g - count is_vr l.
  Proof.
    induction l as [|e l IH]; intros g g' Hc; cbn [RevokeLog.chk_all] in Hc.
    - injection Hc as <-. rewrite !count_nil. lia.
    - destruct (chk g e) as [g1|] eqn:E; [|discriminate]. specialize (IH g1 g' Hc).
      apply chk_inv in E. rewrite !count_cons.
      destruct e; cbn [is_vh is_store is_vr]; unfold g_sh, g_rel in *; intuition (subst; sf; lia).
  Qed.

  (** released numbers only go down: every number released in a log is at least the final [p_rel] *)
  Lemma rel_mono : forall l g g', chk_all g l = Some g' -> p_vh g + 1 <= p_rel g ->
    p_vh g' + 1 <= p_rel g' /\ p_rel g' <= p_rel g /\ forall j, In (Release j) l -> p_rel g' <= j.
  Proof.
    induction l as [|e l IH]; intros g g' Hc HI; cbn [RevokeLog.chk_all] in Hc.
    - injection Hc as <-. split; [exact HI|]. split; [lia|]. intros j [].
    - destruct (chk g e) as [g1|] eqn:E; [|discriminate]. apply chk_inv in E.
      assert (H1 : p_vh g1 + 1 <= p_rel g1 /\ p_rel g1 <= p_rel g /\ (forall j, e = Release j -> p_rel g1 = j)).
      { destruct e; unfold g_sh, g_rel in *; intuition (subst; sf; try lia; try congruence).
        all: match goal with H : _ = Release _ |- _ => injection H as <-; reflexivity end. }
      destruct H1 as (HI1 & Hle & Hrel). destruct (IH g1 g' Hc HI1) as (HI' & Hle' & Hin').
      split; [exact HI'|]. split; [lia|]. intros j [->|Hin]; [rewrite <- (Hrel j eq_refl); exact Hle'|exact (Hin' j Hin)].
  Qed.

  (** the highest number signed for broadcast is remembered *)
  Lemma sh_mono : forall l g g', chk_all g l = Some g' ->
    (forall m, p_sh g = Some m -> exists m', p_sh g' = Some m' /\ m <= m') /\
    (forall k, In (SignHolder k) l -> exists m', p_sh g' = Some m' /\ k <= m').
  Proof.
    induction l as [|e l IH]; intros g g' Hc; cbn [RevokeLog.chk_all] in Hc.
    - injection Hc as <-. split; [intros m Em; exists m; split; [exact Em|lia]|intros k []].
    - destruct (chk g e) as [g1|] eqn:E; [|discriminate]. apply chk_inv in E.
      destruct (IH g1 g' Hc) as (Hold & Hnew).
      assert (H1 : (forall m, p_sh g = Some m -> exists m', p_sh g1 = Some m' /\ m <= m') /\
                   (forall k, e = SignHolder k -> exists m', p_sh g1 = Some m' /\ k <= m')).
      { destruct e; unfold g_sh, g_rel in *.
        4:{ destruct E as (_ & _ & ->). sf. destruct (sh_max_ge (p_sh g) k) as (m' & Em' & Hk & Hall).
            split; [intros m Em; exists m'; split; [exact Em'|exact (Hall m Em)]|].
            intros k' Ek. injection Ek as <-. exists m'. split; assumption. }
        all: split; [|discriminate]; intros m Em; exists m; split; [|lia]; intuition (subst; sf; assumption). }
      destruct H1 as (H1a & H1b). split.
      + intros m Em. destruct (H1a m Em) as (m1 & Em1 & Hle1). destruct (Hold m1 Em1) as (m' & Em' & Hle').
        exists m'. split; [exact Em'|lia].
      + intros k [->|Hin]; [|exact (Hnew k Hin)].
        destruct (H1b k eq_refl) as (m1 & Em1 & Hle1). destruct (Hold m1 Em1) as (m' & Em' & Hle').
        exists m'. split; [exact Em'|lia].
  Qed.

  (** every number between the final and the initial [p_vh] was validated, fully signed, in this log *)
  Lemma vh_all_witness : forall l g g', chk_all g l = Some g' ->
    forall j, p_vh g' <= j < p_vh g -> exists n, In (ValidateHolder j n n) l.
  Proof.
    induction l as [|e l IH]; intros g g' Hc j Hj; cbn [RevokeLog.chk_all] in Hc.
    - injection Hc as <-. lia.
    - destruct (chk g e) as [g1|] eqn:E; [|discriminate]. apply chk_inv in E.
      destruct e; try (assert (Evh : p_vh g1 = p_vh g) by (unfold g_sh, g_rel in *; intuition (subst; reflexivity));
                       destruct (IH _ _ Hc j ltac:(lia)) as (n & Hin); exists n; right; exact Hin).
      destruct E as (Ek & En & ->).
      destruct (Z.eq_dec j k) as [->|Hne].
      + exists nnd. left. subst nsig. reflexivity.
      + destruct (IH _ _ Hc j ltac:(sf; lia)) as (n & Hin). exists n. right. exact Hin.
  Qed.

  (** the latest validated number was validated in this log, unless it was validated before *)
  Lemma vh_witness : forall l g g', chk_all g l = Some g' ->
    p_vh g' = p_vh g \/ exists n, In (ValidateHolder (p_vh g') n n) l.
  Proof.
    induction l as [|e l IH]; intros g g' Hc; cbn [RevokeLog.chk_all] in Hc.
    - injection Hc as <-. left. reflexivity.
    - destruct (chk g e) as [g1|] eqn:E; [|discriminate].
      destruct (IH _ _ Hc) as [Heq|(n & Hin)]; [|right; exists n; right; exact Hin].
      apply chk_inv in E. destruct e; try (left; rewrite Heq; unfold g_sh, g_rel in *; intuition (subst; reflexivity)).
      right. destruct E as (-> & -> & ->). exists nnd. left. rewrite Heq. reflexivity.
  Qed.

  Lemma rv_witness : forall l g g', chk_all g l = Some g' ->
    p_rv g' = p_rv g \/ In (ValidateRevocation (p_rv g')) l.
  Proof.
    induction l as [|e l IH]; intros g g' Hc; cbn [RevokeLog.chk_all] in Hc.
    - injection Hc as <-. left. reflexivity.
    - destruct (chk g e) as [g1|] eqn:E; [|discriminate].
      destruct (IH _ _ Hc) as [Heq|Hin]; [|right; right; exact Hin].
      apply chk_inv in E. destruct e; try (left; rewrite Heq; unfold g_sh, g_rel in *; intuition (subst; reflexivity)).
      right. left. rewrite Heq. destruct E as (-> & _ & ->). reflexivity.
  Qed.

  (** every number between the final and the initial [p_st] was stored in this log *)
  Lemma store_witness : forall l g g', chk_all g l = Some g' ->
    forall j, p_st g' <= j < p_st g -> exists sec, In (StoreSecret j sec) l.
  Proof.
    induction l as [|e l IH]; intros g g' Hc j Hj; cbn [RevokeLog.chk_all] in Hc.
    - injection Hc as <-. lia.
    - destruct (chk g e) as [g1|] eqn:E; [|discriminate]. apply chk_inv in E.
      destruct e; try (assert (Est : p_st g1 = p_st g) by (unfold g_sh, g_rel in *; intuition (subst; reflexivity));
                       destruct (IH _ _ Hc j ltac:(lia)) as (sec & Hin); exists sec; right; exact Hin).
      destruct E as (Ek & Est & _ & ->).
      destruct (Z.eq_dec j k) as [->|Hne].
      + exists s. left. reflexivity.
      + destruct (IH _ _ Hc j ltac:(sf; lia)) as (sec & Hin). exists sec. right. exact Hin.
  Qed.

  (** every announced pair known at the end was known at the start or announced in this log *)
  Lemma ann_witness : forall l g g', chk_all g l = Some g' ->
    forall kp, In kp (p_ann g') -> In kp (p_ann g) \/ In (Announce (fst kp) (snd kp)) l.
  Proof.
    induction l as [|e l IH]; intros g g' Hc kp Hin; cbn [RevokeLog.chk_all] in Hc.
    - injection Hc as <-. left. exact Hin.
    - destruct (chk g e) as [g1|] eqn:E; [|discriminate]. apply chk_inv in E.
      destruct (IH _ _ Hc kp Hin) as [Hg1|Hl]; [|right; right; exact Hl].
      destruct e; try (left; unfold g_sh, g_rel in *; intuition (subst; exact Hg1)).
      destruct E as (_ & ->). cbn [p_ann] in Hg1. destruct Hg1 as [<-|Hg]; [right; left; reflexivity|left; exact Hg].
  Qed.

  (** announcements are recorded and never forgotten *)
  Lemma ann_mono : forall l g g', chk_all g l = Some g' -> forall kp, In kp (p_ann g) -> In kp (p_ann g').
  Proof.
    induction l as [|e l IH]; intros g g' Hc kp Hin; cbn [RevokeLog.chk_all] in Hc.
    - injection Hc as <-. exact Hin.
    - destruct (chk g e) as [g1|] eqn:E; [|discriminate]. apply chk_inv in E.
      apply (IH _ _ Hc). destruct e; try (unfold g_sh, g_rel in *; intuition (subst; exact Hin)).
      destruct E as (_ & ->). right. exact Hin.
  Qed.

  Lemma ann_recorded : forall l g g' k p, chk_all g l = Some g' -> In (Announce k p) l -> In (k, p) (p_ann g').
  Proof.
    induction l as [|e l IH]; intros g g' k p Hc Hin; [destruct Hin|]. cbn [RevokeLog.chk_all] in Hc.
    destruct (chk g e) as [g1|] eqn:E; [|discriminate]. destruct Hin as [->|Hin]; [|apply (IH _ _ _ _ Hc Hin)].
    apply chk_inv in E. destruct E as (_ & ->). apply (ann_mono _ _ _ Hc). left. reflexivity.
  Qed.

  Lemma announced_In a k p : announced a k p = true -> In (k, p) a.
  Proof.
    unfold RevokeLog.announced. intros H. apply existsb_exists in H. destruct H as ([k' p'] & Hin & Hc).
    cbn [fst snd] in Hc. apply andb_true_iff in Hc. destruct Hc as [Hk Hp].
    apply Z.eqb_eq in Hk. apply point_eqb_eq in Hp. subst. exact Hin.
  Qed.

  (** ** The property, read off an accepted log *)
  Section Accepted.
    Variable log : list ev.
    Variable gfin : pol.
    Hypothesis Hacc : chk_all (pol_init point) log = Some gfin.

    Lemma init_inv : p_vh (pol_init point) + 1 <= p_rel (pol_init point).
    Proof. cbn [pol_init p_vh p_rel]. lia. Qed.

    Lemma acc_release pre k post : log = pre ++ Release k :: post ->
      (exists n, In (ValidateHolder (k - 1) n n) pre) /\
      (forall k', In (SignHolder k') pre -> k' < k) /\
      (forall k', In (SignHolder k') post -> k' < k) /\
      k = INITIAL + 1 - count is_vh pre.
    Proof.
      intros ->. destruct (chk_all_split _ _ _ _ _ Hacc) as (g1 & g2 & Hpre & He & Hpost).
      apply chk_inv in He. destruct He as (Hk & Hle & Hbelow & ->).
      destruct (chk_all_counts _ _ _ Hpre) as (Hv & _ & _). cbn [pol_init p_vh] in Hv.
      destruct (rel_mono _ _ _ Hpre init_inv) as (HI1 & _ & _).
      split; [|split; [|split]].
      - destruct (vh_witness _ _ _ Hpre) as [Heq|Hin]; [cbn [pol_init p_vh] in Heq; lia|].
        replace (k - 1) with (p_vh g1) by lia. exact Hin.
      - intros k' Hin. destruct (proj2 (sh_mono _ _ _ Hpre) k' Hin) as (m & Em & Hkm).
        rewrite Em in Hbelow. cbn [sh_below] in Hbelow. lia.
      - intros k' Hin. apply in_split in Hin. destruct Hin as (l1 & l2 & ->).
        destruct (chk_all_split _ _ _ _ _ Hpost) as (h1 & h2 & Hl1 & Hs & Hl2).
        apply chk_inv in Hs. destruct Hs as (_ & Hlt & _).
        assert (HI2 : p_vh (g_rel g1 k) + 1 <= p_rel (g_rel g1 k)) by (unfold g_rel; sf; lia).
        destruct (rel_mono _ _ _ Hl1 HI2) as (_ & Hle' & _). unfold g_rel in Hle'. sf. lia.
      - lia.
    Qed.

    Lemma acc_sign_holder pre k post : log = pre ++ SignHolder k :: post ->
      INITIAL - count is_vh pre <= k <= INITIAL /\
      (k = INITIAL \/ exists n, In (ValidateHolder k n n) pre) /\
      (forall j, In (Release j) pre -> k < j) /\
      (forall j, In (Release j) post -> k < j).
    Proof.
      intros ->. destruct (chk_all_split _ _ _ _ _ Hacc) as (g1 & g2 & Hpre & He & Hpost).
      apply chk_inv in He. destruct He as (Hk1 & Hk2 & ->).
      destruct (chk_all_counts _ _ _ Hpre) as (Hv & _ & _). cbn [pol_init p_vh] in Hv.
      destruct (rel_mono _ _ _ Hpre init_inv) as (_ & Hrel & Hrels). cbn [pol_init p_rel] in Hrel.
      split; [lia|]. split; [|split].
      - destruct (Z.eq_dec k INITIAL) as [->|Hne]; [left; reflexivity|right].
        apply (vh_all_witness _ _ _ Hpre). cbn [pol_init p_vh]. lia.
      - intros j Hin. specialize (Hrels j Hin). lia.
      - intros j Hin. apply in_split in Hin. destruct Hin as (l1 & l2 & ->).
        destruct (chk_all_split _ _ _ _ _ Hpost) as (h1 & h2 & Hl1 & Hr & Hl2).
        apply chk_inv in Hr. destruct Hr as (_ & _ & Hbelow & _).
        destruct (sh_max_ge (p_sh g1) k) as (m & Em & Hkm & _).
        destruct (proj1 (sh_mono _ _ _ Hl1) m) as (m' & Em' & Hmm'); [unfold g_sh; sf; exact Em|].
        rewrite Em' in Hbelow. cbn [sh_below] in Hbelow. lia.
    Qed.

    Lemma acc_sign_counterparty pre k post : log = pre ++ SignCounterparty k :: post ->
      (forall j, k + 2 <= j <= INITIAL -> exists sec, In (StoreSecret j sec) pre) /\
      k = INITIAL - 1 - count is_store pre.
    Proof.
      intros ->. destruct (chk_all_split _ _ _ _ _ Hacc) as (g1 & g2 & Hpre & He & Hpost).
      apply chk_inv in He. destruct He as (Hk & ->).
      destruct (chk_all_counts _ _ _ Hpre) as (_ & Hst & _). cbn [pol_init p_st] in Hst.
      split; [|lia]. intros j Hj. apply (store_witness _ _ _ Hpre). cbn [pol_init p_st]. lia.
    Qed.

    Lemma acc_validate_holder pre k nsig nnd post : log = pre ++ ValidateHolder k nsig nnd :: post ->
      k = INITIAL - 1 - count is_vh pre /\ nsig = nnd.
    Proof.
      intros ->. destruct (chk_all_split _ _ _ _ _ Hacc) as (g1 & g2 & Hpre & He & Hpost).
      apply chk_inv in He. destruct He as (Hk & Hn & ->).
      destruct (chk_all_counts _ _ _ Hpre) as (Hv & _ & _). cbn [pol_init p_vh] in Hv. split; [lia|exact Hn].
    Qed.

    Lemma acc_validate_revocation pre k post : log = pre ++ ValidateRevocation k :: post ->
      k = INITIAL - count is_vr pre /\ count is_store pre = count is_vr pre.
    Proof.
      intros ->. destruct (chk_all_split _ _ _ _ _ Hacc) as (g1 & g2 & Hpre & He & Hpost).
      apply chk_inv in He. destruct He as (Hk & Heq & ->).
      destruct (chk_all_counts _ _ _ Hpre) as (_ & Hst & Hrv). cbn [pol_init p_st p_rv] in *. lia.
    Qed.

    Lemma acc_announce pre k p post : log = pre ++ Announce k p :: post ->
      forall p', ~ In (Announce k p') pre.
    Proof.
      intros -> p' Hin. destruct (chk_all_split _ _ _ _ _ Hacc) as (g1 & g2 & Hpre & He & Hpost).
      apply chk_inv in He. destruct He as (Hfresh & _).
      pose proof (ann_recorded _ _ _ _ _ Hpre Hin) as Hrec.
      unfold has_key in Hfresh. assert (Ht : existsb (fun kp : Z * point => fst kp =? k) (p_ann g1) = true).
      { apply existsb_exists. exists (k, p'). split; [exact Hrec|]. apply Z.eqb_refl. }
      congruence.
    Qed.

    Lemma acc_store pre k sec post : log = pre ++ StoreSecret k sec :: post ->
      In (Announce k (pub sec)) pre /\
      In (ValidateRevocation k) pre /\
      k = INITIAL - count is_store pre.
    Proof.
      intros ->. destruct (chk_all_split _ _ _ _ _ Hacc) as (g1 & g2 & Hpre & He & Hpost).
      apply chk_inv in He. destruct He as (Hk & Hst & Hann & ->).
      destruct (chk_all_counts _ _ _ Hpre) as (_ & Hst' & Hrv'). cbn [pol_init p_st p_rv] in *.
      split; [|split; [|lia]].
      - apply announced_In in Hann.
        destruct (ann_witness _ _ _ Hpre _ Hann) as [Hin|Hin]; [destruct Hin|exact Hin].
      - destruct (rv_witness _ _ _ Hpre) as [Heq|Hin]; [|rewrite Hk; exact Hin].
        assert (0 <= count is_store pre) by (unfold count; lia).
        cbn [pol_init p_rv] in Heq. lia.
    Qed.
  End Accepted.

  (* ---------------------------------------------------------------------------------------- *)
  (** * The reestablish decision table: the channel resumes only from {ours, ours - 1} *)

  Lemma close_closed s evs : closed (fst (close s evs)) = true.
  Proof.
    unfold close. destruct (mon_signed (ext s)); [reflexivity|].
    destruct (chan_ready (hsk s) || negb (wfb (hsk s))); reflexivity.
  Qed.

  Lemma close_facts s evs :
    cp_cur_point (fst (close s evs)) = cp_cur_point s /\ cp_next_point (fst (close s evs)) = cp_next_point s /\
    hsk (fst (close s evs)) = hsk s /\ (forall k q, ~ In (Announce k q) evs -> ~ In (Announce k q) (snd (close s evs))).
  Proof.
    unfold close. destruct (mon_signed (ext s)); [cbn [fst snd]; sf; auto|].
    destruct (chan_ready (hsk s) || negb (wfb (hsk s))); cbn [fst snd]; sf; repeat split; auto.
    intros k q Hn Hin. apply in_app_or in Hin. destruct Hin as [Hin|[Hin|[]]]; [exact (Hn Hin)|discriminate Hin].
  Qed.

  Lemma reest_resumes_only_adjacent s nl nr sc :
    closed s = false -> disconnected s = true -> chan_ready (hsk s) = true ->
    let s' := fst (reest_core secret point s nl nr sc) in
    let evs := snd (reest_core secret point s nl nr sc) in
    let our := INITIAL - (holder_next s + 1) in
    let ncp := INITIAL - cp_next s + (if awaiting_rr s then 1 else 0) in
    closed s' = false -> disconnected s' = false ->
    (nr = our \/ nr + 1 = our) /\ (nl = ncp \/ nl = ncp - 1) /\
    (nr = 0 \/ sc = SecMatch) /\
    holder_next s' = holder_next s /\ cp_next s' = cp_next s /\ awaiting_rr s' = awaiting_rr s /\
    (forall e, In e evs -> (e = Release (holder_next s + 2) /\ nr + 1 = our) \/
                           (e = SignCounterparty (cp_next s) /\ nl = ncp - 1)).
  Proof.
    intros Hc Hd Hready. cbv zeta. unfold reest_core. rewrite Hd. cbn [negb].
    destruct ((nl <? 0) || (nr <? 0)) eqn:Hrange; [cbn [fst snd]; congruence|].
    destruct ((nl =? 0) || (INITIAL <=? nl) || (INITIAL <=? nr)); [rewrite ?close_closed; cbn [fst snd closed]; discriminate|].
    destruct ((0 <? nr) && match sc with SecGarbage => true | _ => false end) eqn:Hg;
      [rewrite ?close_closed; cbn [fst snd closed]; discriminate|].
    destruct ((0 <? nr) && (INITIAL - (holder_next s + 1) <? nr)) eqn:Hbehind.
    { destruct sc; rewrite ?close_closed; cbn [fst snd closed]; discriminate. }
    destruct ((0 <? nr) && ((nr =? INITIAL - (holder_next s + 1)) || (nr + 1 =? INITIAL - (holder_next s + 1)))
              && negb match sc with SecMatch => true | _ => false end) eqn:Hsec;
      [rewrite ?close_closed; cbn [fst snd closed]; discriminate|].
    destruct (Z.ltb_spec (nr + 1) (INITIAL - (holder_next s + 1))) as [_|Hnr]; [cbn [fst snd]; congruence|].
    rewrite Hready. cbn [negb]. unfold reest_revoke. sf.
    assert (Hsc : nr = 0 \/ sc = SecMatch).
    { destruct (Z.eq_dec nr 0); [left; assumption|right].
      destruct sc; try reflexivity; exfalso.
      - replace (0 <? nr) with true in Hg by lia. discriminate.
      - replace (0 <? nr) with true in Hbehind, Hsec by lia. cbn [negb andb] in *.
        rewrite andb_true_r in Hsec. lia. }
    destruct (Z.eqb_spec nr (INITIAL - (holder_next s + 1))) as [Enr|Nnr].
    - unfold reest_commit. sf.
      destruct (Z.eqb_spec nl (INITIAL - cp_next s + (if awaiting_rr s then 1 else 0))) as [Enl|Nnl].
      + cbn [fst snd]. sf. intros _ _. repeat split; auto. intros e [].
      + destruct (Z.eqb_spec nl (INITIAL - cp_next s + (if awaiting_rr s then 1 else 0) - 1)) as [Enl1|_];
          [|rewrite ?close_closed; cbn [fst snd closed]; discriminate].
        destruct (mon_in_progress s); cbn [fst snd app]; sf; intros _ _; repeat split; auto.
        * intros e [].
        * unfold last_cs. sf. intros e [<-|[]]. right. split; [reflexivity|exact Enl1].
    - destruct (Z.eqb_spec (nr + 1) (INITIAL - (holder_next s + 1))) as [Enr1|_];
        [|rewrite ?close_closed; cbn [fst snd closed]; discriminate].
      destruct (mon_in_progress s) eqn:Em; unfold reest_commit; sf;
        destruct (Z.eqb_spec nl (INITIAL - cp_next s + (if awaiting_rr s then 1 else 0))) as [Enl|Nnl];
        try (destruct (Z.eqb_spec nl (INITIAL - cp_next s + (if awaiting_rr s then 1 else 0) - 1)) as [Enl1|_];
             [|rewrite ?close_closed; cbn [fst snd closed]; discriminate]);
        rewrite ?Em; cbn [fst snd app]; sf; intros _ _; repeat split; auto; unfold last_raa, last_cs; sf.
      + intros e [].
      + intros e [].
      + intros e [<-|[]]. left. split; [reflexivity|exact Enr1].
      + intros e [<-|[<-|[]]]; [left|right]; split; auto.
  Qed.

  (** * A re-sent channel_ready never replaces the peer's points, in ANY funding-flag state

      Once the peer's channel_ready has been taken into account (the channel is [ChannelReady], or it
      is [AwaitingChannelReady] with [THEIR_CHANNEL_READY] and without [OUR_CHANNEL_READY] -- with or
      without [WAITING_FOR_BATCH]), another channel_ready, whatever point it carries and whatever
      the other flags are, leaves both stored points untouched, announces nothing, and either is a
      no-op or closes the channel. *)
  Lemma channel_ready_points_immutable s p :
    closed s = false -> disconnected s = false ->
    (chan_ready (hsk s) = true \/ (their_ready (hsk s) = true /\ our_ready (hsk s) = false)) ->
    let s' := fst (step s (ORecvChannelReady p)) in
    let evs := snd (step s (ORecvChannelReady p)) in
    cp_cur_point s' = cp_cur_point s /\ cp_next_point s' = cp_next_point s /\ hsk s' = hsk s /\
    (forall k q, ~ In (Announce k q) evs) /\
    (closed s' = false -> s' = s /\ evs = []).
  Proof.
    intros Hc Hd Hph. cbv zeta. unfold step. rewrite Hc. unfold RevokeLog.recv_channel_ready. rewrite Hd.
    set (dec := if chan_ready (hsk s) then _ else _).
    assert (E : fst dec = true).
    { unfold dec. destruct Hph as [->|[-> ->]]; [reflexivity|]. destruct (chan_ready (hsk s)); reflexivity. }
    rewrite E. destruct (opt_point_eqb _ _ _ _).
    - cbn [fst snd]. repeat split; auto; try (intros k q []).
    - destruct (close_facts s []) as (H1 & H2 & H3 & H4). rewrite close_closed.
      repeat split; auto; try discriminate.
  Qed.

  (** * A revoke_and_ack nobody asked for is refused in EVERY state

      Whatever the other flags say -- a monitor update in progress, our stfu sent, disconnected,
      a locked monitor -- a revoke_and_ack received while [AWAITING_REMOTE_REVOKE] is not set never
      advances the counterparty commitment number, validates or stores nothing and announces nothing;
      it closes the channel (or, while quiescent, is ignored with a warning). *)
  Lemma close_cp_next s evs : cp_next (fst (close s evs)) = cp_next s.
  Proof.
    unfold close. destruct (mon_signed (ext s)); [reflexivity|].
    destruct (chan_ready (hsk s) || negb (wfb (hsk s))); reflexivity.
  Qed.

  Lemma close_events s : snd (close s []) = [] \/ snd (close s []) = [SignHolder (holder_next s + 1)].
  Proof.
    unfold close. destruct (mon_signed (ext s)); [left; reflexivity|].
    destruct (chan_ready (hsk s) || negb (wfb (hsk s))); [right|left]; reflexivity.
  Qed.

  Lemma unsolicited_revocation_rejected s sec np chain_ok commit sync :
    closed s = false -> awaiting_rr s = false ->
    let s' := fst (step s (ORecvRAA sec np chain_ok commit sync)) in
    let evs := snd (step s (ORecvRAA sec np chain_ok commit sync)) in
    cp_next s' = cp_next s /\ cp_cur_point s' = cp_cur_point s /\ cp_next_point s' = cp_next_point s /\
    (evs = [] \/ evs = [SignHolder (holder_next s + 1)]) /\
    (if quiescent (ext s) then s' = s else closed s' = true).
  Proof.
    intros Hc Ha. cbv zeta. unfold step. rewrite Hc, Ha.
    destruct (quiescent (ext s)); [cbn [fst snd]; repeat split; auto|].
    assert (H : cp_next (fst (close s [])) = cp_next s /\ cp_cur_point (fst (close s [])) = cp_cur_point s /\
                cp_next_point (fst (close s [])) = cp_next_point s /\
                (snd (close s []) = [] \/ snd (close s []) = [SignHolder (holder_next s + 1)]) /\
                closed (fst (close s [])) = true).
    { destruct (close_facts s []) as (H1 & H2 & _ & _).
      repeat split; auto using close_cp_next, close_events, close_closed. }
    destruct (negb (chan_ready (hsk s))); [exact H|].
    destruct (disconnected s); [exact H|].
    destruct (match cp_cur_point s with Some p => negb (point_eqb (pub sec) p) | None => false end); [exact H|].
    cbn [negb]. exact H.
  Qed.

  (* ---------------------------------------------------------------------------------------- *)
  (** * Statements about every run of the machine *)

  Definition machine_log (batch : bool) (p0 : point) (ops : list op) : list ev :=
    snd (run (init secret point batch p0) (init_log secret point p0) ops).

  Lemma run_release_after_newer batch p0 ops pre k post :
    machine_log batch p0 ops = pre ++ Release k :: post ->
    (exists n, In (ValidateHolder (k - 1) n n) pre) /\
    (forall k', In (SignHolder k') pre -> k' < k) /\
    (forall k', In (SignHolder k') post -> k' < k).
  Proof.
    intros E. destruct (policy_holds batch p0 ops) as (g & Hg).
    destruct (acc_release _ _ Hg pre k post E) as (H1 & H2 & H3 & _). auto.
  Qed.

  Lemma run_sign_holder_unrevoked batch p0 ops pre k post :
    machine_log batch p0 ops = pre ++ SignHolder k :: post ->
    (k = INITIAL \/ exists n, In (ValidateHolder k n n) pre) /\
    (forall j, In (Release j) pre -> k < j).
  Proof.
    intros E. destruct (policy_holds batch p0 ops) as (g & Hg).
    destruct (acc_sign_holder _ _ Hg pre k post E) as (_ & H2 & H3 & _). auto.
  Qed.

  (** once a holder commitment was signed for broadcast -- by a close, or by the monitor on the
      user's request while the channel is still open -- its secret (and that of any newer one) is
      never released *)
  Lemma run_no_release_after_holder_broadcast batch p0 ops pre k post :
    machine_log batch p0 ops = pre ++ SignHolder k :: post ->
    forall j, In (Release j) post -> k < j.
  Proof.
    intros E. destruct (policy_holds batch p0 ops) as (g & Hg).
    exact (proj2 (proj2 (proj2 (acc_sign_holder _ _ Hg pre k post E)))).
  Qed.

  Lemma run_single_outstanding batch p0 ops pre k post :
    machine_log batch p0 ops = pre ++ SignCounterparty k :: post ->
    forall j, k + 2 <= j <= INITIAL -> exists sec, In (StoreSecret j sec) pre.
  Proof.
    intros E. destruct (policy_holds batch p0 ops) as (g & Hg).
    exact (proj1 (acc_sign_counterparty _ _ Hg pre k post E)).
  Qed.

  Lemma run_step_by_one batch p0 ops pre e post :
    machine_log batch p0 ops = pre ++ e :: post ->
    match e with
    | ValidateHolder k nsig nnd => k = INITIAL - 1 - count is_vh pre /\ nsig = nnd
    | Release k => k = INITIAL + 1 - count is_vh pre
    | SignHolder k => INITIAL - count is_vh pre <= k <= INITIAL
    | ValidateRevocation k => k = INITIAL - count is_vr pre /\ count is_store pre = count is_vr pre
    | StoreSecret k _ => k = INITIAL - count is_store pre
    | SignCounterparty k => k = INITIAL - 1 - count is_store pre
    | Announce _ _ => True
    end.
  Proof.
    intros E. destruct (policy_holds batch p0 ops) as (g & Hg). destruct e.
    - exact (proj2 (proj2 (proj2 (acc_release _ _ Hg _ _ _ E)))).
    - exact (acc_validate_holder _ _ Hg _ _ _ _ _ E).
    - exact (proj2 (acc_sign_counterparty _ _ Hg _ _ _ E)).
    - exact (proj1 (acc_sign_holder _ _ Hg _ _ _ E)).
    - exact (acc_validate_revocation _ _ Hg _ _ _ E).
    - exact (proj2 (proj2 (acc_store _ _ Hg _ _ _ _ E))).
    - exact I.
  Qed.

  Lemma run_secret_checked batch p0 ops pre k sec post :
    machine_log batch p0 ops = pre ++ StoreSecret k sec :: post ->
    In (Announce k (pub sec)) pre /\ In (ValidateRevocation k) pre.
  Proof.
    intros E. destruct (policy_holds batch p0 ops) as (g & Hg).
    destruct (acc_store _ _ Hg _ _ _ _ E) as (H1 & H2 & _). auto.
  Qed.

  (** the point of a commitment number is announced at most once: it can never be replaced *)
  Lemma run_announce_once batch p0 ops pre k p post :
    machine_log batch p0 ops = pre ++ Announce k p :: post ->
    forall p', ~ In (Announce k p') pre.
  Proof.
    intros E. destruct (policy_holds batch p0 ops) as (g & Hg). exact (acc_announce _ _ Hg _ _ _ _ E).
  Qed.

  (** the counters are the initial value minus the number of validated / stored events *)
  Lemma run_counters batch p0 ops :
    let s := fst (run (init secret point batch p0) (init_log secret point p0) ops) in
    let log := machine_log batch p0 ops in
    holder_next s = INITIAL - 1 - count is_vh log /\
    (closed s = false -> cp_next s = INITIAL - 1 - count is_store log).
  Proof.
    cbv zeta. destruct (R_init batch p0) as (g0 & Hg0 & HR0).
    destruct (run_sim ops _ _ g0 Hg0 HR0) as (g & Hg & HR). unfold machine_log.
    destruct (chk_all_counts _ _ _ Hg) as (Hv & Hst & _). cbn [pol_init p_vh p_st] in *.
    split.
    - pose proof (R_vh _ _ (R_c _ _ HR)). lia.
    - intros Hc. pose proof (R_st _ _ HR Hc). lia.
  Qed.
End Proofs.

Arguments count {secret point} f l.
Arguments is_vh {secret point} e.
Arguments is_vr {secret point} e.
Arguments is_store {secret point} e.
Arguments is_sign_holder {secret point} e.

(* ------------------------------------------------------------------------------------------ *)
(** * A refuted statement (witness replayed on the real code by harness/src/bin/h_reest_probe.rs)

    "Every counterparty commitment the node signs is one it records as outstanding" is FALSE for
    the machine, hence -- the machine being a transliteration -- suspected false for the code, and
    the witness below was replayed on the unmodified implementation (known finding C05-F1):
    while NOT awaiting a revoke_and_ack, a channel_reestablish whose next_local_commitment_number
    is the number of the last commitment_signed we sent (one less than an in-sync peer says) makes
    [channel_reestablish] call [get_last_commitment_update_for_send], which signs the NEXT,
    never-sent commitment number, without AWAITING_REMOTE_REVOKE and (in the Rust) without any
    ChannelMonitorUpdate. *)
Definition zrun := run Z Z (fun x => x) Z.eqb.
Definition zstep := step Z Z (fun x => x) Z.eqb.

Lemma unrecorded_counterparty_commitment_witness :
  exists (ops : list (op Z Z)) (nl nr : Z),
    let '(s, log) := zrun (init Z Z false 100) (init_log Z Z 100) ops in
    let '(s', evs) := zstep s (ORecvReest nl nr SecMatch) in
    closed s = false /\ awaiting_rr s = false /\ disconnected s = true /\
    ~ In (SignCounterparty (cp_next s)) log /\
    evs = [SignCounterparty (cp_next s)] /\
    closed s' = false /\ awaiting_rr s' = false /\ disconnected s' = false /\ cp_next s' = cp_next s.
Proof.
  exists [OOurChannelReady; ORecvChannelReady 101; OCommit true; ORecvRAA 100 102 true false true;
          ORecvCS true 0 0 true false true; ODisconnect], 1, 1.
  vm_compute. repeat split; try reflexivity.
  intros H. repeat (destruct H as [H|H]; [discriminate H|]). exact H.
Qed.

(* ------------------------------------------------------------------------------------------ *)
(** * A second refuted statement (witness replayed on the real code by
      harness/src/bin/h_early_raa_probe.rs; known finding C05-F2)

    "The node accepts a revocation of counterparty commitment k only after it has signed k-1, and
    it signs the numbers INITIAL-1, INITIAL-2, ... without a gap" is FALSE for the machine and for
    the code: [revoke_and_ack] tests AWAITING_REMOTE_REVOKE, which [build_commitment_no_status_check]
    sets when the commitment is BUILT; with a ChannelMonitorUpdate in flight the commitment_signed
    is only signed in [monitor_updating_restored]. A revoke_and_ack arriving in between is accepted,
    the counterparty number advances, and the restore then signs the NEXT number -- one that was
    never built, never handed to the monitor -- skipping a number at the signer. *)
Lemma early_revocation_witness :
  exists (ops : list (op Z Z)),
    let '(s, log) := zrun (init Z Z false 100) (init_log Z Z 100) ops in
    closed s = false /\ awaiting_rr s = false /\ mon_in_progress s = false /\
    In (StoreSecret INITIAL 100) log /\
    ~ In (SignCounterparty (INITIAL - 1)) log /\
    In (SignCounterparty (INITIAL - 2)) log.
Proof.
  exists [OOurChannelReady; ORecvChannelReady 101; OCommit false; ORecvRAA 100 102 true false false; OMonitorDone].
  vm_compute. repeat split; try reflexivity.
  - right. right. right. left. reflexivity.
  - intros H. repeat (destruct H as [H|H]; [discriminate H|]). exact H.
  - do 5 right. left. reflexivity.
Qed.

(* ------------------------------------------------------------------------------------------ *)
(** * Source pins (coq/Gen/C05Pins.v is regenerated from the sources on every run)

    The comparisons the machine transliterates are, in the source, exactly these:
    [negb (nsig =? nnd)] in [ORecvCS]; [their_ready && negb our_ready] (flags with WAITING_FOR_BATCH
    cleared equal THEIR_CHANNEL_READY) in [recv_channel_ready]; [negb (awaiting_rr s)] -- and nothing
    else -- as the "unexpected revoke_and_ack" guard of [ORecvRAA]; the five conjuncts of
    [can_generate_new_commitment]; the monitor sets [holder_tx_signed] inside the one function every
    path that queues the funding claim goes through ([generate_claimable_outpoints_and_watch_outputs],
    before its manual-broadcast early return), which is what [mon_sign] / [close] do with
    [mon_signed]; and [no_further_updates_allowed] looks at [holder_tx_signed] ([mon_locked]). *)
Lemma source_pins :
  htlc_sig_count_test = "msg.htlc_signatures.len() != commitment_data.tx.nondust_htlcs().len()"%string /\
  channel_ready_resend_test =
    "flags.clone().clear(AwaitingChannelReadyFlags::WAITING_FOR_BATCH) == AwaitingChannelReadyFlags::THEIR_CHANNEL_READY"%string /\
  raa_unexpected_test = "!self.context.channel_state.is_awaiting_remote_revoke()"%string /\
  can_generate_new_commitment_test =
    "!flags.is_set(ChannelReadyFlags::AWAITING_REMOTE_REVOKE) && !flags.is_set(ChannelReadyFlags::LOCAL_STFU_SENT) && !flags.is_set(ChannelReadyFlags::QUIESCENT) && !flags.is_set(FundedStateFlags::MONITOR_UPDATE_IN_PROGRESS.into()) && !flags.is_set(FundedStateFlags::PEER_DISCONNECTED.into())"%string /\
  monitor_lock_in_claim_generation = "self.holder_tx_signed = true;"%string /\
  monitor_no_further_updates_test =
    "self.funding_spend_seen || self.lockdown_from_offchain || self.holder_tx_signed"%string.
Proof. repeat split; reflexivity. Qed.
