(** C05, revocation discipline: every log the one-node machine of Model/RevokeLog.v can produce,
    for every operation list (= every behaviour of user, peer, network, persistence completion,
    restart), is accepted by the policy checker [chk_all]; and what acceptance means. *)
Require Import LdkV.Prim.U64 LdkV.Model.RevokeLog LdkV.Gen.C05Pins.
Open Scope Z_scope.

Section Proofs.
  Variables secret point : Type.
  Variable pub : secret -> point.
  Variable point_eqb : point -> point -> bool.
  Hypothesis point_eqb_refl : forall p, point_eqb p p = true.
  Hypothesis point_eqb_eq : forall p q, point_eqb p q = true -> p = q.

  Notation ev := (ev secret point).
  Notation st := (st secret point).
  Notation op := (op secret point).
  Notation pol := (pol point).
  Notation step := (step secret point pub point_eqb).
  Notation run := (run secret point pub point_eqb).
  Notation chk := (chk secret point pub point_eqb).
  Notation chk_all := (chk_all secret point pub point_eqb).
  Notation restore := (restore secret point).
  Notation recv_channel_ready := (recv_channel_ready secret point pub point_eqb).
  Notation close := (close secret point).
  Notation maybe_restore := (maybe_restore secret point).
  Notation announced := (announced point point_eqb).

  (* ---------------------------------------------------------------------------------------- *)
  (** * Part A: simulation -- the machine's log is always accepted *)

  Lemma chk_all_app g l1 l2 :
    chk_all g (l1 ++ l2) = match chk_all g l1 with Some g' => chk_all g' l2 | None => None end.
  Proof.
    revert g. induction l1 as [|e l1 IH]; intros g; cbn [chk_all app]; [reflexivity|].
    destruct (chk g e); [apply IH|reflexivity].
  Qed.

  Lemma announced_cons_same a k p : announced ((k, p) :: a) k p = true.
  Proof. unfold announced. cbn [existsb fst snd]. rewrite Z.eqb_refl, point_eqb_refl. reflexivity. Qed.

  Lemma announced_cons_mono a kp k p : announced a k p = true -> announced (kp :: a) k p = true.
  Proof. unfold announced. cbn [existsb]. intros ->. apply orb_true_r. Qed.

  (** have the peer's points been shifted by its channel_ready yet? *)
  Definition ann_phase (s : st) : bool := chan_ready (hsk s) || their_ready (hsk s).
  Definition has_key (a : list (Z * point)) (k : Z) : bool := existsb (fun kp : Z * point => fst kp =? k) a.

  (** the relation between machine state and policy state *)
  Record R (s : st) (g : pol) : Prop := mkR {
    R_hn : holder_next s <= INITIAL - 1;
    R_vh : p_vh g = holder_next s + 1;
    R_signed : p_signed g = true -> closed s = true;
    R_mpraa : closed s = false -> mp_raa s = true -> holder_next s < INITIAL - 1;
    R_st : closed s = false -> p_st g = cp_next s + 2;
    R_rv : closed s = false -> p_rv g = cp_next s + 2;
    R_cur : closed s = false -> ann_phase s = true ->
            exists p, cp_cur_point s = Some p /\ announced (p_ann g) (cp_next s + 1) p = true;
    R_nxt : closed s = false -> ann_phase s = true ->
            exists p, cp_next_point s = Some p /\ announced (p_ann g) (cp_next s) p = true;
    R_pre : closed s = false -> ann_phase s = false ->
            cp_next s = INITIAL - 1 /\
            exists p, cp_next_point s = Some p /\ announced (p_ann g) (cp_next s + 1) p = true;
    R_keys : closed s = false -> forall k, has_key (p_ann g) k = true ->
             (if ann_phase s then cp_next s else cp_next s + 1) <= k;
    (* AwaitingChannelReady never has OUR_CHANNEL_READY together with WAITING_FOR_BATCH or THEIR_CHANNEL_READY *)
    R_flags : closed s = false -> chan_ready (hsk s) = false -> our_ready (hsk s) = true ->
              wfb (hsk s) = false /\ their_ready (hsk s) = false
  }.

  Lemma R_init batch p0 :
    exists g, chk_all (pol_init point) (init_log secret point p0) = Some g /\ R (init secret point batch p0) g.
  Proof.
    exists (mkPol point INITIAL (INITIAL + 1) (INITIAL + 1) [(INITIAL, p0)] false).
    split; [reflexivity|].
    constructor; cbn [init holder_next cp_next mp_raa cp_cur_point cp_next_point closed hsk
                      p_vh p_st p_rv p_ann p_signed]; unfold ann_phase;
      cbn [init hsk chan_ready their_ready orb]; intros; try lia; try discriminate.
    - split; [reflexivity|]. exists p0. split; [reflexivity|].
      replace (INITIAL - 1 + 1) with INITIAL by lia. apply announced_cons_same.
    - unfold has_key in *. cbn [existsb fst] in *. rewrite orb_false_r in *. lia.
  Qed.

  Ltac sf := cbn [holder_next cp_next awaiting_rr disconnected mon_in_progress mp_raa mp_cs raa_first
                   cp_cur_point cp_next_point closed hsk p_vh p_rv p_st p_ann p_signed fst snd
                   build_commitment upd_mon set_mp_raa set_mp_cs set_hs] in *.

  (** R only looks at these components *)
  Definition hflags (s : st) := (chan_ready (hsk s), our_ready (hsk s), their_ready (hsk s), wfb (hsk s)).
  Definition core (s : st) := (holder_next s, cp_next s, mp_raa s, cp_cur_point s, cp_next_point s, closed s, hflags s).

  Ltac core_eq := unfold core, hflags; repeat match goal with x := _ : RevokeLog.st _ |- _ => subst x end; sf; rewrite ?orb_false_r, ?orb_true_r;
    repeat match goal with H : closed _ = false |- _ => rewrite H; clear H end; reflexivity.

  Lemma R_core s s' g : core s = core s' -> R s g -> R s' g.
  Proof.
    unfold core, hflags. intros E HR. injection E as E1 E2 E3 E4 E5 E6 E7 E8 E9 E10. destruct HR.
    constructor; unfold ann_phase in *;
      rewrite <- ?E1, <- ?E2, <- ?E3, <- ?E4, <- ?E5, <- ?E6, <- ?E7, <- ?E8, <- ?E9, <- ?E10; assumption.
  Qed.

  (** clearing [mp_raa] (or keeping it) never hurts *)
  Lemma R_mpraa_weaken s s' g :
    (holder_next s, cp_next s, cp_cur_point s, cp_next_point s, closed s, hflags s) =
    (holder_next s', cp_next s', cp_cur_point s', cp_next_point s', closed s', hflags s') ->
    (mp_raa s' = true -> mp_raa s = true \/ holder_next s < INITIAL - 1) ->
    R s g -> R s' g.
  Proof.
    unfold hflags. intros E Hm HR. injection E as E1 E2 E4 E5 E6 E7 E8 E9 E10. destruct HR.
    constructor; unfold ann_phase in *;
      rewrite <- ?E1, <- ?E2, <- ?E4, <- ?E5, <- ?E6, <- ?E7, <- ?E8, <- ?E9, <- ?E10; try assumption.
    intros Hc Hm'. destruct (Hm Hm'); auto.
  Qed.

  (** [close]: whatever was emitted so far, signing the current holder commitment is accepted *)
  Lemma close_sim s g evs g1 :
    chk_all g evs = Some g1 -> p_vh g1 = holder_next s + 1 -> holder_next s <= INITIAL - 1 ->
    exists g', chk_all g (snd (close s evs)) = Some g' /\ R (fst (close s evs)) g'.
  Proof.
    intros Hc Hv Hn. unfold close. cbn [fst snd].
    destruct (chan_ready (hsk s) || negb (wfb (hsk s))).
    - rewrite chk_all_app, Hc. cbn [chk_all chk].
      rewrite Hv, Z.eqb_refl. eexists. split; [reflexivity|].
      constructor; sf; intros; try lia; try discriminate; try reflexivity.
    - exists g1. split; [exact Hc|].
      constructor; sf; intros; try lia; try discriminate; try reflexivity.
  Qed.

  Lemma restore_sim s g : closed s = false -> R s g ->
    exists g', chk_all g (snd (restore s)) = Some g' /\ R (fst (restore s)) g'.
  Proof.
    intros Hc HR. pose proof HR as HR0. destruct HR. unfold restore.
    destruct (disconnected s).
    - cbn [fst snd chk_all]. exists g. split; [reflexivity|].
      eapply R_mpraa_weaken; [| |exact HR0]; sf; [reflexivity|discriminate].
    - cbn [fst snd].
      assert (Hsigned : p_signed g = false).
      { destruct (p_signed g) eqn:E; [|reflexivity]. rewrite R_signed0 in Hc by reflexivity. discriminate. }
      exists g. split.
      + rewrite chk_all_app.
        assert (E1 : chk_all g (if mp_raa s then last_raa secret point s else []) = Some g).
        { destruct (mp_raa s) eqn:Em; [|reflexivity]. unfold last_raa. cbn [chk_all chk].
          rewrite Hsigned, R_vh0. specialize (R_mpraa0 Hc eq_refl).
          replace (holder_next s + 2 =? holder_next s + 1 + 1) with true by lia.
          replace (holder_next s + 2 <=? INITIAL) with true by lia. reflexivity. }
        rewrite E1. destruct (mp_cs s); [|reflexivity]. unfold last_cs. cbn [chk_all chk].
        rewrite Hsigned, (R_st0 Hc). replace (cp_next s =? cp_next s + 2 - 2) with true by lia. reflexivity.
      + eapply R_mpraa_weaken; [| |exact HR0]; sf; [reflexivity|discriminate].
  Qed.

  Lemma maybe_restore_sim sync s g0 g evs : closed s = false ->
    chk_all g0 evs = Some g -> R s g ->
    exists g', chk_all g0 (snd (maybe_restore sync s evs)) = Some g' /\ R (fst (maybe_restore sync s evs)) g'.
  Proof.
    intros Hc He HR. unfold maybe_restore. destruct sync.
    - destruct (restore_sim s g Hc HR) as (g' & Hg' & HR'). destruct (restore s) as [s' evs'].
      cbn [fst snd] in *. exists g'. split; [|exact HR']. rewrite chk_all_app, He. exact Hg'.
    - cbn [fst snd]. exists g. split; assumption.
  Qed.

  Ltac not_signed HR Hc :=
    let E := fresh "E" in
    match goal with |- context [p_signed ?g] =>
      assert (Hsigned : p_signed g = false)
        by (destruct (p_signed g) eqn:E; [rewrite (R_signed _ _ HR) in Hc by reflexivity; discriminate|reflexivity])
    end.

  Ltac cl := match goal with Hvh : p_vh ?g = holder_next ?s + 1 |- _ =>
    apply (close_sim s g [] g); [reflexivity|exact Hvh|assumption] end.

  Lemma recv_channel_ready_sim s g p : R s g -> closed s = false ->
    exists g', chk_all g (snd (recv_channel_ready s p)) = Some g' /\ R (fst (recv_channel_ready s p)) g'.
  Proof.
    intros HR0 Hc. pose proof HR0 as HR. destruct HR as [Hhn Hvh Hsg Hmp Hst Hrv Hcur Hnxt Hpre Hkeys Hflags].
    assert (Hsigned : p_signed g = false).
    { destruct (p_signed g) eqn:E; [rewrite Hsg in Hc by reflexivity; discriminate|reflexivity]. }
    unfold RevokeLog.recv_channel_ready.
    destruct (disconnected s); [cbn [fst snd chk_all]; exists g; split; [reflexivity|]; eapply R_core; [|exact HR0]; core_eq|].
    assert (Hrecon : exists g', chk_all g (snd (if opt_point_eqb point point_eqb
                (if cp_next s =? INITIAL - 1 then cp_next_point s
                 else if cp_next s =? INITIAL - 2 then cp_cur_point s
                 else match sec1 (hsk s) with Some sc => Some (pub sc) | None => None end) p
              then (s, []) else close s [])) = Some g' /\
             R (fst (if opt_point_eqb point point_eqb
                (if cp_next s =? INITIAL - 1 then cp_next_point s
                 else if cp_next s =? INITIAL - 2 then cp_cur_point s
                 else match sec1 (hsk s) with Some sc => Some (pub sc) | None => None end) p
              then (s, []) else close s [])) g').
    { destruct (opt_point_eqb _ _ _ _); [exists g; split; [reflexivity|exact HR0]|cl]. }
    destruct (chan_ready (hsk s)) eqn:Hready; cbn [fst snd]; [exact Hrecon|].
    destruct (their_ready (hsk s)) eqn:Htheir, (our_ready (hsk s)) eqn:Hour; cbn [andb negb fst snd];
      try exact Hrecon.
    + (* THEIR and OUR both set while awaiting: excluded *)
      pose proof (Hflags Hc) as Hf. rewrite ?Hready, ?Hour, ?Htheir in Hf. destruct (Hf eq_refl eq_refl) as [_ Hx]. congruence.
    + (* OUR_CHANNEL_READY only *)
      pose proof (Hflags Hc) as Hf. rewrite ?Hready, ?Hour, ?Htheir in Hf. destruct (Hf eq_refl eq_refl) as [Hw _]. rewrite Hw. cbn [negb fst snd].
      assert (Hph : ann_phase s = false) by (unfold ann_phase; rewrite Hready, Htheir; reflexivity).
      destruct (Hpre Hc Hph) as (Hcn & pn & Epn & Apn).
      assert (Hfresh : existsb (fun kp : Z * point => fst kp =? cp_next s) (p_ann g) = false).
      { destruct (existsb _ (p_ann g)) eqn:E; [|reflexivity]. apply (Hkeys Hc) in E. rewrite Hph in E. lia. }
      cbn [chk_all chk]. rewrite Hsigned, Hfresh. eexists. split; [reflexivity|].
      constructor; unfold ann_phase; sf; cbn [chan_ready their_ready our_ready wfb orb]; intros; try lia; try discriminate; auto.
      * exists pn. split; [exact Epn|]. apply announced_cons_mono. exact Apn.
      * exists p. split; [reflexivity|]. apply announced_cons_same.
      * unfold has_key in *. cbn [existsb fst] in *. destruct (Z.eqb_spec (cp_next s) k); [lia|]. cbn [orb] in *.
        match goal with H : existsb _ _ = true |- _ => apply (Hkeys Hc) in H; rewrite Hph in H end. lia.
    + (* no flag (or only WAITING_FOR_BATCH): the first channel_ready *)
      assert (Hph : ann_phase s = false) by (unfold ann_phase; rewrite Hready, Htheir; reflexivity).
      destruct (Hpre Hc Hph) as (Hcn & pn & Epn & Apn).
      assert (Hfresh : existsb (fun kp : Z * point => fst kp =? cp_next s) (p_ann g) = false).
      { destruct (existsb _ (p_ann g)) eqn:E; [|reflexivity]. apply (Hkeys Hc) in E. rewrite Hph in E. lia. }
      cbn [chk_all chk]. rewrite Hsigned, Hfresh. eexists. split; [reflexivity|].
      constructor; unfold ann_phase; sf; cbn [chan_ready their_ready our_ready wfb orb]; intros; try lia; try discriminate; auto.
      * exists pn. split; [exact Epn|]. apply announced_cons_mono. exact Apn.
      * exists p. split; [reflexivity|]. apply announced_cons_same.
      * unfold has_key in *. cbn [existsb fst] in *. destruct (Z.eqb_spec (cp_next s) k); [lia|]. cbn [orb] in *.
        match goal with H : existsb _ _ = true |- _ => apply (Hkeys Hc) in H; rewrite Hph in H end. lia.
  Qed.

  Lemma reest_core_sim s g nl nr sc : R s g -> closed s = false ->
    exists g', chk_all g (snd (reest_core secret point s nl nr sc)) = Some g' /\
               R (fst (reest_core secret point s nl nr sc)) g'.
  Proof.
    intros HR0 Hc. pose proof HR0 as HR. destruct HR as [Hhn Hvh Hsg Hmp Hst Hrv Hcur Hnxt Hpre Hkeys Hflags].
    assert (Hsigned : p_signed g = false).
    { destruct (p_signed g) eqn:E; [rewrite Hsg in Hc by reflexivity; discriminate|reflexivity]. }
    unfold reest_core. rewrite ?Hc.
    cbv zeta.
    destruct ((nl <? 0) || (nr <? 0)) eqn:Hrange; [exists g; split; [reflexivity|exact HR0]|].
    destruct (negb (disconnected s)); [apply (close_sim s g [] g); [reflexivity|exact Hvh|exact Hhn]|].
    destruct ((nl =? 0) || (INITIAL <=? nl) || (INITIAL <=? nr)); [apply (close_sim s g [] g); [reflexivity|exact Hvh|exact Hhn]|].
    destruct ((0 <? nr) && match sc with SecGarbage => true | _ => false end);
      [apply (close_sim s g [] g); [reflexivity|exact Hvh|exact Hhn]|].
    destruct ((0 <? nr) && (INITIAL - (holder_next s + 1) <? nr)).
    { destruct (match sc with SecMatch => true | _ => false end);
        [|apply (close_sim s g [] g); [reflexivity|exact Hvh|exact Hhn]].
      cbn [fst snd chk_all]. exists g. split; [reflexivity|].
      constructor; sf; intros; try assumption; try discriminate; try reflexivity. }
    destruct ((0 <? nr) && ((nr =? INITIAL - (holder_next s + 1)) || (nr + 1 =? INITIAL - (holder_next s + 1)))
              && negb match sc with SecMatch => true | _ => false end);
      [apply (close_sim s g [] g); [reflexivity|exact Hvh|exact Hhn]|].
    destruct (Z.ltb_spec (nr + 1) (INITIAL - (holder_next s + 1))) as [_|Hnr];
      [exists g; split; [reflexivity|exact HR0]|].
    set (s0 := mkSt secret point (holder_next s) (cp_next s) (awaiting_rr s) false (mon_in_progress s)
                    (mp_raa s) (mp_cs s) (raa_first s) (cp_cur_point s) (cp_next_point s) false (hsk s)).
    assert (HR1 : R s0 g) by (eapply R_core; [|exact HR0]; core_eq).
    assert (Hc0 : closed s0 = false) by reflexivity.
    destruct (chan_ready (hsk s)) eqn:Hready; cbn [negb].
    2:{ destruct ((negb (our_ready (hsk s)) || mon_in_progress s) && negb (nr =? 0));
          [apply (close_sim s0 g [] g); [reflexivity|exact Hvh|exact Hhn]|].
        cbn [fst snd chk_all]. exists g. split; [reflexivity|exact HR1]. }
    (* required_revoke *)
    assert (Hrev : match reest_revoke secret point s0 nr (INITIAL - (holder_next s + 1)) with
                   | None => True
                   | Some (s1, raa_evs) =>
                       closed s1 = false /\ exists g1, chk_all g raa_evs = Some g1 /\ R s1 g1
                   end).
    { unfold reest_revoke.
      destruct (Z.eqb_spec nr (INITIAL - (holder_next s + 1))) as [Enr|Nnr].
      - split; [reflexivity|]. exists g. split; [reflexivity|].
        eapply R_mpraa_weaken; [| |exact HR1]; sf; [reflexivity|discriminate].
      - destruct (Z.eqb_spec (nr + 1) (INITIAL - (holder_next s + 1))) as [Enr1|_]; [|exact I].
        assert (Hlt : holder_next s < INITIAL - 1) by lia.
        destruct (mon_in_progress s0).
        + split; [reflexivity|]. exists g. split; [reflexivity|].
          eapply R_mpraa_weaken; [| |exact HR1]; sf; [reflexivity|intros _; right; exact Hlt].
        + split; [reflexivity|]. exists g. split; [|exact HR1].
          unfold last_raa. cbn [chk_all chk holder_next s0]. rewrite Hsigned, Hvh.
          replace (holder_next s + 2 =? holder_next s + 1 + 1) with true by lia.
          replace (holder_next s + 2 <=? INITIAL) with true by lia. reflexivity. }
    destruct (reest_revoke secret point s0 nr (INITIAL - (holder_next s + 1))) as [[s1 raa_evs]|];
      [|apply (close_sim s0 g [] g); [reflexivity|exact Hvh|exact Hhn]].
    destruct Hrev as (Hc1 & g1 & Hg1 & HRs1).
    (* commitment retransmission *)
    unfold reest_commit.
    match goal with |- context [if ?c then _ else _] => destruct c end.
    { cbn [fst snd]. exists g1. split; [exact Hg1|]. eapply R_core; [|exact HRs1]. core_eq. }
    match goal with |- context [if ?c then _ else _] => destruct c end.
    { destruct (mon_in_progress s1).
      - cbn [fst snd]. exists g1. split; [exact Hg1|]. eapply R_core; [|exact HRs1]. core_eq.
      - cbn [fst snd]. exists g1. split; [|exact HRs1].
        rewrite chk_all_app, Hg1. unfold last_cs. cbn [chk_all chk].
        assert (Hs1 : p_signed g1 = false).
        { destruct (p_signed g1) eqn:E; [pose proof (R_signed _ _ HRs1 E); congruence|reflexivity]. }
        rewrite Hs1, (R_st _ _ HRs1 Hc1).
        replace (cp_next s1 =? cp_next s1 + 2 - 2) with true by lia. reflexivity. }
    eapply close_sim; [exact Hg1|exact (R_vh _ _ HRs1)|exact (R_hn _ _ HRs1)].
  Qed.

  Lemma step_sim s g o : R s g ->
    exists g', chk_all g (snd (step s o)) = Some g' /\ R (fst (step s o)) g'.
  Proof.
    intros HR. unfold step. destruct (closed s) eqn:Hc.
    { (* closed: only re-signing *)
      destruct o; cbn [fst snd chk_all]; try (exists g; split; [reflexivity|exact HR]).
      cbn [chk]. rewrite (R_vh _ _ HR), Z.eqb_refl. eexists. split; [reflexivity|].
      destruct HR. constructor; sf; intros; try assumption; try congruence. }
    pose proof HR as HR0. destruct HR as [Hhn Hvh Hsg Hmp Hst Hrv Hcur Hnxt Hpre Hkeys Hflags].
    assert (Hsigned : p_signed g = false).
    { destruct (p_signed g) eqn:E; [rewrite Hsg in Hc by reflexivity; discriminate|reflexivity]. }
    destruct o as [sync|sig_ok nsig nnd htlc_ok need_cs sync|sec np chain_ok commit sync|sync| |p| | | | |nl nr sc| | | ].
    - (* OCommit *)
      destruct (can_generate_new_commitment secret point s).
      + apply (maybe_restore_sim sync _ g g []); [exact Hc|reflexivity|].
        eapply R_core; [|exact HR0]. core_eq.
      + exists g. split; [reflexivity|exact HR0].
    - (* ORecvCS *)
      destruct (chan_ready (hsk s)) eqn:Hready; cbn [negb]; [|cl].
      destruct (disconnected s); [cl|].
      destruct sig_ok; cbn [negb]; [|cl].
      destruct (Z.eqb_spec nsig nnd) as [Ecnt|_]; cbn [negb]; [|cl].
      destruct htlc_ok; cbn [negb]; [|cl].
      cbv zeta. sf. eapply maybe_restore_sim.
      + destruct (need_cs && negb (awaiting_rr s)); sf; reflexivity.
      + cbn [chk_all chk]. rewrite Hsigned, Hvh.
        replace (holder_next s =? holder_next s + 1 - 1) with true by lia.
        subst nsig. rewrite Z.eqb_refl. reflexivity.
      + destruct (need_cs && negb (awaiting_rr s)); constructor; unfold ann_phase in *; sf; intros; try lia;
          try discriminate; try congruence; auto.
    - (* ORecvRAA *)
      destruct (chan_ready (hsk s)) eqn:Hready; cbn [negb]; [|cl].
      destruct (disconnected s); [cl|].
      assert (Hph : ann_phase s = true) by (unfold ann_phase; rewrite Hready; reflexivity).
      destruct (Hcur Hc Hph) as (pc & Epc & Apc). destruct (Hnxt Hc Hph) as (pn & Epn & Apn). rewrite Epc.
      destruct (point_eqb (pub sec) pc) eqn:Epq; cbn [negb]; [|cl].
      apply point_eqb_eq in Epq. subst pc.
      destruct (awaiting_rr s); cbn [negb]; [|cl].
      assert (Evr : chk g (ValidateRevocation (cp_next s + 1)) =
                    Some (mkPol point (p_vh g) (cp_next s + 1) (p_st g) (p_ann g) false)).
      { cbn [chk]. rewrite Hsigned, (Hrv Hc), (Hst Hc).
        replace (cp_next s + 1 =? cp_next s + 2 - 1) with true by lia. rewrite Z.eqb_refl. reflexivity. }
      assert (Hfresh : existsb (fun kp : Z * point => fst kp =? cp_next s - 1) (p_ann g) = false).
      { destruct (existsb _ (p_ann g)) eqn:E; [|reflexivity].
        apply (Hkeys Hc) in E. rewrite Hph in E. lia. }
      destruct chain_ok; cbn [negb].
      + cbv zeta. sf. eapply maybe_restore_sim.
        * destruct commit; sf; reflexivity.
        * cbn [chk_all app]. rewrite Evr. cbn [chk p_signed p_rv p_st p_ann p_vh].
          rewrite Z.eqb_refl, (Hst Hc). replace (cp_next s + 2 =? cp_next s + 1 + 1) with true by lia.
          rewrite Apc. cbn [andb]. cbn [chk_all chk p_signed p_rv p_st p_ann p_vh]. rewrite Hfresh. reflexivity.
        * set (h' := if cp_next s + 1 =? INITIAL - 1
                     then mkHs secret point true (our_ready (hsk s)) (their_ready (hsk s)) (wfb (hsk s)) (Some sec) (pending_ready (hsk s))
                     else hsk s).
          assert (Hr' : chan_ready h' = true) by (unfold h'; destruct (cp_next s + 1 =? INITIAL - 1); [reflexivity|exact Hready]).
          assert (HRn : R (mkSt secret point (holder_next s) (cp_next s - 1) false false (mon_in_progress s)
                                (mp_raa s) (mp_cs s) (raa_first s) (cp_next_point s) (Some np) false h')
                          (mkPol point (p_vh g) (cp_next s + 1) (cp_next s + 1)
                                 ((cp_next s - 1, np) :: p_ann g) false)).
          { constructor; unfold ann_phase; sf; rewrite ?Hr'; cbn [orb]; intros; try lia; try discriminate; try congruence; auto.
            - exists pn. split; [exact Epn|]. apply announced_cons_mono.
              replace (cp_next s - 1 + 1) with (cp_next s) by lia. exact Apn.
            - exists np. split; [reflexivity|]. apply announced_cons_same.
            - unfold has_key in *. cbn [existsb fst] in *.
              destruct (Z.eqb_spec (cp_next s - 1) k); [lia|]. cbn [orb] in *.
              match goal with H : existsb _ _ = true |- _ => apply (Hkeys Hc) in H; rewrite Hph in H end. lia. }
          eapply R_core; [|exact HRn]. subst h'. destruct commit; core_eq.
      + eapply close_sim; [cbn [chk_all]; rewrite Evr; reflexivity|sf; exact Hvh|exact Hhn].
    - (* OMonUpdate *)
      apply (maybe_restore_sim sync _ g g []); [exact Hc|reflexivity|].
      eapply R_core; [|exact HR0]. core_eq.
    - (* OMonitorDone *)
      destruct (mon_in_progress s); [apply restore_sim; assumption|].
      exists g. split; [reflexivity|exact HR0].
    - (* ORecvChannelReady *)
      apply recv_channel_ready_sim; assumption.
    - (* OOurChannelReady *)
      cbv zeta. destruct (chan_ready (hsk s)) eqn:Hready; [exists g; split; [reflexivity|exact HR0]|].
      destruct (our_ready (hsk s)) eqn:Hour, (their_ready (hsk s)) eqn:Htheir, (wfb (hsk s)) eqn:Hw;
        cbn [andb negb fst snd chk_all]; try (exists g; split; [reflexivity|exact HR0]);
        (exists g; split; [reflexivity|]);
        constructor; unfold ann_phase in *; sf; rewrite ?Hready, ?Htheir, ?Hour in *;
        cbn [chan_ready their_ready our_ready wfb orb] in *; intros; try lia; try discriminate; auto.
    - (* OBatchReady *)
      cbv zeta. cbn [fst snd chk_all]. exists g. split; [reflexivity|].
      constructor; unfold ann_phase in *; sf; cbn [chan_ready their_ready our_ready wfb] in *; intros; try lia;
        try discriminate; auto.
      destruct (Hflags Hc ltac:(assumption) ltac:(assumption)). auto.
    - (* ODisconnect *)
      cbn [fst snd chk_all]. exists g. split; [reflexivity|]. eapply R_core; [|exact HR0]. core_eq.
    - (* OReload *)
      cbn [fst snd chk_all]. exists g. split; [reflexivity|]. eapply R_core; [|exact HR0]. core_eq.
    - (* ORecvReest *)
      unfold RevokeLog.reest_with_replay.
      destruct (reest_core_sim s g nl nr sc HR0 Hc) as (g1 & Hg1 & HR1).
      destruct (reest_core secret point s nl nr sc) as [s1 evs1]. cbn [fst snd] in *.
      destruct (closed s1) eqn:Hc1; cbn [orb]; [exists g1; split; assumption|].
      destruct (disconnected s1); [exists g1; split; assumption|].
      destruct (pending_ready (hsk s1)) as [pp|]; [|exists g1; split; assumption].
      set (s1' := set_hs secret point s1 _).
      assert (HR1' : R s1' g1) by (eapply R_core; [|exact HR1]; unfold s1'; core_eq).
      destruct (recv_channel_ready_sim s1' g1 pp HR1' Hc1) as (g2 & Hg2 & HR2).
      destruct (recv_channel_ready s1' pp) as [s2 evs2]. cbn [fst snd] in *.
      exists g2. split; [rewrite chk_all_app, Hg1; exact Hg2|exact HR2].
    - (* OForceClose *)
      apply (close_sim s g [] g); [reflexivity|exact Hvh|exact Hhn].
    - (* OChainClose *)
      cbn [fst snd chk_all]. exists g. split; [reflexivity|].
      constructor; sf; intros; try assumption; try discriminate; try reflexivity.
    - (* OResign *)
      exists g. split; [reflexivity|exact HR0].
  Qed.

  (** every run, from the initial state, is accepted *)
  Lemma run_sim : forall ops s log g,
    chk_all (pol_init point) log = Some g -> R s g ->
    exists g', chk_all (pol_init point) (snd (run s log ops)) = Some g' /\ R (fst (run s log ops)) g'.
  Proof.
    induction ops as [|o ops IH]; intros s log g Hl HR; cbn [RevokeLog.run].
    - exists g. split; assumption.
    - destruct (step_sim s g o HR) as (g1 & Hg1 & HR1).
      destruct (step s o) as [s' evs]. cbn [fst snd] in *.
      apply (IH s' (log ++ evs) g1); [|exact HR1]. rewrite chk_all_app, Hl. exact Hg1.
  Qed.

  Theorem policy_holds batch p0 ops :
    exists g, chk_all (pol_init point)
                (snd (run (init secret point batch p0) (init_log secret point p0) ops)) = Some g.
  Proof.
    destruct (R_init batch p0) as (g0 & Hg0 & HR0).
    destruct (run_sim ops _ _ g0 Hg0 HR0) as (g & Hg & _). exists g. exact Hg.
  Qed.

  (* ---------------------------------------------------------------------------------------- *)
  (** * Part B: what acceptance by [chk_all] means *)

  Definition is_sign_holder (e : ev) : bool := match e with SignHolder _ => true | _ => false end.
  Definition is_vh (e : ev) : bool := match e with ValidateHolder _ _ _ => true | _ => false end.
  Definition is_store (e : ev) : bool := match e with StoreSecret _ _ => true | _ => false end.
  Definition is_vr (e : ev) : bool := match e with ValidateRevocation _ => true | _ => false end.
  Definition count (f : ev -> bool) (l : list ev) : Z := Z.of_nat (List.length (filter f l)).

  Lemma count_cons f e l : count f (e :: l) = (if f e then 1 else 0) + count f l.
  Proof. unfold count. cbn [filter]. destruct (f e); cbn [List.length]; lia. Qed.
  Lemma count_nil f : count f [] = 0.
  Proof. reflexivity. Qed.

  (** inversion of one step of the checker *)
  Lemma chk_inv g e g2 : chk g e = Some g2 ->
    match e with
    | SignHolder k => k = p_vh g /\ g2 = mkPol point (p_vh g) (p_rv g) (p_st g) (p_ann g) true
    | ValidateHolder k nsig nnd => p_signed g = false /\ k = p_vh g - 1 /\ nsig = nnd /\
                          g2 = mkPol point k (p_rv g) (p_st g) (p_ann g) false
    | Release k => p_signed g = false /\ k = p_vh g + 1 /\ k <= INITIAL /\ g2 = g
    | SignCounterparty k => p_signed g = false /\ k = p_st g - 2 /\ g2 = g
    | ValidateRevocation k => p_signed g = false /\ k = p_rv g - 1 /\ p_st g = p_rv g /\
                              g2 = mkPol point (p_vh g) k (p_st g) (p_ann g) false
    | StoreSecret k sec => p_signed g = false /\ k = p_rv g /\ p_st g = k + 1 /\
                           announced (p_ann g) k (pub sec) = true /\
                           g2 = mkPol point (p_vh g) (p_rv g) k (p_ann g) false
    | Announce k p => p_signed g = false /\ has_key (p_ann g) k = false /\
                      g2 = mkPol point (p_vh g) (p_rv g) (p_st g) ((k, p) :: p_ann g) false
    end.
  Proof.
    destruct e; cbn [RevokeLog.chk]; destruct (p_signed g) eqn:Es; try discriminate;
      repeat match goal with
             | |- context [if ?c then _ else _] => destruct c eqn:?
             end; try discriminate; intros E; injection E as <-;
      repeat match goal with
             | H : _ && _ = true |- _ => apply andb_true_iff in H; destruct H
             end; repeat split; try lia; try reflexivity; try assumption.
  Qed.

  Lemma chk_all_split g pre e post g' : chk_all g (pre ++ e :: post) = Some g' ->
    exists g1 g2, chk_all g pre = Some g1 /\ chk g1 e = Some g2 /\ chk_all g2 post = Some g'.
  Proof.
    rewrite chk_all_app. destruct (chk_all g pre) as [g1|]; [|discriminate]. cbn [RevokeLog.chk_all].
    destruct (chk g1 e) as [g2|] eqn:E; [|discriminate]. intros H. exists g1, g2. auto.
  Qed.

  (** the summary fields as functions of the log *)
  Lemma chk_all_counts : forall l g g', chk_all g l = Some g' ->
    p_vh g' = p_vh g - count is_vh l /\
    p_st g' = p_st g - count is_store l /\
    p_rv g' = p_rv g - count is_vr l.
  Proof.
    induction l as [|e l IH]; intros g g' Hc; cbn [RevokeLog.chk_all] in Hc.
    - injection Hc as <-. rewrite !count_nil. lia.
    - destruct (chk g e) as [g1|] eqn:E; [|discriminate]. specialize (IH g1 g' Hc).
      apply chk_inv in E. rewrite !count_cons.
      destruct e; cbn [is_vh is_store is_vr]; intuition (subst; sf; lia).
  Qed.

  Lemma signed_sticky : forall l g g', chk_all g l = Some g' -> p_signed g = true ->
    p_signed g' = true /\ forall e, In e l -> is_sign_holder e = true.
  Proof.
    induction l as [|e l IH]; intros g g' Hc Hs; cbn [RevokeLog.chk_all] in Hc.
    - injection Hc as <-. split; [exact Hs|]. intros e [].
    - destruct (chk g e) as [g1|] eqn:E; [|discriminate]. apply chk_inv in E.
      destruct e; try (destruct E as [E _]; congruence).
      destruct E as [_ ->]. destruct (IH _ _ Hc eq_refl) as [H1 H2]. split; [exact H1|].
      intros e [<-|Hin]; [reflexivity|apply H2; exact Hin].
  Qed.

  Lemma sign_holder_signs : forall l g g' k, chk_all g l = Some g' -> In (SignHolder k) l ->
    p_signed g' = true /\ k <= p_vh g.
  Proof.
    induction l as [|e l IH]; intros g g' k Hc Hin; [destruct Hin|]. cbn [RevokeLog.chk_all] in Hc.
    destruct (chk g e) as [g1|] eqn:E; [|discriminate].
    pose proof (chk_all_counts [e] g g1) as Hcnt. cbn [RevokeLog.chk_all] in Hcnt. rewrite E in Hcnt.
    specialize (Hcnt eq_refl). destruct Hcnt as (Hv & _ & _).
    assert (0 <= count is_vh [e]) by (unfold count; lia).
    destruct Hin as [->|Hin].
    - apply chk_inv in E. destruct E as [-> ->].
      destruct (signed_sticky _ _ _ Hc eq_refl) as [H1 _]. split; [exact H1|lia].
    - destruct (IH _ _ _ Hc Hin) as [H1 H2]. split; [exact H1|lia].
  Qed.

  (** the latest validated number was validated in this log, unless it was validated before *)
  Lemma vh_witness : forall l g g', chk_all g l = Some g' ->
    p_vh g' = p_vh g \/ exists n, In (ValidateHolder (p_vh g') n n) l.
  Proof.
    induction l as [|e l IH]; intros g g' Hc; cbn [RevokeLog.chk_all] in Hc.
    - injection Hc as <-. left. reflexivity.
    - destruct (chk g e) as [g1|] eqn:E; [|discriminate].
      destruct (IH _ _ Hc) as [Heq|(n & Hin)]; [|right; exists n; right; exact Hin].
      apply chk_inv in E. destruct e; try (left; rewrite Heq; intuition (subst; reflexivity)).
      right. destruct E as (_ & -> & -> & ->). exists nnd. left. rewrite Heq. reflexivity.
  Qed.

  Lemma rv_witness : forall l g g', chk_all g l = Some g' ->
    p_rv g' = p_rv g \/ In (ValidateRevocation (p_rv g')) l.
  Proof.
    induction l as [|e l IH]; intros g g' Hc; cbn [RevokeLog.chk_all] in Hc.
    - injection Hc as <-. left. reflexivity.
    - destruct (chk g e) as [g1|] eqn:E; [|discriminate].
      destruct (IH _ _ Hc) as [Heq|Hin]; [|right; right; exact Hin].
      apply chk_inv in E. destruct e; try (left; rewrite Heq; intuition (subst; reflexivity)).
      right. left. rewrite Heq. destruct E as (_ & -> & _ & ->). reflexivity.
  Qed.

  (** every number between the final and the initial [p_st] was stored in this log *)
  Lemma store_witness : forall l g g', chk_all g l = Some g' ->
    forall j, p_st g' <= j < p_st g -> exists sec, In (StoreSecret j sec) l.
  Proof.
    induction l as [|e l IH]; intros g g' Hc j Hj; cbn [RevokeLog.chk_all] in Hc.
    - injection Hc as <-. lia.
    - destruct (chk g e) as [g1|] eqn:E; [|discriminate]. apply chk_inv in E.
      destruct e; try (assert (Est : p_st g1 = p_st g) by (intuition (subst; reflexivity));
                       destruct (IH _ _ Hc j ltac:(lia)) as (sec & Hin); exists sec; right; exact Hin).
      destruct E as (_ & Ek & Est & _ & ->).
      destruct (Z.eq_dec j k) as [->|Hne].
      + exists s. left. reflexivity.
      + destruct (IH _ _ Hc j ltac:(sf; lia)) as (sec & Hin). exists sec. right. exact Hin.
  Qed.

  (** every announced pair known at the end was known at the start or announced in this log *)
  Lemma ann_witness : forall l g g', chk_all g l = Some g' ->
    forall kp, In kp (p_ann g') -> In kp (p_ann g) \/ In (Announce (fst kp) (snd kp)) l.
  Proof.
    induction l as [|e l IH]; intros g g' Hc kp Hin; cbn [RevokeLog.chk_all] in Hc.
    - injection Hc as <-. left. exact Hin.
    - destruct (chk g e) as [g1|] eqn:E; [|discriminate]. apply chk_inv in E.
      destruct (IH _ _ Hc kp Hin) as [Hg1|Hl]; [|right; right; exact Hl].
      destruct e; try (left; intuition (subst; exact Hg1)).
      destruct E as (_ & _ & ->). cbn [p_ann] in Hg1. destruct Hg1 as [<-|Hg]; [right; left; reflexivity|left; exact Hg].
  Qed.

  (** announcements are recorded and never forgotten *)
  Lemma ann_mono : forall l g g', chk_all g l = Some g' -> forall kp, In kp (p_ann g) -> In kp (p_ann g').
  Proof.
    induction l as [|e l IH]; intros g g' Hc kp Hin; cbn [RevokeLog.chk_all] in Hc.
    - injection Hc as <-. exact Hin.
    - destruct (chk g e) as [g1|] eqn:E; [|discriminate]. apply chk_inv in E.
      apply (IH _ _ Hc). destruct e; try (intuition (subst; exact Hin)).
      destruct E as (_ & _ & ->). right. exact Hin.
  Qed.

  Lemma ann_recorded : forall l g g' k p, chk_all g l = Some g' -> In (Announce k p) l -> In (k, p) (p_ann g').
  Proof.
    induction l as [|e l IH]; intros g g' k p Hc Hin; [destruct Hin|]. cbn [RevokeLog.chk_all] in Hc.
    destruct (chk g e) as [g1|] eqn:E; [|discriminate]. destruct Hin as [->|Hin]; [|apply (IH _ _ _ _ Hc Hin)].
    apply chk_inv in E. destruct E as (_ & _ & ->). apply (ann_mono _ _ _ Hc). left. reflexivity.
  Qed.

  Lemma announced_In a k p : announced a k p = true -> In (k, p) a.
  Proof.
    unfold RevokeLog.announced. intros H. apply existsb_exists in H. destruct H as ([k' p'] & Hin & Hc).
    cbn [fst snd] in Hc. apply andb_true_iff in Hc. destruct Hc as [Hk Hp].
    apply Z.eqb_eq in Hk. apply point_eqb_eq in Hp. subst. exact Hin.
  Qed.

  (** ** The property, read off an accepted log *)
  Section Accepted.
    Variable log : list ev.
    Variable gfin : pol.
    Hypothesis Hacc : chk_all (pol_init point) log = Some gfin.

    Lemma acc_release pre k post : log = pre ++ Release k :: post ->
      (exists n, In (ValidateHolder (k - 1) n n) pre) /\
      (forall k', ~ In (SignHolder k') pre) /\
      (forall k', In (SignHolder k') post -> k' < k) /\
      k = INITIAL + 1 - count is_vh pre.
    Proof.
      intros ->. destruct (chk_all_split _ _ _ _ _ Hacc) as (g1 & g2 & Hpre & He & Hpost).
      apply chk_inv in He. destruct He as (Hs & Hk & Hle & ->).
      destruct (chk_all_counts _ _ _ Hpre) as (Hv & _ & _). cbn [pol_init p_vh] in Hv.
      split; [|split; [|split]].
      - destruct (vh_witness _ _ _ Hpre) as [Heq|Hin]; [cbn [pol_init p_vh] in Heq; lia|].
        replace (k - 1) with (p_vh g1) by lia. exact Hin.
      - intros k' Hin. destruct (sign_holder_signs _ _ _ _ Hpre Hin) as [Hs' _]. congruence.
      - intros k' Hin. destruct (sign_holder_signs _ _ _ _ Hpost Hin) as [_ Hb]. lia.
      - lia.
    Qed.

    Lemma acc_sign_holder pre k post : log = pre ++ SignHolder k :: post ->
      k = INITIAL - count is_vh pre /\
      (forall j, In (Release j) pre -> k < j) /\
      (forall e, In e post -> is_sign_holder e = true).
    Proof.
      intros ->. destruct (chk_all_split _ _ _ _ _ Hacc) as (g1 & g2 & Hpre & He & Hpost).
      apply chk_inv in He. destruct He as (Hk & ->).
      destruct (chk_all_counts _ _ _ Hpre) as (Hv & _ & _). cbn [pol_init p_vh] in Hv.
      split; [lia|]. split.
      - intros j Hin. apply in_split in Hin. destruct Hin as (l1 & l2 & ->).
        destruct (chk_all_split _ _ _ _ _ Hpre) as (h1 & h2 & Hl1 & Hr & Hl2).
        apply chk_inv in Hr. destruct Hr as (_ & Hj & _ & ->).
        destruct (chk_all_counts _ _ _ Hl2) as (Hv2 & _ & _).
        assert (0 <= count is_vh l2) by (unfold count; lia). lia.
      - apply (signed_sticky _ _ _ Hpost). reflexivity.
    Qed.

    Lemma acc_sign_counterparty pre k post : log = pre ++ SignCounterparty k :: post ->
      (forall j, k + 2 <= j <= INITIAL -> exists sec, In (StoreSecret j sec) pre) /\
      k = INITIAL - 1 - count is_store pre.
    Proof.
      intros ->. destruct (chk_all_split _ _ _ _ _ Hacc) as (g1 & g2 & Hpre & He & Hpost).
      apply chk_inv in He. destruct He as (Hs & Hk & ->).
      destruct (chk_all_counts _ _ _ Hpre) as (_ & Hst & _). cbn [pol_init p_st] in Hst.
      split; [|lia]. intros j Hj. apply (store_witness _ _ _ Hpre). cbn [pol_init p_st]. lia.
    Qed.

    Lemma acc_validate_holder pre k nsig nnd post : log = pre ++ ValidateHolder k nsig nnd :: post ->
      k = INITIAL - 1 - count is_vh pre /\ nsig = nnd.
    Proof.
      intros ->. destruct (chk_all_split _ _ _ _ _ Hacc) as (g1 & g2 & Hpre & He & Hpost).
      apply chk_inv in He. destruct He as (Hs & Hk & Hn & ->).
      destruct (chk_all_counts _ _ _ Hpre) as (Hv & _ & _). cbn [pol_init p_vh] in Hv. split; [lia|exact Hn].
    Qed.

    Lemma acc_validate_revocation pre k post : log = pre ++ ValidateRevocation k :: post ->
      k = INITIAL - count is_vr pre /\ count is_store pre = count is_vr pre.
    Proof.
      intros ->. destruct (chk_all_split _ _ _ _ _ Hacc) as (g1 & g2 & Hpre & He & Hpost).
      apply chk_inv in He. destruct He as (Hs & Hk & Heq & ->).
      destruct (chk_all_counts _ _ _ Hpre) as (_ & Hst & Hrv). cbn [pol_init p_st p_rv] in *. lia.
    Qed.

    Lemma acc_announce pre k p post : log = pre ++ Announce k p :: post ->
      forall p', ~ In (Announce k p') pre.
    Proof.
      intros -> p' Hin. destruct (chk_all_split _ _ _ _ _ Hacc) as (g1 & g2 & Hpre & He & Hpost).
      apply chk_inv in He. destruct He as (_ & Hfresh & _).
      pose proof (ann_recorded _ _ _ _ _ Hpre Hin) as Hrec.
      unfold has_key in Hfresh. assert (Ht : existsb (fun kp : Z * point => fst kp =? k) (p_ann g1) = true).
      { apply existsb_exists. exists (k, p'). split; [exact Hrec|]. apply Z.eqb_refl. }
      congruence.
    Qed.

    Lemma acc_store pre k sec post : log = pre ++ StoreSecret k sec :: post ->
      In (Announce k (pub sec)) pre /\
      In (ValidateRevocation k) pre /\
      k = INITIAL - count is_store pre.
    Proof.
      intros ->. destruct (chk_all_split _ _ _ _ _ Hacc) as (g1 & g2 & Hpre & He & Hpost).
      apply chk_inv in He. destruct He as (Hs & Hk & Hst & Hann & ->).
      destruct (chk_all_counts _ _ _ Hpre) as (_ & Hst' & Hrv'). cbn [pol_init p_st p_rv] in *.
      split; [|split; [|lia]].
      - apply announced_In in Hann.
        destruct (ann_witness _ _ _ Hpre _ Hann) as [Hin|Hin]; [destruct Hin|exact Hin].
      - destruct (rv_witness _ _ _ Hpre) as [Heq|Hin]; [|rewrite Hk; exact Hin].
        assert (0 <= count is_store pre) by (unfold count; lia).
        cbn [pol_init p_rv] in Heq. lia.
    Qed.
  End Accepted.

  (* ---------------------------------------------------------------------------------------- *)
  (** * The reestablish decision table: the channel resumes only from {ours, ours - 1} *)

  Lemma reest_resumes_only_adjacent s nl nr sc :
    closed s = false -> disconnected s = true -> chan_ready (hsk s) = true ->
    let s' := fst (reest_core secret point s nl nr sc) in
    let evs := snd (reest_core secret point s nl nr sc) in
    let our := INITIAL - (holder_next s + 1) in
    let ncp := INITIAL - cp_next s + (if awaiting_rr s then 1 else 0) in
    closed s' = false -> disconnected s' = false ->
    (nr = our \/ nr + 1 = our) /\ (nl = ncp \/ nl = ncp - 1) /\
    (nr = 0 \/ sc = SecMatch) /\
    holder_next s' = holder_next s /\ cp_next s' = cp_next s /\ awaiting_rr s' = awaiting_rr s /\
    (forall e, In e evs -> (e = Release (holder_next s + 2) /\ nr + 1 = our) \/
                           (e = SignCounterparty (cp_next s) /\ nl = ncp - 1)).
  Proof.
    intros Hc Hd Hready. cbv zeta. unfold reest_core. rewrite Hd. cbn [negb].
    destruct ((nl <? 0) || (nr <? 0)) eqn:Hrange; [cbn [fst snd]; congruence|].
    destruct ((nl =? 0) || (INITIAL <=? nl) || (INITIAL <=? nr)); [cbn [fst snd closed close]; discriminate|].
    destruct ((0 <? nr) && match sc with SecGarbage => true | _ => false end) eqn:Hg;
      [cbn [fst snd closed close]; discriminate|].
    destruct ((0 <? nr) && (INITIAL - (holder_next s + 1) <? nr)) eqn:Hbehind.
    { destruct sc; cbn [fst snd closed close]; discriminate. }
    destruct ((0 <? nr) && ((nr =? INITIAL - (holder_next s + 1)) || (nr + 1 =? INITIAL - (holder_next s + 1)))
              && negb match sc with SecMatch => true | _ => false end) eqn:Hsec;
      [cbn [fst snd closed close]; discriminate|].
    destruct (Z.ltb_spec (nr + 1) (INITIAL - (holder_next s + 1))) as [_|Hnr]; [cbn [fst snd]; congruence|].
    rewrite Hready. cbn [negb]. unfold reest_revoke. sf.
    assert (Hsc : nr = 0 \/ sc = SecMatch).
    { destruct (Z.eq_dec nr 0); [left; assumption|right].
      destruct sc; try reflexivity; exfalso.
      - replace (0 <? nr) with true in Hg by lia. discriminate.
      - replace (0 <? nr) with true in Hbehind, Hsec by lia. cbn [negb andb] in *.
        rewrite andb_true_r in Hsec. lia. }
    destruct (Z.eqb_spec nr (INITIAL - (holder_next s + 1))) as [Enr|Nnr].
    - unfold reest_commit. sf.
      destruct (Z.eqb_spec nl (INITIAL - cp_next s + (if awaiting_rr s then 1 else 0))) as [Enl|Nnl].
      + cbn [fst snd]. sf. intros _ _. repeat split; auto. intros e [].
      + destruct (Z.eqb_spec nl (INITIAL - cp_next s + (if awaiting_rr s then 1 else 0) - 1)) as [Enl1|_];
          [|cbn [fst snd closed close]; discriminate].
        destruct (mon_in_progress s); cbn [fst snd app]; sf; intros _ _; repeat split; auto.
        * intros e [].
        * unfold last_cs. sf. intros e [<-|[]]. right. split; [reflexivity|exact Enl1].
    - destruct (Z.eqb_spec (nr + 1) (INITIAL - (holder_next s + 1))) as [Enr1|_];
        [|cbn [fst snd closed close]; discriminate].
      destruct (mon_in_progress s) eqn:Em; unfold reest_commit; sf;
        destruct (Z.eqb_spec nl (INITIAL - cp_next s + (if awaiting_rr s then 1 else 0))) as [Enl|Nnl];
        try (destruct (Z.eqb_spec nl (INITIAL - cp_next s + (if awaiting_rr s then 1 else 0) - 1)) as [Enl1|_];
             [|cbn [fst snd closed close]; discriminate]);
        rewrite ?Em; cbn [fst snd app]; sf; intros _ _; repeat split; auto; unfold last_raa, last_cs; sf.
      + intros e [].
      + intros e [].
      + intros e [<-|[]]. left. split; [reflexivity|exact Enr1].
      + intros e [<-|[<-|[]]]; [left|right]; split; auto.
  Qed.

  (** * A re-sent channel_ready never replaces the peer's points, in ANY funding-flag state

      Once the peer's channel_ready has been taken into account (the channel is [ChannelReady], or it
      is [AwaitingChannelReady] with [THEIR_CHANNEL_READY] and without [OUR_CHANNEL_READY] -- with or
      without [WAITING_FOR_BATCH]), another channel_ready, whatever point it carries and whatever
      the other flags are, leaves both stored points untouched, announces nothing, and either is a
      no-op or closes the channel. *)
  Lemma channel_ready_points_immutable s p :
    closed s = false -> disconnected s = false ->
    (chan_ready (hsk s) = true \/ (their_ready (hsk s) = true /\ our_ready (hsk s) = false)) ->
    let s' := fst (step s (ORecvChannelReady p)) in
    let evs := snd (step s (ORecvChannelReady p)) in
    cp_cur_point s' = cp_cur_point s /\ cp_next_point s' = cp_next_point s /\ hsk s' = hsk s /\
    (forall k q, ~ In (Announce k q) evs) /\
    (closed s' = false -> s' = s /\ evs = []).
  Proof.
    intros Hc Hd Hph. cbv zeta. unfold step. rewrite Hc. unfold RevokeLog.recv_channel_ready. rewrite Hd.
    set (dec := if chan_ready (hsk s) then _ else _).
    assert (E : fst dec = true).
    { unfold dec. destruct Hph as [->|[-> ->]]; [reflexivity|]. destruct (chan_ready (hsk s)); reflexivity. }
    rewrite E. destruct (opt_point_eqb _ _ _ _); cbn [fst snd close]; sf.
    - repeat split; auto; try (intros k q []).
    - destruct (chan_ready (hsk s) || negb (wfb (hsk s)));
        repeat split; auto; try discriminate; try (intros k q [H|[]]; discriminate H); try (intros k q []).
  Qed.

  (* ---------------------------------------------------------------------------------------- *)
  (** * Statements about every run of the machine *)

  Definition machine_log (batch : bool) (p0 : point) (ops : list op) : list ev :=
    snd (run (init secret point batch p0) (init_log secret point p0) ops).

  Lemma run_release_after_newer batch p0 ops pre k post :
    machine_log batch p0 ops = pre ++ Release k :: post ->
    (exists n, In (ValidateHolder (k - 1) n n) pre) /\
    (forall k', ~ In (SignHolder k') pre) /\
    (forall k', In (SignHolder k') post -> k' < k).
  Proof.
    intros E. destruct (policy_holds batch p0 ops) as (g & Hg).
    destruct (acc_release _ _ Hg pre k post E) as (H1 & H2 & H3 & _). auto.
  Qed.

  Lemma run_sign_holder_unrevoked batch p0 ops pre k post :
    machine_log batch p0 ops = pre ++ SignHolder k :: post ->
    (forall j, In (Release j) pre -> k < j) /\
    (forall e, In e post -> exists k', e = SignHolder k').
  Proof.
    intros E. destruct (policy_holds batch p0 ops) as (g & Hg).
    destruct (acc_sign_holder _ _ Hg pre k post E) as (_ & H2 & H3). split; [exact H2|].
    intros e Hin. specialize (H3 e Hin). destruct e; try discriminate. eexists; reflexivity.
  Qed.

  Lemma run_single_outstanding batch p0 ops pre k post :
    machine_log batch p0 ops = pre ++ SignCounterparty k :: post ->
    forall j, k + 2 <= j <= INITIAL -> exists sec, In (StoreSecret j sec) pre.
  Proof.
    intros E. destruct (policy_holds batch p0 ops) as (g & Hg).
    exact (proj1 (acc_sign_counterparty _ _ Hg pre k post E)).
  Qed.

  Lemma run_step_by_one batch p0 ops pre e post :
    machine_log batch p0 ops = pre ++ e :: post ->
    match e with
    | ValidateHolder k nsig nnd => k = INITIAL - 1 - count is_vh pre /\ nsig = nnd
    | Release k => k = INITIAL + 1 - count is_vh pre
    | SignHolder k => k = INITIAL - count is_vh pre
    | ValidateRevocation k => k = INITIAL - count is_vr pre /\ count is_store pre = count is_vr pre
    | StoreSecret k _ => k = INITIAL - count is_store pre
    | SignCounterparty k => k = INITIAL - 1 - count is_store pre
    | Announce _ _ => True
    end.
  Proof.
    intros E. destruct (policy_holds batch p0 ops) as (g & Hg). destruct e.
    - exact (proj2 (proj2 (proj2 (acc_release _ _ Hg _ _ _ E)))).
    - exact (acc_validate_holder _ _ Hg _ _ _ _ _ E).
    - exact (proj2 (acc_sign_counterparty _ _ Hg _ _ _ E)).
    - exact (proj1 (acc_sign_holder _ _ Hg _ _ _ E)).
    - exact (acc_validate_revocation _ _ Hg _ _ _ E).
    - exact (proj2 (proj2 (acc_store _ _ Hg _ _ _ _ E))).
    - exact I.
  Qed.

  Lemma run_secret_checked batch p0 ops pre k sec post :
    machine_log batch p0 ops = pre ++ StoreSecret k sec :: post ->
    In (Announce k (pub sec)) pre /\ In (ValidateRevocation k) pre.
  Proof.
    intros E. destruct (policy_holds batch p0 ops) as (g & Hg).
    destruct (acc_store _ _ Hg _ _ _ _ E) as (H1 & H2 & _). auto.
  Qed.

  (** the point of a commitment number is announced at most once: it can never be replaced *)
  Lemma run_announce_once batch p0 ops pre k p post :
    machine_log batch p0 ops = pre ++ Announce k p :: post ->
    forall p', ~ In (Announce k p') pre.
  Proof.
    intros E. destruct (policy_holds batch p0 ops) as (g & Hg). exact (acc_announce _ _ Hg _ _ _ _ E).
  Qed.

  (** the counters are the initial value minus the number of validated / stored events *)
  Lemma run_counters batch p0 ops :
    let s := fst (run (init secret point batch p0) (init_log secret point p0) ops) in
    let log := machine_log batch p0 ops in
    holder_next s = INITIAL - 1 - count is_vh log /\
    (closed s = false -> cp_next s = INITIAL - 1 - count is_store log).
  Proof.
    cbv zeta. destruct (R_init batch p0) as (g0 & Hg0 & HR0).
    destruct (run_sim ops _ _ g0 Hg0 HR0) as (g & Hg & HR). unfold machine_log.
    destruct (chk_all_counts _ _ _ Hg) as (Hv & Hst & _). cbn [pol_init p_vh p_st] in *.
    split.
    - pose proof (R_vh _ _ HR). lia.
    - intros Hc. pose proof (R_st _ _ HR Hc). lia.
  Qed.
End Proofs.

Arguments count {secret point} f l.
Arguments is_vh {secret point} e.
Arguments is_vr {secret point} e.
Arguments is_store {secret point} e.
Arguments is_sign_holder {secret point} e.

(* ------------------------------------------------------------------------------------------ *)
(** * A refuted statement (witness replayed on the real code by harness/src/bin/h_reest_probe.rs)

    "Every counterparty commitment the node signs is one it records as outstanding" is FALSE for
    the machine, hence -- the machine being a transliteration -- suspected false for the code, and
    the witness below was replayed on the unmodified implementation (known finding C05-F1):
    while NOT awaiting a revoke_and_ack, a channel_reestablish whose next_local_commitment_number
    is the number of the last commitment_signed we sent (one less than an in-sync peer says) makes
    [channel_reestablish] call [get_last_commitment_update_for_send], which signs the NEXT,
    never-sent commitment number, without AWAITING_REMOTE_REVOKE and (in the Rust) without any
    ChannelMonitorUpdate. *)
Definition zrun := run Z Z (fun x => x) Z.eqb.
Definition zstep := step Z Z (fun x => x) Z.eqb.

Lemma unrecorded_counterparty_commitment_witness :
  exists (ops : list (op Z Z)) (nl nr : Z),
    let '(s, log) := zrun (init Z Z false 100) (init_log Z Z 100) ops in
    let '(s', evs) := zstep s (ORecvReest nl nr SecMatch) in
    closed s = false /\ awaiting_rr s = false /\ disconnected s = true /\
    ~ In (SignCounterparty (cp_next s)) log /\
    evs = [SignCounterparty (cp_next s)] /\
    closed s' = false /\ awaiting_rr s' = false /\ disconnected s' = false /\ cp_next s' = cp_next s.
Proof.
  exists [OOurChannelReady; ORecvChannelReady 101; OCommit true; ORecvRAA 100 102 true false true;
          ORecvCS true 0 0 true false true; ODisconnect], 1, 1.
  vm_compute. repeat split; try reflexivity.
  intros H. repeat (destruct H as [H|H]; [discriminate H|]). exact H.
Qed.

(* ------------------------------------------------------------------------------------------ *)
(** * Source pins (coq/Gen/C05Pins.v is regenerated from channel.rs on every run)

    The two comparisons the machine transliterates -- [negb (nsig =? nnd)] in [ORecvCS] and
    [their_ready && negb our_ready] (flags with WAITING_FOR_BATCH cleared equal THEIR_CHANNEL_READY)
    in [recv_channel_ready] -- are, in the source, exactly these. *)
Lemma source_pins :
  htlc_sig_count_test = "msg.htlc_signatures.len() != commitment_data.tx.nondust_htlcs().len()"%string /\
  channel_ready_resend_test =
    "flags.clone().clear(AwaitingChannelReadyFlags::WAITING_FOR_BATCH) == AwaitingChannelReadyFlags::THEIR_CHANNEL_READY"%string.
Proof. split; reflexivity. Qed.
