(** C13: statements in the form used by Props/C13.v (oracle universally quantified; instantiated on
    the schemas extracted from the source). *)
Require Import LdkV.Prim.U64 LdkV.Codec.Combinators LdkV.Codec.Tlv LdkV.Codec.Wire.
Require Import LdkV.Proofs.C13Base LdkV.Proofs.C13Tlv LdkV.Proofs.C13Msg LdkV.Gen.MsgSchemas.
Open Scope Z_scope.

Lemma bigsize_nonminimal : forall r,
  (forall x, 0 <= x < 0xFD -> bigsize_dec (0xFD :: be_enc 2 x ++ r) = RErr "InvalidValue") /\
  (forall x, 0 <= x < 0x10000 -> bigsize_dec (0xFE :: be_enc 4 x ++ r) = RErr "InvalidValue") /\
  (forall x, 0 <= x < 0x100000000 -> bigsize_dec (0xFF :: be_enc 8 x ++ r) = RErr "InvalidValue").
Proof.
  intros r. split; [|split]; intros x H.
  - apply bigsize_nonminimal_fd, H.
  - apply bigsize_nonminimal_fe, H.
  - apply bigsize_nonminimal_ff, H.
Qed.

Lemma schemas_wf : forallb schema_wf all_schemas = true /\ types_distinct [] all_schemas = true.
Proof. split; vm_compute; reflexivity. Qed.

Lemma in_all_wf s : In s all_schemas -> schema_wf s = true.
Proof. intros I. destruct schemas_wf as [W _]. rewrite forallb_forall in W. apply W, I. Qed.

Lemma extracted_roundtrip pk s m : In s all_schemas -> msg_dom pk s m = true ->
  msg_dec pk s (msg_enc s m) = ROk (m, []).
Proof. intros I D. apply msg_roundtrip; [apply in_all_wf, I|exact D]. Qed.

Lemma extracted_wire_roundtrip pk s m : In s all_schemas -> msg_dom pk s m = true ->
  wire_dec pk all_schemas (frame_enc s m) = ROk (WKnown s m).
Proof.
  intros I D. apply wire_roundtrip; [apply schemas_wf|exact I|apply in_all_wf, I|exact D].
Qed.

Lemma extracted_unknown_type pk ty payload : 0 <= ty < 65536 ->
  existsb (fun s => s_type s =? ty) all_schemas = false ->
  wire_dec pk all_schemas (be_enc 2 ty ++ payload) = ROk (WUnknown ty).
Proof.
  intros T N. apply wire_unknown; [|exact T].
  induction all_schemas as [|s l IH]; [reflexivity|]. cbn [existsb] in N. apply orb_false_iff in N. destruct N as [N1 N2].
  cbn [find_schema]. rewrite N1. apply IH, N2.
Qed.

(** onion_message (type 513): the packet codec round-trips for ANY hop_data length the u16 packet
    length admits (the packet is version(1) key(33) hop_data hmac(32), i.e. at least 66 bytes) *)
Lemma om_packet_roundtrip pk b rest : 66 <= len b < 65536 -> pk (zdrop 1 (ztake 34 b)) = true ->
  bdec pk BOmPacket (benc BOmPacket (VB b) ++ rest) = ROk (VB b, rest).
Proof.
  intros L V. apply bdec_rt. cbn [bdom]. rewrite V.
  destruct (Z.leb_spec 66 (len b)); [|lia]. destruct (Z.ltb_spec (len b) 65536); [|lia]. reflexivity.
Qed.
Lemma onion_message_roundtrip pk m : msg_dom pk s_OnionMessage m = true ->
  msg_dec pk s_OnionMessage (msg_enc s_OnionMessage m) = ROk (m, []).
Proof. intros D. apply extracted_roundtrip; [unfold all_schemas; cbn [In]; tauto|exact D]. Qed.

(** The recursion bound of the TLV loop does not influence its result. *)
Lemma tlv_fuel_irrelevant pk es f1 f2 last acc b :
  (List.length b <= f1)%nat -> (List.length b <= f2)%nat ->
  tlv_loop pk es f1 last acc b = tlv_loop pk es f2 last acc b.
Proof. apply tlv_loop_fuel. Qed.
