(** C19: crash consistency of [MonitorUpdatingPersister] over the KV specification. *)
Require Import LdkV.Prim.U64 LdkV.Model.KV LdkV.Model.MUP LdkV.Proofs.C19Kv.
Require Import Coq.Sorting.Permutation Coq.Sorting.Sorted.
Open Scope Z_scope.
Local Open Scope list_scope.

Section Proofs.
Variables (St Up : Type).
Variable apply : St -> Up -> St.
Variable uid : Up -> Z.
Variable refuses : St -> Up -> bool.
Variable maxp : Z.
Variable m : Z.   (* the monitor under consideration *)

Notation monitor := (monitor St).
Notation val := (val St Up).
Notation mstore := (store mkey val).
Notation mstate := (sstate mkey val).
Notation mop := (sop mkey val).
Notation get := (kv_get mkey_eqb).

(** The in-memory monitor after applying [u] ([update_monitor] on a consecutive id). *)
Definition upd (mon : monitor) (u : Up) : monitor := {| mid := uid u; mst := apply (mst mon) u |}.

(** [pend] continues [base] with consecutive update ids. *)
Fixpoint chain (base : monitor) (pend : list Up) : Prop :=
  match pend with
  | [] => True
  | u :: r => uid u = mid base + 1 /\ chain (upd base u) r
  end.

Definition touches (k : mkey) : bool :=
  match k with KMon x => x =? m | KUpd x _ => x =? m | _ => false end.

(** What every observable store state satisfies: the stored monitor [base], and the updates [pend]
    that lead from it to the in-memory monitor [fold_left upd pend base]. *)
Record inv (st : mstore) (base : monitor) (pend : list Up) : Prop := {
  i_nodup : NoDup (map fst st);
  i_mon : exists sent, get st (KMon m) = Some (VMon sent base);
  i_chain : chain base pend;
  i_pend : forall u, In u pend -> get st (KUpd m (uid u)) = Some (VUpd u);
  i_above : forall i v, get st (KUpd m i) = Some v -> mid base < i -> exists u, In u pend /\ uid u = i;
  i_acc : forall c u, nth_error pend c = Some u -> refuses (mst (fold_left upd (firstn c pend) base)) u = false }.

Lemma chain_ids base pend : chain base pend ->
  map uid pend = zrange_from (mid base + 1) (List.length pend).
Proof.
  revert base. induction pend as [|u r IH]; intros base C; cbn; auto.
  destruct C as (E & C). rewrite (IH _ C). cbn. rewrite E. reflexivity.
Qed.

Lemma zrange_sorted : forall n s, StronglySorted Z.lt (zrange_from s n).
Proof.
  induction n as [|n IH]; intros s; cbn; constructor; auto.
  rewrite Forall_forall. intros x I.
  assert (G : forall n s x, In x (zrange_from s n) -> s <= x).
  { clear. induction n; cbn; intros s x I; [contradiction|]. destruct I as [<-|I]; [lia|]. apply IHn in I. lia. }
  apply G in I. lia.
Qed.

Lemma apply_updates_chain (st : mstore) : forall pend base,
  chain base pend -> (forall u, In u pend -> get st (KUpd m (uid u)) = Some (VUpd u)) ->
  (forall c u, nth_error pend c = Some u -> refuses (mst (fold_left upd (firstn c pend) base)) u = false) ->
  apply_updates _ _ apply uid refuses st m base (map uid pend) = ROk (fold_left upd pend base).
Proof.
  induction pend as [|u r IH]; intros base C G Acc; cbn [map apply_updates fold_left]; auto.
  destruct C as (E & C). rewrite (G u (or_introl eq_refl)).
  unfold update_monitor.
  replace (uid u =? mid base + 1) with true by (symmetry; apply Z.eqb_eq; exact E).
  pose proof (Acc 0%nat u eq_refl) as A0. cbn in A0. rewrite A0. cbn [negb andb]. rewrite andb_false_r.
  change {| mid := uid u; mst := apply (mst base) u |} with (upd base u).
  apply IH; [exact C | intros u' I; apply G; right; exact I | intros c u' Hn; exact (Acc (S c) u' Hn)].
Qed.

Lemma upd_ids_in (st : mstore) i : In i (upd_ids st m) <-> exists v, In (KUpd m i, v) st.
Proof.
  unfold upd_ids. rewrite in_flat_map. split.
  - intros ([k v] & I & H). cbn in H. destruct k; try contradiction.
    destruct (m0 =? m) eqn:E; [|contradiction]. apply Z.eqb_eq in E. subst. destruct H as [<-|[]]. eauto.
  - intros (v & I). exists (KUpd m i, v). split; auto. cbn. rewrite Z.eqb_refl. left. reflexivity.
Qed.

Lemma upd_ids_nodup (st : mstore) : NoDup (map fst st) -> NoDup (upd_ids st m).
Proof.
  unfold upd_ids. induction st as [|[k v] st IH]; cbn; [constructor|].
  intros ND. inversion ND as [|? ? Hn ND']; subst. specialize (IH ND').
  destruct k; cbn; auto. destruct (m0 =? m) eqn:E; cbn; auto. apply Z.eqb_eq in E. subst.
  constructor; auto. intros I. apply Hn. apply upd_ids_in in I. destruct I as (v' & I).
  apply in_map_iff. exists (KUpd m id, v'). auto.
Qed.

(** Recovery on any store satisfying the invariant returns exactly the in-memory monitor. *)
Lemma recover_inv st base pend : inv st base pend ->
  read_with_updates _ _ apply uid refuses st m = ROk (fold_left upd pend base).
Proof.
  intros [ND (sent & Hm) C P A Acc]. unfold read_with_updates. rewrite Hm.
  rewrite (zsort_unique _ (map uid pend)).
  - apply apply_updates_chain; auto.
  - apply NoDup_filter. apply upd_ids_nodup. exact ND.
  - rewrite (chain_ids _ _ C). apply zrange_sorted.
  - intros i. rewrite filter_In, upd_ids_in. split.
    + intros ((v & I) & L). apply in_get in I; auto. destruct (A _ _ I) as (u & Iu & E); [lia|].
      apply in_map_iff. eauto.
    + intros I. apply in_map_iff in I. destruct I as (u & E & Iu). subst i. split.
      * exists (VUpd u). apply get_in. auto.
      * clear - C Iu. revert base C. induction pend as [|u0 r IH]; intros base C; [contradiction|].
        destruct C as (E & C). destruct Iu as [->|Iu]; [lia|]. specialize (IH Iu _ C). cbn in IH. lia.
Qed.

(** * How single store operations move the invariant *)
Notation aop := (apply_sop mkey_eqb).

Definition sinv (s : mstate) (base : monitor) (pend : list Up) : Prop :=
  inv (durable s) base pend /\
  (forall k, In k (limbo s) -> touches k = true -> exists i, k = KUpd m i /\ i <= mid base).

Lemma in_l_del (l : list mkey) k x : In x (l_del mkey_eqb l k) -> In x l.
Proof. unfold l_del. intros H. apply filter_In in H. tauto. Qed.

Lemma fold_upd_mid : forall pend base, chain base pend ->
  mid (fold_left upd pend base) = mid base + Z.of_nat (List.length pend).
Proof.
  induction pend as [|u r IH]; intros base C; cbn [fold_left List.length]; [lia|].
  destruct C as (E & C). rewrite (IH _ C). cbn. lia.
Qed.

Lemma chain_app base pend u : chain base pend -> uid u = mid (fold_left upd pend base) + 1 ->
  chain base (pend ++ [u]).
Proof.
  revert base. induction pend as [|u0 r IH]; intros base C E; cbn in *; auto.
  destruct C as (E0 & C). split; auto.
Qed.

Ltac sc := cbn [apply_sop durable limbo].

Lemma nth_error_snoc {A} (l : list A) x c y : nth_error (l ++ [x]) c = Some y ->
  (nth_error l c = Some y /\ firstn c (l ++ [x]) = firstn c l) \/ (c = List.length l /\ y = x /\ firstn c (l ++ [x]) = l).
Proof.
  intros H. destruct (Nat.lt_ge_cases c (List.length l)).
  - left. rewrite nth_error_app1 in H by lia. split; auto.
    rewrite firstn_app. replace (c - List.length l)%nat with 0%nat by lia. cbn. apply app_nil_r.
  - right. rewrite nth_error_app2 in H by lia.
    destruct (c - List.length l)%nat as [|k] eqn:E; cbn in H; [|destruct k; discriminate].
    inversion H; subst. assert (c = List.length l) by lia. subst c. repeat split; auto.
    rewrite firstn_app, Nat.sub_diag, firstn_all. cbn. apply app_nil_r.
Qed.

(** writing the next update *)
Lemma sinv_write_update s base pend u :
  sinv s base pend -> uid u = mid (fold_left upd pend base) + 1 ->
  refuses (mst (fold_left upd pend base)) u = false ->
  sinv (aop s (SWrite (KUpd m (uid u)) (VUpd u))) base (pend ++ [u]).
Proof.
  intros ([ND (sent & Hm) C P A Acc] & L) E Hacc. split.
  - constructor; sc.
    6:{ intros c x Hn. destruct (nth_error_snoc _ _ _ _ Hn) as [(Hn' & ->)|(-> & -> & ->)]; auto. }
    + apply nodup_set. exact ND.
    + exists sent. rewrite get_set_other by discriminate. exact Hm.
    + apply chain_app; auto.
    + intros u' I. apply in_app_or in I. destruct I as [I|[<-|[]]].
      * rewrite get_set_other; auto. intros Heq. inversion Heq as [Hid].
        pose proof (fold_upd_mid _ _ C).
        assert (mid base < uid u' <= mid base + Z.of_nat (List.length pend)).
        { clear - C I. revert base C. induction pend as [|u0 r IH]; intros base C; [contradiction|].
          destruct C as (E0 & C). destruct I as [->|I]; cbn [List.length]; [lia|].
          specialize (IH I _ C). cbn in IH. cbn [List.length]. lia. }
        lia.
      * apply get_set_same.
    + intros i v G Hi. destruct (Z.eq_dec i (uid u)) as [->|Hne].
      * exists u. split; auto. apply in_or_app. right. left. reflexivity.
      * rewrite get_set_other in G by congruence. destruct (A _ _ G Hi) as (u' & I & E').
        exists u'. split; auto. apply in_or_app. auto.
  - sc. intros k I T. apply in_l_del in I. auto.
Qed.

(** writing a full monitor that is at least as recent as everything stored *)
Lemma sinv_write_monitor s base pend sent mon' :
  sinv s base pend ->
  (forall i v, get (durable s) (KUpd m i) = Some v -> i <= mid mon') ->
  mid base <= mid mon' ->
  sinv (aop s (SWrite (KMon m) (VMon sent mon'))) mon' [].
Proof.
  intros ([ND (sent0 & Hm) C P A Acc] & L) Top Hle. split.
  - constructor; sc.
    + apply nodup_set. exact ND.
    + exists sent. apply get_set_same.
    + exact I.
    + intros u [].
    + intros i v G Hi. rewrite get_set_other in G by discriminate. specialize (Top _ _ G). lia.
    + intros c u Hn. destruct c; discriminate.
  - sc. intros k I T. apply in_l_del in I. destruct (L _ I T) as (i & -> & Hi). exists i. split; auto. lia.
Qed.

(** removing a superseded update, lazily or not *)
Lemma sinv_remove_stale s base pend i lazy :
  sinv s base pend -> i <= mid base -> sinv (aop s (SRemove (KUpd m i) lazy)) base pend.
Proof.
  intros ([ND (sent & Hm) C P A Acc] & L) Hi.
  assert (Hnot : forall u, In u pend -> uid u <> i).
  { intros u I. clear - C I Hi. revert base C Hi. induction pend as [|u0 r IH]; intros base C Hi; [contradiction|].
    destruct C as (E0 & C). destruct I as [->|I]; [lia|]. apply (IH I _ C). cbn. lia. }
  destruct lazy; sc.
  - split; [constructor; auto; eauto|]. sc. intros k [<-|I] T; eauto.
  - split.
    + constructor; sc.
      * apply nodup_del. exact ND.
      * exists sent. rewrite get_del_other by discriminate. exact Hm.
      * exact C.
      * intros u I. rewrite get_del_other; auto. intros Heq. inversion Heq. eapply Hnot; eauto.
      * intros j v G Hj. destruct (Z.eq_dec j i) as [->|Hne]; [lia|].
        rewrite get_del_other in G by congruence. eauto.
      * exact Acc.
    + sc. intros k I T. apply in_l_del in I. auto.
Qed.

(** operations on other keys *)
Lemma sinv_other s base pend o :
  sinv s base pend -> touches (sop_key o) = false -> sinv (aop s o) base pend.
Proof.
  intros ([ND (sent & Hm) C P A Acc] & L) T.
  assert (Hk : forall k', touches k' = true -> k' <> sop_key o) by (intros k' T' ->; congruence).
  assert (TM : touches (KMon m) = true) by (cbn; apply Z.eqb_refl).
  assert (TU : forall i, touches (KUpd m i) = true) by (intros; cbn; apply Z.eqb_refl).
  destruct o as [k v|k [|]]; cbn [sop_key apply_sop durable limbo] in *.
  - split.
    + constructor; sc.
      * apply nodup_set; auto.
      * exists sent. rewrite get_set_other; auto.
      * exact C.
      * intros u I. rewrite get_set_other; auto.
      * intros i v' G Hi. rewrite get_set_other in G; eauto.
      * exact Acc.
    + sc. intros k' I T'. apply in_l_del in I. auto.
  - split; [constructor; auto; eauto|]. sc. intros k' [<-|I] T'; [congruence|auto].
  - split.
    + constructor; sc.
      * apply nodup_del; auto.
      * exists sent. rewrite get_del_other; auto.
      * exact C.
      * intros u I. rewrite get_del_other; auto.
      * intros i v' G Hi. rewrite get_del_other in G; eauto.
      * exact Acc.
    + sc. intros k' I T'. apply in_l_del in I. auto.
Qed.

(** What any observer sees (some limbo keys already gone) still satisfies the invariant. *)
Lemma sinv_view s base pend gone : sinv s base pend -> inv (view mkey_eqb s gone) base pend.
Proof.
  intros ([ND (sent & Hm) C P A Acc] & L).
  set (keep := fun k : mkey => negb (existsb (fun g => mkey_eqb g k) gone && existsb (fun g => mkey_eqb g k) (limbo s))).
  assert (Hv : view mkey_eqb s gone = filter (fun kv => keep (fst kv)) (durable s)) by reflexivity.
  rewrite Hv. clear Hv.
  assert (Hkeep : forall k, touches k = true -> (forall i, k = KUpd m i -> mid base < i) -> keep k = true).
  { intros k T Hi. unfold keep. destruct (existsb (fun g => mkey_eqb g k) (limbo s)) eqn:E.
    - apply existsb_exists in E. destruct E as (g & I & E). apply mkey_eqb_spec in E. subst g.
      destruct (L _ I T) as (i & -> & Hle). specialize (Hi _ eq_refl). lia.
    - rewrite andb_false_r. reflexivity. }
  constructor.
  - apply nodup_filter. exact ND.
  - exists sent. rewrite (get_filter keep). rewrite Hkeep; auto.
    + cbn. apply Z.eqb_refl.
    + intros i Hi. discriminate.
  - exact C.
  - intros u I. rewrite (get_filter keep). rewrite Hkeep; auto.
    + cbn. apply Z.eqb_refl.
    + intros i Hi. inversion Hi; subst i.
      clear - C I. revert base C. induction pend as [|u0 r IH]; intros base C; [contradiction|].
      destruct C as (E0 & C). destruct I as [->|I]; [lia|]. specialize (IH I _ C). cbn in IH. lia.
  - intros i v G Hi. rewrite (get_filter keep) in G. destruct (keep (KUpd m i)); [eauto|discriminate].
  - exact Acc.
Qed.

(** * Histories *)
(** The discipline of [ChainMonitor]: after [persist_new_channel], every [update_persisted_channel]
    carries the next consecutive update together with the in-memory monitor it produced, or no update
    and the current in-memory monitor; clean-ups and traffic on other keys may occur anywhere.
    [call_ok cur c cur']: in-memory monitor before and after the call. *)
Inductive call_ok : monitor -> call St Up -> monitor -> Prop :=
| c_update cur u :
    uid u = mid cur + 1 -> uid u < LEGACY_ID -> refuses (mst cur) u = false ->
    call_ok cur (CUpdate m (Some u) (upd cur u)) (upd cur u)
| c_full cur : call_ok cur (CUpdate m None cur) cur
| c_refused cur u :
    (* [update_monitor] returned Err (the state changed nonetheless): ChainMonitor persists the full monitor *)
    uid u = mid cur + 1 -> uid u < LEGACY_ID -> refuses (mst cur) u = true ->
    call_ok cur (CUpdate m None (upd cur u)) (upd cur u)
| c_cleanup cur lazy gone : call_ok cur (CCleanup lazy gone) cur
| c_other cur ops :
    Forall (fun o => touches (sop_key o) = false) ops -> call_ok cur (COther ops) cur.

Inductive hist_ok : monitor -> list (call St Up) -> monitor -> Prop :=
| h_nil cur : hist_ok cur [] cur
| h_cons cur c cur' rest fin : call_ok cur c cur' -> hist_ok cur' rest fin -> hist_ok cur (c :: rest) fin.

(** every prefix of a call's operations keeps [sinv], ending either still at the old in-memory monitor
    or at the new one *)
Definition mem (base : monitor) (pend : list Up) : monitor := fold_left upd pend base.

Definition sinv_mem (s : mstate) (cur : monitor) : Prop :=
  exists base pend, sinv s base pend /\ mem base pend = cur /\
    (forall i v, get (durable s) (KUpd m i) = Some v -> i <= mid cur).

(** Operations that cannot hurt: anything on other keys, and removals (lazy or not) of updates of [m]
    whose id is at most the stored monitor's. *)
Definition benign (base : monitor) (o : mop) : Prop :=
  touches (sop_key o) = false \/ exists i lazy, o = SRemove (KUpd m i) lazy /\ i <= mid base.

Lemma sinv_benign s base pend o : sinv s base pend -> benign base o -> sinv (aop s o) base pend.
Proof.
  intros SI [T|(i & lazy & -> & Hi)]; [apply sinv_other; auto | apply sinv_remove_stale; auto].
Qed.

Lemma top_benign s base o top : benign base o ->
  (forall i v, get (durable s) (KUpd m i) = Some v -> i <= top) ->
  (forall i v, get (durable (aop s o)) (KUpd m i) = Some v -> i <= top).
Proof.
  intros B Top i v G.
  destruct B as [T|(j & lazy & -> & Hj)].
  - assert (Hk : KUpd m i <> sop_key o) by (intros E; rewrite <- E in T; cbn in T; rewrite Z.eqb_refl in T; discriminate).
    destruct o as [k0 v0|k0 [|]]; cbn [sop_key apply_sop durable] in *.
    + rewrite get_set_other in G; eauto.
    + eauto.
    + rewrite get_del_other in G; eauto.
  - destruct lazy; cbn [apply_sop durable] in G; [eauto|].
    destruct (Z.eq_dec i j) as [->|Hne].
    + rewrite get_del_same in G. discriminate.
    + rewrite get_del_other in G by congruence. eauto.
Qed.

Lemma sinv_mem_benign : forall ops s base pend,
  sinv s base pend ->
  (forall i v, get (durable s) (KUpd m i) = Some v -> i <= mid (mem base pend)) ->
  Forall (benign base) ops ->
  forall k, sinv_mem (apply_sops mkey_eqb s (firstn k ops)) (mem base pend).
Proof.
  induction ops as [|o ops IH]; intros s base pend SI Top F k.
  - rewrite firstn_nil. exists base, pend. auto.
  - destruct k; [exists base, pend; auto|]. cbn [firstn]. unfold apply_sops. cbn [fold_left].
    inversion F as [|? ? B F']; subst.
    apply IH; auto.
    + apply sinv_benign; auto.
    + eapply top_benign; eauto.
Qed.

Lemma zrange_from_bounds : forall n s x, In x (zrange_from s n) -> s <= x < s + Z.of_nat n.
Proof.
  induction n as [|n IH]; intros s x I; cbn in I; [contradiction|].
  destruct I as [<-|I]; [lia|]. apply IH in I. lia.
Qed.

Lemma zrange_incl_le a b x : In x (zrange_incl a b) -> a <= x <= b.
Proof. unfold zrange_incl. intros I. apply zrange_from_bounds in I. lia. Qed.

Lemma mem_app base pend u : mem base (pend ++ [u]) = upd (mem base pend) u.
Proof. unfold mem. rewrite fold_left_app. reflexivity. Qed.

Lemma mem_mid base pend : chain base pend -> mid base <= mid (mem base pend).
Proof. intros C. unfold mem. rewrite (fold_upd_mid _ _ C). lia. Qed.

(** the clean-up issued by [cleanup_stale_updates] over any view is benign *)
Lemma cleanup_stale_benign s base pend gone lazy :
  sinv s base pend -> Forall (benign base) (cleanup_stale_ops _ _ (view mkey_eqb s gone) lazy).
Proof.
  intros SI. pose proof (sinv_view _ _ _ gone SI) as [ND (sent & Hm) _ _ _ _].
  unfold cleanup_stale_ops. rewrite Forall_forall. intros o I.
  apply in_flat_map in I. destruct I as (m' & _ & I).
  destruct (get (view mkey_eqb s gone) (KMon m')) as [[sent' mon'|?|?]|] eqn:G; try contradiction.
  unfold cleanup_to_ops in I. apply in_map_iff in I. destruct I as (i & <- & I). apply filter_In in I.
  destruct I as (_ & Hi). destruct (Z.eq_dec m' m) as [->|Hne].
  - rewrite Hm in G. inversion G; subst. right. exists i, lazy. split; auto. lia.
  - left. cbn. apply Z.eqb_neq. exact Hne.
Qed.

Hypothesis maxp_nonneg : 0 <= maxp.

(** Every prefix of the store operations of one call leaves a state from which every observer
    recovers the in-memory monitor as of before the call, or as of after it. *)
Lemma call_prefix s cur c cur' : sinv_mem s cur -> call_ok cur c cur' ->
  forall k, let s' := apply_sops mkey_eqb s (firstn k (call_ops _ _ uid maxp s c)) in
            sinv_mem s' cur' \/ (k = 0%nat /\ sinv_mem s' cur).
Proof.
  intros (base & pend & SI & M & Top) OK k. cbv zeta.
  destruct k as [|k]; [right; split; auto; exists base, pend; auto|]. left.
  pose proof SI as ([_ _ C _ _ _] & _).
  inversion OK as [? u Eu Hl Hr | ? | ? u Eu Hl Hr | ? lazy gone | ? ops Fo]; subst; cbn [call_ops].
  - (* update *)
    unfold update_ops.
    destruct (negb (uid u =? LEGACY_ID) && negb (maxp =? 0) && negb (uid u mod maxp =? 0)) eqn:D.
    + (* update only *)
      cbn [firstn]. rewrite firstn_nil. unfold apply_sops. cbn [fold_left].
      exists base, (pend ++ [u]). split; [|split].
      * apply sinv_write_update; auto.
      * apply mem_app.
      * intros i v G. cbn [apply_sop durable limbo] in G. cbn [upd mid]. destruct (Z.eq_dec i (uid u)) as [->|Hne]; [lia|].
        rewrite get_set_other in G by congruence. specialize (Top _ _ G). lia.
    + (* full monitor, then in-range clean-up *)
      cbn [mid upd]. replace (uid u =? LEGACY_ID) with false by (symmetry; apply Z.eqb_neq; lia).
      unfold persist_new_ops. cbn [app firstn]. unfold apply_sops. cbn [fold_left].
      assert (SI1 : sinv (aop s (SWrite (KMon m) (VMon (negb (maxp =? 0)) (upd (mem base pend) u)))) (upd (mem base pend) u) []).
      { eapply sinv_write_monitor; eauto.
        - intros i v G. specialize (Top _ _ G). cbn. lia.
        - pose proof (mem_mid _ _ C). cbn. lia. }
      apply (sinv_mem_benign _ _ _ [] SI1).
      * intros i v G. cbn [apply_sop durable limbo] in G. rewrite get_set_other in G by discriminate. specialize (Top _ _ G). cbn. lia.
      * unfold cleanup_in_range_ops. rewrite Forall_forall. intros o I. apply in_map_iff in I.
        destruct I as (i & <- & I). apply zrange_incl_le in I. right. exists i, true. split; auto. cbn. lia.
  - (* full monitor re-persist *)
    unfold update_ops, persist_new_ops. cbn [firstn]. rewrite firstn_nil. unfold apply_sops. cbn [fold_left].
    exists (mem base pend), []. split; [|split; auto].
    + eapply sinv_write_monitor; eauto. apply mem_mid; auto.
    + intros i v G. cbn [apply_sop durable limbo] in G. rewrite get_set_other in G by discriminate. eauto.
  - (* refused update: the full (changed) monitor is persisted, no incremental update *)
    unfold update_ops, persist_new_ops. cbn [firstn]. rewrite firstn_nil. unfold apply_sops. cbn [fold_left].
    exists (upd (mem base pend) u), []. split; [|split; auto].
    + eapply sinv_write_monitor; eauto.
      * intros i v G. specialize (Top _ _ G). cbn. lia.
      * pose proof (mem_mid _ _ C). cbn. lia.
    + intros i v G. cbn [apply_sop durable limbo] in G. rewrite get_set_other in G by discriminate.
      specialize (Top _ _ G). cbn. lia.
  - (* clean-up of stale updates *)
    apply sinv_mem_benign; auto. eapply cleanup_stale_benign; eauto.
  - (* other traffic *)
    apply sinv_mem_benign; auto. rewrite Forall_forall in *. intros o I. left. auto.
Qed.

Lemma call_full s cur c cur' : sinv_mem s cur -> call_ok cur c cur' -> sinv_mem (run_call _ _ uid maxp s c) cur'.
Proof.
  intros H OK. unfold run_call.
  destruct (call_prefix _ _ _ _ H OK (S (List.length (call_ops _ _ uid maxp s c)))) as [R|(E & _)]; [|discriminate].
  cbv zeta in R. rewrite firstn_all2 in R by lia. exact R.
Qed.

Lemma hist_full : forall cs s cur fin, sinv_mem s cur -> hist_ok cur cs fin -> sinv_mem (run _ _ uid maxp s cs) fin.
Proof.
  induction cs as [|c cs IH]; intros s cur fin H HO; inversion HO; subst; cbn; auto.
  eapply IH; eauto. eapply call_full; eauto.
Qed.

Lemma sinv_init mon0 :
  sinv_mem (run_call _ _ uid maxp {| durable := []; limbo := [] |} (CNew m mon0)) mon0.
Proof.
  exists mon0, []. unfold run_call. cbn. split; [|split; auto].
  - split.
    + constructor; cbn.
      * constructor; [intros []|constructor].
      * exists (negb (maxp =? 0)). unfold kv_get. cbn. rewrite Z.eqb_refl. reflexivity.
      * exact I.
      * intros u [].
      * intros i v G. unfold kv_get in G. cbn in G. discriminate.
      * intros c u Hn. destruct c; discriminate.
    + cbn. intros k [].
  - intros i v G. unfold kv_get in G. cbn in G. discriminate.
Qed.

(** Main theorem: crash after any number [k] of store operations of the call that follows the
    completed history, any subset [gone] of the pending lazy removals applied. *)
Theorem crash_consistent mon0 cs c before after k gone :
  hist_ok mon0 cs before -> call_ok before c after ->
  let s := crash_state _ _ uid maxp (CNew m mon0 :: cs) c k in
  read_with_updates _ _ apply uid refuses (view mkey_eqb s gone) m = ROk after \/
  (k = 0%nat /\ read_with_updates _ _ apply uid refuses (view mkey_eqb s gone) m = ROk before).
Proof.
  intros HO OK. cbv zeta. unfold crash_state. cbn [run fold_left].
  pose proof (hist_full cs _ _ _ (sinv_init mon0) HO) as H.
  destruct (call_prefix _ _ _ _ H OK k) as [(base & pend & SI & M & _)|(E & base & pend & SI & M & _)]; cbv zeta in *.
  - left. rewrite <- M. apply recover_inv. apply sinv_view. exact SI.
  - right. split; auto. rewrite <- M. apply recover_inv. apply sinv_view. exact SI.
Qed.

(** Every incremental update found in the store after a history re-applies successfully, in order, to
    the stored full monitor it follows (none of them is one that [update_monitor] refuses). *)
Theorem stored_updates_reapply mon0 cs fin :
  hist_ok mon0 cs fin ->
  let s := run _ _ uid maxp {| durable := []; limbo := [] |} (CNew m mon0 :: cs) in
  exists sent base pend,
    get (durable s) (KMon m) = Some (VMon sent base) /\ mem base pend = fin /\ chain base pend /\
    (forall u, In u pend -> get (durable s) (KUpd m (uid u)) = Some (VUpd u)) /\
    (forall i v, get (durable s) (KUpd m i) = Some v -> mid base < i -> exists u, In u pend /\ uid u = i) /\
    (forall c u, nth_error pend c = Some u -> refuses (mst (mem base (firstn c pend))) u = false).
Proof.
  intros HO. cbv zeta. cbn [run fold_left].
  destruct (hist_full cs _ _ _ (sinv_init mon0) HO) as (base & pend & ([ND (sent & Hm) C P A Acc] & _) & M & _).
  exists sent, base, pend. repeat split; auto.
Qed.

(** * Asynchronous store with in-order completion = a prefix of the issued operations *)
Inductive mem_reached : monitor -> list (call St Up) -> monitor -> Prop :=
| mr_here cur cs : mem_reached cur cs cur
| mr_step cur c cur' cs r : call_ok cur c cur' -> mem_reached cur' cs r -> mem_reached cur (c :: cs) r.

Lemma issued_prefix : forall cs s cur fin k,
  sinv_mem s cur -> hist_ok cur cs fin ->
  exists r, sinv_mem (apply_sops mkey_eqb s (firstn k (issued _ _ uid maxp s cs))) r /\ mem_reached cur cs r.
Proof.
  induction cs as [|c cs IH]; intros s cur fin k H HO; cbn [issued].
  - rewrite firstn_nil. exists cur. split; auto. constructor.
  - inversion HO as [|? ? cur' ? ? OK HO']; subst.
    destruct (Nat.le_gt_cases k (List.length (call_ops _ _ uid maxp s c))) as [Hle|Hgt].
    + rewrite firstn_app. replace (k - List.length (call_ops _ _ uid maxp s c))%nat with 0%nat by lia.
      cbn [firstn]. rewrite app_nil_r.
      destruct (call_prefix _ _ _ _ H OK k) as [R|(_ & R)]; cbv zeta in R.
      * exists cur'. split; auto. econstructor; eauto. constructor.
      * exists cur. split; auto. constructor.
    + rewrite firstn_app. rewrite (firstn_all2 (call_ops _ _ uid maxp s c)) by lia.
      unfold apply_sops. rewrite fold_left_app.
      change (fold_left (apply_sop mkey_eqb) (call_ops _ _ uid maxp s c) s) with (run_call _ _ uid maxp s c).
      destruct (IH _ _ _ (k - List.length (call_ops _ _ uid maxp s c))%nat (call_full _ _ _ _ H OK) HO') as (r & R & MR).
      exists r. split; auto. econstructor; eauto.
Qed.

(** If the issued operations complete in issue order, the crash state of a node with an asynchronous
    store is a prefix state, and recovery returns one of the in-memory monitors of the history. *)
Theorem async_inorder mon0 cs fin k gone :
  hist_ok mon0 cs fin -> (1 <= k)%nat ->
  let s := apply_sops mkey_eqb empty_state (firstn k (issued _ _ uid maxp empty_state (CNew m mon0 :: cs))) in
  exists r, read_with_updates _ _ apply uid refuses (view mkey_eqb s gone) m = ROk r /\ mem_reached mon0 cs r.
Proof.
  intros HO Hk. cbv zeta. cbn [issued call_ops]. unfold persist_new_ops.
  destruct k as [|k]; [lia|]. cbn [app firstn]. unfold apply_sops. cbn [fold_left].
  change (apply_sop mkey_eqb empty_state (SWrite (KMon m) (VMon (negb (maxp =? 0)) mon0)))
    with (run_call _ _ uid maxp empty_state (CNew m mon0)).
  destruct (issued_prefix cs _ _ _ k (sinv_init mon0) HO) as (r & (base & pend & SI & M & _) & MR).
  exists r. split; auto. rewrite <- M. apply recover_inv. apply sinv_view. exact SI.
Qed.

(** * Recovery from a store that holds only SOME of the updates (asynchronous durability) *)
Definition present (st : mstore) (i : Z) : Prop := exists v, get st (KUpd m i) = Some v.

(** like [inv], but the updates of [pend] need not all be present *)
Record ainv (st : mstore) (base : monitor) (pend : list Up) : Prop := {
  a_nodup : NoDup (map fst st);
  a_mon : exists sent, get st (KMon m) = Some (VMon sent base);
  a_chain : chain base pend;
  a_legacy : forall u, In u pend -> uid u < LEGACY_ID;
  a_above : forall i v, get st (KUpd m i) = Some v -> mid base < i ->
            exists u, In u pend /\ uid u = i /\ v = VUpd u;
  a_acc : forall c u, nth_error pend c = Some u -> (exists v, get st (KUpd m (uid u)) = Some v) ->
          refuses (mst (fold_left upd (firstn c pend) base)) u = false }.

Lemma chain_in_range : forall pend base u, chain base pend -> In u pend ->
  mid base < uid u <= mid base + Z.of_nat (List.length pend).
Proof.
  induction pend as [|u0 r IH]; intros base u C I; [contradiction|].
  destruct C as (E0 & C). destruct I as [->|I]; cbn [List.length]; [lia|].
  specialize (IH _ _ C I). cbn in IH. lia.
Qed.

Lemma chain_head_unique base u r u' : chain base (u :: r) -> In u' (u :: r) -> uid u' = uid u -> u' = u.
Proof.
  intros (E & C) [<-|I] Eu; auto. pose proof (chain_in_range _ _ _ C I) as H. cbn in H. lia.
Qed.

Lemma apply_gappy (st : mstore) : forall pend base L,
  chain base pend -> (forall u, In u pend -> uid u < LEGACY_ID) ->
  StronglySorted Z.lt L ->
  (forall i, In i L -> mid base < i /\ exists u, In u pend /\ uid u = i /\ get st (KUpd m i) = Some (VUpd u)) ->
  (forall u, In u pend -> present st (uid u) -> In (uid u) L) ->
  (forall c u, nth_error pend c = Some u -> present st (uid u) ->
               refuses (mst (fold_left upd (firstn c pend) base)) u = false) ->
  exists c, apply_updates _ _ apply uid refuses st m base L = ROk (mem base (firstn c pend)) /\
            (forall u, In u (firstn c pend) -> present st (uid u)) /\
            (forall u, nth_error pend c = Some u -> ~ present st (uid u)).
Proof.
  induction pend as [|u r IH]; intros base L C Leg SL HL HP Acc.
  - destruct L as [|i L'].
    + exists 0%nat. cbn. repeat split; auto; intros; try contradiction; discriminate.
    + exfalso. destruct (HL i (or_introl eq_refl)) as (_ & u & [] & _).
  - destruct L as [|i L'].
    + exists 0%nat. cbn. repeat split; auto; [intros ? []|].
      intros u0 E P. inversion E; subst u0. apply (HP u (or_introl eq_refl)) in P. contradiction.
    + destruct (HL i (or_introl eq_refl)) as (Hi & u' & Iu' & Eu' & Gu').
      pose proof C as (E & C').
      apply StronglySorted_inv in SL. destruct SL as (SL' & FL). rewrite Forall_forall in FL.
      destruct (Z.eq_dec i (mid base + 1)) as [Ei|Ni].
      * (* the next consecutive update is present: apply it *)
        assert (u' = u) by (eapply chain_head_unique; eauto; lia). subst u'.
        cbn [apply_updates]. rewrite Gu'. unfold update_monitor.
        replace (uid u =? mid base + 1) with true by (symmetry; apply Z.eqb_eq; lia).
        rewrite andb_false_r.
        assert (A0 : refuses (mst base) u = false).
        { apply (Acc 0%nat u eq_refl). exists (VUpd u). rewrite Eu'. exact Gu'. }
        rewrite A0. change {| mid := uid u; mst := apply (mst base) u |} with (upd base u).
        destruct (IH (upd base u) L' C' (fun x Ix => Leg x (or_intror Ix)) SL') as (c & Hc & Hp & Hn).
        -- intros j Ij. specialize (FL _ Ij). destruct (HL j (or_intror Ij)) as (_ & uj & Iuj & Euj & Guj).
           split; [cbn; lia|]. exists uj. repeat split; auto.
           destruct Iuj as [<-|Iuj]; auto. lia.
        -- intros x Ix Px. destruct (HP x (or_intror Ix) Px) as [Ex|Ix']; auto.
           pose proof (chain_in_range _ _ _ C' Ix) as R. cbn in R. lia.
        -- intros c0 x Hn0 Px. exact (Acc (S c0) x Hn0 Px).
        -- exists (S c). cbn [firstn nth_error]. split; [exact Hc|]. split; auto.
           intros x [<-|Ix]; auto. exists (VUpd u). rewrite Eu'. exact Gu'.
      * (* a gap: stop here *)
        cbn [apply_updates]. rewrite Gu'.
        replace (uid u' =? LEGACY_ID) with false by (symmetry; apply Z.eqb_neq; specialize (Leg _ Iu'); lia).
        replace (uid u' =? mid base + 1) with false by (symmetry; apply Z.eqb_neq; lia).
        cbn [negb andb]. exists 0%nat. cbn. repeat split; auto; [intros ? []|].
        intros u0 E0 P. inversion E0; subst u0. apply (HP u (or_introl eq_refl)) in P.
        destruct P as [P|P]; [lia|]. specialize (FL _ P). lia.
Qed.

(** Recovery from any such store returns the in-memory monitor obtained by applying the longest
    consecutive run of present updates: never a panic, never an error. *)
Lemma recover_gappy st base pend : ainv st base pend ->
  exists c, read_with_updates _ _ apply uid refuses st m = ROk (mem base (firstn c pend)) /\
            (forall u, In u (firstn c pend) -> present st (uid u)) /\
            (forall u, nth_error pend c = Some u -> ~ present st (uid u)).
Proof.
  intros [ND (sent & Hm) C Leg A Acc]. unfold read_with_updates. rewrite Hm.
  apply apply_gappy; auto.
  - apply sorted_le_nodup_lt; [apply zsort_sorted|].
    eapply Permutation_NoDup; [apply zsort_perm|]. apply NoDup_filter. apply upd_ids_nodup. exact ND.
  - intros i I. apply (Permutation_in _ (Permutation_sym (zsort_perm _))) in I.
    apply filter_In in I. destruct I as (I & Hi). apply upd_ids_in in I. destruct I as (v & I).
    apply in_get in I; auto. destruct (A _ _ I ltac:(lia)) as (u & Iu & Eu & ->).
    split; [lia|]. eauto.
  - intros u Iu (v & G). apply (Permutation_in _ (zsort_perm _)). apply filter_In. split.
    + apply upd_ids_in. exists v. apply get_in. exact G.
    + pose proof (chain_in_range _ _ _ C Iu). lia.
Qed.

(** * The asynchronous persister: any completion pattern *)
Definition asinv (s : mstate) (base : monitor) (pend : list Up) (safe : Z) : Prop :=
  ainv (durable s) base pend /\
  (forall k, In k (limbo s) -> touches k = true -> exists i, k = KUpd m i /\ i <= mid base) /\
  (forall i v, get (durable s) (KUpd m i) = Some v -> i <= mid (mem base pend)) /\
  safe <= mid (mem base pend) /\
  (forall u, In u pend -> uid u <= safe -> present (durable s) (uid u)).

Lemma mem_mid_len base pend : chain base pend -> mid (mem base pend) = mid base + Z.of_nat (List.length pend).
Proof. apply fold_upd_mid. Qed.

(* the update write of an update-only call became durable *)
Lemma asinv_write_update s base pend safe u :
  asinv s base pend safe -> uid u = mid (mem base pend) + 1 -> uid u < LEGACY_ID ->
  refuses (mst (mem base pend)) u = false ->
  asinv (aop s (SWrite (KUpd m (uid u)) (VUpd u))) base (pend ++ [u]) safe.
Proof.
  intros ([ND (sent & Hm) C Leg A Acc] & L & Top & Hs & P) E Hl Hacc.
  pose proof (mem_mid_len _ _ C) as ML.
  split; [|split; [|split; [|split]]].
  - constructor; sc.
    + apply nodup_set. exact ND.
    + exists sent. rewrite get_set_other by discriminate. exact Hm.
    + apply chain_app; auto.
    + intros x I. apply in_app_or in I. destruct I as [I|[<-|[]]]; auto.
    + intros i v G Hi. destruct (Z.eq_dec i (uid u)) as [->|Hne].
      * rewrite get_set_same in G. inversion G; subst. exists u. repeat split; auto. apply in_or_app. right. left. reflexivity.
      * rewrite get_set_other in G by congruence. destruct (A _ _ G Hi) as (x & Ix & Ex & Ev). exists x. repeat split; auto. apply in_or_app. auto.
    + intros c x Hn (v' & G). destruct (nth_error_snoc _ _ _ _ Hn) as [(Hn' & ->)|(-> & -> & ->)]; [|exact Hacc].
      apply (Acc c x Hn'). exists v'. rewrite get_set_other in G; auto.
      intros Heq. inversion Heq as [Hid]. pose proof (chain_in_range _ _ _ C (nth_error_In _ _ Hn')). lia.
  - sc. intros k I T. apply in_l_del in I. auto.
  - sc. intros i v G. rewrite mem_app. cbn [upd mid]. destruct (Z.eq_dec i (uid u)) as [->|Hne]; [lia|].
    rewrite get_set_other in G by congruence. specialize (Top _ _ G). lia.
  - rewrite mem_app. cbn [upd mid]. lia.
  - sc. intros x I Hx. apply in_app_or in I. destruct I as [I|[<-|[]]].
    + destruct (P _ I Hx) as (v & G). exists v. rewrite get_set_other; auto.
      intros Heq. inversion Heq as [Hid]. pose proof (chain_in_range _ _ _ C I). lia.
    + exists (VUpd u). apply get_set_same.
Qed.

(* nothing of the call became durable, but the in-memory monitor moved on *)
Lemma asinv_skip_update s base pend safe u :
  asinv s base pend safe -> uid u = mid (mem base pend) + 1 -> uid u < LEGACY_ID ->
  asinv s base (pend ++ [u]) safe.
Proof.
  intros ([ND (sent & Hm) C Leg A Acc] & L & Top & Hs & P) E Hl.
  split; [|split; [|split; [|split]]]; auto.
  - constructor; auto.
    + eauto.
    + apply chain_app; auto.
    + intros x I. apply in_app_or in I. destruct I as [I|[<-|[]]]; auto.
    + intros i v G Hi. destruct (A _ _ G Hi) as (x & Ix & Ex & Ev). exists x. repeat split; auto. apply in_or_app. auto.
    + intros c x Hn (v' & G). destruct (nth_error_snoc _ _ _ _ Hn) as [(Hn' & ->)|(-> & -> & ->)].
      * apply (Acc c x Hn'). eauto.
      * specialize (Top _ _ G). lia.
  - intros i v G. rewrite mem_app. cbn [upd mid]. specialize (Top _ _ G). lia.
  - rewrite mem_app. cbn [upd mid]. lia.
  - intros x I Hx. apply in_app_or in I. destruct I as [I|[<-|[]]]; auto. lia.
Qed.

(* a full monitor write became durable *)
Lemma asinv_write_monitor s base pend safe sent mon' :
  asinv s base pend safe -> mid (mem base pend) <= mid mon' ->
  asinv (aop s (SWrite (KMon m) (VMon sent mon'))) mon' [] safe.
Proof.
  intros ([ND (sent0 & Hm) C Leg A Acc] & L & Top & Hs & P) Hle.
  pose proof (mem_mid_len _ _ C) as ML.
  split; [|split; [|split; [|split]]].
  - constructor; sc.
    + apply nodup_set. exact ND.
    + exists sent. apply get_set_same.
    + exact I.
    + intros u [].
    + intros i v G Hi. rewrite get_set_other in G by discriminate. specialize (Top _ _ G). lia.
    + intros c u Hn. destruct c; discriminate.
  - sc. intros k I T. apply in_l_del in I. destruct (L _ I T) as (i & -> & Hi). exists i. split; auto. lia.
  - sc. intros i v G. rewrite get_set_other in G by discriminate. specialize (Top _ _ G). cbn. lia.
  - cbn. lia.
  - intros u [].
Qed.

Lemma asinv_benign s base pend safe o : asinv s base pend safe -> benign base o -> asinv (aop s o) base pend safe.
Proof.
  intros ([ND (sent & Hm) C Leg A Acc] & L & Top & Hs & P) B.
  assert (TM : touches (KMon m) = true) by (cbn; apply Z.eqb_refl).
  assert (TU : forall i, touches (KUpd m i) = true) by (intros; cbn; apply Z.eqb_refl).
  assert (Hpend : forall u, In u pend -> mid base < uid u) by (intros u I; pose proof (chain_in_range _ _ _ C I); lia).
  destruct B as [T|(j & lazy & -> & Hj)].
  - assert (Hk : forall k', touches k' = true -> k' <> sop_key o) by (intros k' T' ->; congruence).
    destruct o as [k v|k [|]]; cbn [sop_key] in *.
    + split; [|split; [|split; [|split]]].
      * constructor; sc.
        -- apply nodup_set; auto.
        -- exists sent. rewrite get_set_other; auto.
        -- exact C.
        -- exact Leg.
        -- intros i v' G Hi. rewrite get_set_other in G; eauto.
        -- intros c u Hn (v' & G). apply (Acc c u Hn). exists v'. rewrite get_set_other in G; auto.
      * sc. intros k' I T'. apply in_l_del in I. auto.
      * sc. intros i v' G. rewrite get_set_other in G; eauto.
      * exact Hs.
      * sc. intros u I Hu. destruct (P _ I Hu) as (v' & G). exists v'. rewrite get_set_other; auto.
    + split; [|split; [|split; [|split]]].
      * constructor; sc; eauto.
      * sc. intros k' [<-|I] T'; [congruence|auto].
      * sc. exact Top.
      * exact Hs.
      * sc. exact P.
    + split; [|split; [|split; [|split]]].
      * constructor; sc.
        -- apply nodup_del; auto.
        -- exists sent. rewrite get_del_other; auto.
        -- exact C.
        -- exact Leg.
        -- intros i v' G Hi. rewrite get_del_other in G; eauto.
        -- intros c u Hn (v' & G). apply (Acc c u Hn). exists v'. rewrite get_del_other in G; auto.
      * sc. intros k' I T'. apply in_l_del in I. auto.
      * sc. intros i v' G. rewrite get_del_other in G; eauto.
      * exact Hs.
      * sc. intros u I Hu. destruct (P _ I Hu) as (v' & G). exists v'. rewrite get_del_other; auto.
  - destruct lazy.
    + split; [|split; [|split; [|split]]].
      * constructor; sc; eauto.
      * sc. intros k' [<-|I] T'; eauto.
      * sc. exact Top.
      * exact Hs.
      * sc. exact P.
    + split; [|split; [|split; [|split]]].
      * constructor; sc.
        -- apply nodup_del; auto.
        -- exists sent. rewrite get_del_other by discriminate. auto.
        -- exact C.
        -- exact Leg.
        -- intros i v' G Hi. destruct (Z.eq_dec i j) as [->|Hne]; [lia|]. rewrite get_del_other in G by congruence. eauto.
        -- intros c u Hn (v' & G). apply (Acc c u Hn). exists v'.
           destruct (Z.eq_dec (uid u) j) as [Ej|Hne]; [rewrite Ej, get_del_same in G; discriminate|].
           rewrite get_del_other in G by congruence. exact G.
      * sc. intros k' I T'. apply in_l_del in I. auto.
      * sc. intros i v' G. destruct (Z.eq_dec i j) as [->|Hne]; [rewrite get_del_same in G; discriminate|].
        rewrite get_del_other in G by congruence. eauto.
      * exact Hs.
      * sc. intros u I Hu. destruct (P _ I Hu) as (v' & G). exists v'. rewrite get_del_other; auto.
        intros Heq. inversion Heq. specialize (Hpend _ I). lia.
Qed.

Lemma asinv_benign_ops : forall ops s base pend safe,
  asinv s base pend safe -> Forall (benign base) ops -> asinv (apply_sops mkey_eqb s ops) base pend safe.
Proof.
  induction ops as [|o ops IH]; intros s base pend safe H F; [exact H|].
  inversion F; subst. unfold apply_sops. cbn [fold_left]. apply IH; auto. apply asinv_benign; auto.
Qed.

Lemma select_forall {A} (P : A -> Prop) : forall l sel, Forall P l -> Forall P (select l sel).
Proof.
  induction l as [|x l IH]; intros sel F; destruct sel as [|[|] sel]; cbn; auto.
  - inversion F; subst. constructor; auto.
  - inversion F; subst. auto.
Qed.

(** what an observer sees still satisfies [ainv], and keeps the updates up to [safe] *)
Lemma asinv_view s base pend safe gone : asinv s base pend safe ->
  ainv (view mkey_eqb s gone) base pend /\
  (forall u, In u pend -> uid u <= safe -> present (view mkey_eqb s gone) (uid u)).
Proof.
  intros ([ND (sent & Hm) C Leg A Acc] & L & Top & Hs & P).
  set (keep := fun k : mkey => negb (existsb (fun g => mkey_eqb g k) gone && existsb (fun g => mkey_eqb g k) (limbo s))).
  assert (Hv : view mkey_eqb s gone = filter (fun kv => keep (fst kv)) (durable s)) by reflexivity.
  rewrite Hv. clear Hv.
  assert (Hkeep : forall k, touches k = true -> (forall i, k = KUpd m i -> mid base < i) -> keep k = true).
  { intros k T Hi. unfold keep. destruct (existsb (fun g => mkey_eqb g k) (limbo s)) eqn:E.
    - apply existsb_exists in E. destruct E as (g & I & E). apply mkey_eqb_spec in E. subst g.
      destruct (L _ I T) as (i & -> & Hle). specialize (Hi _ eq_refl). lia.
    - rewrite andb_false_r. reflexivity. }
  split.
  - constructor; auto.
    + apply nodup_filter. exact ND.
    + exists sent. rewrite (get_filter keep). rewrite Hkeep; auto; [cbn; apply Z.eqb_refl|intros i Hi; discriminate].
    + intros i v G Hi. rewrite (get_filter keep) in G. destruct (keep (KUpd m i)); [eauto|discriminate].
    + intros c u Hn (v' & G). apply (Acc c u Hn). rewrite (get_filter keep) in G.
      destruct (keep (KUpd m (uid u))); [eauto|discriminate].
  - intros u I Hu. destruct (P _ I Hu) as (v & G). exists v. rewrite (get_filter keep). rewrite Hkeep; auto.
    + cbn. apply Z.eqb_refl.
    + intros i Hi. inversion Hi; subst i. pose proof (chain_in_range _ _ _ C I). lia.
Qed.

Lemma nth_error_chain : forall pend base c u, chain base pend -> nth_error pend c = Some u ->
  uid u = mid base + Z.of_nat c + 1.
Proof.
  induction pend as [|u0 r IH]; intros base c u C E; destruct c; cbn in E; try discriminate.
  - inversion E; subst. destruct C. lia.
  - destruct C as (E0 & C). rewrite (IH _ _ _ C E). cbn. lia.
Qed.

Lemma chain_firstn : forall pend base c, chain base pend -> chain base (firstn c pend).
Proof.
  induction pend as [|u r IH]; intros base c C; destruct c; cbn; auto. destruct C. split; auto.
Qed.

(** Recovery from any state of the asynchronous persister: a monitor obtained from the stored one by a
    consecutive run of updates, at least as recent as [safe]. *)
Lemma asinv_recover s base pend safe gone : asinv s base pend safe ->
  exists c, read_with_updates _ _ apply uid refuses (view mkey_eqb s gone) m = ROk (mem base (firstn c pend)) /\
            safe <= mid (mem base (firstn c pend)).
Proof.
  intros H. pose proof H as ([_ _ C _ _ _] & _ & _ & Hs & _).
  destruct (asinv_view _ _ _ _ gone H) as (AV & PV).
  destruct (recover_gappy _ _ _ AV) as (c & R & Hp & Hn). exists c. split; auto.
  rewrite (mem_mid_len _ _ (chain_firstn _ _ c C)).
  destruct (nth_error pend c) as [u|] eqn:E.
  - pose proof (nth_error_chain _ _ _ _ C E) as Eu.
    assert (Hlen : (c < List.length pend)%nat) by (apply nth_error_Some; congruence).
    rewrite firstn_length, Nat.min_l by lia.
    destruct (Z.le_gt_cases (uid u) safe) as [Hle|Hgt]; [|lia].
    exfalso. apply (Hn u eq_refl). apply PV; auto. eapply nth_error_In; eauto.
  - apply nth_error_None in E. rewrite firstn_all2 by lia. rewrite <- (mem_mid_len _ _ C). exact Hs.
Qed.

(** ** call by call *)
Lemma call_ok_next cur c cur' : call_ok cur c cur' -> next_mem _ _ cur c = cur'.
Proof. intros OK. inversion OK; subst; reflexivity. Qed.

Lemma firstn_snoc {A} (l : list A) x n :
  firstn n (l ++ [x]) = firstn n l \/ firstn n (l ++ [x]) = l ++ [x].
Proof.
  destruct (Nat.le_gt_cases n (List.length l)).
  - left. rewrite firstn_app. replace (n - List.length l)%nat with 0%nat by lia. cbn. apply app_nil_r.
  - right. apply firstn_all2. rewrite app_length. cbn. lia.
Qed.

Lemma asinv_raise s base pend safe safe' : asinv s base pend safe ->
  (forall u, In u pend -> present (durable s) (uid u)) -> safe' <= mid (mem base pend) ->
  asinv s base pend safe'.
Proof. intros (A & L & Top & Hs & P) Hall Hle. split; [|split; [|split; [|split]]]; auto. Qed.

Lemma cleanup_stale_benign_a s base pend safe gone lazy :
  asinv s base pend safe -> Forall (benign base) (cleanup_stale_ops _ _ (view mkey_eqb s gone) lazy).
Proof.
  intros H. destruct (asinv_view _ _ _ _ gone H) as ([ND (sent & Hm) _ _ _ _] & _).
  unfold cleanup_stale_ops. rewrite Forall_forall. intros o I.
  apply in_flat_map in I. destruct I as (m' & _ & I).
  destruct (get (view mkey_eqb s gone) (KMon m')) as [[sent' mon'|?|?]|] eqn:G; try contradiction.
  unfold cleanup_to_ops in I. apply in_map_iff in I. destruct I as (i & <- & I). apply filter_In in I.
  destruct I as (_ & Hi). destruct (Z.eq_dec m' m) as [->|Hne].
  - rewrite Hm in G. inversion G; subst. right. exists i, lazy. split; auto. lia.
  - left. cbn. apply Z.eqb_neq. exact Hne.
Qed.

Lemma sel_ops_forall (P : mop -> Prop) ops x : Forall P ops -> Forall P (sel_ops _ _ ops x).
Proof.
  intros F. destruct x as [|rem]; destruct ops as [|w rs]; cbn [sel_ops]; try constructor.
  - inversion F; auto.
  - apply select_forall. inversion F; auto.
Qed.

Lemma present_benign_ops base pend x0 : chain base pend -> In x0 pend ->
  forall l (s0 : mstate), Forall (benign base) l ->
  present (durable s0) (uid x0) -> present (durable (apply_sops mkey_eqb s0 l)) (uid x0).
Proof.
  intros C Ix. induction l as [|o l IHl]; intros s0 F0 (v0 & G0); [exists v0; exact G0|].
  inversion F0 as [|? ? B F0']; subst. unfold apply_sops. cbn [fold_left]. apply IHl; auto.
  pose proof (chain_in_range _ _ _ C Ix) as R.
  destruct B as [T|(j & lazy & -> & Hj)].
  - assert (Hk : KUpd m (uid x0) <> sop_key o) by (intros E; rewrite <- E in T; cbn in T; rewrite Z.eqb_refl in T; discriminate).
    destruct o as [k0 v1|k0 [|]]; cbn [sop_key apply_sop durable] in *.
    + exists v0. rewrite get_set_other; auto.
    + exists v0. exact G0.
    + exists v0. rewrite get_del_other; auto.
  - destruct lazy; cbn [apply_sop durable]; [exists v0; exact G0|]. exists v0. rewrite get_del_other; auto.
    intros Heq. inversion Heq. lia.
Qed.

(* a call whose store operations are all harmless: the in-memory monitor does not move *)
Lemma async_benign_call s base pend safe l :
  asinv s base pend safe -> Forall (benign base) l ->
  asinv (apply_sops mkey_eqb s l) base pend safe /\
  ((forall u, In u pend -> present (durable s) (uid u)) ->
   forall u, In u pend -> present (durable (apply_sops mkey_eqb s l)) (uid u)).
Proof.
  intros H F. split; [apply asinv_benign_ops; auto|].
  intros Hall u Iu. pose proof H as ([_ _ C _ _ _] & _). eapply present_benign_ops; eauto.
Qed.

(** one call of the asynchronous persister with an arbitrary durability outcome [x] *)
Lemma async_call s base pend safe cur c cur' x :
  asinv s base pend safe -> mem base pend = cur -> call_ok cur c cur' ->
  exists base' pend',
    asinv (apply_sops mkey_eqb s (sel_ops _ _ (call_ops _ _ uid maxp s c) x)) base' pend' safe /\
    mem base' pend' = cur' /\
    (forall n, (exists n0, mem base' (firstn n pend') = mem base (firstn n0 pend)) \/
               mem base' (firstn n pend') = cur') /\
    (x <> SelNone -> (forall u, In u pend -> present (durable s) (uid u)) ->
     forall u, In u pend' ->
       present (durable (apply_sops mkey_eqb s (sel_ops _ _ (call_ops _ _ uid maxp s c) x))) (uid u)).
Proof.
  intros H M OK. pose proof H as ([_ _ C _ _ _] & _ & Top & Hs & _).
  inversion OK as [? u Eu Hl Hr | ? | ? u Eu Hl Hr | ? lazy gone | ? ops Fo]; subst; cbn [call_ops].
  - (* update *)
    unfold update_ops.
    destruct (negb (uid u =? LEGACY_ID) && negb (maxp =? 0) && negb (uid u mod maxp =? 0)) eqn:D.
    + (* update only *)
      destruct x as [|rem]; cbn [sel_ops select]; unfold apply_sops; cbn [fold_left].
      * exists base, (pend ++ [u]). split; [|split; [|split]].
        -- apply asinv_skip_update; auto.
        -- apply mem_app.
        -- intros n. destruct (firstn_snoc pend u n) as [->| ->]; [left; eauto|right; apply mem_app].
        -- intros X. contradiction.
      * assert (Hsel : select (@nil mop) rem = []) by (destruct rem as [|[|] ?]; reflexivity).
        try rewrite Hsel. cbn [select fold_left].
        exists base, (pend ++ [u]). split; [|split; [|split]].
        -- apply asinv_write_update; auto.
        -- apply mem_app.
        -- intros n. destruct (firstn_snoc pend u n) as [->| ->]; [left; eauto|right; apply mem_app].
        -- intros _ Hall x Ix. apply in_app_or in Ix. sc. destruct Ix as [Ix|[<-|[]]].
           ++ destruct (Hall _ Ix) as (v & G). exists v. rewrite get_set_other; auto.
              intros Heq. inversion Heq. pose proof (chain_in_range _ _ _ C Ix). pose proof (mem_mid_len _ _ C). lia.
           ++ exists (VUpd u). apply get_set_same.
    + (* consolidation: full monitor, then (after it completed) the in-range clean-up *)
      cbn [mid upd]. replace (uid u =? LEGACY_ID) with false by (symmetry; apply Z.eqb_neq; lia).
      unfold persist_new_ops. cbn [app].
      destruct x as [|rem]; cbn [sel_ops]; unfold apply_sops; cbn [fold_left].
      * exists base, (pend ++ [u]). split; [|split; [|split]].
        -- apply asinv_skip_update; auto.
        -- apply mem_app.
        -- intros n. destruct (firstn_snoc pend u n) as [->| ->]; [left; eauto|right; apply mem_app].
        -- intros X. contradiction.
      * exists (upd (mem base pend) u), []. split; [|split; [reflexivity|split]].
        -- apply asinv_benign_ops.
           ++ eapply asinv_write_monitor; eauto. cbn. lia.
           ++ apply select_forall. unfold cleanup_in_range_ops. rewrite Forall_forall. intros o I. apply in_map_iff in I.
              destruct I as (i & <- & I). apply zrange_incl_le in I. right. exists i, true. split; auto. cbn. lia.
        -- intros n. right. rewrite firstn_nil. reflexivity.
        -- intros _ _ x [].
  - (* full re-persist *)
    unfold update_ops, persist_new_ops.
    destruct x as [|rem]; cbn [sel_ops]; unfold apply_sops; cbn [fold_left].
    + exists base, pend. split; [exact H|split; [reflexivity|split]]; [intros n; left; eauto|intros X; contradiction].
    + assert (Hsel : select (@nil mop) rem = []) by (destruct rem as [|[|] ?]; reflexivity).
      try rewrite Hsel. cbn [select fold_left]. exists (mem base pend), []. split; [|split; [reflexivity|split]].
      * eapply asinv_write_monitor; eauto. lia.
      * intros n. right. rewrite firstn_nil. reflexivity.
      * intros _ _ x [].
  - (* refused update: full (changed) monitor, or - if that write is not durable - a monitor that is
       simply not recoverable beyond the stored state *)
    unfold update_ops, persist_new_ops.
    destruct x as [|rem]; cbn [sel_ops]; unfold apply_sops; cbn [fold_left].
    + exists base, (pend ++ [u]). split; [|split; [|split]].
      * apply asinv_skip_update; auto.
      * apply mem_app.
      * intros n. destruct (firstn_snoc pend u n) as [->| ->]; [left; eauto|right; apply mem_app].
      * intros X. contradiction.
    + assert (Hsel : select (@nil mop) rem = []) by (destruct rem as [|[|] ?]; reflexivity).
      try rewrite Hsel. cbn [select fold_left]. exists (upd (mem base pend) u), []. split; [|split; [reflexivity|split]].
      * eapply asinv_write_monitor; eauto. cbn. lia.
      * intros n. right. rewrite firstn_nil. reflexivity.
      * intros _ _ x [].
  - (* clean-up of stale updates, observing any view *)
    pose proof (cleanup_stale_benign_a _ _ _ _ gone lazy H) as Fb.
    destruct (async_benign_call _ _ _ _ _ H (sel_ops_forall _ _ x Fb)) as (A1 & A2).
    exists base, pend. split; [exact A1|split; [reflexivity|split]].
    + intros n. left. eauto.
    + intros _ Hall. apply A2. exact Hall.
  - (* other traffic *)
    assert (Fb : Forall (benign base) ops) by (rewrite Forall_forall in *; intros o I; left; auto).
    destruct (async_benign_call _ _ _ _ _ H (sel_ops_forall _ _ x Fb)) as (A1 & A2).
    exists base, pend. split; [exact A1|split; [reflexivity|split]].
    + intros n. left. eauto.
    + intros _ Hall. apply A2. exact Hall.
Qed.

Lemma async_hist : forall cs sels s base pend safe cur fin,
  asinv s base pend safe -> mem base pend = cur -> hist_ok cur cs fin ->
  exists base' pend', asinv (async_run _ _ uid maxp s cs sels) base' pend' safe /\
    forall n, (exists n0, mem base' (firstn n pend') = mem base (firstn n0 pend)) \/
              In (mem base' (firstn n pend')) (mems _ _ cur cs).
Proof.
  induction cs as [|c cs IH]; intros sels s base pend safe cur fin H M HO.
  - cbn. exists base, pend. split; auto. intros n. left. eauto.
  - destruct sels as [|x xs].
    + cbn. exists base, pend. split; auto. intros n. left. eauto.
    + inversion HO as [|? ? cur' ? ? OK HO']; subst.
      destruct (async_call _ _ _ _ _ _ _ x H eq_refl OK) as (b1 & p1 & H1 & M1 & R1 & _).
      destruct (IH xs _ _ _ _ _ _ H1 M1 HO') as (b2 & p2 & H2 & R2).
      exists b2, p2. split; [exact H2|].
      intros n. cbn [mems]. rewrite (call_ok_next _ _ _ OK).
      destruct (R2 n) as [(n0 & E)|I].
      * rewrite E. destruct (R1 n0) as [(n1 & E1)|E1].
        -- left. eauto.
        -- right. right. rewrite E1, <- M1. destruct cs; cbn; auto.
      * right. right. exact I.
Qed.

(** the same when every call so far completed: everything pending is present *)
Lemma async_hist_complete : forall cs sels s base pend cur fin,
  asinv s base pend (mid cur) -> mem base pend = cur ->
  (forall u, In u pend -> present (durable s) (uid u)) ->
  hist_ok cur cs fin ->
  List.length sels = List.length cs -> Forall (fun x => x <> SelNone) sels ->
  exists base' pend', asinv (async_run _ _ uid maxp s cs sels) base' pend' (mid fin) /\ mem base' pend' = fin /\
    (forall u, In u pend' -> present (durable (async_run _ _ uid maxp s cs sels)) (uid u)).
Proof.
  induction cs as [|c cs IH]; intros sels s base pend cur fin H M Hall HO Hlen Fs.
  - inversion HO; subst. cbn. exists base, pend. auto.
  - destruct sels as [|x xs]; [discriminate|].
    inversion HO as [|? ? cur' ? ? OK HO']; subst.
    inversion Fs as [|? ? Fx Fs']; subst.
    destruct (async_call _ _ _ _ _ _ _ x H eq_refl OK) as (b1 & p1 & H1 & M1 & _ & P1).
    specialize (P1 Fx Hall).
    assert (H1' : asinv (apply_sops mkey_eqb s (sel_ops _ _ (call_ops _ _ uid maxp s c) x)) b1 p1 (mid cur')).
    { apply asinv_raise with (safe := mid (mem base pend)); auto. rewrite M1. lia. }
    cbn [async_run]. apply (IH xs _ b1 p1 cur' fin); auto.
Qed.

Lemma asinv_init mon0 :
  asinv (run_call _ _ uid maxp (@empty_state St Up) (CNew m mon0)) mon0 [] (mid mon0).
Proof.
  unfold run_call. cbn. split; [|split; [|split; [|split]]].
  - constructor; cbn.
    + constructor; [intros []|constructor].
    + exists (negb (maxp =? 0)). unfold kv_get. cbn. rewrite Z.eqb_refl. reflexivity.
    + exact I.
    + intros u [].
    + intros i v G. unfold kv_get in G. cbn in G. discriminate.
    + intros c u Hn. destruct c; discriminate.
  - cbn. intros k [].
  - intros i v G. unfold kv_get in G. cbn in G. discriminate.
  - cbn. lia.
  - intros u [].
Qed.

Lemma async_run_app : forall cs1 sels1 (s : mstate) cs2 sels2, List.length sels1 = List.length cs1 ->
  async_run St Up uid maxp s (cs1 ++ cs2) (sels1 ++ sels2) =
  async_run _ _ uid maxp (async_run _ _ uid maxp s cs1 sels1) cs2 sels2.
Proof.
  induction cs1 as [|c cs1 IH]; intros sels1 s cs2 sels2 Hl; destruct sels1 as [|x xs]; try discriminate; cbn; auto.
Qed.

Lemma hist_ok_app : forall cs1 cur mid_ cs2 fin, hist_ok cur cs1 mid_ -> hist_ok mid_ cs2 fin -> hist_ok cur (cs1 ++ cs2) fin.
Proof. induction cs1; intros cur mid_ cs2 fin H1 H2; inversion H1; subst; cbn; auto. econstructor; eauto. Qed.

(** Asynchronous persister, ANY durability outcome of every call: recovery never fails and returns
    one of the in-memory monitors of the history. *)
Theorem async_safe mon0 cs fin sels gone :
  hist_ok mon0 cs fin ->
  let s := async_run _ _ uid maxp (@empty_state St Up) (CNew m mon0 :: cs) (SelWrite [] :: sels) in
  exists r, read_with_updates _ _ apply uid refuses (view mkey_eqb s gone) m = ROk r /\ In r (mems _ _ mon0 cs).
Proof.
  intros HO. cbv zeta. cbn [async_run call_ops]. unfold persist_new_ops. cbn [sel_ops select].
  change (apply_sops mkey_eqb (@empty_state St Up) [SWrite (KMon m) (VMon (negb (maxp =? 0)) mon0)])
    with (run_call _ _ uid maxp (@empty_state St Up) (CNew m mon0)).
  destruct (async_hist cs sels _ _ _ _ _ _ (asinv_init mon0) eq_refl HO) as (b & p & H & R).
  destruct (asinv_recover _ _ _ _ gone H) as (c & Rd & _).
  exists (mem b (firstn c p)). split; auto.
  destruct (R c) as [(n0 & E)|I]; auto. rewrite E. rewrite firstn_nil. cbn. destruct cs; cbn; auto.
Qed.

(** ... and it is at least as recent as the in-memory monitor after the last call of a fully completed
    prefix of the history (everything reported persisted is included). *)
Theorem async_reported mon0 cs1 cs2 fin1 fin sels1 sels2 gone :
  hist_ok mon0 cs1 fin1 -> hist_ok fin1 cs2 fin ->
  List.length sels1 = List.length cs1 -> Forall (fun x => x <> SelNone) sels1 ->
  let s := async_run _ _ uid maxp (@empty_state St Up) (CNew m mon0 :: cs1 ++ cs2) (SelWrite [] :: sels1 ++ sels2) in
  exists r, read_with_updates _ _ apply uid refuses (view mkey_eqb s gone) m = ROk r /\
            In r (mems _ _ mon0 (cs1 ++ cs2)) /\ mid fin1 <= mid r.
Proof.
  intros HO1 HO2 Hlen Fs. cbv zeta.
  destruct (async_safe mon0 (cs1 ++ cs2) fin (sels1 ++ sels2) gone (hist_ok_app _ _ _ _ _ HO1 HO2)) as (r & Rd & In_r).
  exists r. split; auto. split; auto.
  cbv zeta in Rd. cbn [async_run call_ops] in Rd. unfold persist_new_ops in Rd. cbn [sel_ops select] in Rd.
  change (apply_sops mkey_eqb (@empty_state St Up) [SWrite (KMon m) (VMon (negb (maxp =? 0)) mon0)])
    with (run_call _ _ uid maxp (@empty_state St Up) (CNew m mon0)) in Rd.
  rewrite async_run_app in Rd by exact Hlen.
  destruct (async_hist_complete cs1 sels1 _ _ _ _ _ (asinv_init mon0) eq_refl (fun u (I : In u []) => match I with end) HO1 Hlen Fs)
    as (b1 & p1 & H1 & M1 & _).
  destruct (async_hist cs2 sels2 _ _ _ _ _ _ H1 M1 HO2) as (b2 & p2 & H2 & _).
  destruct (asinv_recover _ _ _ _ gone H2) as (c & Rd2 & Hs2).
  rewrite Rd2 in Rd. inversion Rd; subst r. exact Hs2.
Qed.

(** * Failing store operations and crashes in the middle of a call *)
Lemma firstn_select {A} : forall (l : list A) sel k, exists sel', firstn k (select l sel) = select l sel'.
Proof.
  induction l as [|x l IH]; intros sel k.
  - exists []. destruct sel as [|[|] ?]; cbn; apply firstn_nil.
  - destruct sel as [|[|] sel]; cbn [select].
    + exists []. apply firstn_nil.
    + destruct k; [exists []; reflexivity|]. destruct (IH sel k) as (s' & E). exists (true :: s'). cbn. rewrite E. reflexivity.
    + destruct (IH sel k) as (s' & E). exists (false :: s'). cbn. exact E.
Qed.

Lemma firstn_sel_ops (ops : list mop) x k : exists x', firstn k (sel_ops _ _ ops x) = sel_ops _ _ ops x'.
Proof.
  destruct x as [|rem]; [exists (@SelNone); cbn; apply firstn_nil|].
  destruct ops as [|w rs]; [exists (@SelNone); cbn; apply firstn_nil|].
  destruct k; [exists (@SelNone); reflexivity|].
  destruct (firstn_select rs rem k) as (rem' & E). exists (SelWrite rem'). cbn. rewrite E. reflexivity.
Qed.

(** Sync or async persister, every call of [cs1] completed (its write durable, ANY subset of its
    removals applied - failed, lazy, or not yet executed), then the call [c] with ANY outcome [x]
    (including: its write failed, so nothing of it was applied) interrupted after ANY number [k] of the
    operations it did apply: recovery returns an in-memory monitor of the history at least as recent as
    the one after [cs1], i.e. as everything reported persisted. *)
Theorem faulty_crash_consistent mon0 cs1 fin1 c after sels1 x k gone :
  hist_ok mon0 cs1 fin1 -> call_ok fin1 c after ->
  List.length sels1 = List.length cs1 -> Forall (fun y => y <> SelNone) sels1 ->
  let s1 := async_run _ _ uid maxp (@empty_state St Up) (CNew m mon0 :: cs1) (SelWrite [] :: sels1) in
  let s := apply_sops mkey_eqb s1 (firstn k (sel_ops _ _ (call_ops _ _ uid maxp s1 c) x)) in
  exists r, read_with_updates _ _ apply uid refuses (view mkey_eqb s gone) m = ROk r /\
            In r (mems _ _ mon0 (cs1 ++ [c])) /\ mid fin1 <= mid r.
Proof.
  intros HO1 OK Hlen Fs. cbv zeta.
  destruct (firstn_sel_ops (call_ops _ _ uid maxp
              (async_run _ _ uid maxp (@empty_state St Up) (CNew m mon0 :: cs1) (SelWrite [] :: sels1)) c) x k) as (x' & E).
  rewrite E.
  assert (HO2 : hist_ok fin1 [c] after) by (econstructor; eauto; constructor).
  destruct (async_reported mon0 cs1 [c] fin1 after sels1 [x'] gone HO1 HO2 Hlen Fs) as (r & Rd & Ir & Hm).
  exists r. split; [|split; auto].
  cbv zeta in Rd. rewrite <- Rd. f_equal. f_equal.
  cbn [async_run call_ops]. unfold persist_new_ops. cbn [sel_ops select].
  rewrite !async_run_app by exact Hlen. cbn [async_run]. reflexivity.
Qed.

(** Clean-up safety, structurally: (a) the in-range clean-up of [update_persisted_channel] comes only
    after the write of a full monitor in the same call and removes only ids up to that monitor's id;
    (b) [cleanup_stale_updates] removes only ids up to the id of the monitor it read for that key.
    (That recovery never needs a removed update is [crash_consistent].) *)
Theorem cleanup_safe :
  (forall m' (st : mstore) u (mon : monitor) (o : mop), mid mon <> LEGACY_ID ->
     In o (update_ops _ _ uid maxp m' st u mon) ->
     (exists k v, o = SWrite k v) \/
     (exists i, o = SRemove (KUpd m' i) true /\ i <= mid mon /\
                exists sent rest, update_ops _ _ uid maxp m' st u mon = SWrite (KMon m') (VMon sent mon) :: rest)) /\
  (forall (st : mstore) lazy (o : mop), In o (cleanup_stale_ops _ _ st lazy) ->
     exists m' i sent (mon : monitor), o = SRemove (KUpd m' i) lazy /\
       get st (KMon m') = Some (VMon sent mon) /\ i <= mid mon).
Proof.
  split.
  - intros m' st u mon o Hl I. unfold update_ops in I.
    destruct u as [u|].
    + destruct (negb (uid u =? LEGACY_ID) && negb (maxp =? 0) && negb (uid u mod maxp =? 0)) eqn:D.
      * destruct I as [<-|[]]. left. eauto.
      * unfold update_ops. rewrite D.
        replace (mid mon =? LEGACY_ID) with false in * by (symmetry; apply Z.eqb_neq; exact Hl).
        cbn in I. destruct I as [<-|I]; [left; eauto|]. right.
        unfold cleanup_in_range_ops in I. apply in_map_iff in I. destruct I as (i & <- & I).
        apply zrange_incl_le in I. exists i. split; auto. split; [lia|]. unfold persist_new_ops. cbn. eauto.
    + destruct I as [<-|[]]. left. eauto.
  - intros st lazy o I. unfold cleanup_stale_ops in I.
    apply in_flat_map in I. destruct I as (m' & _ & I).
    destruct (get st (KMon m')) as [[sent' mon'|?|?]|] eqn:G; try contradiction.
    unfold cleanup_to_ops in I. apply in_map_iff in I. destruct I as (i & <- & I). apply filter_In in I.
    destruct I as (_ & Hi). exists m', i, sent', mon'. repeat split; auto. lia.
Qed.

End Proofs.


Lemma no_cleanup_after_failed_write :
  forall (St Up : Type) (uid : Up -> Z) (maxp : Z) s c fails,
  fails 0%nat = true -> call_ops_f St Up uid maxp s c fails = ([], false).
Proof. intros St Up uid maxp s c fails H. unfold call_ops_f, sel_of_fails. rewrite H. reflexivity. Qed.
